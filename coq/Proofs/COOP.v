(* Proofs/COOP.v — dense meaning and canonical form of COO: round trip with dense arrays,
   and uniqueness of the canonical pruned representation (representation independence). *)
From Coq Require Import ZArith List Bool Lia Sorting.Sorted.
From Verif Require Import Shape COO.
Import ListNotations.
Open Scope Z_scope.

(* ---------------------------------------------------------------- sortedness *)

Lemma sorted_strict_SS l : sorted_strict l = true <-> StronglySorted lex_lt l.
Proof.
  induction l as [|a r IH]; simpl.
  - split; [constructor|reflexivity].
  - destruct r as [|b r'].
    + split; [intros _; constructor; constructor|reflexivity].
    + rewrite andb_true_iff, lex_ltb_spec, IH. split.
      * intros [Hab Hs]. constructor; [assumption|].
        inversion Hs as [|? ? Hs' Hall]; subst. constructor; [assumption|].
        eapply Forall_impl; [|exact Hall]. intros c Hc. eapply lex_lt_trans; eauto.
      * intros Hs. inversion Hs as [|? ? Hs' Hall]; subst. split; [|assumption].
        inversion Hall; assumption.
Qed.

Lemma SS_app {A} (R : A -> A -> Prop) l1 l2 :
  StronglySorted R l1 -> StronglySorted R l2 ->
  (forall a b, In a l1 -> In b l2 -> R a b) -> StronglySorted R (l1 ++ l2).
Proof.
  induction l1 as [|x l1 IH]; simpl; intros H1 H2 H; [assumption|].
  inversion H1 as [|? ? H1' Hall]; subst. constructor.
  - apply IH; auto.
  - apply Forall_app. split; [assumption|]. apply Forall_forall. intros b Hb. apply H; auto.
Qed.

Lemma SS_filter {A} (R : A -> A -> Prop) p l : StronglySorted R l -> StronglySorted R (filter p l).
Proof.
  induction 1 as [|a l Hs IH Hall]; simpl; [constructor|].
  destruct (p a); [|assumption]. constructor; [assumption|].
  apply Forall_forall. intros x Hx. apply filter_In in Hx. destruct Hx as [Hx _].
  rewrite Forall_forall in Hall. auto.
Qed.

Lemma SS_map_cons i l : StronglySorted lex_lt l -> StronglySorted lex_lt (map (cons i) l).
Proof.
  induction 1 as [|a l Hs IH Hall]; simpl; constructor; [assumption|].
  apply Forall_forall. intros x Hx. apply in_map_iff in Hx. destruct Hx as [y [<- Hy]].
  simpl. right. split; [reflexivity|]. rewrite Forall_forall in Hall. auto.
Qed.

Lemma SS_seq_Z s n : StronglySorted Z.lt (map Z.of_nat (seq s n)).
Proof.
  revert s; induction n as [|n IH]; intros s; simpl; constructor; [apply IH|].
  apply Forall_forall. intros x Hx. apply in_map_iff in Hx. destruct Hx as [k [<- Hk]].
  apply in_seq in Hk. lia.
Qed.

Lemma SS_flat_map_cons (zs : list Z) (t : list idx) :
  StronglySorted Z.lt zs -> StronglySorted lex_lt t ->
  StronglySorted lex_lt (flat_map (fun i => map (cons i) t) zs).
Proof.
  intros Hz Ht. induction Hz as [|z zs Hs IH Hall]; simpl; [constructor|].
  apply SS_app; [apply SS_map_cons; assumption|assumption|].
  intros a b Ha Hb. apply in_map_iff in Ha. destruct Ha as [a' [<- _]].
  apply in_flat_map in Hb. destruct Hb as [j [Hj Hb]]. apply in_map_iff in Hb.
  destruct Hb as [b' [<- _]]. simpl. left. rewrite Forall_forall in Hall. auto.
Qed.

Lemma all_indices_SS sh : StronglySorted lex_lt (all_indices sh).
Proof.
  induction sh as [|d sh IH]; simpl.
  - constructor; constructor.
  - apply SS_flat_map_cons; [apply SS_seq_Z|assumption].
Qed.

Lemma SS_lex_NoDup l : StronglySorted lex_lt l -> NoDup l.
Proof.
  induction 1 as [|a l Hs IH Hall]; constructor; [|assumption].
  intros Hin. rewrite Forall_forall in Hall. apply (lex_lt_irrefl a). auto.
Qed.

Lemma all_indices_NoDup sh : NoDup (all_indices sh).
Proof. apply SS_lex_NoDup, all_indices_SS. Qed.

(* ---------------------------------------------------------------- lookup *)

Section WithV.
  Variable V : Type.
  Variable veqb : V -> V -> bool.
  Hypothesis veqb_eq : forall a b, veqb a b = true <-> a = b.

  Lemma lookup_notin (es : list (idx * V)) ix : ~ In ix (map fst es) -> lookup es ix = None.
  Proof.
    induction es as [|[k v] r IH]; simpl; intros H; [reflexivity|].
    rewrite IH by tauto. destruct (idx_eqb k ix) eqn:E; [|reflexivity].
    apply idx_eqb_eq in E. tauto.
  Qed.

  Lemma lookup_In (es : list (idx * V)) ix v :
    NoDup (map fst es) -> (lookup es ix = Some v <-> In (ix, v) es).
  Proof.
    revert v. induction es as [|[k w] r IH]; simpl; intros v Hnd.
    - split; [discriminate|tauto].
    - inversion Hnd as [|? ? Hk Hnd']; subst. pose proof (fun v => IH v Hnd') as IH'. clear IH. rename IH' into IH.
      destruct (lookup r ix) as [u|] eqn:El.
      + split.
        * intros H. right. apply IH. assumption.
        * intros [H|H]; [|apply IH; assumption].
          inversion H; subst. exfalso. apply Hk.
          assert (In (ix, u) r) by (apply IH; reflexivity).
          apply in_map_iff. exists (ix, u). auto.
      + destruct (idx_eqb k ix) eqn:E.
        * apply idx_eqb_eq in E. subst k. split.
          -- intros H; inversion H; subst; auto.
          -- intros [H|H]; [inversion H; reflexivity|].
             apply IH in H. discriminate.
        * split; [discriminate|]. intros [H|H].
          -- inversion H; subst. rewrite idx_eqb_refl in E. discriminate.
          -- apply IH in H. discriminate.
  Qed.

  Definition nonfill (fill : V) (kv : idx * V) : bool := negb (veqb (snd kv) fill).

  Lemma filter_fst_incl {A B} (p : A * B -> bool) (l : list (A * B)) x :
    In x (map fst (filter p l)) -> In x (map fst l).
  Proof.
    intros H. apply in_map_iff in H. destruct H as [[a b] [<- Hin]].
    apply filter_In in Hin. apply in_map_iff. exists (a, b). tauto.
  Qed.

  (* reading back every position of a dense array from its sparse form *)
  Lemma map_lookup_filter (ks : list idx) (vs : list V) fill :
    NoDup ks -> length ks = length vs ->
    map (fun k => match lookup (filter (nonfill fill) (combine ks vs)) k with Some v => v | None => fill end) ks = vs.
  Proof.
    revert vs; induction ks as [|k ks IH]; intros [|v vs] Hnd Hlen; simpl in *; try discriminate; [reflexivity|].
    inversion Hnd as [|? ? Hk Hnd']; subst.
    assert (Hnone : lookup (filter (nonfill fill) (combine ks vs)) k = None).
    { apply lookup_notin. intros H. apply filter_fst_incl in H.
      apply Hk. clear -H. revert vs H. induction ks as [|a ks IH]; intros [|b vs]; simpl; try tauto.
      intros [->|H]; [left; reflexivity|right; eapply IH; eauto]. }
    f_equal.
    - unfold nonfill at 1. simpl. destruct (veqb v fill) eqn:E; simpl.
      + rewrite Hnone. apply veqb_eq in E. congruence.
      + rewrite Hnone, idx_eqb_refl. reflexivity.
    - etransitivity; [|apply (IH vs Hnd'); lia].
      apply map_ext_in. intros a Ha.
      unfold nonfill at 1. simpl. destruct (veqb v fill); simpl; [reflexivity|].
      destruct (lookup (filter (nonfill fill) (combine ks vs)) a); [reflexivity|].
      destruct (idx_eqb k a) eqn:E; [|reflexivity].
      apply idx_eqb_eq in E. subst. tauto.
  Qed.

  (* ------------------------------------------------------------ dense <-> COO *)

  Theorem todense_from_dense (d : dense V) fill :
    dense_wf d -> todense (from_dense veqb d fill) = d.
  Proof.
    intros Hwf. destruct d as [sh flat]. unfold dense_wf in Hwf. simpl in Hwf.
    unfold todense, from_dense, tabulate, den, entries. simpl. f_equal.
    etransitivity; [|apply (map_lookup_filter (all_indices sh) flat fill); auto using all_indices_NoDup].
    apply map_ext. intros ix.
    set (es := filter _ _).
    replace (combine (map fst es) (map snd es)) with es; [reflexivity|].
    clear. induction es as [|[a b] r IH]; simpl; congruence.
  Qed.

  Lemma forallb_map_filter_fst sh (l : list (idx * V)) p :
    (forall kv, In kv l -> in_range sh (fst kv)) ->
    forallb (in_rangeb sh) (map fst (filter p l)) = true.
  Proof.
    intros H. apply forallb_forall. intros x Hx. apply in_map_iff in Hx.
    destruct Hx as [kv [<- Hin]]. apply filter_In in Hin. apply in_rangeb_spec. apply H. tauto.
  Qed.

  Lemma SS_map_fst_filter (ks : list idx) (vs : list V) p :
    StronglySorted lex_lt ks -> StronglySorted lex_lt (map fst (filter p (combine ks vs))).
  Proof.
    intros Hs. revert vs. induction Hs as [|k ks Hs IH Hall]; intros [|v vs]; simpl; try constructor.
    destruct (p (k, v)); simpl; [|apply IH].
    constructor; [apply IH|]. apply Forall_forall. intros x Hx. apply filter_fst_incl in Hx.
    rewrite Forall_forall in Hall. apply Hall.
    clear -Hx. revert vs Hx. induction ks as [|a ks IH]; intros [|b vs]; simpl; try tauto.
    intros [->|H]; [left; reflexivity|right; eapply IH; eauto].
  Qed.

  Theorem from_dense_canonical (d : dense V) fill :
    canonicalb (from_dense veqb d fill) = true /\ prunedb veqb (from_dense veqb d fill) = true.
  Proof.
    destruct d as [sh flat]. unfold canonicalb, prunedb, from_dense. simpl. split.
    - rewrite !andb_true_iff. repeat split.
      + apply forallb_map_filter_fst. intros [k v] Hin. simpl.
        apply in_combine_l in Hin. apply all_indices_In. assumption.
      + apply sorted_strict_SS. apply SS_map_fst_filter. apply all_indices_SS.
      + rewrite !map_length. apply Nat.eqb_refl.
    - apply forallb_forall. intros v Hv. apply in_map_iff in Hv. destruct Hv as [kv [<- Hin]].
      apply filter_In in Hin. tauto.
  Qed.

  (* ------------------------------------------------------------ canonical form is unique *)

  Definition canonical (c : coo V) : Prop :=
    Forall (in_range (c_shape c)) (c_coords c) /\ StronglySorted lex_lt (c_coords c)
    /\ length (c_data c) = length (c_coords c).

  Lemma canonicalb_spec (c : coo V) : canonicalb c = true <-> canonical c.
  Proof.
    unfold canonicalb, canonical. rewrite !andb_true_iff, sorted_strict_SS, Nat.eqb_eq.
    rewrite forallb_forall, Forall_forall.
    split; intros [[H1 H2] H3] || intros [H1 [H2 H3]]; repeat split; auto;
      intros x Hx; apply in_rangeb_spec; auto.
  Qed.

  Lemma combine_map_fst {A B} (l1 : list A) (l2 : list B) :
    length l1 = length l2 -> map fst (combine l1 l2) = l1.
  Proof. revert l2; induction l1; intros [|b l2]; simpl; try discriminate; auto. intros H. f_equal. apply IHl1. lia. Qed.

  Lemma den_stored (c : coo V) ix v :
    canonical c -> In (ix, v) (entries c) -> den c ix = v.
  Proof.
    intros [_ [Hs Hl]] Hin. unfold den.
    assert (Hnd : NoDup (map fst (entries c))).
    { unfold entries. rewrite combine_map_fst by lia. apply SS_lex_NoDup. assumption. }
    apply (lookup_In _ _ _ Hnd) in Hin. rewrite Hin. reflexivity.
  Qed.

  Lemma den_unstored (c : coo V) ix : ~ In ix (c_coords c) -> den c ix = c_fill c.
  Proof.
    intros H. unfold den. rewrite lookup_notin; [reflexivity|].
    intros Hin. apply H. unfold entries in Hin. apply in_map_iff in Hin.
    destruct Hin as [[a b] [<- Hin]]. apply in_combine_l in Hin. assumption.
  Qed.

  (* two strictly sorted lists with the same members are equal *)
  Lemma SS_same_members (l1 l2 : list idx) :
    StronglySorted lex_lt l1 -> StronglySorted lex_lt l2 ->
    (forall x, In x l1 <-> In x l2) -> l1 = l2.
  Proof.
    intros H1. revert l2. induction H1 as [|a l1 Hs1 IH Hall1]; intros l2 H2 Hm.
    - destruct l2 as [|b l2]; [reflexivity|]. exfalso. apply (Hm b). left; reflexivity.
    - destruct H2 as [|b l2 Hs2 Hall2]; [exfalso; apply (Hm a); left; reflexivity|].
      rewrite Forall_forall in Hall1, Hall2.
      assert (a = b).
      { destruct (proj1 (Hm a) (or_introl eq_refl)) as [->|Ha]; [reflexivity|].
        destruct (proj2 (Hm b) (or_introl eq_refl)) as [->|Hb]; [reflexivity|].
        exfalso. apply (lex_lt_irrefl a). eapply lex_lt_trans; [apply Hall1, Hb|apply Hall2, Ha]. }
      subst b. f_equal. apply IH; [assumption|].
      intros x. split; intros Hx.
      + destruct (proj1 (Hm x) (or_intror Hx)) as [->|?]; [|assumption].
        exfalso. apply (lex_lt_irrefl x). apply Hall1. assumption.
      + destruct (proj2 (Hm x) (or_intror Hx)) as [->|?]; [|assumption].
        exfalso. apply (lex_lt_irrefl x). apply Hall2. assumption.
  Qed.

  Lemma stored_iff (c : coo V) ix :
    canonical c -> prunedb veqb c = true ->
    (In ix (c_coords c) <-> (in_range (c_shape c) ix /\ den c ix <> c_fill c)).
  Proof.
    intros Hc Hp. pose proof Hc as [Hr [Hs Hl]]. split.
    - intros Hin. split; [rewrite Forall_forall in Hr; auto|].
      assert (exists v, In (ix, v) (entries c)) as [v Hv].
      { unfold entries. clear -Hin Hl. revert Hl Hin. generalize (c_data c). induction (c_coords c) as [|k ks IH];
        intros [|v vs] Hl Hin; simpl in *; try tauto; try discriminate.
        destruct Hin as [->|Hin]; [exists v; auto|]. destruct (IH vs) as [w Hw]; auto. exists w; auto. }
      rewrite (den_stored _ _ _ Hc Hv). unfold prunedb in Hp. rewrite forallb_forall in Hp.
      assert (In v (c_data c)) by (eapply in_combine_r; exact Hv).
      specialize (Hp _ H). intros Heq. rewrite <- veqb_eq in Heq. rewrite Heq in Hp. discriminate.
    - intros [_ Hne]. destruct (in_dec (list_eq_dec Z.eq_dec) ix (c_coords c)) as [?|Hn]; [assumption|].
      exfalso. apply Hne. apply den_unstored. assumption.
  Qed.

  Theorem canonical_unique (c1 c2 : coo V) :
    canonical c1 -> canonical c2 -> prunedb veqb c1 = true -> prunedb veqb c2 = true ->
    c_shape c1 = c_shape c2 -> c_fill c1 = c_fill c2 ->
    (forall ix, in_range (c_shape c1) ix -> den c1 ix = den c2 ix) ->
    c1 = c2.
  Proof.
    intros H1 H2 P1 P2 Hsh Hf Hden.
    assert (Hco : c_coords c1 = c_coords c2).
    { apply SS_same_members; [apply H1|apply H2|]. intros x.
      rewrite (stored_iff _ _ H1 P1), (stored_iff _ _ H2 P2), <- Hsh, <- Hf.
      split; intros [Hr Hn]; split; auto; [rewrite <- Hden|rewrite Hden]; auto. }
    assert (Hda : c_data c1 = c_data c2).
    { destruct H1 as [Hr1 [Hs1 Hl1]], H2 as [Hr2 [Hs2 Hl2]].
      assert (Hd : forall ix v, In (ix, v) (entries c1) -> In (ix, v) (entries c2) \/ True) by auto.
      (* pointwise: the k-th datum is den at the k-th coordinate *)
      assert (Hg : forall (ks : list idx) (d1 d2 : list V),
                 length d1 = length ks -> length d2 = length ks ->
                 (forall ix v, In (ix, v) (combine ks d1) -> forall w, In (ix, w) (combine ks d2) -> NoDup ks -> v = w)
                 -> NoDup ks -> d1 = d2).
      { induction ks as [|k ks IHk]; intros [|a d1] [|b d2] L1 L2 Hv Hnd; simpl in *; try discriminate; [reflexivity|].
        inversion Hnd as [|? ? Hk Hnd']; subst. f_equal.
        - apply (Hv k a (or_introl eq_refl) b (or_introl eq_refl) Hnd).
        - apply IHk; [lia|lia| |assumption]. intros ix v Hi w Hw _.
          apply (Hv ix v (or_intror Hi) w (or_intror Hw) Hnd). }
      apply (Hg (c_coords c1)); [assumption|rewrite Hco; assumption| |apply SS_lex_NoDup; assumption].
      intros ix v Hi w Hw _.
      assert (E1 : den c1 ix = v) by (apply den_stored; [repeat split; assumption|exact Hi]).
      assert (E2 : den c2 ix = w).
      { apply den_stored; [repeat split; assumption|]. unfold entries. rewrite <- Hco. exact Hw. }
      rewrite <- E1, <- E2. apply Hden. rewrite Forall_forall in Hr1. apply Hr1.
      eapply in_combine_l; exact Hi. }
    destruct c1, c2; simpl in *; congruence.
  Qed.
End WithV.
