(* Proofs/ReduceKernelP.v — the kernels of the grouped reduction (C03):
   _calc_counts_invidx computes the run-length encoding of its argument (starts = prefix sums of
   the run lengths), ufunc.reduceat at those starts folds each run, and for a non-decreasing
   group list the runs are exactly the classes of equal group numbers. *)
From Coq Require Import ZArith List Bool Lia Permutation Sorting.Sorted.
From Verif Require Import Py Shape COO GCXS NpReduce Reduce ReduceLemmas.
Import ListNotations.
Open Scope Z_scope.

(* run-length encoding: (value, length) of each maximal run of equal adjacent elements *)
Fixpoint runlens (gs : list Z) : list (Z * Z) :=
  match gs with
  | [] => []
  | g :: r => match runlens r with
              | (g', c) :: rest => if g =? g' then (g, c + 1) :: rest else (g, 1) :: (g', c) :: rest
              | [] => [(g, 1)]
              end
  end.

(* start offsets of consecutive segments of the given lengths *)
Fixpoint psums (off : Z) (cs : list Z) : list Z :=
  match cs with [] => [] | c :: r => off :: psums (off + c) r end.

Definition zsum (l : list Z) : Z := fold_right Z.add 0 l.

Lemma runlens_head g r : exists c rest, runlens (g :: r) = (g, c) :: rest /\ 0 < c.
Proof.
  revert g. induction r as [|h r IH]; intros g; simpl.
  - exists 1, []. split; [reflexivity|lia].
  - destruct (IH h) as [c [rest [E Hc]]]. simpl in E. rewrite E.
    destruct (Z.eqb_spec g h).
    + exists (c + 1), rest. split; [reflexivity|lia].
    + exists 1, ((h, c) :: rest). split; [reflexivity|lia].
Qed.

Lemma runlens_pos gs : Forall (fun c => 0 < c) (map snd (runlens gs)).
Proof.
  induction gs as [|g r IH]; simpl; [constructor|].
  destruct (runlens r) as [|[g' c] rest] eqn:E; simpl.
  - constructor; [lia|constructor].
  - simpl in IH. inversion IH as [|? ? Hc Hrest]; subst.
    destruct (g =? g'); simpl.
    + constructor; [lia|assumption].
    + constructor; [lia|]. constructor; assumption.
Qed.

Lemma runlens_sum gs : zsum (map snd (runlens gs)) = zlen gs.
Proof.
  unfold zlen. induction gs as [|g r IH]; [reflexivity|].
  cbn [runlens]. destruct (runlens r) as [|[g' c] rest] eqn:E.
  - simpl in *. lia.
  - cbn [map snd zsum fold_right] in IH. destruct (g =? g'); cbn [map snd zsum fold_right length]; lia.
Qed.

(* ------------------------------------------------------------------ _calc_counts_invidx *)

Lemma cci_loop_spec r : forall i last cur,
  cci_loop r i last cur =
    match runlens (last :: r) with
    | (_, c1) :: rest => (psums (i - 1 + c1) (map snd rest), (i - cur - 1 + c1) :: map snd rest)
    | [] => ([], [])
    end.
Proof.
  induction r as [|g r IH]; intros i last cur.
  - simpl. f_equal. f_equal. lia.
  - cbn [cci_loop]. destruct (runlens_head g r) as [c' [rest' [E Hc']]].
    change (runlens (last :: g :: r)) with
      (match runlens (g :: r) with
       | (g', c) :: rest => if last =? g' then (last, c + 1) :: rest else (last, 1) :: (g', c) :: rest
       | [] => [(last, 1)] end).
    rewrite E. rewrite (Z.eqb_sym last g).
    destruct (Z.eqb_spec g last) as [->|Hne].
    + rewrite IH. rewrite E. f_equal; [f_equal; lia|f_equal; lia].
    + rewrite IH. rewrite E. cbn [map snd psums]. f_equal.
      * f_equal; [lia|]. f_equal. lia.
      * f_equal; [lia|]. f_equal. lia.
Qed.

(* the starts are the prefix sums of the run lengths, the counts are the run lengths *)
Theorem counts_invidx_spec_proof gs :
  calc_counts_invidx gs = (psums 0 (map snd (runlens gs)), map snd (runlens gs)).
Proof.
  destruct gs as [|g0 r]; [reflexivity|].
  unfold calc_counts_invidx. rewrite cci_loop_spec.
  destruct (runlens_head g0 r) as [c [rest [E Hc]]]. rewrite E.
  cbn [map snd psums]. replace (1 - 1 + c) with (0 + c) by lia. replace (1 - 0 - 1 + c) with c by lia.
  reflexivity.
Qed.

(* ------------------------------------------------------------------ reduceat *)
Section Kernel.
  Variable V : Type.
  Variable op : V -> V -> V.
  Variable cast : V -> V.

  Notation slice := (slice V).
  Notation fold1 := (fold1 V op).

  Fixpoint chunks (off : Z) (cs : list Z) (data : list V) : list (list V) :=
    match cs with [] => [] | c :: r => slice data off (off + c) :: chunks (off + c) r data end.

  Lemma reduceat_psums d data : forall cs off,
    0 <= off -> Forall (fun c => 0 < c) cs -> off + zsum cs = zlen data ->
    reduceat_go V op d data (zlen data) (psums off cs) = Ok (map (fold1 d) (chunks off cs data)).
  Proof.
    induction cs as [|c r IH]; intros off Hoff Hpos Hsum; [reflexivity|].
    inversion Hpos as [|? ? Hc Hr]; subst. cbn [zsum fold_right] in Hsum. fold (zsum r) in Hsum.
    assert (Hr0 : 0 <= zsum r).
    { clear -Hr. induction Hr; simpl; [lia|]. fold (zsum l). lia. }
    cbn [psums reduceat_go chunks map].
    destruct (Z.ltb_spec off 0); [lia|]. destruct (Z.leb_spec (zlen data) off); [lia|]. cbn [orb].
    rewrite IH by (try assumption; lia). cbn [bind].
    assert (Hj : match psums (off + c) r with [] => zlen data | j :: _ => j end = off + c).
    { destruct r as [|c2 r2]; simpl in *; lia. }
    rewrite Hj. destruct (Z.ltb_spec off (off + c)); [|lia]. reflexivity.
  Qed.

  Lemma slice_shift (v : V) ds o c : 0 <= o -> slice (v :: ds) (o + 1) (o + 1 + c) = slice ds o (o + c).
  Proof.
    intros Ho. unfold Reduce.slice. replace (o + 1 + c - (o + 1)) with (o + c - o) by lia.
    replace (Z.to_nat (o + 1)) with (S (Z.to_nat o)) by lia. reflexivity.
  Qed.

  Lemma chunks_shift (v : V) ds : forall cs o, 0 <= o -> Forall (fun c => 0 < c) cs ->
    chunks (o + 1) cs (v :: ds) = chunks o cs ds.
  Proof.
    induction cs as [|c r IH]; intros o Ho Hpos; [reflexivity|].
    inversion Hpos; subst. cbn [chunks]. rewrite slice_shift by assumption. f_equal.
    replace (o + 1 + c) with (o + c + 1) by lia. apply IH; [lia|assumption].
  Qed.

  Lemma slice_cons0 (v : V) ds c : 0 <= c -> slice (v :: ds) 0 (0 + (c + 1)) = v :: slice ds 0 (0 + c).
  Proof.
    intros Hc. unfold Reduce.slice. replace (0 + (c + 1) - 0) with (c + 1) by lia.
    replace (0 + c - 0) with c by lia. replace (Z.to_nat (c + 1)) with (S (Z.to_nat c)) by lia. reflexivity.
  Qed.

  (* ---------------------------------------------------------------- sorted groups *)

  (* the data whose group number is g, in order *)
  Definition vals_of (gs : list Z) (ds : list V) (g : Z) : list V :=
    map snd (filter (fun p => fst p =? g) (combine gs ds)).

  Lemma vals_of_cons_eq g r v ds : vals_of (g :: r) (v :: ds) g = v :: vals_of r ds g.
  Proof. unfold vals_of. simpl. rewrite Z.eqb_refl. reflexivity. Qed.
  Lemma vals_of_cons_ne g r v ds k : k <> g -> vals_of (g :: r) (v :: ds) k = vals_of r ds k.
  Proof. intros H. unfold vals_of. simpl. destruct (Z.eqb_spec g k); [congruence|reflexivity]. Qed.
  Lemma vals_of_absent gs ds g : ~ In g gs -> vals_of gs ds g = [].
  Proof.
    unfold vals_of. revert ds. induction gs as [|h r IH]; intros ds Hn; [reflexivity|].
    destruct ds as [|v ds]; [reflexivity|]. simpl. destruct (Z.eqb_spec h g).
    - exfalso. apply Hn. left. assumption.
    - apply IH. intros H. apply Hn. right. assumption.
  Qed.

  Definition keys (gs : list Z) : list Z := map fst (runlens gs).

  Lemma keys_incl gs g : In g (keys gs) <-> In g gs.
  Proof.
    unfold keys. induction gs as [|h r IH]; simpl; [tauto|].
    destruct (runlens r) as [|[g' c] rest] eqn:E.
    - destruct r as [|h2 r2]; [simpl; tauto|]. destruct (runlens_head h2 r2) as [? [? [E2 _]]]. congruence.
    - simpl in IH. destruct (Z.eqb_spec h g'); simpl.
      + subst. rewrite <- IH. tauto.
      + rewrite <- IH. tauto.
  Qed.

  Lemma sorted_head_le g r : Sorted Z.le (g :: r) -> forall x, In x r -> g <= x.
  Proof.
    intros Hs. apply Sorted_StronglySorted in Hs; [|intros a b c; lia].
    inversion Hs as [|? ? _ Hall]; subst. rewrite Forall_forall in Hall. exact Hall.
  Qed.

  Lemma keys_sorted gs : Sorted Z.le gs -> StronglySorted Z.lt (keys gs).
  Proof.
    unfold keys. induction gs as [|g r IH]; intros Hs; simpl; [constructor|].
    assert (Hs' : Sorted Z.le r) by (inversion Hs; assumption).
    specialize (IH Hs').
    destruct (runlens r) as [|[g' c] rest] eqn:E; simpl.
    - constructor; constructor.
    - simpl in IH. inversion IH as [|? ? Hss Hall]; subst.
      destruct (Z.eqb_spec g g'); simpl.
      + subst. constructor; assumption.
      + assert (Hg' : In g' r).
        { apply keys_incl. unfold keys. rewrite E. left. reflexivity. }
        pose proof (sorted_head_le _ _ Hs _ Hg').
        constructor; [constructor; assumption|]. constructor; [lia|].
        eapply Forall_impl; [|exact Hall]. simpl. intros; lia.
  Qed.

  Lemma chunks_cons1 (v : V) ds cs : Forall (fun c => 0 < c) cs ->
    chunks 0 (1 :: cs) (v :: ds) = [v] :: chunks 0 cs ds.
  Proof.
    intros Hp. cbn [chunks]. f_equal. apply (chunks_shift v ds cs 0); [lia|assumption].
  Qed.

  Lemma chunks_merge (v : V) ds c cs : 0 < c -> Forall (fun c => 0 < c) cs ->
    chunks 0 ((c + 1) :: cs) (v :: ds) = (v :: slice ds 0 (0 + c)) :: chunks (0 + c) cs ds.
  Proof.
    intros Hc Hp. cbn [chunks]. rewrite slice_cons0 by lia. f_equal.
    replace (0 + (c + 1)) with (0 + c + 1) by lia. apply chunks_shift; [lia|assumption].
  Qed.

  Lemma chunks_sorted : forall gs ds, length ds = length gs -> Sorted Z.le gs ->
    chunks 0 (map snd (runlens gs)) ds = map (vals_of gs ds) (keys gs).
  Proof.
    unfold keys. induction gs as [|g r IH]; intros ds Hlen Hs; [reflexivity|].
    destruct ds as [|v ds]; [discriminate|]. simpl in Hlen.
    assert (Hs' : Sorted Z.le r) by (inversion Hs; assumption).
    specialize (IH ds ltac:(lia) Hs').
    pose proof (runlens_pos r) as Hpos. pose proof (keys_sorted r Hs') as Hks. unfold keys in Hks.
    cbn [runlens]. destruct (runlens r) as [|[g' c] rest] eqn:E.
    - destruct r as [|h2 r2].
      + destruct ds; [|discriminate]. cbn. unfold vals_of. simpl. rewrite Z.eqb_refl. reflexivity.
      + destruct (runlens_head h2 r2) as [? [? [E2 _]]]. congruence.
    - cbn [map snd fst] in *. inversion Hpos as [|? ? Hc Hrest]; subst.
      inversion Hks as [|? ? Hss Hall]; subst. rewrite Forall_forall in Hall.
      assert (Hg' : In g' r).
      { apply keys_incl. unfold keys. rewrite E. left. reflexivity. }
      cbn [chunks] in IH. injection IH as IH1 IH2.
      destruct (Z.eqb_spec g g') as [->|Hne]; cbn [map snd fst].
      + rewrite chunks_merge by assumption. rewrite vals_of_cons_eq, IH1, IH2. f_equal.
        apply map_ext_in. intros k Hk. rewrite vals_of_cons_ne; [reflexivity|].
        specialize (Hall _ Hk). lia.
      + pose proof (sorted_head_le _ _ Hs _ Hg') as Hle.
        rewrite chunks_cons1 by (constructor; assumption). cbn [chunks]. rewrite IH1, IH2.
        rewrite vals_of_cons_eq. rewrite (vals_of_absent r ds g).
        2:{ intros Hin.
            destruct r as [|h2 r2]; [inversion Hin|].
            destruct (runlens_head h2 r2) as [? [? [E2 _]]]. rewrite E in E2. inversion E2; subst.
            pose proof (sorted_head_le _ _ Hs') as Hh.
            destruct Hin as [->|Hin]; [lia|]. specialize (Hh _ Hin). lia. }
        f_equal. f_equal.
        * rewrite vals_of_cons_ne by lia. reflexivity.
        * apply map_ext_in. intros k Hk. rewrite vals_of_cons_ne; [reflexivity|].
          specialize (Hall _ Hk). lia.
  Qed.

  Lemma psums_nth_shift g r : forall cs o, 0 <= o -> Forall (fun c => 0 < c) cs ->
    map (fun i => nth (Z.to_nat i) (g :: r) 0) (psums (o + 1) cs) = map (fun i => nth (Z.to_nat i) r 0) (psums o cs).
  Proof.
    induction cs as [|c cs IH]; intros o Ho Hpos; [reflexivity|].
    inversion Hpos; subst. cbn [psums map]. f_equal.
    - replace (Z.to_nat (o + 1)) with (S (Z.to_nat o)) by lia. reflexivity.
    - replace (o + 1 + c) with (o + c + 1) by lia. apply IH; [lia|assumption].
  Qed.

  (* the group numbers found at the run starts are the distinct group numbers *)
  Lemma rows_at_starts gs :
    map (fun i => nth (Z.to_nat i) gs 0) (psums 0 (map snd (runlens gs))) = keys gs.
  Proof.
    unfold keys. induction gs as [|g r IH]; [reflexivity|].
    pose proof (runlens_pos r) as Hpos.
    cbn [runlens]. destruct (runlens r) as [|[g' c] rest] eqn:E; [reflexivity|].
    cbn [map snd fst psums] in *. inversion Hpos as [|? ? Hc Hrest]; subst.
    injection IH as IH1 IH2.
    destruct (Z.eqb_spec g g') as [->|Hne]; cbn [map snd fst psums].
    - f_equal. replace (0 + (c + 1)) with (0 + c + 1) by lia.
      rewrite psums_nth_shift by (try assumption; lia). exact IH2.
    - f_equal.
      change (nth (Z.to_nat (0 + 1)) (g :: r) 0 :: map (fun i => nth (Z.to_nat i) (g :: r) 0) (psums (0 + 1 + c) (map snd rest)))
        with (map (fun i => nth (Z.to_nat i) (g :: r) 0) (psums (0 + 1) (c :: map snd rest))).
      rewrite psums_nth_shift by (try lia; constructor; assumption).
      cbn [psums map]. change (Z.to_nat 0) with 0%nat. rewrite IH1, IH2. reflexivity.
  Qed.

  (* run lengths are the class sizes *)
  Lemma counts_sorted : forall gs ds, length ds = length gs -> Sorted Z.le gs ->
    map snd (runlens gs) = map (fun g => zlen (vals_of gs ds g)) (keys gs).
  Proof.
    intros gs ds Hlen Hs. pose proof (chunks_sorted gs ds Hlen Hs) as Hc.
    pose proof (runlens_pos gs) as Hpos. pose proof (runlens_sum gs) as Hsum.
    assert (Hgen : forall cs off, 0 <= off -> Forall (fun c => 0 < c) cs -> off + zsum cs <= zlen ds ->
                   map (fun l => zlen l) (chunks off cs ds) = cs).
    { induction cs as [|c cs IHc]; intros off Ho Hp Hs2; [reflexivity|].
      inversion Hp; subst. cbn [zsum fold_right] in Hs2. fold (zsum cs) in Hs2.
      assert (0 <= zsum cs). { clear -H2. induction H2; simpl; [lia|]. fold (zsum l). lia. }
      cbn [chunks map]. f_equal.
      - unfold Reduce.slice, zlen. rewrite firstn_length, skipn_length. unfold zlen in Hs2. lia.
      - apply IHc; try assumption; lia. }
    rewrite <- (Hgen (map snd (runlens gs)) 0) at 1; try assumption; try lia.
    - rewrite Hc. rewrite map_map. reflexivity.
    - unfold zlen in *. lia.
  Qed.

  (* _grouped_reduce on a non-decreasing group list *)
  Theorem grouped_reduce_sorted d (ds : list V) (gs : list Z) :
    length ds = length gs -> Sorted Z.le gs ->
    grouped_reduce V op cast d ds gs =
      Ok (map (fun g => fold1 d (map cast (vals_of gs ds g))) (keys gs),
          psums 0 (map snd (runlens gs)),
          map (fun g => zlen (vals_of gs ds g)) (keys gs)).
  Proof.
    intros Hlen Hs. unfold grouped_reduce. rewrite counts_invidx_spec_proof.
    unfold reduceat.
    assert (Hl : zlen (map cast ds) = zlen gs) by (unfold zlen; rewrite map_length; lia).
    rewrite reduceat_psums; [|lia|apply runlens_pos|rewrite runlens_sum; lia].
    cbn [bind]. f_equal. f_equal; [f_equal|].
    - rewrite chunks_sorted by (try assumption; rewrite map_length; assumption).
      rewrite map_map. apply map_ext. intros g. f_equal. unfold vals_of.
      clear. revert ds. induction gs as [|h r IH]; intros [|v ds]; simpl; try reflexivity.
      destruct (h =? g); simpl; rewrite IH; reflexivity.
    - apply counts_sorted; assumption.
  Qed.
End Kernel.
