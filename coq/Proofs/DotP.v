(* Proofs/DotP.v — lemmas about Model/Dot.v: the Gustavson kernel _dot_csr_csr computes the matrix
   product (spgemm_den), its pre-count is exact (count_nnz_exact), its rows come out sorted
   (spgemm_rows_sorted), _dot_coo_ndarray terminates, the _dot dispatch is total. *)
From Coq Require Import ZArith List Bool Lia Sorting.Sorted Sorting.Permutation.
From Verif Require Import Py PyExt Shape COO GCXS G_dot S_dot NpDot Dot COOP.
Import ListNotations.
Open Scope Z_scope.

(* ====================================================================== lists as arrays *)
Lemma set_nth_length {A} (l : list A) n v : length (set_nth l n v) = length l.
Proof. revert n; induction l as [|x l IH]; intros [|n]; simpl; auto. Qed.

Lemma nth_set_nth_eq {A} (l : list A) n v d : (n < length l)%nat -> nth n (set_nth l n v) d = v.
Proof. revert n; induction l as [|x l IH]; intros [|n]; simpl; intros H; try lia; auto. apply IH. lia. Qed.

Lemma nth_set_nth_neq {A} (l : list A) n m v d : n <> m -> nth m (set_nth l n v) d = nth m l d.
Proof.
  revert n m; induction l as [|x l IH]; intros [|n] [|m]; simpl; intros H; try congruence; auto.
Qed.

Lemma wr_length {A} (l : list A) i v : length (wr l i v) = length l.
Proof. unfold wr. destruct (i <? 0); [reflexivity|apply set_nth_length]. Qed.

Lemma znth_wr_eq {A} (l : list A) i v d : 0 <= i < Z.of_nat (length l) -> znth (wr l i v) i d = v.
Proof.
  intros H. unfold wr, znth. destruct (Z.ltb_spec i 0); [lia|]. apply nth_set_nth_eq. lia.
Qed.

Lemma znth_wr_neq {A} (l : list A) i j v d : 0 <= i -> 0 <= j -> i <> j -> znth (wr l i v) j d = znth l j d.
Proof.
  intros Hi Hj H. unfold wr, znth. destruct (Z.ltb_spec i 0); [lia|]. apply nth_set_nth_neq. lia.
Qed.

Lemma nth_repeat_lt' {A} (x : A) n i d : (i < n)%nat -> nth i (repeat x n) d = x.
Proof. revert i; induction n; intros [|i] H; simpl; try lia; auto. apply IHn. lia. Qed.

Lemma znth_repeat {A} (x : A) n i d : 0 <= i < Z.of_nat n -> znth (repeat x n) i d = x.
Proof. intros H. unfold znth. apply nth_repeat_lt'. lia. Qed.

Lemma zrange_length n : 0 <= n -> Z.of_nat (length (zrange n)) = n.
Proof. intros H. unfold zrange. rewrite map_length, seq_length. lia. Qed.

Lemma zrange_NoDup n : NoDup (zrange n).
Proof.
  unfold zrange. apply FinFun.Injective_map_NoDup; [|apply seq_NoDup].
  intros a b H. lia.
Qed.

Lemma combine_fst_snd {A B} (l : list (A * B)) : combine (map fst l) (map snd l) = l.
Proof. induction l as [|[a b] l IH]; simpl; congruence. Qed.

Lemma map_fst_combine {A B} (l1 : list A) (l2 : list B) :
  length l1 = length l2 -> map fst (combine l1 l2) = l1.
Proof. revert l2; induction l1; intros [|b l2]; simpl; try discriminate; auto. intros H. f_equal. apply IHl1. lia. Qed.

Lemma slice_length_eq {A B} (l1 : list A) (l2 : list B) lo hi :
  length l1 = length l2 -> length (slice_list l1 lo hi) = length (slice_list l2 lo hi).
Proof. intros H. unfold slice_list. rewrite !firstn_length, !skipn_length. lia. Qed.

Lemma firstn_In' {A} (l : list A) n x : In x (firstn n l) -> In x l.
Proof. revert n; induction l as [|a l IH]; intros [|n]; simpl; try tauto. intros [->|H]; eauto. Qed.

Lemma slice_In {A} (l : list A) lo hi x : In x (slice_list l lo hi) -> In x l.
Proof.
  unfold slice_list. intros H. apply firstn_In' in H.
  rewrite <- (firstn_skipn (Z.to_nat lo) l). apply in_or_app. right. exact H.
Qed.

(* ====================================================================== rows of a CSR triple *)
(* offsets of consecutive rows starting at s *)
Fixpoint offs {A} (s : Z) (rows : list (list A)) : list Z :=
  match rows with
  | [] => [s]
  | r :: rs => s :: offs (s + Z.of_nat (length r)) rs
  end.

Lemma offs_length {A} s (rows : list (list A)) : length (offs s rows) = S (length rows).
Proof. revert s; induction rows; intros s; simpl; auto. Qed.

Lemma offs_app {A} s (rows : list (list A)) r :
  offs s (rows ++ [r]) = offs s rows ++ [s + Z.of_nat (length (concat rows)) + Z.of_nat (length r)].
Proof.
  revert s; induction rows as [|x rows IH]; intros s; simpl.
  - f_equal. f_equal. lia.
  - f_equal. rewrite IH. f_equal. f_equal. rewrite app_length. lia.
Qed.

Lemma offs_map {A B} (f : A -> B) s (rows : list (list A)) : offs s (map (map f) rows) = offs s rows.
Proof. revert s; induction rows; intros s; simpl; auto. rewrite map_length, IHrows. reflexivity. Qed.

Lemma offs_head {A} s (rows : list (list A)) : exists t, offs s rows = s :: t.
Proof. destruct rows; simpl; eauto. Qed.

Lemma slice_app_mid {A} (pre r post : list A) :
  slice_list (pre ++ r ++ post) (Z.of_nat (length pre)) (Z.of_nat (length pre) + Z.of_nat (length r)) = r.
Proof.
  unfold slice_list. rewrite Nat2Z.id.
  replace (Z.to_nat (Z.of_nat (length pre) + Z.of_nat (length r) - Z.of_nat (length pre))) with (length r) by lia.
  rewrite skipn_app, skipn_all, Nat.sub_diag. simpl.
  rewrite firstn_app, firstn_all, Nat.sub_diag. simpl. apply app_nil_r.
Qed.

Lemma rows_of_concat_pre {A} (pre : list A) (rows : list (list A)) :
  rows_of (pre ++ concat rows) (offs (Z.of_nat (length pre)) rows) = rows.
Proof.
  revert pre; induction rows as [|r rs IH]; intros pre; simpl; [reflexivity|].
  destruct (offs_head (Z.of_nat (length pre) + Z.of_nat (length r)) rs) as [t Ht].
  rewrite Ht. rewrite <- Ht. f_equal.
  - apply slice_app_mid.
  - rewrite app_assoc. replace (Z.of_nat (length pre) + Z.of_nat (length r)) with (Z.of_nat (length (pre ++ r))).
    + apply IH.
    + rewrite app_length. lia.
Qed.

Lemma rows_of_concat {A} (rows : list (list A)) : rows_of (concat rows) (offs 0 rows) = rows.
Proof. apply (rows_of_concat_pre [] rows). Qed.

Lemma rows_of_cons2 {A} (l : list A) a b t : rows_of l (a :: b :: t) = slice_list l a b :: rows_of l (b :: t).
Proof. reflexivity. Qed.

Lemma rows_of_nth {A} (l : list A) (indptr : list Z) (i : nat) :
  (S i < length indptr)%nat ->
  nth i (rows_of l indptr) [] = slice_list l (nth i indptr 0) (nth (S i) indptr 0).
Proof.
  revert i; induction indptr as [|a t IH]; intros i H; simpl in H; [lia|].
  destruct t as [|b t']; [simpl in H; lia|].
  rewrite rows_of_cons2. destruct i as [|i]; [reflexivity|].
  cbn [nth]. rewrite IH by (simpl in *; lia). reflexivity.
Qed.

Lemma rows_of_length {A} (l : list A) (indptr : list Z) : length (rows_of l indptr) = pred (length indptr).
Proof.
  induction indptr as [|a t IH]; [reflexivity|]. destruct t as [|b t']; [reflexivity|].
  rewrite rows_of_cons2. cbn [length]. rewrite IH. reflexivity.
Qed.

Lemma offs_last {A} s (rows : list (list A)) :
  nth (length rows) (offs s rows) 0 = s + Z.of_nat (length (concat rows)).
Proof.
  revert s; induction rows as [|r rs IH]; intros s; simpl; [lia|]. rewrite IH, app_length. lia.
Qed.

Lemma offs_nondecreasing {A} s (rows : list (list A)) : nondecreasing (offs s rows) = true.
Proof.
  revert s; induction rows as [|r rs IH]; intros s; [reflexivity|].
  simpl offs. destruct (offs_head (s + Z.of_nat (length r)) rs) as [t Ht].
  specialize (IH (s + Z.of_nat (length r))). rewrite Ht in *.
  simpl. rewrite andb_true_iff. split; [apply Z.leb_le; lia|exact IH].
Qed.

(* ====================================================================== sorting of a row *)
Section Sorting.
  Variable V : Type.
  Definition key_le (a b : Z * V) : Prop := fst a <= fst b.

  Lemma ins_cell_perm (c : Z * V) l : Permutation (ins_cell V c l) (c :: l).
  Proof.
    induction l as [|d r IH]; simpl; [reflexivity|].
    destruct (fst c <=? fst d); [reflexivity|].
    rewrite IH. apply perm_swap.
  Qed.

  Lemma sort_cells_perm l : Permutation (sort_cells V l) l.
  Proof. induction l as [|c l IH]; simpl; [reflexivity|]. rewrite ins_cell_perm. constructor. exact IH. Qed.

  Lemma ins_cell_sorted c l : StronglySorted key_le l -> StronglySorted key_le (ins_cell V c l).
  Proof.
    induction 1 as [|d r Hs IH Hall]; simpl; [repeat constructor|].
    destruct (Z.leb_spec (fst c) (fst d)).
    - constructor; [constructor; assumption|]. constructor; [exact H|].
      eapply Forall_impl; [|exact Hall]. unfold key_le. intros; lia.
    - constructor; [exact IH|].
      assert (Hp := ins_cell_perm c r). apply Permutation_sym in Hp.
      eapply Permutation_Forall; [exact Hp|]. constructor; [unfold key_le; lia|exact Hall].
  Qed.

  Lemma sort_cells_sorted l : StronglySorted key_le (sort_cells V l).
  Proof. induction l; simpl; [constructor|apply ins_cell_sorted; assumption]. Qed.

  Lemma sorted_nodup_strict (l : list (Z * V)) :
    StronglySorted key_le l -> NoDup (map fst l) -> StronglySorted Z.lt (map fst l).
  Proof.
    induction 1 as [|d r Hs IH Hall]; simpl; intros Hnd; [constructor|].
    inversion Hnd as [|? ? Hni Hnd']; subst. constructor; [auto|].
    apply Forall_forall. intros x Hx. apply in_map_iff in Hx. destruct Hx as [e [<- He]].
    rewrite Forall_forall in Hall. specialize (Hall _ He). unfold key_le in Hall.
    assert (fst d <> fst e) by (intros E; apply Hni; rewrite E; apply in_map; exact He). lia.
  Qed.
End Sorting.

Lemma SS_lt_strictly_increasing l : StronglySorted Z.lt l -> strictly_increasing l = true.
Proof.
  induction 1 as [|a r Hs IH Hall]; [reflexivity|].
  destruct r as [|b r']; [reflexivity|]. simpl. rewrite andb_true_iff. split; [|exact IH].
  apply Z.ltb_lt. inversion Hall; assumption.
Qed.

Lemma strictly_increasing_SS l : strictly_increasing l = true -> StronglySorted Z.lt l.
Proof.
  induction l as [|a r IH]; intros H; [constructor|].
  destruct r as [|b r']; [repeat constructor|].
  simpl in H. apply andb_true_iff in H. destruct H as [Hab Hr]. apply Z.ltb_lt in Hab.
  specialize (IH Hr). constructor; [exact IH|].
  inversion IH as [|? ? Hs Hall]; subst. constructor; [exact Hab|].
  eapply Forall_impl; [|exact Hall]. intros; lia.
Qed.

Lemma SS_lt_NoDup l : StronglySorted Z.lt l -> NoDup l.
Proof.
  induction 1 as [|a r Hs IH Hall]; constructor; [|exact IH].
  intros Hin. rewrite Forall_forall in Hall. specialize (Hall _ Hin). lia.
Qed.

(* ====================================================================== first-touch lists *)
Definition touch (l : list Z) (k : Z) : list Z := if mem_z k l then l else k :: l.
Definition touched (ks : list Z) : list Z := fold_left touch ks [].

Lemma mem_z_In k l : mem_z k l = true <-> In k l.
Proof.
  unfold mem_z. rewrite existsb_exists. split.
  - intros [x [Hx E]]. apply Z.eqb_eq in E. subst. exact Hx.
  - intros H. exists k. split; [exact H|apply Z.eqb_refl].
Qed.

Lemma touch_In l k x : In x (touch l k) <-> x = k \/ In x l.
Proof.
  unfold touch. destruct (mem_z k l) eqn:E.
  - apply mem_z_In in E. split; [tauto|]. intros [->|H]; assumption.
  - simpl. split; intros [H|H]; auto.
Qed.

Lemma touch_NoDup l k : NoDup l -> NoDup (touch l k).
Proof.
  intros H. unfold touch. destruct (mem_z k l) eqn:E; [exact H|].
  constructor; [|exact H]. intros Hin. apply mem_z_In in Hin. congruence.
Qed.

Lemma fold_touch_In ks l x : In x (fold_left touch ks l) <-> In x ks \/ In x l.
Proof.
  revert l; induction ks as [|k ks IH]; intros l; simpl; [tauto|].
  rewrite IH, touch_In. split; intros H; intuition auto.
Qed.

Lemma fold_touch_NoDup ks l : NoDup l -> NoDup (fold_left touch ks l).
Proof. revert l; induction ks; intros l H; simpl; auto using touch_NoDup. Qed.

Lemma touched_In ks x : In x (touched ks) <-> In x ks.
Proof. unfold touched. rewrite fold_touch_In. simpl. tauto. Qed.

Lemma touched_NoDup ks : NoDup (touched ks).
Proof. apply fold_touch_NoDup. constructor. Qed.

(* ====================================================================== the linked list *)
Fixpoint chain (nx : list Z) (head : Z) (l : list Z) : Prop :=
  match l with
  | [] => head = -2
  | k :: l' => head = k /\ chain nx (znth nx k 0) l'
  end.

Lemma chain_wr_notin nx head l k v :
  0 <= k -> Forall (fun x => 0 <= x) l -> ~ In k l -> chain nx head l -> chain (wr nx k v) head l.
Proof.
  intros Hk. revert head. induction l as [|x l IH]; intros head Hr Hn Hc; simpl in *; [exact Hc|].
  destruct Hc as [-> Hc]. inversion Hr; subst. split; [reflexivity|].
  rewrite znth_wr_neq by (try lia; intros E; apply Hn; left; congruence).
  apply IH; auto.
Qed.

Record LL (n : Z) (nx : list Z) (head len : Z) (l : list Z) : Prop := {
  ll_len_nx : Z.of_nat (length nx) = n;
  ll_len : len = Z.of_nat (length l);
  ll_chain : chain nx head l;
  ll_nodup : NoDup l;
  ll_range : Forall (fun k => 0 <= k < n) l;
  ll_mem : forall k, 0 <= k < n -> (In k l <-> znth nx k 0 <> -1)
}.

Lemma chain_head_cases nx head l : chain nx head l -> Forall (fun k => 0 <= k) l -> head = -2 \/ 0 <= head.
Proof. destruct l; simpl; [auto|]. intros [-> _] H. inversion H; auto. Qed.

Section Kernel.
  Variable V : Type.
  Variable vzero : V.
  Variable vadd vmul : V -> V -> V.
  Hypothesis SR : comm_semiring vzero vadd vmul.

  Let add_0_l := sr_add_0_l _ _ _ SR.
  Let add_comm := sr_add_comm _ _ _ SR.
  Let add_assoc := sr_add_assoc _ _ _ SR.
  Let mul_0_l := sr_mul_0_l _ _ _ SR.
  Let mul_0_r := sr_mul_0_r _ _ _ SR.

  Lemma add_0_r x : vadd x vzero = x.
  Proof. rewrite add_comm. apply add_0_l. Qed.

  (* the value accumulated in sums[k] by a stream of (column, product) pairs *)
  Definition ksum (k : Z) (s : V) (ps : list (Z * V)) : V :=
    fold_left (fun s kp => if fst kp =? k then vadd s (snd kp) else s) ps s.

  Lemma ksum_notin k s ps : ~ In k (map fst ps) -> ksum k s ps = s.
  Proof.
    revert s; induction ps as [|[k' p] ps IH]; intros s H; simpl in *; [reflexivity|].
    destruct (Z.eqb_spec k' k); [exfalso; apply H; left; assumption|]. apply IH. tauto.
  Qed.

  Lemma acc_step_LL n nx sm head len l k p :
    LL n nx head len l -> 0 <= k < n -> Z.of_nat (length sm) = n ->
    exists nx' head' len',
      acc_step V vzero vadd (nx, sm, head, len) (k, p) = (nx', wr sm k (vadd (znth sm k vzero) p), head', len')
      /\ LL n nx' head' len' (touch l k).
  Proof.
    intros [Hn Hl Hc Hnd Hr Hm] Hk Hs. unfold acc_step.
    assert (Hr0 : Forall (fun x => 0 <= x) l) by (eapply Forall_impl; [|exact Hr]; simpl; intros; lia).
    destruct (Z.eqb_spec (znth nx k 0) (-1)) as [E|E].
    - (* first touch *)
      assert (Hnotin : ~ In k l) by (intros Hin; apply (Hm k Hk) in Hin; congruence).
      exists (wr nx k head), k, (len + 1). split; [reflexivity|].
      unfold touch. destruct (mem_z k l) eqn:Em; [apply mem_z_In in Em; tauto|].
      constructor.
      + rewrite wr_length. exact Hn.
      + simpl length. lia.
      + simpl. split; [reflexivity|]. rewrite znth_wr_eq by lia.
        apply chain_wr_notin; auto; lia.
      + constructor; assumption.
      + constructor; assumption.
      + intros k0 Hk0. destruct (Z.eq_dec k0 k) as [->|Hne].
        * rewrite znth_wr_eq by lia. split; [|intros _; left; reflexivity].
          intros _. destruct (chain_head_cases _ _ _ Hc Hr0); lia.
        * rewrite znth_wr_neq by lia. rewrite <- (Hm k0 Hk0). simpl. split; [intros [?|?]; [congruence|assumption]|auto].
    - exists nx, head, len. split; [reflexivity|].
      assert (Hin : In k l) by (apply (Hm k Hk); exact E).
      unfold touch. destruct (mem_z k l) eqn:Em; [|exfalso; rewrite <- mem_z_In in Hin; congruence].
      constructor; assumption.
  Qed.

  Definition all_zero (n : Z) (sm : list V) : Prop :=
    Z.of_nat (length sm) = n /\ forall k, 0 <= k < n -> znth sm k vzero = vzero.

  Lemma acc_fold n ps : Forall (fun kp => 0 <= fst kp < n) ps ->
    forall nx sm head len l,
    LL n nx head len l -> Z.of_nat (length sm) = n ->
    exists nx' sm' head' len',
      fold_left (acc_step V vzero vadd) ps (nx, sm, head, len) = (nx', sm', head', len')
      /\ LL n nx' head' len' (fold_left touch (map fst ps) l)
      /\ Z.of_nat (length sm') = n
      /\ forall k, 0 <= k < n -> znth sm' k vzero = ksum k (znth sm k vzero) ps.
  Proof.
    induction 1 as [|[k p] ps Hk Hps IH]; intros nx sm head len l HLL Hs.
    - exists nx, sm, head, len. simpl. auto.
    - simpl in Hk. destruct (acc_step_LL n nx sm head len l k p HLL Hk Hs) as [nx1 [h1 [len1 [E1 HLL1]]]].
      cbn [fold_left]. rewrite E1.
      destruct (IH nx1 (wr sm k (vadd (znth sm k vzero) p)) h1 len1 (touch l k) HLL1) as [nx' [sm' [h' [len' [E [HLL' [Hs' Hv]]]]]]].
      { rewrite wr_length. exact Hs. }
      exists nx', sm', h', len'. split; [exact E|split; [exact HLL'|split; [exact Hs'|]]].
      intros k0 Hk0. rewrite (Hv k0 Hk0). simpl.
      destruct (Z.eqb_spec k k0) as [->|Hne].
      + rewrite znth_wr_eq by lia. reflexivity.
      + rewrite znth_wr_neq by lia. reflexivity.
  Qed.

  (* emission *)
  Lemma chain_next_ne nx head k l n :
    chain nx head (k :: l) -> Forall (fun x => 0 <= x < n) (k :: l) -> znth nx k 0 <> -1.
  Proof.
    simpl. intros [_ Hc] Hr. pose proof (Forall_inv_tail Hr) as Hr'.
    destruct l as [|k' l']; simpl in Hc; [lia|]. destruct Hc as [-> _]. pose proof (Forall_inv Hr') as H. simpl in H. lia.
  Qed.

  Lemma emit_spec n l : forall nx sm head,
    chain nx head l -> NoDup l -> Forall (fun x => 0 <= x < n) l ->
    Z.of_nat (length nx) = n -> Z.of_nat (length sm) = n ->
    exists nx' sm' h',
      emit V vzero (length l) nx sm head = (nx', sm', h', map (fun k => (k, znth sm k vzero)) l)
      /\ Z.of_nat (length sm') = n
      /\ forall k, 0 <= k < n -> znth sm' k vzero = if mem_z k l then vzero else znth sm k vzero.
  Proof.
    induction l as [|k l IH]; intros nx sm head Hc Hnd Hr Hn Hs.
    - exists nx, sm, head. simpl. auto.
    - pose proof (chain_next_ne _ _ _ _ _ Hc Hr) as Hne.
      simpl in Hc. destruct Hc as [-> Hc].
      apply NoDup_cons_iff in Hnd. destruct Hnd as [Hnotin Hnd'].
      pose proof (Forall_inv Hr) as Hk. pose proof (Forall_inv_tail Hr) as Hr'. simpl in Hk.
      assert (Hr0 : Forall (fun x => 0 <= x) l) by (eapply Forall_impl; [|exact Hr']; simpl; intros; lia).
      destruct (IH (wr nx k (-1)) (wr sm k vzero) (znth nx k 0)) as [nx' [sm' [h' [E [Hs' Hv]]]]]; auto.
      { apply chain_wr_notin; auto; lia. }
      { rewrite wr_length; exact Hn. }
      { rewrite wr_length; exact Hs. }
      exists nx', sm', h'. split; [|split; [exact Hs'|]].
      + simpl emit. rewrite E.
        destruct (Z.eqb_spec (znth nx k 0) (-1)); [contradiction|]. simpl.
        f_equal. f_equal. apply map_ext_in. intros x Hx.
        rewrite znth_wr_neq; [reflexivity|lia| |intros ->; contradiction].
        rewrite Forall_forall in Hr0. apply Hr0. exact Hx.
      + intros k0 Hk0. rewrite (Hv k0 Hk0). simpl.
        destruct (Z.eqb_spec k0 k) as [->|Hne0].
        * simpl. rewrite znth_wr_eq by lia. destruct (mem_z k l); reflexivity.
        * simpl. rewrite znth_wr_neq by lia. reflexivity.
  Qed.

  (* ------------------------------------------------------------------ one row of the kernel *)
  Definition abs_row (a b : csr V) (i : Z) : list (Z * V) :=
    let ps := prod_stream V vmul a b i in
    map (fun k => (k, ksum k vzero ps)) (touched (map fst ps)).
  Definition out_row (a b : csr V) (i : Z) : list (Z * V) := sort_cells V (abs_row a b i).

  Definition keys_ok (n_col : Z) (a b : csr V) : Prop :=
    forall i, Forall (fun kp => 0 <= fst kp < n_col) (prod_stream V vmul a b i).

  Lemma out_row_length a b i : length (out_row a b i) = length (abs_row a b i).
  Proof. apply Permutation_length, sort_cells_perm. Qed.

  Lemma LL_init n : 0 <= n -> LL n (repeat (-1) (Z.to_nat n)) (-2) 0 [].
  Proof.
    intros Hn. constructor; simpl; auto.
    - rewrite repeat_length. lia.
    - constructor.
    - intros k Hk. rewrite znth_repeat by lia. split; [tauto|congruence].
  Qed.

  Lemma row_step_spec n_col a b sm out indptr i :
    0 <= n_col -> keys_ok n_col a b -> all_zero n_col sm ->
    exists sm2,
      row_step V vzero vadd vmul n_col a b (sm, out, indptr) i
      = (sm2, out ++ out_row a b i, indptr ++ [Z.of_nat (length out) + Z.of_nat (length (out_row a b i))])
      /\ all_zero n_col sm2.
  Proof.
    intros Hn Hk [Hs Hz]. unfold row_step.
    set (ps := prod_stream V vmul a b i).
    destruct (acc_fold n_col ps (Hk i) _ sm (-2) 0 [] (LL_init n_col Hn) Hs)
      as [nx1 [sm1 [h1 [len1 [E [HLL [Hs1 Hv]]]]]]].
    rewrite E. destruct HLL as [Hnx Hlen Hc Hnd Hr Hm].
    fold (touched (map fst ps)) in *. set (l := touched (map fst ps)) in *.
    destruct (emit_spec n_col l nx1 sm1 h1 Hc Hnd Hr Hnx Hs1) as [nx2 [sm2 [h2 [E2 [Hs2 Hv2]]]]].
    rewrite Hlen, Nat2Z.id, E2.
    assert (Hrow : map (fun k => (k, znth sm1 k vzero)) l = abs_row a b i).
    { unfold abs_row. fold ps. fold l. apply map_ext_in. intros k Hin.
      rewrite Forall_forall in Hr. specialize (Hr _ Hin). rewrite (Hv k Hr), (Hz k Hr). reflexivity. }
    exists sm2. split.
    - rewrite Hrow, out_row_length, app_length, Nat2Z.inj_add. reflexivity.
    - split; [exact Hs2|]. intros k Hk0. rewrite (Hv2 k Hk0).
      destruct (mem_z k l) eqn:Em; [reflexivity|].
      rewrite (Hv k Hk0), (Hz k Hk0). apply ksum_notin. intros Hin.
      apply (proj2 (touched_In _ _)) in Hin. fold l in Hin. apply mem_z_In in Hin. congruence.
  Qed.

  Lemma loops_fold n_col a b : 0 <= n_col -> keys_ok n_col a b ->
    forall (is : list Z) sm rows, all_zero n_col sm ->
    exists sm',
      fold_left (row_step V vzero vadd vmul n_col a b) is (sm, concat rows, offs 0 rows)
      = (sm', concat (rows ++ map (out_row a b) is), offs 0 (rows ++ map (out_row a b) is))
      /\ all_zero n_col sm'.
  Proof.
    intros Hn Hk. induction is as [|i is IH]; intros sm rows Hz.
    - exists sm. simpl. rewrite app_nil_r. auto.
    - destruct (row_step_spec n_col a b sm (concat rows) (offs 0 rows) i Hn Hk Hz) as [sm2 [E Hz2]].
      cbn [fold_left]. rewrite E.
      replace (concat rows ++ out_row a b i) with (concat (rows ++ [out_row a b i]))
        by (rewrite concat_app; simpl; rewrite app_nil_r; reflexivity).
      replace (offs 0 rows ++ [Z.of_nat (length (concat rows)) + Z.of_nat (length (out_row a b i))])
        with (offs 0 (rows ++ [out_row a b i])) by (rewrite offs_app; reflexivity).
      destruct (IH sm2 (rows ++ [out_row a b i]) Hz2) as [sm' [E' Hz']].
      exists sm'. rewrite E'. simpl map. rewrite <- !app_assoc. simpl. auto.
  Qed.

  Lemma all_zero_init n : 0 <= n -> all_zero n (repeat vzero (Z.to_nat n)).
  Proof.
    intros Hn. split; [rewrite repeat_length; lia|]. intros k Hk. apply znth_repeat. lia.
  Qed.

  Definition out_rows (n_row : Z) (a b : csr V) : list (list (Z * V)) := map (out_row a b) (zrange n_row).

  Lemma spgemm_loops_spec n_row n_col a b : 0 <= n_col -> keys_ok n_col a b ->
    exists sm', spgemm_loops V vzero vadd vmul n_row n_col a b
                = (sm', concat (out_rows n_row a b), offs 0 (out_rows n_row a b)).
  Proof.
    intros Hn Hk. unfold spgemm_loops.
    destruct (loops_fold n_col a b Hn Hk (zrange n_row) _ [] (all_zero_init n_col Hn)) as [sm' [E _]].
    exists sm'. exact E.
  Qed.

  (* ------------------------------------------------------------------ the pre-count *)
  (* mask invariant inside row i: mask[k] = i exactly for the columns seen so far *)
  Lemma cnt_step_spec n i mask l k :
    Z.of_nat (length mask) = n -> 0 <= k < n ->
    (forall x, 0 <= x < n -> (In x l <-> znth mask x 0 = i)) ->
    exists mask',
      cnt_step i (mask, Z.of_nat (length l)) k = (mask', Z.of_nat (length (touch l k)))
      /\ Z.of_nat (length mask') = n
      /\ (forall x, 0 <= x < n -> (In x (touch l k) <-> znth mask' x 0 = i))
      /\ (forall x, 0 <= x < n -> znth mask' x 0 = znth mask x 0 \/ znth mask' x 0 = i).
  Proof.
    intros Hn Hk Hm. unfold cnt_step, touch.
    destruct (Z.eqb_spec (znth mask k 0) i) as [E|E]; simpl.
    - assert (Hin : In k l) by (apply (Hm k Hk); exact E).
      apply mem_z_In in Hin. rewrite Hin. exists mask. auto.
    - assert (Hnotin : mem_z k l = false).
      { destruct (mem_z k l) eqn:Em; [|reflexivity]. apply mem_z_In in Em. apply (Hm k Hk) in Em. contradiction. }
      rewrite Hnotin. exists (wr mask k i). split; [|split; [|split]].
      + f_equal. simpl length. lia.
      + rewrite wr_length. exact Hn.
      + intros x Hx. destruct (Z.eq_dec x k) as [->|Hne].
        * rewrite znth_wr_eq by lia. simpl. tauto.
        * rewrite znth_wr_neq by lia. simpl. rewrite <- (Hm x Hx). split; [intros [?|?]; [congruence|assumption]|auto].
      + intros x Hx. destruct (Z.eq_dec x k) as [->|Hne].
        * right. apply znth_wr_eq. lia.
        * left. apply znth_wr_neq; lia.
  Qed.

  Lemma cnt_fold n i ks : Forall (fun k => 0 <= k < n) ks ->
    forall mask l, Z.of_nat (length mask) = n ->
    (forall x, 0 <= x < n -> (In x l <-> znth mask x 0 = i)) ->
    exists mask',
      fold_left (cnt_step i) ks (mask, Z.of_nat (length l)) = (mask', Z.of_nat (length (fold_left touch ks l)))
      /\ Z.of_nat (length mask') = n
      /\ (forall x, 0 <= x < n -> (In x (fold_left touch ks l) <-> znth mask' x 0 = i))
      /\ (forall x, 0 <= x < n -> znth mask' x 0 = znth mask x 0 \/ znth mask' x 0 = i).
  Proof.
    induction 1 as [|k ks Hk Hks IH]; intros mask l Hn Hm.
    - exists mask. simpl. auto.
    - destruct (cnt_step_spec n i mask l k Hn Hk Hm) as [m1 [E1 [Hn1 [Hm1 Hd1]]]].
      cbn [fold_left]. rewrite E1.
      destruct (IH m1 (touch l k) Hn1 Hm1) as [m2 [E2 [Hn2 [Hm2 Hd2]]]].
      exists m2. split; [exact E2|split; [exact Hn2|split; [exact Hm2|]]].
      intros x Hx. destruct (Hd2 x Hx) as [H|H]; [|right; exact H].
      rewrite H. apply Hd1. exact Hx.
  Qed.

  Lemma fold_flat {A B S} (f : S -> B -> S) (g : A -> list B) (l : list A) (s : S) :
    fold_left (fun st x => fold_left f (g x) st) l s = fold_left f (flat_map g l) s.
  Proof. revert s; induction l as [|x l IH]; intros s; simpl; [reflexivity|]. rewrite fold_left_app. apply IH. Qed.

  Definition row_keys (a_indices b_indices a_indptr b_indptr : list Z) (i : Z) : list Z :=
    flat_map (row_cols b_indices b_indptr) (row_cols a_indices a_indptr i).

  Lemma cnt_row_spec n ai bi ap bp mask nnz i :
    Z.of_nat (length mask) = n ->
    Forall (fun k => 0 <= k < n) (row_keys ai bi ap bp i) ->
    (forall x, 0 <= x < n -> znth mask x 0 < i) ->
    exists mask',
      cnt_row ai bi ap bp (mask, nnz) i = (mask', nnz + Z.of_nat (length (touched (row_keys ai bi ap bp i))))
      /\ Z.of_nat (length mask') = n
      /\ (forall x, 0 <= x < n -> znth mask' x 0 < i + 1).
  Proof.
    intros Hn Hk Hlt. unfold cnt_row, cnt_inner.
    rewrite (fold_flat (cnt_step i) (row_cols bi bp) (row_cols ai ap i) (mask, 0)).
    fold (row_keys ai bi ap bp i).
    destruct (cnt_fold n i _ Hk mask [] Hn) as [m' [E [Hn' [_ Hd]]]].
    { intros x Hx. simpl. split; [tauto|]. intros H. specialize (Hlt x Hx). lia. }
    simpl length in E. change (Z.of_nat 0) with 0 in E. rewrite E. exists m'.
    split; [reflexivity|split; [exact Hn'|]].
    intros x Hx. destruct (Hd x Hx) as [H|H]; rewrite H; [specialize (Hlt x Hx)|]; lia.
  Qed.

  Lemma count_fold n ai bi ap bp : (forall i, Forall (fun k => 0 <= k < n) (row_keys ai bi ap bp i)) ->
    forall (is : list Z) mask nnz bound,
    Z.of_nat (length mask) = n ->
    (forall x, 0 <= x < n -> znth mask x 0 < bound) ->
    StronglySorted Z.lt is -> Forall (fun i => bound <= i) is ->
    snd (fold_left (cnt_row ai bi ap bp) is (mask, nnz))
    = nnz + Z.of_nat (length (concat (map (fun i => touched (row_keys ai bi ap bp i)) is))).
  Proof.
    intros Hk. induction is as [|i is IH]; intros mask nnz bound Hn Hlt Hs Hb.
    - simpl. lia.
    - apply StronglySorted_inv in Hs. destruct Hs as [Hs' Hall].
      pose proof (Forall_inv Hb) as Hbi. pose proof (Forall_inv_tail Hb) as Hb'. simpl in Hbi.
      destruct (cnt_row_spec n ai bi ap bp mask nnz i Hn (Hk i)) as [m' [E [Hn' Hlt']]].
      { intros x Hx. specialize (Hlt x Hx). lia. }
      cbn [fold_left]. rewrite E. rewrite (IH m' _ (i + 1) Hn' Hlt' Hs').
      + simpl. rewrite app_length. lia.
      + eapply Forall_impl; [|exact Hall]. simpl. intros; lia.
  Qed.

  Lemma zrange_SS n : StronglySorted Z.lt (zrange n).
  Proof.
    unfold zrange. generalize 0%nat. induction (Z.to_nat n) as [|m IH]; intros s; simpl; constructor; [apply IH|].
    apply Forall_forall. intros x Hx. apply in_map_iff in Hx. destruct Hx as [y [<- Hy]]. apply in_seq in Hy. lia.
  Qed.

  Lemma count_spec n_row n_col ai bi ap bp :
    (forall i, Forall (fun k => 0 <= k < n_col) (row_keys ai bi ap bp i)) -> 0 <= n_col ->
    csr_csr_count_nnz n_row n_col ai bi ap bp
    = Z.of_nat (length (concat (map (fun i => touched (row_keys ai bi ap bp i)) (zrange n_row)))).
  Proof.
    intros Hk Hn. unfold csr_csr_count_nnz.
    rewrite (count_fold n_col ai bi ap bp Hk (zrange n_row) _ 0 0).
    - lia.
    - rewrite repeat_length. lia.
    - intros x Hx. rewrite znth_repeat by lia. lia.
    - apply zrange_SS.
    - apply Forall_forall. intros x Hx. apply zrange_In in Hx. lia.
  Qed.

  (* ------------------------------------------------------------------ well-formed operands *)
  Lemma csr_wfb_facts n_row n_col (m : csr V) : csr_wfb n_row n_col m = true ->
    length (m_indices m) = length (m_data m) /\ 0 <= n_row /\ 0 <= n_col /\
    Z.of_nat (length (m_indptr m)) = n_row + 1 /\
    Forall (fun c => 0 <= c < n_col) (m_indices m) /\
    (forall i, 0 <= i < n_row -> strictly_increasing (row_cols (m_indices m) (m_indptr m) i) = true).
  Proof.
    unfold csr_wfb. rewrite !andb_true_iff.
    intros [[[[[[[[H1 H2] H3] H4] H5] H6] H7] H8] H9].
    apply Nat.eqb_eq in H1. apply Z.leb_le in H2, H3. apply Z.eqb_eq in H4.
    repeat split; auto.
    - apply Forall_forall. intros c Hc. rewrite forallb_forall in H8. specialize (H8 _ Hc).
      apply andb_true_iff in H8. destruct H8 as [Ha Hb]. apply Z.leb_le in Ha. apply Z.ltb_lt in Hb. lia.
    - intros i Hi. rewrite forallb_forall in H9. apply H9.
      unfold row_cols, znth. replace (Z.to_nat (i + 1)) with (S (Z.to_nat i)) by lia.
      rewrite <- rows_of_nth by lia. apply nth_In. rewrite rows_of_length. lia.
  Qed.

  Lemma row_pairs_keys (m : csr V) i : length (m_indices m) = length (m_data m) ->
    map fst (row_pairs m i) = row_cols (m_indices m) (m_indptr m) i.
  Proof. intros H. unfold row_pairs, row_cols. apply map_fst_combine. apply slice_length_eq. exact H. Qed.

  Lemma row_pairs_in_indices (m : csr V) i kv : In kv (row_pairs m i) -> In (fst kv) (m_indices m).
  Proof.
    unfold row_pairs. destruct kv as [k v]. intros H. apply in_combine_l in H. simpl. eapply slice_In. exact H.
  Qed.

  Lemma keys_ok_wf n_col (a b : csr V) : Forall (fun c => 0 <= c < n_col) (m_indices b) -> keys_ok n_col a b.
  Proof.
    intros Hb i. apply Forall_forall. intros [k p] Hin. unfold prod_stream in Hin.
    apply in_flat_map in Hin. destruct Hin as [jav [_ Hin]]. apply in_map_iff in Hin.
    destruct Hin as [kbv [E Hin]]. inversion E; subst. simpl.
    rewrite Forall_forall in Hb. apply Hb. eapply row_pairs_in_indices. exact Hin.
  Qed.

  Lemma prod_stream_keys (a b : csr V) i :
    length (m_indices a) = length (m_data a) -> length (m_indices b) = length (m_data b) ->
    map fst (prod_stream V vmul a b i) = row_keys (m_indices a) (m_indices b) (m_indptr a) (m_indptr b) i.
  Proof.
    intros Ha Hb. unfold prod_stream, row_keys. rewrite <- (row_pairs_keys a i Ha).
    induction (row_pairs a i) as [|[j av] r IH]; simpl; [reflexivity|].
    rewrite map_app, IH. f_equal. rewrite map_map. simpl. rewrite <- (row_pairs_keys b j Hb).
    reflexivity.
  Qed.

  Lemma length_concat_map_ext {A B C} (f : A -> list B) (g : A -> list C) l :
    (forall x, length (f x) = length (g x)) -> length (concat (map f l)) = length (concat (map g l)).
  Proof. intros H. induction l; simpl; [reflexivity|]. rewrite !app_length, H, IHl. reflexivity. Qed.

  (* the pre-count equals the number of cells the loops write *)
  Lemma count_exact n_row n_in n_col (a b : csr V) :
    csr_wfb n_row n_in a = true -> csr_wfb n_in n_col b = true ->
    csr_csr_count_nnz n_row n_col (m_indices a) (m_indices b) (m_indptr a) (m_indptr b)
    = Z.of_nat (length (snd (fst (spgemm_loops V vzero vadd vmul n_row n_col a b)))).
  Proof.
    intros Ha Hb.
    destruct (csr_wfb_facts _ _ _ Ha) as [Ha1 [_ [_ [_ [_ _]]]]].
    destruct (csr_wfb_facts _ _ _ Hb) as [Hb1 [_ [Hn [_ [Hb5 _]]]]].
    pose proof (keys_ok_wf n_col a b Hb5) as Hk.
    destruct (spgemm_loops_spec n_row n_col a b Hn Hk) as [sm' E]. rewrite E. simpl.
    rewrite count_spec; auto.
    - f_equal. unfold out_rows. apply length_concat_map_ext. intros i.
      rewrite out_row_length. unfold abs_row. rewrite map_length, prod_stream_keys by assumption. reflexivity.
    - intros i. rewrite <- (prod_stream_keys a b i Ha1 Hb1).
      specialize (Hk i). rewrite Forall_forall in *. intros k Hin. apply in_map_iff in Hin.
      destruct Hin as [kp [<- Hin]]. apply Hk. exact Hin.
  Qed.

  Lemma dot_csr_csr_ok n_row n_in n_col (a b : csr V) :
    csr_wfb n_row n_in a = true -> csr_wfb n_in n_col b = true ->
    dot_csr_csr V vzero vadd vmul n_row n_col a b
    = KOk (mkCSR (map snd (concat (out_rows n_row a b))) (map fst (concat (out_rows n_row a b)))
                 (offs 0 (out_rows n_row a b))).
  Proof.
    intros Ha Hb. unfold dot_csr_csr. rewrite (count_exact _ _ _ _ _ Ha Hb).
    destruct (csr_wfb_facts _ _ _ Hb) as [_ [_ [Hn [_ [Hb5 _]]]]].
    destruct (spgemm_loops_spec n_row n_col a b Hn (keys_ok_wf n_col a b Hb5)) as [sm' E]. rewrite E. simpl.
    rewrite Z.ltb_irrefl. reflexivity.
  Qed.

  (* ------------------------------------------------------------------ sums *)
  Definition ssum (k : Z) (ps : list (Z * V)) : V :=
    vsum V vzero vadd (map snd (filter (fun kp => fst kp =? k) ps)).

  Lemma ksum_ssum k s ps : ksum k s ps = vadd s (ssum k ps).
  Proof.
    revert s; induction ps as [|[k' p] ps IH]; intros s; unfold ssum in *; simpl.
    - symmetry. apply add_0_r.
    - destruct (Z.eqb_spec k' k); simpl; rewrite IH; [|reflexivity].
      rewrite add_assoc. reflexivity.
  Qed.

  Lemma vsum_app l1 l2 : vsum V vzero vadd (l1 ++ l2) = vadd (vsum V vzero vadd l1) (vsum V vzero vadd l2).
  Proof.
    induction l1 as [|x l1 IH]; simpl; [symmetry; apply add_0_l|]. rewrite IH. apply add_assoc.
  Qed.

  Lemma ssum_app k l1 l2 : ssum k (l1 ++ l2) = vadd (ssum k l1) (ssum k l2).
  Proof. unfold ssum. rewrite filter_app, map_app. apply vsum_app. Qed.

  Lemma ssum_flat_map {A} k (f : A -> list (Z * V)) l :
    ssum k (flat_map f l) = vsum V vzero vadd (map (fun x => ssum k (f x)) l).
  Proof. induction l as [|x l IH]; simpl; [reflexivity|]. rewrite ssum_app, IH. reflexivity. Qed.

  Lemma ssum_notin k ps : ~ In k (map fst ps) -> ssum k ps = vzero.
  Proof.
    unfold ssum. induction ps as [|[k' p] ps IH]; simpl; intros H; [reflexivity|].
    destruct (Z.eqb_spec k' k); [exfalso; apply H; left; assumption|]. apply IH. tauto.
  Qed.

  Lemma row_lookup_None (r : list (Z * V)) k : row_lookup r k = None <-> ~ In k (map fst r).
  Proof.
    induction r as [|[c v] r IH]; simpl; [tauto|].
    destruct (row_lookup r k) eqn:E.
    - split; [discriminate|]. intros H. exfalso. assert (Hn : ~ In k (map fst r)) by tauto.
      apply IH in Hn. discriminate.
    - destruct (Z.eqb_spec c k).
      + split; [discriminate|]. intros H. exfalso. apply H. left. assumption.
      + split; [|reflexivity]. intros _ [H|H]; [congruence|]. apply (proj1 IH eq_refl). exact H.
  Qed.

  Lemma row_lookup_In (r : list (Z * V)) k v :
    NoDup (map fst r) -> (row_lookup r k = Some v <-> In (k, v) r).
  Proof.
    induction r as [|[c w] r IH]; simpl; intros Hnd; [split; [discriminate|tauto]|].
    apply NoDup_cons_iff in Hnd. destruct Hnd as [Hc Hnd]. specialize (IH Hnd).
    destruct (row_lookup r k) as [u|] eqn:E.
    - split.
      + intros H. right. apply IH. exact H.
      + intros [H|H]; [|apply IH; exact H]. inversion H; subst. exfalso.
        assert (Hn : row_lookup r k = None) by (apply row_lookup_None; exact Hc). congruence.
    - destruct (Z.eqb_spec c k) as [->|Hne].
      + split; [intros H; inversion H; subst; left; reflexivity|].
        intros [H|H]; [inversion H; reflexivity|]. exfalso. apply Hc. apply in_map_iff. exists (k, v). auto.
      + split; [discriminate|]. intros [H|H]; [inversion H; congruence|]. apply IH in H. discriminate.
  Qed.

  Lemma row_get_perm (r r' : list (Z * V)) k :
    Permutation r r' -> NoDup (map fst r) -> row_get V vzero r k = row_get V vzero r' k.
  Proof.
    intros Hp Hnd. assert (Hnd' : NoDup (map fst r')) by (eapply Permutation_NoDup; [apply Permutation_map; exact Hp|exact Hnd]).
    unfold row_get. destruct (row_lookup r k) as [v|] eqn:E.
    - apply (row_lookup_In r k v Hnd) in E. eapply Permutation_in in E; [|exact Hp].
      apply (row_lookup_In r' k v Hnd') in E. rewrite E. reflexivity.
    - apply row_lookup_None in E.
      assert (E' : row_lookup r' k = None).
      { apply row_lookup_None. intros H. apply E. eapply Permutation_in; [|exact H].
        apply Permutation_sym, Permutation_map. exact Hp. }
      rewrite E'. reflexivity.
  Qed.

  Lemma row_lookup_map_key (g : Z -> V) l k : NoDup l ->
    row_lookup (map (fun x => (x, g x)) l) k = if mem_z k l then Some (g k) else None.
  Proof.
    induction l as [|x l IH]; simpl; intros Hnd; [reflexivity|].
    apply NoDup_cons_iff in Hnd. destruct Hnd as [Hx Hnd]. rewrite (IH Hnd).
    unfold mem_z in *. simpl. destruct (Z.eqb_spec k x) as [->|Hne]; simpl.
    - destruct (existsb (Z.eqb x) l) eqn:Em.
      + exfalso. apply Hx. apply existsb_exists in Em. destruct Em as [y [Hy Ey]]. apply Z.eqb_eq in Ey. subst. exact Hy.
      + rewrite Z.eqb_refl. reflexivity.
    - destruct (existsb (Z.eqb k) l); [reflexivity|].
      destruct (Z.eqb_spec x k); [congruence|reflexivity].
  Qed.

  (* scaling a row of b by av and summing the products that land in column k *)
  Lemma ssum_scaled av (rb : list (Z * V)) k : NoDup (map fst rb) ->
    ssum k (map (fun kbv => (fst kbv, vmul av (snd kbv))) rb) = vmul av (row_get V vzero rb k).
  Proof.
    unfold row_get. induction rb as [|[c w] rb IH]; simpl; intros Hnd.
    - unfold ssum. simpl. symmetry. apply mul_0_r.
    - apply NoDup_cons_iff in Hnd. destruct Hnd as [Hc Hnd]. specialize (IH Hnd).
      change (ssum k ((c, vmul av w) :: map (fun kbv => (fst kbv, vmul av (snd kbv))) rb))
        with (ssum k ([(c, vmul av w)] ++ map (fun kbv => (fst kbv, vmul av (snd kbv))) rb)).
      rewrite ssum_app, IH. unfold ssum at 1. simpl.
      destruct (Z.eqb_spec c k) as [->|Hne]; simpl.
      + assert (E : row_lookup rb k = None) by (apply row_lookup_None; exact Hc).
        rewrite E. rewrite add_0_r, mul_0_r. apply add_0_r.
      + rewrite add_0_l. destruct (row_lookup rb k); reflexivity.
  Qed.

  Lemma vsum_single_out (f : Z -> V) (x : V) j0 (L : list Z) :
    NoDup L -> In j0 L -> f j0 = vzero ->
    vsum V vzero vadd (map (fun j => if j =? j0 then x else f j) L) = vadd x (vsum V vzero vadd (map f L)).
  Proof.
    induction L as [|a L IH]; simpl; intros Hnd Hin Hf; [tauto|].
    apply NoDup_cons_iff in Hnd. destruct Hnd as [Ha Hnd].
    destruct (Z.eqb_spec a j0) as [->|Hne].
    - rewrite Hf, add_0_l. f_equal. f_equal. apply map_ext_in. intros j Hj.
      destruct (Z.eqb_spec j j0); [subst; contradiction|reflexivity].
    - destruct Hin as [?|Hin]; [contradiction|]. rewrite (IH Hnd Hin Hf).
      rewrite !add_assoc. f_equal. apply add_comm.
  Qed.

  (* summing over the stored entries of a sparse row = summing over the whole index range *)
  Lemma sparse_row_sum (h : Z -> V) n (ra : list (Z * V)) :
    NoDup (map fst ra) -> Forall (fun jav => 0 <= fst jav < n) ra ->
    vsum V vzero vadd (map (fun jav => vmul (snd jav) (h (fst jav))) ra)
    = sum_over V vzero vadd n (fun j => vmul (row_get V vzero ra j) (h j)).
  Proof.
    unfold sum_over. induction ra as [|[j0 av] ra IH]; simpl; intros Hnd Hr.
    - unfold row_get. simpl. induction (zrange n) as [|j L IHL]; simpl; [reflexivity|].
      rewrite mul_0_l, add_0_l. exact IHL.
    - apply NoDup_cons_iff in Hnd. destruct Hnd as [Hj0 Hnd].
      pose proof (Forall_inv Hr) as Hr0. pose proof (Forall_inv_tail Hr) as Hr'. simpl in Hr0.
      rewrite (IH Hnd Hr').
      rewrite <- (vsum_single_out (fun j => vmul (row_get V vzero ra j) (h j)) (vmul av (h j0)) j0 (zrange n)).
      + f_equal. apply map_ext. intros j. unfold row_get. simpl.
        destruct (Z.eqb_spec j j0) as [->|Hne].
        * assert (E : row_lookup ra j0 = None) by (apply row_lookup_None; exact Hj0).
          rewrite E, Z.eqb_refl. reflexivity.
        * destruct (row_lookup ra j); [reflexivity|]. destruct (Z.eqb_spec j0 j); [congruence|reflexivity].
      + apply zrange_NoDup.
      + apply zrange_In. exact Hr0.
      + unfold row_get. assert (E : row_lookup ra j0 = None) by (apply row_lookup_None; exact Hj0).
        rewrite E. apply mul_0_l.
  Qed.

  (* ------------------------------------------------------------------ rows of the result *)
  Lemma abs_row_keys a b i : map fst (abs_row a b i) = touched (map fst (prod_stream V vmul a b i)).
  Proof. unfold abs_row. rewrite map_map. simpl. apply map_id. Qed.

  Lemma out_row_keys_NoDup a b i : NoDup (map fst (out_row a b i)).
  Proof.
    eapply Permutation_NoDup; [apply Permutation_map, Permutation_sym, sort_cells_perm|].
    rewrite abs_row_keys. apply touched_NoDup.
  Qed.

  Lemma out_row_sorted a b i : strictly_increasing (map fst (out_row a b i)) = true.
  Proof.
    apply SS_lt_strictly_increasing. apply sorted_nodup_strict; [apply sort_cells_sorted|apply out_row_keys_NoDup].
  Qed.

  Lemma out_row_get a b i k :
    row_get V vzero (out_row a b i) k = ssum k (prod_stream V vmul a b i).
  Proof.
    unfold out_row. rewrite (row_get_perm _ (abs_row a b i) k (sort_cells_perm V _)).
    2:{ eapply Permutation_NoDup; [apply Permutation_map, Permutation_sym, sort_cells_perm|].
        rewrite abs_row_keys. apply touched_NoDup. }
    unfold row_get, abs_row. rewrite row_lookup_map_key by apply touched_NoDup.
    destruct (mem_z k (touched (map fst (prod_stream V vmul a b i)))) eqn:E.
    - rewrite ksum_ssum. apply add_0_l.
    - symmetry. apply ssum_notin. intros Hin. apply (proj2 (touched_In _ _)) in Hin. apply mem_z_In in Hin. congruence.
  Qed.

  Lemma nth_zrange n i : 0 <= i < n -> nth (Z.to_nat i) (zrange n) 0 = i.
  Proof.
    intros H. unfold zrange. rewrite (nth_indep _ 0 (Z.of_nat 0)) by (rewrite map_length, seq_length; lia).
    rewrite map_nth, seq_nth by lia. lia.
  Qed.

  (* the row i of the returned triple is out_row i *)
  Lemma result_row n_row (a b : csr V) i : 0 <= i < n_row ->
    row_pairs (mkCSR (map snd (concat (out_rows n_row a b))) (map fst (concat (out_rows n_row a b)))
                     (offs 0 (out_rows n_row a b))) i
    = out_row a b i.
  Proof.
    intros Hi. unfold row_pairs. simpl. set (R := out_rows n_row a b).
    assert (HlenR : length R = Z.to_nat n_row).
    { unfold R, out_rows. rewrite map_length. unfold zrange. rewrite map_length, seq_length. reflexivity. }
    assert (Hsl : forall {B} (f : Z * V -> B),
               slice_list (map f (concat R)) (znth (offs 0 R) i 0) (znth (offs 0 R) (i + 1) 0)
               = map f (nth (Z.to_nat i) R [])).
    { intros B f. unfold znth. replace (Z.to_nat (i + 1)) with (S (Z.to_nat i)) by lia.
      rewrite <- rows_of_nth by (rewrite offs_length; lia).
      rewrite concat_map, <- (offs_map f 0 R), rows_of_concat.
      rewrite <- (map_nth (map f)). reflexivity. }
    rewrite (Hsl _ fst), (Hsl _ snd), combine_fst_snd.
    unfold R, out_rows. rewrite (nth_indep _ [] (out_row a b 0)) by (fold (out_rows n_row a b); fold R; lia).
    rewrite map_nth, nth_zrange by assumption. reflexivity.
  Qed.

  (* spgemm_den *)
  Lemma spgemm_den_row n_row n_in n_col (a b : csr V) i k :
    csr_wfb n_row n_in a = true -> csr_wfb n_in n_col b = true -> 0 <= i < n_row ->
    ssum k (prod_stream V vmul a b i)
    = np_matmul2 V vzero vadd vmul n_in (csr_den V vzero a) (csr_den V vzero b) i k.
  Proof.
    intros Ha Hb Hi.
    destruct (csr_wfb_facts _ _ _ Ha) as [Ha1 [_ [_ [_ [Ha5 Ha6]]]]].
    destruct (csr_wfb_facts _ _ _ Hb) as [Hb1 [_ [_ [_ [_ Hb6]]]]].
    unfold prod_stream. rewrite ssum_flat_map.
    assert (Hra : Forall (fun jav => 0 <= fst jav < n_in) (row_pairs a i)).
    { apply Forall_forall. intros jav Hin. rewrite Forall_forall in Ha5. apply Ha5.
      eapply row_pairs_in_indices. exact Hin. }
    assert (Hnd : NoDup (map fst (row_pairs a i))).
    { rewrite row_pairs_keys by assumption. apply SS_lt_NoDup, strictly_increasing_SS, Ha6. exact Hi. }
    rewrite (map_ext_in _ (fun jav => vmul (snd jav) (csr_den V vzero b (fst jav) k))).
    - rewrite (sparse_row_sum (fun j => csr_den V vzero b j k) n_in _ Hnd Hra). reflexivity.
    - intros [j av] Hin. simpl. apply ssum_scaled.
      rewrite row_pairs_keys by assumption. apply SS_lt_NoDup, strictly_increasing_SS, Hb6.
      rewrite Forall_forall in Hra. apply (Hra _ Hin).
  Qed.

  Theorem spgemm_den_proof n_row n_in n_col (a b : csr V) :
    csr_wfb n_row n_in a = true -> csr_wfb n_in n_col b = true ->
    exists r, dot_csr_csr V vzero vadd vmul n_row n_col a b = KOk r /\
      forall i k, 0 <= i < n_row ->
        csr_den V vzero r i k = np_matmul2 V vzero vadd vmul n_in (csr_den V vzero a) (csr_den V vzero b) i k.
  Proof.
    intros Ha Hb. eexists. split; [apply (dot_csr_csr_ok _ _ _ _ _ Ha Hb)|].
    intros i k Hi. unfold csr_den at 1. rewrite result_row by assumption.
    rewrite out_row_get. apply (spgemm_den_row _ _ _ _ _ _ _ Ha Hb Hi).
  Qed.

  (* count_nnz_exact: the buffers sized by the pre-count are exactly filled *)
  Theorem count_nnz_exact_proof n_row n_in n_col (a b : csr V) :
    csr_wfb n_row n_in a = true -> csr_wfb n_in n_col b = true ->
    csr_csr_count_nnz n_row n_col (m_indices a) (m_indices b) (m_indptr a) (m_indptr b)
    = Z.of_nat (length (snd (fst (spgemm_loops V vzero vadd vmul n_row n_col a b))))
    /\ exists r, dot_csr_csr V vzero vadd vmul n_row n_col a b = KOk r
                 /\ Z.of_nat (length (m_data r)) = csr_csr_count_nnz n_row n_col (m_indices a) (m_indices b) (m_indptr a) (m_indptr b)
                 /\ length (m_indices r) = length (m_data r).
  Proof.
    intros Ha Hb. split; [apply (count_exact _ _ _ _ _ Ha Hb)|].
    eexists. split; [apply (dot_csr_csr_ok _ _ _ _ _ Ha Hb)|]. simpl. split.
    - rewrite (count_exact _ _ _ _ _ Ha Hb).
      destruct (csr_wfb_facts _ _ _ Hb) as [_ [_ [Hn [_ [Hb5 _]]]]].
      destruct (spgemm_loops_spec n_row n_col a b Hn (keys_ok_wf n_col a b Hb5)) as [sm' E]. rewrite E. simpl.
      rewrite map_length. reflexivity.
    - rewrite !map_length. reflexivity.
  Qed.

  (* spgemm_rows_sorted: the result is a well-formed CSR matrix *)
  Theorem spgemm_rows_sorted_proof n_row n_in n_col (a b : csr V) :
    csr_wfb n_row n_in a = true -> csr_wfb n_in n_col b = true ->
    exists r, dot_csr_csr V vzero vadd vmul n_row n_col a b = KOk r /\ csr_wfb n_row n_col r = true.
  Proof.
    intros Ha Hb. eexists. split; [apply (dot_csr_csr_ok _ _ _ _ _ Ha Hb)|].
    destruct (csr_wfb_facts _ _ _ Ha) as [_ [Hnr _]].
    destruct (csr_wfb_facts _ _ _ Hb) as [_ [_ [Hn [_ [Hb5 _]]]]].
    pose proof (keys_ok_wf n_col a b Hb5) as Hk.
    set (R := out_rows n_row a b).
    assert (HlenR : length R = Z.to_nat n_row).
    { unfold R, out_rows. rewrite map_length. unfold zrange. rewrite map_length, seq_length. reflexivity. }
    unfold csr_wfb. simpl. rewrite !andb_true_iff. repeat split.
    - rewrite !map_length. apply Nat.eqb_refl.
    - apply Z.leb_le. exact Hnr.
    - apply Z.leb_le. exact Hn.
    - apply Z.eqb_eq. rewrite offs_length. lia.
    - destruct (offs_head 0 R) as [t Ht]. rewrite Ht. reflexivity.
    - apply Z.eqb_eq. unfold znth. replace (Z.to_nat n_row) with (length R) by lia.
      rewrite (nth_indep _ (-1) 0) by (rewrite offs_length; lia).
      rewrite offs_last, map_length. lia.
    - apply offs_nondecreasing.
    - apply forallb_forall. intros c Hc. apply in_map_iff in Hc. destruct Hc as [[c' v] [<- Hc]]. simpl.
      apply in_concat in Hc. destruct Hc as [row [Hrow Hc]]. unfold R, out_rows in Hrow.
      apply in_map_iff in Hrow. destruct Hrow as [i [<- _]].
      assert (Hin : In c' (map fst (out_row a b i))) by (apply in_map_iff; exists (c', v); auto).
      eapply Permutation_in in Hin; [|apply Permutation_map, sort_cells_perm].
      rewrite abs_row_keys in Hin. apply (proj1 (touched_In _ _)) in Hin. apply in_map_iff in Hin.
      destruct Hin as [kp [<- Hin]]. specialize (Hk i). rewrite Forall_forall in Hk. specialize (Hk _ Hin).
      apply andb_true_iff. split; [apply Z.leb_le|apply Z.ltb_lt]; lia.
    - rewrite concat_map, <- (offs_map fst 0 R), rows_of_concat.
      apply forallb_forall. intros row Hrow. apply in_map_iff in Hrow. destruct Hrow as [r [<- Hr]].
      unfold R, out_rows in Hr. apply in_map_iff in Hr. destruct Hr as [i [<- _]]. apply out_row_sorted.
  Qed.
End Kernel.

(* ====================================================================== _dot_coo_ndarray terminates *)
Section Termination.
  Variable V : Type.
  Variable vzero : V.
  Variable vadd vmul : V -> V -> V.

  Lemma scan_run_bounds m rows cols (data : list V) a2 o1 o2 d out :
    d <= fst (scan_run V vzero vadd vmul m rows cols data a2 o1 o2 d out) <= Z.max d (Z.of_nat (length data)).
  Proof.
    revert d out; induction m as [|m IH]; intros d out; simpl; [lia|].
    destruct ((d <? Z.of_nat (length data)) && (znth rows d 0 =? o1)) eqn:E; simpl; [|lia].
    apply andb_true_iff in E. destruct E as [E _]. apply Z.ltb_lt in E.
    specialize (IH (d + 1) (upd2 V out o1 o2 (vadd (out o1 o2) (vmul (znth data d vzero) (a2 o2 (znth cols d 0)))))). lia.
  Qed.

  Lemma scan_run_progress m rows cols (data : list V) a2 o2 d out :
    (0 < m)%nat -> d < Z.of_nat (length data) ->
    d + 1 <= fst (scan_run V vzero vadd vmul m rows cols data a2 (znth rows d 0) o2 d out).
  Proof.
    intros Hm Hd. destruct m as [|m]; [lia|]. simpl.
    apply Z.ltb_lt in Hd. rewrite Hd, Z.eqb_refl. simpl.
    pose proof (scan_run_bounds m rows cols data a2 (znth rows d 0) o2 (d + 1)
      (upd2 V out (znth rows d 0) o2 (vadd (out (znth rows d 0) o2) (vmul (znth data d vzero) (a2 o2 (znth cols d 0)))))). lia.
  Qed.

  (* the for loop over a non-empty range ends in the state its last iteration produces *)
  Lemma fold_last_prop {S B} (P : S -> Prop) (step : S -> B -> S) (l : list B) (s : S) :
    l <> [] -> (forall s x, P (step s x)) -> P (fold_left step l s).
  Proof.
    revert s; induction l as [|x l IH]; intros s Hne Hstep; [congruence|].
    simpl. destruct l as [|y l']; [apply Hstep|]. apply IH; [discriminate|exact Hstep].
  Qed.

  Lemma cn_for_progress rows cols (data : list V) a2 out_cols d out :
    0 < out_cols -> 0 <= d < Z.of_nat (length data) ->
    d + 1 <= fst (cn_for V vzero vadd vmul rows cols data a2 out_cols (znth rows d 0) d d out) <= Z.of_nat (length data).
  Proof.
    intros Hc Hd. unfold cn_for.
    apply (fold_last_prop (fun st : Z * dense2 V => d + 1 <= fst st <= Z.of_nat (length data))).
    - intros E. assert (In 0 (zrange out_cols)) by (apply zrange_In; lia). rewrite E in H. contradiction.
    - intros st o2. split.
      + apply scan_run_progress; lia.
      + pose proof (scan_run_bounds (Z.to_nat (Z.of_nat (length data) - d)) rows cols data a2 (znth rows d 0) o2 d (snd st)). lia.
  Qed.

  Lemma cn_while_terminates fuel rows cols (data : list V) a2 out_cols : forall d out,
    0 <= d -> (Z.to_nat (Z.of_nat (length data) - d) <= fuel)%nat ->
    exists o, cn_while V vzero vadd vmul fuel rows cols data a2 out_cols d out = KOk o.
  Proof.
    induction fuel as [|f IH]; intros d out Hd Hf.
    - simpl. destruct (Z.ltb_spec d (Z.of_nat (length data))); [lia|]. simpl. eauto.
    - simpl. destruct (Z.ltb_spec d (Z.of_nat (length data))); simpl; [|eauto].
      destruct (Z.ltb_spec 0 out_cols); simpl; [|eauto].
      pose proof (cn_for_progress rows cols data a2 out_cols d out H0 (conj Hd H)) as Hp.
      destruct (cn_for V vzero vadd vmul rows cols data a2 out_cols (znth rows d 0) d d out) as [d' out'] eqn:E.
      simpl in Hp. apply IH; lia.
  Qed.

  (* for EVERY input (any out_cols, any rows/cols/data), nnz units of fuel suffice *)
  Theorem dot_coo_ndarray_terminates_proof rows cols (data : list V) a2 out_cols :
    forall fuel, (length data <= fuel)%nat ->
    exists o, dot_coo_ndarray V vzero vadd vmul fuel rows cols data a2 out_cols = KOk o.
  Proof.
    intros fuel Hf. unfold dot_coo_ndarray. apply cn_while_terminates; lia.
  Qed.
End Termination.

(* ====================================================================== _dot_coo_ndarray: values *)
Section CooNdDen.
  Variable V : Type.
  Variable vzero : V.
  Variable vadd vmul : V -> V -> V.
  Variable rows cols : list Z.
  Variable data : list V.
  Variable a2 : Z -> Z -> V.

  Let n := Z.of_nat (length data).
  Definition term (t j : Z) : V := vmul (znth data t vzero) (a2 j (znth cols t 0)).

  (* out[i, j] after the entries d, d+1, ..., d+m-1 have been added, starting from s *)
  Fixpoint acc_from (m : nat) (d i j : Z) (s : V) : V :=
    match m with
    | O => s
    | S m' => acc_from m' (d + 1) i j (if znth rows d 0 =? i then vadd s (term d j) else s)
    end.

  Lemma acc_from_app m1 m2 d i j s :
    acc_from (m1 + m2) d i j s = acc_from m2 (d + Z.of_nat m1) i j (acc_from m1 d i j s).
  Proof.
    revert d s; induction m1 as [|m1 IH]; intros d s; simpl.
    - f_equal. lia.
    - rewrite IH. f_equal. lia.
  Qed.

  (* length of the run of entries with row o1 starting at d (at most m) *)
  Fixpoint run_len (m : nat) (o1 d : Z) : nat :=
    match m with
    | O => O
    | S m' => if (d <? n) && (znth rows d 0 =? o1) then S (run_len m' o1 (d + 1)) else O
    end.

  Lemma run_len_bound m o1 d : d <= n -> d + Z.of_nat (run_len m o1 d) <= n.
  Proof.
    revert d; induction m as [|m IH]; intros d Hd; simpl; [lia|].
    destruct (Z.ltb_spec d n); simpl; [|lia]. destruct (znth rows d 0 =? o1); simpl; [|lia].
    specialize (IH (d + 1) ltac:(lia)). lia.
  Qed.

  Lemma run_len_pos m d : (0 < m)%nat -> d < n -> (0 < run_len m (znth rows d 0%Z) d)%nat.
  Proof.
    intros Hm Hd. destruct m; [lia|]. simpl. apply Z.ltb_lt in Hd. rewrite Hd, Z.eqb_refl. simpl. lia.
  Qed.

  Lemma acc_from_run_other m o1 i j d s : i <> o1 -> acc_from (run_len m o1 d) d i j s = s.
  Proof.
    intros Hne. revert d s; induction m as [|m IH]; intros d s; simpl; [reflexivity|].
    destruct ((d <? n) && (znth rows d 0 =? o1)) eqn:E; simpl; [|reflexivity].
    apply andb_true_iff in E. destruct E as [_ E]. apply Z.eqb_eq in E.
    destruct (Z.eqb_spec (znth rows d 0) i); [congruence|]. apply IH.
  Qed.

  Lemma scan_run_spec m o1 o2 d out :
    fst (scan_run V vzero vadd vmul m rows cols data a2 o1 o2 d out) = d + Z.of_nat (run_len m o1 d)
    /\ forall i j, snd (scan_run V vzero vadd vmul m rows cols data a2 o1 o2 d out) i j
                   = if (i =? o1) && (j =? o2) then acc_from (run_len m o1 d) d o1 o2 (out o1 o2) else out i j.
  Proof.
    revert d out; induction m as [|m IH]; intros d out; simpl.
    - split; [lia|]. intros i j. destruct ((i =? o1) && (j =? o2)) eqn:E; [|reflexivity].
      apply andb_true_iff in E. destruct E as [E1 E2]. apply Z.eqb_eq in E1, E2. subst. reflexivity.
    - fold n. destruct ((d <? n) && (znth rows d 0 =? o1)) eqn:E; simpl.
      + apply andb_true_iff in E. destruct E as [_ E]. rewrite E.
        destruct (IH (d + 1) (upd2 V out o1 o2 (vadd (out o1 o2) (vmul (znth data d vzero) (a2 o2 (znth cols d 0)))))) as [H1 H2].
        split; [rewrite H1; lia|]. intros i j. rewrite H2.
        destruct ((i =? o1) && (j =? o2)) eqn:E2.
        * unfold upd2. rewrite !Z.eqb_refl. simpl. unfold term. reflexivity.
        * unfold upd2. rewrite E2. reflexivity.
      + split; [lia|]. intros i j. destruct ((i =? o1) && (j =? o2)) eqn:E2; [|reflexivity].
        apply andb_true_iff in E2. destruct E2 as [E1 E2]. apply Z.eqb_eq in E1, E2. subst. reflexivity.
  Qed.

  (* the for loop over the output columns js (pairwise distinct) *)
  Lemma cn_for_fold m o1 d (js : list Z) : NoDup js -> forall st,
    let r := fold_left (fun st o2 => scan_run V vzero vadd vmul m rows cols data a2 o1 o2 d (snd st)) js st in
    (js <> [] -> fst r = d + Z.of_nat (run_len m o1 d))
    /\ forall i j, snd r i j = if (i =? o1) && mem_z j js then acc_from (run_len m o1 d) d o1 j (snd st o1 j) else snd st i j.
  Proof.
    induction js as [|o2 js IH]; intros Hnd st; simpl.
    - split; [congruence|]. intros i j. rewrite andb_false_r. reflexivity.
    - apply NoDup_cons_iff in Hnd. destruct Hnd as [Hni Hnd].
      destruct (scan_run_spec m o1 o2 d (snd st)) as [H1 H2].
      specialize (IH Hnd (scan_run V vzero vadd vmul m rows cols data a2 o1 o2 d (snd st))). cbv zeta in IH.
      destruct IH as [IH1 IH2]. split.
      + intros _. destruct js as [|o3 js']; [simpl; exact H1|]. apply IH1. discriminate.
      + intros i j. rewrite IH2. unfold mem_z. simpl.
        destruct (Z.eqb_spec i o1) as [->|Hne]; simpl.
        * destruct (Z.eqb_spec j o2) as [->|Hne2]; simpl.
          -- assert (Em : existsb (Z.eqb o2) js = false).
             { destruct (existsb (Z.eqb o2) js) eqn:Em; [|reflexivity]. exfalso. apply Hni.
               apply existsb_exists in Em. destruct Em as [y [Hy Ey]]. apply Z.eqb_eq in Ey. subst. exact Hy. }
             rewrite Em. rewrite H2, !Z.eqb_refl. reflexivity.
          -- destruct (existsb (Z.eqb j) js).
             ++ rewrite H2, Z.eqb_refl. simpl. destruct (Z.eqb_spec j o2); [congruence|reflexivity].
             ++ rewrite H2, Z.eqb_refl. simpl. destruct (Z.eqb_spec j o2); [congruence|reflexivity].
        * rewrite H2. destruct (Z.eqb_spec i o1); [congruence|reflexivity].
  Qed.

  Lemma cn_for_spec out_cols o1 d out :
    let r := cn_for V vzero vadd vmul rows cols data a2 out_cols o1 d d out in
    let m := Z.to_nat (n - d) in
    (zrange out_cols <> [] -> fst r = d + Z.of_nat (run_len m o1 d))
    /\ forall i j, snd r i j = if (i =? o1) && mem_z j (zrange out_cols) then acc_from (run_len m o1 d) d o1 j (out o1 j) else out i j.
  Proof. unfold cn_for. apply (cn_for_fold (Z.to_nat (n - d)) o1 d (zrange out_cols) (zrange_NoDup out_cols) (d, out)). Qed.

  (* loop invariant: out[i, j] holds the contribution of the entries [0, d) *)
  Definition inv (out_cols d : Z) (out : Z -> Z -> V) : Prop :=
    forall i j, 0 <= j < out_cols -> out i j = acc_from (Z.to_nat d) 0 i j vzero.

  Lemma cn_while_den fuel out_cols : 0 < out_cols -> forall d out,
    0 <= d <= n -> (Z.to_nat (n - d) <= fuel)%nat -> inv out_cols d out ->
    exists o, cn_while V vzero vadd vmul fuel rows cols data a2 out_cols d out = KOk o /\ inv out_cols n o.
  Proof.
    intros Hc. induction fuel as [|f IH]; intros d out Hd Hf Hinv.
    - simpl. fold n. destruct (Z.ltb_spec d n); [lia|]. simpl. exists out. split; [reflexivity|].
      replace n with d by lia. exact Hinv.
    - simpl. fold n. destruct (Z.ltb_spec d n); simpl.
      2:{ exists out. split; [reflexivity|]. replace n with d by lia. exact Hinv. }
      destruct (Z.ltb_spec 0 out_cols); [|lia]. simpl.
      set (o1 := znth rows d 0).
      destruct (cn_for_spec out_cols o1 d out) as [F1 F2].
      destruct (cn_for V vzero vadd vmul rows cols data a2 out_cols o1 d d out) as [d' out'] eqn:E. simpl in F1, F2.
      set (m := Z.to_nat (n - d)) in *.
      assert (Hne : zrange out_cols <> []).
      { intros E0. assert (In 0 (zrange out_cols)) by (apply zrange_In; lia). rewrite E0 in H1. contradiction. }
      specialize (F1 Hne). set (L := run_len m o1 d) in *.
      assert (HL : (0 < L)%nat) by (apply run_len_pos; [unfold m; lia|assumption]).
      assert (HLb : d + Z.of_nat L <= n) by (apply run_len_bound; lia).
      apply IH; [lia|lia|].
      intros i j Hj. rewrite F2. rewrite F1.
      replace (Z.to_nat (d + Z.of_nat L)) with (Z.to_nat d + L)%nat by lia.
      rewrite acc_from_app. rewrite Z2Nat.id by lia. simpl Z.add. rewrite <- (Hinv i j Hj).
      assert (Hm : mem_z j (zrange out_cols) = true) by (apply mem_z_In, zrange_In; exact Hj).
      rewrite Hm, andb_true_r. destruct (Z.eqb_spec i o1) as [->|Hne1]; [reflexivity|].
      symmetry. apply acc_from_run_other. exact Hne1.
  Qed.

  Theorem dot_coo_ndarray_acc out_cols fuel : (length data <= fuel)%nat ->
    exists o, dot_coo_ndarray V vzero vadd vmul fuel rows cols data a2 out_cols = KOk o
      /\ forall i j, 0 <= j < out_cols -> o i j = acc_from (length data) 0 i j vzero.
  Proof.
    intros Hf. unfold dot_coo_ndarray.
    destruct (Z.ltb_spec 0 out_cols) as [Hc|Hc].
    - destruct (cn_while_den fuel out_cols Hc 0 (fun _ _ => vzero)) as [o [E Ho]]; [unfold n; lia|unfold n; lia| |].
      + intros i j _. reflexivity.
      + exists o. split; [exact E|]. intros i j Hj. rewrite (Ho i j Hj). unfold n. rewrite Nat2Z.id. reflexivity.
    - destruct (dot_coo_ndarray_terminates_proof V vzero vadd vmul rows cols data a2 out_cols fuel Hf) as [o E].
      exists o. split; [exact E|]. intros i j Hj. lia.
  Qed.
End CooNdDen.

Section CooNdDen2.
  Variable V : Type.
  Variable vzero : V.
  Variable vadd vmul : V -> V -> V.
  Hypothesis SR : comm_semiring vzero vadd vmul.
  Variable a2 : Z -> Z -> V.

  (* the same accumulation over the list of cells (row, column, value) *)
  Definition acc_list (cs : list (Z * Z * V)) (i j : Z) (s : V) : V :=
    fold_left (fun s (t : Z * Z * V) => if fst (fst t) =? i then vadd s (vmul (snd t) (a2 j (snd (fst t)))) else s) cs s.

  Lemma acc_from_cells (r c : list Z) (dt : list V) i j :
    length r = length dt -> length c = length dt ->
    forall (pr pc : list Z) (pd : list V) s,
      length pr = length pd -> length pc = length pd ->
      acc_from V vzero vadd vmul (pr ++ r) (pc ++ c) (pd ++ dt) a2 (length dt) (Z.of_nat (length pd)) i j s
      = acc_list (combine (combine r c) dt) i j s.
  Proof.
    revert r c; induction dt as [|v dt IH]; intros r c Hr Hc pr pc pd s Hpr Hpc.
    - destruct r, c; simpl in *; try discriminate; reflexivity.
    - destruct r as [|x r]; [discriminate|]. destruct c as [|y c]; [discriminate|]. simpl in Hr, Hc.
      cbn [acc_from length combine acc_list fold_left fst snd].
      assert (E1 : znth (pr ++ x :: r) (Z.of_nat (length pd)) 0 = x).
      { unfold znth. rewrite Nat2Z.id, <- Hpr, app_nth2, Nat.sub_diag by lia. reflexivity. }
      assert (E2 : znth (pc ++ y :: c) (Z.of_nat (length pd)) 0 = y).
      { unfold znth. rewrite Nat2Z.id, <- Hpc, app_nth2, Nat.sub_diag by lia. reflexivity. }
      assert (E3 : znth (pd ++ v :: dt) (Z.of_nat (length pd)) vzero = v).
      { unfold znth. rewrite Nat2Z.id, app_nth2, Nat.sub_diag by lia. reflexivity. }
      unfold term. rewrite E1, E2, E3.
      replace (pr ++ x :: r) with ((pr ++ [x]) ++ r) by (rewrite <- app_assoc; reflexivity).
      replace (pc ++ y :: c) with ((pc ++ [y]) ++ c) by (rewrite <- app_assoc; reflexivity).
      replace (pd ++ v :: dt) with ((pd ++ [v]) ++ dt) by (rewrite <- app_assoc; reflexivity).
      replace (Z.of_nat (length pd) + 1) with (Z.of_nat (length (pd ++ [v]))) by (rewrite app_length; simpl; lia).
      rewrite (IH r c ltac:(lia) ltac:(lia) (pr ++ [x]) (pc ++ [y]) (pd ++ [v])) by (rewrite !app_length; simpl; lia).
      reflexivity.
  Qed.

  Definition row_of (i : Z) (cs : list (Z * Z * V)) : list (Z * V) :=
    map (fun t => (snd (fst t), snd t)) (filter (fun t => fst (fst t) =? i) cs).

  Lemma acc_list_vsum cs i j s :
    acc_list cs i j s = vadd s (vsum V vzero vadd (map (fun cv => vmul (snd cv) (a2 j (fst cv))) (row_of i cs))).
  Proof.
    unfold acc_list, row_of. revert s; induction cs as [|[[r c] v] cs IH]; intros s; simpl.
    - symmetry. apply (add_0_r V vzero vadd vmul SR).
    - destruct (Z.eqb_spec r i); simpl; rewrite IH; [|reflexivity].
      rewrite (sr_add_assoc _ _ _ SR). reflexivity.
  Qed.

  Lemma cell_lookup_row_of cs i c : cell_lookup V cs i c = row_lookup (row_of i cs) c.
  Proof.
    unfold row_of. induction cs as [|[[r c'] v] cs IH]; simpl; [reflexivity|].
    rewrite IH. destruct (Z.eqb_spec r i); simpl; [reflexivity|].
    destruct (row_lookup (map (fun t => (snd (fst t), snd t)) (filter (fun t => fst (fst t) =? i) cs)) c); reflexivity.
  Qed.

  Lemma row_of_keys_NoDup cs i : NoDup (map fst cs) -> NoDup (map fst (row_of i cs)).
  Proof.
    unfold row_of. induction cs as [|[[r c] v] cs IH]; simpl; intros Hnd; [constructor|].
    apply NoDup_cons_iff in Hnd. destruct Hnd as [Hni Hnd]. specialize (IH Hnd).
    destruct (Z.eqb_spec r i) as [->|Hne]; simpl; [|exact IH].
    constructor; [|exact IH]. intros Hin. apply Hni.
    rewrite map_map in Hin. simpl in Hin. apply in_map_iff in Hin. destruct Hin as [[[r' c''] v'] [E Hin]].
    simpl in E. subst c''. apply filter_In in Hin. destruct Hin as [Hin Er]. simpl in Er. apply Z.eqb_eq in Er. subst r'.
    apply in_map_iff. exists (i, c, v'). split; [reflexivity|exact Hin].
  Qed.

  (* _dot_coo_ndarray computes s1 @ x2.T: out[i, j] = sum_c s1[i, c] * array2[j, c] *)
  Theorem dot_coo_ndarray_den_proof (rows cols : list Z) (data : list V) (n_in out_cols : Z) (fuel : nat) :
    length rows = length data -> length cols = length data ->
    NoDup (combine rows cols) -> Forall (fun c => 0 <= c < n_in) cols ->
    (length data <= fuel)%nat ->
    exists o, dot_coo_ndarray V vzero vadd vmul fuel rows cols data a2 out_cols = KOk o
      /\ forall i j, 0 <= j < out_cols ->
           o i j = np_matmul2 V vzero vadd vmul n_in (coo_cells_den V vzero rows cols data) (fun c j => a2 j c) i j.
  Proof.
    intros Hr Hc Hnd Hrange Hf.
    destruct (dot_coo_ndarray_acc V vzero vadd vmul rows cols data a2 out_cols fuel Hf) as [o [E Ho]].
    exists o. split; [exact E|]. intros i j Hj. rewrite (Ho i j Hj).
    pose proof (acc_from_cells rows cols data i j Hr Hc [] [] [] vzero eq_refl eq_refl) as Ha. simpl in Ha.
    rewrite Ha, acc_list_vsum, (sr_add_0_l _ _ _ SR).
    set (cs := combine (combine rows cols) data).
    assert (Hfst : map fst cs = combine rows cols) by (unfold cs; apply map_fst_combine; rewrite combine_length; lia).
    rewrite (sparse_row_sum V vzero vadd vmul SR (a2 j) n_in (row_of i cs)).
    - unfold np_matmul2, sum_over. f_equal. apply map_ext. intros c. f_equal.
      unfold row_get, coo_cells_den. fold cs. rewrite cell_lookup_row_of. reflexivity.
    - apply row_of_keys_NoDup. rewrite Hfst. exact Hnd.
    - apply Forall_forall. intros [c v] Hin. simpl. unfold row_of in Hin. apply in_map_iff in Hin.
      destruct Hin as [[[r' c'] v'] [E' Hin]]. simpl in E'. inversion E'; subst c' v'.
      apply filter_In in Hin. destruct Hin as [Hin _].
      assert (In (r', c) (combine rows cols)) by (rewrite <- Hfst; apply in_map_iff; exists (r', c, v); auto).
      apply in_combine_r in H. rewrite Forall_forall in Hrange. apply Hrange. exact H.
  Qed.
End CooNdDen2.

(* ====================================================================== _dot dispatch *)
Theorem dot_dispatch_total_proof (a_argmin : bool) (ka kb : okind) (rt : rtype) :
  exists ker o, dot_dispatch a_argmin ka kb rt = Some (ker, o)
    /\ (is_sparse_kind ka || is_sparse_kind kb = true -> rkind_matches rt o = true).
Proof.
  destruct ka as [|[|]|], kb as [|[|]|], rt, a_argmin; simpl; eexists; eexists; split; try reflexivity; auto;
    try discriminate.
Qed.

(* the kernel choice of two GCXS operands does not depend on anything but a's compressed axes *)
Lemma dot_dispatch_gcxs (a_argmin ca cb : bool) (rt : rtype) :
  fst (match dot_dispatch a_argmin (KGcxs ca) (KGcxs cb) rt with Some p => p | None => (KerNpDot, ONd) end)
  = if ca then KerCsrCsrT else KerCsrCsr.
Proof. destruct ca, cb, rt, a_argmin; reflexivity. Qed.

(* the hand-written dispatch is what the source does: equality with the table extracted from _dot's AST *)
Theorem dot_dispatch_matches_source_proof (a_argmin : bool) (ka kb : okind) (rt : rtype) :
  source_dispatch a_argmin ka kb rt
  = Some (match dot_dispatch a_argmin ka kb rt with
          | Some (ker, o) => Some (kernel_code ker, rkind_code o)
          | None => None end).
Proof. destruct a_argmin, ka as [|[|]|], kb as [|[|]|], rt; vm_compute; reflexivity. Qed.

(* matmul's case chain (generated): which strategy for which dimensionalities *)
Theorem matmul_route_spec_proof (a_ndim b_ndim a_lead b_lead : Z) :
  matmul_route a_ndim b_ndim a_lead b_lead
  = if (a_ndim =? 0) || (b_ndim =? 0) then None       (* ValueError: 0-d operands are rejected, like np.matmul *)
    else Some (if b_ndim <=? 2 then MmDot
               else if a_ndim =? 1 then MmDotVec
               else if a_ndim =? 2 then MmDotMoveAxis
               else if (a_ndim <=? b_ndim) && (a_lead =? 1) then MmSqueezeA
               else if (b_ndim <=? a_ndim) && (b_lead =? 1) then MmSqueezeB
               else MmBatch).
Proof.
  unfold matmul_route, s_matmul_case. cbn.
  destruct (Z.eqb_spec a_ndim 0); cbn; [reflexivity|]. destruct (Z.eqb_spec b_ndim 0); cbn; [reflexivity|].
  destruct (Z.leb_spec b_ndim 2); cbn; [reflexivity|].
  destruct (Z.eqb_spec a_ndim 1); cbn; [reflexivity|].
  destruct (Z.eqb_spec a_ndim 2); cbn; [reflexivity|].
  destruct (Z.leb_spec a_ndim b_ndim); cbn.
  - destruct (Z.eqb_spec a_lead 1); cbn; [reflexivity|].
    destruct (Z.leb_spec b_ndim a_ndim); cbn; [|reflexivity].
    destruct (Z.eqb_spec b_lead 1); cbn; reflexivity.
  - destruct (Z.leb_spec b_ndim a_ndim); cbn; [|reflexivity].
    destruct (Z.eqb_spec b_lead 1); cbn; reflexivity.
Qed.

Theorem dot_value_buffers_proof : dot_value_buffers_typed = true.
Proof. reflexivity. Qed.

(* ====================================================================== dot: routing (generated g_dot) *)
Ltac split_one :=
  match goal with
  | |- context [Z.eqb ?a ?b] => destruct (Z.eqb_spec a b)
  | |- context [Z.ltb ?a ?b] => destruct (Z.ltb_spec a b)
  end.

Lemma dot_route_1d (la lb : Z) :
  dot_route 1 1 la lb = if la =? lb then Ok Path1d else Raise ValueError.
Proof.
  unfold dot_route, g_dot. cbn. destruct (Z.eqb_spec la lb); cbn; reflexivity.
Qed.

Lemma dot_route_0d (a_ndim b_ndim la lb : Z) :
  (a_ndim =? 0) || (b_ndim =? 0) = true -> dot_route a_ndim b_ndim la lb = Ok Path0d.
Proof.
  unfold dot_route, g_dot. cbn.
  destruct (Z.eqb_spec a_ndim 0); cbn; [reflexivity|]. destruct (Z.eqb_spec b_ndim 0); cbn; intros H; [reflexivity|discriminate].
Qed.

Lemma dot_route_nd (a_ndim b_ndim la lb : Z) :
  (a_ndim =? 0) || (b_ndim =? 0) = false -> negb ((a_ndim =? 1) && (b_ndim =? 1)) = true ->
  dot_route a_ndim b_ndim la lb = Ok (PathTensordot (-1) (if b_ndim =? 1 then -1 else -2)).
Proof.
  unfold dot_route, g_dot. cbn.
  destruct (Z.eqb_spec a_ndim 0); cbn; [discriminate|]. destruct (Z.eqb_spec b_ndim 0); cbn; [discriminate|]. intros _.
  destruct (Z.eqb_spec a_ndim 1); cbn; destruct (Z.eqb_spec b_ndim 1); cbn; intros H; try discriminate; reflexivity.
Qed.

(* tensordot's zero-size block returns the requested kind (and the model of it is what the source does) *)
Theorem td_shortcut_kind_proof (ka kb : okind) (rt : rtype) :
  source_shortcut_kind ka kb rt = Some (rkind_code (td_shortcut_kind ka kb rt))
  /\ rkind_matches rt (td_shortcut_kind ka kb rt) = true.
Proof. destruct ka as [|[|]|], kb as [|[|]|], rt; split; vm_compute; reflexivity. Qed.

Section Dot1d.
  Variable V : Type.
  Variable vzero : V.
  Variable vadd vmul : V -> V -> V.

  (* dot of two 1-d operands is NumPy's: the product-sum for equal lengths, ValueError otherwise *)
  Theorem dot_1d_correct_proof (a b : list V) :
    dot_1d V vzero vadd vmul a b
    = match np_dot_1d V vzero vadd vmul a b with Some v => Ok v | None => Raise ValueError end.
  Proof.
    unfold dot_1d, np_dot_1d. rewrite dot_route_1d.
    destruct (Nat.eqb_spec (length a) (length b)) as [E|E].
    - rewrite E, Z.eqb_refl. reflexivity.
    - destruct (Z.eqb_spec (Z.of_nat (length a)) (Z.of_nat (length b))); [lia|reflexivity].
  Qed.
End Dot1d.

(* ====================================================================== shapes: products of shapes *)
Lemma size_app s1 s2 : size (s1 ++ s2) = size s1 * size s2.
Proof. induction s1 as [|d s1 IH]; simpl; [lia|]. rewrite IH. lia. Qed.

Lemma shape_ok_app s1 s2 : shape_ok (s1 ++ s2) <-> shape_ok s1 /\ shape_ok s2.
Proof. unfold shape_ok. apply Forall_app. Qed.

Lemma in_range_app s1 s2 i1 i2 : in_range s1 i1 -> in_range s2 i2 -> in_range (s1 ++ s2) (i1 ++ i2).
Proof.
  revert i1; induction s1 as [|d s1 IH]; intros [|x i1]; simpl; try tauto.
  intros [Hx H1] H2. split; auto.
Qed.

Lemma in_range_split s1 s2 ix : in_range (s1 ++ s2) ix ->
  in_range s1 (firstn (length s1) ix) /\ in_range s2 (skipn (length s1) ix).
Proof.
  revert ix; induction s1 as [|d s1 IH]; intros ix; simpl.
  - intros H. split; [exact I|exact H].
  - destruct ix as [|x ix]; [tauto|]. intros [Hx H]. destruct (IH _ H). simpl. tauto.
Qed.

Lemma ravel_app s1 s2 i1 i2 : in_range s1 i1 ->
  ravel (s1 ++ s2) (i1 ++ i2) = ravel s1 i1 * size s2 + ravel s2 i2.
Proof.
  revert i1; induction s1 as [|d s1 IH]; intros [|x i1]; simpl; try tauto; try (intros _; lia).
  intros [_ H]. rewrite (IH _ H), size_app. lia.
Qed.

Lemma unravel_app s1 s2 n m : shape_ok s1 -> shape_ok s2 -> 0 <= n < size s1 -> 0 <= m < size s2 ->
  unravel (s1 ++ s2) (n * size s2 + m) = unravel s1 n ++ unravel s2 m.
Proof.
  revert n; induction s1 as [|d s1 IH]; intros n H1 H2 Hn Hm; simpl in *.
  - assert (n = 0) by lia. subst. simpl. reflexivity.
  - inversion H1 as [|? ? Hd H1']; subst.
    pose proof (size_nonneg _ H1') as Hs1. pose proof (size_nonneg _ H2) as Hs2.
    assert (0 < size s1) by nia. assert (0 < size s2) by lia.
    rewrite size_app.
    assert (Hq : (n * size s2 + m) / (size s1 * size s2) = n / size s1).
    { replace (size s1 * size s2) with (size s2 * size s1) by lia.
      rewrite <- Z.div_div by lia. f_equal. rewrite Z.div_add_l by lia. rewrite (Z.div_small m) by lia. lia. }
    assert (Hr : (n * size s2 + m) mod (size s1 * size s2) = (n mod size s1) * size s2 + m).
    { pose proof (Z.div_mod n (size s1) ltac:(lia)) as Hdm.
      pose proof (Z.mod_pos_bound n (size s1) ltac:(lia)) as Hb.
      symmetry. apply (Z.mod_unique_pos _ _ (n / size s1)); [nia|]. nia. }
    rewrite Hq, Hr. f_equal. apply IH; auto. apply Z.mod_pos_bound. lia.
Qed.

Lemma size_perm s1 s2 : Permutation s1 s2 -> size s1 = size s2.
Proof. induction 1; simpl; try lia. Qed.

Lemma all_indices_nil sh : shape_ok sh -> size sh = 0 -> all_indices sh = [].
Proof.
  induction sh as [|d sh IH]; simpl; intros Hok Hs; [lia|].
  inversion Hok as [|? ? Hd Hok']; subst.
  destruct (Z.eq_dec d 0) as [->|Hne]; [reflexivity|].
  assert (size sh = 0) by nia. rewrite (IH Hok' H).
  induction (zrange d); simpl; auto.
Qed.

Lemma zrange_succ n : 0 <= n -> zrange (n + 1) = zrange n ++ [n].
Proof.
  intros H. unfold zrange. replace (Z.to_nat (n + 1)) with (S (Z.to_nat n)) by lia.
  rewrite seq_S, map_app. simpl. f_equal. f_equal. lia.
Qed.

Lemma seq_add_map b : forall a, seq a b = map (fun x => (a + x)%nat) (seq 0 b).
Proof.
  induction b as [|b IH]; intros a; simpl; [reflexivity|]. f_equal; [lia|].
  rewrite (IH (S a)), (IH 1%nat), map_map. apply map_ext. intros x. lia.
Qed.

Lemma zrange_shift c k : 0 <= c -> 0 <= k -> zrange (c + k) = zrange c ++ map (fun j => c + j) (zrange k).
Proof.
  intros Hc Hk. unfold zrange. replace (Z.to_nat (c + k)) with (Z.to_nat c + Z.to_nat k)%nat by lia.
  rewrite seq_app, map_app. f_equal. simpl. rewrite (seq_add_map (Z.to_nat k) (Z.to_nat c)), !map_map.
  apply map_ext. intros x. lia.
Qed.

Lemma zrange_mul d S : 0 <= d -> 0 <= S ->
  zrange (d * S) = flat_map (fun i => map (fun m => i * S + m) (zrange S)) (zrange d).
Proof.
  intros Hd HS. rewrite <- (Z2Nat.id d Hd). induction (Z.to_nat d) as [|n IH].
  - simpl. reflexivity.
  - rewrite Nat2Z.inj_succ. unfold Z.succ. rewrite zrange_succ by lia. rewrite flat_map_app. simpl.
    rewrite app_nil_r, <- IH. replace ((Z.of_nat n + 1) * S) with (Z.of_nat n * S + S) by lia.
    apply zrange_shift; nia.
Qed.

Lemma all_indices_unravel sh : shape_ok sh -> map (unravel sh) (zrange (size sh)) = all_indices sh.
Proof.
  induction sh as [|d sh IH]; intros Hok; simpl.
  - reflexivity.
  - inversion Hok as [|? ? Hd Hok']; subst. pose proof (size_nonneg _ Hok') as HS.
    rewrite zrange_mul by assumption. rewrite <- (IH Hok').
    rewrite flat_map_concat_map, concat_map, map_map, <- flat_map_concat_map.
    apply flat_map_ext. intros i. rewrite !map_map. apply map_ext_in. intros m Hm.
    apply zrange_In in Hm.
    assert (Hq : (i * size sh + m) / size sh = i) by (rewrite Z.div_add_l by lia; rewrite (Z.div_small m) by lia; lia).
    assert (Hr : (i * size sh + m) mod size sh = m) by (rewrite Z.add_comm, Z.mod_add by lia; apply Z.mod_small; lia).
    rewrite Hq, Hr. reflexivity.
Qed.

(* ====================================================================== tensordot = NumPy's tensordot *)
Lemma NoDup_app_intro {A} (l1 l2 : list A) :
  NoDup l1 -> NoDup l2 -> (forall x, In x l1 -> ~ In x l2) -> NoDup (l1 ++ l2).
Proof.
  induction l1 as [|a l1 IH]; simpl; intros H1 H2 Hd; [exact H2|].
  apply NoDup_cons_iff in H1. destruct H1 as [Ha H1]. constructor.
  - intros Hin. apply in_app_or in Hin. destruct Hin as [?|Hin]; [contradiction|]. apply (Hd a); auto.
  - apply IH; auto.
Qed.

Lemma free_axes_perm nd axes : NoDup axes -> Forall (fun x => 0 <= x < Z.of_nat nd) axes ->
  Permutation (free_axes nd axes ++ axes) (zrange (Z.of_nat nd)).
Proof.
  intros Hnd Hr. unfold free_axes. apply NoDup_Permutation.
  - apply NoDup_app_intro; [apply NoDup_filter, zrange_NoDup|exact Hnd|].
    intros x Hx Hin. apply filter_In in Hx. destruct Hx as [_ Hx].
    apply negb_true_iff in Hx. assert (existsb (Z.eqb x) axes = true); [|congruence].
    apply existsb_exists. exists x. split; [exact Hin|apply Z.eqb_refl].
  - apply zrange_NoDup.
  - intros x. rewrite in_app_iff, filter_In, zrange_In. split.
    + intros [[H _]|H]; [exact H|]. rewrite Forall_forall in Hr. apply Hr. exact H.
    + intros H. destruct (existsb (Z.eqb x) axes) eqn:E.
      * right. apply existsb_exists in E. destruct E as [y [Hy E]]. apply Z.eqb_eq in E. subst. exact Hy.
      * left. split; [exact H|reflexivity].
Qed.

Lemma map_nthZ_zrange (sh : shape) : map (nthZ sh) (zrange (Z.of_nat (length sh))) = sh.
Proof.
  unfold zrange, nthZ. rewrite Nat2Z.id, map_map.
  rewrite (map_ext _ (fun i => nth i sh 0)) by (intros i; rewrite Nat2Z.id; reflexivity).
  induction sh as [|d sh IH]; simpl; [reflexivity|]. f_equal. rewrite <- seq_shift, map_map. exact IH.
Qed.

Lemma nthZ_nonneg sh ax : shape_ok sh -> 0 <= nthZ sh ax.
Proof.
  intros H. unfold nthZ. destruct (nth_in_or_default (Z.to_nat ax) sh 0) as [Hin | E]; [|rewrite E; lia].
  unfold shape_ok in H. rewrite Forall_forall in H. apply H. exact Hin.
Qed.

Lemma shape_ok_map_nthZ sh axes : shape_ok sh -> shape_ok (map (nthZ sh) axes).
Proof. intros H. apply Forall_forall. intros d Hd. apply in_map_iff in Hd. destruct Hd as [ax [<- _]]. apply nthZ_nonneg. exact H. Qed.

Lemma td_prod_size sh axes : td_prod sh axes = size (map (nthZ sh) axes).
Proof.
  unfold td_prod. assert (G : forall acc, fold_left (fun acc ax => acc * nthZ sh ax) axes acc = acc * size (map (nthZ sh) axes)).
  { induction axes as [|ax axes IH]; intros acc; simpl; [lia|]. rewrite IH. lia. }
  rewrite G. lia.
Qed.

Lemma unravel2 M P i k : 0 < P -> 0 <= k < P -> unravel [M; P] (i * P + k) = [i; k].
Proof.
  intros HP Hk. simpl. rewrite Z.mul_1_r, Z.div_1_r.
  assert (Hq : (i * P + k) / P = i) by (rewrite Z.div_add_l by lia; rewrite (Z.div_small k) by lia; lia).
  assert (Hr : (i * P + k) mod P = k) by (rewrite Z.add_comm, Z.mod_add by lia; apply Z.mod_small; lia).
  rewrite Hq, Hr. reflexivity.
Qed.

Section TensordotDen.
  Variable V : Type.
  Variable vzero : V.
  Variable vadd vmul : V -> V -> V.

  (* one pair of contracted axes: both in range (negative allowed) and of equal extent *)
  Definition axis_pair_ok (as_ bs : shape) (x y : Z) : Prop :=
    - Z.of_nat (length as_) <= x < Z.of_nat (length as_) /\ - Z.of_nat (length bs) <= y < Z.of_nat (length bs) /\
    nthZ as_ (norm_axis (Z.of_nat (length as_)) x) = nthZ bs (norm_axis (Z.of_nat (length bs)) y).

  Lemma td_match_ok as_ bs axes_a axes_b : Forall2 (axis_pair_ok as_ bs) axes_a axes_b ->
    td_match as_ bs axes_a axes_b
    = Ok (Some (map (norm_axis (Z.of_nat (length as_))) axes_a, map (norm_axis (Z.of_nat (length bs))) axes_b)).
  Proof.
    induction 1 as [|x y ra rb [Hx [Hy He]] Hr IH]; simpl; [reflexivity|].
    unfold py_index.
    destruct (Z.ltb_spec x (- Z.of_nat (length as_))); [lia|]. destruct (Z.leb_spec (Z.of_nat (length as_)) x); [lia|].
    destruct (Z.ltb_spec y (- Z.of_nat (length bs))); [lia|]. destruct (Z.leb_spec (Z.of_nat (length bs)) y); [lia|].
    simpl. rewrite He, Z.eqb_refl. simpl. rewrite IH. simpl. reflexivity.
  Qed.

  Lemma norm_axis_range nd x : - nd <= x < nd -> 0 <= norm_axis nd x < nd.
  Proof. unfold norm_axis. destruct (Z.ltb_spec x 0); lia. Qed.

  Theorem tensordot_den_proof (a b : arr V) (axes_a axes_b : list Z) :
    let as_ := a_shape a in
    let bs := a_shape b in
    let axa := map (norm_axis (Z.of_nat (length as_))) axes_a in
    let axb := map (norm_axis (Z.of_nat (length bs))) axes_b in
    shape_ok as_ -> shape_ok bs -> (0 < length as_)%nat -> (0 < length bs)%nat ->
    Forall2 (axis_pair_ok as_ bs) axes_a axes_b -> NoDup axa -> NoDup axb ->
    exists r, tensordot_m V vzero vadd vmul a b axes_a axes_b = Ok r
      /\ a_shape r = a_shape (np_tensordot V vzero vadd vmul a b axa axb)
      /\ forall ix, in_range (a_shape r) ix -> a_at r ix = a_at (np_tensordot V vzero vadd vmul a b axa axb) ix.
  Proof.
    intros as_ bs axa axb Hoka Hokb Hnda Hndb Hpairs HNa HNb.
    assert (Hlen : length axes_a = length axes_b) by (clear -Hpairs; induction Hpairs; simpl; congruence).
    assert (Hra : Forall (fun x => 0 <= x < Z.of_nat (length as_)) axa).
    { apply Forall_forall. intros x Hx. apply in_map_iff in Hx. destruct Hx as [x0 [<- Hx0]].
      apply norm_axis_range. clear -Hpairs Hx0. induction Hpairs as [|? ? ? ? [H _] _ IH]; simpl in Hx0; [tauto|].
      destruct Hx0 as [->|?]; auto. }
    assert (Hrb : Forall (fun y => 0 <= y < Z.of_nat (length bs)) axb).
    { apply Forall_forall. intros y Hy. apply in_map_iff in Hy. destruct Hy as [y0 [<- Hy0]].
      apply norm_axis_range. clear -Hpairs Hy0. induction Hpairs as [|? ? ? ? [_ [H _]] _ IH]; simpl in Hy0; [tauto|].
      destruct Hy0 as [->|?]; auto. }
    assert (Hsc : map (nthZ as_) axa = map (nthZ bs) axb).
    { unfold axa, axb. clear -Hpairs. induction Hpairs as [|? ? ? ? [_ [_ H]] _ IH]; simpl; [reflexivity|]. rewrite H, IH. reflexivity. }
    set (fa := free_axes (length as_) axa). set (fb := free_axes (length bs) axb).
    set (olda := map (nthZ as_) fa). set (oldb := map (nthZ bs) fb). set (sc := map (nthZ as_) axa).
    assert (Hsa : size as_ = size olda * size sc).
    { rewrite <- (map_nthZ_zrange as_) at 1.
      rewrite <- (size_perm _ _ (Permutation_map (nthZ as_) (free_axes_perm (length as_) axa HNa Hra))).
      rewrite map_app, size_app. fold fa. fold olda. fold sc. reflexivity. }
    assert (Hsb : size bs = size sc * size oldb).
    { rewrite <- (map_nthZ_zrange bs) at 1.
      rewrite <- (size_perm _ _ (Permutation_map (nthZ bs) (free_axes_perm (length bs) axb HNb Hrb))).
      rewrite map_app, size_app, <- Hsc. fold fb. fold oldb. fold sc. lia. }
    assert (Hok_olda : shape_ok olda) by (apply shape_ok_map_nthZ; exact Hoka).
    assert (Hok_oldb : shape_ok oldb) by (apply shape_ok_map_nthZ; exact Hokb).
    assert (Hok_sc : shape_ok sc) by (apply shape_ok_map_nthZ; exact Hoka).
    pose proof (size_nonneg _ Hok_sc) as Hsc0.
    unfold tensordot_m. fold as_ bs.
    destruct (Z.eqb_spec (Z.of_nat (length as_)) 0); [lia|]. destruct (Z.eqb_spec (Z.of_nat (length bs)) 0); [lia|].
    simpl orb. cbv iota. rewrite Hlen, Nat.eqb_refl. simpl negb. cbv iota.
    rewrite (td_match_ok as_ bs axes_a axes_b Hpairs). fold axa axb. simpl bind.
    rewrite !td_prod_size. rewrite <- Hsc. fold fa fb olda oldb sc.
    unfold td_shortcut, s_td_shortcut, s_td_newshape_a, s_td_newshape_b. simpl existsb.
    destruct (Z.eqb_spec (size sc) 0) as [Hz|Hnz].
    - (* contracted extent 0: the shortcut; NumPy sums over the empty index space *)
      simpl. eexists. split; [reflexivity|]. split; [reflexivity|].
      intros ix _. cbn [np_tensordot a_at]. unfold sum_idx. fold as_. fold sc. rewrite (all_indices_nil sc Hok_sc Hz). reflexivity.
    - simpl. eexists. split; [reflexivity|]. split; [reflexivity|].
      intros ix Hix. simpl in Hix.
      assert (HM : size as_ / size sc = size olda) by (rewrite Hsa; apply Z.div_mul; lia).
      assert (HP : size bs / size sc = size oldb) by (rewrite Hsb, Z.mul_comm; apply Z.div_mul; lia).
      destruct (in_range_split olda oldb ix Hix) as [Hia Hib].
      set (ia := firstn (length olda) ix) in *. set (ib := skipn (length olda) ix) in *.
      assert (Hixs : ix = ia ++ ib) by (symmetry; apply firstn_skipn).
      pose proof (ravel_bounds _ _ Hia) as Hbi. pose proof (ravel_bounds _ _ Hib) as Hbk.
      (* left-hand side *)
      cbn [np_reshape a_at a_shape arr_of_mat]. rewrite HM, HP.
      rewrite Hixs at 1. rewrite (ravel_app olda oldb ia ib Hia).
      rewrite (unravel2 (size olda) (size oldb) (ravel olda ia) (ravel oldb ib)) by lia.
      unfold np_matmul2, sum_over.
      (* right-hand side *)
      cbn [np_tensordot a_at]. fold as_ bs fa fb sc. unfold sum_idx.
      replace (firstn (length fa) ix) with ia by (unfold ia, olda; rewrite map_length; reflexivity).
      replace (skipn (length fa) ix) with ib by (unfold ib, olda; rewrite map_length; reflexivity).
      rewrite <- (all_indices_unravel sc Hok_sc), map_map. f_equal.
      apply map_ext_in. intros j Hj. apply zrange_In in Hj. f_equal.
      + unfold mat_of. cbn [np_reshape a_at a_shape np_transpose].
        fold as_. rewrite map_app. fold olda sc.
        replace (ravel [size olda; size sc] [ravel olda ia; j]) with (ravel olda ia * size sc + j) by (simpl; lia).
        rewrite (unravel_app olda sc) by (auto; lia).
        rewrite (unravel_ravel _ _ Hia). reflexivity.
      + unfold mat_of. cbn [np_reshape a_at a_shape np_transpose].
        fold bs. rewrite map_app. rewrite <- Hsc. fold oldb sc.
        replace (ravel [size sc; size oldb] [j; ravel oldb ib]) with (j * size oldb + ravel oldb ib) by (simpl; lia).
        rewrite (unravel_app sc oldb) by (auto; lia).
        rewrite (unravel_ravel _ _ Hib). reflexivity.
  Qed.
End TensordotDen.

(* ====================================================================== _dot_coo_coo *)
Section CooCoo.
  Variable V : Type.
  Variable vzero : V.
  Variable vadd vmul : V -> V -> V.
  Hypothesis SR : comm_semiring vzero vadd vmul.

  Definition tag_row (i : Z) (r : list (Z * V)) : list (Z * Z * V) := map (fun kv => (i, fst kv, snd kv)) r.
  Definition coo_out (a b : csr V) (is : list Z) : list (Z * Z * V) :=
    concat (map (fun i => tag_row i (abs_row V vzero vadd vmul a b i)) is).

  Lemma coo_row_step_spec n_col a b sm out i :
    0 <= n_col -> keys_ok V vmul n_col a b -> all_zero V vzero n_col sm ->
    exists sm2,
      coo_row_step V vzero vadd vmul n_col a b (sm, out) i
      = (sm2, out ++ tag_row i (abs_row V vzero vadd vmul a b i))
      /\ all_zero V vzero n_col sm2.
  Proof.
    intros Hn Hk [Hs Hz]. unfold coo_row_step.
    set (ps := prod_stream V vmul a b i).
    destruct (acc_fold V vzero vadd n_col ps (Hk i) _ sm (-2) 0 [] (LL_init n_col Hn) Hs)
      as [nx1 [sm1 [h1 [len1 [E [HLL [Hs1 Hv]]]]]]].
    rewrite E. destruct HLL as [Hnx Hlen Hc Hnd Hr Hm].
    fold (touched (map fst ps)) in *. set (l := touched (map fst ps)) in *.
    destruct (emit_spec V vzero n_col l nx1 sm1 h1 Hc Hnd Hr Hnx Hs1) as [nx2 [sm2 [h2 [E2 [Hs2 Hv2]]]]].
    rewrite Hlen, Nat2Z.id, E2.
    assert (Hrow : map (fun k => (k, znth sm1 k vzero)) l = abs_row V vzero vadd vmul a b i).
    { unfold abs_row. fold ps. fold l. apply map_ext_in. intros k Hin.
      rewrite Forall_forall in Hr. specialize (Hr _ Hin). rewrite (Hv k Hr), (Hz k Hr). reflexivity. }
    exists sm2. split.
    - rewrite Hrow. reflexivity.
    - split; [exact Hs2|]. intros k Hk0. rewrite (Hv2 k Hk0).
      destruct (mem_z k l) eqn:Em; [reflexivity|].
      rewrite (Hv k Hk0), (Hz k Hk0). apply ksum_notin. intros Hin.
      apply (proj2 (touched_In _ _)) in Hin. fold l in Hin. apply mem_z_In in Hin. congruence.
  Qed.

  Lemma coo_loops_fold n_col a b : 0 <= n_col -> keys_ok V vmul n_col a b ->
    forall (is : list Z) sm out, all_zero V vzero n_col sm ->
    exists sm',
      fold_left (coo_row_step V vzero vadd vmul n_col a b) is (sm, out) = (sm', out ++ coo_out a b is)
      /\ all_zero V vzero n_col sm'.
  Proof.
    intros Hn Hk. induction is as [|i is IH]; intros sm out Hz.
    - exists sm. unfold coo_out. simpl. rewrite app_nil_r. auto.
    - destruct (coo_row_step_spec n_col a b sm out i Hn Hk Hz) as [sm2 [E Hz2]].
      cbn [fold_left]. rewrite E.
      destruct (IH sm2 (out ++ tag_row i (abs_row V vzero vadd vmul a b i)) Hz2) as [sm' [E' Hz']].
      exists sm'. rewrite E'. unfold coo_out. simpl. rewrite <- app_assoc. auto.
  Qed.

  Lemma coo_out_length a b is :
    length (coo_out a b is) = length (concat (map (fun i => touched (map fst (prod_stream V vmul a b i))) is)).
  Proof.
    unfold coo_out. apply length_concat_map_ext. intros i. unfold tag_row, abs_row. rewrite !map_length. reflexivity.
  Qed.

  Lemma dot_coo_coo_ok n_row n_in n_col (a b : csr V) :
    csr_wfb n_row n_in a = true -> csr_wfb n_in n_col b = true ->
    dot_coo_coo V vzero vadd vmul n_row n_col a b
    = let out := coo_out a b (zrange n_row) in
      KOk (map (fun t => fst (fst t)) out, map (fun t => snd (fst t)) out, map snd out).
  Proof.
    intros Ha Hb. unfold dot_coo_coo.
    destruct (csr_wfb_facts V _ _ _ Ha) as [Ha1 _].
    destruct (csr_wfb_facts V _ _ _ Hb) as [Hb1 [_ [Hn [_ [Hb5 _]]]]].
    pose proof (keys_ok_wf V vmul n_col a b Hb5) as Hk.
    destruct (coo_loops_fold n_col a b Hn Hk (zrange n_row) _ [] (all_zero_init V vzero n_col Hn)) as [sm' [E _]].
    rewrite E. simpl app.
    rewrite count_spec; auto.
    - rewrite coo_out_length.
      rewrite (map_ext (fun i => touched (map fst (prod_stream V vmul a b i)))
                       (fun i => touched (row_keys (m_indices a) (m_indices b) (m_indptr a) (m_indptr b) i)))
        by (intros i; rewrite prod_stream_keys by assumption; reflexivity).
      rewrite Z.ltb_irrefl. reflexivity.
    - intros i. rewrite <- (prod_stream_keys V vmul a b i Ha1 Hb1).
      specialize (Hk i). rewrite Forall_forall in *. intros k Hin. apply in_map_iff in Hin.
      destruct Hin as [kp [<- Hin]]. apply Hk. exact Hin.
  Qed.

  Lemma combine3 (out : list (Z * Z * V)) :
    combine (combine (map (fun t => fst (fst t)) out) (map (fun t => snd (fst t)) out)) (map snd out) = out.
  Proof. induction out as [|[[r c] v] out IH]; simpl; congruence. Qed.

  Lemma cell_lookup_app (l1 l2 : list (Z * Z * V)) i k :
    cell_lookup V (l1 ++ l2) i k = match cell_lookup V l2 i k with Some w => Some w | None => cell_lookup V l1 i k end.
  Proof.
    induction l1 as [|[[r c] v] l1 IH]; simpl; [destruct (cell_lookup V l2 i k); reflexivity|].
    rewrite IH. destruct (cell_lookup V l2 i k); reflexivity.
  Qed.

  Lemma cell_lookup_tag_row i' r i k :
    cell_lookup V (tag_row i' r) i k = if i' =? i then row_lookup r k else None.
  Proof.
    induction r as [|[c v] r IH]; simpl; [destruct (i' =? i); reflexivity|].
    rewrite IH. destruct (Z.eqb_spec i' i); simpl.
    - destruct (row_lookup r k); reflexivity.
    - reflexivity.
  Qed.

  Lemma cell_lookup_coo_out a b (is : list Z) i k : NoDup is ->
    cell_lookup V (coo_out a b is) i k
    = if mem_z i is then row_lookup (abs_row V vzero vadd vmul a b i) k else None.
  Proof.
    unfold coo_out. induction is as [|i' is IH]; simpl; intros Hnd; [reflexivity|].
    apply NoDup_cons_iff in Hnd. destruct Hnd as [Hni Hnd].
    rewrite cell_lookup_app, (IH Hnd), cell_lookup_tag_row. unfold mem_z in *. simpl.
    destruct (Z.eqb_spec i i') as [->|Hne]; simpl.
    - destruct (existsb (Z.eqb i') is) eqn:Em.
      + exfalso. apply Hni. apply existsb_exists in Em. destruct Em as [y [Hy Ey]]. apply Z.eqb_eq in Ey. subst. exact Hy.
      + rewrite Z.eqb_refl. reflexivity.
    - destruct (existsb (Z.eqb i) is).
      + destruct (row_lookup (abs_row V vzero vadd vmul a b i) k); [reflexivity|].
        destruct (Z.eqb_spec i' i); [congruence|reflexivity].
      + destruct (Z.eqb_spec i' i); [congruence|reflexivity].
  Qed.

  Lemma abs_row_get a b i k :
    match row_lookup (abs_row V vzero vadd vmul a b i) k with Some v => v | None => vzero end
    = ssum V vzero vadd k (prod_stream V vmul a b i).
  Proof.
    unfold abs_row. rewrite row_lookup_map_key by apply touched_NoDup.
    destruct (mem_z k (touched (map fst (prod_stream V vmul a b i)))) eqn:E.
    - rewrite (ksum_ssum V vzero vadd vmul SR). apply (sr_add_0_l _ _ _ SR).
    - symmetry. apply ssum_notin. intros Hin. apply (proj2 (touched_In _ _)) in Hin. apply mem_z_In in Hin. congruence.
  Qed.

  (* the promise has_duplicates=False that _dot makes to the COO constructor *)
  Lemma coo_out_coords_NoDup a b (is : list Z) : NoDup is ->
    NoDup (map fst (coo_out a b is)).
  Proof.
    unfold coo_out. induction is as [|i is IH]; simpl; intros Hnd; [constructor|].
    apply NoDup_cons_iff in Hnd. destruct Hnd as [Hni Hnd]. rewrite map_app.
    apply NoDup_app_intro; [|apply IH; exact Hnd|].
    - unfold tag_row. rewrite map_map. simpl.
      rewrite <- (map_map fst (fun k => (i, k))).
      apply FinFun.Injective_map_NoDup; [intros x y H; inversion H; reflexivity|].
      rewrite abs_row_keys. apply touched_NoDup.
    - intros [r c] Hin Hin2. unfold tag_row in Hin. rewrite map_map in Hin. simpl in Hin.
      apply in_map_iff in Hin. destruct Hin as [kv [E _]]. inversion E; subst r.
      apply in_map_iff in Hin2. destruct Hin2 as [[[r' c'] v'] [E2 Hin2]]. simpl in E2. inversion E2; subst r' c'.
      apply in_concat in Hin2. destruct Hin2 as [row [Hrow Hc]]. apply in_map_iff in Hrow.
      destruct Hrow as [i' [<- Hi']]. unfold tag_row in Hc. apply in_map_iff in Hc. destruct Hc as [kv' [E3 _]].
      inversion E3; subst. contradiction.
  Qed.

  Theorem spcoo_den_proof n_row n_in n_col (a b : csr V) :
    csr_wfb n_row n_in a = true -> csr_wfb n_in n_col b = true ->
    exists rows cols data,
      dot_coo_coo V vzero vadd vmul n_row n_col a b = KOk (rows, cols, data)
      /\ length rows = length data /\ length cols = length data
      /\ NoDup (combine rows cols)
      /\ forall i k, 0 <= i < n_row ->
           coo_cells_den V vzero rows cols data i k
           = np_matmul2 V vzero vadd vmul n_in (csr_den V vzero a) (csr_den V vzero b) i k.
  Proof.
    intros Ha Hb. rewrite (dot_coo_coo_ok _ _ _ _ _ Ha Hb). cbv zeta.
    set (out := coo_out a b (zrange n_row)).
    eexists. eexists. eexists. split; [reflexivity|]. rewrite !map_length. split; [reflexivity|]. split; [reflexivity|].
    split.
    - replace (combine (map (fun t => fst (fst t)) out) (map (fun t => snd (fst t)) out)) with (map fst out).
      + apply coo_out_coords_NoDup, zrange_NoDup.
      + clear. induction out as [|[[r c] v] out IH]; simpl; congruence.
    - intros i k Hi. unfold coo_cells_den. rewrite combine3. unfold out.
      rewrite cell_lookup_coo_out by apply zrange_NoDup.
      assert (Hm : mem_z i (zrange n_row) = true) by (apply mem_z_In, zrange_In; exact Hi).
      rewrite Hm, abs_row_get. apply (spgemm_den_row V vzero vadd vmul SR _ _ _ _ _ _ _ Ha Hb Hi).
  Qed.
End CooCoo.

(* ====================================================================== csc @ csc by transposition *)
(* _dot's GCXS x GCXS branch for compressed_axes == (1,):  a @ b = (b.T @ a.T).T — the CSC triple of a
   matrix is the CSR triple of its transpose, and the kernel is called as
   _dot_csr_csr(out_shape[::-1], b..., a...).  ac, bc: the triples of a (m x n) and b (n x p). *)
Theorem spgemm_csc_den_proof (V : Type) (vzero : V) (vadd vmul : V -> V -> V) :
  comm_semiring vzero vadd vmul ->
  forall (m n p : Z) (ac bc : csr V),
    csr_wfb n m ac = true -> csr_wfb p n bc = true ->
    exists r, dot_csr_csr V vzero vadd vmul p m bc ac = KOk r /\ csr_wfb p m r = true /\
      forall i k, 0 <= k < p ->
        csr_den V vzero r k i
        = np_matmul2 V vzero vadd vmul n (fun i j => csr_den V vzero ac j i) (fun j k => csr_den V vzero bc k j) i k.
Proof.
  intros SR m n p ac bc Ha Hb.
  destruct (spgemm_den_proof V vzero vadd vmul SR p n m bc ac Hb Ha) as [r [E Hden]].
  destruct (spgemm_rows_sorted_proof V vzero vadd vmul p n m bc ac Hb Ha) as [r' [E' Hwf]].
  rewrite E in E'. inversion E'; subst r'.
  exists r. split; [exact E|split; [exact Hwf|]]. intros i k Hk. rewrite (Hden k i Hk).
  unfold np_matmul2, sum_over. f_equal. apply map_ext. intros j. apply (sr_mul_comm _ _ _ SR).
Qed.

(* ====================================================================== _dot_csc_ndarray_sparse *)
(* a CSR triple assembled from a list of rows *)
Lemma offs_length_ext {A B} (R : list (list A)) (R' : list (list B)) s :
  map (@length A) R = map (@length B) R' -> offs s R = offs s R'.
Proof.
  revert R' s; induction R as [|r R IH]; intros [|r' R'] s H; simpl in *; try discriminate; [reflexivity|].
  inversion H as [[H1 H2]]. rewrite H1, (IH R' _ H2). reflexivity.
Qed.

Section RowsCsr.
  Variable V : Type.
  Definition csr_of_rows (R : list (list (Z * V))) : csr V :=
    mkCSR (map snd (concat R)) (map fst (concat R)) (offs 0 R).

  Lemma csr_of_rows_row R i : (i < length R)%nat -> row_pairs (csr_of_rows R) (Z.of_nat i) = nth i R [].
  Proof.
    intros Hi. unfold row_pairs, csr_of_rows. simpl.
    assert (Hsl : forall {B} (f : Z * V -> B),
               slice_list (map f (concat R)) (znth (offs 0 R) (Z.of_nat i) 0) (znth (offs 0 R) (Z.of_nat i + 1) 0)
               = map f (nth i R [])).
    { intros B f. unfold znth. replace (Z.to_nat (Z.of_nat i + 1)) with (S i) by lia. rewrite Nat2Z.id.
      rewrite <- rows_of_nth by (rewrite offs_length; lia).
      rewrite concat_map, <- (offs_map f 0 R), rows_of_concat.
      rewrite <- (map_nth (map f)). reflexivity. }
    rewrite (Hsl _ fst), (Hsl _ snd). apply combine_fst_snd.
  Qed.

  Lemma csr_of_rows_wf n_row n_col R :
    Z.of_nat (length R) = n_row -> 0 <= n_col ->
    (forall r, In r R -> strictly_increasing (map fst r) = true /\ Forall (fun c => 0 <= c < n_col) (map fst r)) ->
    csr_wfb n_row n_col (csr_of_rows R) = true.
  Proof.
    intros HR Hn Hrows. unfold csr_wfb, csr_of_rows. simpl. rewrite !andb_true_iff. repeat split.
    - rewrite !map_length. apply Nat.eqb_refl.
    - apply Z.leb_le. lia.
    - apply Z.leb_le. exact Hn.
    - apply Z.eqb_eq. rewrite offs_length. lia.
    - destruct (offs_head 0 R) as [t Ht]. rewrite Ht. reflexivity.
    - apply Z.eqb_eq. unfold znth. replace (Z.to_nat n_row) with (length R) by lia.
      rewrite (nth_indep _ (-1) 0) by (rewrite offs_length; lia).
      rewrite offs_last, map_length. lia.
    - apply offs_nondecreasing.
    - apply forallb_forall. intros c Hc. apply in_map_iff in Hc. destruct Hc as [[c' v] [<- Hc]]. simpl.
      apply in_concat in Hc. destruct Hc as [row [Hrow Hc]]. destruct (Hrows _ Hrow) as [_ Hr].
      rewrite Forall_forall in Hr. assert (In c' (map fst row)) by (apply in_map_iff; exists (c', v); auto).
      specialize (Hr _ H). apply andb_true_iff. split; [apply Z.leb_le|apply Z.ltb_lt]; lia.
    - rewrite concat_map, <- (offs_map fst 0 R), rows_of_concat.
      apply forallb_forall. intros row Hrow. apply in_map_iff in Hrow. destruct Hrow as [r [<- Hr]].
      apply Hrows. exact Hr.
  Qed.
End RowsCsr.

Section CscNd.
  Variable V : Type.
  Variable vzero : V.
  Variable vadd vmul : V -> V -> V.
  Variable veqb : V -> V -> bool.
  Hypothesis SR : comm_semiring vzero vadd vmul.
  Hypothesis veqb_zero : forall x, veqb x vzero = true -> x = vzero.

  Definition all_m1 (n : Z) (nx : list Z) : Prop :=
    Z.of_nat (length nx) = n /\ forall k, 0 <= k < n -> znth nx k 0 = -1.

  Lemma LL_of_all_m1 n nx : all_m1 n nx -> LL n nx (-2) 0 [].
  Proof.
    intros [Hn Hm]. constructor; [exact Hn|reflexivity|reflexivity|constructor|constructor|].
    intros k0 Hk0. rewrite (Hm k0 Hk0). simpl. split; [tauto|congruence].
  Qed.

  Lemma emit_all_spec n l : forall nx sm head,
    chain nx head l -> NoDup l -> Forall (fun x => 0 <= x < n) l ->
    Z.of_nat (length nx) = n -> Z.of_nat (length sm) = n ->
    exists nx' sm' h',
      emit_all V vzero (length l) nx sm head = (nx', sm', h', map (fun k => (k, znth sm k vzero)) l)
      /\ Z.of_nat (length sm') = n /\ Z.of_nat (length nx') = n
      /\ (forall k, 0 <= k < n -> znth sm' k vzero = if mem_z k l then vzero else znth sm k vzero)
      /\ (forall k, 0 <= k < n -> znth nx' k 0 = if mem_z k l then -1 else znth nx k 0).
  Proof.
    induction l as [|k l IH]; intros nx sm head Hc Hnd Hr Hn Hs.
    - exists nx, sm, head. simpl. auto.
    - simpl in Hc. destruct Hc as [-> Hc].
      apply NoDup_cons_iff in Hnd. destruct Hnd as [Hnotin Hnd'].
      pose proof (Forall_inv Hr) as Hk. pose proof (Forall_inv_tail Hr) as Hr'. simpl in Hk.
      assert (Hr0 : Forall (fun x => 0 <= x) l) by (eapply Forall_impl; [|exact Hr']; simpl; intros; lia).
      destruct (IH (wr nx k (-1)) (wr sm k vzero) (znth nx k 0)) as [nx' [sm' [h' [E [Hs' [Hn' [Hv Hw]]]]]]]; auto.
      { apply chain_wr_notin; auto; lia. }
      { rewrite wr_length; exact Hn. }
      { rewrite wr_length; exact Hs. }
      exists nx', sm', h'. split; [|split; [exact Hs'|split; [exact Hn'|split]]].
      + simpl emit_all. rewrite E. simpl. f_equal. f_equal. apply map_ext_in. intros x Hx.
        rewrite znth_wr_neq; [reflexivity|lia| |intros ->; contradiction].
        rewrite Forall_forall in Hr0. apply Hr0. exact Hx.
      + intros k0 Hk0. rewrite (Hv k0 Hk0). unfold mem_z. simpl.
        destruct (Z.eqb_spec k0 k) as [->|Hne0]; simpl.
        * rewrite znth_wr_eq by lia. destruct (existsb (Z.eqb k) l); reflexivity.
        * rewrite znth_wr_neq by lia. reflexivity.
      + intros k0 Hk0. rewrite (Hw k0 Hk0). unfold mem_z. simpl.
        destruct (Z.eqb_spec k0 k) as [->|Hne0]; simpl.
        * rewrite znth_wr_eq by lia. destruct (existsb (Z.eqb k) l); reflexivity.
        * rewrite znth_wr_neq by lia. reflexivity.
  Qed.

  Variable a : csr V.
  Variable b : Z -> Z -> V.
  Variable n_in : Z.

  Definition cstream (i : Z) : list (Z * V) := csc_stream V vzero vmul veqb a b n_in i.
  Definition csc_abs_col (i : Z) : list (Z * V) :=
    map (fun k => (k, ksum V vadd k vzero (cstream i))) (touched (map fst (cstream i))).
  Definition csc_out_col (i : Z) : list (Z * V) := sort_cells V (csc_abs_col i).
  Definition cstream_ok (m : Z) : Prop := forall i, Forall (fun kp => 0 <= fst kp < m) (cstream i).

  Lemma csc_col_step_spec m mask sm out i :
    cstream_ok m -> all_m1 m mask -> all_zero V vzero m sm ->
    exists mask2 sm2,
      csc_col_step V vzero vadd vmul veqb a b n_in (mask, sm, out) i = (mask2, sm2, out ++ csc_out_col i)
      /\ all_m1 m mask2 /\ all_zero V vzero m sm2.
  Proof.
    intros Hk Hm1 [Hs Hz]. unfold csc_col_step. fold (cstream i). set (ps := cstream i).
    destruct (acc_fold V vzero vadd m ps (Hk i) mask sm (-2) 0 [] (LL_of_all_m1 m mask Hm1) Hs)
      as [nx1 [sm1 [h1 [len1 [E [HLL [Hs1 Hv]]]]]]].
    rewrite E. destruct HLL as [Hnx Hlen Hc Hnd Hr Hm].
    fold (touched (map fst ps)) in *. set (l := touched (map fst ps)) in *.
    destruct (emit_all_spec m l nx1 sm1 h1 Hc Hnd Hr Hnx Hs1) as [nx2 [sm2 [h2 [E2 [Hs2 [Hn2 [Hv2 Hw2]]]]]]].
    rewrite Hlen, Nat2Z.id, E2.
    assert (Hrow : map (fun k => (k, znth sm1 k vzero)) l = csc_abs_col i).
    { unfold csc_abs_col. fold ps. fold l. apply map_ext_in. intros k Hin.
      rewrite Forall_forall in Hr. specialize (Hr _ Hin). rewrite (Hv k Hr), (Hz k Hr). reflexivity. }
    exists nx2, sm2. split; [rewrite Hrow; reflexivity|]. split.
    - split; [exact Hn2|]. intros k Hk0. rewrite (Hw2 k Hk0).
      destruct (mem_z k l) eqn:Em; [reflexivity|].
      destruct (Z.eq_dec (znth nx1 k 0) (-1)) as [?|Hne]; [assumption|].
      exfalso. apply (Hm k Hk0) in Hne. apply mem_z_In in Hne. congruence.
    - split; [exact Hs2|]. intros k Hk0. rewrite (Hv2 k Hk0).
      destruct (mem_z k l) eqn:Em; [reflexivity|].
      rewrite (Hv k Hk0), (Hz k Hk0). apply ksum_notin. intros Hin.
      apply (proj2 (touched_In _ _)) in Hin. fold l in Hin. apply mem_z_In in Hin. congruence.
  Qed.

  Lemma csc_loops_fold m : cstream_ok m ->
    forall (is : list Z) mask sm out, all_m1 m mask -> all_zero V vzero m sm ->
    exists mask' sm',
      fold_left (csc_col_step V vzero vadd vmul veqb a b n_in) is (mask, sm, out)
      = (mask', sm', out ++ concat (map csc_out_col is)).
  Proof.
    intros Hk. induction is as [|i is IH]; intros mask sm out Hm Hz.
    - exists mask, sm. simpl. rewrite app_nil_r. reflexivity.
    - destruct (csc_col_step_spec m mask sm out i Hk Hm Hz) as [m2 [s2 [E [Hm2 Hz2]]]].
      cbn [fold_left]. rewrite E.
      destruct (IH m2 s2 (out ++ csc_out_col i) Hm2 Hz2) as [m' [s' E']].
      exists m', s'. rewrite E'. simpl. rewrite <- app_assoc. reflexivity.
  Qed.

  (* the pre-count *)
  Definition ckeys (i : Z) : list Z := csc_keys V vzero veqb (m_indices a) (m_indptr a) b n_in i.

  Lemma cstream_keys i : length (m_indices a) = length (m_data a) -> map fst (cstream i) = ckeys i.
  Proof.
    intros Ha. unfold cstream, csc_stream, ckeys, csc_keys.
    induction (zrange n_in) as [|j L IH]; simpl; [reflexivity|].
    rewrite map_app, IH. f_equal. destruct (veqb (b j i) vzero); [reflexivity|].
    rewrite map_map. simpl. apply (row_pairs_keys V a j Ha).
  Qed.

  Lemma csc_count_fold m : (forall i, Forall (fun k => 0 <= k < m) (ckeys i)) ->
    forall (is : list Z) mask (rows : list (list Z)) bound,
    Z.of_nat (length mask) = m ->
    (forall x, 0 <= x < m -> znth mask x 0 < bound) ->
    StronglySorted Z.lt is -> Forall (fun i => bound <= i) is ->
    exists mask',
      fold_left (fun (st : list Z * Z * list Z) i =>
                   let '(mask, nnz, ptr) := st in
                   let '(mask', col_nnz) := fold_left (cnt_step i) (ckeys i) (mask, 0) in
                   (mask', nnz + col_nnz, ptr ++ [nnz + col_nnz]))
                is (mask, Z.of_nat (length (concat rows)), tl (offs 0 rows))
      = (mask', Z.of_nat (length (concat (rows ++ map (fun i => touched (ckeys i)) is))),
         tl (offs 0 (rows ++ map (fun i => touched (ckeys i)) is))).
  Proof.
    intros Hk. induction is as [|i is IH]; intros mask rows bound Hn Hlt Hs Hb.
    - exists mask. simpl. rewrite app_nil_r. reflexivity.
    - apply StronglySorted_inv in Hs. destruct Hs as [Hs' Hall].
      pose proof (Forall_inv Hb) as Hbi. pose proof (Forall_inv_tail Hb) as Hb'. simpl in Hbi.
      destruct (cnt_fold m i (ckeys i) (Hk i) mask [] Hn) as [m' [E [Hn' [_ Hd]]]].
      { intros x Hx. simpl. split; [tauto|]. intros H. specialize (Hlt x Hx). lia. }
      simpl length in E. change (Z.of_nat 0) with 0 in E.
      cbn [fold_left]. rewrite E. fold (touched (ckeys i)).
      destruct (IH m' (rows ++ [touched (ckeys i)]) (i + 1) Hn') as [m'' E''].
      { intros x Hx. destruct (Hd x Hx) as [H|H]; rewrite H; [specialize (Hlt x Hx)|]; lia. }
      { exact Hs'. }
      { eapply Forall_impl; [|exact Hall]. simpl. intros; lia. }
      exists m''.
      replace (Z.of_nat (length (concat rows)) + Z.of_nat (length (touched (ckeys i))))
        with (Z.of_nat (length (concat (rows ++ [touched (ckeys i)]))))
        by (rewrite concat_app; simpl; rewrite app_nil_r, app_length; lia).
      replace (tl (offs 0 rows) ++ [Z.of_nat (length (concat (rows ++ [touched (ckeys i)])))])
        with (tl (offs 0 (rows ++ [touched (ckeys i)]))).
      2:{ rewrite offs_app. destruct (offs_head 0 rows) as [t Ht]. rewrite Ht. simpl.
          f_equal. f_equal. rewrite concat_app. simpl. rewrite app_nil_r, app_length. lia. }
      rewrite E''. simpl map. rewrite <- !app_assoc. reflexivity.
  Qed.

  Definition key_rows (p : Z) : list (list Z) := map (fun i => touched (ckeys i)) (zrange p).
  Definition out_cols_abs (p : Z) : list (list (Z * V)) := map csc_out_col (zrange p).

  Lemma csc_count_spec m p : 0 <= m -> (forall i, Forall (fun k => 0 <= k < m) (ckeys i)) ->
    csc_ndarray_count_nnz V vzero veqb m n_in p (m_indices a) (m_indptr a) b
    = (Z.of_nat (length (concat (key_rows p))), tl (offs 0 (key_rows p))).
  Proof.
    intros Hm Hk. unfold csc_ndarray_count_nnz.
    destruct (csc_count_fold m Hk (zrange p) (repeat (-1) (Z.to_nat m)) [] 0) as [m' E].
    - rewrite repeat_length. lia.
    - intros x Hx. rewrite znth_repeat by lia. lia.
    - apply zrange_SS.
    - apply Forall_forall. intros x Hx. apply zrange_In in Hx. lia.
    - unfold ckeys in E. cbn [concat length offs tl Z.of_nat app] in E. rewrite E. reflexivity.
  Qed.

  Lemma csc_rows_lengths p : length (m_indices a) = length (m_data a) ->
    map (@length Z) (key_rows p) = map (@length (Z * V)) (out_cols_abs p).
  Proof.
    intros Ha. unfold key_rows, out_cols_abs. rewrite !map_map. apply map_ext. intros i.
    unfold csc_out_col. rewrite (Permutation_length (sort_cells_perm V _)).
    unfold csc_abs_col. rewrite map_length, cstream_keys by assumption. reflexivity.
  Qed.

  Lemma length_concat_lengths {A B} (R : list (list A)) (R' : list (list B)) :
    map (@length A) R = map (@length B) R' -> length (concat R) = length (concat R').
  Proof.
    revert R'; induction R as [|r R IH]; intros [|r' R'] H; simpl in *; try discriminate; [reflexivity|].
    inversion H. rewrite !app_length. rewrite (IH R'); auto.
  Qed.

  Lemma dot_csc_ok m p : csr_wfb n_in m a = true ->
    dot_csc_ndarray_sparse V vzero vadd vmul veqb m n_in p a b = KOk (csr_of_rows V (out_cols_abs p)).
  Proof.
    intros Ha. destruct (csr_wfb_facts V _ _ _ Ha) as [Ha1 [_ [Hm [_ [Ha5 _]]]]].
    assert (Hk : cstream_ok m).
    { intros i. apply Forall_forall. intros [k v] Hin. unfold cstream, csc_stream in Hin.
      apply in_flat_map in Hin. destruct Hin as [j [_ Hin]]. destruct (veqb (b j i) vzero); [contradiction|].
      apply in_map_iff in Hin. destruct Hin as [kv [E Hin]]. inversion E; subst. simpl.
      rewrite Forall_forall in Ha5. apply Ha5. eapply row_pairs_in_indices. exact Hin. }
    assert (Hkk : forall i, Forall (fun k => 0 <= k < m) (ckeys i)).
    { intros i. rewrite <- (cstream_keys i Ha1). specialize (Hk i). rewrite Forall_forall in *.
      intros k Hin. apply in_map_iff in Hin. destruct Hin as [kp [<- Hin]]. apply Hk. exact Hin. }
    unfold dot_csc_ndarray_sparse. rewrite (csc_count_spec m p Hm Hkk).
    destruct (csc_loops_fold m Hk (zrange p) (repeat (-1) (Z.to_nat m)) (repeat vzero (Z.to_nat m)) [])
      as [m' [s' E]].
    { split; [rewrite repeat_length; lia|]. intros k Hk0. apply znth_repeat. lia. }
    { apply all_zero_init. exact Hm. }
    rewrite E. simpl app. fold (out_cols_abs p).
    rewrite (length_concat_lengths _ _ (csc_rows_lengths p Ha1)), Z.ltb_irrefl.
    unfold csr_of_rows. f_equal. f_equal.
    rewrite (offs_length_ext _ _ 0 (csc_rows_lengths p Ha1)).
    destruct (offs_head 0 (out_cols_abs p)) as [t Ht]. rewrite Ht. reflexivity.
  Qed.

  Lemma csc_out_col_keys i : map fst (csc_abs_col i) = touched (map fst (cstream i)).
  Proof. unfold csc_abs_col. rewrite map_map. simpl. apply map_id. Qed.

  Lemma csc_out_col_get i k : row_get V vzero (csc_out_col i) k = ssum V vzero vadd k (cstream i).
  Proof.
    unfold csc_out_col. rewrite (row_get_perm V vzero _ (csc_abs_col i) k (sort_cells_perm V _)).
    2:{ eapply Permutation_NoDup; [apply Permutation_map, Permutation_sym, sort_cells_perm|].
        rewrite csc_out_col_keys. apply touched_NoDup. }
    unfold row_get, csc_abs_col. rewrite row_lookup_map_key by apply touched_NoDup.
    destruct (mem_z k (touched (map fst (cstream i)))) eqn:E.
    - rewrite (ksum_ssum V vzero vadd vmul SR). apply (sr_add_0_l _ _ _ SR).
    - symmetry. apply ssum_notin. intros Hin. apply (proj2 (touched_In _ _)) in Hin. apply mem_z_In in Hin. congruence.
  Qed.

  Theorem csc_ndarray_proof m p : csr_wfb n_in m a = true -> 0 <= p ->
    exists r, dot_csc_ndarray_sparse V vzero vadd vmul veqb m n_in p a b = KOk r
      /\ Z.of_nat (length (m_data r)) = fst (csc_ndarray_count_nnz V vzero veqb m n_in p (m_indices a) (m_indptr a) b)
      /\ csr_wfb p m r = true
      /\ forall i k, 0 <= i < p ->
           csr_den V vzero r i k
           = np_matmul2 V vzero vadd vmul n_in (fun k j => csr_den V vzero a j k) b k i.
  Proof.
    intros Ha Hp. pose proof (dot_csc_ok m p Ha) as E.
    destruct (csr_wfb_facts V _ _ _ Ha) as [Ha1 [_ [Hm [_ [Ha5 Ha6]]]]].
    assert (Hk : cstream_ok m).
    { intros i. apply Forall_forall. intros [k v] Hin. unfold cstream, csc_stream in Hin.
      apply in_flat_map in Hin. destruct Hin as [j [_ Hin]]. destruct (veqb (b j i) vzero); [contradiction|].
      apply in_map_iff in Hin. destruct Hin as [kv [E0 Hin]]. inversion E0; subst. simpl.
      rewrite Forall_forall in Ha5. apply Ha5. eapply row_pairs_in_indices. exact Hin. }
    exists (csr_of_rows V (out_cols_abs p)). split; [exact E|]. split; [|split].
    - assert (Hkk : forall i, Forall (fun k => 0 <= k < m) (ckeys i)).
      { intros i. rewrite <- (cstream_keys i Ha1). specialize (Hk i). rewrite Forall_forall in *.
        intros k Hin. apply in_map_iff in Hin. destruct Hin as [kp [<- Hin]]. apply Hk. exact Hin. }
      rewrite (csc_count_spec m p Hm Hkk). simpl. rewrite map_length.
      rewrite (length_concat_lengths _ _ (csc_rows_lengths p Ha1)). reflexivity.
    - apply csr_of_rows_wf; [unfold out_cols_abs; rewrite map_length; apply zrange_length; exact Hp|exact Hm|].
      intros r Hr. unfold out_cols_abs in Hr. apply in_map_iff in Hr. destruct Hr as [i [<- _]].
      assert (Hnd : NoDup (map fst (csc_out_col i))).
      { eapply Permutation_NoDup; [apply Permutation_map, Permutation_sym, sort_cells_perm|].
        rewrite csc_out_col_keys. apply touched_NoDup. }
      split.
      + apply SS_lt_strictly_increasing. apply sorted_nodup_strict; [apply sort_cells_sorted|exact Hnd].
      + apply Forall_forall. intros c Hc.
        eapply Permutation_in in Hc; [|apply Permutation_map, sort_cells_perm].
        rewrite csc_out_col_keys in Hc. apply (proj1 (touched_In _ _)) in Hc. apply in_map_iff in Hc.
        destruct Hc as [kp [<- Hin]]. specialize (Hk i). rewrite Forall_forall in Hk. apply (Hk _ Hin).
    - intros i k Hi. unfold csr_den at 1.
      replace i with (Z.of_nat (Z.to_nat i)) at 1 by lia.
      rewrite csr_of_rows_row by (unfold out_cols_abs; rewrite map_length; unfold zrange; rewrite map_length, seq_length; lia).
      unfold out_cols_abs. rewrite (nth_indep _ [] (csc_out_col 0))
        by (rewrite map_length; unfold zrange; rewrite map_length, seq_length; lia).
      rewrite map_nth, nth_zrange by assumption. rewrite csc_out_col_get.
      unfold cstream, csc_stream. rewrite (ssum_flat_map V vzero vadd vmul SR).
      unfold np_matmul2, sum_over. f_equal. apply map_ext_in. intros j Hj. apply zrange_In in Hj.
      destruct (veqb (b j i) vzero) eqn:Ez.
      + apply veqb_zero in Ez. rewrite Ez, (sr_mul_0_r _ _ _ SR). reflexivity.
      + rewrite (ssum_scaled V vzero vadd vmul SR).
        * apply (sr_mul_comm _ _ _ SR).
        * rewrite row_pairs_keys by assumption. apply SS_lt_NoDup, strictly_increasing_SS, Ha6. exact Hj.
  Qed.
End CscNd.


(* the three parts of csc_ndarray_proof as separate statements (Props/C04.v) *)
Lemma csc_ndarray_count_exact_proof :
  forall (V : Type) (vzero : V) (vadd vmul : V -> V -> V) (veqb : V -> V -> bool), comm_semiring vzero vadd vmul ->
  (forall x, veqb x vzero = true -> x = vzero) ->
  forall (a : csr V) (b : Z -> Z -> V) (n_in m p : Z), csr_wfb n_in m a = true -> 0 <= p ->
    exists r, dot_csc_ndarray_sparse V vzero vadd vmul veqb m n_in p a b = KOk r
      /\ Z.of_nat (length (m_data r)) = fst (csc_ndarray_count_nnz V vzero veqb m n_in p (m_indices a) (m_indptr a) b).
Proof.
  intros V vzero vadd vmul veqb SR Hz a b n_in m p Ha Hp.
  destruct (csc_ndarray_proof V vzero vadd vmul veqb SR Hz a b n_in m p Ha Hp) as [r [E [Hc _]]]. exists r. auto.
Qed.

Lemma csc_ndarray_rows_sorted_proof :
  forall (V : Type) (vzero : V) (vadd vmul : V -> V -> V) (veqb : V -> V -> bool), comm_semiring vzero vadd vmul ->
  (forall x, veqb x vzero = true -> x = vzero) ->
  forall (a : csr V) (b : Z -> Z -> V) (n_in m p : Z), csr_wfb n_in m a = true -> 0 <= p ->
    exists r, dot_csc_ndarray_sparse V vzero vadd vmul veqb m n_in p a b = KOk r /\ csr_wfb p m r = true.
Proof.
  intros V vzero vadd vmul veqb SR Hz a b n_in m p Ha Hp.
  destruct (csc_ndarray_proof V vzero vadd vmul veqb SR Hz a b n_in m p Ha Hp) as [r [E [_ [Hw _]]]]. exists r. auto.
Qed.

Lemma csc_ndarray_den_proof :
  forall (V : Type) (vzero : V) (vadd vmul : V -> V -> V) (veqb : V -> V -> bool), comm_semiring vzero vadd vmul ->
  (forall x, veqb x vzero = true -> x = vzero) ->
  forall (a : csr V) (b : Z -> Z -> V) (n_in m p : Z), csr_wfb n_in m a = true -> 0 <= p ->
    exists r, dot_csc_ndarray_sparse V vzero vadd vmul veqb m n_in p a b = KOk r
      /\ forall i k, 0 <= i < p ->
           csr_den V vzero r i k = np_matmul2 V vzero vadd vmul n_in (fun k j => csr_den V vzero a j k) b k i.
Proof.
  intros V vzero vadd vmul veqb SR Hz a b n_in m p Ha Hp.
  destruct (csc_ndarray_proof V vzero vadd vmul veqb SR Hz a b n_in m p Ha Hp) as [r [E [_ [_ Hd]]]]. exists r. auto.
Qed.

(* ====================================================================== the dense-result kernels *)
Lemma fold_left_ext_eq {S B} (f g : S -> B -> S) (l : list B) (s : S) :
  (forall s x, f s x = g s x) -> fold_left f l s = fold_left g l s.
Proof. intros H. revert s; induction l as [|x l IH]; intros s; simpl; [reflexivity|]. rewrite H. apply IH. Qed.

Section DenseKernels.
  Variable V : Type.
  Variable vzero : V.
  Variable vadd vmul : V -> V -> V.
  Hypothesis SR : comm_semiring vzero vadd vmul.

  (* a kernel as the stream of its updates  out[r, c] += v *)
  Definition apply_updates (us : list (Z * Z * V)) (out : Z -> Z -> V) : Z -> Z -> V :=
    fold_left (fun o (u : Z * Z * V) => upd_add V vadd o (fst (fst u)) (snd (fst u)) (snd u)) us out.

  Definition proj_row (i : Z) (us : list (Z * Z * V)) : list (Z * V) :=
    map (fun u => (snd (fst u), snd u)) (filter (fun u => fst (fst u) =? i) us).

  Lemma apply_updates_at us : forall out i j,
    apply_updates us out i j = ksum V vadd j (out i j) (proj_row i us).
  Proof.
    unfold apply_updates, proj_row. induction us as [|[[r c] v] us IH]; intros out i j; simpl; [reflexivity|].
    rewrite IH. unfold upd_add, upd2. destruct (Z.eqb_spec r i) as [->|Hne]; simpl.
    - rewrite Z.eqb_refl. simpl. destruct (Z.eqb_spec j c) as [->|Hnc].
      + rewrite Z.eqb_refl. reflexivity.
      + destruct (Z.eqb_spec c j); [congruence|reflexivity].
    - destruct (Z.eqb_spec i r); [congruence|]. reflexivity.
  Qed.

  Lemma apply_updates_zero us i j :
    apply_updates us (fun _ _ => vzero) i j = ssum V vzero vadd j (proj_row i us).
  Proof. rewrite apply_updates_at, (ksum_ssum V vzero vadd vmul SR). apply (sr_add_0_l _ _ _ SR). Qed.

  Lemma proj_row_app i u1 u2 : proj_row i (u1 ++ u2) = proj_row i u1 ++ proj_row i u2.
  Proof. unfold proj_row. rewrite filter_app, map_app. reflexivity. Qed.

  Lemma proj_row_flat_map {A} i (f : A -> list (Z * Z * V)) l :
    proj_row i (flat_map f l) = flat_map (fun x => proj_row i (f x)) l.
  Proof. induction l as [|x l IH]; simpl; [reflexivity|]. rewrite proj_row_app, IH. reflexivity. Qed.

  (* only the iteration x = i of an outer loop over distinct indices contributes *)
  Lemma flat_map_only {B} (L : list Z) (i : Z) (g : Z -> list B) :
    NoDup L -> flat_map (fun x => if x =? i then g x else []) L = if mem_z i L then g i else [].
  Proof.
    induction L as [|x L IH]; simpl; intros Hnd; [reflexivity|].
    apply NoDup_cons_iff in Hnd. destruct Hnd as [Hx Hnd]. rewrite (IH Hnd). unfold mem_z. simpl.
    destruct (Z.eqb_spec x i) as [->|Hne]; simpl.
    - rewrite Z.eqb_refl. simpl. destruct (existsb (Z.eqb i) L) eqn:E; [|apply app_nil_r].
      exfalso. apply Hx. apply existsb_exists in E. destruct E as [y [Hy Ey]]. apply Z.eqb_eq in Ey. subst. exact Hy.
    - destruct (Z.eqb_spec i x); [congruence|]. reflexivity.
  Qed.

  Lemma ssum_zrange_key (w : Z -> V) p j : 0 <= j < p ->
    ssum V vzero vadd j (map (fun j' => (j', w j')) (zrange p)) = w j.
  Proof.
    intros Hj. unfold ssum.
    assert (G : forall L, NoDup L -> In j L ->
              vsum V vzero vadd (map snd (filter (fun kp : Z * V => fst kp =? j) (map (fun j' => (j', w j')) L))) = w j).
    { induction L as [|x L IH]; simpl; intros Hnd Hin; [tauto|].
      apply NoDup_cons_iff in Hnd. destruct Hnd as [Hx Hnd].
      destruct (Z.eqb_spec x j) as [->|Hne]; simpl.
      - assert (E : filter (fun kp : Z * V => fst kp =? j) (map (fun j' => (j', w j')) L) = []).
        { clear -Hx. induction L as [|y L IH]; simpl; [reflexivity|].
          destruct (Z.eqb_spec y j) as [->|?]; [exfalso; apply Hx; left; reflexivity|]. apply IH. intros H; apply Hx; right; exact H. }
        rewrite E. simpl. apply (add_0_r V vzero vadd vmul SR).
      - destruct Hin as [?|Hin]; [contradiction|]. apply IH; assumption. }
    apply G; [apply zrange_NoDup|apply zrange_In; exact Hj].
  Qed.

  (* ------------------------------------------------------------------ _dot_csr_ndarray *)
  Definition csr_nd_updates (n_row n_col : Z) (a : csr V) (b : Z -> Z -> V) : list (Z * Z * V) :=
    flat_map (fun i => flat_map (fun kv => map (fun j => (i, j, vmul (snd kv) (b (fst kv) j))) (zrange n_col)) (row_pairs a i))
             (zrange n_row).

  Lemma fold_map_updates {A} (f : A -> Z * Z * V) (L : list A) out :
    fold_left (fun o x => upd_add V vadd o (fst (fst (f x))) (snd (fst (f x))) (snd (f x))) L out
    = apply_updates (map f L) out.
  Proof. unfold apply_updates. revert out; induction L; intros out; simpl; auto. Qed.

  Lemma apply_updates_app u1 u2 out : apply_updates (u1 ++ u2) out = apply_updates u2 (apply_updates u1 out).
  Proof. unfold apply_updates. apply fold_left_app. Qed.

  Lemma fold_flat_updates {A} (g : A -> list (Z * Z * V)) (L : list A) out :
    fold_left (fun o x => apply_updates (g x) o) L out = apply_updates (flat_map g L) out.
  Proof. revert out; induction L as [|x L IH]; intros out; simpl; [reflexivity|]. rewrite apply_updates_app. apply IH. Qed.

  Lemma dot_csr_ndarray_updates n_row n_col a b :
    dot_csr_ndarray V vzero vadd vmul n_row n_col a b = apply_updates (csr_nd_updates n_row n_col a b) (fun _ _ => vzero).
  Proof.
    unfold dot_csr_ndarray, csr_nd_updates. rewrite <- fold_flat_updates.
    apply fold_left_ext_eq. intros out i. rewrite <- fold_flat_updates.
    apply fold_left_ext_eq. intros out' kv.
    apply (fold_map_updates (fun j => (i, j, vmul (snd kv) (b (fst kv) j)))).
  Qed.

  Lemma proj_row_same {A} i (L : list A) (cj : A -> Z) (w : A -> V) :
    proj_row i (map (fun x => (i, cj x, w x)) L) = map (fun x => (cj x, w x)) L.
  Proof. unfold proj_row. induction L as [|x L IH]; simpl; [reflexivity|]. rewrite Z.eqb_refl. simpl. rewrite IH. reflexivity. Qed.

  Lemma proj_row_other {A} i r (L : list A) (cj : A -> Z) (w : A -> V) : r <> i ->
    proj_row i (map (fun x => (r, cj x, w x)) L) = [].
  Proof.
    intros Hne. unfold proj_row. induction L as [|x L IH]; simpl; [reflexivity|].
    destruct (Z.eqb_spec r i); [congruence|exact IH].
  Qed.

  Lemma flat_map_nil {A B} (l : list A) : flat_map (fun _ : A => @nil B) l = [].
  Proof. induction l; simpl; auto. Qed.

  Lemma vsum_map_ext_in {A} (f g : A -> V) l : (forall x, In x l -> f x = g x) ->
    vsum V vzero vadd (map f l) = vsum V vzero vadd (map g l).
  Proof. intros H. f_equal. apply map_ext_in. exact H. Qed.

  (* value: out[i, j] = sum_c a[i, c] * b[c, j];  bounds: every update lies inside the n_row x n_col output *)
  Theorem dot_csr_ndarray_den_proof n_row n_in n_col (a : csr V) (b : Z -> Z -> V) :
    csr_wfb n_row n_in a = true ->
    Forall (fun u => 0 <= fst (fst u) < n_row /\ 0 <= snd (fst u) < n_col) (csr_nd_updates n_row n_col a b)
    /\ forall i j, 0 <= i < n_row -> 0 <= j < n_col ->
         dot_csr_ndarray V vzero vadd vmul n_row n_col a b i j
         = np_matmul2 V vzero vadd vmul n_in (csr_den V vzero a) b i j.
  Proof.
    intros Ha. destruct (csr_wfb_facts V _ _ _ Ha) as [Ha1 [_ [_ [_ [Ha5 Ha6]]]]]. split.
    - apply Forall_forall. intros [[r c] v] Hin. unfold csr_nd_updates in Hin.
      apply in_flat_map in Hin. destruct Hin as [i [Hi Hin]]. apply in_flat_map in Hin. destruct Hin as [kv [_ Hin]].
      apply in_map_iff in Hin. destruct Hin as [j [E Hj]]. inversion E; subst. simpl.
      apply zrange_In in Hi. apply zrange_In in Hj. lia.
    - intros i j Hi Hj. rewrite dot_csr_ndarray_updates, apply_updates_zero. unfold csr_nd_updates.
      rewrite proj_row_flat_map.
      rewrite (flat_map_ext _ (fun x => if x =? i then
                 flat_map (fun kv => map (fun j' => (j', vmul (snd kv) (b (fst kv) j'))) (zrange n_col)) (row_pairs a x) else [])).
      2:{ intros x. rewrite proj_row_flat_map. destruct (Z.eqb_spec x i) as [->|Hne].
          - apply flat_map_ext. intros kv. apply (proj_row_same i (zrange n_col) (fun j' => j')).
          - rewrite (flat_map_ext _ (fun _ => [])); [apply flat_map_nil|].
            intros kv. apply (proj_row_other i x (zrange n_col) (fun j' => j')). exact Hne. }
      rewrite (flat_map_only (zrange n_row) i _ (zrange_NoDup n_row)).
      assert (Hm : mem_z i (zrange n_row) = true) by (apply mem_z_In, zrange_In; exact Hi). rewrite Hm.
      rewrite (ssum_flat_map V vzero vadd vmul SR).
      rewrite (vsum_map_ext_in _ (fun kv => vmul (snd kv) (b (fst kv) j))).
      2:{ intros kv _. apply (ssum_zrange_key (fun j' => vmul (snd kv) (b (fst kv) j')) n_col j Hj). }
      assert (Hra : Forall (fun jav => 0 <= fst jav < n_in) (row_pairs a i)).
      { apply Forall_forall. intros jav Hin. rewrite Forall_forall in Ha5. apply Ha5. eapply row_pairs_in_indices. exact Hin. }
      assert (Hnd : NoDup (map fst (row_pairs a i))).
      { rewrite row_pairs_keys by assumption. apply SS_lt_NoDup, strictly_increasing_SS, Ha6. exact Hi. }
      rewrite (sparse_row_sum V vzero vadd vmul SR (fun c => b c j) n_in _ Hnd Hra). reflexivity.
  Qed.

  (* ------------------------------------------------------------------ _dot_csc_ndarray *)
  Definition csc_nd_updates (n_in p : Z) (a : csr V) (b : Z -> Z -> V) : list (Z * Z * V) :=
    flat_map (fun i => flat_map (fun kv => map (fun j => (fst kv, j, vmul (snd kv) (b i j))) (zrange p)) (row_pairs a i))
             (zrange n_in).

  Lemma dot_csc_ndarray_updates n_in p a b :
    dot_csc_ndarray V vzero vadd vmul n_in p a b = apply_updates (csc_nd_updates n_in p a b) (fun _ _ => vzero).
  Proof.
    unfold dot_csc_ndarray, csc_nd_updates. rewrite <- fold_flat_updates.
    apply fold_left_ext_eq. intros out i. rewrite <- fold_flat_updates.
    apply fold_left_ext_eq. intros out' kv.
    apply (fold_map_updates (fun j => (fst kv, j, vmul (snd kv) (b i j)))).
  Qed.

  Lemma vsum_pick (row : list (Z * V)) r x : NoDup (map fst row) ->
    vsum V vzero vadd (map (fun kv => if fst kv =? r then vmul (snd kv) x else vzero) row) = vmul (row_get V vzero row r) x.
  Proof.
    unfold row_get. induction row as [|[c w] row IH]; simpl; intros Hnd.
    - symmetry. apply (sr_mul_0_l _ _ _ SR).
    - apply NoDup_cons_iff in Hnd. destruct Hnd as [Hc Hnd]. rewrite (IH Hnd).
      destruct (Z.eqb_spec c r) as [->|Hne].
      + assert (E : row_lookup row r = None) by (apply row_lookup_None; exact Hc).
        rewrite E, (sr_mul_0_l _ _ _ SR). apply (add_0_r V vzero vadd vmul SR).
      + rewrite (sr_add_0_l _ _ _ SR). destruct (row_lookup row r); reflexivity.
  Qed.

  (* a: the CSC triple of the m x n_in left operand *)
  Theorem dot_csc_ndarray_den_proof m n_in p (a : csr V) (b : Z -> Z -> V) :
    csr_wfb n_in m a = true ->
    Forall (fun u => 0 <= fst (fst u) < m /\ 0 <= snd (fst u) < p) (csc_nd_updates n_in p a b)
    /\ forall r j, 0 <= j < p ->
         dot_csc_ndarray V vzero vadd vmul n_in p a b r j
         = np_matmul2 V vzero vadd vmul n_in (fun r i => csr_den V vzero a i r) b r j.
  Proof.
    intros Ha. destruct (csr_wfb_facts V _ _ _ Ha) as [Ha1 [_ [_ [_ [Ha5 Ha6]]]]]. split.
    - apply Forall_forall. intros [[r c] v] Hin. unfold csc_nd_updates in Hin.
      apply in_flat_map in Hin. destruct Hin as [i [Hi Hin]]. apply in_flat_map in Hin. destruct Hin as [kv [Hkv Hin]].
      apply in_map_iff in Hin. destruct Hin as [j [E Hj]]. inversion E; subst. simpl.
      apply zrange_In in Hj. split; [|lia]. rewrite Forall_forall in Ha5. apply Ha5. eapply row_pairs_in_indices. exact Hkv.
    - intros r j Hj. rewrite dot_csc_ndarray_updates, apply_updates_zero. unfold csc_nd_updates.
      rewrite proj_row_flat_map, (ssum_flat_map V vzero vadd vmul SR).
      unfold np_matmul2, sum_over. apply vsum_map_ext_in. intros i Hi. apply zrange_In in Hi.
      rewrite proj_row_flat_map, (ssum_flat_map V vzero vadd vmul SR).
      rewrite (vsum_map_ext_in _ (fun kv => if fst kv =? r then vmul (snd kv) (b i j) else vzero)).
      + apply vsum_pick. rewrite row_pairs_keys by assumption. apply SS_lt_NoDup, strictly_increasing_SS, Ha6. exact Hi.
      + intros kv _. destruct (Z.eqb_spec (fst kv) r) as [E|Hne].
        * rewrite E. rewrite (proj_row_same r (zrange p) (fun j' => j')).
          apply (ssum_zrange_key (fun j' => vmul (snd kv) (b i j')) p j Hj).
        * rewrite (proj_row_other r (fst kv) (zrange p) (fun j' => j')) by exact Hne. reflexivity.
  Qed.

  (* ------------------------------------------------------------------ _dot_ndarray_coo *)
  Definition nd_coo_updates (m : Z) (a1 : Z -> Z -> V) (cells : list (Z * Z * V)) : list (Z * Z * V) :=
    flat_map (fun i => map (fun t => (i, snd (fst t), vmul (a1 i (fst (fst t))) (snd t))) cells) (zrange m).

  Lemma dot_ndarray_coo_updates m a1 rows2 cols2 data2 :
    dot_ndarray_coo V vzero vadd vmul m a1 rows2 cols2 data2
    = apply_updates (nd_coo_updates m a1 (combine (combine rows2 cols2) data2)) (fun _ _ => vzero).
  Proof.
    unfold dot_ndarray_coo, nd_coo_updates. rewrite <- fold_flat_updates.
    apply fold_left_ext_eq. intros out i.
    apply (fold_map_updates (fun t : Z * Z * V => (i, snd (fst t), vmul (a1 i (fst (fst t))) (snd t)))).
  Qed.

  Definition col_of (j : Z) (cs : list (Z * Z * V)) : list (Z * V) :=
    map (fun t => (fst (fst t), snd t)) (filter (fun t => snd (fst t) =? j) cs).

  Lemma cell_lookup_col_of cs r j : cell_lookup V cs r j = row_lookup (col_of j cs) r.
  Proof.
    unfold col_of. induction cs as [|[[r' c'] v] cs IH]; simpl; [reflexivity|].
    rewrite IH. destruct (Z.eqb_spec c' j); simpl.
    - rewrite andb_true_r. reflexivity.
    - rewrite andb_false_r.
      destruct (row_lookup (map (fun t => (fst (fst t), snd t)) (filter (fun t => snd (fst t) =? j) cs)) r); reflexivity.
  Qed.

  Lemma col_of_keys_NoDup cs j : NoDup (map fst cs) -> NoDup (map fst (col_of j cs)).
  Proof.
    unfold col_of. induction cs as [|[[r c] v] cs IH]; simpl; intros Hnd; [constructor|].
    apply NoDup_cons_iff in Hnd. destruct Hnd as [Hni Hnd]. specialize (IH Hnd).
    destruct (Z.eqb_spec c j) as [->|Hne]; simpl; [|exact IH].
    constructor; [|exact IH]. intros Hin. apply Hni.
    rewrite map_map in Hin. simpl in Hin. apply in_map_iff in Hin. destruct Hin as [[[r' c''] v'] [E Hin]].
    simpl in E. subst r'. apply filter_In in Hin. destruct Hin as [Hin Ec]. simpl in Ec. apply Z.eqb_eq in Ec. subst c''.
    apply in_map_iff. exists (r, j, v'). split; [reflexivity|exact Hin].
  Qed.

  Theorem dot_ndarray_coo_den_proof m n_in p (a1 : Z -> Z -> V) (rows2 cols2 : list Z) (data2 : list V) :
    length rows2 = length data2 -> length cols2 = length data2 ->
    NoDup (combine rows2 cols2) -> Forall (fun r => 0 <= r < n_in) rows2 -> Forall (fun c => 0 <= c < p) cols2 ->
    Forall (fun u => 0 <= fst (fst u) < m /\ 0 <= snd (fst u) < p)
           (nd_coo_updates m a1 (combine (combine rows2 cols2) data2))
    /\ forall i j, 0 <= i < m ->
         dot_ndarray_coo V vzero vadd vmul m a1 rows2 cols2 data2 i j
         = np_matmul2 V vzero vadd vmul n_in a1 (coo_cells_den V vzero rows2 cols2 data2) i j.
  Proof.
    intros Hr Hc Hnd Hrr Hcr. set (cs := combine (combine rows2 cols2) data2).
    assert (Hfst : map fst cs = combine rows2 cols2) by (unfold cs; apply map_fst_combine; rewrite combine_length; lia).
    split.
    - apply Forall_forall. intros [[r c] v] Hin. unfold nd_coo_updates in Hin.
      apply in_flat_map in Hin. destruct Hin as [i [Hi Hin]]. apply in_map_iff in Hin. destruct Hin as [[[r' c'] v'] [E Ht]].
      inversion E; subst. simpl. apply zrange_In in Hi. split; [lia|].
      assert (In (r', c) (combine rows2 cols2)) by (rewrite <- Hfst; apply in_map_iff; exists (r', c, v'); auto).
      apply in_combine_r in H. rewrite Forall_forall in Hcr. apply Hcr. exact H.
    - intros i j Hi. rewrite dot_ndarray_coo_updates, apply_updates_zero. fold cs. unfold nd_coo_updates.
      rewrite proj_row_flat_map.
      rewrite (flat_map_ext _ (fun x => if x =? i then map (fun t => (snd (fst t), vmul (a1 x (fst (fst t))) (snd t))) cs else [])).
      2:{ intros x. destruct (Z.eqb_spec x i) as [->|Hne].
          - apply (proj_row_same i cs (fun t => snd (fst t))).
          - apply (proj_row_other i x cs (fun t => snd (fst t))). exact Hne. }
      rewrite (flat_map_only (zrange m) i _ (zrange_NoDup m)).
      assert (Hm : mem_z i (zrange m) = true) by (apply mem_z_In, zrange_In; exact Hi). rewrite Hm.
      assert (E : ssum V vzero vadd j (map (fun t => (snd (fst t), vmul (a1 i (fst (fst t))) (snd t))) cs)
                  = vsum V vzero vadd (map (fun rv => vmul (snd rv) (a1 i (fst rv))) (col_of j cs))).
      { unfold ssum, col_of. clear -SR. induction cs as [|[[r c] v] cs IH]; simpl; [reflexivity|].
        destruct (Z.eqb_spec c j); simpl; rewrite IH; [|reflexivity]. f_equal. apply (sr_mul_comm _ _ _ SR). }
      rewrite E. rewrite (sparse_row_sum V vzero vadd vmul SR (a1 i) n_in (col_of j cs)).
      + unfold np_matmul2, sum_over. apply vsum_map_ext_in. intros r _.
        rewrite (sr_mul_comm _ _ _ SR). f_equal. unfold row_get, coo_cells_den. fold cs.
        rewrite cell_lookup_col_of. reflexivity.
      + apply col_of_keys_NoDup. rewrite Hfst. exact Hnd.
      + apply Forall_forall. intros [r v] Hin. simpl. unfold col_of in Hin. apply in_map_iff in Hin.
        destruct Hin as [[[r' c'] v'] [E' Hin]]. simpl in E'. inversion E'; subst r' v'.
        apply filter_In in Hin. destruct Hin as [Hin _].
        assert (In (r, c') (combine rows2 cols2)) by (rewrite <- Hfst; apply in_map_iff; exists (r, c', v); auto).
        apply in_combine_l in H. rewrite Forall_forall in Hrr. apply Hrr. exact H.
  Qed.
End DenseKernels.

(* ====================================================================== _dot_csr_ndarray_sparse *)
Section CsrNdSparse.
  Variable V : Type.
  Variable vzero : V.
  Variable vadd vmul : V -> V -> V.
  Variable veqb : V -> V -> bool.
  Hypothesis SR : comm_semiring vzero vadd vmul.
  Hypothesis veqb_zero : forall x, veqb x vzero = true -> x = vzero.
  Variable a : csr V.
  Variable b : Z -> Z -> V.

  Definition nzb (j : Z) (k : Z) : bool := negb (veqb (b k j) vzero).

  Lemma cell_fold (row : list (Z * V)) j s f :
    fold_left (fun (st : V * bool) kv =>
                 (vadd (fst st) (vmul (snd kv) (b (fst kv) j)), snd st || negb (veqb (b (fst kv) j) vzero))) row (s, f)
    = (fold_left (fun s kv => vadd s (vmul (snd kv) (b (fst kv) j))) row s, f || existsb (nzb j) (map fst row)).
  Proof.
    revert s f; induction row as [|kv row IH]; intros s f; simpl; [rewrite orb_false_r; reflexivity|].
    rewrite IH. unfold nzb. rewrite orb_assoc. reflexivity.
  Qed.

  Lemma fold_vadd_vsum (row : list (Z * V)) j s :
    fold_left (fun s kv => vadd s (vmul (snd kv) (b (fst kv) j))) row s
    = vadd s (vsum V vzero vadd (map (fun kv => vmul (snd kv) (b (fst kv) j)) row)).
  Proof.
    revert s; induction row as [|kv row IH]; intros s; simpl.
    - symmetry. apply (add_0_r V vzero vadd vmul SR).
    - rewrite IH. rewrite (sr_add_assoc _ _ _ SR). reflexivity.
  Qed.

  Definition cell_val (i j : Z) : V := vsum V vzero vadd (map (fun kv => vmul (snd kv) (b (fst kv) j)) (row_pairs a i)).
  Definition cell_nz (i j : Z) : bool := existsb (nzb j) (map fst (row_pairs a i)).

  Lemma csr_nd_cell_spec i j : csr_nd_cell V vzero vadd vmul veqb a b i j = (cell_val i j, cell_nz i j).
  Proof.
    unfold csr_nd_cell. rewrite cell_fold, fold_vadd_vsum, (sr_add_0_l _ _ _ SR). reflexivity.
  Qed.

  Lemma cell_val_zero i j : cell_nz i j = false -> cell_val i j = vzero.
  Proof.
    unfold cell_nz, cell_val. induction (row_pairs a i) as [|kv row IH]; simpl; intros H; [reflexivity|].
    apply orb_false_iff in H. destruct H as [H1 H2]. unfold nzb in H1. apply negb_false_iff in H1.
    apply veqb_zero in H1. rewrite H1, (sr_mul_0_r _ _ _ SR), (sr_add_0_l _ _ _ SR). apply IH. exact H2.
  Qed.

  Definition sp_row (n_col i : Z) : list (Z * V) :=
    flat_map (fun j => if cell_nz i j then [(j, cell_val i j)] else []) (zrange n_col).

  Lemma csr_nd_row_spec n_col i : csr_nd_row V vzero vadd vmul veqb a b n_col i = sp_row n_col i.
  Proof. unfold csr_nd_row, sp_row. apply flat_map_ext. intros j. rewrite csr_nd_cell_spec. reflexivity. Qed.

  Lemma sp_row_keys n_col i : map fst (sp_row n_col i) = filter (cell_nz i) (zrange n_col).
  Proof.
    unfold sp_row. induction (zrange n_col) as [|j L IH]; simpl; [reflexivity|].
    rewrite map_app, IH. destruct (cell_nz i j); reflexivity.
  Qed.

  Lemma sp_row_lookup (L : list Z) i j : NoDup L ->
    row_lookup (flat_map (fun j => if cell_nz i j then [(j, cell_val i j)] else []) L) j
    = if mem_z j L && cell_nz i j then Some (cell_val i j) else None.
  Proof.
    induction L as [|x L IH]; simpl; intros Hnd; [reflexivity|].
    apply NoDup_cons_iff in Hnd. destruct Hnd as [Hx Hnd]. unfold mem_z in *. simpl.
    destruct (Z.eqb_spec j x) as [->|Hne]; simpl.
    - assert (Em : existsb (Z.eqb x) L = false).
      { destruct (existsb (Z.eqb x) L) eqn:Em; [|reflexivity]. exfalso. apply Hx.
        apply existsb_exists in Em. destruct Em as [y [Hy Ey]]. apply Z.eqb_eq in Ey. subst. exact Hy. }
      rewrite Em in IH. simpl in IH. destruct (cell_nz i x) eqn:En; simpl.
      + rewrite (IH Hnd), Z.eqb_refl. reflexivity.
      + apply (IH Hnd).
    - destruct (cell_nz i x); simpl.
      + rewrite (IH Hnd). destruct (existsb (Z.eqb j) L && cell_nz i j); [reflexivity|].
        destruct (Z.eqb_spec x j); [congruence|reflexivity].
      + apply (IH Hnd).
  Qed.

  (* the pre-count *)
  Lemma existsb_map {A B} (g : B -> bool) (f : A -> B) l : existsb g (map f l) = existsb (fun x => g (f x)) l.
  Proof. induction l; simpl; congruence. Qed.

  Lemma count_inner (P : Z -> bool) (L : list Z) nnz :
    fold_left (fun nnz j => if P j then nnz + 1 else nnz) L nnz = nnz + Z.of_nat (length (filter P L)).
  Proof.
    revert nnz; induction L as [|j L IH]; intros nnz; simpl; [lia|].
    rewrite IH. destruct (P j); simpl; lia.
  Qed.

  Hypothesis Ha1 : length (m_indices a) = length (m_data a).

  Lemma csr_nd_count_fold n_col : forall (is : list Z) (rows : list (list Z)),
    fold_left (fun (st : Z * list Z) i =>
      let '(nnz, ptr) := st in
      let cur_row := row_cols (m_indices a) (m_indptr a) i in
      let nnz' := fold_left (fun nnz j => if existsb (fun k => negb (veqb (b k j) vzero)) cur_row then nnz + 1 else nnz)
                            (zrange n_col) nnz in
      (nnz', ptr ++ [nnz'])) is (Z.of_nat (length (concat rows)), tl (offs 0 rows))
    = (Z.of_nat (length (concat (rows ++ map (fun i => filter (cell_nz i) (zrange n_col)) is))),
       tl (offs 0 (rows ++ map (fun i => filter (cell_nz i) (zrange n_col)) is))).
  Proof.
    induction is as [|i is IH]; intros rows.
    - simpl. rewrite app_nil_r. reflexivity.
    - cbn [fold_left]. cbv zeta.
      rewrite (count_inner (fun j => existsb (fun k => negb (veqb (b k j) vzero)) (row_cols (m_indices a) (m_indptr a) i))).
      assert (Ef : filter (fun j => existsb (fun k => negb (veqb (b k j) vzero)) (row_cols (m_indices a) (m_indptr a) i)) (zrange n_col)
                   = filter (cell_nz i) (zrange n_col)).
      { apply filter_ext. intros j. unfold cell_nz. rewrite (row_pairs_keys V a i Ha1). reflexivity. }
      rewrite Ef. set (K := filter (cell_nz i) (zrange n_col)).
      replace (Z.of_nat (length (concat rows)) + Z.of_nat (length K)) with (Z.of_nat (length (concat (rows ++ [K]))))
        by (rewrite concat_app; simpl; rewrite app_nil_r, app_length; lia).
      replace (tl (offs 0 rows) ++ [Z.of_nat (length (concat (rows ++ [K])))]) with (tl (offs 0 (rows ++ [K]))).
      2:{ rewrite offs_app. destruct (offs_head 0 rows) as [t Ht]. rewrite Ht. simpl.
          f_equal. f_equal. rewrite concat_app. simpl. rewrite app_nil_r, app_length. lia. }
      rewrite IH. simpl map. rewrite <- !app_assoc. reflexivity.
  Qed.

  Definition sp_rows (n_row n_col : Z) : list (list (Z * V)) := map (sp_row n_col) (zrange n_row).

  Lemma sp_rows_lengths n_row n_col :
    map (@length Z) (map (fun i => filter (cell_nz i) (zrange n_col)) (zrange n_row))
    = map (@length (Z * V)) (sp_rows n_row n_col).
  Proof.
    unfold sp_rows. rewrite !map_map. apply map_ext. intros i. rewrite <- sp_row_keys, map_length. reflexivity.
  Qed.

  Lemma dot_csr_nd_sparse_ok n_row n_col :
    dot_csr_ndarray_sparse V vzero vadd vmul veqb n_row n_col a b = KOk (csr_of_rows V (sp_rows n_row n_col)).
  Proof.
    unfold dot_csr_ndarray_sparse, csr_ndarray_count_nnz.
    pose proof (csr_nd_count_fold n_col (zrange n_row) []) as E. cbn [concat length offs tl Z.of_nat app] in E.
    rewrite E. clear E.
    rewrite (flat_map_ext _ (sp_row n_col)) by (intros i; apply csr_nd_row_spec).
    rewrite flat_map_concat_map. fold (sp_rows n_row n_col).
    rewrite (length_concat_lengths _ _ (sp_rows_lengths n_row n_col)), Z.ltb_irrefl.
    unfold csr_of_rows. f_equal. f_equal.
    rewrite (offs_length_ext _ _ 0 (sp_rows_lengths n_row n_col)).
    destruct (offs_head 0 (sp_rows n_row n_col)) as [t Ht]. rewrite Ht. reflexivity.
  Qed.

  Theorem csr_ndarray_sparse_proof n_row n_in n_col : csr_wfb n_row n_in a = true -> 0 <= n_col ->
    exists r, dot_csr_ndarray_sparse V vzero vadd vmul veqb n_row n_col a b = KOk r
      /\ Z.of_nat (length (m_data r)) = fst (csr_ndarray_count_nnz V vzero veqb n_row n_col (m_indices a) (m_indptr a) b)
      /\ csr_wfb n_row n_col r = true
      /\ forall i j, 0 <= i < n_row -> 0 <= j < n_col ->
           csr_den V vzero r i j = np_matmul2 V vzero vadd vmul n_in (csr_den V vzero a) b i j.
  Proof.
    intros Ha Hn. destruct (csr_wfb_facts V _ _ _ Ha) as [_ [Hnr [_ [_ [Ha5 Ha6]]]]].
    exists (csr_of_rows V (sp_rows n_row n_col)). split; [apply dot_csr_nd_sparse_ok|]. split; [|split].
    - unfold csr_ndarray_count_nnz.
      pose proof (csr_nd_count_fold n_col (zrange n_row) []) as E. cbn [concat length offs tl Z.of_nat app] in E.
      rewrite E. simpl. rewrite map_length. f_equal. symmetry. apply length_concat_lengths, sp_rows_lengths.
    - apply csr_of_rows_wf; [unfold sp_rows; rewrite map_length; apply zrange_length; exact Hnr|exact Hn|].
      intros r Hr. unfold sp_rows in Hr. apply in_map_iff in Hr. destruct Hr as [i [<- _]].
      rewrite sp_row_keys. split.
      + apply SS_lt_strictly_increasing. apply SS_filter. apply zrange_SS.
      + apply Forall_forall. intros c Hc. apply filter_In in Hc. destruct Hc as [Hc _]. apply zrange_In in Hc. exact Hc.
    - intros i j Hi Hj. unfold csr_den at 1.
      replace i with (Z.of_nat (Z.to_nat i)) at 1 by lia.
      rewrite csr_of_rows_row by (unfold sp_rows; rewrite map_length; unfold zrange; rewrite map_length, seq_length; lia).
      unfold sp_rows. rewrite (nth_indep _ [] (sp_row n_col 0))
        by (rewrite map_length; unfold zrange; rewrite map_length, seq_length; lia).
      rewrite map_nth, nth_zrange by assumption.
      unfold row_get, sp_row. rewrite sp_row_lookup by apply zrange_NoDup.
      assert (Hm : mem_z j (zrange n_col) = true) by (apply mem_z_In, zrange_In; exact Hj). rewrite Hm. simpl.
      assert (Hv : (if cell_nz i j then cell_val i j else vzero) = cell_val i j).
      { destruct (cell_nz i j) eqn:En; [reflexivity|]. symmetry. apply cell_val_zero. exact En. }
      transitivity (cell_val i j); [destruct (cell_nz i j); [reflexivity|exact Hv]|].
      unfold cell_val.
      assert (Hra : Forall (fun jav => 0 <= fst jav < n_in) (row_pairs a i)).
      { apply Forall_forall. intros jav Hin. rewrite Forall_forall in Ha5. apply Ha5. eapply row_pairs_in_indices. exact Hin. }
      assert (Hnd : NoDup (map fst (row_pairs a i))).
      { rewrite row_pairs_keys by assumption. apply SS_lt_NoDup, strictly_increasing_SS, Ha6. exact Hi. }
      rewrite (sparse_row_sum V vzero vadd vmul SR (fun c => b c j) n_in _ Hnd Hra). reflexivity.
  Qed.
End CsrNdSparse.

Lemma csr_ndarray_sparse_full (V : Type) (vzero : V) (vadd vmul : V -> V -> V) (veqb : V -> V -> bool) :
  comm_semiring vzero vadd vmul -> (forall x, veqb x vzero = true -> x = vzero) ->
  forall (a : csr V) (b : Z -> Z -> V) (n_row n_in n_col : Z), csr_wfb n_row n_in a = true -> 0 <= n_col ->
    exists r, dot_csr_ndarray_sparse V vzero vadd vmul veqb n_row n_col a b = KOk r
      /\ Z.of_nat (length (m_data r)) = fst (csr_ndarray_count_nnz V vzero veqb n_row n_col (m_indices a) (m_indptr a) b)
      /\ csr_wfb n_row n_col r = true
      /\ forall i j, 0 <= i < n_row -> 0 <= j < n_col ->
           csr_den V vzero r i j = np_matmul2 V vzero vadd vmul n_in (csr_den V vzero a) b i j.
Proof.
  intros SR Hz a b n_row n_in n_col Ha Hn. destruct (csr_wfb_facts V _ _ _ Ha) as [Ha1 _].
  exact (csr_ndarray_sparse_proof V vzero vadd vmul veqb SR Hz a b Ha1 n_row n_in n_col Ha Hn).
Qed.

(* ====================================================================== _dot_coo_ndarray_type_sparse *)
Definition cell_lt {V} (c1 c2 : Z * Z * V) : Prop :=
  fst (fst c1) < fst (fst c2) \/ (fst (fst c1) = fst (fst c2) /\ snd (fst c1) < snd (fst c2)).

Section CooNdSparse.
  Variable V : Type.
  Variable vzero : V.
  Variable vadd vmul : V -> V -> V.
  Variable veqb : V -> V -> bool.
  Hypothesis SR : comm_semiring vzero vadd vmul.
  Hypothesis veqb_zero : forall x, veqb x vzero = true -> x = vzero.
  Variable rows cols : list Z.
  Variable data : list V.
  Variable a2 : Z -> Z -> V.

  Let n := Z.of_nat (length data).
  Notation AF := (acc_from V vzero vadd vmul rows cols data a2).
  Notation RL := (run_len V rows data).
  Definition total (i j : Z) : V := AF (length data) 0 i j vzero.

  Lemma scan_sum_spec m row j cur acc :
    scan_sum V vzero vadd vmul m rows cols data a2 row j cur acc
    = (cur + Z.of_nat (RL m row cur), AF (RL m row cur) cur row j acc).
  Proof.
    revert cur acc; induction m as [|m IH]; intros cur acc; simpl; [f_equal; lia|].
    fold n. destruct ((cur <? n) && (znth rows cur 0 =? row)) eqn:E; simpl.
    - rewrite IH. apply andb_true_iff in E. destruct E as [_ E]. rewrite E. unfold term. f_equal. lia.
    - f_equal. lia.
  Qed.

  Lemma AF_none m d i j s : (forall t, d <= t < d + Z.of_nat m -> znth rows t 0 <> i) -> AF m d i j s = s.
  Proof.
    revert d s; induction m as [|m IH]; intros d s H; simpl; [reflexivity|].
    destruct (Z.eqb_spec (znth rows d 0) i) as [E|_]; [exfalso; apply (H d); [lia|exact E]|].
    apply IH. intros t Ht. apply H. lia.
  Qed.

  Lemma run_rows m r d t : d <= t < d + Z.of_nat (RL m r d) -> znth rows t 0 = r.
  Proof.
    revert d; induction m as [|m IH]; intros d Ht; simpl in Ht; [lia|]. fold n in Ht.
    destruct ((d <? n) && (znth rows d 0 =? r)) eqn:E; simpl in Ht; [|lia].
    apply andb_true_iff in E. destruct E as [_ E]. apply Z.eqb_eq in E.
    destruct (Z.eq_dec t d) as [->|Hne]; [exact E|]. apply (IH (d + 1)). lia.
  Qed.

  Lemma run_len_stop m r d : 0 <= d <= n -> Z.of_nat m = n - d ->
    d + Z.of_nat (RL m r d) = n \/ znth rows (d + Z.of_nat (RL m r d)) 0 <> r.
  Proof.
    revert d; induction m as [|m IH]; intros d Hd Hm; simpl; [left; lia|]. fold n.
    destruct (Z.ltb_spec d n); simpl; [|lia].
    destruct (Z.eqb_spec (znth rows d 0) r); simpl.
    - destruct (IH (d + 1)) as [H1|H1]; [lia|lia| |].
      + left. lia.
      + right. replace (d + Z.pos (Pos.of_succ_nat (RL m r (d + 1)))) with (d + 1 + Z.of_nat (RL m r (d + 1))) by lia. exact H1.
    - right. rewrite Z.add_0_r. assumption.
  Qed.

  Hypothesis Hsorted : forall s t, 0 <= s <= t -> t < n -> znth rows s 0 <= znth rows t 0.

  Definition occurs (d i : Z) : bool := existsb (fun t => znth rows t 0 =? i) (zrange d).

  Lemma occurs_spec d i : occurs d i = true <-> exists t, 0 <= t < d /\ znth rows t 0 = i.
  Proof.
    unfold occurs. rewrite existsb_exists. split.
    - intros [t [Ht E]]. apply zrange_In in Ht. apply Z.eqb_eq in E. eauto.
    - intros [t [Ht E]]. exists t. split; [apply zrange_In; exact Ht|apply Z.eqb_eq; exact E].
  Qed.

  Lemma total_not_occurs i j : occurs n i = false -> total i j = vzero.
  Proof.
    intros H. unfold total. apply AF_none. intros t Ht E.
    assert (occurs n i = true) by (apply occurs_spec; exists t; split; [unfold n; lia|exact E]). congruence.
  Qed.

  (* at a run boundary d the run sum is the whole contribution of that row *)
  Lemma run_total d j : 0 <= d < n -> (forall t, 0 <= t < d -> znth rows t 0 < znth rows d 0) ->
    let r := znth rows d 0 in let L := RL (Z.to_nat (n - d)) r d in
    AF L d r j vzero = total r j.
  Proof.
    intros Hd Hb r L. unfold total.
    assert (HLb : d + Z.of_nat L <= n) by (unfold L; apply run_len_bound; unfold n in *; lia).
    replace (length data) with (Z.to_nat d + (L + Z.to_nat (n - d - Z.of_nat L)))%nat by (unfold n in *; lia).
    rewrite acc_from_app, acc_from_app. rewrite (AF_none (Z.to_nat d) 0 r j vzero).
    2:{ intros t Ht E. specialize (Hb t ltac:(lia)). fold r in Hb. lia. }
    replace (0 + Z.of_nat (Z.to_nat d)) with d by lia.
    symmetry. apply AF_none.
    intros t Ht E.
    destruct (run_len_stop (Z.to_nat (n - d)) r d ltac:(lia) ltac:(lia)) as [H1|H1]; fold L in H1; [lia|].
    set (e := d + Z.of_nat L) in *.
    assert (Hge : r <= znth rows e 0).
    { unfold r. apply Hsorted; unfold e; lia. }
    assert (Het : znth rows e 0 <= znth rows t 0) by (apply Hsorted; unfold e in *; lia).
    lia.
  Qed.

  (* the cells appended for one run *)
  Definition run_cells (r : Z) (S : Z -> V) (js : list Z) : list (Z * Z * V) :=
    flat_map (fun j => if negb (veqb (S j) vzero) then [(r, j, S j)] else []) js.

  Lemma cns_for_spec out_cols r d cur out :
    let L := RL (Z.to_nat (n - d)) r d in
    cns_for V vzero vadd vmul veqb rows cols data a2 out_cols r d cur out
    = ((if zrange out_cols then cur else d + Z.of_nat L), out ++ run_cells r (fun j => AF L d r j vzero) (zrange out_cols)).
  Proof.
    intros L. unfold cns_for. fold n. generalize (zrange out_cols) as js. intros js. revert cur out.
    induction js as [|j js IH]; intros cur out; simpl; [rewrite app_nil_r; reflexivity|].
    rewrite scan_sum_spec. fold L. rewrite IH. f_equal.
    - destruct js; reflexivity.
    - simpl. destruct (negb (veqb (AF L d r j vzero) vzero)); simpl; [rewrite <- app_assoc|]; reflexivity.
  Qed.

  Lemma run_cells_lookup r S (js : list Z) i j : NoDup js ->
    cell_lookup V (run_cells r S js) i j
    = if (i =? r) && mem_z j js && negb (veqb (S j) vzero) then Some (S j) else None.
  Proof.
    unfold run_cells. induction js as [|x js IH]; simpl; intros Hnd; [rewrite andb_false_r; reflexivity|].
    apply NoDup_cons_iff in Hnd. destruct Hnd as [Hx Hnd]. unfold mem_z in *. simpl.
    destruct (negb (veqb (S x) vzero)) eqn:En; simpl.
    - rewrite (IH Hnd). destruct (Z.eqb_spec i r) as [->|Hne]; simpl.
      + rewrite Z.eqb_refl. simpl. destruct (Z.eqb_spec j x) as [->|Hnj]; simpl.
        * assert (Em : existsb (Z.eqb x) js = false).
          { destruct (existsb (Z.eqb x) js) eqn:Em; [|reflexivity]. exfalso. apply Hx.
            apply existsb_exists in Em. destruct Em as [y [Hy Ey]]. apply Z.eqb_eq in Ey. subst. exact Hy. }
          rewrite Em. simpl. rewrite Z.eqb_refl, En. reflexivity.
        * destruct (existsb (Z.eqb j) js && negb (veqb (S j) vzero)); [reflexivity|].
          destruct (Z.eqb_spec x j); [congruence|reflexivity].
      + destruct (Z.eqb_spec r i); [congruence|reflexivity].
    - rewrite (IH Hnd). destruct (Z.eqb_spec i r) as [->|Hne]; simpl; [|reflexivity].
      destruct (Z.eqb_spec j x) as [->|Hnj]; simpl; [|reflexivity].
      assert (Em : existsb (Z.eqb x) js = false).
      { destruct (existsb (Z.eqb x) js) eqn:Em; [|reflexivity]. exfalso. apply Hx.
        apply existsb_exists in Em. destruct Em as [y [Hy Ey]]. apply Z.eqb_eq in Ey. subst. exact Hy. }
      rewrite Em. simpl. apply negb_false_iff in En. rewrite En. reflexivity.
  Qed.

  Definition cden (out : list (Z * Z * V)) (i j : Z) : V :=
    match cell_lookup V out i j with Some v => v | None => vzero end.

  Record sinv (out_cols d : Z) (out : list (Z * Z * V)) : Prop := {
    sinv_d : 0 <= d <= n;
    sinv_b : forall t t', 0 <= t < d -> d <= t' < n -> znth rows t 0 < znth rows t' 0;
    sinv_den : forall i j, 0 <= j < out_cols -> cden out i j = if occurs d i then total i j else vzero;
    sinv_sorted : StronglySorted cell_lt out;
    sinv_rows : Forall (fun c => occurs d (fst (fst c)) = true /\ 0 <= snd (fst c) < out_cols) out
  }.

  Lemma run_cells_sorted r S js : StronglySorted Z.lt js -> StronglySorted cell_lt (run_cells r S js).
  Proof.
    unfold run_cells. induction 1 as [|j js Hs IH Hall]; simpl; [constructor|].
    destruct (negb (veqb (S j) vzero)); simpl; [|exact IH].
    constructor; [exact IH|]. apply Forall_forall. intros c Hc. apply in_flat_map in Hc.
    destruct Hc as [j' [Hj' Hc]]. destruct (negb (veqb (S j') vzero)); [|contradiction].
    destruct Hc as [<-|[]]. right. simpl. split; [reflexivity|]. rewrite Forall_forall in Hall. apply Hall. exact Hj'.
  Qed.

  Lemma occurs_mono d d' i : d <= d' -> occurs d i = true -> occurs d' i = true.
  Proof. intros H Ho. apply occurs_spec in Ho. destruct Ho as [t [Ht E]]. apply occurs_spec. exists t. split; [lia|exact E]. Qed.

  Lemma cns_while_spec fuel out_cols : 0 < out_cols -> forall d out,
    (Z.to_nat (n - d) <= fuel)%nat -> sinv out_cols d out ->
    exists o, cns_while V vzero vadd vmul veqb fuel rows cols data a2 out_cols d out = KOk o /\ sinv out_cols n o.
  Proof.
    intros Hc. induction fuel as [|f IH]; intros d out Hf Hinv; pose proof (sinv_d _ _ _ Hinv) as Hd.
    - simpl. fold n. destruct (Z.ltb_spec d n); [lia|]. simpl. exists out. split; [reflexivity|].
      replace n with d by lia. exact Hinv.
    - simpl. fold n. destruct (Z.ltb_spec d n); simpl.
      2:{ exists out. split; [reflexivity|]. replace n with d by lia. exact Hinv. }
      destruct (Z.ltb_spec 0 out_cols); [|lia]. simpl.
      set (r := znth rows d 0). rewrite cns_for_spec. fold n.
      set (L := RL (Z.to_nat (n - d)) r d).
      assert (Hne : zrange out_cols <> []).
      { intros E0. assert (In 0 (zrange out_cols)) by (apply zrange_In; lia). rewrite E0 in H1. contradiction. }
      destruct (zrange out_cols) as [|z0 zs] eqn:Ez; [congruence|]. rewrite <- Ez.
      assert (HL : (0 < L)%nat) by (apply run_len_pos; [lia|fold n; assumption]).
      assert (HLb : d + Z.of_nat L <= n) by (apply run_len_bound; fold n; lia).
      assert (Hbd : forall t, 0 <= t < d -> znth rows t 0 < r) by (intros t Ht; apply (sinv_b _ _ _ Hinv); lia).
      assert (Hocc_r : occurs d r = false).
      { destruct (occurs d r) eqn:E; [|reflexivity]. apply occurs_spec in E. destruct E as [t [Ht E]]. specialize (Hbd t Ht). lia. }
      assert (Htot : forall j, AF L d r j vzero = total r j) by (intros j; apply (run_total d j ltac:(lia) Hbd)).
      assert (Hocc' : forall i, occurs (d + Z.of_nat L) i = occurs d i || (i =? r)).
      { intros i. apply eq_true_iff_eq. rewrite orb_true_iff, !occurs_spec, Z.eqb_eq. split.
        - intros [t [Ht E]]. destruct (Z.lt_ge_cases t d); [left; exists t; split; [lia|exact E]|].
          right. rewrite <- E. apply (run_rows (Z.to_nat (n - d)) r d t). fold L. lia.
        - intros [[t [Ht E]]| ->]; [exists t; split; [lia|exact E]|]. exists d. split; [lia|reflexivity]. }
      apply IH; [lia|]. constructor.
      + lia.
      + intros t t' Ht Ht'.
        assert (Hle : znth rows t 0 <= r).
        { destruct (Z.lt_ge_cases t d); [specialize (Hbd t ltac:(lia)); lia|].
          rewrite (run_rows (Z.to_nat (n - d)) r d t) by (fold L; lia). lia. }
        destruct (run_len_stop (Z.to_nat (n - d)) r d ltac:(lia) ltac:(lia)) as [H1|H1]; fold L in H1; [lia|].
        assert (r <= znth rows (d + Z.of_nat L) 0) by (unfold r; apply Hsorted; lia).
        assert (znth rows (d + Z.of_nat L) 0 <= znth rows t' 0) by (apply Hsorted; lia). lia.
      + intros i j Hj. unfold cden. rewrite cell_lookup_app, run_cells_lookup by apply zrange_NoDup.
        assert (Hm : mem_z j (zrange out_cols) = true) by (apply mem_z_In, zrange_In; exact Hj).
        rewrite Hm, andb_true_r, Hocc'. pose proof (sinv_den _ _ _ Hinv i j Hj) as Hden. unfold cden in Hden.
        destruct (Z.eqb_spec i r) as [->|Hne']; simpl.
        * rewrite Hocc_r in *. simpl. destruct (veqb (AF L d r j vzero) vzero) eqn:Ez'; simpl.
          -- rewrite Hden. apply veqb_zero in Ez'. rewrite <- Htot. symmetry. exact Ez'.
          -- apply Htot.
        * rewrite orb_false_r. exact Hden.
      + apply SS_app; [apply (sinv_sorted _ _ _ Hinv)|apply run_cells_sorted, zrange_SS|].
        intros c1 c2 H1 H2. left. pose proof (sinv_rows _ _ _ Hinv) as Hr. rewrite Forall_forall in Hr.
        destruct (Hr _ H1) as [Ho _]. apply occurs_spec in Ho. destruct Ho as [t [Ht E]].
        unfold run_cells in H2. apply in_flat_map in H2. destruct H2 as [j' [_ H2]].
        destruct (negb (veqb (AF L d r j' vzero) vzero)); [|contradiction]. destruct H2 as [<-|[]]. simpl.
        rewrite <- E. apply Hbd. exact Ht.
      + apply Forall_app. split.
        * eapply Forall_impl; [|apply (sinv_rows _ _ _ Hinv)]. intros c [Ho Hcr]. split; [|exact Hcr].
          apply (occurs_mono d); [lia|exact Ho].
        * apply Forall_forall. intros c Hcc. unfold run_cells in Hcc. apply in_flat_map in Hcc. destruct Hcc as [j' [Hj' Hcc]].
          destruct (negb (veqb (AF L d r j' vzero) vzero)); [|contradiction]. destruct Hcc as [<-|[]]. simpl.
          split; [rewrite Hocc', Z.eqb_refl; apply orb_true_r|apply zrange_In; exact Hj'].
  Qed.
End CooNdSparse.

Theorem dot_coo_ndarray_sparse_proof (V : Type) (vzero : V) (vadd vmul : V -> V -> V) (veqb : V -> V -> bool) :
  comm_semiring vzero vadd vmul -> (forall x, veqb x vzero = true -> x = vzero) ->
  forall (a2 : Z -> Z -> V) (rows cols : list Z) (data : list V) (n_in out_cols : Z) (fuel : nat),
    length rows = length data -> length cols = length data ->
    NoDup (combine rows cols) -> Forall (fun c => 0 <= c < n_in) cols ->
    (forall s t, 0 <= s <= t -> t < Z.of_nat (length data) -> znth rows s 0 <= znth rows t 0) ->
    (length data <= fuel)%nat ->
    exists o, dot_coo_ndarray_sparse V vzero vadd vmul veqb fuel rows cols data a2 out_cols = KOk o
      /\ StronglySorted cell_lt o
      /\ Forall (fun c => 0 <= snd (fst c) < out_cols) o
      /\ forall i j, 0 <= j < out_cols ->
           cden V vzero o i j
           = np_matmul2 V vzero vadd vmul n_in (coo_cells_den V vzero rows cols data) (fun c j => a2 j c) i j.
Proof.
  intros SR Hz a2 rows cols data n_in out_cols fuel Hr Hc Hnd Hrange Hsorted Hf.
  unfold dot_coo_ndarray_sparse.
  destruct (Z.ltb_spec 0 out_cols) as [Hpos|Hneg].
  - destruct (cns_while_spec V vzero vadd vmul veqb Hz rows cols data a2 Hsorted fuel out_cols Hpos 0 []) as [o [E Ho]].
    + lia.
    + constructor; [lia|intros; lia| |constructor|constructor].
      intros i j _. reflexivity.
    + exists o. split; [exact E|]. split; [apply (sinv_sorted _ _ _ _ _ _ _ _ _ _ _ Ho)|]. split.
      * eapply Forall_impl; [|apply (sinv_rows _ _ _ _ _ _ _ _ _ _ _ Ho)]. intros c [_ H]. exact H.
      * intros i j Hj. rewrite (sinv_den _ _ _ _ _ _ _ _ _ _ _ Ho i j Hj).
        assert (Ht : (if occurs rows (Z.of_nat (length data)) i then total V vzero vadd vmul rows cols data a2 i j else vzero)
                     = total V vzero vadd vmul rows cols data a2 i j).
        { destruct (occurs rows (Z.of_nat (length data)) i) eqn:Eo; [reflexivity|]. symmetry.
          apply total_not_occurs. exact Eo. }
        rewrite Ht. unfold total.
        pose proof (acc_from_cells V vzero vadd vmul a2 rows cols data i j Hr Hc [] [] [] vzero eq_refl eq_refl) as Ha. simpl in Ha.
        rewrite Ha, (acc_list_vsum V vzero vadd vmul SR), (sr_add_0_l _ _ _ SR).
        set (cs := combine (combine rows cols) data).
        assert (Hfst : map fst cs = combine rows cols) by (unfold cs; apply map_fst_combine; rewrite combine_length; lia).
        rewrite (sparse_row_sum V vzero vadd vmul SR (a2 j) n_in (row_of V i cs)).
        -- unfold np_matmul2, sum_over. f_equal. apply map_ext. intros c. f_equal.
           unfold row_get, coo_cells_den. fold cs. rewrite cell_lookup_row_of. reflexivity.
        -- apply row_of_keys_NoDup. rewrite Hfst. exact Hnd.
        -- apply Forall_forall. intros [c v] Hin. simpl. unfold row_of in Hin. apply in_map_iff in Hin.
           destruct Hin as [[[r' c'] v'] [E' Hin]]. simpl in E'. inversion E'; subst c' v'.
           apply filter_In in Hin. destruct Hin as [Hin _].
           assert (In (r', c) (combine rows cols)) by (rewrite <- Hfst; apply in_map_iff; exists (r', c, v); auto).
           apply in_combine_r in H. rewrite Forall_forall in Hrange. apply Hrange. exact H.
  - exists []. split.
    + destruct fuel; simpl; destruct (Z.ltb_spec 0 out_cols); try lia; rewrite andb_false_r; reflexivity.
    + split; [constructor|]. split; [constructor|]. intros i j Hj. lia.
Qed.

(* ====================================================================== _dot_ndarray_coo_type_sparse *)
Lemma cell_lookup_none_iff {V} (cs : list (Z * Z * V)) i j :
  cell_lookup V cs i j = None <-> (forall x, In x cs -> ~ (fst (fst x) = i /\ snd (fst x) = j)).
Proof.
  induction cs as [|[[r c] v] cs IH]; simpl; [split; [intros _ x []|reflexivity]|].
  destruct (cell_lookup V cs i j) eqn:E.
  - split; [discriminate|]. intros H. exfalso. assert (Hn : None = Some v0); [|discriminate].
    rewrite <- (proj2 IH); [reflexivity|]. intros x Hx. apply H. right. exact Hx.
  - destruct (Z.eqb_spec r i); destruct (Z.eqb_spec c j); simpl.
    + split; [discriminate|]. intros H. exfalso. apply (H (r, c, v)); [left; reflexivity|simpl; auto].
    + split; [|reflexivity]. intros _ x [<-|Hx]; [simpl; lia|apply (proj1 IH eq_refl); exact Hx].
    + split; [|reflexivity]. intros _ x [<-|Hx]; [simpl; lia|apply (proj1 IH eq_refl); exact Hx].
    + split; [|reflexivity]. intros _ x [<-|Hx]; [simpl; lia|apply (proj1 IH eq_refl); exact Hx].
Qed.

Section NdCooSparse.
  Variable V : Type.
  Variable vzero : V.
  Variable vadd vmul : V -> V -> V.
  Variable veqb : V -> V -> bool.
  Hypothesis SR : comm_semiring vzero vadd vmul.
  Hypothesis veqb_zero : forall x, veqb x vzero = true -> x = vzero.
  Hypothesis veqb_refl0 : veqb vzero vzero = true.
  Variable a1 : Z -> Z -> V.
  Variable p : Z.

  Definition ccol (t : Z * Z * V) : Z := fst (fst t).
  Definition cle (t t' : Z * Z * V) : Prop := ccol t <= ccol t'.

  (* what data_curr holds for column j after the cells pre *)
  Definition gsum (i : Z) (pre : list (Z * Z * V)) (j : Z) : V :=
    fold_left (fun s t => if ccol t =? j then vadd s (vmul (a1 i (snd (fst t))) (snd t)) else s) pre vzero.

  Lemma gsum_snoc i pre t j :
    gsum i (pre ++ [t]) j = if ccol t =? j then vadd (gsum i pre j) (vmul (a1 i (snd (fst t))) (snd t)) else gsum i pre j.
  Proof. unfold gsum. rewrite fold_left_app. reflexivity. Qed.

  Lemma gsum_none i pre j : (forall t, In t pre -> ccol t <> j) -> gsum i pre j = vzero.
  Proof.
    unfold gsum. intros H. assert (G : forall s, fold_left (fun s t => if ccol t =? j then vadd s (vmul (a1 i (snd (fst t))) (snd t)) else s) pre s = s).
    { induction pre as [|t pre IH]; intros s; simpl; [reflexivity|].
      destruct (Z.eqb_spec (ccol t) j); [exfalso; apply (H t); [left; reflexivity|assumption]|].
      apply IH. intros t' Ht'. apply H. right. exact Ht'. }
    apply G.
  Qed.

  Lemma gsum_nonzero_in i pre j : gsum i pre j <> vzero -> exists t, In t pre /\ ccol t = j.
  Proof.
    unfold gsum.
    assert (G : forall s, fold_left (fun s t => if ccol t =? j then vadd s (vmul (a1 i (snd (fst t))) (snd t)) else s) pre s <> s ->
                exists t, In t pre /\ ccol t = j).
    { induction pre as [|t pre IH]; intros s H; simpl in H; [congruence|].
      destruct (Z.eqb_spec (ccol t) j) as [E|_]; [exists t; split; [left; reflexivity|exact E]|].
      destruct (IH s H) as [t' [Ht' E']]. exists t'. split; [right; exact Ht'|exact E']. }
    apply G.
  Qed.

  Record ninv (i : Z) (pre : list (Z * Z * V)) (dc : V) (cc : Z) (new : list (Z * Z * V)) : Prop := {
    ni_dc : dc = gsum i pre cc;
    ni_cc : 0 <= cc;
    ni_pre : forall t, In t pre -> ccol t <= cc;
    ni_new : Forall (fun x => fst (fst x) = i /\ 0 <= snd (fst x) < cc /\ snd (fst x) < p) new;
    ni_sorted : StronglySorted cell_lt new;
    ni_den : forall j, j < cc -> cden V vzero new i j = gsum i pre j
  }.

  Lemma cden_snoc new i cc dc j :
    cden V vzero (new ++ [(i, cc, dc)]) i j = if j =? cc then dc else cden V vzero new i j.
  Proof.
    unfold cden. rewrite cell_lookup_app. simpl. rewrite Z.eqb_refl. simpl.
    destruct (Z.eqb_spec cc j) as [->|Hne]; [rewrite Z.eqb_refl; reflexivity|].
    destruct (Z.eqb_spec j cc); [congruence|reflexivity].
  Qed.

  Lemma ncs_fold i out0 : forall suf, StronglySorted cle suf -> forall pre dc cc new,
    Forall (fun t => cc <= ccol t) suf -> Forall (fun t => ccol t < p) pre -> Forall (fun t => ccol t < p) suf ->
    ninv i pre dc cc new ->
    exists dc' cc' new',
      fold_left (ncs_step V vzero vadd vmul veqb a1 i) suf (dc, cc, out0 ++ new) = (dc', cc', out0 ++ new')
      /\ ninv i (pre ++ suf) dc' cc' new'.
  Proof.
    induction 1 as [|t suf Hs IH Hall]; intros pre dc cc new Hge Hpp Hsp Hinv.
    - exists dc, cc, new. simpl. rewrite app_nil_r. auto.
    - pose proof (Forall_inv Hge) as Hct. pose proof (Forall_inv_tail Hge) as Hge'. simpl in Hct.
      pose proof (Forall_inv Hsp) as Htp. pose proof (Forall_inv_tail Hsp) as Hsp'. simpl in Htp.
      assert (Hpp' : Forall (fun t => ccol t < p) (pre ++ [t])) by (apply Forall_app; split; [exact Hpp|constructor; [exact Htp|constructor]]).
      destruct Hinv as [Hdc Hcc Hpre Hnew Hsorted Hden].
      cbn [fold_left]. unfold ncs_step at 2. fold (ccol t).
      replace (pre ++ t :: suf) with ((pre ++ [t]) ++ suf) by (rewrite <- app_assoc; reflexivity).
      destruct (Z.eqb_spec (ccol t) cc) as [E|Hne]; simpl negb; cbv iota.
      + (* same column *)
        apply IH; [|exact Hpp'|exact Hsp'|].
        * eapply Forall_impl; [|exact Hall]. unfold cle. intros; lia.
        * constructor; auto.
          -- rewrite gsum_snoc, E, Z.eqb_refl, <- Hdc. reflexivity.
          -- intros t' Ht'. apply in_app_or in Ht'. destruct Ht' as [?|[<-|[]]]; [auto|lia].
          -- intros j Hj. rewrite gsum_snoc. destruct (Z.eqb_spec (ccol t) j); [lia|]. apply Hden. exact Hj.
      + (* a new column c > cc *)
        assert (Hlt : cc < ccol t) by lia.
        assert (Hnone : forall j, cc < j -> gsum i pre j = vzero).
        { intros j Hj. apply gsum_none. intros t' Ht'. specialize (Hpre t' Ht'). lia. }
        destruct (veqb dc vzero) eqn:Ez; simpl negb; cbv iota.
        * apply veqb_zero in Ez.
          apply IH; [|exact Hpp'|exact Hsp'|].
          -- eapply Forall_impl; [|exact Hall]. unfold cle. intros; lia.
          -- constructor.
             ++ rewrite gsum_snoc, Z.eqb_refl, (Hnone (ccol t) Hlt), Ez. reflexivity.
             ++ lia.
             ++ intros t' Ht'. apply in_app_or in Ht'. destruct Ht' as [Ht'|[<-|[]]]; [specialize (Hpre t' Ht'); lia|lia].
             ++ eapply Forall_impl; [|exact Hnew]. simpl. intros x [? [? ?]]. split; [assumption|split; [lia|assumption]].
             ++ exact Hsorted.
             ++ intros j Hj. rewrite gsum_snoc. destruct (Z.eqb_spec (ccol t) j); [lia|].
                destruct (Z.lt_ge_cases j cc) as [Hjc|Hjc]; [apply Hden; exact Hjc|].
                destruct (Z.eq_dec j cc) as [->|Hne'].
                ** rewrite <- Hdc, Ez. unfold cden. rewrite (proj2 (cell_lookup_none_iff _ _ _)); [reflexivity|].
                   rewrite Forall_forall in Hnew. intros x Hx [_ Hq]. destruct (Hnew x Hx) as [_ [Hb _]]. lia.
                ** rewrite (Hnone j ltac:(lia)). unfold cden. rewrite (proj2 (cell_lookup_none_iff _ _ _)); [reflexivity|].
                   rewrite Forall_forall in Hnew. intros x Hx [_ Hq]. destruct (Hnew x Hx) as [_ [Hb _]]. lia.
        * replace ((out0 ++ new) ++ [(i, cc, dc)]) with (out0 ++ (new ++ [(i, cc, dc)])) by (rewrite app_assoc; reflexivity).
          assert (Hccp : cc < p).
          { assert (Hnz : gsum i pre cc <> vzero) by (intros E0; rewrite <- Hdc in E0; rewrite E0, veqb_refl0 in Ez; discriminate).
            destruct (gsum_nonzero_in i pre cc Hnz) as [t' [Ht' E']]. rewrite Forall_forall in Hpp. specialize (Hpp t' Ht'). lia. }
          apply (IH (pre ++ [t]) _ _ (new ++ [(i, cc, dc)])); [|exact Hpp'|exact Hsp'|].
          -- eapply Forall_impl; [|exact Hall]. unfold cle. intros; lia.
          -- constructor.
             ++ rewrite gsum_snoc, Z.eqb_refl, (Hnone (ccol t) Hlt). reflexivity.
             ++ lia.
             ++ intros t' Ht'. apply in_app_or in Ht'. destruct Ht' as [Ht'|[<-|[]]]; [specialize (Hpre t' Ht'); lia|lia].
             ++ apply Forall_app. split.
                ** eapply Forall_impl; [|exact Hnew]. simpl. intros x [? [? ?]]. split; [assumption|split; [lia|assumption]].
                ** constructor; [simpl; split; [reflexivity|split; [lia|exact Hccp]]|constructor].
             ++ apply SS_app; [exact Hsorted|repeat constructor|].
                intros c1 c2 H1 [<-|[]]. right. simpl. rewrite Forall_forall in Hnew. destruct (Hnew c1 H1) as [? [? ?]]. split; [assumption|lia].
             ++ intros j Hj. rewrite gsum_snoc. destruct (Z.eqb_spec (ccol t) j); [lia|].
                rewrite cden_snoc. destruct (Z.eqb_spec j cc) as [->|Hne'].
                ** exact Hdc.
                ** destruct (Z.lt_ge_cases j cc) as [Hjc|Hjc]; [apply Hden; exact Hjc|].
                   rewrite (Hnone j ltac:(lia)). unfold cden. rewrite (proj2 (cell_lookup_none_iff _ _ _)); [reflexivity|].
                   rewrite Forall_forall in Hnew. intros x Hx [_ Hq]. destruct (Hnew x Hx) as [_ [Hb _]]. lia.
  Qed.

  Variable cs : list (Z * Z * V).
  Hypothesis cs_sorted : StronglySorted cle cs.
  Hypothesis cs_range : Forall (fun t => 0 <= ccol t < p) cs.

  (* what one iteration of the outer loop appends, and its meaning *)
  Record row_ok (i : Z) (new : list (Z * Z * V)) : Prop := {
    ro_cells : Forall (fun x => fst (fst x) = i /\ 0 <= snd (fst x) < p) new;
    ro_sorted : StronglySorted cell_lt new;
    ro_den : forall j, cden V vzero new i j = gsum i cs j
  }.

  Lemma ncs_row i out0 :
    exists new,
      (let '(dc, cc, out') := fold_left (ncs_step V vzero vadd vmul veqb a1 i) cs (vzero, 0, out0) in
       if negb (veqb dc vzero) then out' ++ [(i, cc, dc)] else out') = out0 ++ new
      /\ row_ok i new.
  Proof.
    destruct (ncs_fold i out0 cs cs_sorted [] vzero 0 []) as [dc [cc [new [E Hinv]]]].
    - eapply Forall_impl; [|exact cs_range]. simpl. intros; lia.
    - constructor.
    - eapply Forall_impl; [|exact cs_range]. simpl. intros; lia.
    - constructor; try constructor; try reflexivity; try lia. simpl. tauto.
    - rewrite app_nil_r in E. rewrite E. simpl app in Hinv.
      destruct Hinv as [Hdc Hcc Hpre Hnew Hsorted Hden].
      assert (Hnone : forall j, cc < j -> gsum i cs j = vzero).
      { intros j Hj. apply gsum_none. intros t' Ht'. specialize (Hpre t' Ht'). lia. }
      destruct (veqb dc vzero) eqn:Ez; simpl negb; cbv iota.
      + apply veqb_zero in Ez. exists new. split; [reflexivity|]. constructor.
        * eapply Forall_impl; [|exact Hnew]. simpl. intros x [? [? ?]]. split; [assumption|lia].
        * exact Hsorted.
        * intros j. destruct (Z.lt_ge_cases j cc) as [Hjc|Hjc]; [apply Hden; exact Hjc|].
          assert (En : cden V vzero new i j = vzero).
          { unfold cden. rewrite (proj2 (cell_lookup_none_iff _ _ _)); [reflexivity|].
            rewrite Forall_forall in Hnew. intros x Hx [_ Hq]. destruct (Hnew x Hx) as [_ [Hb _]]. lia. }
          rewrite En. destruct (Z.eq_dec j cc) as [->|Hne]; [rewrite <- Hdc; symmetry; exact Ez|].
          symmetry. apply Hnone. lia.
      + assert (Hccp : cc < p).
        { assert (Hnz : gsum i cs cc <> vzero) by (intros E0; rewrite <- Hdc in E0; rewrite E0, veqb_refl0 in Ez; discriminate).
          destruct (gsum_nonzero_in i cs cc Hnz) as [t' [Ht' E']]. rewrite Forall_forall in cs_range. specialize (cs_range t' Ht'). lia. }
        exists (new ++ [(i, cc, dc)]). split; [rewrite app_assoc; reflexivity|]. constructor.
        * apply Forall_app. split.
          -- eapply Forall_impl; [|exact Hnew]. simpl. intros x [? [? ?]]. split; [assumption|lia].
          -- constructor; [simpl; split; [reflexivity|lia]|constructor].
        * apply SS_app; [exact Hsorted|repeat constructor|].
          intros c1 c2 H1 [<-|[]]. right. simpl. rewrite Forall_forall in Hnew. destruct (Hnew c1 H1) as [? [? ?]]. split; [assumption|lia].
        * intros j. rewrite cden_snoc. destruct (Z.eqb_spec j cc) as [->|Hne]; [exact Hdc|].
          destruct (Z.lt_ge_cases j cc) as [Hjc|Hjc]; [apply Hden; exact Hjc|].
          rewrite (Hnone j ltac:(lia)). unfold cden. rewrite (proj2 (cell_lookup_none_iff _ _ _)); [reflexivity|].
          rewrite Forall_forall in Hnew. intros x Hx [_ Hq]. destruct (Hnew x Hx) as [_ [Hb _]]. lia.
  Qed.

  Definition ncs_outer (is : list Z) (out : list (Z * Z * V)) : list (Z * Z * V) :=
    fold_left (fun out oidx1 =>
                 let '(dc, cc, out') := fold_left (ncs_step V vzero vadd vmul veqb a1 oidx1) cs (vzero, 0, out) in
                 if negb (veqb dc vzero) then out' ++ [(oidx1, cc, dc)] else out') is out.

  Lemma ncs_outer_spec : forall (is : list Z) out0,
    exists news, ncs_outer is out0 = out0 ++ concat news /\ Forall2 row_ok is news.
  Proof.
    induction is as [|i is IH]; intros out0.
    - exists []. simpl. rewrite app_nil_r. split; [reflexivity|constructor].
    - destruct (ncs_row i out0) as [new [E Hok]]. unfold ncs_outer. cbn [fold_left]. rewrite E.
      destruct (IH (out0 ++ new)) as [news [E' Hall]]. unfold ncs_outer in E'. rewrite E'.
      exists (new :: news). simpl. rewrite <- app_assoc. split; [reflexivity|constructor; assumption].
  Qed.

  Lemma concat_rows_den (is : list Z) news i j : Forall2 row_ok is news -> NoDup is -> In i is ->
    cden V vzero (concat news) i j = gsum i cs j.
  Proof.
    induction 1 as [|i' new is' news' Hok Hall IH]; intros Hnd Hin; [contradiction|].
    apply NoDup_cons_iff in Hnd. destruct Hnd as [Hni Hnd]. simpl. unfold cden. rewrite cell_lookup_app.
    destruct Hin as [->|Hin].
    - assert (En : cell_lookup V (concat news') i j = None).
      { apply cell_lookup_none_iff. intros x Hx [Hr _]. apply in_concat in Hx. destruct Hx as [nw [Hnw Hx]].
        clear -Hall Hnw Hx Hr Hni. induction Hall as [|i2 n2 is2 ns2 Hok2 Hall2 IH2]; [contradiction|].
        destruct Hnw as [<-|Hnw].
        - pose proof (ro_cells _ _ Hok2) as Hc. rewrite Forall_forall in Hc. destruct (Hc x Hx) as [E _].
          apply Hni. left. congruence.
        - apply IH2; [intros H; apply Hni; right; exact H|exact Hnw]. }
      rewrite En. apply (ro_den _ _ Hok).
    - assert (En : cell_lookup V new i j = None).
      { apply cell_lookup_none_iff. intros x Hx [Hr _]. pose proof (ro_cells _ _ Hok) as Hc. rewrite Forall_forall in Hc.
        destruct (Hc x Hx) as [E _]. apply Hni. congruence. }
      specialize (IH Hnd Hin). unfold cden in IH. destruct (cell_lookup V (concat news') i j); [exact IH|].
      rewrite En. exact IH.
  Qed.

  Lemma concat_rows_sorted (is : list Z) news : Forall2 row_ok is news -> StronglySorted Z.lt is ->
    StronglySorted cell_lt (concat news)
    /\ Forall (fun x => In (fst (fst x)) is /\ 0 <= snd (fst x) < p) (concat news).
  Proof.
    induction 1 as [|i' new is' news' Hok Hall IH]; intros Hs; [split; constructor|].
    apply StronglySorted_inv in Hs. destruct Hs as [Hs Hlt]. destruct (IH Hs) as [IH1 IH2]. simpl. split.
    - apply SS_app; [apply (ro_sorted _ _ Hok)|exact IH1|].
      intros c1 c2 H1 H2. left. pose proof (ro_cells _ _ Hok) as Hc. rewrite Forall_forall in Hc, IH2, Hlt.
      destruct (Hc c1 H1) as [-> _]. destruct (IH2 c2 H2) as [Hin _]. apply Hlt. exact Hin.
    - apply Forall_app. split.
      + eapply Forall_impl; [|apply (ro_cells _ _ Hok)]. simpl. intros x [-> H]. split; [left; reflexivity|exact H].
      + eapply Forall_impl; [|exact IH2]. simpl. intros x [H1 H2]. split; [right; exact H1|exact H2].
  Qed.
End NdCooSparse.

Lemma SS_cle_combine {V} (cols2 rows2 : list Z) (data2 : list V) :
  StronglySorted Z.le cols2 -> StronglySorted (@cle V) (combine (combine cols2 rows2) data2).
Proof.
  intros H. revert rows2 data2. induction H as [|c cols2 Hs IH Hall]; intros rows2 data2; simpl; [constructor|].
  destruct rows2 as [|r rows2]; [constructor|]. destruct data2 as [|v data2]; simpl; [constructor|].
  constructor; [apply IH|]. apply Forall_forall. intros [[c' r'] v'] Hin. unfold cle, ccol. simpl.
  apply in_combine_l in Hin. apply in_combine_l in Hin. rewrite Forall_forall in Hall. apply Hall. exact Hin.
Qed.

Theorem dot_ndarray_coo_sparse_proof (V : Type) (vzero : V) (vadd vmul : V -> V -> V) (veqb : V -> V -> bool) :
  comm_semiring vzero vadd vmul -> (forall x, veqb x vzero = true -> x = vzero) -> veqb vzero vzero = true ->
  forall (a1 : Z -> Z -> V) (cols2 rows2 : list Z) (data2 : list V) (m n_in p : Z),
    length cols2 = length data2 -> length rows2 = length data2 ->
    NoDup (combine cols2 rows2) -> StronglySorted Z.le cols2 ->
    Forall (fun c => 0 <= c < p) cols2 -> Forall (fun r => 0 <= r < n_in) rows2 ->
    let o := dot_ndarray_coo_sparse V vzero vadd vmul veqb m a1 cols2 rows2 data2 in
    StronglySorted cell_lt o
    /\ Forall (fun x => 0 <= fst (fst x) < m /\ 0 <= snd (fst x) < p) o
    /\ forall i j, 0 <= i < m ->
         cden V vzero o i j
         = np_matmul2 V vzero vadd vmul n_in a1 (fun r j => coo_cells_den V vzero cols2 rows2 data2 j r) i j.
Proof.
  intros SR Hz Hz0 a1 cols2 rows2 data2 m n_in p Hc Hr Hnd Hs Hcr Hrr o.
  set (cs := combine (combine cols2 rows2) data2).
  assert (Hfst : map fst cs = combine cols2 rows2) by (unfold cs; apply map_fst_combine; rewrite combine_length; lia).
  assert (Hcs_sorted : StronglySorted (@cle V) cs) by (apply SS_cle_combine; exact Hs).
  assert (Hcs_range : Forall (fun t => 0 <= ccol V t < p) cs).
  { apply Forall_forall. intros [[c r] v] Hin. unfold ccol. simpl.
    assert (In (c, r) (combine cols2 rows2)) by (rewrite <- Hfst; apply in_map_iff; exists (c, r, v); auto).
    apply in_combine_l in H. rewrite Forall_forall in Hcr. apply Hcr. exact H. }
  destruct (ncs_outer_spec V vzero vadd vmul veqb Hz Hz0 a1 p cs Hcs_sorted Hcs_range (zrange m) []) as [news [E Hall]].
  assert (Eo : o = concat news) by (unfold o, dot_ndarray_coo_sparse; fold cs; exact E).
  rewrite Eo. destruct (concat_rows_sorted V vzero vadd vmul a1 p cs (zrange m) news Hall (zrange_SS m)) as [S1 S2].
  split; [exact S1|]. split.
  - eapply Forall_impl; [|exact S2]. simpl. intros x [H1 H2]. apply zrange_In in H1. tauto.
  - intros i j Hi.
    rewrite (concat_rows_den V vzero vadd vmul a1 p cs (zrange m) news i j Hall (zrange_NoDup m)) by (apply zrange_In; exact Hi).
    assert (G : forall s, fold_left (fun s t => if ccol V t =? j then vadd s (vmul (a1 i (snd (fst t))) (snd t)) else s) cs s
                = vadd s (vsum V vzero vadd (map (fun rv => vmul (snd rv) (a1 i (fst rv))) (row_of V j cs)))).
    { unfold row_of, ccol. clear -SR. induction cs as [|[[c r] v] cs IH]; intros s; simpl.
      - symmetry. apply (add_0_r V vzero vadd vmul SR).
      - destruct (Z.eqb_spec c j); simpl; rewrite IH; [|reflexivity].
        rewrite (sr_add_assoc _ _ _ SR). f_equal. f_equal. apply (sr_mul_comm _ _ _ SR). }
    unfold gsum. rewrite G, (sr_add_0_l _ _ _ SR).
    rewrite (sparse_row_sum V vzero vadd vmul SR (a1 i) n_in (row_of V j cs)).
    + unfold np_matmul2, sum_over. f_equal. apply map_ext. intros r.
      rewrite (sr_mul_comm _ _ _ SR). f_equal. unfold row_get, coo_cells_den. fold cs. rewrite cell_lookup_row_of. reflexivity.
    + apply row_of_keys_NoDup. rewrite Hfst. exact Hnd.
    + apply Forall_forall. intros [r v] Hin. simpl. unfold row_of in Hin. apply in_map_iff in Hin.
      destruct Hin as [[[c' r'] v'] [E' Hin]]. simpl in E'. inversion E'; subst r' v'.
      apply filter_In in Hin. destruct Hin as [Hin _].
      assert (In (c', r) (combine cols2 rows2)) by (rewrite <- Hfst; apply in_map_iff; exists (c', r, v); auto).
      apply in_combine_r in H. rewrite Forall_forall in Hrr. apply Hrr. exact H.
Qed.

(* ====================================================================== a well-formed CSR triple is its list of rows *)
Lemma firstn_add {A} (n m : nat) (l : list A) : firstn (n + m) l = firstn n l ++ firstn m (skipn n l).
Proof. revert l; induction n as [|n IH]; intros [|x l]; simpl; try reflexivity; [rewrite firstn_nil; reflexivity|]. rewrite IH. reflexivity. Qed.

Lemma skipn_add {A} (n m : nat) (l : list A) : skipn m (skipn n l) = skipn (n + m) l.
Proof. revert l; induction n as [|n IH]; intros [|x l]; simpl; try reflexivity; [apply skipn_nil|apply IH]. Qed.

Lemma slice_glue {A} (l : list A) a b c : 0 <= a <= b -> b <= c ->
  slice_list l a b ++ slice_list l b c = slice_list l a c.
Proof.
  intros H1 H2. unfold slice_list.
  replace (Z.to_nat (c - a)) with (Z.to_nat (b - a) + Z.to_nat (c - b))%nat by lia.
  rewrite firstn_add. f_equal. rewrite skipn_add. f_equal. f_equal. lia.
Qed.

Lemma slice_length {A} (l : list A) a b : 0 <= a <= b -> b <= Z.of_nat (length l) ->
  Z.of_nat (length (slice_list l a b)) = b - a.
Proof. intros H1 H2. unfold slice_list. rewrite firstn_length, skipn_length. lia. Qed.

Lemma slice_full {A} (l : list A) : slice_list l 0 (Z.of_nat (length l)) = l.
Proof. unfold slice_list. simpl. rewrite Z.sub_0_r, Nat2Z.id. apply firstn_all. Qed.

Lemma last_default {A} (l : list A) (x : A) d d' : last (x :: l) d = last (x :: l) d'.
Proof. revert x; induction l as [|y l IH]; intros x; [reflexivity|]. change (last (x :: y :: l) d) with (last (y :: l) d). change (last (x :: y :: l) d') with (last (y :: l) d'). apply IH. Qed.

Lemma nondecreasing_le_last (rest : list Z) b : nondecreasing (b :: rest) = true -> b <= last rest b.
Proof.
  revert b; induction rest as [|c rest IHr]; intros b Hnd; simpl; [lia|].
  change (nondecreasing (b :: c :: rest)) with ((b <=? c) && nondecreasing (c :: rest)) in Hnd.
  apply andb_true_iff in Hnd. destruct Hnd as [H1 H2]. apply Z.leb_le in H1. specialize (IHr c H2).
  change (match rest with [] => c | _ :: _ => last rest b end) with (last (c :: rest) b).
  destruct rest as [|c' rest']; [simpl; lia|].
  change (last (c :: c' :: rest') b) with (last (c' :: rest') b). rewrite (last_default rest' c' b c). lia.
Qed.

Lemma rows_decomp {A} (l : list A) : forall (rest : list Z) (s : Z),
  nondecreasing (s :: rest) = true -> 0 <= s -> Forall (fun x => x <= Z.of_nat (length l)) (s :: rest) ->
  offs s (rows_of l (s :: rest)) = s :: rest
  /\ concat (rows_of l (s :: rest)) = slice_list l s (last rest s).
Proof.
  induction rest as [|b rest IH]; intros s Hnd Hs Hle.
  - simpl. split; [reflexivity|]. unfold slice_list. rewrite Z.sub_diag. reflexivity.
  - rewrite rows_of_cons2. change (nondecreasing (s :: b :: rest)) with ((s <=? b) && nondecreasing (b :: rest)) in Hnd.
    apply andb_true_iff in Hnd. destruct Hnd as [Hsb Hnd]. apply Z.leb_le in Hsb.
    pose proof (Forall_inv_tail Hle) as Hle'. pose proof (Forall_inv Hle') as Hb. simpl in Hb.
    destruct (IH b Hnd ltac:(lia) Hle') as [IH1 IH2].
    assert (Hlast : b <= last rest b) by (apply nondecreasing_le_last; exact Hnd).
    split.
    + cbn [offs]. rewrite slice_length by lia. replace (s + (b - s)) with b by lia. rewrite IH1. reflexivity.
    + cbn [concat]. rewrite IH2.
      replace (last (b :: rest) s) with (last rest b) by (destruct rest as [|c r']; [reflexivity|apply (last_default r' c b s)]).
      apply slice_glue; lia.
Qed.

Lemma last_cons_default (l : list Z) b s : last (b :: l) s = last l b.
Proof. destruct l as [|c r']; [reflexivity|]. change (last (b :: c :: r') s) with (last (c :: r') s). apply last_default. Qed.

Lemma nondecreasing_bounds (l : list Z) s : nondecreasing (s :: l) = true ->
  Forall (fun x => s <= x <= last l s) (s :: l).
Proof.
  revert s; induction l as [|b l IH]; intros s H.
  - simpl. constructor; [lia|constructor].
  - change (nondecreasing (s :: b :: l)) with ((s <=? b) && nondecreasing (b :: l)) in H.
    apply andb_true_iff in H. destruct H as [H1 H2]. apply Z.leb_le in H1. specialize (IH b H2).
    rewrite (last_cons_default l b s).
    pose proof (Forall_inv IH) as Hb. simpl in Hb.
    constructor; [lia|]. eapply Forall_impl; [|exact IH]. simpl. intros; lia.
Qed.

Lemma nth_length_last (l : list Z) s d : nth (length l) (s :: l) d = last l s.
Proof.
  revert s; induction l as [|b l IH]; intros s; [reflexivity|].
  change (nth (length (b :: l)) (s :: b :: l) d) with (nth (length l) (b :: l) d). rewrite (IH b). symmetry. apply last_cons_default.
Qed.

Section Decomp.
  Variable V : Type.

  Definition rows_view (m : csr V) : list (list (Z * V)) :=
    map (fun p => combine (fst p) (snd p))
        (combine (rows_of (m_indices m) (m_indptr m)) (rows_of (m_data m) (m_indptr m))).

  Lemma concat_combine_rows {A B} (R1 : list (list A)) (R2 : list (list B)) :
    map (@length A) R1 = map (@length B) R2 ->
    map fst (concat (map (fun p => combine (fst p) (snd p)) (combine R1 R2))) = concat R1
    /\ map snd (concat (map (fun p => combine (fst p) (snd p)) (combine R1 R2))) = concat R2
    /\ map (@length (A * B)) (map (fun p => combine (fst p) (snd p)) (combine R1 R2)) = map (@length A) R1.
  Proof.
    revert R2; induction R1 as [|r1 R1 IH]; intros [|r2 R2] H; simpl in *; try discriminate; [auto|].
    inversion H as [[H1 H2]]. destruct (IH R2 H2) as [I1 [I2 I3]].
    rewrite !map_app, I1, I2, I3. repeat split.
    - f_equal. apply map_fst_combine. exact H1.
    - f_equal. clear -H1. revert r2 H1; induction r1; intros [|b r2] H; simpl in *; try discriminate; auto. f_equal. apply IHr1. lia.
    - f_equal. rewrite combine_length. lia.
  Qed.

  Lemma rows_of_lengths {A B} (l1 : list A) (l2 : list B) indptr : length l1 = length l2 ->
    map (@length A) (rows_of l1 indptr) = map (@length B) (rows_of l2 indptr).
  Proof.
    intros H. induction indptr as [|a t IH]; [reflexivity|]. destruct t as [|b t']; [reflexivity|].
    rewrite !rows_of_cons2. cbn [map]. f_equal; [apply slice_length_eq; exact H|exact IH].
  Qed.

  (* a well-formed CSR triple IS csr_of_rows of its rows *)
  Lemma csr_decomp n_row n_col (m : csr V) : csr_wfb n_row n_col m = true ->
    m = csr_of_rows V (rows_view m) /\ Z.of_nat (length (rows_view m)) = n_row.
  Proof.
    unfold csr_wfb. rewrite !andb_true_iff.
    intros [[[[[[[[H1 H2] H3] H4] H5] H6] H7] H8] H9].
    apply Nat.eqb_eq in H1. apply Z.leb_le in H2, H3. apply Z.eqb_eq in H4, H5, H6.
    destruct m as [dat idx ptr]. simpl in *.
    destruct ptr as [|s rest]; [simpl in H4; lia|].
    unfold znth in H5. simpl in H5. subst s.
    assert (Hlast : last rest 0 = Z.of_nat (length dat)).
    { rewrite <- H6. unfold znth. replace (Z.to_nat n_row) with (length rest) by (simpl in H4; lia).
      symmetry. apply nth_length_last. }
    pose proof (nondecreasing_bounds rest 0 H7) as Hb. rewrite Hlast in Hb.
    assert (Hle : forall {A} (l : list A), length l = length dat -> Forall (fun x => x <= Z.of_nat (length l)) (0 :: rest)).
    { intros A l Hl. rewrite Hl. eapply Forall_impl; [|exact Hb]. simpl. intros; lia. }
    destruct (rows_decomp idx rest 0 H7 ltac:(lia) (Hle _ idx H1)) as [O1 C1].
    destruct (rows_decomp dat rest 0 H7 ltac:(lia) (Hle _ dat eq_refl)) as [O2 C2].
    rewrite Hlast in C1, C2. rewrite <- H1 in C1. rewrite slice_full in C1. rewrite slice_full in C2.
    unfold rows_view. cbn [m_data m_indices m_indptr].
    pose proof (rows_of_lengths idx dat (0 :: rest) H1) as HL.
    destruct (concat_combine_rows _ _ HL) as [E1 [E2 E3]].
    split.
    - unfold csr_of_rows. rewrite E1, E2, C1, C2. f_equal.
      rewrite (offs_length_ext _ (rows_of idx (0 :: rest)) 0 E3). symmetry. exact O1.
    - rewrite map_length, combine_length, !rows_of_length. simpl length in *. lia.
  Qed.
End Decomp.

(* ====================================================================== csr_den = gden;  GCXS._prune *)
Fixpoint rn_go (r : Z) (l : list Z) : list Z :=
  match l with
  | a :: ((b :: _) as t) => repeat r (Z.to_nat (b - a)) ++ rn_go (r + 1) t
  | _ => []
  end.

Lemma row_numbers_rn indptr : row_numbers indptr = rn_go 0 indptr.
Proof. reflexivity. Qed.

Lemma rn_go_cons2 r a b t : rn_go r (a :: b :: t) = repeat r (Z.to_nat (b - a)) ++ rn_go (r + 1) (b :: t).
Proof. reflexivity. Qed.

Fixpoint tags {A} (r : Z) (R : list (list A)) : list Z :=
  match R with [] => [] | row :: R' => repeat r (length row) ++ tags (r + 1) R' end.

Lemma rn_offs {A} (R : list (list A)) : forall r s, rn_go r (offs s R) = tags r R.
Proof.
  induction R as [|row R IH]; intros r s; [reflexivity|].
  cbn [offs]. destruct (offs_head (s + Z.of_nat (length row)) R) as [t Ht]. rewrite Ht.
  rewrite rn_go_cons2, <- Ht, IH. cbn [tags]. f_equal. f_equal. lia.
Qed.

Lemma combine_app_eq {A B} (l1 l2 : list A) (m1 m2 : list B) : length l1 = length m1 ->
  combine (l1 ++ l2) (m1 ++ m2) = combine l1 m1 ++ combine l2 m2.
Proof. revert m1; induction l1 as [|x l1 IH]; intros [|y m1] H; simpl in *; try discriminate; [reflexivity|]. f_equal. apply IH. lia. Qed.

Section Bridge.
  Variable V : Type.
  Variable vzero : V.

  Fixpoint tag_rows (r : Z) (R : list (list (Z * V))) : list (Z * Z * V) :=
    match R with [] => [] | row :: R' => map (fun kv => (r, fst kv, snd kv)) row ++ tag_rows (r + 1) R' end.

  Lemma combine_tags (R : list (list (Z * V))) : forall r,
    combine (combine (tags r R) (map fst (concat R))) (map snd (concat R)) = tag_rows r R.
  Proof.
    induction R as [|row R IH]; intros r; [reflexivity|].
    cbn [tags concat tag_rows]. rewrite !map_app.
    rewrite combine_app_eq by (rewrite repeat_length, map_length; reflexivity).
    rewrite combine_app_eq by (rewrite combine_length, repeat_length, !map_length; lia).
    rewrite IH. f_equal. clear. induction row as [|[k v] row IHr]; simpl; [reflexivity|]. f_equal. exact IHr.
  Qed.

  Lemma cell_lookup_tag_rows (R : list (list (Z * V))) : forall r0 i k,
    cell_lookup V (tag_rows r0 R) i k
    = match (if i <? r0 then None else nth_error R (Z.to_nat (i - r0))) with
      | Some row => row_lookup row k | None => None end.
  Proof.
    induction R as [|row R IH]; intros r0 i k.
    - simpl. destruct (i <? r0); [reflexivity|]. destruct (Z.to_nat (i - r0)); reflexivity.
    - cbn [tag_rows]. rewrite cell_lookup_app, IH.
      change (map (fun kv => (r0, fst kv, snd kv)) row) with (tag_row V r0 row). rewrite cell_lookup_tag_row.
      destruct (Z.ltb_spec i r0) as [Hlt|Hge].
      + destruct (Z.ltb_spec i (r0 + 1)); [|lia]. destruct (Z.eqb_spec r0 i); [lia|reflexivity].
      + destruct (Z.eq_dec i r0) as [->|Hne].
        * destruct (Z.ltb_spec r0 (r0 + 1)); [|lia]. rewrite Z.eqb_refl, Z.sub_diag. reflexivity.
        * destruct (Z.ltb_spec i (r0 + 1)); [lia|]. destruct (Z.eqb_spec r0 i); [lia|].
          replace (Z.to_nat (i - r0)) with (S (Z.to_nat (i - (r0 + 1)))) by lia. cbn [nth_error].
          destruct (nth_error R (Z.to_nat (i - (r0 + 1)))) as [rw|]; [destruct (row_lookup rw k); reflexivity|reflexivity].
  Qed.

  Lemma lookup_cells (cells : list (Z * Z * V)) i k :
    lookup (map (fun t => ([fst (fst t); snd (fst t)], snd t)) cells) [i; k] = cell_lookup V cells i k.
  Proof.
    induction cells as [|[[r c] v] cells IH]; simpl; [reflexivity|]. rewrite IH.
    destruct (cell_lookup V cells i k); [reflexivity|]. rewrite andb_true_r. reflexivity.
  Qed.

  Lemma unpermute01 (r c : Z) : unpermute [0; 1] [r; c] = [r; c].
  Proof. reflexivity. Qed.

  (* the dense meaning Model/GCXS.v gives to a 2-d GCXS with compressed_axes = (0,) is csr_den *)
  Lemma gden_csr_of_rows n_row n_col (R : list (list (Z * V))) i k :
    Z.of_nat (length R) = n_row -> 0 <= n_col ->
    Forall (fun c => 0 <= c < n_col) (map fst (concat R)) -> 0 <= i < n_row ->
    gden (mkGCXS [n_row; n_col] [0] (map snd (concat R)) (map fst (concat R)) (offs 0 R) vzero) [i; k]
    = csr_den V vzero (csr_of_rows V R) i k.
  Proof.
    intros HR Hn Hrange Hi. unfold gden, den, gcxs_as_coo, entries. cbn [c_coords c_data c_fill g_shape g_data g_fill].
    unfold gcxs_coords. cbn [g_shape g_caxes g_indices g_indptr length].
    change (axis_order (Z.of_nat 2) [0]) with [0; 1].
    change (reordered_shape [n_row; n_col] [0]) with [n_row; n_col].
    change (col_size [n_row; n_col] [0]) with (n_col * 1).
    rewrite row_numbers_rn, rn_offs.
    assert (Ec : map (fun rc => unpermute [0; 1] (unravel [n_row; n_col] (fst rc * (n_col * 1) + snd rc)))
                     (combine (tags 0 R) (map fst (concat R)))
                 = map (fun rc => [fst rc; snd rc]) (combine (tags 0 R) (map fst (concat R)))).
    { apply map_ext_in. intros [r c] Hin. apply in_combine_r in Hin. rewrite Forall_forall in Hrange. specialize (Hrange c Hin).
      cbn [fst snd]. rewrite Z.mul_1_r, unravel2 by lia. apply unpermute01. }
    rewrite Ec.
    assert (Ee : combine (map (fun rc : Z * Z => [fst rc; snd rc]) (combine (tags 0 R) (map fst (concat R)))) (map snd (concat R))
                 = map (fun t => ([fst (fst t); snd (fst t)], snd t)) (tag_rows 0 R)).
    { rewrite <- combine_tags. generalize (combine (tags 0 R) (map fst (concat R))) as L. generalize (map snd (concat R)) as D.
      intros D L. revert D; induction L as [|[r c] L IHL]; intros [|v D]; simpl; try reflexivity. f_equal. apply IHL. }
    unfold idx in *. rewrite Ee. fold idx. rewrite lookup_cells, cell_lookup_tag_rows.
    destruct (Z.ltb_spec i 0); [lia|]. rewrite Z.sub_0_r.
    unfold csr_den. replace i with (Z.of_nat (Z.to_nat i)) at 2 by lia.
    rewrite csr_of_rows_row by lia. unfold row_get.
    rewrite (nth_error_nth' R [] (n := Z.to_nat i)) by lia. reflexivity.
  Qed.

  Theorem csr_den_gden_proof n_row n_col (m : csr V) i k :
    csr_wfb n_row n_col m = true -> 0 <= i < n_row ->
    gden (mkGCXS [n_row; n_col] [0] (m_data m) (m_indices m) (m_indptr m) vzero) [i; k] = csr_den V vzero m i k.
  Proof.
    intros Hwf Hi. destruct (csr_decomp V n_row n_col m Hwf) as [E HR].
    destruct (csr_wfb_facts V _ _ _ Hwf) as [_ [_ [Hn [_ [H5 _]]]]].
    rewrite E at 4. rewrite E in H5. unfold csr_of_rows in H5. simpl in H5.
    rewrite <- (gden_csr_of_rows n_row n_col (rows_view V m) i k HR Hn H5 Hi).
    rewrite E at 1 2 3. reflexivity.
  Qed.
End Bridge.

Section Prune.
  Variable V : Type.
  Variable vzero : V.
  Variable veqb : V -> V -> bool.
  Hypothesis veqb_zero : forall x, veqb x vzero = true -> x = vzero.

  Definition nzkv (kv : Z * V) : bool := negb (veqb (snd kv) vzero).

  Lemma filter_tag_rows (R : list (list (Z * V))) : forall r,
    filter (fun c : Z * Z * V => negb (veqb (snd c) vzero)) (tag_rows V r R) = tag_rows V r (map (filter nzkv) R).
  Proof.
    induction R as [|row R IH]; intros r; [reflexivity|].
    cbn [tag_rows map]. rewrite filter_app, IH. f_equal.
    clear. induction row as [|[k v] row IHr]; simpl; [reflexivity|]. unfold nzkv at 1. simpl.
    destruct (negb (veqb v vzero)); simpl; rewrite IHr; reflexivity.
  Qed.

  Lemma tag_rows_proj (R : list (list (Z * V))) : forall r,
    map snd (tag_rows V r R) = map snd (concat R)
    /\ map (fun c : Z * Z * V => snd (fst c)) (tag_rows V r R) = map fst (concat R).
  Proof.
    induction R as [|row R IH]; intros r; [split; reflexivity|].
    cbn [tag_rows concat]. rewrite !map_app. destruct (IH (r + 1)) as [I1 I2]. rewrite I1, I2.
    split; f_equal; rewrite map_map; reflexivity.
  Qed.

  Lemma count_tag_rows (R : list (list (Z * V))) : forall r0 r, r0 <= r ->
    length (filter (fun c : Z * Z * V => fst (fst c) <? r) (tag_rows V r0 R))
    = length (concat (firstn (Z.to_nat (r - r0)) R)).
  Proof.
    induction R as [|row R IH]; intros r0 r Hr; [destruct (Z.to_nat (r - r0)); reflexivity|].
    cbn [tag_rows]. rewrite filter_app, app_length.
    destruct (Z.eq_dec r r0) as [->|Hne].
    - rewrite Z.sub_diag. simpl firstn. simpl concat. simpl length.
      assert (E1 : filter (fun c : Z * Z * V => fst (fst c) <? r0) (map (fun kv => (r0, fst kv, snd kv)) row) = []).
      { clear. induction row as [|kv row IHr]; simpl; [reflexivity|]. rewrite Z.ltb_irrefl. exact IHr. }
      rewrite E1. simpl.
      assert (E2 : forall R' r1, r0 < r1 -> filter (fun c : Z * Z * V => fst (fst c) <? r0) (tag_rows V r1 R') = []).
      { induction R' as [|rw R' IHR]; intros r1 Hr1; [reflexivity|]. cbn [tag_rows]. rewrite filter_app, (IHR (r1 + 1)) by lia.
        rewrite app_nil_r. clear -Hr1. induction rw as [|kv rw IHr]; simpl; [reflexivity|].
        destruct (Z.ltb_spec r1 r0); [lia|exact IHr]. }
      rewrite E2 by lia. reflexivity.
    - replace (Z.to_nat (r - r0)) with (S (Z.to_nat (r - (r0 + 1)))) by lia. cbn [firstn concat].
      rewrite app_length, (IH (r0 + 1) r) by lia. f_equal.
      clear -Hr Hne. induction row as [|kv row IHr]; simpl; [reflexivity|].
      destruct (Z.ltb_spec r0 r); [|lia]. simpl. f_equal. exact IHr.
  Qed.

  Lemma offs_as_map {A} (R : list (list A)) : forall s,
    offs s R = map (fun t => s + Z.of_nat (length (concat (firstn t R)))) (seq 0 (S (length R))).
  Proof.
    induction R as [|row R IH]; intros s; [simpl; f_equal; lia|].
    cbn [offs]. rewrite IH. change (length (row :: R)) with (S (length R)).
    change (seq 0 (S (S (length R)))) with (0%nat :: seq 1 (S (length R))).
    cbn [map]. f_equal; [simpl; lia|].
    rewrite <- seq_shift, map_map. apply map_ext. intros t. cbn [firstn concat]. rewrite app_length. lia.
  Qed.

  Lemma prune_csr_of_rows n_row (R : list (list (Z * V))) : Z.of_nat (length R) = n_row ->
    prune_csr V vzero veqb n_row (csr_of_rows V R) = csr_of_rows V (map (filter nzkv) R).
  Proof.
    intros HR. unfold prune_csr, csr_of_rows. cbn [m_data m_indices m_indptr].
    rewrite row_numbers_rn, rn_offs, combine_tags, filter_tag_rows.
    destruct (tag_rows_proj (map (filter nzkv) R) 0) as [P1 P2]. rewrite P1, P2. f_equal.
    rewrite offs_as_map, map_length. unfold zrange. rewrite map_map.
    replace (Z.to_nat (n_row + 1)) with (S (length R)) by lia.
    apply map_ext. intros t. rewrite count_tag_rows by lia. rewrite Z.sub_0_r, Nat2Z.id. lia.
  Qed.

  Lemma row_get_filter (row : list (Z * V)) k : NoDup (map fst row) ->
    row_get V vzero (filter nzkv row) k = row_get V vzero row k.
  Proof.
    intros Hnd. unfold row_get.
    assert (Hnd' : NoDup (map fst (filter nzkv row))).
    { clear -Hnd. induction row as [|[c v] row IH]; simpl in *; [constructor|].
      apply NoDup_cons_iff in Hnd. destruct Hnd as [Hc Hnd]. destruct (nzkv (c, v)); simpl; [|apply IH; exact Hnd].
      constructor; [|apply IH; exact Hnd]. intros Hin. apply Hc. apply in_map_iff in Hin. destruct Hin as [kv [E Hin]].
      apply filter_In in Hin. apply in_map_iff. exists kv. tauto. }
    destruct (row_lookup row k) as [v|] eqn:E.
    - apply (row_lookup_In V row k v Hnd) in E. destruct (nzkv (k, v)) eqn:En.
      + assert (In (k, v) (filter nzkv row)) by (apply filter_In; auto).
        apply (row_lookup_In V _ k v Hnd') in H. rewrite H. reflexivity.
      + unfold nzkv in En. simpl in En. apply negb_false_iff in En. apply veqb_zero in En. subst v.
        destruct (row_lookup (filter nzkv row) k) as [w|] eqn:E2; [|reflexivity].
        apply (row_lookup_In V _ k w Hnd') in E2. apply filter_In in E2. destruct E2 as [E2 Hw].
        assert (w = vzero); [|congruence].
        assert (Hl1 : row_lookup row k = Some w) by (apply (row_lookup_In V row k w Hnd); exact E2).
        assert (Hl2 : row_lookup row k = Some vzero) by (apply (row_lookup_In V row k vzero Hnd); exact E).
        congruence.
    - apply row_lookup_None in E.
      assert (E2 : row_lookup (filter nzkv row) k = None).
      { apply row_lookup_None. intros Hin. apply E. apply in_map_iff in Hin. destruct Hin as [kv [Ek Hin]].
        apply filter_In in Hin. apply in_map_iff. exists kv. tauto. }
      rewrite E2. reflexivity.
  Qed.

  (* GCXS._prune keeps the matrix well formed and its dense meaning *)
  Theorem prune_csr_correct_proof n_row n_col (m : csr V) :
    csr_wfb n_row n_col m = true ->
    csr_wfb n_row n_col (prune_csr V vzero veqb n_row m) = true
    /\ forall i k, 0 <= i < n_row -> csr_den V vzero (prune_csr V vzero veqb n_row m) i k = csr_den V vzero m i k.
  Proof.
    intros Hwf. destruct (csr_decomp V n_row n_col m Hwf) as [E HR].
    destruct (csr_wfb_facts V _ _ _ Hwf) as [H1 [_ [Hn [_ [H5 H6]]]]].
    set (R := rows_view V m) in *.
    assert (Hrow : forall i, 0 <= i < n_row -> nth (Z.to_nat i) R [] = row_pairs m i).
    { intros i Hi. transitivity (row_pairs (csr_of_rows V R) i); [|rewrite <- E; reflexivity].
      replace i with (Z.of_nat (Z.to_nat i)) at 2 by lia. symmetry. apply csr_of_rows_row. lia. }
    rewrite E, (prune_csr_of_rows n_row R HR). split.
    - apply csr_of_rows_wf; [rewrite map_length; exact HR|exact Hn|].
      intros r Hr. apply in_map_iff in Hr. destruct Hr as [row [<- Hrow']].
      destruct (In_nth R row [] Hrow') as [t [Ht Et]].
      assert (Hrt : row = row_pairs m (Z.of_nat t)) by (rewrite <- Et, <- (Hrow (Z.of_nat t)) by lia; rewrite Nat2Z.id; reflexivity).
      assert (Hsi : strictly_increasing (map fst row) = true).
      { rewrite Hrt, row_pairs_keys by assumption. apply H6. lia. }
      assert (Hfm : forall l : list (Z * V), StronglySorted Z.lt (map fst l) -> StronglySorted Z.lt (map fst (filter nzkv l))).
      { induction l as [|kv l IHl]; simpl; intros Hs; [constructor|].
        apply StronglySorted_inv in Hs. destruct Hs as [Hs Hall]. destruct (nzkv kv); simpl; [|apply IHl; exact Hs].
        constructor; [apply IHl; exact Hs|]. apply Forall_forall. intros x Hx. apply in_map_iff in Hx. destruct Hx as [kv' [<- Hx]].
        apply filter_In in Hx. rewrite Forall_forall in Hall. apply Hall. apply in_map. tauto. }
      split.
      + apply SS_lt_strictly_increasing, Hfm, strictly_increasing_SS, Hsi.
      + apply Forall_forall. intros c Hc. apply in_map_iff in Hc. destruct Hc as [kv [<- Hkv]]. apply filter_In in Hkv.
        destruct Hkv as [Hkv _]. rewrite Hrt in Hkv. rewrite Forall_forall in H5. apply H5. eapply row_pairs_in_indices. exact Hkv.
    - intros i k Hi. unfold csr_den.
      replace i with (Z.of_nat (Z.to_nat i)) by lia.
      rewrite !csr_of_rows_row by (try rewrite map_length; lia).
      rewrite (nth_indep _ [] (filter nzkv [])) by (rewrite map_length; lia). rewrite map_nth.
      apply row_get_filter. rewrite Hrow by lia. rewrite row_pairs_keys by assumption.
      apply SS_lt_NoDup, strictly_increasing_SS, H6. lia.
  Qed.
End Prune.

(* ====================================================================== _einsum_single *)
Lemma first_labels_In l : forall seen lab, In lab (first_labels l seen) <-> In lab l /\ ~ In lab seen.
Proof.
  induction l as [|x l IH]; intros seen lab; simpl; [tauto|].
  destruct (mem_z x seen) eqn:E.
  - apply mem_z_In in E. rewrite IH. split; [tauto|]. intros [[->|H] Hn]; [contradiction|tauto].
  - assert (Hx : ~ In x seen) by (intros H; apply mem_z_In in H; congruence).
    simpl. rewrite IH. simpl. split.
    + intros [<-|[H1 H2]]; [tauto|]. split; [tauto|]. intros H; apply H2; right; exact H.
    + intros [[->|H1] H2]; [left; reflexivity|]. destruct (Z.eq_dec x lab) as [->|Hne]; [left; reflexivity|].
      right. split; [exact H1|]. intros [?|?]; [congruence|contradiction].
Qed.

Lemma positions_of_In lhs lab p : In p (positions_of lhs lab) <-> (p < length lhs)%nat /\ nth p lhs 0 = lab.
Proof. unfold positions_of. rewrite filter_In, in_seq, Z.eqb_eq. split; intros [H1 H2]; split; auto; lia. Qed.

Lemma sel_equiv lhs ix : es_selector lhs ix = es_consistent lhs ix.
Proof.
  apply eq_true_iff_eq. unfold es_selector, es_consistent, where_groups. split.
  - intros H. apply forallb_forall. intros p Hp. apply forallb_forall. intros q Hq.
    apply in_seq in Hp. apply in_seq in Hq.
    destruct (Z.eqb_spec (nth p lhs 0) (nth q lhs 0)) as [E|]; [|reflexivity]. simpl.
    set (lab := nth p lhs 0) in *.
    assert (Hlab : In lab (first_labels lhs [])).
    { apply first_labels_In. split; [apply nth_In; lia|tauto]. }
    rewrite forallb_forall in H. specialize (H (positions_of lhs lab) (in_map _ _ _ Hlab)).
    assert (Hpp : In p (positions_of lhs lab)) by (apply positions_of_In; split; [lia|reflexivity]).
    assert (Hqq : In q (positions_of lhs lab)) by (apply positions_of_In; split; [lia|symmetry; exact E]).
    destruct (positions_of lhs lab) as [|loc0 rlocs]; [contradiction|]. rewrite forallb_forall in H.
    assert (G : forall x, In x (loc0 :: rlocs) -> nth loc0 ix 0 = nth x ix 0).
    { intros x [<-|Hx]; [reflexivity|]. apply Z.eqb_eq. apply H. exact Hx. }
    apply Z.eqb_eq. rewrite <- (G p Hpp), <- (G q Hqq). reflexivity.
  - intros H. apply forallb_forall. intros locs Hl. apply in_map_iff in Hl. destruct Hl as [lab [<- Hlab]].
    destruct (positions_of lhs lab) as [|loc0 rlocs] eqn:Ep; [reflexivity|].
    apply forallb_forall. intros q Hq.
    assert (H0 : In loc0 (positions_of lhs lab)) by (rewrite Ep; left; reflexivity).
    assert (H1 : In q (positions_of lhs lab)) by (rewrite Ep; right; exact Hq).
    apply positions_of_In in H0. apply positions_of_In in H1. destruct H0 as [L0 E0]. destruct H1 as [L1 E1].
    rewrite forallb_forall in H. specialize (H loc0 ltac:(apply in_seq; lia)). rewrite forallb_forall in H.
    specialize (H q ltac:(apply in_seq; lia)). rewrite E0, E1, Z.eqb_refl in H. simpl in H. exact H.
Qed.

Section EinsumDen.
  Variable V : Type.
  Variable vzero : V.
  Variable vadd vmul : V -> V -> V.
  Hypothesis SR : comm_semiring vzero vadd vmul.

  Lemma vsum_single_out_idx (f : idx -> V) (x : V) k0 (L : list idx) :
    NoDup L -> In k0 L -> f k0 = vzero ->
    vsum V vzero vadd (map (fun k => if idx_eqb k k0 then x else f k) L) = vadd x (vsum V vzero vadd (map f L)).
  Proof.
    induction L as [|a L IH]; simpl; intros Hnd Hin Hf; [tauto|].
    apply NoDup_cons_iff in Hnd. destruct Hnd as [Ha Hnd].
    destruct (idx_eqb a k0) eqn:E.
    - apply idx_eqb_eq in E. subst a. rewrite Hf, (sr_add_0_l _ _ _ SR). f_equal. f_equal. apply map_ext_in. intros k Hk.
      destruct (idx_eqb k k0) eqn:E2; [apply idx_eqb_eq in E2; subst; contradiction|reflexivity].
    - destruct Hin as [->|Hin]; [rewrite idx_eqb_refl in E; discriminate|]. rewrite (IH Hnd Hin Hf).
      rewrite !(sr_add_assoc _ _ _ SR). f_equal. apply (sr_add_comm _ _ _ SR).
  Qed.

  (* summing G over the stored entries = summing over all index tuples *)
  Lemma vsum_sparse_idx (G : idx -> V -> V) (L : list idx) (es : list (idx * V)) :
    NoDup (map fst es) -> NoDup L -> (forall e, In e es -> In (fst e) L) ->
    vsum V vzero vadd (map (fun e => G (fst e) (snd e)) es)
    = vsum V vzero vadd (map (fun ix => match lookup es ix with Some v => G ix v | None => vzero end) L).
  Proof.
    induction es as [|[k v] es IH]; simpl; intros Hnd HL Hin.
    - clear -SR. induction L as [|a L IHL]; simpl; [reflexivity|]. rewrite (sr_add_0_l _ _ _ SR). exact IHL.
    - apply NoDup_cons_iff in Hnd. destruct Hnd as [Hk Hnd].
      rewrite (IH Hnd HL) by (intros e He; apply Hin; right; exact He).
      rewrite <- (vsum_single_out_idx (fun ix => match lookup es ix with Some w => G ix w | None => vzero end) (G k v) k L HL).
      + f_equal. apply map_ext. intros ix. destruct (idx_eqb ix k) eqn:E.
        * apply idx_eqb_eq in E. subst ix. rewrite (lookup_notin V es k Hk), idx_eqb_refl. reflexivity.
        * destruct (lookup es ix); [reflexivity|]. destruct (idx_eqb k ix) eqn:E2; [|reflexivity].
          apply idx_eqb_eq in E2. subst. rewrite idx_eqb_refl in E. discriminate.
      + apply (Hin (k, v)). left. reflexivity.
      + rewrite (lookup_notin V es k Hk). reflexivity.
  Qed.

  Lemma vsum_filter_indicator {A} (P : A -> bool) (g : A -> V) (l : list A) :
    vsum V vzero vadd (map g (filter P l)) = vsum V vzero vadd (map (fun x => if P x then g x else vzero) l).
  Proof.
    induction l as [|x l IH]; simpl; [reflexivity|]. destruct (P x); simpl; rewrite IH; [reflexivity|].
    symmetry. apply (sr_add_0_l _ _ _ SR).
  Qed.

  Theorem einsum_single_den_proof (lhs rhs : list Z) (c : coo V) :
    NoDup (c_coords c) -> Forall (in_range (c_shape c)) (c_coords c) -> length (c_data c) = length (c_coords c) ->
    c_fill c = vzero -> es_shape_ok lhs (c_shape c) = true ->
    exists r, einsum_single_m V lhs rhs c = Ok r
      /\ c_shape r = a_shape (np_einsum1 V vzero vadd lhs rhs (mkArr (c_shape c) (den c)))
      /\ forall o, den_sum V vzero vadd r o = a_at (np_einsum1 V vzero vadd lhs rhs (mkArr (c_shape c) (den c))) o.
  Proof.
    intros Hnd Hr Hlen Hfill Hsh. unfold einsum_single_m. rewrite Hsh. simpl negb. cbv iota.
    eexists. split; [reflexivity|]. split; [reflexivity|].
    intros o. unfold den_sum, entries at 1. cbn [c_coords c_data np_einsum1 a_at a_shape].
    set (es := entries c). set (kept := filter (fun e => es_selector lhs (fst e)) es).
    assert (Hes : map fst es = c_coords c) by (unfold es, entries; apply map_fst_combine; lia).
    (* left: the kept entries whose projection is o *)
    assert (E1 : combine (map (fun e => es_proj lhs rhs (fst e)) kept) (map snd kept)
                 = map (fun e => (es_proj lhs rhs (fst e), snd e)) kept).
    { clear. induction kept as [|e k IH]; simpl; [reflexivity|]. rewrite IH. reflexivity. }
    rewrite E1. rewrite (vsum_filter_indicator (fun e : idx * V => idx_eqb (fst e) o) snd).
    rewrite map_map. cbn [fst snd]. unfold kept.
    rewrite (vsum_filter_indicator (fun e : idx * V => es_selector lhs (fst e))
                                   (fun e => if idx_eqb (es_proj lhs rhs (fst e)) o then snd e else vzero)).
    rewrite (vsum_sparse_idx (fun ix v => if es_selector lhs ix then (if idx_eqb (es_proj lhs rhs ix) o then v else vzero) else vzero)
                             (all_indices (c_shape c)) es).
    - unfold sum_idx. f_equal. apply map_ext. intros ix. unfold den. fold es. rewrite sel_equiv, Hfill.
      destruct (lookup es ix); destruct (es_consistent lhs ix); destruct (idx_eqb (es_proj lhs rhs ix) o); reflexivity.
    - rewrite Hes. exact Hnd.
    - apply all_indices_NoDup.
    - intros e He. apply all_indices_In. rewrite Forall_forall in Hr. apply Hr. rewrite <- Hes. apply in_map. exact He.
  Qed.
End EinsumDen.

Example einsum_single_example :
  let c := mkCOO [2; 2; 3] [[0; 0; 1]; [0; 1; 2]; [1; 1; 0]; [1; 1; 2]] [5; 7; 11; 13] 0 in
  (* "iij->j": the trace over the first two axes *)
  match einsum_single_m Z [105; 105; 106] [106] c with
  | Ok r => c_shape r = [3] /\ map (den_sum Z 0 Z.add r) (all_indices [3]) = [11; 5; 13]
  | _ => False end.
Proof. vm_compute. split; reflexivity. Qed.

(* ====================================================================== matmul: the batch recursion *)
Theorem matmul_rec_den_proof (V : Type) (vzero : V) (vadd vmul : V -> V -> V) (n : Z) :
  forall (sha shb : shape) (a b : idx -> V) (ix : idx),
    length sha = length shb ->
    matmul_rec V vzero vadd vmul sha shb n a b ix = np_matmul_batch V vzero vadd vmul sha shb n a b ix.
Proof.
  induction sha as [|da sha IH]; intros [|db shb] a b ix Hl; simpl in Hl; try discriminate.
  - unfold np_matmul_batch. simpl. destruct ix as [|i [|k [|x r]]]; reflexivity.
  - cbn [matmul_rec]. destruct ix as [|i ix']; [reflexivity|].
    rewrite IH by lia. unfold np_matmul_batch. cbn [length firstn skipn combine map bcast_idx fst snd].
    fold (bcast_idx sha (firstn (length sha) ix')). fold (bcast_idx shb (firstn (length sha) ix')).
    destruct (skipn (length sha) ix') as [|i0 [|k0 [|x r]]]; reflexivity.
Qed.

(* ====================================================================== kron *)
Lemma kmix_div_mod (bs : shape) : forall ia ib, in_range bs ib -> length ia = length bs ->
  kdiv bs (kmix bs ia ib) = ia /\ kmod bs (kmix bs ia ib) = ib.
Proof.
  unfold kdiv, kmod, kmix. induction bs as [|d bs IH]; intros [|x ia] [|y ib] Hr Hl; simpl in *; try tauto; try discriminate; auto.
  destruct Hr as [Hy Hr]. destruct (IH ia ib Hr ltac:(lia)) as [I1 I2]. rewrite I1, I2.
  assert (Hq : (x * d + y) / d = x) by (rewrite Z.div_add_l by lia; rewrite (Z.div_small y) by lia; lia).
  assert (Hm : (x * d + y) mod d = y) by (rewrite Z.add_comm, Z.mod_add by lia; apply Z.mod_small; lia).
  rewrite Hq, Hm. auto.
Qed.

Lemma kmix_of_div_mod (bs : shape) : forall ix, length ix = length bs -> Forall (fun d => 0 < d) bs ->
  kmix bs (kdiv bs ix) (kmod bs ix) = ix.
Proof.
  unfold kdiv, kmod, kmix. induction bs as [|d bs IH]; intros [|x ix] Hl Hp; simpl in *; try discriminate; auto.
  pose proof (Forall_inv Hp) as Hd. pose proof (Forall_inv_tail Hp) as Hp'. simpl in Hd.
  rewrite (IH ix ltac:(lia) Hp'). f_equal. pose proof (Z.div_mod x d ltac:(lia)). lia.
Qed.

Lemma kmix_in_range (ash bs : shape) : forall ia ib, in_range ash ia -> in_range bs ib -> length ash = length bs ->
  in_range (map (fun p => fst p * snd p) (combine ash bs)) (kmix bs ia ib).
Proof.
  unfold kmix. revert bs. induction ash as [|da ash IH]; intros [|d bs] [|x ia] [|y ib] Ha Hb Hl; simpl in *; try tauto; try discriminate.
  destruct Ha as [Hx Ha]. destruct Hb as [Hy Hb]. split; [nia|]. apply IH; auto.
Qed.

Lemma div_mod_in_range (ash bs : shape) : forall ix, length ash = length bs ->
  shape_ok ash -> shape_ok bs -> in_range (map (fun p => fst p * snd p) (combine ash bs)) ix ->
  in_range ash (kdiv bs ix) /\ in_range bs (kmod bs ix) /\ Forall (fun d => 0 < d) bs /\ length ix = length bs.
Proof.
  unfold kdiv, kmod. revert bs. induction ash as [|da ash IH]; intros [|d bs] [|x ix] Hl Ha Hb Hr; simpl in *; try tauto; try discriminate.
  - repeat split; auto.
  - inversion Ha as [|? ? Hda Ha']; subst. inversion Hb as [|? ? Hd Hb']; subst. destruct Hr as [Hx Hr].
    destruct (IH bs ix ltac:(lia) Ha' Hb' Hr) as [I1 [I2 [I3 I4]]].
    assert (0 < d) by nia. assert (0 < da) by nia.
    repeat split; auto.
    + apply Z.div_pos; lia.
    + apply Z.div_lt_upper_bound; nia.
    + apply Z.mod_pos_bound; lia.
    + apply Z.mod_pos_bound; lia.
Qed.

Lemma NoDup_map_inj_in {A B} (f : A -> B) (l : list A) :
  (forall x y, In x l -> In y l -> f x = f y -> x = y) -> NoDup l -> NoDup (map f l).
Proof.
  induction l as [|a l IH]; simpl; intros Hinj Hnd; [constructor|].
  apply NoDup_cons_iff in Hnd. destruct Hnd as [Ha Hnd]. constructor.
  - intros Hin. apply in_map_iff in Hin. destruct Hin as [y [E Hy]]. apply Ha.
    rewrite (Hinj a y); auto.
  - apply IH; auto.
Qed.

Section KronDen.
  Variable V : Type.
  Variable vzero : V.
  Variable vadd vmul : V -> V -> V.
  Hypothesis SR : comm_semiring vzero vadd vmul.

  Definition canon (c : coo V) : Prop :=
    NoDup (c_coords c) /\ Forall (in_range (c_shape c)) (c_coords c) /\ length (c_data c) = length (c_coords c)
    /\ c_fill c = vzero /\ shape_ok (c_shape c).

  Lemma entries_keys (c : coo V) : length (c_data c) = length (c_coords c) -> map fst (entries c) = c_coords c.
  Proof. intros H. unfold entries. apply map_fst_combine. lia. Qed.

  Theorem kron_den_proof (a b : coo V) : canon a -> canon b -> length (c_shape a) = length (c_shape b) ->
    let r := kron_m V vmul a b in
    c_shape r = a_shape (np_kron V vmul (mkArr (c_shape a) (den a)) (mkArr (c_shape b) (den b)))
    /\ NoDup (c_coords r) /\ Forall (in_range (c_shape r)) (c_coords r)
    /\ forall ix, in_range (c_shape r) ix ->
         den r ix = a_at (np_kron V vmul (mkArr (c_shape a) (den a)) (mkArr (c_shape b) (den b))) ix.
  Proof.
    intros [Na [Ra [La [Fa Sa]]]] [Nb [Rb [Lb [Fb Sb]]]] Hlen r.
    set (bs := c_shape b). set (ash := c_shape a).
    set (es := flat_map (fun ea => map (fun eb => (kmix bs (fst ea) (fst eb), vmul (snd ea) (snd eb))) (entries b)) (entries a)).
    assert (Hka := entries_keys a La). assert (Hkb := entries_keys b Lb).
    assert (Hmem : forall k v, In (k, v) es <->
              exists ia va ib vb, In (ia, va) (entries a) /\ In (ib, vb) (entries b) /\ k = kmix bs ia ib /\ v = vmul va vb).
    { intros k v. unfold es. rewrite in_flat_map. split.
      - intros [[ia va] [Ha Hin]]. apply in_map_iff in Hin. destruct Hin as [[ib vb] [E Hb]]. inversion E; subst.
        exists ia, va, ib, vb. auto.
      - intros [ia [va [ib [vb [Ha [Hb [-> ->]]]]]]]. exists (ia, va). split; [exact Ha|].
        apply in_map_iff. exists (ib, vb). auto. }
    assert (Hin_a : forall ia va, In (ia, va) (entries a) -> in_range ash ia).
    { intros ia va H. rewrite Forall_forall in Ra. apply Ra. rewrite <- Hka. apply in_map_iff. exists (ia, va). auto. }
    assert (Hin_b : forall ib vb, In (ib, vb) (entries b) -> in_range bs ib).
    { intros ib vb H. rewrite Forall_forall in Rb. apply Rb. rewrite <- Hkb. apply in_map_iff. exists (ib, vb). auto. }
    assert (Hnd_es : NoDup (map fst es)).
    { unfold es. clear Hmem. assert (Hnda : NoDup (map fst (entries a))) by (rewrite Hka; exact Na).
      assert (Hndb : NoDup (map fst (entries b))) by (rewrite Hkb; exact Nb).
      revert Hnda Hin_a. generalize (entries a) as ea. induction ea as [|[ia va] ea IH]; intros Hnda Hina; simpl; [constructor|].
      apply NoDup_cons_iff in Hnda. destruct Hnda as [Hia Hnda]. rewrite map_app. apply NoDup_app_intro.
      - rewrite map_map. simpl. rewrite <- (map_map fst (fun ib => kmix bs ia ib)).
        apply NoDup_map_inj_in; [|exact Hndb].
        intros x y Hx Hy E. apply in_map_iff in Hx. destruct Hx as [[x' vx] [<- Hx]]. apply in_map_iff in Hy. destruct Hy as [[y' vy] [<- Hy]].
        simpl in *. pose proof (Hina ia va (or_introl eq_refl)) as Hra.
        destruct (kmix_div_mod bs ia x' (Hin_b _ _ Hx) ltac:(rewrite (in_range_length _ _ Hra); exact Hlen)) as [_ M1].
        destruct (kmix_div_mod bs ia y' (Hin_b _ _ Hy) ltac:(rewrite (in_range_length _ _ Hra); exact Hlen)) as [_ M2].
        rewrite <- M1, <- M2, E. reflexivity.
      - apply IH; [exact Hnda|intros; apply (Hina ia0 va0); right; assumption].
      - intros k Hk1 Hk2. rewrite map_map in Hk1. simpl in Hk1. apply in_map_iff in Hk1. destruct Hk1 as [[ib vb] [<- Hb1]].
        apply in_map_iff in Hk2. destruct Hk2 as [[k' v'] [Ek Hk2]]. simpl in Ek. subst k'.
        apply in_flat_map in Hk2. destruct Hk2 as [[ia2 va2] [Ha2 Hk2]]. apply in_map_iff in Hk2. destruct Hk2 as [[ib2 vb2] [E2 Hb2]].
        inversion E2 as [[E3 E4]]. simpl in *.
        pose proof (Hina ia va (or_introl eq_refl)) as Hra. pose proof (Hina ia2 va2 (or_intror Ha2)) as Hra2.
        destruct (kmix_div_mod bs ia ib (Hin_b _ _ Hb1) ltac:(rewrite (in_range_length _ _ Hra); exact Hlen)) as [D1 _].
        destruct (kmix_div_mod bs ia2 ib2 (Hin_b _ _ Hb2) ltac:(rewrite (in_range_length _ _ Hra2); exact Hlen)) as [D2 _].
        apply Hia. rewrite <- D1, <- E3, D2. apply in_map_iff. exists (ia2, va2). auto. }
    assert (Hcoords : c_coords r = map fst es) by reflexivity.
    split; [reflexivity|]. split; [rewrite Hcoords; exact Hnd_es|]. split.
    - rewrite Hcoords. apply Forall_forall. intros k Hk. apply in_map_iff in Hk. destruct Hk as [[k' v] [<- Hk]].
      apply Hmem in Hk. destruct Hk as [ia [va [ib [vb [Ha [Hb [-> _]]]]]]]. simpl.
      apply kmix_in_range; [apply (Hin_a _ _ Ha)|apply (Hin_b _ _ Hb)|exact Hlen].
    - intros ix Hix. cbn [np_kron a_at a_shape].
      destruct (div_mod_in_range ash bs ix Hlen Sa Sb Hix) as [Rd [Rm [Hpos Hlix]]].
      assert (Eent : entries r = es).
      { unfold entries, r, kron_m. cbn [c_coords c_data]. fold bs es. apply combine_fst_snd. }
      unfold den at 1. rewrite Eent. cbn [c_fill r kron_m].
      destruct (lookup (entries a) (kdiv bs ix)) as [va|] eqn:Ea; destruct (lookup (entries b) (kmod bs ix)) as [vb|] eqn:Eb.
      + apply (lookup_In V _ _ _ ltac:(rewrite Hka; exact Na)) in Ea. apply (lookup_In V _ _ _ ltac:(rewrite Hkb; exact Nb)) in Eb.
        assert (Hk : In (ix, vmul va vb) es).
        { apply Hmem. exists (kdiv bs ix), va, (kmod bs ix), vb. repeat split; auto. symmetry. apply kmix_of_div_mod; assumption. }
        apply (lookup_In V es ix _ Hnd_es) in Hk. rewrite Hk. unfold den. fold bs.
        rewrite (proj2 (lookup_In V _ _ va ltac:(rewrite Hka; exact Na)) Ea), (proj2 (lookup_In V _ _ vb ltac:(rewrite Hkb; exact Nb)) Eb). reflexivity.
      + assert (Hnone : lookup es ix = None).
        { destruct (lookup es ix) as [w|] eqn:El; [|reflexivity]. apply (lookup_In V es ix w Hnd_es) in El. apply Hmem in El.
          destruct El as [ia [va' [ib [vb' [Ha [Hb [E _]]]]]]].
          destruct (kmix_div_mod bs ia ib (Hin_b _ _ Hb) ltac:(rewrite (in_range_length _ _ (Hin_a _ _ Ha)); exact Hlen)) as [_ M].
          rewrite <- E in M. rewrite M in Eb. apply (lookup_In V _ _ _ ltac:(rewrite Hkb; exact Nb)) in Hb. congruence. }
        rewrite Hnone. unfold den. fold bs. rewrite Ea, Eb, Fa, Fb. rewrite (sr_mul_0_l _ _ _ SR). symmetry. apply (sr_mul_0_r _ _ _ SR).
      + assert (Hnone : lookup es ix = None).
        { destruct (lookup es ix) as [w|] eqn:El; [|reflexivity]. apply (lookup_In V es ix w Hnd_es) in El. apply Hmem in El.
          destruct El as [ia [va' [ib [vb' [Ha [Hb [E _]]]]]]].
          destruct (kmix_div_mod bs ia ib (Hin_b _ _ Hb) ltac:(rewrite (in_range_length _ _ (Hin_a _ _ Ha)); exact Hlen)) as [D _].
          rewrite <- E in D. rewrite D in Ea. apply (lookup_In V _ _ _ ltac:(rewrite Hka; exact Na)) in Ha. congruence. }
        rewrite Hnone. unfold den. fold bs. rewrite Ea, Eb, Fa, Fb. rewrite (sr_mul_0_l _ _ _ SR). symmetry. apply (sr_mul_0_l _ _ _ SR).
      + assert (Hnone : lookup es ix = None).
        { destruct (lookup es ix) as [w|] eqn:El; [|reflexivity]. apply (lookup_In V es ix w Hnd_es) in El. apply Hmem in El.
          destruct El as [ia [va' [ib [vb' [Ha [Hb [E _]]]]]]].
          destruct (kmix_div_mod bs ia ib (Hin_b _ _ Hb) ltac:(rewrite (in_range_length _ _ (Hin_a _ _ Ha)); exact Hlen)) as [D _].
          rewrite <- E in D. rewrite D in Ea. apply (lookup_In V _ _ _ ltac:(rewrite Hka; exact Na)) in Ha. congruence. }
        rewrite Hnone. unfold den. fold bs. rewrite Ea, Eb, Fa, Fb. rewrite !(sr_mul_0_l _ _ _ SR). reflexivity.
  Qed.
End KronDen.

Example kron_example :
  let a := mkCOO [2; 2] [[0; 0]; [1; 1]] [2; 3] 0 in
  let b := mkCOO [1; 2] [[0; 1]] [5] 0 in
  kron_m Z Z.mul a b = mkCOO [2; 4] [[0; 1]; [1; 3]] [10; 15] 0 /\ canon Z 0 a /\ canon Z 0 b.
Proof.
  split; [vm_compute; reflexivity|]. unfold canon. simpl.
  repeat split; repeat constructor; simpl; try lia; intuition congruence.
Qed.

(* ====================================================================== COO -> CSR row pointers of _dot *)
Definition prefix_count (rows : list Z) (r : Z) : Z := Z.of_nat (length (filter (fun x => x <? r) rows)).

Lemma prefix_count_step rows r :
  prefix_count rows (r + 1) = prefix_count rows r + Z.of_nat (length (filter (Z.eqb r) rows)).
Proof.
  unfold prefix_count. induction rows as [|x rows IH]; simpl; [reflexivity|].
  destruct (Z.ltb_spec x (r + 1)); destruct (Z.ltb_spec x r); destruct (Z.eqb_spec r x); try lia; simpl length; lia.
Qed.

Lemma cumsum_bincount rows : forall m s,
  cumsum (prefix_count rows (Z.of_nat s))
         (map (fun j => Z.of_nat (length (filter (Z.eqb (Z.of_nat j)) rows))) (seq s m))
  = map (fun j => prefix_count rows (Z.of_nat j + 1)) (seq s m).
Proof.
  induction m as [|m IH]; intros s; simpl; [reflexivity|].
  rewrite <- prefix_count_step. f_equal.
  replace (Z.of_nat s + 1) with (Z.of_nat (S s)) by lia. apply IH.
Qed.

(* with the dtypes the source uses (Gen/S_dot.v), the row pointers of both operands are the exact cumulative
   counts — whatever the width of the coordinate dtype and however many elements are stored *)
Theorem coo_indptr_exact_proof (bits : Z) (signed : bool) (rows : list Z) (n_row : Z) :
  0 <= n_row -> Forall (fun x => 0 <= x < n_row) rows ->
  let exact := map (prefix_count rows) (zrange (n_row + 1)) in
  coo_indptr_a bits signed rows n_row = exact /\ coo_indptr_b bits signed rows n_row = exact
  /\ znth exact 0 (-1) = 0 /\ znth exact n_row (-1) = Z.of_nat (length rows)
  /\ dot_index_arrays_wide = true.
Proof.
  intros Hn Hr exact.
  assert (P0 : prefix_count rows 0 = 0).
  { unfold prefix_count. rewrite Forall_forall in Hr. replace (filter (fun x => x <? 0) rows) with (@nil Z); [reflexivity|].
    symmetry. clear -Hr. induction rows as [|x rows IH]; simpl; [reflexivity|].
    destruct (Z.ltb_spec x 0); [specialize (Hr x (or_introl eq_refl)); lia|]. apply IH. intros y Hy. apply Hr. right. exact Hy. }
  assert (Pn : prefix_count rows n_row = Z.of_nat (length rows)).
  { unfold prefix_count. f_equal. f_equal. rewrite Forall_forall in Hr. clear -Hr. induction rows as [|x rows IH]; simpl; [reflexivity|].
    destruct (Z.ltb_spec x n_row); [|specialize (Hr x (or_introl eq_refl)); lia]. f_equal. apply IH. intros y Hy. apply Hr. right. exact Hy. }
  assert (E : coo_csr_indptr 0 bits signed rows n_row = exact).
  { unfold coo_csr_indptr, exact, bincount, zrange. simpl Z.eqb. cbv iota. rewrite map_id.
    replace (Z.to_nat (n_row + 1)) with (S (Z.to_nat n_row)) by lia.
    change (seq 0 (S (Z.to_nat n_row))) with (0%nat :: seq 1 (Z.to_nat n_row)).
    cbn [map]. change (Z.of_nat 0) with 0. rewrite P0. f_equal. rewrite <- seq_shift, !map_map.
    pose proof (cumsum_bincount rows (Z.to_nat n_row) 0) as C. change (Z.of_nat 0) with 0 in C. rewrite P0 in C.
    rewrite C. apply map_ext. intros j. f_equal. lia. }
  split; [exact E|]. split; [exact E|]. split.
  - unfold exact, znth, zrange. replace (Z.to_nat (n_row + 1)) with (S (Z.to_nat n_row)) by lia. simpl. exact P0.
  - split; [|reflexivity]. unfold exact, znth.
    rewrite (nth_indep _ (-1) (prefix_count rows 0)) by (rewrite map_length; unfold zrange; rewrite map_length, seq_length; lia).
    rewrite map_nth. rewrite nth_zrange by lia. exact Pn.
Qed.

(* ====================================================================== einsum: ellipsis letters *)
(* a term whose ellipsis covers k <= longest axes gets the LAST k letters of the output's ellipsis: the shorter
   ellipsis is lined up with the trailing axes of the longer one, as NumPy broadcasts *)
Theorem einsum_ellipsis_aligned_proof (pool : list Z) (k longest : nat) :
  (k <= longest)%nat -> (longest <= length pool)%nat ->
  es_rep_letters pool k = skipn (longest - k) (es_out_letters pool longest)
  /\ length (es_out_letters pool longest) = longest.
Proof.
  intros Hk Hl. unfold es_rep_letters, es_out_letters, take_letters, s_es_rep_from_end, s_es_out_from_end.
  destruct longest as [|L].
  - replace k with 0%nat by lia. split; reflexivity.
  - split.
    + destruct k as [|k'].
      * rewrite Nat.sub_0_r. symmetry. replace (S L) with (length (skipn (length pool - S L) pool)) at 1 by (rewrite skipn_length; lia).
        apply skipn_all.
      * rewrite skipn_add. f_equal. lia.
    + rewrite skipn_length. lia.
Qed.

(* ====================================================================== non-vacuity *)
(* the hypotheses of the theorems above hold of concrete non-trivial operands over Z *)
Definition exA : csr Z := mkCSR [1; 2; 3] [0; 1; 2] [0; 2; 3; 3].           (* 3 x 3, one empty row *)
Definition exB : csr Z := mkCSR [1; 1; 1; 1; 2; 5] [1; 2; 0; 1; 2; 3] [0; 2; 4; 6].   (* 3 x 4 *)

Example spgemm_example :
  csr_wfb 3 3 exA = true /\ csr_wfb 3 4 exB = true /\
  dot_csr_csr Z 0 Z.add Z.mul 3 4 exA exB = KOk (mkCSR [2; 3; 1; 6; 15] [0; 1; 2; 2; 3] [0; 3; 5; 5]) /\
  csr_csr_count_nnz 3 4 (m_indices exA) (m_indices exB) (m_indptr exA) (m_indptr exB) = 5 /\
  np_matmul2 Z 0 Z.add Z.mul 3 (csr_den Z 0 exA) (csr_den Z 0 exB) 0 1 = 3.
Proof. vm_compute. repeat split; reflexivity. Qed.

(* cancellation: the stored product entry is an explicit zero, which GCXS(..., prune=True) removes *)
Example spgemm_cancel_example :
  let a := mkCSR [2; -3] [0; 1] [0; 2] in
  let b := mkCSR [3; 2] [0; 0] [0; 1; 2] in
  csr_wfb 1 2 a = true /\ csr_wfb 2 1 b = true /\
  dot_csr_csr Z 0 Z.add Z.mul 1 1 a b = KOk (mkCSR [0] [0] [0; 1]) /\
  prune_csr Z 0 Z.eqb 1 (mkCSR [0] [0] [0; 1]) = mkCSR [] [] [0; 0].
Proof. vm_compute. repeat split; reflexivity. Qed.

(* zero extents: no columns in the result / no rows / empty inner extent *)
Example spgemm_zero_extent_example :
  dot_csr_csr Z 0 Z.add Z.mul 2 0 (mkCSR [1] [0] [0; 1; 1]) (mkCSR [] [] [0; 0]) = KOk (mkCSR [] [] [0; 0; 0]) /\
  csr_wfb 2 1 (mkCSR [1] [0] [0; 1; 1]) = true /\ csr_wfb 1 0 (mkCSR (V:=Z) [] [] [0; 0]) = true /\
  dot_csr_csr Z 0 Z.add Z.mul 0 3 (mkCSR [] [] [0]) (mkCSR [] [] [0; 0; 0]) = KOk (mkCSR [] [] [0]) /\
  dot_csr_csr Z 0 Z.add Z.mul 2 3 (mkCSR [] [] [0; 0; 0]) (mkCSR [] [] [0]) = KOk (mkCSR [] [] [0; 0; 0]).
Proof. vm_compute. repeat split; reflexivity. Qed.

(* _dot_coo_ndarray on a matrix with stored entries and an output without columns returns at once *)
Example dot_coo_ndarray_example :
  (exists o, dot_coo_ndarray Z 0 Z.add Z.mul 3 [0; 0; 1] [0; 1; 2] [1; 2; 3] (fun j c => c + j) 0 = KOk o) /\
  match dot_coo_ndarray Z 0 Z.add Z.mul 3 [0; 0; 1] [0; 1; 2] [1; 2; 3] (fun j c => c + j) 2 with
  | KOk o => tab2 Z 2 2 o = [2; 5; 6; 9] | _ => False end.
Proof. split; [eexists; vm_compute; reflexivity|vm_compute; reflexivity]. Qed.

Example dot_dispatch_example :
  dot_dispatch false KCoo (KGcxs true) RNone = Some (KerCsrCsr, OGcxs false) /\
  dot_dispatch true (KGcxs true) KNd RCoo = Some (KerCscNdSparse, OCoo) /\
  dot_dispatch false KNd KCoo RGcxs = Some (KerNdCooSparse, OGcxsAuto).
Proof. repeat split; reflexivity. Qed.

Example dot_1d_example :
  dot_1d Z 0 Z.add Z.mul [1; 2; 3] [4; 5; 6] = Ok 32 /\ dot_1d Z 0 Z.add Z.mul [1] [1; 2; 3; 4; 5] = Raise ValueError.
Proof. split; vm_compute; reflexivity. Qed.

Example tensordot_example :
  let a := mkArr [2; 3] (fun ix => match ix with [i; j] => 3 * i + j + 1 | _ => 0 end) in
  let b := mkArr [3; 2] (fun ix => match ix with [j; k] => 2 * j + k + 1 | _ => 0 end) in
  Forall2 (axis_pair_ok [2; 3] [3; 2]) [-1] [0] /\
  match tensordot_m Z 0 Z.add Z.mul a b [-1] [0] with
  | Ok r => a_shape r = [2; 2] /\ map (a_at r) (all_indices [2; 2]) = [22; 28; 49; 64]
  | _ => False end.
Proof. split; [repeat constructor; vm_compute; congruence|vm_compute; split; reflexivity]. Qed.

(* csc @ csc: a = [[1,0],[2,3]] and b = [[0,4],[5,0]] as CSC triples; a @ b = [[0,4],[15,8]], returned as the
   CSC triple (columns [15] at row 1, [4,8] at rows 0,1) *)
Example spgemm_csc_example :
  let ac := mkCSR [1; 2; 3] [0; 1; 1] [0; 2; 3] in
  let bc := mkCSR [5; 4] [1; 0] [0; 1; 2] in
  csr_wfb 2 2 ac = true /\ csr_wfb 2 2 bc = true /\
  dot_csr_csr Z 0 Z.add Z.mul 2 2 bc ac = KOk (mkCSR [15; 4; 8] [1; 0; 1] [0; 1; 3]).
Proof. vm_compute. repeat split; reflexivity. Qed.

Example matmul_route_example :
  matmul_route 3 2 6 1 = Some MmDot /\ matmul_route 2 3 2 2 = Some MmDotMoveAxis /\ matmul_route 1 4 1 6 = Some MmDotVec /\
  matmul_route 3 3 1 2 = Some MmSqueezeA /\ matmul_route 4 3 6 1 = Some MmSqueezeB /\ matmul_route 3 3 6 2 = Some MmBatch.
Proof. vm_compute. repeat split; reflexivity. Qed.

Example spcoo_example :
  dot_coo_coo Z 0 Z.add Z.mul 3 4 exA exB = KOk ([0; 0; 0; 1; 1], [0; 2; 1; 3; 2], [2; 1; 3; 15; 6]) /\
  coo_cells_den Z 0 [0; 0; 0; 1; 1] [0; 2; 1; 3; 2] [2; 1; 3; 15; 6] 1 3 = 15.
Proof. vm_compute. split; reflexivity. Qed.

Example dot_coo_ndarray_den_example :
  NoDup (combine [0; 0; 1] [0; 1; 2]) /\ Forall (fun c => 0 <= c < 3) [0; 1; 2] /\
  np_matmul2 Z 0 Z.add Z.mul 3 (coo_cells_den Z 0 [0; 0; 1] [0; 1; 2] [1; 2; 3]) (fun c j => c + j) 1 1 = 9.
Proof.
  split; [repeat constructor; simpl; intuition congruence|]. split; [repeat constructor; lia|vm_compute; reflexivity].
Qed.

(* the two inputs on which the kernel used to fail (cancellation; unsorted positions): [[-3,-2,1],[1,3,-2]] and
   [[0,-3,0],[0,0,0],[0,2,0]] in CSC form *)
Example csc_ndarray_example :
  let ac := mkCSR [-3; 1; -2; 3; 1; -2] [0; 1; 0; 1; 0; 1] [0; 2; 4; 6] in
  let bd := fun j i => nth (Z.to_nat (j * 3 + i)) [0; 1; 2; 0; -3; 2; 0; -3; -1] 0 in
  let a2 := mkCSR [-3; 2] [0; 2] [0; 0; 2; 2] in
  let b2 := fun j i => nth (Z.to_nat (j * 2 + i)) [2; 2; 2; 1; 3; 3] 0 in
  csr_wfb 3 2 ac = true /\ csr_wfb 3 3 a2 = true /\
  dot_csc_ndarray_sparse Z 0 Z.add Z.mul Z.eqb 2 3 3 ac bd = KOk (mkCSR [0; -2; -11; 10] [0; 1; 0; 1] [0; 0; 2; 4]) /\
  dot_csc_ndarray_sparse Z 0 Z.add Z.mul Z.eqb 3 3 2 a2 b2 = KOk (mkCSR [-6; 4; -3; 2] [0; 2; 0; 2] [0; 2; 4]).
Proof. vm_compute. repeat split; reflexivity. Qed.

(* an int8 coordinate dtype and 200 stored elements in 3 rows: the exact pointers exceed 127; allocated in the
   coordinate dtype (code 1) they would wrap *)
Example coo_indptr_example :
  let rows := repeat 0 70 ++ repeat 1 70 ++ repeat 2 60 in
  coo_indptr_a 8 true rows 3 = [0; 70; 140; 200] /\ coo_csr_indptr 1 8 true rows 3 = [0; 70; -116; -56].
Proof. vm_compute. split; reflexivity. Qed.
