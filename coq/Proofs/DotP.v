(* Proofs/DotP.v — lemmas about Model/Dot.v: the Gustavson kernel _dot_csr_csr computes the matrix
   product (spgemm_den), its pre-count is exact (count_nnz_exact), its rows come out sorted
   (spgemm_rows_sorted), _dot_coo_ndarray terminates, the _dot dispatch is total. *)
From Coq Require Import ZArith List Bool Lia Sorting.Sorted Sorting.Permutation.
From Verif Require Import Py PyExt Shape COO GCXS G_dot S_dot NpDot Dot.
Import ListNotations.
Open Scope Z_scope.

(* ====================================================================== lists as arrays *)
Lemma set_nth_length {A} (l : list A) n v : length (set_nth l n v) = length l.
Proof. revert n; induction l as [|x l IH]; intros [|n]; simpl; auto. Qed.

Lemma nth_set_nth_eq {A} (l : list A) n v d : (n < length l)%nat -> nth n (set_nth l n v) d = v.
Proof. revert n; induction l as [|x l IH]; intros [|n]; simpl; intros H; try lia; auto. apply IH. lia. Qed.

Lemma nth_set_nth_neq {A} (l : list A) n m v d : n <> m -> nth m (set_nth l n v) d = nth m l d.
Proof.
  revert n m; induction l as [|x l IH]; intros [|n] [|m]; simpl; intros H; try congruence; auto.
Qed.

Lemma wr_length {A} (l : list A) i v : length (wr l i v) = length l.
Proof. unfold wr. destruct (i <? 0); [reflexivity|apply set_nth_length]. Qed.

Lemma znth_wr_eq {A} (l : list A) i v d : 0 <= i < Z.of_nat (length l) -> znth (wr l i v) i d = v.
Proof.
  intros H. unfold wr, znth. destruct (Z.ltb_spec i 0); [lia|]. apply nth_set_nth_eq. lia.
Qed.

Lemma znth_wr_neq {A} (l : list A) i j v d : 0 <= i -> 0 <= j -> i <> j -> znth (wr l i v) j d = znth l j d.
Proof.
  intros Hi Hj H. unfold wr, znth. destruct (Z.ltb_spec i 0); [lia|]. apply nth_set_nth_neq. lia.
Qed.

Lemma nth_repeat_lt' {A} (x : A) n i d : (i < n)%nat -> nth i (repeat x n) d = x.
Proof. revert i; induction n; intros [|i] H; simpl; try lia; auto. apply IHn. lia. Qed.

Lemma znth_repeat {A} (x : A) n i d : 0 <= i < Z.of_nat n -> znth (repeat x n) i d = x.
Proof. intros H. unfold znth. apply nth_repeat_lt'. lia. Qed.

Lemma zrange_length n : 0 <= n -> Z.of_nat (length (zrange n)) = n.
Proof. intros H. unfold zrange. rewrite map_length, seq_length. lia. Qed.

Lemma zrange_NoDup n : NoDup (zrange n).
Proof.
  unfold zrange. apply FinFun.Injective_map_NoDup; [|apply seq_NoDup].
  intros a b H. lia.
Qed.

Lemma combine_fst_snd {A B} (l : list (A * B)) : combine (map fst l) (map snd l) = l.
Proof. induction l as [|[a b] l IH]; simpl; congruence. Qed.

Lemma map_fst_combine {A B} (l1 : list A) (l2 : list B) :
  length l1 = length l2 -> map fst (combine l1 l2) = l1.
Proof. revert l2; induction l1; intros [|b l2]; simpl; try discriminate; auto. intros H. f_equal. apply IHl1. lia. Qed.

Lemma slice_length_eq {A B} (l1 : list A) (l2 : list B) lo hi :
  length l1 = length l2 -> length (slice_list l1 lo hi) = length (slice_list l2 lo hi).
Proof. intros H. unfold slice_list. rewrite !firstn_length, !skipn_length. lia. Qed.

Lemma firstn_In' {A} (l : list A) n x : In x (firstn n l) -> In x l.
Proof. revert n; induction l as [|a l IH]; intros [|n]; simpl; try tauto. intros [->|H]; eauto. Qed.

Lemma slice_In {A} (l : list A) lo hi x : In x (slice_list l lo hi) -> In x l.
Proof.
  unfold slice_list. intros H. apply firstn_In' in H.
  rewrite <- (firstn_skipn (Z.to_nat lo) l). apply in_or_app. right. exact H.
Qed.

(* ====================================================================== rows of a CSR triple *)
(* offsets of consecutive rows starting at s *)
Fixpoint offs {A} (s : Z) (rows : list (list A)) : list Z :=
  match rows with
  | [] => [s]
  | r :: rs => s :: offs (s + Z.of_nat (length r)) rs
  end.

Lemma offs_length {A} s (rows : list (list A)) : length (offs s rows) = S (length rows).
Proof. revert s; induction rows; intros s; simpl; auto. Qed.

Lemma offs_app {A} s (rows : list (list A)) r :
  offs s (rows ++ [r]) = offs s rows ++ [s + Z.of_nat (length (concat rows)) + Z.of_nat (length r)].
Proof.
  revert s; induction rows as [|x rows IH]; intros s; simpl.
  - f_equal. f_equal. lia.
  - f_equal. rewrite IH. f_equal. f_equal. rewrite app_length. lia.
Qed.

Lemma offs_map {A B} (f : A -> B) s (rows : list (list A)) : offs s (map (map f) rows) = offs s rows.
Proof. revert s; induction rows; intros s; simpl; auto. rewrite map_length, IHrows. reflexivity. Qed.

Lemma offs_head {A} s (rows : list (list A)) : exists t, offs s rows = s :: t.
Proof. destruct rows; simpl; eauto. Qed.

Lemma slice_app_mid {A} (pre r post : list A) :
  slice_list (pre ++ r ++ post) (Z.of_nat (length pre)) (Z.of_nat (length pre) + Z.of_nat (length r)) = r.
Proof.
  unfold slice_list. rewrite Nat2Z.id.
  replace (Z.to_nat (Z.of_nat (length pre) + Z.of_nat (length r) - Z.of_nat (length pre))) with (length r) by lia.
  rewrite skipn_app, skipn_all, Nat.sub_diag. simpl.
  rewrite firstn_app, firstn_all, Nat.sub_diag. simpl. apply app_nil_r.
Qed.

Lemma rows_of_concat_pre {A} (pre : list A) (rows : list (list A)) :
  rows_of (pre ++ concat rows) (offs (Z.of_nat (length pre)) rows) = rows.
Proof.
  revert pre; induction rows as [|r rs IH]; intros pre; simpl; [reflexivity|].
  destruct (offs_head (Z.of_nat (length pre) + Z.of_nat (length r)) rs) as [t Ht].
  rewrite Ht. rewrite <- Ht. f_equal.
  - apply slice_app_mid.
  - rewrite app_assoc. replace (Z.of_nat (length pre) + Z.of_nat (length r)) with (Z.of_nat (length (pre ++ r))).
    + apply IH.
    + rewrite app_length. lia.
Qed.

Lemma rows_of_concat {A} (rows : list (list A)) : rows_of (concat rows) (offs 0 rows) = rows.
Proof. apply (rows_of_concat_pre [] rows). Qed.

Lemma rows_of_cons2 {A} (l : list A) a b t : rows_of l (a :: b :: t) = slice_list l a b :: rows_of l (b :: t).
Proof. reflexivity. Qed.

Lemma rows_of_nth {A} (l : list A) (indptr : list Z) (i : nat) :
  (S i < length indptr)%nat ->
  nth i (rows_of l indptr) [] = slice_list l (nth i indptr 0) (nth (S i) indptr 0).
Proof.
  revert i; induction indptr as [|a t IH]; intros i H; simpl in H; [lia|].
  destruct t as [|b t']; [simpl in H; lia|].
  rewrite rows_of_cons2. destruct i as [|i]; [reflexivity|].
  cbn [nth]. rewrite IH by (simpl in *; lia). reflexivity.
Qed.

Lemma rows_of_length {A} (l : list A) (indptr : list Z) : length (rows_of l indptr) = pred (length indptr).
Proof.
  induction indptr as [|a t IH]; [reflexivity|]. destruct t as [|b t']; [reflexivity|].
  rewrite rows_of_cons2. cbn [length]. rewrite IH. reflexivity.
Qed.

Lemma offs_last {A} s (rows : list (list A)) :
  nth (length rows) (offs s rows) 0 = s + Z.of_nat (length (concat rows)).
Proof.
  revert s; induction rows as [|r rs IH]; intros s; simpl; [lia|]. rewrite IH, app_length. lia.
Qed.

Lemma offs_nondecreasing {A} s (rows : list (list A)) : nondecreasing (offs s rows) = true.
Proof.
  revert s; induction rows as [|r rs IH]; intros s; [reflexivity|].
  simpl offs. destruct (offs_head (s + Z.of_nat (length r)) rs) as [t Ht].
  specialize (IH (s + Z.of_nat (length r))). rewrite Ht in *.
  simpl. rewrite andb_true_iff. split; [apply Z.leb_le; lia|exact IH].
Qed.

(* ====================================================================== sorting of a row *)
Section Sorting.
  Variable V : Type.
  Definition key_le (a b : Z * V) : Prop := fst a <= fst b.

  Lemma ins_cell_perm (c : Z * V) l : Permutation (ins_cell V c l) (c :: l).
  Proof.
    induction l as [|d r IH]; simpl; [reflexivity|].
    destruct (fst c <=? fst d); [reflexivity|].
    rewrite IH. apply perm_swap.
  Qed.

  Lemma sort_cells_perm l : Permutation (sort_cells V l) l.
  Proof. induction l as [|c l IH]; simpl; [reflexivity|]. rewrite ins_cell_perm. constructor. exact IH. Qed.

  Lemma ins_cell_sorted c l : StronglySorted key_le l -> StronglySorted key_le (ins_cell V c l).
  Proof.
    induction 1 as [|d r Hs IH Hall]; simpl; [repeat constructor|].
    destruct (Z.leb_spec (fst c) (fst d)).
    - constructor; [constructor; assumption|]. constructor; [exact H|].
      eapply Forall_impl; [|exact Hall]. unfold key_le. intros; lia.
    - constructor; [exact IH|].
      assert (Hp := ins_cell_perm c r). apply Permutation_sym in Hp.
      eapply Permutation_Forall; [exact Hp|]. constructor; [unfold key_le; lia|exact Hall].
  Qed.

  Lemma sort_cells_sorted l : StronglySorted key_le (sort_cells V l).
  Proof. induction l; simpl; [constructor|apply ins_cell_sorted; assumption]. Qed.

  Lemma sorted_nodup_strict (l : list (Z * V)) :
    StronglySorted key_le l -> NoDup (map fst l) -> StronglySorted Z.lt (map fst l).
  Proof.
    induction 1 as [|d r Hs IH Hall]; simpl; intros Hnd; [constructor|].
    inversion Hnd as [|? ? Hni Hnd']; subst. constructor; [auto|].
    apply Forall_forall. intros x Hx. apply in_map_iff in Hx. destruct Hx as [e [<- He]].
    rewrite Forall_forall in Hall. specialize (Hall _ He). unfold key_le in Hall.
    assert (fst d <> fst e) by (intros E; apply Hni; rewrite E; apply in_map; exact He). lia.
  Qed.
End Sorting.

Lemma SS_lt_strictly_increasing l : StronglySorted Z.lt l -> strictly_increasing l = true.
Proof.
  induction 1 as [|a r Hs IH Hall]; [reflexivity|].
  destruct r as [|b r']; [reflexivity|]. simpl. rewrite andb_true_iff. split; [|exact IH].
  apply Z.ltb_lt. inversion Hall; assumption.
Qed.

Lemma strictly_increasing_SS l : strictly_increasing l = true -> StronglySorted Z.lt l.
Proof.
  induction l as [|a r IH]; intros H; [constructor|].
  destruct r as [|b r']; [repeat constructor|].
  simpl in H. apply andb_true_iff in H. destruct H as [Hab Hr]. apply Z.ltb_lt in Hab.
  specialize (IH Hr). constructor; [exact IH|].
  inversion IH as [|? ? Hs Hall]; subst. constructor; [exact Hab|].
  eapply Forall_impl; [|exact Hall]. intros; lia.
Qed.

Lemma SS_lt_NoDup l : StronglySorted Z.lt l -> NoDup l.
Proof.
  induction 1 as [|a r Hs IH Hall]; constructor; [|exact IH].
  intros Hin. rewrite Forall_forall in Hall. specialize (Hall _ Hin). lia.
Qed.

(* ====================================================================== first-touch lists *)
Definition touch (l : list Z) (k : Z) : list Z := if mem_z k l then l else k :: l.
Definition touched (ks : list Z) : list Z := fold_left touch ks [].

Lemma mem_z_In k l : mem_z k l = true <-> In k l.
Proof.
  unfold mem_z. rewrite existsb_exists. split.
  - intros [x [Hx E]]. apply Z.eqb_eq in E. subst. exact Hx.
  - intros H. exists k. split; [exact H|apply Z.eqb_refl].
Qed.

Lemma touch_In l k x : In x (touch l k) <-> x = k \/ In x l.
Proof.
  unfold touch. destruct (mem_z k l) eqn:E.
  - apply mem_z_In in E. split; [tauto|]. intros [->|H]; assumption.
  - simpl. split; intros [H|H]; auto.
Qed.

Lemma touch_NoDup l k : NoDup l -> NoDup (touch l k).
Proof.
  intros H. unfold touch. destruct (mem_z k l) eqn:E; [exact H|].
  constructor; [|exact H]. intros Hin. apply mem_z_In in Hin. congruence.
Qed.

Lemma fold_touch_In ks l x : In x (fold_left touch ks l) <-> In x ks \/ In x l.
Proof.
  revert l; induction ks as [|k ks IH]; intros l; simpl; [tauto|].
  rewrite IH, touch_In. split; intros H; intuition auto.
Qed.

Lemma fold_touch_NoDup ks l : NoDup l -> NoDup (fold_left touch ks l).
Proof. revert l; induction ks; intros l H; simpl; auto using touch_NoDup. Qed.

Lemma touched_In ks x : In x (touched ks) <-> In x ks.
Proof. unfold touched. rewrite fold_touch_In. simpl. tauto. Qed.

Lemma touched_NoDup ks : NoDup (touched ks).
Proof. apply fold_touch_NoDup. constructor. Qed.

(* ====================================================================== the linked list *)
Fixpoint chain (nx : list Z) (head : Z) (l : list Z) : Prop :=
  match l with
  | [] => head = -2
  | k :: l' => head = k /\ chain nx (znth nx k 0) l'
  end.

Lemma chain_wr_notin nx head l k v :
  0 <= k -> Forall (fun x => 0 <= x) l -> ~ In k l -> chain nx head l -> chain (wr nx k v) head l.
Proof.
  intros Hk. revert head. induction l as [|x l IH]; intros head Hr Hn Hc; simpl in *; [exact Hc|].
  destruct Hc as [-> Hc]. inversion Hr; subst. split; [reflexivity|].
  rewrite znth_wr_neq by (try lia; intros E; apply Hn; left; congruence).
  apply IH; auto.
Qed.

Record LL (n : Z) (nx : list Z) (head len : Z) (l : list Z) : Prop := {
  ll_len_nx : Z.of_nat (length nx) = n;
  ll_len : len = Z.of_nat (length l);
  ll_chain : chain nx head l;
  ll_nodup : NoDup l;
  ll_range : Forall (fun k => 0 <= k < n) l;
  ll_mem : forall k, 0 <= k < n -> (In k l <-> znth nx k 0 <> -1)
}.

Lemma chain_head_cases nx head l : chain nx head l -> Forall (fun k => 0 <= k) l -> head = -2 \/ 0 <= head.
Proof. destruct l; simpl; [auto|]. intros [-> _] H. inversion H; auto. Qed.

Section Kernel.
  Variable V : Type.
  Variable vzero : V.
  Variable vadd vmul : V -> V -> V.
  Hypothesis SR : comm_semiring vzero vadd vmul.

  Let add_0_l := sr_add_0_l _ _ _ SR.
  Let add_comm := sr_add_comm _ _ _ SR.
  Let add_assoc := sr_add_assoc _ _ _ SR.
  Let mul_0_l := sr_mul_0_l _ _ _ SR.
  Let mul_0_r := sr_mul_0_r _ _ _ SR.

  Lemma add_0_r x : vadd x vzero = x.
  Proof. rewrite add_comm. apply add_0_l. Qed.

  (* the value accumulated in sums[k] by a stream of (column, product) pairs *)
  Definition ksum (k : Z) (s : V) (ps : list (Z * V)) : V :=
    fold_left (fun s kp => if fst kp =? k then vadd s (snd kp) else s) ps s.

  Lemma ksum_notin k s ps : ~ In k (map fst ps) -> ksum k s ps = s.
  Proof.
    revert s; induction ps as [|[k' p] ps IH]; intros s H; simpl in *; [reflexivity|].
    destruct (Z.eqb_spec k' k); [exfalso; apply H; left; assumption|]. apply IH. tauto.
  Qed.

  Lemma acc_step_LL n nx sm head len l k p :
    LL n nx head len l -> 0 <= k < n -> Z.of_nat (length sm) = n ->
    exists nx' head' len',
      acc_step V vzero vadd (nx, sm, head, len) (k, p) = (nx', wr sm k (vadd (znth sm k vzero) p), head', len')
      /\ LL n nx' head' len' (touch l k).
  Proof.
    intros [Hn Hl Hc Hnd Hr Hm] Hk Hs. unfold acc_step.
    assert (Hr0 : Forall (fun x => 0 <= x) l) by (eapply Forall_impl; [|exact Hr]; simpl; intros; lia).
    destruct (Z.eqb_spec (znth nx k 0) (-1)) as [E|E].
    - (* first touch *)
      assert (Hnotin : ~ In k l) by (intros Hin; apply (Hm k Hk) in Hin; congruence).
      exists (wr nx k head), k, (len + 1). split; [reflexivity|].
      unfold touch. destruct (mem_z k l) eqn:Em; [apply mem_z_In in Em; tauto|].
      constructor.
      + rewrite wr_length. exact Hn.
      + simpl length. lia.
      + simpl. split; [reflexivity|]. rewrite znth_wr_eq by lia.
        apply chain_wr_notin; auto; lia.
      + constructor; assumption.
      + constructor; assumption.
      + intros k0 Hk0. destruct (Z.eq_dec k0 k) as [->|Hne].
        * rewrite znth_wr_eq by lia. split; [|intros _; left; reflexivity].
          intros _. destruct (chain_head_cases _ _ _ Hc Hr0); lia.
        * rewrite znth_wr_neq by lia. rewrite <- (Hm k0 Hk0). simpl. split; [intros [?|?]; [congruence|assumption]|auto].
    - exists nx, head, len. split; [reflexivity|].
      assert (Hin : In k l) by (apply (Hm k Hk); exact E).
      unfold touch. destruct (mem_z k l) eqn:Em; [|exfalso; rewrite <- mem_z_In in Hin; congruence].
      constructor; assumption.
  Qed.

  Definition all_zero (n : Z) (sm : list V) : Prop :=
    Z.of_nat (length sm) = n /\ forall k, 0 <= k < n -> znth sm k vzero = vzero.

  Lemma acc_fold n ps : Forall (fun kp => 0 <= fst kp < n) ps ->
    forall nx sm head len l,
    LL n nx head len l -> Z.of_nat (length sm) = n ->
    exists nx' sm' head' len',
      fold_left (acc_step V vzero vadd) ps (nx, sm, head, len) = (nx', sm', head', len')
      /\ LL n nx' head' len' (fold_left touch (map fst ps) l)
      /\ Z.of_nat (length sm') = n
      /\ forall k, 0 <= k < n -> znth sm' k vzero = ksum k (znth sm k vzero) ps.
  Proof.
    induction 1 as [|[k p] ps Hk Hps IH]; intros nx sm head len l HLL Hs.
    - exists nx, sm, head, len. simpl. auto.
    - simpl in Hk. destruct (acc_step_LL n nx sm head len l k p HLL Hk Hs) as [nx1 [h1 [len1 [E1 HLL1]]]].
      cbn [fold_left]. rewrite E1.
      destruct (IH nx1 (wr sm k (vadd (znth sm k vzero) p)) h1 len1 (touch l k) HLL1) as [nx' [sm' [h' [len' [E [HLL' [Hs' Hv]]]]]]].
      { rewrite wr_length. exact Hs. }
      exists nx', sm', h', len'. split; [exact E|split; [exact HLL'|split; [exact Hs'|]]].
      intros k0 Hk0. rewrite (Hv k0 Hk0). simpl.
      destruct (Z.eqb_spec k k0) as [->|Hne].
      + rewrite znth_wr_eq by lia. reflexivity.
      + rewrite znth_wr_neq by lia. reflexivity.
  Qed.

  (* emission *)
  Lemma chain_next_ne nx head k l n :
    chain nx head (k :: l) -> Forall (fun x => 0 <= x < n) (k :: l) -> znth nx k 0 <> -1.
  Proof.
    simpl. intros [_ Hc] Hr. pose proof (Forall_inv_tail Hr) as Hr'.
    destruct l as [|k' l']; simpl in Hc; [lia|]. destruct Hc as [-> _]. pose proof (Forall_inv Hr') as H. simpl in H. lia.
  Qed.

  Lemma emit_spec n l : forall nx sm head,
    chain nx head l -> NoDup l -> Forall (fun x => 0 <= x < n) l ->
    Z.of_nat (length nx) = n -> Z.of_nat (length sm) = n ->
    exists nx' sm' h',
      emit V vzero (length l) nx sm head = (nx', sm', h', map (fun k => (k, znth sm k vzero)) l)
      /\ Z.of_nat (length sm') = n
      /\ forall k, 0 <= k < n -> znth sm' k vzero = if mem_z k l then vzero else znth sm k vzero.
  Proof.
    induction l as [|k l IH]; intros nx sm head Hc Hnd Hr Hn Hs.
    - exists nx, sm, head. simpl. auto.
    - pose proof (chain_next_ne _ _ _ _ _ Hc Hr) as Hne.
      simpl in Hc. destruct Hc as [-> Hc].
      apply NoDup_cons_iff in Hnd. destruct Hnd as [Hnotin Hnd'].
      pose proof (Forall_inv Hr) as Hk. pose proof (Forall_inv_tail Hr) as Hr'. simpl in Hk.
      assert (Hr0 : Forall (fun x => 0 <= x) l) by (eapply Forall_impl; [|exact Hr']; simpl; intros; lia).
      destruct (IH (wr nx k (-1)) (wr sm k vzero) (znth nx k 0)) as [nx' [sm' [h' [E [Hs' Hv]]]]]; auto.
      { apply chain_wr_notin; auto; lia. }
      { rewrite wr_length; exact Hn. }
      { rewrite wr_length; exact Hs. }
      exists nx', sm', h'. split; [|split; [exact Hs'|]].
      + simpl emit. rewrite E.
        destruct (Z.eqb_spec (znth nx k 0) (-1)); [contradiction|]. simpl.
        f_equal. f_equal. apply map_ext_in. intros x Hx.
        rewrite znth_wr_neq; [reflexivity|lia| |intros ->; contradiction].
        rewrite Forall_forall in Hr0. apply Hr0. exact Hx.
      + intros k0 Hk0. rewrite (Hv k0 Hk0). simpl.
        destruct (Z.eqb_spec k0 k) as [->|Hne0].
        * simpl. rewrite znth_wr_eq by lia. destruct (mem_z k l); reflexivity.
        * simpl. rewrite znth_wr_neq by lia. reflexivity.
  Qed.

  (* ------------------------------------------------------------------ one row of the kernel *)
  Definition abs_row (a b : csr V) (i : Z) : list (Z * V) :=
    let ps := prod_stream V vmul a b i in
    map (fun k => (k, ksum k vzero ps)) (touched (map fst ps)).
  Definition out_row (a b : csr V) (i : Z) : list (Z * V) := sort_cells V (abs_row a b i).

  Definition keys_ok (n_col : Z) (a b : csr V) : Prop :=
    forall i, Forall (fun kp => 0 <= fst kp < n_col) (prod_stream V vmul a b i).

  Lemma out_row_length a b i : length (out_row a b i) = length (abs_row a b i).
  Proof. apply Permutation_length, sort_cells_perm. Qed.

  Lemma LL_init n : 0 <= n -> LL n (repeat (-1) (Z.to_nat n)) (-2) 0 [].
  Proof.
    intros Hn. constructor; simpl; auto.
    - rewrite repeat_length. lia.
    - constructor.
    - intros k Hk. rewrite znth_repeat by lia. split; [tauto|congruence].
  Qed.

  Lemma row_step_spec n_col a b sm out indptr i :
    0 <= n_col -> keys_ok n_col a b -> all_zero n_col sm ->
    exists sm2,
      row_step V vzero vadd vmul n_col a b (sm, out, indptr) i
      = (sm2, out ++ out_row a b i, indptr ++ [Z.of_nat (length out) + Z.of_nat (length (out_row a b i))])
      /\ all_zero n_col sm2.
  Proof.
    intros Hn Hk [Hs Hz]. unfold row_step.
    set (ps := prod_stream V vmul a b i).
    destruct (acc_fold n_col ps (Hk i) _ sm (-2) 0 [] (LL_init n_col Hn) Hs)
      as [nx1 [sm1 [h1 [len1 [E [HLL [Hs1 Hv]]]]]]].
    rewrite E. destruct HLL as [Hnx Hlen Hc Hnd Hr Hm].
    fold (touched (map fst ps)) in *. set (l := touched (map fst ps)) in *.
    destruct (emit_spec n_col l nx1 sm1 h1 Hc Hnd Hr Hnx Hs1) as [nx2 [sm2 [h2 [E2 [Hs2 Hv2]]]]].
    rewrite Hlen, Nat2Z.id, E2.
    assert (Hrow : map (fun k => (k, znth sm1 k vzero)) l = abs_row a b i).
    { unfold abs_row. fold ps. fold l. apply map_ext_in. intros k Hin.
      rewrite Forall_forall in Hr. specialize (Hr _ Hin). rewrite (Hv k Hr), (Hz k Hr). reflexivity. }
    exists sm2. split.
    - rewrite Hrow, out_row_length, app_length, Nat2Z.inj_add. reflexivity.
    - split; [exact Hs2|]. intros k Hk0. rewrite (Hv2 k Hk0).
      destruct (mem_z k l) eqn:Em; [reflexivity|].
      rewrite (Hv k Hk0), (Hz k Hk0). apply ksum_notin. intros Hin.
      apply (proj2 (touched_In _ _)) in Hin. fold l in Hin. apply mem_z_In in Hin. congruence.
  Qed.

  Lemma loops_fold n_col a b : 0 <= n_col -> keys_ok n_col a b ->
    forall (is : list Z) sm rows, all_zero n_col sm ->
    exists sm',
      fold_left (row_step V vzero vadd vmul n_col a b) is (sm, concat rows, offs 0 rows)
      = (sm', concat (rows ++ map (out_row a b) is), offs 0 (rows ++ map (out_row a b) is))
      /\ all_zero n_col sm'.
  Proof.
    intros Hn Hk. induction is as [|i is IH]; intros sm rows Hz.
    - exists sm. simpl. rewrite app_nil_r. auto.
    - destruct (row_step_spec n_col a b sm (concat rows) (offs 0 rows) i Hn Hk Hz) as [sm2 [E Hz2]].
      cbn [fold_left]. rewrite E.
      replace (concat rows ++ out_row a b i) with (concat (rows ++ [out_row a b i]))
        by (rewrite concat_app; simpl; rewrite app_nil_r; reflexivity).
      replace (offs 0 rows ++ [Z.of_nat (length (concat rows)) + Z.of_nat (length (out_row a b i))])
        with (offs 0 (rows ++ [out_row a b i])) by (rewrite offs_app; reflexivity).
      destruct (IH sm2 (rows ++ [out_row a b i]) Hz2) as [sm' [E' Hz']].
      exists sm'. rewrite E'. simpl map. rewrite <- !app_assoc. simpl. auto.
  Qed.

  Lemma all_zero_init n : 0 <= n -> all_zero n (repeat vzero (Z.to_nat n)).
  Proof.
    intros Hn. split; [rewrite repeat_length; lia|]. intros k Hk. apply znth_repeat. lia.
  Qed.

  Definition out_rows (n_row : Z) (a b : csr V) : list (list (Z * V)) := map (out_row a b) (zrange n_row).

  Lemma spgemm_loops_spec n_row n_col a b : 0 <= n_col -> keys_ok n_col a b ->
    exists sm', spgemm_loops V vzero vadd vmul n_row n_col a b
                = (sm', concat (out_rows n_row a b), offs 0 (out_rows n_row a b)).
  Proof.
    intros Hn Hk. unfold spgemm_loops.
    destruct (loops_fold n_col a b Hn Hk (zrange n_row) _ [] (all_zero_init n_col Hn)) as [sm' [E _]].
    exists sm'. exact E.
  Qed.

  (* ------------------------------------------------------------------ the pre-count *)
  (* mask invariant inside row i: mask[k] = i exactly for the columns seen so far *)
  Lemma cnt_step_spec n i mask l k :
    Z.of_nat (length mask) = n -> 0 <= k < n ->
    (forall x, 0 <= x < n -> (In x l <-> znth mask x 0 = i)) ->
    exists mask',
      cnt_step i (mask, Z.of_nat (length l)) k = (mask', Z.of_nat (length (touch l k)))
      /\ Z.of_nat (length mask') = n
      /\ (forall x, 0 <= x < n -> (In x (touch l k) <-> znth mask' x 0 = i))
      /\ (forall x, 0 <= x < n -> znth mask' x 0 = znth mask x 0 \/ znth mask' x 0 = i).
  Proof.
    intros Hn Hk Hm. unfold cnt_step, touch.
    destruct (Z.eqb_spec (znth mask k 0) i) as [E|E]; simpl.
    - assert (Hin : In k l) by (apply (Hm k Hk); exact E).
      apply mem_z_In in Hin. rewrite Hin. exists mask. auto.
    - assert (Hnotin : mem_z k l = false).
      { destruct (mem_z k l) eqn:Em; [|reflexivity]. apply mem_z_In in Em. apply (Hm k Hk) in Em. contradiction. }
      rewrite Hnotin. exists (wr mask k i). split; [|split; [|split]].
      + f_equal. simpl length. lia.
      + rewrite wr_length. exact Hn.
      + intros x Hx. destruct (Z.eq_dec x k) as [->|Hne].
        * rewrite znth_wr_eq by lia. simpl. tauto.
        * rewrite znth_wr_neq by lia. simpl. rewrite <- (Hm x Hx). split; [intros [?|?]; [congruence|assumption]|auto].
      + intros x Hx. destruct (Z.eq_dec x k) as [->|Hne].
        * right. apply znth_wr_eq. lia.
        * left. apply znth_wr_neq; lia.
  Qed.

  Lemma cnt_fold n i ks : Forall (fun k => 0 <= k < n) ks ->
    forall mask l, Z.of_nat (length mask) = n ->
    (forall x, 0 <= x < n -> (In x l <-> znth mask x 0 = i)) ->
    exists mask',
      fold_left (cnt_step i) ks (mask, Z.of_nat (length l)) = (mask', Z.of_nat (length (fold_left touch ks l)))
      /\ Z.of_nat (length mask') = n
      /\ (forall x, 0 <= x < n -> (In x (fold_left touch ks l) <-> znth mask' x 0 = i))
      /\ (forall x, 0 <= x < n -> znth mask' x 0 = znth mask x 0 \/ znth mask' x 0 = i).
  Proof.
    induction 1 as [|k ks Hk Hks IH]; intros mask l Hn Hm.
    - exists mask. simpl. auto.
    - destruct (cnt_step_spec n i mask l k Hn Hk Hm) as [m1 [E1 [Hn1 [Hm1 Hd1]]]].
      cbn [fold_left]. rewrite E1.
      destruct (IH m1 (touch l k) Hn1 Hm1) as [m2 [E2 [Hn2 [Hm2 Hd2]]]].
      exists m2. split; [exact E2|split; [exact Hn2|split; [exact Hm2|]]].
      intros x Hx. destruct (Hd2 x Hx) as [H|H]; [|right; exact H].
      rewrite H. apply Hd1. exact Hx.
  Qed.

  Lemma fold_flat {A B S} (f : S -> B -> S) (g : A -> list B) (l : list A) (s : S) :
    fold_left (fun st x => fold_left f (g x) st) l s = fold_left f (flat_map g l) s.
  Proof. revert s; induction l as [|x l IH]; intros s; simpl; [reflexivity|]. rewrite fold_left_app. apply IH. Qed.

  Definition row_keys (a_indices b_indices a_indptr b_indptr : list Z) (i : Z) : list Z :=
    flat_map (row_cols b_indices b_indptr) (row_cols a_indices a_indptr i).

  Lemma cnt_row_spec n ai bi ap bp mask nnz i :
    Z.of_nat (length mask) = n ->
    Forall (fun k => 0 <= k < n) (row_keys ai bi ap bp i) ->
    (forall x, 0 <= x < n -> znth mask x 0 < i) ->
    exists mask',
      cnt_row ai bi ap bp (mask, nnz) i = (mask', nnz + Z.of_nat (length (touched (row_keys ai bi ap bp i))))
      /\ Z.of_nat (length mask') = n
      /\ (forall x, 0 <= x < n -> znth mask' x 0 < i + 1).
  Proof.
    intros Hn Hk Hlt. unfold cnt_row, cnt_inner.
    rewrite (fold_flat (cnt_step i) (row_cols bi bp) (row_cols ai ap i) (mask, 0)).
    fold (row_keys ai bi ap bp i).
    destruct (cnt_fold n i _ Hk mask [] Hn) as [m' [E [Hn' [_ Hd]]]].
    { intros x Hx. simpl. split; [tauto|]. intros H. specialize (Hlt x Hx). lia. }
    simpl length in E. change (Z.of_nat 0) with 0 in E. rewrite E. exists m'.
    split; [reflexivity|split; [exact Hn'|]].
    intros x Hx. destruct (Hd x Hx) as [H|H]; rewrite H; [specialize (Hlt x Hx)|]; lia.
  Qed.

  Lemma count_fold n ai bi ap bp : (forall i, Forall (fun k => 0 <= k < n) (row_keys ai bi ap bp i)) ->
    forall (is : list Z) mask nnz bound,
    Z.of_nat (length mask) = n ->
    (forall x, 0 <= x < n -> znth mask x 0 < bound) ->
    StronglySorted Z.lt is -> Forall (fun i => bound <= i) is ->
    snd (fold_left (cnt_row ai bi ap bp) is (mask, nnz))
    = nnz + Z.of_nat (length (concat (map (fun i => touched (row_keys ai bi ap bp i)) is))).
  Proof.
    intros Hk. induction is as [|i is IH]; intros mask nnz bound Hn Hlt Hs Hb.
    - simpl. lia.
    - apply StronglySorted_inv in Hs. destruct Hs as [Hs' Hall].
      pose proof (Forall_inv Hb) as Hbi. pose proof (Forall_inv_tail Hb) as Hb'. simpl in Hbi.
      destruct (cnt_row_spec n ai bi ap bp mask nnz i Hn (Hk i)) as [m' [E [Hn' Hlt']]].
      { intros x Hx. specialize (Hlt x Hx). lia. }
      cbn [fold_left]. rewrite E. rewrite (IH m' _ (i + 1) Hn' Hlt' Hs').
      + simpl. rewrite app_length. lia.
      + eapply Forall_impl; [|exact Hall]. simpl. intros; lia.
  Qed.

  Lemma zrange_SS n : StronglySorted Z.lt (zrange n).
  Proof.
    unfold zrange. generalize 0%nat. induction (Z.to_nat n) as [|m IH]; intros s; simpl; constructor; [apply IH|].
    apply Forall_forall. intros x Hx. apply in_map_iff in Hx. destruct Hx as [y [<- Hy]]. apply in_seq in Hy. lia.
  Qed.

  Lemma count_spec n_row n_col ai bi ap bp :
    (forall i, Forall (fun k => 0 <= k < n_col) (row_keys ai bi ap bp i)) -> 0 <= n_col ->
    csr_csr_count_nnz n_row n_col ai bi ap bp
    = Z.of_nat (length (concat (map (fun i => touched (row_keys ai bi ap bp i)) (zrange n_row)))).
  Proof.
    intros Hk Hn. unfold csr_csr_count_nnz.
    rewrite (count_fold n_col ai bi ap bp Hk (zrange n_row) _ 0 0).
    - lia.
    - rewrite repeat_length. lia.
    - intros x Hx. rewrite znth_repeat by lia. lia.
    - apply zrange_SS.
    - apply Forall_forall. intros x Hx. apply zrange_In in Hx. lia.
  Qed.

  (* ------------------------------------------------------------------ well-formed operands *)
  Lemma csr_wfb_facts n_row n_col (m : csr V) : csr_wfb n_row n_col m = true ->
    length (m_indices m) = length (m_data m) /\ 0 <= n_row /\ 0 <= n_col /\
    Z.of_nat (length (m_indptr m)) = n_row + 1 /\
    Forall (fun c => 0 <= c < n_col) (m_indices m) /\
    (forall i, 0 <= i < n_row -> strictly_increasing (row_cols (m_indices m) (m_indptr m) i) = true).
  Proof.
    unfold csr_wfb. rewrite !andb_true_iff.
    intros [[[[[[[[H1 H2] H3] H4] H5] H6] H7] H8] H9].
    apply Nat.eqb_eq in H1. apply Z.leb_le in H2, H3. apply Z.eqb_eq in H4.
    repeat split; auto.
    - apply Forall_forall. intros c Hc. rewrite forallb_forall in H8. specialize (H8 _ Hc).
      apply andb_true_iff in H8. destruct H8 as [Ha Hb]. apply Z.leb_le in Ha. apply Z.ltb_lt in Hb. lia.
    - intros i Hi. rewrite forallb_forall in H9. apply H9.
      unfold row_cols, znth. replace (Z.to_nat (i + 1)) with (S (Z.to_nat i)) by lia.
      rewrite <- rows_of_nth by lia. apply nth_In. rewrite rows_of_length. lia.
  Qed.

  Lemma row_pairs_keys (m : csr V) i : length (m_indices m) = length (m_data m) ->
    map fst (row_pairs m i) = row_cols (m_indices m) (m_indptr m) i.
  Proof. intros H. unfold row_pairs, row_cols. apply map_fst_combine. apply slice_length_eq. exact H. Qed.

  Lemma row_pairs_in_indices (m : csr V) i kv : In kv (row_pairs m i) -> In (fst kv) (m_indices m).
  Proof.
    unfold row_pairs. destruct kv as [k v]. intros H. apply in_combine_l in H. simpl. eapply slice_In. exact H.
  Qed.

  Lemma keys_ok_wf n_col (a b : csr V) : Forall (fun c => 0 <= c < n_col) (m_indices b) -> keys_ok n_col a b.
  Proof.
    intros Hb i. apply Forall_forall. intros [k p] Hin. unfold prod_stream in Hin.
    apply in_flat_map in Hin. destruct Hin as [jav [_ Hin]]. apply in_map_iff in Hin.
    destruct Hin as [kbv [E Hin]]. inversion E; subst. simpl.
    rewrite Forall_forall in Hb. apply Hb. eapply row_pairs_in_indices. exact Hin.
  Qed.

  Lemma prod_stream_keys (a b : csr V) i :
    length (m_indices a) = length (m_data a) -> length (m_indices b) = length (m_data b) ->
    map fst (prod_stream V vmul a b i) = row_keys (m_indices a) (m_indices b) (m_indptr a) (m_indptr b) i.
  Proof.
    intros Ha Hb. unfold prod_stream, row_keys. rewrite <- (row_pairs_keys a i Ha).
    induction (row_pairs a i) as [|[j av] r IH]; simpl; [reflexivity|].
    rewrite map_app, IH. f_equal. rewrite map_map. simpl. rewrite <- (row_pairs_keys b j Hb).
    reflexivity.
  Qed.

  Lemma length_concat_map_ext {A B C} (f : A -> list B) (g : A -> list C) l :
    (forall x, length (f x) = length (g x)) -> length (concat (map f l)) = length (concat (map g l)).
  Proof. intros H. induction l; simpl; [reflexivity|]. rewrite !app_length, H, IHl. reflexivity. Qed.

  (* the pre-count equals the number of cells the loops write *)
  Lemma count_exact n_row n_in n_col (a b : csr V) :
    csr_wfb n_row n_in a = true -> csr_wfb n_in n_col b = true ->
    csr_csr_count_nnz n_row n_col (m_indices a) (m_indices b) (m_indptr a) (m_indptr b)
    = Z.of_nat (length (snd (fst (spgemm_loops V vzero vadd vmul n_row n_col a b)))).
  Proof.
    intros Ha Hb.
    destruct (csr_wfb_facts _ _ _ Ha) as [Ha1 [_ [_ [_ [_ _]]]]].
    destruct (csr_wfb_facts _ _ _ Hb) as [Hb1 [_ [Hn [_ [Hb5 _]]]]].
    pose proof (keys_ok_wf n_col a b Hb5) as Hk.
    destruct (spgemm_loops_spec n_row n_col a b Hn Hk) as [sm' E]. rewrite E. simpl.
    rewrite count_spec; auto.
    - f_equal. unfold out_rows. apply length_concat_map_ext. intros i.
      rewrite out_row_length. unfold abs_row. rewrite map_length, prod_stream_keys by assumption. reflexivity.
    - intros i. rewrite <- (prod_stream_keys a b i Ha1 Hb1).
      specialize (Hk i). rewrite Forall_forall in *. intros k Hin. apply in_map_iff in Hin.
      destruct Hin as [kp [<- Hin]]. apply Hk. exact Hin.
  Qed.

  Lemma dot_csr_csr_ok n_row n_in n_col (a b : csr V) :
    csr_wfb n_row n_in a = true -> csr_wfb n_in n_col b = true ->
    dot_csr_csr V vzero vadd vmul n_row n_col a b
    = KOk (mkCSR (map snd (concat (out_rows n_row a b))) (map fst (concat (out_rows n_row a b)))
                 (offs 0 (out_rows n_row a b))).
  Proof.
    intros Ha Hb. unfold dot_csr_csr. rewrite (count_exact _ _ _ _ _ Ha Hb).
    destruct (csr_wfb_facts _ _ _ Hb) as [_ [_ [Hn [_ [Hb5 _]]]]].
    destruct (spgemm_loops_spec n_row n_col a b Hn (keys_ok_wf n_col a b Hb5)) as [sm' E]. rewrite E. simpl.
    rewrite Z.ltb_irrefl. reflexivity.
  Qed.

  (* ------------------------------------------------------------------ sums *)
  Definition ssum (k : Z) (ps : list (Z * V)) : V :=
    vsum V vzero vadd (map snd (filter (fun kp => fst kp =? k) ps)).

  Lemma ksum_ssum k s ps : ksum k s ps = vadd s (ssum k ps).
  Proof.
    revert s; induction ps as [|[k' p] ps IH]; intros s; unfold ssum in *; simpl.
    - symmetry. apply add_0_r.
    - destruct (Z.eqb_spec k' k); simpl; rewrite IH; [|reflexivity].
      rewrite add_assoc. reflexivity.
  Qed.

  Lemma vsum_app l1 l2 : vsum V vzero vadd (l1 ++ l2) = vadd (vsum V vzero vadd l1) (vsum V vzero vadd l2).
  Proof.
    induction l1 as [|x l1 IH]; simpl; [symmetry; apply add_0_l|]. rewrite IH. apply add_assoc.
  Qed.

  Lemma ssum_app k l1 l2 : ssum k (l1 ++ l2) = vadd (ssum k l1) (ssum k l2).
  Proof. unfold ssum. rewrite filter_app, map_app. apply vsum_app. Qed.

  Lemma ssum_flat_map {A} k (f : A -> list (Z * V)) l :
    ssum k (flat_map f l) = vsum V vzero vadd (map (fun x => ssum k (f x)) l).
  Proof. induction l as [|x l IH]; simpl; [reflexivity|]. rewrite ssum_app, IH. reflexivity. Qed.

  Lemma ssum_notin k ps : ~ In k (map fst ps) -> ssum k ps = vzero.
  Proof.
    unfold ssum. induction ps as [|[k' p] ps IH]; simpl; intros H; [reflexivity|].
    destruct (Z.eqb_spec k' k); [exfalso; apply H; left; assumption|]. apply IH. tauto.
  Qed.

  Lemma row_lookup_None (r : list (Z * V)) k : row_lookup r k = None <-> ~ In k (map fst r).
  Proof.
    induction r as [|[c v] r IH]; simpl; [tauto|].
    destruct (row_lookup r k) eqn:E.
    - split; [discriminate|]. intros H. exfalso. assert (Hn : ~ In k (map fst r)) by tauto.
      apply IH in Hn. discriminate.
    - destruct (Z.eqb_spec c k).
      + split; [discriminate|]. intros H. exfalso. apply H. left. assumption.
      + split; [|reflexivity]. intros _ [H|H]; [congruence|]. apply (proj1 IH eq_refl). exact H.
  Qed.

  Lemma row_lookup_In (r : list (Z * V)) k v :
    NoDup (map fst r) -> (row_lookup r k = Some v <-> In (k, v) r).
  Proof.
    induction r as [|[c w] r IH]; simpl; intros Hnd; [split; [discriminate|tauto]|].
    apply NoDup_cons_iff in Hnd. destruct Hnd as [Hc Hnd]. specialize (IH Hnd).
    destruct (row_lookup r k) as [u|] eqn:E.
    - split.
      + intros H. right. apply IH. exact H.
      + intros [H|H]; [|apply IH; exact H]. inversion H; subst. exfalso.
        assert (Hn : row_lookup r k = None) by (apply row_lookup_None; exact Hc). congruence.
    - destruct (Z.eqb_spec c k) as [->|Hne].
      + split; [intros H; inversion H; subst; left; reflexivity|].
        intros [H|H]; [inversion H; reflexivity|]. exfalso. apply Hc. apply in_map_iff. exists (k, v). auto.
      + split; [discriminate|]. intros [H|H]; [inversion H; congruence|]. apply IH in H. discriminate.
  Qed.

  Lemma row_get_perm (r r' : list (Z * V)) k :
    Permutation r r' -> NoDup (map fst r) -> row_get V vzero r k = row_get V vzero r' k.
  Proof.
    intros Hp Hnd. assert (Hnd' : NoDup (map fst r')) by (eapply Permutation_NoDup; [apply Permutation_map; exact Hp|exact Hnd]).
    unfold row_get. destruct (row_lookup r k) as [v|] eqn:E.
    - apply (row_lookup_In r k v Hnd) in E. eapply Permutation_in in E; [|exact Hp].
      apply (row_lookup_In r' k v Hnd') in E. rewrite E. reflexivity.
    - apply row_lookup_None in E.
      assert (E' : row_lookup r' k = None).
      { apply row_lookup_None. intros H. apply E. eapply Permutation_in; [|exact H].
        apply Permutation_sym, Permutation_map. exact Hp. }
      rewrite E'. reflexivity.
  Qed.

  Lemma row_lookup_map_key (g : Z -> V) l k : NoDup l ->
    row_lookup (map (fun x => (x, g x)) l) k = if mem_z k l then Some (g k) else None.
  Proof.
    induction l as [|x l IH]; simpl; intros Hnd; [reflexivity|].
    apply NoDup_cons_iff in Hnd. destruct Hnd as [Hx Hnd]. rewrite (IH Hnd).
    unfold mem_z in *. simpl. destruct (Z.eqb_spec k x) as [->|Hne]; simpl.
    - destruct (existsb (Z.eqb x) l) eqn:Em.
      + exfalso. apply Hx. apply existsb_exists in Em. destruct Em as [y [Hy Ey]]. apply Z.eqb_eq in Ey. subst. exact Hy.
      + rewrite Z.eqb_refl. reflexivity.
    - destruct (existsb (Z.eqb k) l); [reflexivity|].
      destruct (Z.eqb_spec x k); [congruence|reflexivity].
  Qed.

  (* scaling a row of b by av and summing the products that land in column k *)
  Lemma ssum_scaled av (rb : list (Z * V)) k : NoDup (map fst rb) ->
    ssum k (map (fun kbv => (fst kbv, vmul av (snd kbv))) rb) = vmul av (row_get V vzero rb k).
  Proof.
    unfold row_get. induction rb as [|[c w] rb IH]; simpl; intros Hnd.
    - unfold ssum. simpl. symmetry. apply mul_0_r.
    - apply NoDup_cons_iff in Hnd. destruct Hnd as [Hc Hnd]. specialize (IH Hnd).
      change (ssum k ((c, vmul av w) :: map (fun kbv => (fst kbv, vmul av (snd kbv))) rb))
        with (ssum k ([(c, vmul av w)] ++ map (fun kbv => (fst kbv, vmul av (snd kbv))) rb)).
      rewrite ssum_app, IH. unfold ssum at 1. simpl.
      destruct (Z.eqb_spec c k) as [->|Hne]; simpl.
      + assert (E : row_lookup rb k = None) by (apply row_lookup_None; exact Hc).
        rewrite E. rewrite add_0_r, mul_0_r. apply add_0_r.
      + rewrite add_0_l. destruct (row_lookup rb k); reflexivity.
  Qed.

  Lemma vsum_single_out (f : Z -> V) (x : V) j0 (L : list Z) :
    NoDup L -> In j0 L -> f j0 = vzero ->
    vsum V vzero vadd (map (fun j => if j =? j0 then x else f j) L) = vadd x (vsum V vzero vadd (map f L)).
  Proof.
    induction L as [|a L IH]; simpl; intros Hnd Hin Hf; [tauto|].
    apply NoDup_cons_iff in Hnd. destruct Hnd as [Ha Hnd].
    destruct (Z.eqb_spec a j0) as [->|Hne].
    - rewrite Hf, add_0_l. f_equal. f_equal. apply map_ext_in. intros j Hj.
      destruct (Z.eqb_spec j j0); [subst; contradiction|reflexivity].
    - destruct Hin as [?|Hin]; [contradiction|]. rewrite (IH Hnd Hin Hf).
      rewrite !add_assoc. f_equal. apply add_comm.
  Qed.

  (* summing over the stored entries of a sparse row = summing over the whole index range *)
  Lemma sparse_row_sum (h : Z -> V) n (ra : list (Z * V)) :
    NoDup (map fst ra) -> Forall (fun jav => 0 <= fst jav < n) ra ->
    vsum V vzero vadd (map (fun jav => vmul (snd jav) (h (fst jav))) ra)
    = sum_over V vzero vadd n (fun j => vmul (row_get V vzero ra j) (h j)).
  Proof.
    unfold sum_over. induction ra as [|[j0 av] ra IH]; simpl; intros Hnd Hr.
    - unfold row_get. simpl. induction (zrange n) as [|j L IHL]; simpl; [reflexivity|].
      rewrite mul_0_l, add_0_l. exact IHL.
    - apply NoDup_cons_iff in Hnd. destruct Hnd as [Hj0 Hnd].
      pose proof (Forall_inv Hr) as Hr0. pose proof (Forall_inv_tail Hr) as Hr'. simpl in Hr0.
      rewrite (IH Hnd Hr').
      rewrite <- (vsum_single_out (fun j => vmul (row_get V vzero ra j) (h j)) (vmul av (h j0)) j0 (zrange n)).
      + f_equal. apply map_ext. intros j. unfold row_get. simpl.
        destruct (Z.eqb_spec j j0) as [->|Hne].
        * assert (E : row_lookup ra j0 = None) by (apply row_lookup_None; exact Hj0).
          rewrite E, Z.eqb_refl. reflexivity.
        * destruct (row_lookup ra j); [reflexivity|]. destruct (Z.eqb_spec j0 j); [congruence|reflexivity].
      + apply zrange_NoDup.
      + apply zrange_In. exact Hr0.
      + unfold row_get. assert (E : row_lookup ra j0 = None) by (apply row_lookup_None; exact Hj0).
        rewrite E. apply mul_0_l.
  Qed.

  (* ------------------------------------------------------------------ rows of the result *)
  Lemma abs_row_keys a b i : map fst (abs_row a b i) = touched (map fst (prod_stream V vmul a b i)).
  Proof. unfold abs_row. rewrite map_map. simpl. apply map_id. Qed.

  Lemma out_row_keys_NoDup a b i : NoDup (map fst (out_row a b i)).
  Proof.
    eapply Permutation_NoDup; [apply Permutation_map, Permutation_sym, sort_cells_perm|].
    rewrite abs_row_keys. apply touched_NoDup.
  Qed.

  Lemma out_row_sorted a b i : strictly_increasing (map fst (out_row a b i)) = true.
  Proof.
    apply SS_lt_strictly_increasing. apply sorted_nodup_strict; [apply sort_cells_sorted|apply out_row_keys_NoDup].
  Qed.

  Lemma out_row_get a b i k :
    row_get V vzero (out_row a b i) k = ssum k (prod_stream V vmul a b i).
  Proof.
    unfold out_row. rewrite (row_get_perm _ (abs_row a b i) k (sort_cells_perm V _)).
    2:{ eapply Permutation_NoDup; [apply Permutation_map, Permutation_sym, sort_cells_perm|].
        rewrite abs_row_keys. apply touched_NoDup. }
    unfold row_get, abs_row. rewrite row_lookup_map_key by apply touched_NoDup.
    destruct (mem_z k (touched (map fst (prod_stream V vmul a b i)))) eqn:E.
    - rewrite ksum_ssum. apply add_0_l.
    - symmetry. apply ssum_notin. intros Hin. apply (proj2 (touched_In _ _)) in Hin. apply mem_z_In in Hin. congruence.
  Qed.

  Lemma nth_zrange n i : 0 <= i < n -> nth (Z.to_nat i) (zrange n) 0 = i.
  Proof.
    intros H. unfold zrange. rewrite (nth_indep _ 0 (Z.of_nat 0)) by (rewrite map_length, seq_length; lia).
    rewrite map_nth, seq_nth by lia. lia.
  Qed.

  (* the row i of the returned triple is out_row i *)
  Lemma result_row n_row (a b : csr V) i : 0 <= i < n_row ->
    row_pairs (mkCSR (map snd (concat (out_rows n_row a b))) (map fst (concat (out_rows n_row a b)))
                     (offs 0 (out_rows n_row a b))) i
    = out_row a b i.
  Proof.
    intros Hi. unfold row_pairs. simpl. set (R := out_rows n_row a b).
    assert (HlenR : length R = Z.to_nat n_row).
    { unfold R, out_rows. rewrite map_length. unfold zrange. rewrite map_length, seq_length. reflexivity. }
    assert (Hsl : forall {B} (f : Z * V -> B),
               slice_list (map f (concat R)) (znth (offs 0 R) i 0) (znth (offs 0 R) (i + 1) 0)
               = map f (nth (Z.to_nat i) R [])).
    { intros B f. unfold znth. replace (Z.to_nat (i + 1)) with (S (Z.to_nat i)) by lia.
      rewrite <- rows_of_nth by (rewrite offs_length; lia).
      rewrite concat_map, <- (offs_map f 0 R), rows_of_concat.
      rewrite <- (map_nth (map f)). reflexivity. }
    rewrite (Hsl _ fst), (Hsl _ snd), combine_fst_snd.
    unfold R, out_rows. rewrite (nth_indep _ [] (out_row a b 0)) by (fold (out_rows n_row a b); fold R; lia).
    rewrite map_nth, nth_zrange by assumption. reflexivity.
  Qed.

  (* spgemm_den *)
  Lemma spgemm_den_row n_row n_in n_col (a b : csr V) i k :
    csr_wfb n_row n_in a = true -> csr_wfb n_in n_col b = true -> 0 <= i < n_row ->
    ssum k (prod_stream V vmul a b i)
    = np_matmul2 V vzero vadd vmul n_in (csr_den V vzero a) (csr_den V vzero b) i k.
  Proof.
    intros Ha Hb Hi.
    destruct (csr_wfb_facts _ _ _ Ha) as [Ha1 [_ [_ [_ [Ha5 Ha6]]]]].
    destruct (csr_wfb_facts _ _ _ Hb) as [Hb1 [_ [_ [_ [_ Hb6]]]]].
    unfold prod_stream. rewrite ssum_flat_map.
    assert (Hra : Forall (fun jav => 0 <= fst jav < n_in) (row_pairs a i)).
    { apply Forall_forall. intros jav Hin. rewrite Forall_forall in Ha5. apply Ha5.
      eapply row_pairs_in_indices. exact Hin. }
    assert (Hnd : NoDup (map fst (row_pairs a i))).
    { rewrite row_pairs_keys by assumption. apply SS_lt_NoDup, strictly_increasing_SS, Ha6. exact Hi. }
    rewrite (map_ext_in _ (fun jav => vmul (snd jav) (csr_den V vzero b (fst jav) k))).
    - rewrite (sparse_row_sum (fun j => csr_den V vzero b j k) n_in _ Hnd Hra). reflexivity.
    - intros [j av] Hin. simpl. apply ssum_scaled.
      rewrite row_pairs_keys by assumption. apply SS_lt_NoDup, strictly_increasing_SS, Hb6.
      rewrite Forall_forall in Hra. apply (Hra _ Hin).
  Qed.

  Theorem spgemm_den_proof n_row n_in n_col (a b : csr V) :
    csr_wfb n_row n_in a = true -> csr_wfb n_in n_col b = true ->
    exists r, dot_csr_csr V vzero vadd vmul n_row n_col a b = KOk r /\
      forall i k, 0 <= i < n_row ->
        csr_den V vzero r i k = np_matmul2 V vzero vadd vmul n_in (csr_den V vzero a) (csr_den V vzero b) i k.
  Proof.
    intros Ha Hb. eexists. split; [apply (dot_csr_csr_ok _ _ _ _ _ Ha Hb)|].
    intros i k Hi. unfold csr_den at 1. rewrite result_row by assumption.
    rewrite out_row_get. apply (spgemm_den_row _ _ _ _ _ _ _ Ha Hb Hi).
  Qed.

  (* count_nnz_exact: the buffers sized by the pre-count are exactly filled *)
  Theorem count_nnz_exact_proof n_row n_in n_col (a b : csr V) :
    csr_wfb n_row n_in a = true -> csr_wfb n_in n_col b = true ->
    csr_csr_count_nnz n_row n_col (m_indices a) (m_indices b) (m_indptr a) (m_indptr b)
    = Z.of_nat (length (snd (fst (spgemm_loops V vzero vadd vmul n_row n_col a b))))
    /\ exists r, dot_csr_csr V vzero vadd vmul n_row n_col a b = KOk r
                 /\ Z.of_nat (length (m_data r)) = csr_csr_count_nnz n_row n_col (m_indices a) (m_indices b) (m_indptr a) (m_indptr b)
                 /\ length (m_indices r) = length (m_data r).
  Proof.
    intros Ha Hb. split; [apply (count_exact _ _ _ _ _ Ha Hb)|].
    eexists. split; [apply (dot_csr_csr_ok _ _ _ _ _ Ha Hb)|]. simpl. split.
    - rewrite (count_exact _ _ _ _ _ Ha Hb).
      destruct (csr_wfb_facts _ _ _ Hb) as [_ [_ [Hn [_ [Hb5 _]]]]].
      destruct (spgemm_loops_spec n_row n_col a b Hn (keys_ok_wf n_col a b Hb5)) as [sm' E]. rewrite E. simpl.
      rewrite map_length. reflexivity.
    - rewrite !map_length. reflexivity.
  Qed.

  (* spgemm_rows_sorted: the result is a well-formed CSR matrix *)
  Theorem spgemm_rows_sorted_proof n_row n_in n_col (a b : csr V) :
    csr_wfb n_row n_in a = true -> csr_wfb n_in n_col b = true ->
    exists r, dot_csr_csr V vzero vadd vmul n_row n_col a b = KOk r /\ csr_wfb n_row n_col r = true.
  Proof.
    intros Ha Hb. eexists. split; [apply (dot_csr_csr_ok _ _ _ _ _ Ha Hb)|].
    destruct (csr_wfb_facts _ _ _ Ha) as [_ [Hnr _]].
    destruct (csr_wfb_facts _ _ _ Hb) as [_ [_ [Hn [_ [Hb5 _]]]]].
    pose proof (keys_ok_wf n_col a b Hb5) as Hk.
    set (R := out_rows n_row a b).
    assert (HlenR : length R = Z.to_nat n_row).
    { unfold R, out_rows. rewrite map_length. unfold zrange. rewrite map_length, seq_length. reflexivity. }
    unfold csr_wfb. simpl. rewrite !andb_true_iff. repeat split.
    - rewrite !map_length. apply Nat.eqb_refl.
    - apply Z.leb_le. exact Hnr.
    - apply Z.leb_le. exact Hn.
    - apply Z.eqb_eq. rewrite offs_length. lia.
    - destruct (offs_head 0 R) as [t Ht]. rewrite Ht. reflexivity.
    - apply Z.eqb_eq. unfold znth. replace (Z.to_nat n_row) with (length R) by lia.
      rewrite (nth_indep _ (-1) 0) by (rewrite offs_length; lia).
      rewrite offs_last, map_length. lia.
    - apply offs_nondecreasing.
    - apply forallb_forall. intros c Hc. apply in_map_iff in Hc. destruct Hc as [[c' v] [<- Hc]]. simpl.
      apply in_concat in Hc. destruct Hc as [row [Hrow Hc]]. unfold R, out_rows in Hrow.
      apply in_map_iff in Hrow. destruct Hrow as [i [<- _]].
      assert (Hin : In c' (map fst (out_row a b i))) by (apply in_map_iff; exists (c', v); auto).
      eapply Permutation_in in Hin; [|apply Permutation_map, sort_cells_perm].
      rewrite abs_row_keys in Hin. apply (proj1 (touched_In _ _)) in Hin. apply in_map_iff in Hin.
      destruct Hin as [kp [<- Hin]]. specialize (Hk i). rewrite Forall_forall in Hk. specialize (Hk _ Hin).
      apply andb_true_iff. split; [apply Z.leb_le|apply Z.ltb_lt]; lia.
    - rewrite concat_map, <- (offs_map fst 0 R), rows_of_concat.
      apply forallb_forall. intros row Hrow. apply in_map_iff in Hrow. destruct Hrow as [r [<- Hr]].
      unfold R, out_rows in Hr. apply in_map_iff in Hr. destruct Hr as [i [<- _]]. apply out_row_sorted.
  Qed.
End Kernel.

(* ====================================================================== _dot_coo_ndarray terminates *)
Section Termination.
  Variable V : Type.
  Variable vzero : V.
  Variable vadd vmul : V -> V -> V.

  Lemma scan_run_bounds m rows cols (data : list V) a2 o1 o2 d out :
    d <= fst (scan_run V vzero vadd vmul m rows cols data a2 o1 o2 d out) <= Z.max d (Z.of_nat (length data)).
  Proof.
    revert d out; induction m as [|m IH]; intros d out; simpl; [lia|].
    destruct ((d <? Z.of_nat (length data)) && (znth rows d 0 =? o1)) eqn:E; simpl; [|lia].
    apply andb_true_iff in E. destruct E as [E _]. apply Z.ltb_lt in E.
    specialize (IH (d + 1) (upd2 V out o1 o2 (vadd (out o1 o2) (vmul (znth data d vzero) (a2 o2 (znth cols d 0)))))). lia.
  Qed.

  Lemma scan_run_progress m rows cols (data : list V) a2 o2 d out :
    (0 < m)%nat -> d < Z.of_nat (length data) ->
    d + 1 <= fst (scan_run V vzero vadd vmul m rows cols data a2 (znth rows d 0) o2 d out).
  Proof.
    intros Hm Hd. destruct m as [|m]; [lia|]. simpl.
    apply Z.ltb_lt in Hd. rewrite Hd, Z.eqb_refl. simpl.
    pose proof (scan_run_bounds m rows cols data a2 (znth rows d 0) o2 (d + 1)
      (upd2 V out (znth rows d 0) o2 (vadd (out (znth rows d 0) o2) (vmul (znth data d vzero) (a2 o2 (znth cols d 0)))))). lia.
  Qed.

  (* the for loop over a non-empty range ends in the state its last iteration produces *)
  Lemma fold_last_prop {S B} (P : S -> Prop) (step : S -> B -> S) (l : list B) (s : S) :
    l <> [] -> (forall s x, P (step s x)) -> P (fold_left step l s).
  Proof.
    revert s; induction l as [|x l IH]; intros s Hne Hstep; [congruence|].
    simpl. destruct l as [|y l']; [apply Hstep|]. apply IH; [discriminate|exact Hstep].
  Qed.

  Lemma cn_for_progress rows cols (data : list V) a2 out_cols d out :
    0 < out_cols -> 0 <= d < Z.of_nat (length data) ->
    d + 1 <= fst (cn_for V vzero vadd vmul rows cols data a2 out_cols (znth rows d 0) d d out) <= Z.of_nat (length data).
  Proof.
    intros Hc Hd. unfold cn_for.
    apply (fold_last_prop (fun st : Z * dense2 V => d + 1 <= fst st <= Z.of_nat (length data))).
    - intros E. assert (In 0 (zrange out_cols)) by (apply zrange_In; lia). rewrite E in H. contradiction.
    - intros st o2. split.
      + apply scan_run_progress; lia.
      + pose proof (scan_run_bounds (Z.to_nat (Z.of_nat (length data) - d)) rows cols data a2 (znth rows d 0) o2 d (snd st)). lia.
  Qed.

  Lemma cn_while_terminates fuel rows cols (data : list V) a2 out_cols : forall d out,
    0 <= d -> (Z.to_nat (Z.of_nat (length data) - d) <= fuel)%nat ->
    exists o, cn_while V vzero vadd vmul fuel rows cols data a2 out_cols d out = KOk o.
  Proof.
    induction fuel as [|f IH]; intros d out Hd Hf.
    - simpl. destruct (Z.ltb_spec d (Z.of_nat (length data))); [lia|]. simpl. eauto.
    - simpl. destruct (Z.ltb_spec d (Z.of_nat (length data))); simpl; [|eauto].
      destruct (Z.ltb_spec 0 out_cols); simpl; [|eauto].
      pose proof (cn_for_progress rows cols data a2 out_cols d out H0 (conj Hd H)) as Hp.
      destruct (cn_for V vzero vadd vmul rows cols data a2 out_cols (znth rows d 0) d d out) as [d' out'] eqn:E.
      simpl in Hp. apply IH; lia.
  Qed.

  (* for EVERY input (any out_cols, any rows/cols/data), nnz units of fuel suffice *)
  Theorem dot_coo_ndarray_terminates_proof rows cols (data : list V) a2 out_cols :
    forall fuel, (length data <= fuel)%nat ->
    exists o, dot_coo_ndarray V vzero vadd vmul fuel rows cols data a2 out_cols = KOk o.
  Proof.
    intros fuel Hf. unfold dot_coo_ndarray. apply cn_while_terminates; lia.
  Qed.
End Termination.

(* ====================================================================== _dot_coo_ndarray: values *)
Section CooNdDen.
  Variable V : Type.
  Variable vzero : V.
  Variable vadd vmul : V -> V -> V.
  Variable rows cols : list Z.
  Variable data : list V.
  Variable a2 : Z -> Z -> V.

  Let n := Z.of_nat (length data).
  Definition term (t j : Z) : V := vmul (znth data t vzero) (a2 j (znth cols t 0)).

  (* out[i, j] after the entries d, d+1, ..., d+m-1 have been added, starting from s *)
  Fixpoint acc_from (m : nat) (d i j : Z) (s : V) : V :=
    match m with
    | O => s
    | S m' => acc_from m' (d + 1) i j (if znth rows d 0 =? i then vadd s (term d j) else s)
    end.

  Lemma acc_from_app m1 m2 d i j s :
    acc_from (m1 + m2) d i j s = acc_from m2 (d + Z.of_nat m1) i j (acc_from m1 d i j s).
  Proof.
    revert d s; induction m1 as [|m1 IH]; intros d s; simpl.
    - f_equal. lia.
    - rewrite IH. f_equal. lia.
  Qed.

  (* length of the run of entries with row o1 starting at d (at most m) *)
  Fixpoint run_len (m : nat) (o1 d : Z) : nat :=
    match m with
    | O => O
    | S m' => if (d <? n) && (znth rows d 0 =? o1) then S (run_len m' o1 (d + 1)) else O
    end.

  Lemma run_len_bound m o1 d : d <= n -> d + Z.of_nat (run_len m o1 d) <= n.
  Proof.
    revert d; induction m as [|m IH]; intros d Hd; simpl; [lia|].
    destruct (Z.ltb_spec d n); simpl; [|lia]. destruct (znth rows d 0 =? o1); simpl; [|lia].
    specialize (IH (d + 1) ltac:(lia)). lia.
  Qed.

  Lemma run_len_pos m d : (0 < m)%nat -> d < n -> (0 < run_len m (znth rows d 0%Z) d)%nat.
  Proof.
    intros Hm Hd. destruct m; [lia|]. simpl. apply Z.ltb_lt in Hd. rewrite Hd, Z.eqb_refl. simpl. lia.
  Qed.

  Lemma acc_from_run_other m o1 i j d s : i <> o1 -> acc_from (run_len m o1 d) d i j s = s.
  Proof.
    intros Hne. revert d s; induction m as [|m IH]; intros d s; simpl; [reflexivity|].
    destruct ((d <? n) && (znth rows d 0 =? o1)) eqn:E; simpl; [|reflexivity].
    apply andb_true_iff in E. destruct E as [_ E]. apply Z.eqb_eq in E.
    destruct (Z.eqb_spec (znth rows d 0) i); [congruence|]. apply IH.
  Qed.

  Lemma scan_run_spec m o1 o2 d out :
    fst (scan_run V vzero vadd vmul m rows cols data a2 o1 o2 d out) = d + Z.of_nat (run_len m o1 d)
    /\ forall i j, snd (scan_run V vzero vadd vmul m rows cols data a2 o1 o2 d out) i j
                   = if (i =? o1) && (j =? o2) then acc_from (run_len m o1 d) d o1 o2 (out o1 o2) else out i j.
  Proof.
    revert d out; induction m as [|m IH]; intros d out; simpl.
    - split; [lia|]. intros i j. destruct ((i =? o1) && (j =? o2)) eqn:E; [|reflexivity].
      apply andb_true_iff in E. destruct E as [E1 E2]. apply Z.eqb_eq in E1, E2. subst. reflexivity.
    - fold n. destruct ((d <? n) && (znth rows d 0 =? o1)) eqn:E; simpl.
      + apply andb_true_iff in E. destruct E as [_ E]. rewrite E.
        destruct (IH (d + 1) (upd2 V out o1 o2 (vadd (out o1 o2) (vmul (znth data d vzero) (a2 o2 (znth cols d 0)))))) as [H1 H2].
        split; [rewrite H1; lia|]. intros i j. rewrite H2.
        destruct ((i =? o1) && (j =? o2)) eqn:E2.
        * unfold upd2. rewrite !Z.eqb_refl. simpl. unfold term. reflexivity.
        * unfold upd2. rewrite E2. reflexivity.
      + split; [lia|]. intros i j. destruct ((i =? o1) && (j =? o2)) eqn:E2; [|reflexivity].
        apply andb_true_iff in E2. destruct E2 as [E1 E2]. apply Z.eqb_eq in E1, E2. subst. reflexivity.
  Qed.

  (* the for loop over the output columns js (pairwise distinct) *)
  Lemma cn_for_fold m o1 d (js : list Z) : NoDup js -> forall st,
    let r := fold_left (fun st o2 => scan_run V vzero vadd vmul m rows cols data a2 o1 o2 d (snd st)) js st in
    (js <> [] -> fst r = d + Z.of_nat (run_len m o1 d))
    /\ forall i j, snd r i j = if (i =? o1) && mem_z j js then acc_from (run_len m o1 d) d o1 j (snd st o1 j) else snd st i j.
  Proof.
    induction js as [|o2 js IH]; intros Hnd st; simpl.
    - split; [congruence|]. intros i j. rewrite andb_false_r. reflexivity.
    - apply NoDup_cons_iff in Hnd. destruct Hnd as [Hni Hnd].
      destruct (scan_run_spec m o1 o2 d (snd st)) as [H1 H2].
      specialize (IH Hnd (scan_run V vzero vadd vmul m rows cols data a2 o1 o2 d (snd st))). cbv zeta in IH.
      destruct IH as [IH1 IH2]. split.
      + intros _. destruct js as [|o3 js']; [simpl; exact H1|]. apply IH1. discriminate.
      + intros i j. rewrite IH2. unfold mem_z. simpl.
        destruct (Z.eqb_spec i o1) as [->|Hne]; simpl.
        * destruct (Z.eqb_spec j o2) as [->|Hne2]; simpl.
          -- assert (Em : existsb (Z.eqb o2) js = false).
             { destruct (existsb (Z.eqb o2) js) eqn:Em; [|reflexivity]. exfalso. apply Hni.
               apply existsb_exists in Em. destruct Em as [y [Hy Ey]]. apply Z.eqb_eq in Ey. subst. exact Hy. }
             rewrite Em. rewrite H2, !Z.eqb_refl. reflexivity.
          -- destruct (existsb (Z.eqb j) js).
             ++ rewrite H2, Z.eqb_refl. simpl. destruct (Z.eqb_spec j o2); [congruence|reflexivity].
             ++ rewrite H2, Z.eqb_refl. simpl. destruct (Z.eqb_spec j o2); [congruence|reflexivity].
        * rewrite H2. destruct (Z.eqb_spec i o1); [congruence|reflexivity].
  Qed.

  Lemma cn_for_spec out_cols o1 d out :
    let r := cn_for V vzero vadd vmul rows cols data a2 out_cols o1 d d out in
    let m := Z.to_nat (n - d) in
    (zrange out_cols <> [] -> fst r = d + Z.of_nat (run_len m o1 d))
    /\ forall i j, snd r i j = if (i =? o1) && mem_z j (zrange out_cols) then acc_from (run_len m o1 d) d o1 j (out o1 j) else out i j.
  Proof. unfold cn_for. apply (cn_for_fold (Z.to_nat (n - d)) o1 d (zrange out_cols) (zrange_NoDup out_cols) (d, out)). Qed.

  (* loop invariant: out[i, j] holds the contribution of the entries [0, d) *)
  Definition inv (out_cols d : Z) (out : Z -> Z -> V) : Prop :=
    forall i j, 0 <= j < out_cols -> out i j = acc_from (Z.to_nat d) 0 i j vzero.

  Lemma cn_while_den fuel out_cols : 0 < out_cols -> forall d out,
    0 <= d <= n -> (Z.to_nat (n - d) <= fuel)%nat -> inv out_cols d out ->
    exists o, cn_while V vzero vadd vmul fuel rows cols data a2 out_cols d out = KOk o /\ inv out_cols n o.
  Proof.
    intros Hc. induction fuel as [|f IH]; intros d out Hd Hf Hinv.
    - simpl. fold n. destruct (Z.ltb_spec d n); [lia|]. simpl. exists out. split; [reflexivity|].
      replace n with d by lia. exact Hinv.
    - simpl. fold n. destruct (Z.ltb_spec d n); simpl.
      2:{ exists out. split; [reflexivity|]. replace n with d by lia. exact Hinv. }
      destruct (Z.ltb_spec 0 out_cols); [|lia]. simpl.
      set (o1 := znth rows d 0).
      destruct (cn_for_spec out_cols o1 d out) as [F1 F2].
      destruct (cn_for V vzero vadd vmul rows cols data a2 out_cols o1 d d out) as [d' out'] eqn:E. simpl in F1, F2.
      set (m := Z.to_nat (n - d)) in *.
      assert (Hne : zrange out_cols <> []).
      { intros E0. assert (In 0 (zrange out_cols)) by (apply zrange_In; lia). rewrite E0 in H1. contradiction. }
      specialize (F1 Hne). set (L := run_len m o1 d) in *.
      assert (HL : (0 < L)%nat) by (apply run_len_pos; [unfold m; lia|assumption]).
      assert (HLb : d + Z.of_nat L <= n) by (apply run_len_bound; lia).
      apply IH; [lia|lia|].
      intros i j Hj. rewrite F2. rewrite F1.
      replace (Z.to_nat (d + Z.of_nat L)) with (Z.to_nat d + L)%nat by lia.
      rewrite acc_from_app. rewrite Z2Nat.id by lia. simpl Z.add. rewrite <- (Hinv i j Hj).
      assert (Hm : mem_z j (zrange out_cols) = true) by (apply mem_z_In, zrange_In; exact Hj).
      rewrite Hm, andb_true_r. destruct (Z.eqb_spec i o1) as [->|Hne1]; [reflexivity|].
      symmetry. apply acc_from_run_other. exact Hne1.
  Qed.

  Theorem dot_coo_ndarray_acc out_cols fuel : (length data <= fuel)%nat ->
    exists o, dot_coo_ndarray V vzero vadd vmul fuel rows cols data a2 out_cols = KOk o
      /\ forall i j, 0 <= j < out_cols -> o i j = acc_from (length data) 0 i j vzero.
  Proof.
    intros Hf. unfold dot_coo_ndarray.
    destruct (Z.ltb_spec 0 out_cols) as [Hc|Hc].
    - destruct (cn_while_den fuel out_cols Hc 0 (fun _ _ => vzero)) as [o [E Ho]]; [unfold n; lia|unfold n; lia| |].
      + intros i j _. reflexivity.
      + exists o. split; [exact E|]. intros i j Hj. rewrite (Ho i j Hj). unfold n. rewrite Nat2Z.id. reflexivity.
    - destruct (dot_coo_ndarray_terminates_proof V vzero vadd vmul rows cols data a2 out_cols fuel Hf) as [o E].
      exists o. split; [exact E|]. intros i j Hj. lia.
  Qed.
End CooNdDen.

Section CooNdDen2.
  Variable V : Type.
  Variable vzero : V.
  Variable vadd vmul : V -> V -> V.
  Hypothesis SR : comm_semiring vzero vadd vmul.
  Variable a2 : Z -> Z -> V.

  (* the same accumulation over the list of cells (row, column, value) *)
  Definition acc_list (cs : list (Z * Z * V)) (i j : Z) (s : V) : V :=
    fold_left (fun s (t : Z * Z * V) => if fst (fst t) =? i then vadd s (vmul (snd t) (a2 j (snd (fst t)))) else s) cs s.

  Lemma acc_from_cells (r c : list Z) (dt : list V) i j :
    length r = length dt -> length c = length dt ->
    forall (pr pc : list Z) (pd : list V) s,
      length pr = length pd -> length pc = length pd ->
      acc_from V vzero vadd vmul (pr ++ r) (pc ++ c) (pd ++ dt) a2 (length dt) (Z.of_nat (length pd)) i j s
      = acc_list (combine (combine r c) dt) i j s.
  Proof.
    revert r c; induction dt as [|v dt IH]; intros r c Hr Hc pr pc pd s Hpr Hpc.
    - destruct r, c; simpl in *; try discriminate; reflexivity.
    - destruct r as [|x r]; [discriminate|]. destruct c as [|y c]; [discriminate|]. simpl in Hr, Hc.
      cbn [acc_from length combine acc_list fold_left fst snd].
      assert (E1 : znth (pr ++ x :: r) (Z.of_nat (length pd)) 0 = x).
      { unfold znth. rewrite Nat2Z.id, <- Hpr, app_nth2, Nat.sub_diag by lia. reflexivity. }
      assert (E2 : znth (pc ++ y :: c) (Z.of_nat (length pd)) 0 = y).
      { unfold znth. rewrite Nat2Z.id, <- Hpc, app_nth2, Nat.sub_diag by lia. reflexivity. }
      assert (E3 : znth (pd ++ v :: dt) (Z.of_nat (length pd)) vzero = v).
      { unfold znth. rewrite Nat2Z.id, app_nth2, Nat.sub_diag by lia. reflexivity. }
      unfold term. rewrite E1, E2, E3.
      replace (pr ++ x :: r) with ((pr ++ [x]) ++ r) by (rewrite <- app_assoc; reflexivity).
      replace (pc ++ y :: c) with ((pc ++ [y]) ++ c) by (rewrite <- app_assoc; reflexivity).
      replace (pd ++ v :: dt) with ((pd ++ [v]) ++ dt) by (rewrite <- app_assoc; reflexivity).
      replace (Z.of_nat (length pd) + 1) with (Z.of_nat (length (pd ++ [v]))) by (rewrite app_length; simpl; lia).
      rewrite (IH r c ltac:(lia) ltac:(lia) (pr ++ [x]) (pc ++ [y]) (pd ++ [v])) by (rewrite !app_length; simpl; lia).
      reflexivity.
  Qed.

  Definition row_of (i : Z) (cs : list (Z * Z * V)) : list (Z * V) :=
    map (fun t => (snd (fst t), snd t)) (filter (fun t => fst (fst t) =? i) cs).

  Lemma acc_list_vsum cs i j s :
    acc_list cs i j s = vadd s (vsum V vzero vadd (map (fun cv => vmul (snd cv) (a2 j (fst cv))) (row_of i cs))).
  Proof.
    unfold acc_list, row_of. revert s; induction cs as [|[[r c] v] cs IH]; intros s; simpl.
    - symmetry. apply (add_0_r V vzero vadd vmul SR).
    - destruct (Z.eqb_spec r i); simpl; rewrite IH; [|reflexivity].
      rewrite (sr_add_assoc _ _ _ SR). reflexivity.
  Qed.

  Lemma cell_lookup_row_of cs i c : cell_lookup V cs i c = row_lookup (row_of i cs) c.
  Proof.
    unfold row_of. induction cs as [|[[r c'] v] cs IH]; simpl; [reflexivity|].
    rewrite IH. destruct (Z.eqb_spec r i); simpl; [reflexivity|].
    destruct (row_lookup (map (fun t => (snd (fst t), snd t)) (filter (fun t => fst (fst t) =? i) cs)) c); reflexivity.
  Qed.

  Lemma row_of_keys_NoDup cs i : NoDup (map fst cs) -> NoDup (map fst (row_of i cs)).
  Proof.
    unfold row_of. induction cs as [|[[r c] v] cs IH]; simpl; intros Hnd; [constructor|].
    apply NoDup_cons_iff in Hnd. destruct Hnd as [Hni Hnd]. specialize (IH Hnd).
    destruct (Z.eqb_spec r i) as [->|Hne]; simpl; [|exact IH].
    constructor; [|exact IH]. intros Hin. apply Hni.
    rewrite map_map in Hin. simpl in Hin. apply in_map_iff in Hin. destruct Hin as [[[r' c''] v'] [E Hin]].
    simpl in E. subst c''. apply filter_In in Hin. destruct Hin as [Hin Er]. simpl in Er. apply Z.eqb_eq in Er. subst r'.
    apply in_map_iff. exists (i, c, v'). split; [reflexivity|exact Hin].
  Qed.

  (* _dot_coo_ndarray computes s1 @ x2.T: out[i, j] = sum_c s1[i, c] * array2[j, c] *)
  Theorem dot_coo_ndarray_den_proof (rows cols : list Z) (data : list V) (n_in out_cols : Z) (fuel : nat) :
    length rows = length data -> length cols = length data ->
    NoDup (combine rows cols) -> Forall (fun c => 0 <= c < n_in) cols ->
    (length data <= fuel)%nat ->
    exists o, dot_coo_ndarray V vzero vadd vmul fuel rows cols data a2 out_cols = KOk o
      /\ forall i j, 0 <= j < out_cols ->
           o i j = np_matmul2 V vzero vadd vmul n_in (coo_cells_den V vzero rows cols data) (fun c j => a2 j c) i j.
  Proof.
    intros Hr Hc Hnd Hrange Hf.
    destruct (dot_coo_ndarray_acc V vzero vadd vmul rows cols data a2 out_cols fuel Hf) as [o [E Ho]].
    exists o. split; [exact E|]. intros i j Hj. rewrite (Ho i j Hj).
    pose proof (acc_from_cells rows cols data i j Hr Hc [] [] [] vzero eq_refl eq_refl) as Ha. simpl in Ha.
    rewrite Ha, acc_list_vsum, (sr_add_0_l _ _ _ SR).
    set (cs := combine (combine rows cols) data).
    assert (Hfst : map fst cs = combine rows cols) by (unfold cs; apply map_fst_combine; rewrite combine_length; lia).
    rewrite (sparse_row_sum V vzero vadd vmul SR (a2 j) n_in (row_of i cs)).
    - unfold np_matmul2, sum_over. f_equal. apply map_ext. intros c. f_equal.
      unfold row_get, coo_cells_den. fold cs. rewrite cell_lookup_row_of. reflexivity.
    - apply row_of_keys_NoDup. rewrite Hfst. exact Hnd.
    - apply Forall_forall. intros [c v] Hin. simpl. unfold row_of in Hin. apply in_map_iff in Hin.
      destruct Hin as [[[r' c'] v'] [E' Hin]]. simpl in E'. inversion E'; subst c' v'.
      apply filter_In in Hin. destruct Hin as [Hin _].
      assert (In (r', c) (combine rows cols)) by (rewrite <- Hfst; apply in_map_iff; exists (r', c, v); auto).
      apply in_combine_r in H. rewrite Forall_forall in Hrange. apply Hrange. exact H.
  Qed.
End CooNdDen2.

(* ====================================================================== _dot dispatch *)
Theorem dot_dispatch_total_proof (a_argmin : bool) (ka kb : okind) (rt : rtype) :
  exists ker o, dot_dispatch a_argmin ka kb rt = Some (ker, o)
    /\ (is_sparse_kind ka || is_sparse_kind kb = true -> rkind_matches rt o = true).
Proof.
  destruct ka as [|[|]|], kb as [|[|]|], rt, a_argmin; simpl; eexists; eexists; split; try reflexivity; auto;
    try discriminate.
Qed.

(* the kernel choice of two GCXS operands does not depend on anything but a's compressed axes *)
Lemma dot_dispatch_gcxs (a_argmin ca cb : bool) (rt : rtype) :
  fst (match dot_dispatch a_argmin (KGcxs ca) (KGcxs cb) rt with Some p => p | None => (KerNpDot, ONd) end)
  = if ca then KerCsrCsrT else KerCsrCsr.
Proof. destruct ca, cb, rt, a_argmin; reflexivity. Qed.

(* the hand-written dispatch is what the source does: equality with the table extracted from _dot's AST *)
Theorem dot_dispatch_matches_source_proof (a_argmin : bool) (ka kb : okind) (rt : rtype) :
  source_dispatch a_argmin ka kb rt
  = Some (match dot_dispatch a_argmin ka kb rt with
          | Some (ker, o) => Some (kernel_code ker, rkind_code o)
          | None => None end).
Proof. destruct a_argmin, ka as [|[|]|], kb as [|[|]|], rt; vm_compute; reflexivity. Qed.

(* matmul's case chain (generated): which strategy for which dimensionalities *)
Theorem matmul_route_spec_proof (a_ndim b_ndim a_lead b_lead : Z) :
  matmul_route a_ndim b_ndim a_lead b_lead
  = Some (if b_ndim <=? 2 then MmDot
          else if a_ndim <=? 2 then MmDotMoveAxis
          else if (a_ndim <=? b_ndim) && (a_lead =? 1) then MmSqueezeA
          else if (b_ndim <=? a_ndim) && (b_lead =? 1) then MmSqueezeB
          else MmBatch).
Proof.
  unfold matmul_route, s_matmul_case. cbn.
  destruct (Z.leb_spec b_ndim 2); cbn; [reflexivity|].
  destruct (Z.leb_spec a_ndim 2); cbn; [reflexivity|].
  destruct (Z.leb_spec a_ndim b_ndim); cbn.
  - destruct (Z.eqb_spec a_lead 1); cbn; [reflexivity|].
    destruct (Z.leb_spec b_ndim a_ndim); cbn; [|reflexivity].
    destruct (Z.eqb_spec b_lead 1); cbn; reflexivity.
  - destruct (Z.leb_spec b_ndim a_ndim); cbn; [|reflexivity].
    destruct (Z.eqb_spec b_lead 1); cbn; reflexivity.
Qed.

(* ====================================================================== dot: routing (generated g_dot) *)
Ltac split_one :=
  match goal with
  | |- context [Z.eqb ?a ?b] => destruct (Z.eqb_spec a b)
  | |- context [Z.ltb ?a ?b] => destruct (Z.ltb_spec a b)
  end.

Lemma dot_route_1d (la lb : Z) :
  dot_route 1 1 la lb = if la =? lb then Ok Path1d else Raise ValueError.
Proof.
  unfold dot_route, g_dot. cbn. destruct (Z.eqb_spec la lb); cbn; reflexivity.
Qed.

Lemma dot_route_nd (a_ndim b_ndim la lb : Z) :
  negb ((a_ndim =? 1) && (b_ndim =? 1)) = true ->
  dot_route a_ndim b_ndim la lb = Ok (PathTensordot (-1) (if b_ndim =? 1 then -1 else -2)).
Proof.
  unfold dot_route, g_dot. cbn.
  destruct (Z.eqb_spec a_ndim 1); cbn; destruct (Z.eqb_spec b_ndim 1); cbn; intros H; try discriminate; reflexivity.
Qed.

Section Dot1d.
  Variable V : Type.
  Variable vzero : V.
  Variable vadd vmul : V -> V -> V.

  (* dot of two 1-d operands is NumPy's: the product-sum for equal lengths, ValueError otherwise *)
  Theorem dot_1d_correct_proof (a b : list V) :
    dot_1d V vzero vadd vmul a b
    = match np_dot_1d V vzero vadd vmul a b with Some v => Ok v | None => Raise ValueError end.
  Proof.
    unfold dot_1d, np_dot_1d. rewrite dot_route_1d.
    destruct (Nat.eqb_spec (length a) (length b)) as [E|E].
    - rewrite E, Z.eqb_refl. reflexivity.
    - destruct (Z.eqb_spec (Z.of_nat (length a)) (Z.of_nat (length b))); [lia|reflexivity].
  Qed.
End Dot1d.

(* ====================================================================== shapes: products of shapes *)
Lemma size_app s1 s2 : size (s1 ++ s2) = size s1 * size s2.
Proof. induction s1 as [|d s1 IH]; simpl; [lia|]. rewrite IH. lia. Qed.

Lemma shape_ok_app s1 s2 : shape_ok (s1 ++ s2) <-> shape_ok s1 /\ shape_ok s2.
Proof. unfold shape_ok. apply Forall_app. Qed.

Lemma in_range_app s1 s2 i1 i2 : in_range s1 i1 -> in_range s2 i2 -> in_range (s1 ++ s2) (i1 ++ i2).
Proof.
  revert i1; induction s1 as [|d s1 IH]; intros [|x i1]; simpl; try tauto.
  intros [Hx H1] H2. split; auto.
Qed.

Lemma in_range_split s1 s2 ix : in_range (s1 ++ s2) ix ->
  in_range s1 (firstn (length s1) ix) /\ in_range s2 (skipn (length s1) ix).
Proof.
  revert ix; induction s1 as [|d s1 IH]; intros ix; simpl.
  - intros H. split; [exact I|exact H].
  - destruct ix as [|x ix]; [tauto|]. intros [Hx H]. destruct (IH _ H). simpl. tauto.
Qed.

Lemma ravel_app s1 s2 i1 i2 : in_range s1 i1 ->
  ravel (s1 ++ s2) (i1 ++ i2) = ravel s1 i1 * size s2 + ravel s2 i2.
Proof.
  revert i1; induction s1 as [|d s1 IH]; intros [|x i1]; simpl; try tauto; try (intros _; lia).
  intros [_ H]. rewrite (IH _ H), size_app. lia.
Qed.

Lemma unravel_app s1 s2 n m : shape_ok s1 -> shape_ok s2 -> 0 <= n < size s1 -> 0 <= m < size s2 ->
  unravel (s1 ++ s2) (n * size s2 + m) = unravel s1 n ++ unravel s2 m.
Proof.
  revert n; induction s1 as [|d s1 IH]; intros n H1 H2 Hn Hm; simpl in *.
  - assert (n = 0) by lia. subst. simpl. reflexivity.
  - inversion H1 as [|? ? Hd H1']; subst.
    pose proof (size_nonneg _ H1') as Hs1. pose proof (size_nonneg _ H2) as Hs2.
    assert (0 < size s1) by nia. assert (0 < size s2) by lia.
    rewrite size_app.
    assert (Hq : (n * size s2 + m) / (size s1 * size s2) = n / size s1).
    { replace (size s1 * size s2) with (size s2 * size s1) by lia.
      rewrite <- Z.div_div by lia. f_equal. rewrite Z.div_add_l by lia. rewrite (Z.div_small m) by lia. lia. }
    assert (Hr : (n * size s2 + m) mod (size s1 * size s2) = (n mod size s1) * size s2 + m).
    { pose proof (Z.div_mod n (size s1) ltac:(lia)) as Hdm.
      pose proof (Z.mod_pos_bound n (size s1) ltac:(lia)) as Hb.
      symmetry. apply (Z.mod_unique_pos _ _ (n / size s1)); [nia|]. nia. }
    rewrite Hq, Hr. f_equal. apply IH; auto. apply Z.mod_pos_bound. lia.
Qed.

Lemma size_perm s1 s2 : Permutation s1 s2 -> size s1 = size s2.
Proof. induction 1; simpl; try lia. Qed.

Lemma all_indices_nil sh : shape_ok sh -> size sh = 0 -> all_indices sh = [].
Proof.
  induction sh as [|d sh IH]; simpl; intros Hok Hs; [lia|].
  inversion Hok as [|? ? Hd Hok']; subst.
  destruct (Z.eq_dec d 0) as [->|Hne]; [reflexivity|].
  assert (size sh = 0) by nia. rewrite (IH Hok' H).
  induction (zrange d); simpl; auto.
Qed.

Lemma zrange_succ n : 0 <= n -> zrange (n + 1) = zrange n ++ [n].
Proof.
  intros H. unfold zrange. replace (Z.to_nat (n + 1)) with (S (Z.to_nat n)) by lia.
  rewrite seq_S, map_app. simpl. f_equal. f_equal. lia.
Qed.

Lemma seq_add_map b : forall a, seq a b = map (fun x => (a + x)%nat) (seq 0 b).
Proof.
  induction b as [|b IH]; intros a; simpl; [reflexivity|]. f_equal; [lia|].
  rewrite (IH (S a)), (IH 1%nat), map_map. apply map_ext. intros x. lia.
Qed.

Lemma zrange_shift c k : 0 <= c -> 0 <= k -> zrange (c + k) = zrange c ++ map (fun j => c + j) (zrange k).
Proof.
  intros Hc Hk. unfold zrange. replace (Z.to_nat (c + k)) with (Z.to_nat c + Z.to_nat k)%nat by lia.
  rewrite seq_app, map_app. f_equal. simpl. rewrite (seq_add_map (Z.to_nat k) (Z.to_nat c)), !map_map.
  apply map_ext. intros x. lia.
Qed.

Lemma zrange_mul d S : 0 <= d -> 0 <= S ->
  zrange (d * S) = flat_map (fun i => map (fun m => i * S + m) (zrange S)) (zrange d).
Proof.
  intros Hd HS. rewrite <- (Z2Nat.id d Hd). induction (Z.to_nat d) as [|n IH].
  - simpl. reflexivity.
  - rewrite Nat2Z.inj_succ. unfold Z.succ. rewrite zrange_succ by lia. rewrite flat_map_app. simpl.
    rewrite app_nil_r, <- IH. replace ((Z.of_nat n + 1) * S) with (Z.of_nat n * S + S) by lia.
    apply zrange_shift; nia.
Qed.

Lemma all_indices_unravel sh : shape_ok sh -> map (unravel sh) (zrange (size sh)) = all_indices sh.
Proof.
  induction sh as [|d sh IH]; intros Hok; simpl.
  - reflexivity.
  - inversion Hok as [|? ? Hd Hok']; subst. pose proof (size_nonneg _ Hok') as HS.
    rewrite zrange_mul by assumption. rewrite <- (IH Hok').
    rewrite flat_map_concat_map, concat_map, map_map, <- flat_map_concat_map.
    apply flat_map_ext. intros i. rewrite !map_map. apply map_ext_in. intros m Hm.
    apply zrange_In in Hm.
    assert (Hq : (i * size sh + m) / size sh = i) by (rewrite Z.div_add_l by lia; rewrite (Z.div_small m) by lia; lia).
    assert (Hr : (i * size sh + m) mod size sh = m) by (rewrite Z.add_comm, Z.mod_add by lia; apply Z.mod_small; lia).
    rewrite Hq, Hr. reflexivity.
Qed.

(* ====================================================================== tensordot = NumPy's tensordot *)
Lemma NoDup_app_intro {A} (l1 l2 : list A) :
  NoDup l1 -> NoDup l2 -> (forall x, In x l1 -> ~ In x l2) -> NoDup (l1 ++ l2).
Proof.
  induction l1 as [|a l1 IH]; simpl; intros H1 H2 Hd; [exact H2|].
  apply NoDup_cons_iff in H1. destruct H1 as [Ha H1]. constructor.
  - intros Hin. apply in_app_or in Hin. destruct Hin as [?|Hin]; [contradiction|]. apply (Hd a); auto.
  - apply IH; auto.
Qed.

Lemma free_axes_perm nd axes : NoDup axes -> Forall (fun x => 0 <= x < Z.of_nat nd) axes ->
  Permutation (free_axes nd axes ++ axes) (zrange (Z.of_nat nd)).
Proof.
  intros Hnd Hr. unfold free_axes. apply NoDup_Permutation.
  - apply NoDup_app_intro; [apply NoDup_filter, zrange_NoDup|exact Hnd|].
    intros x Hx Hin. apply filter_In in Hx. destruct Hx as [_ Hx].
    apply negb_true_iff in Hx. assert (existsb (Z.eqb x) axes = true); [|congruence].
    apply existsb_exists. exists x. split; [exact Hin|apply Z.eqb_refl].
  - apply zrange_NoDup.
  - intros x. rewrite in_app_iff, filter_In, zrange_In. split.
    + intros [[H _]|H]; [exact H|]. rewrite Forall_forall in Hr. apply Hr. exact H.
    + intros H. destruct (existsb (Z.eqb x) axes) eqn:E.
      * right. apply existsb_exists in E. destruct E as [y [Hy E]]. apply Z.eqb_eq in E. subst. exact Hy.
      * left. split; [exact H|reflexivity].
Qed.

Lemma map_nthZ_zrange (sh : shape) : map (nthZ sh) (zrange (Z.of_nat (length sh))) = sh.
Proof.
  unfold zrange, nthZ. rewrite Nat2Z.id, map_map.
  rewrite (map_ext _ (fun i => nth i sh 0)) by (intros i; rewrite Nat2Z.id; reflexivity).
  induction sh as [|d sh IH]; simpl; [reflexivity|]. f_equal. rewrite <- seq_shift, map_map. exact IH.
Qed.

Lemma nthZ_nonneg sh ax : shape_ok sh -> 0 <= nthZ sh ax.
Proof.
  intros H. unfold nthZ. destruct (nth_in_or_default (Z.to_nat ax) sh 0) as [Hin | E]; [|rewrite E; lia].
  unfold shape_ok in H. rewrite Forall_forall in H. apply H. exact Hin.
Qed.

Lemma shape_ok_map_nthZ sh axes : shape_ok sh -> shape_ok (map (nthZ sh) axes).
Proof. intros H. apply Forall_forall. intros d Hd. apply in_map_iff in Hd. destruct Hd as [ax [<- _]]. apply nthZ_nonneg. exact H. Qed.

Lemma td_prod_size sh axes : td_prod sh axes = size (map (nthZ sh) axes).
Proof.
  unfold td_prod. assert (G : forall acc, fold_left (fun acc ax => acc * nthZ sh ax) axes acc = acc * size (map (nthZ sh) axes)).
  { induction axes as [|ax axes IH]; intros acc; simpl; [lia|]. rewrite IH. lia. }
  rewrite G. lia.
Qed.

Lemma unravel2 M P i k : 0 < P -> 0 <= k < P -> unravel [M; P] (i * P + k) = [i; k].
Proof.
  intros HP Hk. simpl. rewrite Z.mul_1_r, Z.div_1_r.
  assert (Hq : (i * P + k) / P = i) by (rewrite Z.div_add_l by lia; rewrite (Z.div_small k) by lia; lia).
  assert (Hr : (i * P + k) mod P = k) by (rewrite Z.add_comm, Z.mod_add by lia; apply Z.mod_small; lia).
  rewrite Hq, Hr. reflexivity.
Qed.

Section TensordotDen.
  Variable V : Type.
  Variable vzero : V.
  Variable vadd vmul : V -> V -> V.

  (* one pair of contracted axes: both in range (negative allowed) and of equal extent *)
  Definition axis_pair_ok (as_ bs : shape) (x y : Z) : Prop :=
    - Z.of_nat (length as_) <= x < Z.of_nat (length as_) /\ - Z.of_nat (length bs) <= y < Z.of_nat (length bs) /\
    nthZ as_ (norm_axis (Z.of_nat (length as_)) x) = nthZ bs (norm_axis (Z.of_nat (length bs)) y).

  Lemma td_match_ok as_ bs axes_a axes_b : Forall2 (axis_pair_ok as_ bs) axes_a axes_b ->
    td_match as_ bs axes_a axes_b
    = Ok (Some (map (norm_axis (Z.of_nat (length as_))) axes_a, map (norm_axis (Z.of_nat (length bs))) axes_b)).
  Proof.
    induction 1 as [|x y ra rb [Hx [Hy He]] Hr IH]; simpl; [reflexivity|].
    unfold py_index.
    destruct (Z.ltb_spec x (- Z.of_nat (length as_))); [lia|]. destruct (Z.leb_spec (Z.of_nat (length as_)) x); [lia|].
    destruct (Z.ltb_spec y (- Z.of_nat (length bs))); [lia|]. destruct (Z.leb_spec (Z.of_nat (length bs)) y); [lia|].
    simpl. rewrite He, Z.eqb_refl. simpl. rewrite IH. simpl. reflexivity.
  Qed.

  Lemma norm_axis_range nd x : - nd <= x < nd -> 0 <= norm_axis nd x < nd.
  Proof. unfold norm_axis. destruct (Z.ltb_spec x 0); lia. Qed.

  Theorem tensordot_den_proof (a b : arr V) (axes_a axes_b : list Z) :
    let as_ := a_shape a in
    let bs := a_shape b in
    let axa := map (norm_axis (Z.of_nat (length as_))) axes_a in
    let axb := map (norm_axis (Z.of_nat (length bs))) axes_b in
    shape_ok as_ -> shape_ok bs -> (0 < length as_)%nat -> (0 < length bs)%nat ->
    Forall2 (axis_pair_ok as_ bs) axes_a axes_b -> NoDup axa -> NoDup axb ->
    exists r, tensordot_m V vzero vadd vmul a b axes_a axes_b = Ok r
      /\ a_shape r = a_shape (np_tensordot V vzero vadd vmul a b axa axb)
      /\ forall ix, in_range (a_shape r) ix -> a_at r ix = a_at (np_tensordot V vzero vadd vmul a b axa axb) ix.
  Proof.
    intros as_ bs axa axb Hoka Hokb Hnda Hndb Hpairs HNa HNb.
    assert (Hlen : length axes_a = length axes_b) by (clear -Hpairs; induction Hpairs; simpl; congruence).
    assert (Hra : Forall (fun x => 0 <= x < Z.of_nat (length as_)) axa).
    { apply Forall_forall. intros x Hx. apply in_map_iff in Hx. destruct Hx as [x0 [<- Hx0]].
      apply norm_axis_range. clear -Hpairs Hx0. induction Hpairs as [|? ? ? ? [H _] _ IH]; simpl in Hx0; [tauto|].
      destruct Hx0 as [->|?]; auto. }
    assert (Hrb : Forall (fun y => 0 <= y < Z.of_nat (length bs)) axb).
    { apply Forall_forall. intros y Hy. apply in_map_iff in Hy. destruct Hy as [y0 [<- Hy0]].
      apply norm_axis_range. clear -Hpairs Hy0. induction Hpairs as [|? ? ? ? [_ [H _]] _ IH]; simpl in Hy0; [tauto|].
      destruct Hy0 as [->|?]; auto. }
    assert (Hsc : map (nthZ as_) axa = map (nthZ bs) axb).
    { unfold axa, axb. clear -Hpairs. induction Hpairs as [|? ? ? ? [_ [_ H]] _ IH]; simpl; [reflexivity|]. rewrite H, IH. reflexivity. }
    set (fa := free_axes (length as_) axa). set (fb := free_axes (length bs) axb).
    set (olda := map (nthZ as_) fa). set (oldb := map (nthZ bs) fb). set (sc := map (nthZ as_) axa).
    assert (Hsa : size as_ = size olda * size sc).
    { rewrite <- (map_nthZ_zrange as_) at 1.
      rewrite <- (size_perm _ _ (Permutation_map (nthZ as_) (free_axes_perm (length as_) axa HNa Hra))).
      rewrite map_app, size_app. fold fa. fold olda. fold sc. reflexivity. }
    assert (Hsb : size bs = size sc * size oldb).
    { rewrite <- (map_nthZ_zrange bs) at 1.
      rewrite <- (size_perm _ _ (Permutation_map (nthZ bs) (free_axes_perm (length bs) axb HNb Hrb))).
      rewrite map_app, size_app, <- Hsc. fold fb. fold oldb. fold sc. lia. }
    assert (Hok_olda : shape_ok olda) by (apply shape_ok_map_nthZ; exact Hoka).
    assert (Hok_oldb : shape_ok oldb) by (apply shape_ok_map_nthZ; exact Hokb).
    assert (Hok_sc : shape_ok sc) by (apply shape_ok_map_nthZ; exact Hoka).
    pose proof (size_nonneg _ Hok_sc) as Hsc0.
    unfold tensordot_m. fold as_ bs.
    destruct (Z.eqb_spec (Z.of_nat (length as_)) 0); [lia|]. destruct (Z.eqb_spec (Z.of_nat (length bs)) 0); [lia|].
    simpl orb. cbv iota. rewrite Hlen, Nat.eqb_refl. simpl negb. cbv iota.
    rewrite (td_match_ok as_ bs axes_a axes_b Hpairs). fold axa axb. simpl bind.
    rewrite !td_prod_size. rewrite <- Hsc. fold fa fb olda oldb sc.
    unfold td_shortcut, s_td_shortcut, s_td_newshape_a, s_td_newshape_b. simpl existsb.
    destruct (Z.eqb_spec (size sc) 0) as [Hz|Hnz].
    - (* contracted extent 0: the shortcut; NumPy sums over the empty index space *)
      simpl. eexists. split; [reflexivity|]. split; [reflexivity|].
      intros ix _. cbn [np_tensordot a_at]. unfold sum_idx. fold as_. fold sc. rewrite (all_indices_nil sc Hok_sc Hz). reflexivity.
    - simpl. eexists. split; [reflexivity|]. split; [reflexivity|].
      intros ix Hix. simpl in Hix.
      assert (HM : size as_ / size sc = size olda) by (rewrite Hsa; apply Z.div_mul; lia).
      assert (HP : size bs / size sc = size oldb) by (rewrite Hsb, Z.mul_comm; apply Z.div_mul; lia).
      destruct (in_range_split olda oldb ix Hix) as [Hia Hib].
      set (ia := firstn (length olda) ix) in *. set (ib := skipn (length olda) ix) in *.
      assert (Hixs : ix = ia ++ ib) by (symmetry; apply firstn_skipn).
      pose proof (ravel_bounds _ _ Hia) as Hbi. pose proof (ravel_bounds _ _ Hib) as Hbk.
      (* left-hand side *)
      cbn [np_reshape a_at a_shape arr_of_mat]. rewrite HM, HP.
      rewrite Hixs at 1. rewrite (ravel_app olda oldb ia ib Hia).
      rewrite (unravel2 (size olda) (size oldb) (ravel olda ia) (ravel oldb ib)) by lia.
      unfold np_matmul2, sum_over.
      (* right-hand side *)
      cbn [np_tensordot a_at]. fold as_ bs fa fb sc. unfold sum_idx.
      replace (firstn (length fa) ix) with ia by (unfold ia, olda; rewrite map_length; reflexivity).
      replace (skipn (length fa) ix) with ib by (unfold ib, olda; rewrite map_length; reflexivity).
      rewrite <- (all_indices_unravel sc Hok_sc), map_map. f_equal.
      apply map_ext_in. intros j Hj. apply zrange_In in Hj. f_equal.
      + unfold mat_of. cbn [np_reshape a_at a_shape np_transpose].
        fold as_. rewrite map_app. fold olda sc.
        replace (ravel [size olda; size sc] [ravel olda ia; j]) with (ravel olda ia * size sc + j) by (simpl; lia).
        rewrite (unravel_app olda sc) by (auto; lia).
        rewrite (unravel_ravel _ _ Hia). reflexivity.
      + unfold mat_of. cbn [np_reshape a_at a_shape np_transpose].
        fold bs. rewrite map_app. rewrite <- Hsc. fold oldb sc.
        replace (ravel [size sc; size oldb] [j; ravel oldb ib]) with (j * size oldb + ravel oldb ib) by (simpl; lia).
        rewrite (unravel_app sc oldb) by (auto; lia).
        rewrite (unravel_ravel _ _ Hib). reflexivity.
  Qed.
End TensordotDen.

(* ====================================================================== _dot_coo_coo *)
Section CooCoo.
  Variable V : Type.
  Variable vzero : V.
  Variable vadd vmul : V -> V -> V.
  Hypothesis SR : comm_semiring vzero vadd vmul.

  Definition tag_row (i : Z) (r : list (Z * V)) : list (Z * Z * V) := map (fun kv => (i, fst kv, snd kv)) r.
  Definition coo_out (a b : csr V) (is : list Z) : list (Z * Z * V) :=
    concat (map (fun i => tag_row i (abs_row V vzero vadd vmul a b i)) is).

  Lemma coo_row_step_spec n_col a b sm out i :
    0 <= n_col -> keys_ok V vmul n_col a b -> all_zero V vzero n_col sm ->
    exists sm2,
      coo_row_step V vzero vadd vmul n_col a b (sm, out) i
      = (sm2, out ++ tag_row i (abs_row V vzero vadd vmul a b i))
      /\ all_zero V vzero n_col sm2.
  Proof.
    intros Hn Hk [Hs Hz]. unfold coo_row_step.
    set (ps := prod_stream V vmul a b i).
    destruct (acc_fold V vzero vadd n_col ps (Hk i) _ sm (-2) 0 [] (LL_init n_col Hn) Hs)
      as [nx1 [sm1 [h1 [len1 [E [HLL [Hs1 Hv]]]]]]].
    rewrite E. destruct HLL as [Hnx Hlen Hc Hnd Hr Hm].
    fold (touched (map fst ps)) in *. set (l := touched (map fst ps)) in *.
    destruct (emit_spec V vzero n_col l nx1 sm1 h1 Hc Hnd Hr Hnx Hs1) as [nx2 [sm2 [h2 [E2 [Hs2 Hv2]]]]].
    rewrite Hlen, Nat2Z.id, E2.
    assert (Hrow : map (fun k => (k, znth sm1 k vzero)) l = abs_row V vzero vadd vmul a b i).
    { unfold abs_row. fold ps. fold l. apply map_ext_in. intros k Hin.
      rewrite Forall_forall in Hr. specialize (Hr _ Hin). rewrite (Hv k Hr), (Hz k Hr). reflexivity. }
    exists sm2. split.
    - rewrite Hrow. reflexivity.
    - split; [exact Hs2|]. intros k Hk0. rewrite (Hv2 k Hk0).
      destruct (mem_z k l) eqn:Em; [reflexivity|].
      rewrite (Hv k Hk0), (Hz k Hk0). apply ksum_notin. intros Hin.
      apply (proj2 (touched_In _ _)) in Hin. fold l in Hin. apply mem_z_In in Hin. congruence.
  Qed.

  Lemma coo_loops_fold n_col a b : 0 <= n_col -> keys_ok V vmul n_col a b ->
    forall (is : list Z) sm out, all_zero V vzero n_col sm ->
    exists sm',
      fold_left (coo_row_step V vzero vadd vmul n_col a b) is (sm, out) = (sm', out ++ coo_out a b is)
      /\ all_zero V vzero n_col sm'.
  Proof.
    intros Hn Hk. induction is as [|i is IH]; intros sm out Hz.
    - exists sm. unfold coo_out. simpl. rewrite app_nil_r. auto.
    - destruct (coo_row_step_spec n_col a b sm out i Hn Hk Hz) as [sm2 [E Hz2]].
      cbn [fold_left]. rewrite E.
      destruct (IH sm2 (out ++ tag_row i (abs_row V vzero vadd vmul a b i)) Hz2) as [sm' [E' Hz']].
      exists sm'. rewrite E'. unfold coo_out. simpl. rewrite <- app_assoc. auto.
  Qed.

  Lemma coo_out_length a b is :
    length (coo_out a b is) = length (concat (map (fun i => touched (map fst (prod_stream V vmul a b i))) is)).
  Proof.
    unfold coo_out. apply length_concat_map_ext. intros i. unfold tag_row, abs_row. rewrite !map_length. reflexivity.
  Qed.

  Lemma dot_coo_coo_ok n_row n_in n_col (a b : csr V) :
    csr_wfb n_row n_in a = true -> csr_wfb n_in n_col b = true ->
    dot_coo_coo V vzero vadd vmul n_row n_col a b
    = let out := coo_out a b (zrange n_row) in
      KOk (map (fun t => fst (fst t)) out, map (fun t => snd (fst t)) out, map snd out).
  Proof.
    intros Ha Hb. unfold dot_coo_coo.
    destruct (csr_wfb_facts V _ _ _ Ha) as [Ha1 _].
    destruct (csr_wfb_facts V _ _ _ Hb) as [Hb1 [_ [Hn [_ [Hb5 _]]]]].
    pose proof (keys_ok_wf V vmul n_col a b Hb5) as Hk.
    destruct (coo_loops_fold n_col a b Hn Hk (zrange n_row) _ [] (all_zero_init V vzero n_col Hn)) as [sm' [E _]].
    rewrite E. simpl app.
    rewrite count_spec; auto.
    - rewrite coo_out_length.
      rewrite (map_ext (fun i => touched (map fst (prod_stream V vmul a b i)))
                       (fun i => touched (row_keys (m_indices a) (m_indices b) (m_indptr a) (m_indptr b) i)))
        by (intros i; rewrite prod_stream_keys by assumption; reflexivity).
      rewrite Z.ltb_irrefl. reflexivity.
    - intros i. rewrite <- (prod_stream_keys V vmul a b i Ha1 Hb1).
      specialize (Hk i). rewrite Forall_forall in *. intros k Hin. apply in_map_iff in Hin.
      destruct Hin as [kp [<- Hin]]. apply Hk. exact Hin.
  Qed.

  Lemma combine3 (out : list (Z * Z * V)) :
    combine (combine (map (fun t => fst (fst t)) out) (map (fun t => snd (fst t)) out)) (map snd out) = out.
  Proof. induction out as [|[[r c] v] out IH]; simpl; congruence. Qed.

  Lemma cell_lookup_app (l1 l2 : list (Z * Z * V)) i k :
    cell_lookup V (l1 ++ l2) i k = match cell_lookup V l2 i k with Some w => Some w | None => cell_lookup V l1 i k end.
  Proof.
    induction l1 as [|[[r c] v] l1 IH]; simpl; [destruct (cell_lookup V l2 i k); reflexivity|].
    rewrite IH. destruct (cell_lookup V l2 i k); reflexivity.
  Qed.

  Lemma cell_lookup_tag_row i' r i k :
    cell_lookup V (tag_row i' r) i k = if i' =? i then row_lookup r k else None.
  Proof.
    induction r as [|[c v] r IH]; simpl; [destruct (i' =? i); reflexivity|].
    rewrite IH. destruct (Z.eqb_spec i' i); simpl.
    - destruct (row_lookup r k); reflexivity.
    - reflexivity.
  Qed.

  Lemma cell_lookup_coo_out a b (is : list Z) i k : NoDup is ->
    cell_lookup V (coo_out a b is) i k
    = if mem_z i is then row_lookup (abs_row V vzero vadd vmul a b i) k else None.
  Proof.
    unfold coo_out. induction is as [|i' is IH]; simpl; intros Hnd; [reflexivity|].
    apply NoDup_cons_iff in Hnd. destruct Hnd as [Hni Hnd].
    rewrite cell_lookup_app, (IH Hnd), cell_lookup_tag_row. unfold mem_z in *. simpl.
    destruct (Z.eqb_spec i i') as [->|Hne]; simpl.
    - destruct (existsb (Z.eqb i') is) eqn:Em.
      + exfalso. apply Hni. apply existsb_exists in Em. destruct Em as [y [Hy Ey]]. apply Z.eqb_eq in Ey. subst. exact Hy.
      + rewrite Z.eqb_refl. reflexivity.
    - destruct (existsb (Z.eqb i) is).
      + destruct (row_lookup (abs_row V vzero vadd vmul a b i) k); [reflexivity|].
        destruct (Z.eqb_spec i' i); [congruence|reflexivity].
      + destruct (Z.eqb_spec i' i); [congruence|reflexivity].
  Qed.

  Lemma abs_row_get a b i k :
    match row_lookup (abs_row V vzero vadd vmul a b i) k with Some v => v | None => vzero end
    = ssum V vzero vadd k (prod_stream V vmul a b i).
  Proof.
    unfold abs_row. rewrite row_lookup_map_key by apply touched_NoDup.
    destruct (mem_z k (touched (map fst (prod_stream V vmul a b i)))) eqn:E.
    - rewrite (ksum_ssum V vzero vadd vmul SR). apply (sr_add_0_l _ _ _ SR).
    - symmetry. apply ssum_notin. intros Hin. apply (proj2 (touched_In _ _)) in Hin. apply mem_z_In in Hin. congruence.
  Qed.

  (* the promise has_duplicates=False that _dot makes to the COO constructor *)
  Lemma coo_out_coords_NoDup a b (is : list Z) : NoDup is ->
    NoDup (map fst (coo_out a b is)).
  Proof.
    unfold coo_out. induction is as [|i is IH]; simpl; intros Hnd; [constructor|].
    apply NoDup_cons_iff in Hnd. destruct Hnd as [Hni Hnd]. rewrite map_app.
    apply NoDup_app_intro; [|apply IH; exact Hnd|].
    - unfold tag_row. rewrite map_map. simpl.
      rewrite <- (map_map fst (fun k => (i, k))).
      apply FinFun.Injective_map_NoDup; [intros x y H; inversion H; reflexivity|].
      rewrite abs_row_keys. apply touched_NoDup.
    - intros [r c] Hin Hin2. unfold tag_row in Hin. rewrite map_map in Hin. simpl in Hin.
      apply in_map_iff in Hin. destruct Hin as [kv [E _]]. inversion E; subst r.
      apply in_map_iff in Hin2. destruct Hin2 as [[[r' c'] v'] [E2 Hin2]]. simpl in E2. inversion E2; subst r' c'.
      apply in_concat in Hin2. destruct Hin2 as [row [Hrow Hc]]. apply in_map_iff in Hrow.
      destruct Hrow as [i' [<- Hi']]. unfold tag_row in Hc. apply in_map_iff in Hc. destruct Hc as [kv' [E3 _]].
      inversion E3; subst. contradiction.
  Qed.

  Theorem spcoo_den_proof n_row n_in n_col (a b : csr V) :
    csr_wfb n_row n_in a = true -> csr_wfb n_in n_col b = true ->
    exists rows cols data,
      dot_coo_coo V vzero vadd vmul n_row n_col a b = KOk (rows, cols, data)
      /\ length rows = length data /\ length cols = length data
      /\ NoDup (combine rows cols)
      /\ forall i k, 0 <= i < n_row ->
           coo_cells_den V vzero rows cols data i k
           = np_matmul2 V vzero vadd vmul n_in (csr_den V vzero a) (csr_den V vzero b) i k.
  Proof.
    intros Ha Hb. rewrite (dot_coo_coo_ok _ _ _ _ _ Ha Hb). cbv zeta.
    set (out := coo_out a b (zrange n_row)).
    eexists. eexists. eexists. split; [reflexivity|]. rewrite !map_length. split; [reflexivity|]. split; [reflexivity|].
    split.
    - replace (combine (map (fun t => fst (fst t)) out) (map (fun t => snd (fst t)) out)) with (map fst out).
      + apply coo_out_coords_NoDup, zrange_NoDup.
      + clear. induction out as [|[[r c] v] out IH]; simpl; congruence.
    - intros i k Hi. unfold coo_cells_den. rewrite combine3. unfold out.
      rewrite cell_lookup_coo_out by apply zrange_NoDup.
      assert (Hm : mem_z i (zrange n_row) = true) by (apply mem_z_In, zrange_In; exact Hi).
      rewrite Hm, abs_row_get. apply (spgemm_den_row V vzero vadd vmul SR _ _ _ _ _ _ _ Ha Hb Hi).
  Qed.
End CooCoo.

(* ====================================================================== csc @ csc by transposition *)
(* _dot's GCXS x GCXS branch for compressed_axes == (1,):  a @ b = (b.T @ a.T).T — the CSC triple of a
   matrix is the CSR triple of its transpose, and the kernel is called as
   _dot_csr_csr(out_shape[::-1], b..., a...).  ac, bc: the triples of a (m x n) and b (n x p). *)
Theorem spgemm_csc_den_proof (V : Type) (vzero : V) (vadd vmul : V -> V -> V) :
  comm_semiring vzero vadd vmul ->
  forall (m n p : Z) (ac bc : csr V),
    csr_wfb n m ac = true -> csr_wfb p n bc = true ->
    exists r, dot_csr_csr V vzero vadd vmul p m bc ac = KOk r /\ csr_wfb p m r = true /\
      forall i k, 0 <= k < p ->
        csr_den V vzero r k i
        = np_matmul2 V vzero vadd vmul n (fun i j => csr_den V vzero ac j i) (fun j k => csr_den V vzero bc k j) i k.
Proof.
  intros SR m n p ac bc Ha Hb.
  destruct (spgemm_den_proof V vzero vadd vmul SR p n m bc ac Hb Ha) as [r [E Hden]].
  destruct (spgemm_rows_sorted_proof V vzero vadd vmul p n m bc ac Hb Ha) as [r' [E' Hwf]].
  rewrite E in E'. inversion E'; subst r'.
  exists r. split; [exact E|split; [exact Hwf|]]. intros i k Hk. rewrite (Hden k i Hk).
  unfold np_matmul2, sum_over. f_equal. apply map_ext. intros j. apply (sr_mul_comm _ _ _ SR).
Qed.

(* ====================================================================== _dot_csc_ndarray_sparse *)
(* a CSR triple assembled from a list of rows *)
Lemma offs_length_ext {A B} (R : list (list A)) (R' : list (list B)) s :
  map (@length A) R = map (@length B) R' -> offs s R = offs s R'.
Proof.
  revert R' s; induction R as [|r R IH]; intros [|r' R'] s H; simpl in *; try discriminate; [reflexivity|].
  inversion H as [[H1 H2]]. rewrite H1, (IH R' _ H2). reflexivity.
Qed.

Section RowsCsr.
  Variable V : Type.
  Definition csr_of_rows (R : list (list (Z * V))) : csr V :=
    mkCSR (map snd (concat R)) (map fst (concat R)) (offs 0 R).

  Lemma csr_of_rows_row R i : (i < length R)%nat -> row_pairs (csr_of_rows R) (Z.of_nat i) = nth i R [].
  Proof.
    intros Hi. unfold row_pairs, csr_of_rows. simpl.
    assert (Hsl : forall {B} (f : Z * V -> B),
               slice_list (map f (concat R)) (znth (offs 0 R) (Z.of_nat i) 0) (znth (offs 0 R) (Z.of_nat i + 1) 0)
               = map f (nth i R [])).
    { intros B f. unfold znth. replace (Z.to_nat (Z.of_nat i + 1)) with (S i) by lia. rewrite Nat2Z.id.
      rewrite <- rows_of_nth by (rewrite offs_length; lia).
      rewrite concat_map, <- (offs_map f 0 R), rows_of_concat.
      rewrite <- (map_nth (map f)). reflexivity. }
    rewrite (Hsl _ fst), (Hsl _ snd). apply combine_fst_snd.
  Qed.

  Lemma csr_of_rows_wf n_row n_col R :
    Z.of_nat (length R) = n_row -> 0 <= n_col ->
    (forall r, In r R -> strictly_increasing (map fst r) = true /\ Forall (fun c => 0 <= c < n_col) (map fst r)) ->
    csr_wfb n_row n_col (csr_of_rows R) = true.
  Proof.
    intros HR Hn Hrows. unfold csr_wfb, csr_of_rows. simpl. rewrite !andb_true_iff. repeat split.
    - rewrite !map_length. apply Nat.eqb_refl.
    - apply Z.leb_le. lia.
    - apply Z.leb_le. exact Hn.
    - apply Z.eqb_eq. rewrite offs_length. lia.
    - destruct (offs_head 0 R) as [t Ht]. rewrite Ht. reflexivity.
    - apply Z.eqb_eq. unfold znth. replace (Z.to_nat n_row) with (length R) by lia.
      rewrite (nth_indep _ (-1) 0) by (rewrite offs_length; lia).
      rewrite offs_last, map_length. lia.
    - apply offs_nondecreasing.
    - apply forallb_forall. intros c Hc. apply in_map_iff in Hc. destruct Hc as [[c' v] [<- Hc]]. simpl.
      apply in_concat in Hc. destruct Hc as [row [Hrow Hc]]. destruct (Hrows _ Hrow) as [_ Hr].
      rewrite Forall_forall in Hr. assert (In c' (map fst row)) by (apply in_map_iff; exists (c', v); auto).
      specialize (Hr _ H). apply andb_true_iff. split; [apply Z.leb_le|apply Z.ltb_lt]; lia.
    - rewrite concat_map, <- (offs_map fst 0 R), rows_of_concat.
      apply forallb_forall. intros row Hrow. apply in_map_iff in Hrow. destruct Hrow as [r [<- Hr]].
      apply Hrows. exact Hr.
  Qed.
End RowsCsr.

Section CscNd.
  Variable V : Type.
  Variable vzero : V.
  Variable vadd vmul : V -> V -> V.
  Variable veqb : V -> V -> bool.
  Hypothesis SR : comm_semiring vzero vadd vmul.
  Hypothesis veqb_zero : forall x, veqb x vzero = true -> x = vzero.

  Definition all_m1 (n : Z) (nx : list Z) : Prop :=
    Z.of_nat (length nx) = n /\ forall k, 0 <= k < n -> znth nx k 0 = -1.

  Lemma LL_of_all_m1 n nx : all_m1 n nx -> LL n nx (-2) 0 [].
  Proof.
    intros [Hn Hm]. constructor; [exact Hn|reflexivity|reflexivity|constructor|constructor|].
    intros k0 Hk0. rewrite (Hm k0 Hk0). simpl. split; [tauto|congruence].
  Qed.

  Lemma emit_all_spec n l : forall nx sm head,
    chain nx head l -> NoDup l -> Forall (fun x => 0 <= x < n) l ->
    Z.of_nat (length nx) = n -> Z.of_nat (length sm) = n ->
    exists nx' sm' h',
      emit_all V vzero (length l) nx sm head = (nx', sm', h', map (fun k => (k, znth sm k vzero)) l)
      /\ Z.of_nat (length sm') = n /\ Z.of_nat (length nx') = n
      /\ (forall k, 0 <= k < n -> znth sm' k vzero = if mem_z k l then vzero else znth sm k vzero)
      /\ (forall k, 0 <= k < n -> znth nx' k 0 = if mem_z k l then -1 else znth nx k 0).
  Proof.
    induction l as [|k l IH]; intros nx sm head Hc Hnd Hr Hn Hs.
    - exists nx, sm, head. simpl. auto.
    - simpl in Hc. destruct Hc as [-> Hc].
      apply NoDup_cons_iff in Hnd. destruct Hnd as [Hnotin Hnd'].
      pose proof (Forall_inv Hr) as Hk. pose proof (Forall_inv_tail Hr) as Hr'. simpl in Hk.
      assert (Hr0 : Forall (fun x => 0 <= x) l) by (eapply Forall_impl; [|exact Hr']; simpl; intros; lia).
      destruct (IH (wr nx k (-1)) (wr sm k vzero) (znth nx k 0)) as [nx' [sm' [h' [E [Hs' [Hn' [Hv Hw]]]]]]]; auto.
      { apply chain_wr_notin; auto; lia. }
      { rewrite wr_length; exact Hn. }
      { rewrite wr_length; exact Hs. }
      exists nx', sm', h'. split; [|split; [exact Hs'|split; [exact Hn'|split]]].
      + simpl emit_all. rewrite E. simpl. f_equal. f_equal. apply map_ext_in. intros x Hx.
        rewrite znth_wr_neq; [reflexivity|lia| |intros ->; contradiction].
        rewrite Forall_forall in Hr0. apply Hr0. exact Hx.
      + intros k0 Hk0. rewrite (Hv k0 Hk0). unfold mem_z. simpl.
        destruct (Z.eqb_spec k0 k) as [->|Hne0]; simpl.
        * rewrite znth_wr_eq by lia. destruct (existsb (Z.eqb k) l); reflexivity.
        * rewrite znth_wr_neq by lia. reflexivity.
      + intros k0 Hk0. rewrite (Hw k0 Hk0). unfold mem_z. simpl.
        destruct (Z.eqb_spec k0 k) as [->|Hne0]; simpl.
        * rewrite znth_wr_eq by lia. destruct (existsb (Z.eqb k) l); reflexivity.
        * rewrite znth_wr_neq by lia. reflexivity.
  Qed.

  Variable a : csr V.
  Variable b : Z -> Z -> V.
  Variable n_in : Z.

  Definition cstream (i : Z) : list (Z * V) := csc_stream V vzero vmul veqb a b n_in i.
  Definition csc_abs_col (i : Z) : list (Z * V) :=
    map (fun k => (k, ksum V vadd k vzero (cstream i))) (touched (map fst (cstream i))).
  Definition csc_out_col (i : Z) : list (Z * V) := sort_cells V (csc_abs_col i).
  Definition cstream_ok (m : Z) : Prop := forall i, Forall (fun kp => 0 <= fst kp < m) (cstream i).

  Lemma csc_col_step_spec m mask sm out i :
    cstream_ok m -> all_m1 m mask -> all_zero V vzero m sm ->
    exists mask2 sm2,
      csc_col_step V vzero vadd vmul veqb a b n_in (mask, sm, out) i = (mask2, sm2, out ++ csc_out_col i)
      /\ all_m1 m mask2 /\ all_zero V vzero m sm2.
  Proof.
    intros Hk Hm1 [Hs Hz]. unfold csc_col_step. fold (cstream i). set (ps := cstream i).
    destruct (acc_fold V vzero vadd m ps (Hk i) mask sm (-2) 0 [] (LL_of_all_m1 m mask Hm1) Hs)
      as [nx1 [sm1 [h1 [len1 [E [HLL [Hs1 Hv]]]]]]].
    rewrite E. destruct HLL as [Hnx Hlen Hc Hnd Hr Hm].
    fold (touched (map fst ps)) in *. set (l := touched (map fst ps)) in *.
    destruct (emit_all_spec m l nx1 sm1 h1 Hc Hnd Hr Hnx Hs1) as [nx2 [sm2 [h2 [E2 [Hs2 [Hn2 [Hv2 Hw2]]]]]]].
    rewrite Hlen, Nat2Z.id, E2.
    assert (Hrow : map (fun k => (k, znth sm1 k vzero)) l = csc_abs_col i).
    { unfold csc_abs_col. fold ps. fold l. apply map_ext_in. intros k Hin.
      rewrite Forall_forall in Hr. specialize (Hr _ Hin). rewrite (Hv k Hr), (Hz k Hr). reflexivity. }
    exists nx2, sm2. split; [rewrite Hrow; reflexivity|]. split.
    - split; [exact Hn2|]. intros k Hk0. rewrite (Hw2 k Hk0).
      destruct (mem_z k l) eqn:Em; [reflexivity|].
      destruct (Z.eq_dec (znth nx1 k 0) (-1)) as [?|Hne]; [assumption|].
      exfalso. apply (Hm k Hk0) in Hne. apply mem_z_In in Hne. congruence.
    - split; [exact Hs2|]. intros k Hk0. rewrite (Hv2 k Hk0).
      destruct (mem_z k l) eqn:Em; [reflexivity|].
      rewrite (Hv k Hk0), (Hz k Hk0). apply ksum_notin. intros Hin.
      apply (proj2 (touched_In _ _)) in Hin. fold l in Hin. apply mem_z_In in Hin. congruence.
  Qed.

  Lemma csc_loops_fold m : cstream_ok m ->
    forall (is : list Z) mask sm out, all_m1 m mask -> all_zero V vzero m sm ->
    exists mask' sm',
      fold_left (csc_col_step V vzero vadd vmul veqb a b n_in) is (mask, sm, out)
      = (mask', sm', out ++ concat (map csc_out_col is)).
  Proof.
    intros Hk. induction is as [|i is IH]; intros mask sm out Hm Hz.
    - exists mask, sm. simpl. rewrite app_nil_r. reflexivity.
    - destruct (csc_col_step_spec m mask sm out i Hk Hm Hz) as [m2 [s2 [E [Hm2 Hz2]]]].
      cbn [fold_left]. rewrite E.
      destruct (IH m2 s2 (out ++ csc_out_col i) Hm2 Hz2) as [m' [s' E']].
      exists m', s'. rewrite E'. simpl. rewrite <- app_assoc. reflexivity.
  Qed.

  (* the pre-count *)
  Definition ckeys (i : Z) : list Z := csc_keys V vzero veqb (m_indices a) (m_indptr a) b n_in i.

  Lemma cstream_keys i : length (m_indices a) = length (m_data a) -> map fst (cstream i) = ckeys i.
  Proof.
    intros Ha. unfold cstream, csc_stream, ckeys, csc_keys.
    induction (zrange n_in) as [|j L IH]; simpl; [reflexivity|].
    rewrite map_app, IH. f_equal. destruct (veqb (b j i) vzero); [reflexivity|].
    rewrite map_map. simpl. apply (row_pairs_keys V a j Ha).
  Qed.

  Lemma csc_count_fold m : (forall i, Forall (fun k => 0 <= k < m) (ckeys i)) ->
    forall (is : list Z) mask (rows : list (list Z)) bound,
    Z.of_nat (length mask) = m ->
    (forall x, 0 <= x < m -> znth mask x 0 < bound) ->
    StronglySorted Z.lt is -> Forall (fun i => bound <= i) is ->
    exists mask',
      fold_left (fun (st : list Z * Z * list Z) i =>
                   let '(mask, nnz, ptr) := st in
                   let '(mask', col_nnz) := fold_left (cnt_step i) (ckeys i) (mask, 0) in
                   (mask', nnz + col_nnz, ptr ++ [nnz + col_nnz]))
                is (mask, Z.of_nat (length (concat rows)), tl (offs 0 rows))
      = (mask', Z.of_nat (length (concat (rows ++ map (fun i => touched (ckeys i)) is))),
         tl (offs 0 (rows ++ map (fun i => touched (ckeys i)) is))).
  Proof.
    intros Hk. induction is as [|i is IH]; intros mask rows bound Hn Hlt Hs Hb.
    - exists mask. simpl. rewrite app_nil_r. reflexivity.
    - apply StronglySorted_inv in Hs. destruct Hs as [Hs' Hall].
      pose proof (Forall_inv Hb) as Hbi. pose proof (Forall_inv_tail Hb) as Hb'. simpl in Hbi.
      destruct (cnt_fold m i (ckeys i) (Hk i) mask [] Hn) as [m' [E [Hn' [_ Hd]]]].
      { intros x Hx. simpl. split; [tauto|]. intros H. specialize (Hlt x Hx). lia. }
      simpl length in E. change (Z.of_nat 0) with 0 in E.
      cbn [fold_left]. rewrite E. fold (touched (ckeys i)).
      destruct (IH m' (rows ++ [touched (ckeys i)]) (i + 1) Hn') as [m'' E''].
      { intros x Hx. destruct (Hd x Hx) as [H|H]; rewrite H; [specialize (Hlt x Hx)|]; lia. }
      { exact Hs'. }
      { eapply Forall_impl; [|exact Hall]. simpl. intros; lia. }
      exists m''.
      replace (Z.of_nat (length (concat rows)) + Z.of_nat (length (touched (ckeys i))))
        with (Z.of_nat (length (concat (rows ++ [touched (ckeys i)]))))
        by (rewrite concat_app; simpl; rewrite app_nil_r, app_length; lia).
      replace (tl (offs 0 rows) ++ [Z.of_nat (length (concat (rows ++ [touched (ckeys i)])))])
        with (tl (offs 0 (rows ++ [touched (ckeys i)]))).
      2:{ rewrite offs_app. destruct (offs_head 0 rows) as [t Ht]. rewrite Ht. simpl.
          f_equal. f_equal. rewrite concat_app. simpl. rewrite app_nil_r, app_length. lia. }
      rewrite E''. simpl map. rewrite <- !app_assoc. reflexivity.
  Qed.

  Definition key_rows (p : Z) : list (list Z) := map (fun i => touched (ckeys i)) (zrange p).
  Definition out_cols_abs (p : Z) : list (list (Z * V)) := map csc_out_col (zrange p).

  Lemma csc_count_spec m p : 0 <= m -> (forall i, Forall (fun k => 0 <= k < m) (ckeys i)) ->
    csc_ndarray_count_nnz V vzero veqb m n_in p (m_indices a) (m_indptr a) b
    = (Z.of_nat (length (concat (key_rows p))), tl (offs 0 (key_rows p))).
  Proof.
    intros Hm Hk. unfold csc_ndarray_count_nnz.
    destruct (csc_count_fold m Hk (zrange p) (repeat (-1) (Z.to_nat m)) [] 0) as [m' E].
    - rewrite repeat_length. lia.
    - intros x Hx. rewrite znth_repeat by lia. lia.
    - apply zrange_SS.
    - apply Forall_forall. intros x Hx. apply zrange_In in Hx. lia.
    - unfold ckeys in E. cbn [concat length offs tl Z.of_nat app] in E. rewrite E. reflexivity.
  Qed.

  Lemma csc_rows_lengths p : length (m_indices a) = length (m_data a) ->
    map (@length Z) (key_rows p) = map (@length (Z * V)) (out_cols_abs p).
  Proof.
    intros Ha. unfold key_rows, out_cols_abs. rewrite !map_map. apply map_ext. intros i.
    unfold csc_out_col. rewrite (Permutation_length (sort_cells_perm V _)).
    unfold csc_abs_col. rewrite map_length, cstream_keys by assumption. reflexivity.
  Qed.

  Lemma length_concat_lengths {A B} (R : list (list A)) (R' : list (list B)) :
    map (@length A) R = map (@length B) R' -> length (concat R) = length (concat R').
  Proof.
    revert R'; induction R as [|r R IH]; intros [|r' R'] H; simpl in *; try discriminate; [reflexivity|].
    inversion H. rewrite !app_length. rewrite (IH R'); auto.
  Qed.

  Lemma dot_csc_ok m p : csr_wfb n_in m a = true ->
    dot_csc_ndarray_sparse V vzero vadd vmul veqb m n_in p a b = KOk (csr_of_rows V (out_cols_abs p)).
  Proof.
    intros Ha. destruct (csr_wfb_facts V _ _ _ Ha) as [Ha1 [_ [Hm [_ [Ha5 _]]]]].
    assert (Hk : cstream_ok m).
    { intros i. apply Forall_forall. intros [k v] Hin. unfold cstream, csc_stream in Hin.
      apply in_flat_map in Hin. destruct Hin as [j [_ Hin]]. destruct (veqb (b j i) vzero); [contradiction|].
      apply in_map_iff in Hin. destruct Hin as [kv [E Hin]]. inversion E; subst. simpl.
      rewrite Forall_forall in Ha5. apply Ha5. eapply row_pairs_in_indices. exact Hin. }
    assert (Hkk : forall i, Forall (fun k => 0 <= k < m) (ckeys i)).
    { intros i. rewrite <- (cstream_keys i Ha1). specialize (Hk i). rewrite Forall_forall in *.
      intros k Hin. apply in_map_iff in Hin. destruct Hin as [kp [<- Hin]]. apply Hk. exact Hin. }
    unfold dot_csc_ndarray_sparse. rewrite (csc_count_spec m p Hm Hkk).
    destruct (csc_loops_fold m Hk (zrange p) (repeat (-1) (Z.to_nat m)) (repeat vzero (Z.to_nat m)) [])
      as [m' [s' E]].
    { split; [rewrite repeat_length; lia|]. intros k Hk0. apply znth_repeat. lia. }
    { apply all_zero_init. exact Hm. }
    rewrite E. simpl app. fold (out_cols_abs p).
    rewrite (length_concat_lengths _ _ (csc_rows_lengths p Ha1)), Z.ltb_irrefl.
    unfold csr_of_rows. f_equal. f_equal.
    rewrite (offs_length_ext _ _ 0 (csc_rows_lengths p Ha1)).
    destruct (offs_head 0 (out_cols_abs p)) as [t Ht]. rewrite Ht. reflexivity.
  Qed.

  Lemma csc_out_col_keys i : map fst (csc_abs_col i) = touched (map fst (cstream i)).
  Proof. unfold csc_abs_col. rewrite map_map. simpl. apply map_id. Qed.

  Lemma csc_out_col_get i k : row_get V vzero (csc_out_col i) k = ssum V vzero vadd k (cstream i).
  Proof.
    unfold csc_out_col. rewrite (row_get_perm V vzero _ (csc_abs_col i) k (sort_cells_perm V _)).
    2:{ eapply Permutation_NoDup; [apply Permutation_map, Permutation_sym, sort_cells_perm|].
        rewrite csc_out_col_keys. apply touched_NoDup. }
    unfold row_get, csc_abs_col. rewrite row_lookup_map_key by apply touched_NoDup.
    destruct (mem_z k (touched (map fst (cstream i)))) eqn:E.
    - rewrite (ksum_ssum V vzero vadd vmul SR). apply (sr_add_0_l _ _ _ SR).
    - symmetry. apply ssum_notin. intros Hin. apply (proj2 (touched_In _ _)) in Hin. apply mem_z_In in Hin. congruence.
  Qed.

  Theorem csc_ndarray_proof m p : csr_wfb n_in m a = true -> 0 <= p ->
    exists r, dot_csc_ndarray_sparse V vzero vadd vmul veqb m n_in p a b = KOk r
      /\ Z.of_nat (length (m_data r)) = fst (csc_ndarray_count_nnz V vzero veqb m n_in p (m_indices a) (m_indptr a) b)
      /\ csr_wfb p m r = true
      /\ forall i k, 0 <= i < p ->
           csr_den V vzero r i k
           = np_matmul2 V vzero vadd vmul n_in (fun k j => csr_den V vzero a j k) b k i.
  Proof.
    intros Ha Hp. pose proof (dot_csc_ok m p Ha) as E.
    destruct (csr_wfb_facts V _ _ _ Ha) as [Ha1 [_ [Hm [_ [Ha5 Ha6]]]]].
    assert (Hk : cstream_ok m).
    { intros i. apply Forall_forall. intros [k v] Hin. unfold cstream, csc_stream in Hin.
      apply in_flat_map in Hin. destruct Hin as [j [_ Hin]]. destruct (veqb (b j i) vzero); [contradiction|].
      apply in_map_iff in Hin. destruct Hin as [kv [E0 Hin]]. inversion E0; subst. simpl.
      rewrite Forall_forall in Ha5. apply Ha5. eapply row_pairs_in_indices. exact Hin. }
    exists (csr_of_rows V (out_cols_abs p)). split; [exact E|]. split; [|split].
    - assert (Hkk : forall i, Forall (fun k => 0 <= k < m) (ckeys i)).
      { intros i. rewrite <- (cstream_keys i Ha1). specialize (Hk i). rewrite Forall_forall in *.
        intros k Hin. apply in_map_iff in Hin. destruct Hin as [kp [<- Hin]]. apply Hk. exact Hin. }
      rewrite (csc_count_spec m p Hm Hkk). simpl. rewrite map_length.
      rewrite (length_concat_lengths _ _ (csc_rows_lengths p Ha1)). reflexivity.
    - apply csr_of_rows_wf; [unfold out_cols_abs; rewrite map_length; apply zrange_length; exact Hp|exact Hm|].
      intros r Hr. unfold out_cols_abs in Hr. apply in_map_iff in Hr. destruct Hr as [i [<- _]].
      assert (Hnd : NoDup (map fst (csc_out_col i))).
      { eapply Permutation_NoDup; [apply Permutation_map, Permutation_sym, sort_cells_perm|].
        rewrite csc_out_col_keys. apply touched_NoDup. }
      split.
      + apply SS_lt_strictly_increasing. apply sorted_nodup_strict; [apply sort_cells_sorted|exact Hnd].
      + apply Forall_forall. intros c Hc.
        eapply Permutation_in in Hc; [|apply Permutation_map, sort_cells_perm].
        rewrite csc_out_col_keys in Hc. apply (proj1 (touched_In _ _)) in Hc. apply in_map_iff in Hc.
        destruct Hc as [kp [<- Hin]]. specialize (Hk i). rewrite Forall_forall in Hk. apply (Hk _ Hin).
    - intros i k Hi. unfold csr_den at 1.
      replace i with (Z.of_nat (Z.to_nat i)) at 1 by lia.
      rewrite csr_of_rows_row by (unfold out_cols_abs; rewrite map_length; unfold zrange; rewrite map_length, seq_length; lia).
      unfold out_cols_abs. rewrite (nth_indep _ [] (csc_out_col 0))
        by (rewrite map_length; unfold zrange; rewrite map_length, seq_length; lia).
      rewrite map_nth, nth_zrange by assumption. rewrite csc_out_col_get.
      unfold cstream, csc_stream. rewrite (ssum_flat_map V vzero vadd vmul SR).
      unfold np_matmul2, sum_over. f_equal. apply map_ext_in. intros j Hj. apply zrange_In in Hj.
      destruct (veqb (b j i) vzero) eqn:Ez.
      + apply veqb_zero in Ez. rewrite Ez, (sr_mul_0_r _ _ _ SR). reflexivity.
      + rewrite (ssum_scaled V vzero vadd vmul SR).
        * apply (sr_mul_comm _ _ _ SR).
        * rewrite row_pairs_keys by assumption. apply SS_lt_NoDup, strictly_increasing_SS, Ha6. exact Hj.
  Qed.
End CscNd.


(* the three parts of csc_ndarray_proof as separate statements (Props/C04.v) *)
Lemma csc_ndarray_count_exact_proof :
  forall (V : Type) (vzero : V) (vadd vmul : V -> V -> V) (veqb : V -> V -> bool), comm_semiring vzero vadd vmul ->
  (forall x, veqb x vzero = true -> x = vzero) ->
  forall (a : csr V) (b : Z -> Z -> V) (n_in m p : Z), csr_wfb n_in m a = true -> 0 <= p ->
    exists r, dot_csc_ndarray_sparse V vzero vadd vmul veqb m n_in p a b = KOk r
      /\ Z.of_nat (length (m_data r)) = fst (csc_ndarray_count_nnz V vzero veqb m n_in p (m_indices a) (m_indptr a) b).
Proof.
  intros V vzero vadd vmul veqb SR Hz a b n_in m p Ha Hp.
  destruct (csc_ndarray_proof V vzero vadd vmul veqb SR Hz a b n_in m p Ha Hp) as [r [E [Hc _]]]. exists r. auto.
Qed.

Lemma csc_ndarray_rows_sorted_proof :
  forall (V : Type) (vzero : V) (vadd vmul : V -> V -> V) (veqb : V -> V -> bool), comm_semiring vzero vadd vmul ->
  (forall x, veqb x vzero = true -> x = vzero) ->
  forall (a : csr V) (b : Z -> Z -> V) (n_in m p : Z), csr_wfb n_in m a = true -> 0 <= p ->
    exists r, dot_csc_ndarray_sparse V vzero vadd vmul veqb m n_in p a b = KOk r /\ csr_wfb p m r = true.
Proof.
  intros V vzero vadd vmul veqb SR Hz a b n_in m p Ha Hp.
  destruct (csc_ndarray_proof V vzero vadd vmul veqb SR Hz a b n_in m p Ha Hp) as [r [E [_ [Hw _]]]]. exists r. auto.
Qed.

Lemma csc_ndarray_den_proof :
  forall (V : Type) (vzero : V) (vadd vmul : V -> V -> V) (veqb : V -> V -> bool), comm_semiring vzero vadd vmul ->
  (forall x, veqb x vzero = true -> x = vzero) ->
  forall (a : csr V) (b : Z -> Z -> V) (n_in m p : Z), csr_wfb n_in m a = true -> 0 <= p ->
    exists r, dot_csc_ndarray_sparse V vzero vadd vmul veqb m n_in p a b = KOk r
      /\ forall i k, 0 <= i < p ->
           csr_den V vzero r i k = np_matmul2 V vzero vadd vmul n_in (fun k j => csr_den V vzero a j k) b k i.
Proof.
  intros V vzero vadd vmul veqb SR Hz a b n_in m p Ha Hp.
  destruct (csc_ndarray_proof V vzero vadd vmul veqb SR Hz a b n_in m p Ha Hp) as [r [E [_ [_ Hd]]]]. exists r. auto.
Qed.

(* ====================================================================== non-vacuity *)
(* the hypotheses of the theorems above hold of concrete non-trivial operands over Z *)
Definition exA : csr Z := mkCSR [1; 2; 3] [0; 1; 2] [0; 2; 3; 3].           (* 3 x 3, one empty row *)
Definition exB : csr Z := mkCSR [1; 1; 1; 1; 2; 5] [1; 2; 0; 1; 2; 3] [0; 2; 4; 6].   (* 3 x 4 *)

Example spgemm_example :
  csr_wfb 3 3 exA = true /\ csr_wfb 3 4 exB = true /\
  dot_csr_csr Z 0 Z.add Z.mul 3 4 exA exB = KOk (mkCSR [2; 3; 1; 6; 15] [0; 1; 2; 2; 3] [0; 3; 5; 5]) /\
  csr_csr_count_nnz 3 4 (m_indices exA) (m_indices exB) (m_indptr exA) (m_indptr exB) = 5 /\
  np_matmul2 Z 0 Z.add Z.mul 3 (csr_den Z 0 exA) (csr_den Z 0 exB) 0 1 = 3.
Proof. vm_compute. repeat split; reflexivity. Qed.

(* cancellation: the stored product entry is an explicit zero, which GCXS(..., prune=True) removes *)
Example spgemm_cancel_example :
  let a := mkCSR [2; -3] [0; 1] [0; 2] in
  let b := mkCSR [3; 2] [0; 0] [0; 1; 2] in
  csr_wfb 1 2 a = true /\ csr_wfb 2 1 b = true /\
  dot_csr_csr Z 0 Z.add Z.mul 1 1 a b = KOk (mkCSR [0] [0] [0; 1]) /\
  prune_csr Z 0 Z.eqb 1 (mkCSR [0] [0] [0; 1]) = mkCSR [] [] [0; 0].
Proof. vm_compute. repeat split; reflexivity. Qed.

(* zero extents: no columns in the result / no rows / empty inner extent *)
Example spgemm_zero_extent_example :
  dot_csr_csr Z 0 Z.add Z.mul 2 0 (mkCSR [1] [0] [0; 1; 1]) (mkCSR [] [] [0; 0]) = KOk (mkCSR [] [] [0; 0; 0]) /\
  csr_wfb 2 1 (mkCSR [1] [0] [0; 1; 1]) = true /\ csr_wfb 1 0 (mkCSR (V:=Z) [] [] [0; 0]) = true /\
  dot_csr_csr Z 0 Z.add Z.mul 0 3 (mkCSR [] [] [0]) (mkCSR [] [] [0; 0; 0]) = KOk (mkCSR [] [] [0]) /\
  dot_csr_csr Z 0 Z.add Z.mul 2 3 (mkCSR [] [] [0; 0; 0]) (mkCSR [] [] [0]) = KOk (mkCSR [] [] [0; 0; 0]).
Proof. vm_compute. repeat split; reflexivity. Qed.

(* _dot_coo_ndarray on a matrix with stored entries and an output without columns returns at once *)
Example dot_coo_ndarray_example :
  (exists o, dot_coo_ndarray Z 0 Z.add Z.mul 3 [0; 0; 1] [0; 1; 2] [1; 2; 3] (fun j c => c + j) 0 = KOk o) /\
  match dot_coo_ndarray Z 0 Z.add Z.mul 3 [0; 0; 1] [0; 1; 2] [1; 2; 3] (fun j c => c + j) 2 with
  | KOk o => tab2 Z 2 2 o = [2; 5; 6; 9] | _ => False end.
Proof. split; [eexists; vm_compute; reflexivity|vm_compute; reflexivity]. Qed.

Example dot_dispatch_example :
  dot_dispatch false KCoo (KGcxs true) RNone = Some (KerCsrCsr, OGcxs false) /\
  dot_dispatch true (KGcxs true) KNd RCoo = Some (KerCscNdSparse, OCoo) /\
  dot_dispatch false KNd KCoo RGcxs = Some (KerNdCooSparse, OGcxsAuto).
Proof. repeat split; reflexivity. Qed.

Example dot_1d_example :
  dot_1d Z 0 Z.add Z.mul [1; 2; 3] [4; 5; 6] = Ok 32 /\ dot_1d Z 0 Z.add Z.mul [1] [1; 2; 3; 4; 5] = Raise ValueError.
Proof. split; vm_compute; reflexivity. Qed.

Example tensordot_example :
  let a := mkArr [2; 3] (fun ix => match ix with [i; j] => 3 * i + j + 1 | _ => 0 end) in
  let b := mkArr [3; 2] (fun ix => match ix with [j; k] => 2 * j + k + 1 | _ => 0 end) in
  Forall2 (axis_pair_ok [2; 3] [3; 2]) [-1] [0] /\
  match tensordot_m Z 0 Z.add Z.mul a b [-1] [0] with
  | Ok r => a_shape r = [2; 2] /\ map (a_at r) (all_indices [2; 2]) = [22; 28; 49; 64]
  | _ => False end.
Proof. split; [repeat constructor; vm_compute; congruence|vm_compute; split; reflexivity]. Qed.

(* csc @ csc: a = [[1,0],[2,3]] and b = [[0,4],[5,0]] as CSC triples; a @ b = [[0,4],[15,8]], returned as the
   CSC triple (columns [15] at row 1, [4,8] at rows 0,1) *)
Example spgemm_csc_example :
  let ac := mkCSR [1; 2; 3] [0; 1; 1] [0; 2; 3] in
  let bc := mkCSR [5; 4] [1; 0] [0; 1; 2] in
  csr_wfb 2 2 ac = true /\ csr_wfb 2 2 bc = true /\
  dot_csr_csr Z 0 Z.add Z.mul 2 2 bc ac = KOk (mkCSR [15; 4; 8] [1; 0; 1] [0; 1; 3]).
Proof. vm_compute. repeat split; reflexivity. Qed.

Example matmul_route_example :
  matmul_route 3 2 6 1 = Some MmDot /\ matmul_route 2 3 2 2 = Some MmDotMoveAxis /\
  matmul_route 3 3 1 2 = Some MmSqueezeA /\ matmul_route 4 3 6 1 = Some MmSqueezeB /\ matmul_route 3 3 6 2 = Some MmBatch.
Proof. vm_compute. repeat split; reflexivity. Qed.

Example spcoo_example :
  dot_coo_coo Z 0 Z.add Z.mul 3 4 exA exB = KOk ([0; 0; 0; 1; 1], [0; 2; 1; 3; 2], [2; 1; 3; 15; 6]) /\
  coo_cells_den Z 0 [0; 0; 0; 1; 1] [0; 2; 1; 3; 2] [2; 1; 3; 15; 6] 1 3 = 15.
Proof. vm_compute. split; reflexivity. Qed.

Example dot_coo_ndarray_den_example :
  NoDup (combine [0; 0; 1] [0; 1; 2]) /\ Forall (fun c => 0 <= c < 3) [0; 1; 2] /\
  np_matmul2 Z 0 Z.add Z.mul 3 (coo_cells_den Z 0 [0; 0; 1] [0; 1; 2] [1; 2; 3]) (fun c j => c + j) 1 1 = 9.
Proof.
  split; [repeat constructor; simpl; intuition congruence|]. split; [repeat constructor; lia|vm_compute; reflexivity].
Qed.

(* the two inputs on which the kernel used to fail (cancellation; unsorted positions): [[-3,-2,1],[1,3,-2]] and
   [[0,-3,0],[0,0,0],[0,2,0]] in CSC form *)
Example csc_ndarray_example :
  let ac := mkCSR [-3; 1; -2; 3; 1; -2] [0; 1; 0; 1; 0; 1] [0; 2; 4; 6] in
  let bd := fun j i => nth (Z.to_nat (j * 3 + i)) [0; 1; 2; 0; -3; 2; 0; -3; -1] 0 in
  let a2 := mkCSR [-3; 2] [0; 2] [0; 0; 2; 2] in
  let b2 := fun j i => nth (Z.to_nat (j * 2 + i)) [2; 2; 2; 1; 3; 3] 0 in
  csr_wfb 3 2 ac = true /\ csr_wfb 3 3 a2 = true /\
  dot_csc_ndarray_sparse Z 0 Z.add Z.mul Z.eqb 2 3 3 ac bd = KOk (mkCSR [0; -2; -11; 10] [0; 1; 0; 1] [0; 0; 2; 4]) /\
  dot_csc_ndarray_sparse Z 0 Z.add Z.mul Z.eqb 3 3 2 a2 b2 = KOk (mkCSR [-6; 4; -3; 2] [0; 2; 0; 2] [0; 2; 4]).
Proof. vm_compute. repeat split; reflexivity. Qed.
