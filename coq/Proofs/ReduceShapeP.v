(* Proofs/ReduceShapeP.v — index-tuple facts used by Proofs/ReduceP.v (C03): pointwise form of
   in_range, selection of axes (sel), permutations of the axes and their inverse (place),
   ravel over a concatenated shape, the code's unravel formula, the number of index tuples. *)
From Coq Require Import ZArith List Bool Lia Permutation Sorting.Sorted.
From Verif Require Import Py Shape COO COOP GCXS NpReduce Reduce ReduceLemmas.
Import ListNotations.
Open Scope Z_scope.

(* ------------------------------------------------------------------ in_range, pointwise *)
Lemma in_range_nth sh ix :
  in_range sh ix <->
  length ix = length sh /\ forall k, (k < length sh)%nat -> 0 <= nth k ix 0 < nth k sh 0.
Proof.
  revert ix. induction sh as [|d sh IH]; intros [|i ix]; simpl.
  - split; [intros _; split; [reflexivity|intros k Hk; lia]|tauto].
  - split; [tauto|intros [H _]; discriminate].
  - split; [tauto|intros [H _]; discriminate].
  - rewrite IH. split.
    + intros [Hi [Hl Hk]]. split; [lia|]. intros [|k] Hlt; [assumption|]. apply Hk. lia.
    + intros [Hl Hk]. split; [apply (Hk 0%nat); lia|]. split; [lia|].
      intros k Hlt. apply (Hk (S k)). lia.
Qed.

Lemma shape_ok_nth sh k : shape_ok sh -> 0 <= nth k sh 0.
Proof.
  intros H. destruct (Nat.lt_ge_cases k (length sh)).
  - unfold shape_ok in H. rewrite Forall_forall in H. apply H. apply nth_In. assumption.
  - rewrite nth_overflow by assumption. lia.
Qed.

(* ------------------------------------------------------------------ sel *)
Definition axes_ok (n : Z) (axes : list Z) : Prop := Forall (fun a => 0 <= a < n) axes.

Lemma sel_length {A} (d : A) axes l : length (sel d axes l) = length axes.
Proof. unfold sel. apply map_length. Qed.

Lemma sel_app {A} (d : A) a b l : sel d (a ++ b) l = sel d a l ++ sel d b l.
Proof. unfold sel. apply map_app. Qed.

Lemma nth_sel {A} (d : A) axes l k :
  (k < length axes)%nat -> nth k (sel d axes l) d = nth (Z.to_nat (nth k axes 0)) l d.
Proof.
  intros H. unfold sel.
  rewrite (nth_indep _ d (nth (Z.to_nat 0) l d)) by (rewrite map_length; assumption).
  apply (map_nth (fun a => nth (Z.to_nat a) l d)).
Qed.

Lemma sel_shape_ok sh axes : shape_ok sh -> shape_ok (sel 0 axes sh).
Proof.
  intros H. unfold shape_ok, sel. apply Forall_forall. intros x Hx.
  apply in_map_iff in Hx. destruct Hx as [a [<- _]]. apply shape_ok_nth. assumption.
Qed.

Lemma sel_in_range sh ix axes :
  in_range sh ix -> axes_ok (zlen sh) axes -> in_range (sel 0 axes sh) (sel 0 axes ix).
Proof.
  intros Hr Ha. apply in_range_nth in Hr. destruct Hr as [Hl Hk].
  induction Ha as [|a axes Ha _ IH]; simpl; [exact I|]. split; [|assumption].
  apply Hk. unfold zlen in Ha. lia.
Qed.

Lemma sel_id {A} (d : A) (l : list A) : sel d (zrange (zlen l)) l = l.
Proof.
  unfold sel, zrange, zlen. rewrite Nat2Z.id. rewrite map_map.
  apply nth_ext with (d := d) (d' := d).
  - rewrite map_length, seq_length. reflexivity.
  - intros k Hk. rewrite map_length, seq_length in Hk.
    rewrite (nth_indep _ d (nth (Z.to_nat (Z.of_nat 0)) l d)) by (rewrite map_length, seq_length; assumption).
    rewrite (map_nth (fun x => nth (Z.to_nat (Z.of_nat x)) l d)). rewrite seq_nth by assumption.
    rewrite Nat2Z.id. reflexivity.
Qed.

(* ------------------------------------------------------------------ permutations of the axes *)
Definition is_perm (n : Z) (p : list Z) : Prop := NoDup p /\ forall a, In a p <-> 0 <= a < n.

Lemma is_perm_length n p : 0 <= n -> is_perm n p -> zlen p = n.
Proof.
  intros Hn [Hnd Hm]. unfold zlen.
  rewrite (Permutation_length (l' := zrange n)); [apply length_zrange; assumption|].
  apply NoDup_Permutation; [assumption|apply NoDup_zrange|].
  intros a. rewrite Hm, zrange_In. tauto.
Qed.

Lemma is_perm_axes_ok n p : is_perm n p -> axes_ok n p.
Proof. intros [_ Hm]. apply Forall_forall. intros a Ha. apply Hm. assumption. Qed.

Lemma mem_z_In a l : mem_z a l = true <-> In a l.
Proof.
  unfold mem_z. rewrite existsb_exists. split.
  - intros [x [Hx He]]. apply Z.eqb_eq in He. subst. assumption.
  - intros H. exists a. split; [assumption|apply Z.eqb_refl].
Qed.

Lemma nodupb_NoDup l : nodupb l = true <-> NoDup l.
Proof.
  induction l as [|a l IH]; simpl.
  - split; [constructor|reflexivity].
  - rewrite andb_true_iff, negb_true_iff, IH. split.
    + intros [Hm Hn]. constructor; [|assumption]. intros H. apply mem_z_In in H. congruence.
    + intros H. inversion H; subst. split; [|assumption].
      destruct (mem_z a l) eqn:E; [|reflexivity]. apply mem_z_In in E. tauto.
Qed.

Lemma kept_axes_In n axes a : In a (kept_axes n axes) <-> 0 <= a < n /\ ~ In a axes.
Proof.
  unfold kept_axes. rewrite filter_In, zrange_In, negb_true_iff. split.
  - intros [H E]. split; [assumption|]. intros Hin. apply mem_z_In in Hin. congruence.
  - intros [H Hn]. split; [assumption|]. destruct (mem_z a axes) eqn:E; [|reflexivity].
    apply mem_z_In in E. tauto.
Qed.

Lemma kept_axes_ok n axes : axes_ok n (kept_axes n axes).
Proof. apply Forall_forall. intros a Ha. apply kept_axes_In in Ha. tauto. Qed.

Lemma kept_perm n axes : NoDup axes -> axes_ok n axes -> is_perm n (kept_axes n axes ++ axes).
Proof.
  intros Hnd Hok. unfold axes_ok in Hok. rewrite Forall_forall in Hok. split.
  - apply NoDup_app_disj.
    + unfold kept_axes. apply NoDup_filter. apply NoDup_zrange.
    + assumption.
    + intros a Ha Hb. apply kept_axes_In in Ha. tauto.
  - intros a. rewrite in_app_iff, kept_axes_In. split.
    + intros [[H _]|H]; [assumption|apply Hok; assumption].
    + intros H. destruct (in_dec Z.eq_dec a axes); [right; assumption|left; tauto].
Qed.

(* a tuple is determined by its entries at the axes of a permutation *)
Lemma sel_inj n p ix ix' :
  is_perm n p -> zlen ix = n -> zlen ix' = n -> sel 0 p ix = sel 0 p ix' -> ix = ix'.
Proof.
  intros [Hnd Hm] Hl Hl' He. unfold zlen in *.
  apply nth_ext with (d := 0) (d' := 0); [lia|].
  intros k Hk. assert (Hin : In (Z.of_nat k) p) by (apply Hm; lia).
  destruct (In_nth _ _ 0 Hin) as [j [Hj Ej]].
  pose proof (nth_sel 0 p ix j Hj) as E1. pose proof (nth_sel 0 p ix' j Hj) as E2.
  rewrite Ej, Nat2Z.id in E1, E2. rewrite <- E1, <- E2, He. reflexivity.
Qed.

Fixpoint index_of (a : Z) (p : list Z) : nat :=
  match p with [] => 0%nat | b :: r => if a =? b then 0%nat else S (index_of a r) end.

Lemma index_of_In a p : In a p -> (index_of a p < length p)%nat /\ nth (index_of a p) p 0 = a.
Proof.
  induction p as [|b r IH]; simpl; [tauto|]. intros H.
  destruct (Z.eqb_spec a b); [subst; split; [lia|reflexivity]|].
  destruct H as [H|H]; [congruence|]. destruct (IH H). split; [lia|assumption].
Qed.

Lemma index_of_nth p j : NoDup p -> (j < length p)%nat -> index_of (nth j p 0) p = j.
Proof.
  revert j. induction p as [|b r IH]; intros j Hnd Hj; simpl in *; [lia|].
  inversion Hnd; subst. destruct j as [|j].
  - rewrite Z.eqb_refl. reflexivity.
  - destruct (Z.eqb_spec (nth j r 0) b) as [E|E].
    + exfalso. apply H1. rewrite <- E. apply nth_In. lia.
    + f_equal. apply IH; [assumption|lia].
Qed.

(* the tuple whose entries at the axes p are t *)
Definition place (p : list Z) (t : idx) (n : Z) : idx :=
  map (fun a => nth (index_of a p) t 0) (zrange n).

Lemma place_length p t n : 0 <= n -> zlen (place p t n) = n.
Proof. intros H. unfold place, zlen. rewrite map_length. apply length_zrange. assumption. Qed.

Lemma nth_place p t n k : (k < Z.to_nat n)%nat -> nth k (place p t n) 0 = nth (index_of (Z.of_nat k) p) t 0.
Proof.
  intros Hk. unfold place.
  rewrite (nth_indep _ 0 (nth (index_of 0 p) t 0)).
  - rewrite (map_nth (fun a => nth (index_of a p) t 0)). rewrite nth_zrange by assumption. reflexivity.
  - rewrite map_length. pose proof (length_zrange n). lia.
Qed.

Lemma sel_place n p t : 0 <= n -> is_perm n p -> length t = length p -> sel 0 p (place p t n) = t.
Proof.
  intros Hn [Hnd Hm] Hl. apply nth_ext with (d := 0) (d' := 0); [rewrite sel_length; lia|].
  intros j Hj. rewrite sel_length in Hj. rewrite nth_sel by assumption.
  assert (Ha : 0 <= nth j p 0 < n) by (apply Hm; apply nth_In; assumption).
  rewrite nth_place by lia. rewrite Z2Nat.id by lia. rewrite index_of_nth by assumption. reflexivity.
Qed.

Lemma place_in_range sh p t :
  is_perm (zlen sh) p -> in_range (sel 0 p sh) t -> in_range sh (place p t (zlen sh)).
Proof.
  intros [Hnd Hm] Hr. apply in_range_nth in Hr. destruct Hr as [Hl Hk].
  rewrite sel_length in Hl, Hk.
  apply in_range_nth. split.
  - pose proof (place_length p t (zlen sh)). unfold zlen in *. lia.
  - intros k Hlt. rewrite nth_place by (unfold zlen; lia).
    assert (Hin : In (Z.of_nat k) p) by (apply Hm; unfold zlen; lia).
    destruct (index_of_In _ _ Hin) as [Hj Ej].
    specialize (Hk _ Hj). rewrite nth_sel in Hk by assumption. rewrite Ej, Nat2Z.id in Hk. exact Hk.
Qed.

(* ------------------------------------------------------------------ ravel over a concatenation *)
Lemma size_app s1 s2 : size (s1 ++ s2) = size s1 * size s2.
Proof. induction s1 as [|d s1 IH]; simpl; [lia|]. rewrite IH. lia. Qed.

Lemma ravel_app s1 s2 i1 i2 :
  length s1 = length i1 -> ravel (s1 ++ s2) (i1 ++ i2) = ravel s1 i1 * size s2 + ravel s2 i2.
Proof.
  revert i1. induction s1 as [|d s1 IH]; intros [|i i1] Hl; simpl in *; try discriminate; [lia|].
  rewrite IH by lia. rewrite size_app. lia.
Qed.

Lemma in_range_app s1 s2 i1 i2 :
  length s1 = length i1 -> (in_range (s1 ++ s2) (i1 ++ i2) <-> in_range s1 i1 /\ in_range s2 i2).
Proof.
  revert i1. induction s1 as [|d s1 IH]; intros [|i i1] Hl; simpl in *; try discriminate; [tauto|].
  rewrite IH by lia. tauto.
Qed.

Lemma size_pos_all sh : shape_ok sh -> 0 < size sh -> Forall (fun d => 0 < d) sh.
Proof.
  induction 1 as [|d sh Hd Hok IH]; simpl; intros Hs; constructor.
  - pose proof (size_nonneg _ Hok). nia.
  - apply IH. pose proof (size_nonneg _ Hok). nia.
Qed.

Lemma size_perm l l' : Permutation l l' -> size l = size l'.
Proof. induction 1; simpl; try lia. Qed.

(* ------------------------------------------------------------------ the code's unravel formula *)
Section UC.

  Lemma unravel_code_mod sh : Forall (fun d => 0 < d) sh -> forall n, 0 <= n ->
    unravel_code sh n = unravel sh (n mod size sh).
  Proof.
    induction 1 as [|d sh Hd Hall IH]; intros n Hn; [reflexivity|].
    assert (Hs : 0 < size sh).
    { clear -Hall. induction Hall; simpl; [lia|]. nia. }
    cbn [Reduce.unravel_code unravel size fold_right]. fold (size sh).
    rewrite (Z.mul_comm d (size sh)).
    rewrite Z.rem_mul_r by lia.
    pose proof (Z.mod_pos_bound n (size sh) Hs) as Ha.
    pose proof (Z.mod_pos_bound (n / size sh) d Hd) as Hb.
    set (a := n mod size sh) in *. set (b := (n / size sh) mod d) in *.
    replace (a + size sh * b) with (b * size sh + a) by lia.
    f_equal.
    - rewrite Z.div_add_l by lia. rewrite (Z.div_small a) by lia. lia.
    - rewrite IH by assumption. f_equal.
      rewrite Z.add_comm, Z.mod_add by lia. unfold a. rewrite Z.mod_mod by lia. reflexivity.
  Qed.

  Lemma unravel_code_eq sh n : shape_ok sh -> 0 <= n < size sh -> unravel_code sh n = unravel sh n.
  Proof.
    intros Hok Hn. rewrite unravel_code_mod; [|apply size_pos_all; [assumption|lia]|lia].
    rewrite Z.mod_small by lia. reflexivity.
  Qed.

  Lemma unravel_code_ravel sh ix : shape_ok sh -> in_range sh ix -> unravel_code sh (ravel sh ix) = ix.
  Proof.
    intros Hok Hr. rewrite unravel_code_eq by (try assumption; apply ravel_bounds; assumption).
    apply unravel_ravel. assumption.
  Qed.
End UC.

(* ------------------------------------------------------------------ counting index tuples *)
Lemma length_flat_map_const {A B} (f : A -> list B) (l : list A) n :
  (forall a, In a l -> length (f a) = n) -> length (flat_map f l) = (length l * n)%nat.
Proof.
  induction l as [|a l IH]; simpl; intros H; [reflexivity|].
  rewrite app_length, H by auto. rewrite IH by auto. reflexivity.
Qed.

Lemma length_all_indices sh : shape_ok sh -> Z.of_nat (length (all_indices sh)) = size sh.
Proof.
  induction 1 as [|d sh Hd Hok IH]; simpl; [reflexivity|].
  rewrite (length_flat_map_const _ _ (length (all_indices sh))).
  - rewrite Nat2Z.inj_mul, IH. pose proof (length_zrange d Hd). lia.
  - intros a _. apply map_length.
Qed.

(* ------------------------------------------------------------------ keepdims: extent-1 axes *)
(* positions s, s+1, ... paired with the entries of l *)
Definition numbered (s : nat) {A} (l : list A) : list (Z * A) :=
  combine (map Z.of_nat (seq s (length l))) l.

Lemma sel_filter_numbered {A} (d : A) (P : Z -> bool) : forall (l pre : list A),
  sel d (filter P (map Z.of_nat (seq (length pre) (length l)))) (pre ++ l)
  = map snd (filter (fun q => P (fst q)) (numbered (length pre) l)).
Proof.
  unfold numbered. induction l as [|a l IH]; intros pre; [reflexivity|].
  cbn [length seq map combine filter fst].
  specialize (IH (pre ++ [a])). rewrite app_length in IH. cbn [length] in IH.
  replace (length pre + 1)%nat with (S (length pre)) in IH by lia.
  rewrite <- app_assoc in IH. cbn [app] in IH.
  destruct (P (Z.of_nat (length pre))).
  - cbn [map snd]. unfold sel in *. cbn [map]. rewrite IH. f_equal.
    rewrite Nat2Z.id. rewrite app_nth2 by lia. rewrite Nat.sub_diag. reflexivity.
  - exact IH.
Qed.

Lemma sel_kept_numbered {A} (d : A) axes (l : list A) :
  sel d (kept_axes (zlen l) axes) l
  = map snd (filter (fun q => negb (mem_z (fst q) axes)) (numbered 0 l)).
Proof.
  unfold kept_axes, zrange, zlen. rewrite Nat2Z.id.
  apply (sel_filter_numbered d (fun a => negb (mem_z a axes)) l []).
Qed.

Lemma keep_shape_numbered sh axes :
  keep_shape sh axes = map (fun q => if mem_z (fst q) axes then 1 else snd q) (numbered 0 sh).
Proof. unfold keep_shape, numbered, zrange, zlen. rewrite Nat2Z.id. reflexivity. Qed.

Lemma size_cons d l : size (d :: l) = d * size l.
Proof. reflexivity. Qed.

(* dropping axes of extent 1 changes neither the size nor the linear location *)
Lemma keepdims_size axes : forall (sh : shape) (s : nat),
  size (map (fun q => if mem_z (fst q) axes then 1 else snd q) (numbered s sh))
  = size (map snd (filter (fun q => negb (mem_z (fst q) axes)) (numbered s sh))).
Proof.
  unfold numbered. induction sh as [|d sh IH]; intros s; [reflexivity|].
  cbn [length seq map combine filter fst snd]. specialize (IH (S s)).
  destruct (mem_z (Z.of_nat s) axes); cbn [negb map snd]; rewrite ?size_cons, IH; lia.
Qed.

Lemma keepdims_ravel axes : forall (sh : shape) (s : nat) (ix : idx),
  let KD := map (fun q => if mem_z (fst q) axes then 1 else snd q) (numbered s sh) in
  let K := map snd (filter (fun q => negb (mem_z (fst q) axes)) (numbered s sh)) in
  let kix := map snd (filter (fun q => negb (mem_z (fst q) axes)) (numbered s ix)) in
  in_range KD ix -> in_range K kix /\ ravel KD ix = ravel K kix.
Proof.
  unfold numbered. induction sh as [|d sh IH]; intros s ix; cbn zeta.
  - destruct ix; cbn; [auto|tauto].
  - destruct ix as [|i ix]; [cbn; tauto|].
    cbn [length seq map combine filter fst snd].
    pose proof (keepdims_size axes sh (S s)) as Hsz. unfold numbered in Hsz.
    specialize (IH (S s) ix). cbn zeta in IH.
    destruct (mem_z (Z.of_nat s) axes); cbn [negb map snd].
    + intros [Hi Hr]. destruct (IH Hr) as [H1 H2].
      split; [assumption|]. cbn [ravel]. rewrite H2. assert (i = 0) by lia. subst i. lia.
    + intros [Hi Hr]. destruct (IH Hr) as [H1 H2].
      split; [split; assumption|]. cbn [ravel]. rewrite H2, Hsz. reflexivity.
Qed.
