(* Proofs/MlirP.v — lemmas about Model/Mlir.v: ownership protocol, layouts, format inference. *)
From Coq Require Import ZArith List Bool Lia Arith PeanoNat.
From Verif Require Import Py Shape S_mlir S_mlir_df Mlir.
Import ListNotations.

(* ========================================================================================== *)
(* C. ownership protocol                                                                      *)
Section Ownership.
Open Scope nat_scope.

Lemma memn_In x l : memn x l = true <-> In x l.
Proof.
  unfold memn. rewrite existsb_exists. split.
  - intros [y [Hy He]]. apply Nat.eqb_eq in He. subst. assumption.
  - intros H. exists x. split; [assumption|apply Nat.eqb_refl].
Qed.

Lemma memn_false x l : memn x l = false <-> ~ In x l.
Proof. rewrite <- memn_In. destruct (memn x l); split; congruence. Qed.

Lemma nodupn_NoDup l : nodupn l = true <-> NoDup l.
Proof.
  induction l as [|x l IH]; simpl.
  - split; [constructor|reflexivity].
  - rewrite andb_true_iff, negb_true_iff, memn_false, IH. split.
    + intros [? ?]. constructor; assumption.
    + intros H. inversion H; subst. split; assumption.
Qed.

Inductive reach (objs : list obj) : nat -> nat -> Prop :=
| reach_refl i : reach objs i i
| reach_step i r j : In r (o_refs (nth i objs dummy_obj)) -> reach objs r j -> reach objs i j.

Lemma refs_in_bound objs i r : In r (o_refs (nth i objs dummy_obj)) -> i < length objs.
Proof.
  intros H. destruct (lt_dec i (length objs)) as [|Hn]; [assumption|].
  rewrite nth_overflow in H by lia. simpl in H. tauto.
Qed.

Lemma reach_app objs l i j : reach objs i j -> reach (objs ++ l) i j.
Proof.
  induction 1 as [|i r j Hr _ IH]; [constructor|].
  apply reach_step with r; [|assumption].
  rewrite app_nth1; [assumption|]. eapply refs_in_bound; eassumption.
Qed.

Record inv (s : state) : Prop := mkInv {
  i_bufs_lt : forall i b, In b (o_bufs (get s i)) -> b < s_nbuf s;
  i_frees_lt : forall i b, In b (o_frees (get s i)) -> b < s_nbuf s;
  i_uniq : forall f f' b, In b (o_frees (get s f)) -> In b (o_frees (get s f')) -> f = f';
  i_frees_nd : forall f, NoDup (o_frees (get s f));
  i_path : forall i b f, In b (o_bufs (get s i)) -> In b (o_frees (get s f)) -> reach (s_objs s) i f;
  i_array : forall a, o_kind (get s a) = KArray ->
                      exists sid, o_under (get s a) = Some sid /\ In sid (o_refs (get s a))
                                  /\ incl (o_bufs (get s a)) (o_bufs (get s sid));
  i_view : forall v t, is_ndarray (o_kind (get s v)) = true -> o_under (get s v) = Some t ->
                       In t (o_refs (get s v));
  i_roots : forall r, In r (s_roots s) -> liveb s r = true;
  i_closed : forall i r, liveb s i = true -> In r (o_refs (get s i)) -> liveb s r = true;
  i_dead_lt : forall d, In d (s_dead s) -> d < nobj s;
  i_refs_lt : forall i r, In r (o_refs (get s i)) -> r < nobj s;
  i_dead_nd : NoDup (s_dead s);
  i_freed_from : forall b, In b (s_freed s) -> exists f, In f (s_dead s) /\ In b (o_frees (get s f));
  i_freed_nd : NoDup (s_freed s);
  i_nobare : forall i, o_kind (get s i) <> KBareView }.

Lemma liveb_spec s i : liveb s i = true <-> i < nobj s /\ ~ In i (s_dead s).
Proof.
  unfold liveb. rewrite andb_true_iff, negb_true_iff, memn_false, Nat.ltb_lt. tauto.
Qed.

Lemma reach_live s i f : inv s -> reach (s_objs s) i f -> liveb s i = true -> liveb s f = true.
Proof.
  intros I H. induction H as [|i r j Hr _ IH]; [auto|].
  intros Hl. apply IH. eapply i_closed; eauto.
Qed.

Lemma inv_safe s : inv s -> safeb s = true /\ free_once s = true.
Proof.
  intros I. split.
  - unfold safeb. apply forallb_forall. intros i _. apply negb_true_iff.
    unfold danglingb. destruct (liveb s i) eqn:Hl; [|reflexivity]. simpl.
    destruct (existsb _ _) eqn:He; [|reflexivity]. exfalso.
    apply existsb_exists in He. destruct He as [b [Hb Hf]]. apply memn_In in Hf.
    destruct (i_freed_from s I b Hf) as [f [Hd Hfr]].
    pose proof (i_path s I i b f Hb Hfr) as Hr.
    pose proof (reach_live s i f I Hr Hl) as Hlf.
    apply liveb_spec in Hlf. tauto.
  - unfold free_once. apply nodupn_NoDup. apply (i_freed_nd s I).
Qed.

Lemma get_init i : get init i = dummy_obj.
Proof. unfold get, init; simpl. destruct i; reflexivity. Qed.

Lemma inv_init : inv init.
Proof.
  constructor; intros; try rewrite !get_init in *; simpl in *; try tauto; try discriminate; try constructor.
Qed.

(* ---- pushing one object *)
Lemma get_push_old s os root nb i : i < nobj s -> get (push_objs s os root nb) i = get s i.
Proof. intros H. unfold get, push_objs; simpl. apply app_nth1. exact H. Qed.

Lemma get_push_new s o root nb : get (push_objs s [o] root nb) (nobj s) = o.
Proof.
  unfold get, push_objs, nobj; simpl. rewrite app_nth2 by lia. rewrite Nat.sub_diag. reflexivity.
Qed.

Lemma get_push_beyond s o root nb i : nobj s < i -> get (push_objs s [o] root nb) i = dummy_obj.
Proof.
  intros H. unfold get, push_objs, nobj in *; simpl. apply nth_overflow. rewrite app_length. simpl. lia.
Qed.

Lemma get_beyond s i : nobj s <= i -> get s i = dummy_obj.
Proof. intros H. unfold get. apply nth_overflow. exact H. Qed.

Ltac case_id s i :=
  destruct (lt_eq_lt_dec i (nobj s)) as [[?Hlt|?Heq]|?Hgt];
  [ rewrite (get_push_old s _ _ _ i) in * by assumption
  | subst i; rewrite (get_push_new s) in *
  | rewrite (get_push_beyond s _ _ _ i) in * by assumption ].

Lemma liveb_push s os root nb i : liveb s i = true -> liveb (push_objs s os root nb) i = true.
Proof.
  rewrite !liveb_spec. unfold push_objs, nobj; simpl. rewrite app_length. intros [? ?]. split; [lia|assumption].
Qed.

Lemma inv_push1 s o nb :
  inv s ->
  (forall r, In r (o_refs o) -> liveb s r = true) ->
  (forall b, In b (o_bufs o) -> b < s_nbuf s + nb) ->
  (forall b, In b (o_frees o) -> s_nbuf s <= b < s_nbuf s + nb) ->
  NoDup (o_frees o) ->
  (forall b f, In b (o_bufs o) -> In b (o_frees (get s f)) ->
               exists r, In r (o_refs o) /\ reach (s_objs s) r f) ->
  (o_kind o = KArray -> exists sid, o_under o = Some sid /\ In sid (o_refs o)
                                    /\ incl (o_bufs o) (o_bufs (get s sid))) ->
  (forall t, is_ndarray (o_kind o) = true -> o_under o = Some t -> In t (o_refs o)) ->
  o_kind o <> KBareView ->
  inv (push_objs s [o] (nobj s) nb).
Proof.
  intros I Hrefs Hbufs Hfrees Hnd Hpath Harr Hview Hnb.
  assert (Hn' : nobj (push_objs s [o] (nobj s) nb) = S (nobj s)).
  { unfold nobj, push_objs; simpl. rewrite app_length; simpl. lia. }
  assert (Hrl : forall r, In r (o_refs o) -> r < nobj s).
  { intros r Hr. apply Hrefs in Hr. apply liveb_spec in Hr. tauto. }
  constructor.
  - (* bufs_lt *) intros i b Hb. simpl. case_id s i.
    + pose proof (i_bufs_lt s I i b Hb). lia.
    + apply Hbufs; assumption.
    + simpl in Hb; tauto.
  - (* frees_lt *) intros i b Hb. simpl. case_id s i.
    + pose proof (i_frees_lt s I i b Hb). lia.
    + apply Hfrees in Hb. lia.
    + simpl in Hb; tauto.
  - (* uniq *) intros f f' b H1 H2. case_id s f; case_id s f'; simpl in *; try tauto; try reflexivity.
    + eapply i_uniq; eauto.
    + pose proof (i_frees_lt s I f b H1). apply Hfrees in H2. lia.
    + pose proof (i_frees_lt s I f' b H2). apply Hfrees in H1. lia.
  - (* frees_nd *) intros f. case_id s f; [apply (i_frees_nd s I)|assumption|constructor].
  - (* path *) intros i b f Hb Hf. simpl. case_id s i; case_id s f; simpl in *; try tauto.
    + apply reach_app. eapply i_path; eauto.
    + pose proof (i_bufs_lt s I i b Hb). apply Hfrees in Hf. lia.
    + destruct (Hpath b f Hb Hf) as [r [Hr Hre]].
      apply reach_step with r.
      * rewrite app_nth2 by (unfold nobj; lia). unfold nobj. rewrite Nat.sub_diag. exact Hr.
      * apply reach_app. exact Hre.
    + constructor.
  - (* array *) intros a Hk. case_id s a.
    + destruct (i_array s I a Hk) as [sid [Hu [Hin Hincl]]]. exists sid. repeat split; try assumption.
      rewrite get_push_old by (eapply i_refs_lt; eauto). assumption.
    + destruct (Harr Hk) as [sid [Hu [Hin Hincl]]]. exists sid. repeat split; try assumption.
      rewrite get_push_old by auto. assumption.
    + simpl in Hk. discriminate.
  - (* view *) intros v t Hk Hu. case_id s v.
    + eapply i_view; eauto.
    + auto.
    + simpl in Hu. discriminate.
  - (* roots *) intros r Hr. simpl in Hr. destruct Hr as [<-|Hr].
    + apply liveb_spec. split; [lia|]. simpl. intros Hd. apply (i_dead_lt s I) in Hd. lia.
    + apply liveb_push. apply (i_roots s I). assumption.
  - (* closed *) intros i r Hl Hr. case_id s i.
    + apply liveb_push. apply (i_closed s I i r); [|assumption].
      apply liveb_spec in Hl. apply liveb_spec. simpl in Hl. tauto.
    + apply liveb_push. auto.
    + simpl in Hr. tauto.
  - (* dead_lt *) intros d Hd. simpl in Hd. apply (i_dead_lt s I) in Hd. lia.
  - (* refs_lt *) intros i r Hr. rewrite Hn'. case_id s i.
    + apply (i_refs_lt s I) in Hr. lia.
    + apply Hrl in Hr. lia.
    + simpl in Hr. tauto.
  - (* dead_nd *) simpl. apply (i_dead_nd s I).
  - (* freed_from *) intros b Hb. simpl in Hb. destruct (i_freed_from s I b Hb) as [f [Hd Hf]].
    exists f. split; [assumption|]. rewrite get_push_old by (apply (i_dead_lt s I); assumption). assumption.
  - (* freed_nd *) simpl. apply (i_freed_nd s I).
  - (* nobare *) intros i. case_id s i; [apply (i_nobare s I)|assumption|simpl; discriminate].
Qed.

Lemma inv_roots s roots' :
  inv s -> (forall r, In r roots' -> liveb s r = true) ->
  inv (mkSt (s_objs s) (s_dead s) roots' (s_nbuf s) (s_freed s)).
Proof.
  intros I H. destruct I. constructor; auto.
Qed.

Lemma remove_nth_In {A} (x : A) i l : In x (remove_nth i l) -> In x l.
Proof.
  revert i; induction l as [|y l IH]; intros [|i]; simpl; auto.
  intros [->|H]; [left; reflexivity|right; eauto].
Qed.

Lemma nodup_app {A} (l l' : list A) :
  NoDup l -> NoDup l' -> (forall x, In x l -> ~ In x l') -> NoDup (l ++ l').
Proof.
  induction 1 as [|x l Hx Hnd IH]; simpl; intros H' Hd; [assumption|].
  constructor.
  - rewrite in_app_iff. intros [?|?]; [tauto|]. apply (Hd x); [left; reflexivity|assumption].
  - apply IH; [assumption|]. intros y Hy. apply Hd. right; assumption.
Qed.

Lemma nodup_flat_map {A B} (f : A -> list B) (l : list A) :
  NoDup l -> (forall x, In x l -> NoDup (f x)) ->
  (forall x y b, In x l -> In y l -> In b (f x) -> In b (f y) -> x = y) ->
  NoDup (flat_map f l).
Proof.
  induction 1 as [|x l Hx Hnd IH]; simpl; intros H1 H2; [constructor|].
  apply nodup_app.
  - apply H1. left; reflexivity.
  - apply IH; [intros; apply H1; right; assumption|].
    intros a b c Ha Hb. apply H2; right; assumption.
  - intros b Hb Hin. apply in_flat_map in Hin. destruct Hin as [y [Hy Hby]].
    assert (x = y) by (apply (H2 x y b); [left; reflexivity|right; assumption|assumption|assumption]).
    subst. tauto.
Qed.

Definition good (c : cfg) : Prop := edges_ok c = true.

Lemma good_fields c : good c ->
  c_view_storage c = true /\ c_storage_input c = true /\ c_array_storage c = true
  /\ c_owns_from c = false.
Proof.
  intros H. unfold good, edges_ok, required_edges in H. simpl in H.
  rewrite !andb_true_iff in H. rewrite negb_true_iff in H. tauto.
Qed.

Lemma inv_collect s K : inv s -> valid_collect s K = true ->
  inv (mkSt (s_objs s) (K ++ s_dead s) (s_roots s) (s_nbuf s)
            (flat_map (fun k => o_frees (get s k)) K ++ s_freed s)).
Proof.
  intros I HV. unfold valid_collect in HV. rewrite !andb_true_iff in HV.
  destruct HV as [[HK1 HK2] HK3]. apply nodupn_NoDup in HK1.
  rewrite forallb_forall in HK2. rewrite forallb_forall in HK3.
  assert (HKl : forall k, In k K -> liveb s k = true /\ ~ In k (s_roots s)).
  { intros k Hk. specialize (HK2 k Hk). rewrite andb_true_iff, negb_true_iff in HK2.
    unfold rootb in HK2. rewrite memn_false in HK2. exact HK2. }
  set (s' := mkSt _ _ _ _ _).
  assert (Hget : forall i, get s' i = get s i) by reflexivity.
  assert (Hlive : forall i, liveb s' i = true <-> liveb s i = true /\ ~ In i K).
  { intros i. rewrite !liveb_spec. unfold s', nobj; simpl. rewrite in_app_iff. tauto. }
  constructor; try (intros; rewrite ?Hget in *; simpl).
  - eapply i_bufs_lt; eauto.
  - eapply i_frees_lt; eauto.
  - eapply i_uniq; eauto.
  - apply (i_frees_nd s I).
  - eapply i_path; eauto.
  - apply (i_array s I); assumption.
  - eapply i_view; eauto.
  - (* roots *) apply Hlive. split; [apply (i_roots s I); assumption|].
    intros Hk. apply HKl in Hk. simpl in *. tauto.
  - (* closed *) apply Hlive in H. destruct H as [Hl HnK]. apply Hlive.
    split; [eapply i_closed; eauto|].
    assert (Hi : In i (seq 0 (nobj s))). { apply in_seq. apply liveb_spec in Hl. lia. }
    specialize (HK3 i Hi). rewrite !orb_true_iff in HK3. destruct HK3 as [[H1|H1]|H1].
    + rewrite Hl in H1. discriminate.
    + apply memn_In in H1. tauto.
    + rewrite forallb_forall in H1. specialize (H1 r H0). rewrite negb_true_iff, memn_false in H1. exact H1.
  - (* dead_lt *) simpl in H. apply in_app_iff in H. destruct H as [H|H].
    + apply HKl in H. destruct H as [H _]. apply liveb_spec in H. unfold nobj in *. simpl. tauto.
    + apply (i_dead_lt s I). assumption.
  - (* refs_lt *) apply (i_refs_lt s I i r). assumption.
  - (* dead_nd *) apply nodup_app; [assumption|apply (i_dead_nd s I)|].
    intros x Hx Hd. apply HKl in Hx. destruct Hx as [Hx _]. apply liveb_spec in Hx. tauto.
  - (* freed_from *) simpl in H. apply in_app_iff in H. destruct H as [H|H].
    + apply in_flat_map in H. destruct H as [k [Hk Hb]]. exists k. split; [apply in_app_iff; left; assumption|assumption].
    + destruct (i_freed_from s I b H) as [f [Hd Hf]]. exists f. split; [apply in_app_iff; right; assumption|assumption].
  - (* freed_nd *) apply nodup_app.
    + apply nodup_flat_map; [assumption|intros; apply (i_frees_nd s I)|].
      intros x y b _ _ Hx Hy. eapply i_uniq; eauto.
    + apply (i_freed_nd s I).
    + intros b Hb Hf. apply in_flat_map in Hb. destruct Hb as [k [Hk Hbk]].
      destruct (i_freed_from s I b Hf) as [f [Hd Hbf]].
      assert (k = f) by (eapply i_uniq; eauto). subst f.
      apply HKl in Hk. destruct Hk as [Hk _]. apply liveb_spec in Hk. tauto.
  - apply (i_nobare s I).
Qed.

Lemma forallb_and3 {A} (p q r : A -> bool) l x :
  forallb (fun y => p y && q y && r y) l = true -> In x l -> p x = true /\ q x = true /\ r x = true.
Proof.
  intros H Hx. rewrite forallb_forall in H. specialize (H x Hx). rewrite !andb_true_iff in H. tauto.
Qed.

Lemma inv_step c s e :
  good c -> (c_wrapped c = false \/ is_collapse e = false) -> inv s -> inv (step c s e).
Proof.
  intros G HC I. destruct (good_fields c G) as [Gvs [Gsi [Gas Gof]]].
  destruct e as [|srcs|op args nb|sid|r|a k|v|v|i|K]; simpl.
  - (* ENewNumpy *)
    apply inv_push1; simpl; try assumption; try tauto; try discriminate.
    + intros b [<-|[]]. lia.
    + intros b [<-|[]]. lia.
    + repeat constructor; simpl; tauto.
    + intros b f [<-|[]] Hf. apply (i_frees_lt s I) in Hf. lia.
  - (* EFromArrays *)
    destruct (forallb _ srcs) eqn:Hc; [|assumption].
    rewrite Gsi, Gof.
    apply inv_push1; simpl; try assumption; try tauto; try discriminate.
    + intros r Hr. destruct (forallb_and3 _ _ _ _ _ Hc Hr) as [_ [Hl _]]. assumption.
    + intros b Hb. apply in_flat_map in Hb. destruct Hb as [r [_ Hb]]. apply (i_bufs_lt s I) in Hb. lia.
    + constructor.
    + intros b f Hb Hf. apply in_flat_map in Hb. destruct Hb as [r [Hr Hb]].
      exists r. split; [assumption|]. eapply i_path; eauto.
  - (* EOp *)
    destruct (forallb _ args) eqn:Hc; [|assumption].
    apply inv_push1; simpl; try assumption; try tauto; try discriminate.
    + intros b Hb. apply in_seq in Hb. lia.
    + intros b Hb. destruct (c_owns_op c op); [apply in_seq in Hb; lia|simpl in Hb; tauto].
    + destruct (c_owns_op c op); [apply seq_NoDup|constructor].
    + intros b f Hb Hf. apply in_seq in Hb. apply (i_frees_lt s I) in Hf. lia.
  - (* EWrap *)
    destruct (rootb s sid && liveb s sid && is_storage (o_kind (get s sid))) eqn:Hc; [|assumption].
    rewrite !andb_true_iff in Hc. destruct Hc as [[_ Hl] _].
    rewrite Gas.
    apply inv_push1; simpl; try assumption; try tauto; try discriminate.
    + intros r [<-|[]]. assumption.
    + intros b Hb. apply (i_bufs_lt s I) in Hb. lia.
    + constructor.
    + intros b f Hb Hf. exists sid. split; [left; reflexivity|]. eapply i_path; eauto.
    + intros _. exists sid. split; [reflexivity|]. split; [left; reflexivity|]. apply incl_refl.
  - (* EAlias *)
    destruct (rootb s r) eqn:Hr; [|assumption].
    apply inv_roots; [assumption|]. intros x [<-|Hx].
    + apply (i_roots s I). apply memn_In. exact Hr.
    + apply (i_roots s I). assumption.
  - (* EGetView: the same edges whether or not the dtype is wrapped *)
    destruct (rootb s a && liveb s a && is_array (o_kind (get s a))) eqn:Hc; [|assumption].
    rewrite !andb_true_iff in Hc. destruct Hc as [[_ Hl] Hk].
    destruct (o_under (get s a)) as [sid|] eqn:Hu; [|assumption].
    destruct (nth_error (o_bufs (get s a)) k) as [b|] eqn:Hb; [|assumption].
    rewrite Gvs.
    assert (Hka : o_kind (get s a) = KArray) by (destruct (o_kind (get s a)); simpl in Hk; congruence).
    destruct (i_array s I a Hka) as [sid' [Hu' [Hin Hincl]]].
    assert (sid' = sid) by congruence. subst sid'.
    apply nth_error_In in Hb.
    apply inv_push1; simpl; try assumption; try tauto; try discriminate.
    + intros r [<-|[]]. eapply i_closed; eauto.
    + intros b' [<-|[]]. apply (i_bufs_lt s I) in Hb. lia.
    + constructor.
    + intros b' f [<-|[]] Hf. exists sid. split; [left; reflexivity|].
      eapply i_path; eauto.
    + destruct (c_wrapped c); discriminate.
    + destruct (c_wrapped c); discriminate.
  - (* EDerive *)
    destruct (rootb s v && liveb s v) eqn:Hc; [|assumption].
    rewrite !andb_true_iff in Hc. destruct Hc as [_ Hl].
    set (t := match o_under (get s v) with Some t => t | None => v end).
    assert (Hnd : is_ndarray (o_kind (get s v)) = true ->
                  liveb s t = true).
    { intros Hk. unfold t. destruct (o_under (get s v)) as [t'|] eqn:Hu; [|assumption].
      apply (i_closed s I v); [assumption|]. apply (i_view s I); assumption. }
    destruct (o_kind (get s v)) eqn:Hk; try assumption.
    + (* KNumpy *)
      apply inv_push1; simpl; try assumption; try tauto; try discriminate.
      * intros r [<-|[]]. auto.
      * intros b Hb. apply (i_bufs_lt s I) in Hb. lia.
      * constructor.
      * intros b f Hb Hf. exists t. split; [left; reflexivity|]. eapply i_path; eauto.
      * intros t' _ Ht'. left. congruence.
    + (* KView *)
      apply inv_push1; simpl; try assumption; try tauto; try discriminate.
      * intros r [<-|[]]. auto.
      * intros b Hb. apply (i_bufs_lt s I) in Hb. lia.
      * constructor.
      * intros b f Hb Hf. exists t. split; [left; reflexivity|]. eapply i_path; eauto.
      * intros t' _ Ht'. left. congruence.
    + (* KBareView: none exists *)
      exfalso. exact (i_nobare s I v Hk).
  - (* ECollapse: excluded, or a no-op for an unwrapped configuration *)
    destruct HC as [W|W]; [|discriminate]. rewrite W. simpl. assumption.
  - (* EDel *)
    apply inv_roots; [assumption|]. intros r Hr. apply remove_nth_In in Hr. apply (i_roots s I). assumption.
  - (* ECollect *)
    destruct (valid_collect s K) eqn:HV; [|assumption].
    apply inv_collect; assumption.
Qed.

Lemma inv_run_from c h s :
  good c -> (c_wrapped c = false \/ no_collapse h = true) -> inv s -> inv (fold_left (step c) h s).
Proof.
  intros G. revert s. induction h as [|e h IH]; intros s HC I; simpl; [assumption|].
  apply IH.
  - destruct HC as [W|N]; [left; assumption|right].
    unfold no_collapse in *. simpl in N. apply andb_true_iff in N. tauto.
  - apply inv_step; try assumption.
    destruct HC as [W|N]; [left; assumption|right].
    unfold no_collapse in N. simpl in N. apply andb_true_iff in N. destruct N as [N _].
    apply negb_true_iff in N. exact N.
Qed.

(* every view-creation pattern is safe except ECollapse — a NumPy view derived from a wrapped memref
   view (what to_numpy does for complex64/128 and float16, and what slicing an array returned by
   get_constituent_arrays() does for those dtypes) *)
Theorem no_use_after_free_proof :
  forall (c : cfg) (h : list event), edges_ok c = true ->
    (c_wrapped c = false \/ no_collapse h = true) ->
    safeb (run c h) = true /\ free_once (run c h) = true.
Proof.
  intros c h E W. apply inv_safe. apply inv_run_from; [exact E|exact W|apply inv_init].
Qed.

End Ownership.

(* ========================================================================================== *)
(* B. layouts                                                                                 *)
Section LayoutP.
Open Scope Z_scope.

Lemma map_flat_map {A B C} (f : B -> C) (g : A -> list B) l :
  map f (flat_map g l) = flat_map (fun x => map f (g x)) l.
Proof. induction l as [|x l IH]; simpl; [reflexivity|]. rewrite map_app, IH. reflexivity. Qed.

Lemma flat_map_single {A B} (f : A -> B) l : flat_map (fun x => [f x]) l = map f l.
Proof. induction l as [|x l IH]; simpl; [reflexivity|]. rewrite IH. reflexivity. Qed.

Lemma flat_map_ext_in {A B} (f g : A -> list B) l :
  (forall x, In x l -> f x = g x) -> flat_map f l = flat_map g l.
Proof.
  induction l as [|x l IH]; simpl; intros H; [reflexivity|].
  rewrite (H x) by (left; reflexivity). rewrite IH; [reflexivity|]. intros; apply H; right; assumption.
Qed.

Lemma map_nth_seq {A} (l : list A) d : map (fun k => nth k l d) (seq 0 (length l)) = l.
Proof.
  induction l as [|x l IH]; simpl; [reflexivity|]. f_equal.
  rewrite <- seq_shift, map_map. exact IH.
Qed.

Lemma nthZ_of_nat l k : nthZ l (Z.of_nat k) = nth k l 0.
Proof. unfold nthZ. rewrite Nat2Z.id. reflexivity. Qed.

Lemma gather_id l : gather l (zseq 0 (length l)) = l.
Proof.
  unfold gather, zseq. rewrite map_map.
  rewrite (map_ext _ (fun k => nth k l 0)) by (intros; apply nthZ_of_nat). apply map_nth_seq.
Qed.

Lemma index_of_zseq n : forall a d, (a <= d < a + n)%nat ->
  index_of (Z.of_nat d) (zseq a n) = Z.of_nat (d - a).
Proof.
  induction n as [|n IH]; intros a d H; [lia|].
  unfold zseq in *. simpl.
  destruct (Z.eqb_spec (Z.of_nat a) (Z.of_nat d)) as [E|E].
  - apply Nat2Z.inj in E. subst. rewrite Nat.sub_diag. reflexivity.
  - rewrite IH by lia. lia.
Qed.

Lemma to_dims_id n lc : length lc = n -> to_dims (zseq 0 n) lc = lc.
Proof.
  intros H. unfold to_dims. unfold zseq at 2. rewrite map_length, seq_length.
  rewrite (map_ext_in _ (fun d => nth d lc 0)).
  - subst n. apply map_nth_seq.
  - intros d Hd. apply in_seq in Hd. rewrite index_of_zseq by lia.
    rewrite Nat.sub_0_r. apply nthZ_of_nat.
Qed.

Lemma assemble_dense sh : assemble (repeat LDense (length sh)) sh [] = Some (map SDense sh).
Proof. induction sh as [|d sh IH]; simpl; [reflexivity|]. rewrite IH. reflexivity. Qed.

Lemma walk_dense sh : forall p,
  walk (map SDense sh) p = map (fun ix => (ix, p * size sh + ravel sh ix)) (all_indices sh).
Proof.
  induction sh as [|d sh IH]; intros p.
  - simpl. f_equal. f_equal. lia.
  - cbn [map walk all_indices]. rewrite map_flat_map. apply flat_map_ext_in. intros i _.
    rewrite IH, !map_map. apply map_ext. intros ix. cbn [fst snd ravel size fold_right].
    f_equal. fold (size sh). ring.
Qed.

Variable V : Type.
Variable v0 : V.

Lemma dense_layout sh (flat : list V) :
  storage_entries v0 (repeat LDense (length sh)) (zseq 0 (length sh)) sh [] flat
  = Some (dense_entries v0 sh flat).
Proof.
  unfold storage_entries, lvl_shape. rewrite gather_id, assemble_dense. f_equal.
  rewrite walk_dense, map_map. unfold dense_entries. apply map_ext_in. intros ix Hix.
  cbn [fst snd]. apply all_indices_In in Hix. apply in_range_length in Hix.
  rewrite to_dims_id by assumption.
  replace (0 * size sh + ravel sh ix) with (ravel sh ix) by lia. reflexivity.
Qed.

Lemma zrange2_0 n : zrange2 0 n = zrange n.
Proof.
  unfold zrange2. rewrite Z.sub_0_r. rewrite (map_ext _ (fun k => k)) by (intros; lia). apply map_id.
Qed.

Lemma csr_layout nrows ncols indptr indices (data : list V) :
  storage_entries v0 [LDense; LCompressed] [0; 1] [nrows; ncols] [indptr; indices] data
  = Some (csr_entries v0 nrows indptr indices data).
Proof.
  unfold storage_entries. change (lvl_shape [0; 1] [nrows; ncols]) with [nrows; ncols].
  cbn [assemble option_map walk]. f_equal. unfold csr_entries.
  rewrite map_flat_map. apply flat_map_ext_in. intros i _.
  cbn [map]. rewrite flat_map_single, !map_map.
  replace (0 * nrows + i) with i by lia. apply map_ext. intros k. reflexivity.
Qed.

Lemma csc_layout nrows ncols indptr indices (data : list V) :
  storage_entries v0 [LDense; LCompressed] [1; 0] [nrows; ncols] [indptr; indices] data
  = Some (csc_entries v0 ncols indptr indices data).
Proof.
  unfold storage_entries. change (lvl_shape [1; 0] [nrows; ncols]) with [ncols; nrows].
  cbn [assemble option_map walk]. f_equal. unfold csc_entries.
  rewrite map_flat_map. apply flat_map_ext_in. intros i _.
  cbn [map]. rewrite flat_map_single, !map_map.
  replace (0 * ncols + i) with i by lia. apply map_ext. intros k. reflexivity.
Qed.

Lemma coo_layout nrows ncols nnz row col (data : list V) :
  storage_entries v0 [LCompressed; LSingleton] [0; 1] [nrows; ncols] [[0; nnz]; row; col] data
  = Some (coo_entries v0 nnz row col data).
Proof.
  unfold storage_entries. change (lvl_shape [0; 1] [nrows; ncols]) with [nrows; ncols].
  cbn [assemble option_map walk]. f_equal. unfold coo_entries.
  change (nthZ [0; nnz] 0) with 0. change (nthZ [0; nnz] (0 + 1)) with nnz.
  rewrite zrange2_0. cbn [map]. rewrite flat_map_single, map_map. apply map_ext. intros k. reflexivity.
Qed.

Lemma csf3_layout n0 n1 n2 pos1 crd1 pos2 crd2 (data : list V) :
  storage_entries v0 (map l_fmt (csf_levels 3)) [0; 1; 2] [n0; n1; n2] [pos1; crd1; pos2; crd2] data
  = Some (csf3_entries v0 n0 pos1 crd1 pos2 crd2 data).
Proof.
  unfold storage_entries. change (lvl_shape [0; 1; 2] [n0; n1; n2]) with [n0; n1; n2].
  cbn [csf_levels repeat map l_fmt lv_dense lv_compressed assemble option_map walk]. f_equal. unfold csf3_entries.
  rewrite map_flat_map. apply flat_map_ext_in. intros i _.
  replace (0 * n0 + i) with i by lia.
  rewrite map_flat_map, map_flat_map. apply flat_map_ext_in. intros k1 _.
  cbn [map]. rewrite flat_map_single, !map_map. apply map_ext. intros k2. reflexivity.
Qed.

Lemma csf4_layout n0 n1 n2 n3 pos1 crd1 pos2 crd2 pos3 crd3 (data : list V) :
  storage_entries v0 (map l_fmt (csf_levels 4)) [0; 1; 2; 3] [n0; n1; n2; n3]
                  [pos1; crd1; pos2; crd2; pos3; crd3] data
  = Some (csf4_entries v0 n0 pos1 crd1 pos2 crd2 pos3 crd3 data).
Proof.
  unfold storage_entries. change (lvl_shape [0; 1; 2; 3] [n0; n1; n2; n3]) with [n0; n1; n2; n3].
  cbn [csf_levels repeat map l_fmt lv_dense lv_compressed assemble option_map walk]. f_equal. unfold csf4_entries.
  rewrite map_flat_map. apply flat_map_ext_in. intros i _.
  replace (0 * n0 + i) with i by lia.
  rewrite map_flat_map, map_flat_map. apply flat_map_ext_in. intros k1 _.
  rewrite map_flat_map, map_flat_map, map_flat_map. apply flat_map_ext_in. intros k2 _.
  cbn [map]. rewrite flat_map_single, !map_map. apply map_ext. intros k3. reflexivity.
Qed.

End LayoutP.

(* the statements tied to the extracted array orders *)
Section Roundtrip.
Open Scope Z_scope.
Variable V : Type.
Variable v0 : V.

Theorem roundtrip_layout_csr_proof : forall nrows ncols indptr indices (data : list V),
  exists arrs, from_scipy_csx indptr indices = Some arrs
    /\ storage_entries v0 [LDense; LCompressed] site_csr_order [nrows; ncols] arrs data
       = Some (csr_entries v0 nrows indptr indices data)
    /\ to_scipy_is_csr site_csr_order = true
    /\ to_scipy_csx arrs = (indptr, indices).
Proof.
  intros. exists [indptr; indices]. split; [reflexivity|]. split; [apply csr_layout|].
  split; reflexivity.
Qed.

Theorem roundtrip_layout_csc_proof : forall nrows ncols indptr indices (data : list V),
  exists arrs, from_scipy_csx indptr indices = Some arrs
    /\ storage_entries v0 [LDense; LCompressed] site_csc_order [nrows; ncols] arrs data
       = Some (csc_entries v0 ncols indptr indices data)
    /\ to_scipy_is_csr site_csc_order = false
    /\ to_scipy_csx arrs = (indptr, indices).
Proof.
  intros. exists [indptr; indices]. split; [reflexivity|]. split; [apply csc_layout|].
  split; reflexivity.
Qed.

Theorem roundtrip_layout_coo_proof : forall nrows ncols nnz row col (data : list V),
  exists arrs, from_scipy_coo nnz row col = Some arrs
    /\ storage_entries v0 [LCompressed; LSingleton] [0; 1] [nrows; ncols] arrs data
       = Some (coo_entries v0 nnz row col data)
    /\ to_scipy_coo arrs = (row, col).
Proof.
  intros. exists [[0; nnz]; row; col]. split; [reflexivity|]. split; [apply coo_layout|reflexivity].
Qed.

Theorem roundtrip_layout_dense_proof : forall sh (flat : list V),
  storage_entries v0 (map l_fmt (dense_levels (length sh))) (zseq 0 (length sh)) sh [] flat
  = Some (dense_entries v0 sh flat).
Proof.
  intros. unfold dense_levels.
  replace (map l_fmt (repeat lv_dense (length sh))) with (repeat LDense (length sh)).
  - apply dense_layout.
  - induction (length sh) as [|n IH]; simpl; [reflexivity|]. rewrite <- IH. reflexivity.
Qed.
End Roundtrip.

(* ========================================================================================== *)
(* A. _determine_format                                                                        *)
Section DetFmt.
Open Scope Z_scope.

Definition out_rank (fmts : list cformat) (out_ndim : option nat) : nat :=
  match out_ndim with Some n => n | None => fold_left Nat.max (map frank fmts) 0%nat end.

Definition max_width (ws : list Z) : Z := fold_left Z.max ws 0.

Lemma gcf_ok levels order pos crd f :
  get_concrete_format levels order pos crd = Ok f ->
  fmt_wfb f = true /\ f_levels f = levels /\ f_pos f = pos /\ f_crd f = crd.
Proof.
  unfold get_concrete_format. destruct (is_permb _ _) eqn:E; [|discriminate].
  intros H. inversion H; subst. unfold fmt_wfb, frank. simpl. auto.
Qed.

Lemma gsdl_len ns n lv : get_sparse_dense_levels ns (Z.of_nat n) = Ok lv -> length lv = n.
Proof.
  unfold get_sparse_dense_levels, gsdl_ok. destruct (_ && _ && _) eqn:E; [|discriminate].
  rewrite !andb_true_iff, !Z.leb_le in E. intros H. inversion H; subst.
  rewrite app_length, !repeat_length. lia.
Qed.

Theorem determine_format_wf_proof :
  forall fmts union out_ndim f,
    determine_format fmts union out_ndim = Ok f ->
    fmt_wfb f = true
    /\ frank f = out_rank fmts out_ndim
    /\ (fmts <> [] -> f_pos f = max_width (map f_pos fmts) /\ f_crd f = max_width (map f_crd fmts)).
Proof.
  intros fmts union out_ndim f. unfold determine_format. destruct fmts as [|f0 rest].
  - intros H. apply gcf_ok in H. destruct H as [Hw [Hl _]]. split; [assumption|]. split; [|congruence].
    unfold frank. rewrite Hl, repeat_length. destruct out_ndim; reflexivity.
  - set (n := match out_ndim with Some n => n | None => _ end).
    destruct (get_sparse_dense_levels _ _) as [lv|] eqn:El; [|discriminate]. cbn [bind].
    intros H. apply gcf_ok in H. destruct H as [Hw [Hl [Hp Hc]]].
    split; [assumption|]. split.
    + unfold frank. rewrite Hl. apply gsdl_len in El. rewrite El. unfold n, out_rank. reflexivity.
    + intros _. split; assumption.
Qed.

(* ---- totality when the output rank is at least every operand's rank (add; reshape to a higher rank) *)
Lemma memz_In x l : memz x l = true <-> In x l.
Proof.
  unfold memz. rewrite existsb_exists. split.
  - intros [y [Hy He]]. apply Z.eqb_eq in He. subst. assumption.
  - intros H. exists x. split; [assumption|apply Z.eqb_refl].
Qed.

Lemma nodupb_NoDup l : nodupb l = true <-> NoDup l.
Proof.
  induction l as [|x l IH]; simpl.
  - split; [constructor|reflexivity].
  - rewrite andb_true_iff, negb_true_iff, IH. split.
    + intros [Hm ?]. constructor; [|assumption]. intros Hi. apply memz_In in Hi. congruence.
    + intros H. inversion H; subst. split; [|assumption].
      destruct (memz x l) eqn:E; [|reflexivity]. apply memz_In in E. tauto.
Qed.

Lemma zseq_In a n x : In x (zseq a n) <-> Z.of_nat a <= x < Z.of_nat (a + n).
Proof.
  unfold zseq. rewrite in_map_iff. split.
  - intros [k [<- Hk]]. apply in_seq in Hk. lia.
  - intros H. exists (Z.to_nat x). split; [lia|]. apply in_seq. lia.
Qed.

Lemma zseq_NoDup a n : NoDup (zseq a n).
Proof.
  unfold zseq. revert a. induction n as [|n IH]; intros a; simpl; constructor.
  - rewrite in_map_iff. intros [k [He Hk]]. apply in_seq in Hk. lia.
  - apply IH.
Qed.

Lemma is_permb_spec o n :
  is_permb o n = true <-> length o = n /\ (forall x, In x o -> 0 <= x < Z.of_nat n) /\ NoDup o.
Proof.
  unfold is_permb. rewrite !andb_true_iff, Nat.eqb_eq, forallb_forall, nodupb_NoDup.
  unfold in_rangeb. split.
  - intros [[H1 H2] H3]. repeat split; try assumption;
      specialize (H2 x H); rewrite andb_true_iff, Z.leb_le, Z.ltb_lt in H2; lia.
  - intros [H1 [H2 H3]]. repeat split; try assumption.
    intros x Hx. specialize (H2 x Hx). rewrite andb_true_iff, Z.leb_le, Z.ltb_lt. lia.
Qed.

Lemma is_permb_extend o k n :
  is_permb o k = true -> (k <= n)%nat -> is_permb (o ++ zseq k (n - k)) n = true.
Proof.
  intros H Hk. apply is_permb_spec in H. destruct H as [Hl [Hr Hn]]. apply is_permb_spec.
  split; [|split].
  - rewrite app_length. unfold zseq. rewrite map_length, seq_length. lia.
  - intros x Hx. apply in_app_iff in Hx. destruct Hx as [Hx|Hx].
    + apply Hr in Hx. lia.
    + apply zseq_In in Hx. lia.
  - apply nodup_app; [assumption|apply zseq_NoDup|].
    intros x Hx Hz. apply Hr in Hx. apply zseq_In in Hz. lia.
Qed.

Lemma is_permb_zseq n : is_permb (zseq 0 n) n = true.
Proof.
  replace (zseq 0 n) with ([] ++ zseq 0 (n - 0)) by (rewrite Nat.sub_0_r; reflexivity).
  apply is_permb_extend; [reflexivity|lia].
Qed.

Lemma fold_zmax_ge l : forall a, a <= fold_left Z.max l a.
Proof.
  induction l as [|x l IH]; intros a; simpl; [lia|]. specialize (IH (Z.max a x)). lia.
Qed.

Lemma fold_nmax_ge l : forall a x, (In x l \/ x = a) -> (x <= fold_left Nat.max l a)%nat.
Proof.
  induction l as [|y l IH]; intros a x H; simpl.
  - destruct H as [[] | ->]. lia.
  - destruct H as [[-> | H] | ->].
    + etransitivity; [|apply (IH (Nat.max a x) (Nat.max a x)); right; reflexivity]. lia.
    + apply IH. left; assumption.
    + etransitivity; [|apply (IH (Nat.max a y) (Nat.max a y)); right; reflexivity]. lia.
Qed.

Definition order_ok (all : list (list Z)) (acc : option (list Z)) : Prop :=
  match acc with None => True | Some o => o = [] \/ In o all end.

Lemma order_step_ok all acc fo : order_ok all acc -> In fo all -> order_ok all (order_step acc fo).
Proof.
  unfold order_step. destruct acc as [o|]; [|auto]. intros H Hf.
  destruct (zl_eqb _ o); [right; exact Hf|]. destruct (negb _); [exact I|exact H].
Qed.

Lemma order_fold_ok all l : forall acc, order_ok all acc -> incl l all ->
  order_ok all (fold_left order_step l acc).
Proof.
  induction l as [|fo l IH]; intros acc H Hi; simpl; [assumption|].
  apply IH; [apply order_step_ok; [assumption|apply Hi; left; reflexivity]|].
  intros x Hx. apply Hi. right; assumption.
Qed.

Lemma count_nonneg_sparse f : 0 <= count_sparse f.
Proof. unfold count_sparse. lia. Qed.
Lemma count_nonneg_dense f : 0 <= count_dense f.
Proof. unfold count_dense. lia. Qed.

Theorem determine_format_total_proof :
  forall fmts union out_ndim,
    fmts <> [] -> Forall (fun f => fmt_wfb f = true) fmts ->
    (forall n, out_ndim = Some n -> Forall (fun f => (frank f <= n)%nat) fmts) ->
    exists f, determine_format fmts union out_ndim = Ok f.
Proof.
  intros fmts union out_ndim Hne Hwf Hn.
  destruct fmts as [|f0 rest]; [congruence|]. unfold determine_format.
  set (n := match out_ndim with Some n => n | None => _ end).
  assert (Hrank : forall g, In g (f0 :: rest) -> (frank g <= n)%nat).
  { intros g Hg. unfold n. destruct out_ndim as [m|].
    - specialize (Hn m eq_refl). rewrite Forall_forall in Hn. auto.
    - apply fold_nmax_ge. left. apply in_map. exact Hg. }
  set (counter := if union then count_dense else count_sparse).
  set (nc := fold_left Z.max (map counter rest) (counter f0)).
  assert (Hnc : 0 <= nc).
  { unfold nc. etransitivity; [|apply fold_zmax_ge]. unfold counter. destruct union;
      [apply count_nonneg_dense|apply count_nonneg_sparse]. }
  unfold get_sparse_dense_levels, gsdl_ok.
  set (ns := df_nsparse (Z.of_nat n) nc union).
  assert (Hns : 0 <= ns <= Z.of_nat n).
  { unfold ns, df_nsparse. destruct (Z.ltb_spec (Z.of_nat n) nc); destruct union; lia. }
  replace ((0 <=? Z.of_nat n) && (0 <=? Z.of_nat n - ns) && (0 <=? ns)) with true
    by (symmetry; rewrite !andb_true_iff, !Z.leb_le; lia).
  cbn [bind]. unfold get_concrete_format.
  set (lv := repeat lv_dense _ ++ repeat lv_compressed _).
  assert (Hlv : length lv = n).
  { unfold lv. rewrite app_length, !repeat_length. lia. }
  rewrite Hlv.
  set (ord := fold_left order_step (map f_order (f0 :: rest)) (Some [])).
  assert (Hord : order_ok (map f_order (f0 :: rest)) ord).
  { apply order_fold_ok; [left; reflexivity|apply incl_refl]. }
  match goal with |- exists f, (if is_permb ?o n then _ else _) = _ => assert (Hp : is_permb o n = true) end.
  { destruct ord as [o|]; [|apply is_permb_zseq].
    assert (Ho : is_permb o (length o) = true /\ (length o <= n)%nat).
    { destruct Hord as [->|Hin]; [split; [reflexivity|simpl; lia]|].
      apply in_map_iff in Hin. destruct Hin as [g [<- Hg]].
      rewrite Forall_forall in Hwf. pose proof (Hwf g Hg) as Hw. unfold fmt_wfb in Hw.
      pose proof Hw as Hw'. apply is_permb_spec in Hw'. destruct Hw' as [Hl _].
      rewrite Hl. split; [assumption|]. apply Hrank. assumption. }
    destruct Ho as [Ho Hle].
    rewrite firstn_all2.
    - apply is_permb_extend; assumption.
    - rewrite app_length. unfold zseq. rewrite map_length, seq_length. lia. }
  rewrite Hp. eexists. reflexivity.
Qed.

(* every operand's width is at most the result's *)
Lemma max_width_ge ws w : In w ws -> w <= max_width ws.
Proof.
  unfold max_width. generalize 0. induction ws as [|x ws IH]; intros a H; [destruct H|].
  simpl. destruct H as [->|H].
  - etransitivity; [|apply fold_zmax_ge]. lia.
  - apply IH. assumption.
Qed.

(* ---- the translated scalar decisions of the source equal the model's sub-expressions, for all inputs *)
Definition oz (o : option Z) : pyv := match o with None => VNone | Some z => VInt z end.

Theorem determine_format_source_tie_proof :
  (* empty case: out_ndim default, level kind (0 dense / 1 compressed) *)
  (forall on : option Z, g_df_empty_ndim (oz on) = Ok (VInt (match on with Some n => n | None => 0 end)))
  /\ (forall u : bool, g_df_empty_level (VBool u) = Ok (VInt (if u then 0 else 1)))
  (* which counter: 0 = _count_dense_levels, 1 = _count_sparse_levels *)
  /\ (forall u : bool, g_df_counter (VBool u) = Ok (VInt (if u then 0 else 1)))
  (* loop body: running maxima, n_counted starting from None *)
  /\ (forall c, g_df_step_count VNone (VInt c) = Ok (VInt c))
  /\ (forall a c, g_df_step_count (VInt a) (VInt c) = Ok (VInt (Z.max a c)))
  /\ (forall a w, g_df_step_pos (VInt a) (VInt w) = Ok (VInt (Z.max a w)))
  /\ (forall a w, g_df_step_crd (VInt a) (VInt w) = Ok (VInt (Z.max a w)))
  (* clamp and n_sparse *)
  /\ (forall n nc u, g_df_nsparse (VInt n) (VInt nc) (VBool u) = Ok (VInt (df_nsparse n nc u)))
  (* _get_sparse_dense_levels(n_sparse=, ndim=): guard not taken, n_dense filled in, the three asserts *)
  /\ (forall ns nd, g_gsdl_guard (VInt ns) VNone (VInt nd) = Ok (VBool false))
  /\ (forall ns nd, g_gsdl_fill (VInt ns) VNone (VInt nd) = Ok (VTuple [VInt ns; VInt (nd - ns); VInt nd]))
  /\ (forall nd ndn ns, g_gsdl_ok (VInt nd) (VInt ndn) (VInt ns) = Ok (VBool (gsdl_ok nd ndn ns))).
Proof.
  repeat apply conj.
  - intros [n|]; reflexivity.
  - intros [|]; reflexivity.
  - intros [|]; reflexivity.
  - intros c. reflexivity.
  - intros a c. unfold g_df_step_count. cbn. destruct (Z.ltb_spec a c); f_equal; f_equal; lia.
  - intros a w. unfold g_df_step_pos. cbn. destruct (Z.ltb_spec a w); f_equal; f_equal; lia.
  - intros a w. unfold g_df_step_crd. cbn. destruct (Z.ltb_spec a w); f_equal; f_equal; lia.
  - intros n nc u. unfold g_df_nsparse, df_nsparse. cbn.
    destruct (Z.ltb_spec n nc); destruct u; reflexivity.
  - intros ns nd. reflexivity.
  - intros ns nd. reflexivity.
  - intros nd ndn ns. unfold g_gsdl_ok, gsdl_ok. cbn.
    rewrite !Z.geb_leb.
    destruct (0 <=? nd); [|reflexivity]. cbn. destruct (0 <=? ndn); [|reflexivity]. cbn. reflexivity.
Qed.

(* the loop's running maximum from None equals the model's fold from the first counter *)
Lemma step_count_fold cs : forall c0,
  fold_left (fun acc c => match acc with None => Some c | Some a => Some (Z.max a c) end) (c0 :: cs) None
  = Some (fold_left Z.max cs c0).
Proof.
  simpl. induction cs as [|c cs IH]; intros c0; simpl; [reflexivity|]. apply IH.
Qed.

Example determine_format_nonvacuous :
  let csr := mkFmt (csf_levels 2) [0; 1] 32 32 in
  let csc := mkFmt (csf_levels 2) [1; 0] 64 32 in
  determine_format [csr; csc] true None = Ok (mkFmt (csf_levels 2) [0; 1] 64 32)
  /\ determine_format [csc] false (Some 1%nat) = Raise ValueError.
Proof. split; reflexivity. Qed.

End DetFmt.

(* to_numpy's order inversion: every rank, every level order *)
Section ToNumpy.
Open Scope Z_scope.

Lemma upd_length l : forall k v, length (upd l k v) = length l.
Proof. induction l as [|x l IH]; intros [|k] v; simpl; auto. Qed.

Lemma nth_upd_same l : forall k v d, (k < length l)%nat -> nth k (upd l k v) d = v.
Proof. induction l as [|x l IH]; intros [|k] v d H; simpl in *; try lia; auto. apply IH. lia. Qed.

Lemma nth_upd_other l : forall k k' v d, k <> k' -> nth k' (upd l k v) d = nth k' l d.
Proof.
  induction l as [|x l IH]; intros [|k] [|k'] v d H; simpl; auto; try congruence.
Qed.

Section Scat.
  Context {A : Type} (f : A -> nat) (g : A -> Z).
  Definition scat (l : list A) (init : list Z) := fold_left (fun acc a => upd acc (f a) (g a)) l init.

  Lemma scat_length l : forall init, length (scat l init) = length init.
  Proof. induction l as [|a l IH]; intros init; simpl; [reflexivity|]. unfold scat in IH. rewrite IH. apply upd_length. Qed.

  Lemma scat_other l : forall init k, ~ In k (map f l) -> nth k (scat l init) 0 = nth k init 0.
  Proof.
    induction l as [|a l IH]; intros init k H; simpl; [reflexivity|].
    unfold scat in IH. rewrite IH by (simpl in H; tauto). apply nth_upd_other. simpl in H. tauto.
  Qed.

  Lemma scat_nth l : forall init, NoDup (map f l) -> (forall a, In a l -> (f a < length init)%nat) ->
    forall a, In a l -> nth (f a) (scat l init) 0 = g a.
  Proof.
    induction l as [|a0 l IH]; intros init Hnd Hb a Ha; [destruct Ha|].
    simpl in Hnd. inversion Hnd as [|? ? Hn0 Hnd']; subst. simpl.
    destruct Ha as [<-|Ha].
    - fold (scat l (upd init (f a0) (g a0))). rewrite scat_other by assumption.
      apply nth_upd_same. apply Hb. left; reflexivity.
    - apply (IH (upd init (f a0) (g a0))); try assumption.
      intros a' Ha'. rewrite upd_length. apply Hb. right; assumption.
  Qed.
End Scat.

Lemma map_snd_combine {A B} (a : list A) : forall (b : list B), length a = length b -> map snd (combine a b) = b.
Proof. induction a as [|x a IH]; intros [|y b] H; simpl in *; try discriminate; [reflexivity|]. f_equal. apply IH. lia. Qed.

Lemma map_fst_combine {A B} (a : list A) : forall (b : list B), length a = length b -> map fst (combine a b) = a.
Proof. induction a as [|x a IH]; intros [|y b] H; simpl in *; try discriminate; [reflexivity|]. f_equal. apply IH. lia. Qed.

Lemma NoDup_map_to_nat l : NoDup l -> (forall x, In x l -> 0 <= x) -> NoDup (map Z.to_nat l).
Proof.
  induction 1 as [|x l Hx Hnd IH]; intros Hp; simpl; constructor.
  - rewrite in_map_iff. intros [y [He Hy]].
    assert (x = y). { apply Z2Nat.inj; [apply Hp; left; reflexivity|apply Hp; right; assumption|congruence]. }
    subst. tauto.
  - apply IH. intros; apply Hp; right; assumption.
Qed.

Lemma nth_map_lt {A B} (f : A -> B) l k d d' : (k < length l)%nat -> nth k (map f l) d' = f (nth k l d).
Proof. intros H. rewrite (nth_indep _ d' (f d)) by (rewrite map_length; exact H). apply map_nth. Qed.

Lemma nth_zseq n k : (k < n)%nat -> nth k (zseq 0 n) 0 = Z.of_nat k.
Proof. intros H. unfold zseq. rewrite (nth_map_lt _ _ _ 0%nat) by (rewrite seq_length; exact H). rewrite seq_nth by exact H. reflexivity. Qed.

Section Perm.
  Variable order : list Z.
  Hypothesis Hperm : is_permb order (length order) = true.
  Let n := length order.

  Lemma perm_range x : In x order -> 0 <= x < Z.of_nat n.
  Proof. apply is_permb_spec in Hperm. destruct Hperm as [_ [H _]]. apply H. Qed.
  Lemma perm_nodup : NoDup order.
  Proof. apply is_permb_spec in Hperm. tauto. Qed.

  Lemma inv_as_scat :
    inv_order order = scat (fun io : Z * Z => Z.to_nat (snd io)) fst (combine (zseq 0 n) order) (repeat 0 n).
  Proof. reflexivity. Qed.

  Lemma inv_length : length (inv_order order) = n.
  Proof. rewrite inv_as_scat, scat_length. apply repeat_length. Qed.

  Lemma zseq_length a k : length (zseq a k) = k.
  Proof. unfold zseq. rewrite map_length. apply seq_length. Qed.

  (* inv[order[i]] = i *)
  Lemma inv_of_order i : (i < n)%nat -> nth (Z.to_nat (nth i order 0)) (inv_order order) 0 = Z.of_nat i.
  Proof.
    intros Hi. rewrite inv_as_scat.
    pose (a := (Z.of_nat i, nth i order 0)).
    pose (f := fun io : Z * Z => Z.to_nat (snd io)).
    assert (Hnd : NoDup (map f (combine (zseq 0 n) order))).
    { unfold f. rewrite <- (map_map snd Z.to_nat). rewrite map_snd_combine by (rewrite zseq_length; reflexivity).
      apply NoDup_map_to_nat; [apply perm_nodup|]. intros x Hx. apply perm_range in Hx. lia. }
    assert (Hb : forall a0, In a0 (combine (zseq 0 n) order) -> (f a0 < length (repeat 0%Z n))%nat).
    { intros [z o] Hin. apply in_combine_r in Hin. apply perm_range in Hin. rewrite repeat_length. unfold f. simpl. lia. }
    assert (Hin : In a (combine (zseq 0 n) order)).
    { unfold a. rewrite <- (nth_zseq n i Hi).
      rewrite <- (combine_nth (zseq 0 n) order i 0 0) by (rewrite zseq_length; reflexivity).
      apply nth_In. rewrite combine_length, zseq_length. fold n. lia. }
    exact (scat_nth f fst (combine (zseq 0 n) order) (repeat 0 n) Hnd Hb a Hin).
  Qed.

  (* every axis is some level's dimension *)
  Lemma order_surj d : (d < n)%nat -> exists i, (i < n)%nat /\ nth i order 0 = Z.of_nat d.
  Proof.
    intros Hd.
    assert (Hin : In (Z.of_nat d) order).
    { apply (NoDup_length_incl perm_nodup (l' := zseq 0 n)).
      - rewrite zseq_length. fold n. lia.
      - intros x Hx. apply zseq_In. apply perm_range in Hx. lia.
      - apply zseq_In. lia. }
    destruct (In_nth _ _ 0 Hin) as [i [Hi He]]. exists i. split; assumption.
  Qed.

  (* order[inv[d]] = d *)
  Lemma order_of_inv d : (d < n)%nat ->
    0 <= nth d (inv_order order) 0 < Z.of_nat n
    /\ nth (Z.to_nat (nth d (inv_order order) 0)) order 0 = Z.of_nat d.
  Proof.
    intros Hd. destruct (order_surj d Hd) as [i [Hi He]].
    pose proof (inv_of_order i Hi) as H. rewrite He, Nat2Z.id in H. rewrite H, Nat2Z.id.
    split; [lia|assumption].
  Qed.

  Lemma inv_nodup : NoDup (inv_order order).
  Proof.
    apply (NoDup_nth _ 0). rewrite inv_length. intros i j Hi Hj He.
    destruct (order_of_inv i Hi) as [_ H1]. destruct (order_of_inv j Hj) as [_ H2].
    rewrite He in H1. rewrite H1 in H2. lia.
  Qed.

  Lemma gather_length l ixs : length (gather l ixs) = length ixs.
  Proof. apply map_length. Qed.

  Lemma shape_back sh : length sh = n -> gather (gather sh order) (inv_order order) = sh.
  Proof.
    intros Hs. apply (nth_ext _ _ 0 0).
    - rewrite gather_length, inv_length. symmetry. exact Hs.
    - intros d Hd. rewrite gather_length, inv_length in Hd.
      unfold gather at 1. rewrite (nth_map_lt _ _ _ 0) by (rewrite inv_length; exact Hd).
      destruct (order_of_inv d Hd) as [Hr Ho].
      unfold nthZ at 1. unfold gather.
      rewrite (nth_map_lt _ _ _ 0) by (fold n; lia).
      rewrite Ho. apply nthZ_of_nat.
  Qed.

  Lemma scatter_is_gather ix : length ix = n -> scatter (inv_order order) ix = gather ix order.
  Proof.
    intros Hx.
    assert (Hsc : scatter (inv_order order) ix
                  = scat (fun ai : Z * Z => Z.to_nat (fst ai)) snd (combine (inv_order order) ix)
                         (repeat 0 (length (inv_order order)))) by reflexivity.
    apply (nth_ext _ _ 0 0).
    - rewrite Hsc, scat_length, repeat_length, inv_length, gather_length. reflexivity.
    - intros l Hl. rewrite Hsc, scat_length, repeat_length, inv_length in Hl.
      assert (Ho : 0 <= nth l order 0 < Z.of_nat n) by (apply perm_range; apply nth_In; exact Hl).
      set (k := Z.to_nat (nth l order 0)).
      assert (Hk : (k < n)%nat) by (unfold k; lia).
      pose proof (inv_of_order l Hl) as Hinv. fold k in Hinv.
      pose (a := (nth k (inv_order order) 0, nth k ix 0)).
      pose (f := fun ai : Z * Z => Z.to_nat (fst ai)).
      assert (Hfa : f a = l) by (unfold f, a; simpl; rewrite Hinv; apply Nat2Z.id).
      assert (Hnd : NoDup (map f (combine (inv_order order) ix))).
      { unfold f. rewrite <- (map_map fst Z.to_nat). rewrite map_fst_combine by (rewrite inv_length; lia).
        apply NoDup_map_to_nat; [apply inv_nodup|].
        intros x Hx'. destruct (In_nth _ _ 0 Hx') as [d [Hd <-]]. rewrite inv_length in Hd.
        destruct (order_of_inv d Hd). lia. }
      assert (Hb : forall a0, In a0 (combine (inv_order order) ix) ->
                              (f a0 < length (repeat 0%Z (length (inv_order order))))%nat).
      { intros [z v] Hin. apply in_combine_l in Hin. destruct (In_nth _ _ 0 Hin) as [d [Hd <-]].
        rewrite inv_length in Hd. destruct (order_of_inv d Hd). rewrite repeat_length, inv_length. unfold f. simpl. lia. }
      assert (Hin : In a (combine (inv_order order) ix)).
      { unfold a. rewrite <- (combine_nth (inv_order order) ix k 0 0) by (rewrite inv_length; lia).
        apply nth_In. rewrite combine_length, inv_length. lia. }
      pose proof (scat_nth f snd (combine (inv_order order) ix) (repeat 0 (length (inv_order order))) Hnd Hb a Hin) as H.
      rewrite Hfa in H. rewrite Hsc. fold f. rewrite H.
      unfold a, gather. simpl. rewrite (nth_map_lt _ _ _ 0) by exact Hl. reflexivity.
  Qed.
End Perm.

Theorem to_numpy_order_correct_proof :
  forall order sh ix, is_permb order (length order) = true ->
    length sh = length order -> length ix = length order ->
    to_numpy_shape order sh = sh /\ to_numpy_pos order sh ix = dense_pos order sh ix.
Proof.
  intros order sh ix Hp Hs Hi.
  unfold to_numpy_shape, to_numpy_pos, dense_pos, to_numpy_storage_shape, lvl_shape.
  change site_to_numpy_shape_by_inverse with false. cbv iota.
  split.
  - apply shape_back; assumption.
  - rewrite scatter_is_gather by assumption. reflexivity.
Qed.

(* non-vacuity: a 3-cycle on a non-uniform shape *)
Example to_numpy_nonvacuous :
  is_permb [1; 2; 0] 3 = true
  /\ to_numpy_shape [1; 2; 0] [2; 3; 4] = [2; 3; 4] /\ to_numpy_pos [1; 2; 0] [2; 3; 4] [1; 2; 3] = 23.
Proof. vm_compute. tauto. Qed.
End ToNumpy.


(* ========================================================================================== *)
(* the protocol instantiated with the extracted site facts; refutations                        *)
Section OwnershipSites.
Open Scope nat_scope.

Lemma sites_ok_proof : edges_ok (site_cfg false) = true.
Proof. reflexivity. Qed.

Theorem no_use_after_free_sites_proof :
  forall (dt : Z) (h : list event), wrapped_dtype dt = false ->
    safeb (run (site_cfg (wrapped_dtype dt)) h) = true
    /\ free_once (run (site_cfg (wrapped_dtype dt)) h) = true.
Proof.
  intros dt h W. rewrite W. apply no_use_after_free_proof; [reflexivity|left; reflexivity].
Qed.

(* wrapped dtypes: safe as long as no NumPy view is derived from a memref view *)
Theorem no_use_after_free_wrapped_proof :
  forall (dt : Z) (h : list event), no_collapse h = true ->
    safeb (run (site_cfg (wrapped_dtype dt)) h) = true
    /\ free_once (run (site_cfg (wrapped_dtype dt)) h) = true.
Proof.
  intros dt h N. apply no_use_after_free_proof; [destruct (wrapped_dtype dt); reflexivity|right; exact N].
Qed.

(* x = asarray(np_input); r = add(x, x); out = to_numpy(r); del r; collect  — with a wrapped dtype *)
Definition uaf_history : list event :=
  [ENewNumpy; EFromArrays [0]; EWrap 1; EDel 1;          (* x = asarray(a): roots [2; 0] *)
   EOp OAdd [2; 2] 1; EWrap 3; EDel 1;                   (* r = add(x, x): roots [4; 2; 0] *)
   EGetView 4 0; ECollapse 5; EDel 1;                    (* out = to_numpy(r): roots [6; 4; 2; 0] *)
   EDel 1; ECollect [5; 4; 3]].                          (* del r; the collector takes data, r, its storage *)

Theorem no_use_after_free_refuted_proof :
  exists (dt : Z) (h : list event),
    edges_ok (site_cfg (wrapped_dtype dt)) = true /\ safeb (run (site_cfg (wrapped_dtype dt)) h) = false.
Proof. exists 2%Z, uaf_history. split; reflexivity. Qed.

(* the collapse is the ONLY culprit in that history: with EDerive in its place (what NumPy does for a plain
   dtype) the same deletions are safe *)
Example uaf_history_is_the_collapse :
  no_collapse uaf_history = false
  /\ safeb (run (site_cfg false)
                (map (fun e => match e with ECollapse v => EDerive v | _ => e end) uaf_history)) = true.
Proof. split; reflexivity. Qed.

(* the same history is safe for a plain dtype (views are not wrapped: the object ids differ by one) *)
Example no_use_after_free_nonvacuous :
  let h := [ENewNumpy; EFromArrays [0]; EWrap 1; EDel 1; EOp OAdd [2; 2] 1; EWrap 3; EDel 1;
            EGetView 4 0; EDerive 5; EDel 1; EDel 1; ECollect [4]] in
  let s := run (site_cfg false) h in
  safeb s = true /\ s_freed s = [] /\ s_roots s = [6; 2; 0] /\ s_dead s = [4].
Proof. repeat split; reflexivity. Qed.

Definition all_own (_ : opk) := true.

(* each required edge is necessary: dropping it (or making input-backed storages owning) admits a
   history that ends with a live object over a freed buffer *)
Theorem edges_necessary_proof :
  (exists h, safeb (run (mkCfg false true true false all_own false) h) = false)
  /\ (exists h, safeb (run (mkCfg true false true false all_own false) h) = false)
  /\ (exists h, safeb (run (mkCfg true true false false all_own false) h) = false)
  /\ (exists h, safeb (run (mkCfg true true true true all_own false) h) = false).
Proof.
  split; [|split; [|split]].
  - (* no view -> storage *)
    exists [ENewNumpy; EFromArrays [0]; EWrap 1; EDel 1; EOp OAdd [2; 2] 1; EWrap 3; EDel 1;
            EGetView 4 0; EDel 1; ECollect [4; 3]]. reflexivity.
  - (* no storage -> input *)
    exists [ENewNumpy; EFromArrays [0]; EWrap 1; EDel 1; EDel 1; ECollect [0]]. reflexivity.
  - (* no Array -> storage *)
    exists [ENewNumpy; EFromArrays [0]; EWrap 1; EDel 1; EOp OAdd [2; 2] 1; EWrap 3; EDel 1; ECollect [3]].
    reflexivity.
  - (* storage over caller arrays frees them *)
    exists [ENewNumpy; EFromArrays [0]; EDel 0; ECollect [1]]. reflexivity.
Qed.

End OwnershipSites.
