(* Proofs/MlirP.v — lemmas about Model/Mlir.v: ownership protocol, layouts, format inference. *)
From Coq Require Import ZArith List Bool Lia Arith PeanoNat.
From Verif Require Import Py Shape S_mlir Mlir.
Import ListNotations.

(* ========================================================================================== *)
(* C. ownership protocol                                                                      *)
Section Ownership.
Open Scope nat_scope.

Lemma memn_In x l : memn x l = true <-> In x l.
Proof.
  unfold memn. rewrite existsb_exists. split.
  - intros [y [Hy He]]. apply Nat.eqb_eq in He. subst. assumption.
  - intros H. exists x. split; [assumption|apply Nat.eqb_refl].
Qed.

Lemma memn_false x l : memn x l = false <-> ~ In x l.
Proof. rewrite <- memn_In. destruct (memn x l); split; congruence. Qed.

Lemma nodupn_NoDup l : nodupn l = true <-> NoDup l.
Proof.
  induction l as [|x l IH]; simpl.
  - split; [constructor|reflexivity].
  - rewrite andb_true_iff, negb_true_iff, memn_false, IH. split.
    + intros [? ?]. constructor; assumption.
    + intros H. inversion H; subst. split; assumption.
Qed.

Inductive reach (objs : list obj) : nat -> nat -> Prop :=
| reach_refl i : reach objs i i
| reach_step i r j : In r (o_refs (nth i objs dummy_obj)) -> reach objs r j -> reach objs i j.

Lemma refs_in_bound objs i r : In r (o_refs (nth i objs dummy_obj)) -> i < length objs.
Proof.
  intros H. destruct (lt_dec i (length objs)) as [|Hn]; [assumption|].
  rewrite nth_overflow in H by lia. simpl in H. tauto.
Qed.

Lemma reach_app objs l i j : reach objs i j -> reach (objs ++ l) i j.
Proof.
  induction 1 as [|i r j Hr _ IH]; [constructor|].
  apply reach_step with r; [|assumption].
  rewrite app_nth1; [assumption|]. eapply refs_in_bound; eassumption.
Qed.

Record inv (s : state) : Prop := mkInv {
  i_bufs_lt : forall i b, In b (o_bufs (get s i)) -> b < s_nbuf s;
  i_frees_lt : forall i b, In b (o_frees (get s i)) -> b < s_nbuf s;
  i_uniq : forall f f' b, In b (o_frees (get s f)) -> In b (o_frees (get s f')) -> f = f';
  i_frees_nd : forall f, NoDup (o_frees (get s f));
  i_path : forall i b f, In b (o_bufs (get s i)) -> In b (o_frees (get s f)) -> reach (s_objs s) i f;
  i_array : forall a, o_kind (get s a) = KArray ->
                      exists sid, o_under (get s a) = Some sid /\ In sid (o_refs (get s a))
                                  /\ incl (o_bufs (get s a)) (o_bufs (get s sid));
  i_view : forall v t, is_ndarray (o_kind (get s v)) = true -> o_under (get s v) = Some t ->
                       In t (o_refs (get s v));
  i_roots : forall r, In r (s_roots s) -> liveb s r = true;
  i_closed : forall i r, liveb s i = true -> In r (o_refs (get s i)) -> liveb s r = true;
  i_dead_lt : forall d, In d (s_dead s) -> d < nobj s;
  i_refs_lt : forall i r, In r (o_refs (get s i)) -> r < nobj s;
  i_dead_nd : NoDup (s_dead s);
  i_freed_from : forall b, In b (s_freed s) -> exists f, In f (s_dead s) /\ In b (o_frees (get s f));
  i_freed_nd : NoDup (s_freed s) }.

Lemma liveb_spec s i : liveb s i = true <-> i < nobj s /\ ~ In i (s_dead s).
Proof.
  unfold liveb. rewrite andb_true_iff, negb_true_iff, memn_false, Nat.ltb_lt. tauto.
Qed.

Lemma reach_live s i f : inv s -> reach (s_objs s) i f -> liveb s i = true -> liveb s f = true.
Proof.
  intros I H. induction H as [|i r j Hr _ IH]; [auto|].
  intros Hl. apply IH. eapply i_closed; eauto.
Qed.

Lemma inv_safe s : inv s -> safeb s = true /\ free_once s = true.
Proof.
  intros I. split.
  - unfold safeb. apply forallb_forall. intros i _. apply negb_true_iff.
    unfold danglingb. destruct (liveb s i) eqn:Hl; [|reflexivity]. simpl.
    destruct (existsb _ _) eqn:He; [|reflexivity]. exfalso.
    apply existsb_exists in He. destruct He as [b [Hb Hf]]. apply memn_In in Hf.
    destruct (i_freed_from s I b Hf) as [f [Hd Hfr]].
    pose proof (i_path s I i b f Hb Hfr) as Hr.
    pose proof (reach_live s i f I Hr Hl) as Hlf.
    apply liveb_spec in Hlf. tauto.
  - unfold free_once. apply nodupn_NoDup. apply (i_freed_nd s I).
Qed.

Lemma get_init i : get init i = dummy_obj.
Proof. unfold get, init; simpl. destruct i; reflexivity. Qed.

Lemma inv_init : inv init.
Proof.
  constructor; intros; try rewrite !get_init in *; simpl in *; try tauto; try discriminate; try constructor.
Qed.

(* ---- pushing one object *)
Lemma get_push_old s os root nb i : i < nobj s -> get (push_objs s os root nb) i = get s i.
Proof. intros H. unfold get, push_objs; simpl. apply app_nth1. exact H. Qed.

Lemma get_push_new s o root nb : get (push_objs s [o] root nb) (nobj s) = o.
Proof.
  unfold get, push_objs, nobj; simpl. rewrite app_nth2 by lia. rewrite Nat.sub_diag. reflexivity.
Qed.

Lemma get_push_beyond s o root nb i : nobj s < i -> get (push_objs s [o] root nb) i = dummy_obj.
Proof.
  intros H. unfold get, push_objs, nobj in *; simpl. apply nth_overflow. rewrite app_length. simpl. lia.
Qed.

Lemma get_beyond s i : nobj s <= i -> get s i = dummy_obj.
Proof. intros H. unfold get. apply nth_overflow. exact H. Qed.

Ltac case_id s i :=
  destruct (lt_eq_lt_dec i (nobj s)) as [[?Hlt|?Heq]|?Hgt];
  [ rewrite (get_push_old s _ _ _ i) in * by assumption
  | subst i; rewrite (get_push_new s) in *
  | rewrite (get_push_beyond s _ _ _ i) in * by assumption ].

Lemma liveb_push s os root nb i : liveb s i = true -> liveb (push_objs s os root nb) i = true.
Proof.
  rewrite !liveb_spec. unfold push_objs, nobj; simpl. rewrite app_length. intros [? ?]. split; [lia|assumption].
Qed.

Lemma inv_push1 s o nb :
  inv s ->
  (forall r, In r (o_refs o) -> liveb s r = true) ->
  (forall b, In b (o_bufs o) -> b < s_nbuf s + nb) ->
  (forall b, In b (o_frees o) -> s_nbuf s <= b < s_nbuf s + nb) ->
  NoDup (o_frees o) ->
  (forall b f, In b (o_bufs o) -> In b (o_frees (get s f)) ->
               exists r, In r (o_refs o) /\ reach (s_objs s) r f) ->
  (o_kind o = KArray -> exists sid, o_under o = Some sid /\ In sid (o_refs o)
                                    /\ incl (o_bufs o) (o_bufs (get s sid))) ->
  (forall t, is_ndarray (o_kind o) = true -> o_under o = Some t -> In t (o_refs o)) ->
  inv (push_objs s [o] (nobj s) nb).
Proof.
  intros I Hrefs Hbufs Hfrees Hnd Hpath Harr Hview.
  assert (Hn' : nobj (push_objs s [o] (nobj s) nb) = S (nobj s)).
  { unfold nobj, push_objs; simpl. rewrite app_length; simpl. lia. }
  assert (Hrl : forall r, In r (o_refs o) -> r < nobj s).
  { intros r Hr. apply Hrefs in Hr. apply liveb_spec in Hr. tauto. }
  constructor.
  - (* bufs_lt *) intros i b Hb. simpl. case_id s i.
    + pose proof (i_bufs_lt s I i b Hb). lia.
    + apply Hbufs; assumption.
    + simpl in Hb; tauto.
  - (* frees_lt *) intros i b Hb. simpl. case_id s i.
    + pose proof (i_frees_lt s I i b Hb). lia.
    + apply Hfrees in Hb. lia.
    + simpl in Hb; tauto.
  - (* uniq *) intros f f' b H1 H2. case_id s f; case_id s f'; simpl in *; try tauto; try reflexivity.
    + eapply i_uniq; eauto.
    + pose proof (i_frees_lt s I f b H1). apply Hfrees in H2. lia.
    + pose proof (i_frees_lt s I f' b H2). apply Hfrees in H1. lia.
  - (* frees_nd *) intros f. case_id s f; [apply (i_frees_nd s I)|assumption|constructor].
  - (* path *) intros i b f Hb Hf. simpl. case_id s i; case_id s f; simpl in *; try tauto.
    + apply reach_app. eapply i_path; eauto.
    + pose proof (i_bufs_lt s I i b Hb). apply Hfrees in Hf. lia.
    + destruct (Hpath b f Hb Hf) as [r [Hr Hre]].
      apply reach_step with r.
      * rewrite app_nth2 by (unfold nobj; lia). unfold nobj. rewrite Nat.sub_diag. exact Hr.
      * apply reach_app. exact Hre.
    + constructor.
  - (* array *) intros a Hk. case_id s a.
    + destruct (i_array s I a Hk) as [sid [Hu [Hin Hincl]]]. exists sid. repeat split; try assumption.
      rewrite get_push_old by (eapply i_refs_lt; eauto). assumption.
    + destruct (Harr Hk) as [sid [Hu [Hin Hincl]]]. exists sid. repeat split; try assumption.
      rewrite get_push_old by auto. assumption.
    + simpl in Hk. discriminate.
  - (* view *) intros v t Hk Hu. case_id s v.
    + eapply i_view; eauto.
    + auto.
    + simpl in Hu. discriminate.
  - (* roots *) intros r Hr. simpl in Hr. destruct Hr as [<-|Hr].
    + apply liveb_spec. split; [lia|]. simpl. intros Hd. apply (i_dead_lt s I) in Hd. lia.
    + apply liveb_push. apply (i_roots s I). assumption.
  - (* closed *) intros i r Hl Hr. case_id s i.
    + apply liveb_push. apply (i_closed s I i r); [|assumption].
      apply liveb_spec in Hl. apply liveb_spec. simpl in Hl. tauto.
    + apply liveb_push. auto.
    + simpl in Hr. tauto.
  - (* dead_lt *) intros d Hd. simpl in Hd. apply (i_dead_lt s I) in Hd. lia.
  - (* refs_lt *) intros i r Hr. rewrite Hn'. case_id s i.
    + apply (i_refs_lt s I) in Hr. lia.
    + apply Hrl in Hr. lia.
    + simpl in Hr. tauto.
  - (* dead_nd *) simpl. apply (i_dead_nd s I).
  - (* freed_from *) intros b Hb. simpl in Hb. destruct (i_freed_from s I b Hb) as [f [Hd Hf]].
    exists f. split; [assumption|]. rewrite get_push_old by (apply (i_dead_lt s I); assumption). assumption.
  - (* freed_nd *) simpl. apply (i_freed_nd s I).
Qed.


Lemma inv_roots s roots' :
  inv s -> (forall r, In r roots' -> liveb s r = true) ->
  inv (mkSt (s_objs s) (s_dead s) roots' (s_nbuf s) (s_freed s)).
Proof.
  intros I H. destruct I. constructor; auto.
Qed.

Lemma remove_nth_In {A} (x : A) i l : In x (remove_nth i l) -> In x l.
Proof.
  revert i; induction l as [|y l IH]; intros [|i]; simpl; auto.
  intros [->|H]; [left; reflexivity|right; eauto].
Qed.

Lemma nodup_app {A} (l l' : list A) :
  NoDup l -> NoDup l' -> (forall x, In x l -> ~ In x l') -> NoDup (l ++ l').
Proof.
  induction 1 as [|x l Hx Hnd IH]; simpl; intros H' Hd; [assumption|].
  constructor.
  - rewrite in_app_iff. intros [?|?]; [tauto|]. apply (Hd x); [left; reflexivity|assumption].
  - apply IH; [assumption|]. intros y Hy. apply Hd. right; assumption.
Qed.

Lemma nodup_flat_map {A B} (f : A -> list B) (l : list A) :
  NoDup l -> (forall x, In x l -> NoDup (f x)) ->
  (forall x y b, In x l -> In y l -> In b (f x) -> In b (f y) -> x = y) ->
  NoDup (flat_map f l).
Proof.
  induction 1 as [|x l Hx Hnd IH]; simpl; intros H1 H2; [constructor|].
  apply nodup_app.
  - apply H1. left; reflexivity.
  - apply IH; [intros; apply H1; right; assumption|].
    intros a b c Ha Hb. apply H2; right; assumption.
  - intros b Hb Hin. apply in_flat_map in Hin. destruct Hin as [y [Hy Hby]].
    assert (x = y) by (apply (H2 x y b); [left; reflexivity|right; assumption|assumption|assumption]).
    subst. tauto.
Qed.

Definition good (c : cfg) : Prop := edges_ok c = true /\ c_wrapped c = false.

Lemma good_fields c : good c ->
  c_view_storage c = true /\ c_storage_input c = true /\ c_array_storage c = true
  /\ c_owns_from c = false /\ c_wrapped c = false.
Proof.
  intros [H W]. unfold edges_ok, required_edges in H. simpl in H.
  rewrite !andb_true_iff in H. rewrite negb_true_iff in H. tauto.
Qed.

Lemma inv_collect s K : inv s -> valid_collect s K = true ->
  inv (mkSt (s_objs s) (K ++ s_dead s) (s_roots s) (s_nbuf s)
            (flat_map (fun k => o_frees (get s k)) K ++ s_freed s)).
Proof.
  intros I HV. unfold valid_collect in HV. rewrite !andb_true_iff in HV.
  destruct HV as [[HK1 HK2] HK3]. apply nodupn_NoDup in HK1.
  rewrite forallb_forall in HK2. rewrite forallb_forall in HK3.
  assert (HKl : forall k, In k K -> liveb s k = true /\ ~ In k (s_roots s)).
  { intros k Hk. specialize (HK2 k Hk). rewrite andb_true_iff, negb_true_iff in HK2.
    unfold rootb in HK2. rewrite memn_false in HK2. exact HK2. }
  set (s' := mkSt _ _ _ _ _).
  assert (Hget : forall i, get s' i = get s i) by reflexivity.
  assert (Hlive : forall i, liveb s' i = true <-> liveb s i = true /\ ~ In i K).
  { intros i. rewrite !liveb_spec. unfold s', nobj; simpl. rewrite in_app_iff. tauto. }
  constructor; try (intros; rewrite ?Hget in *; simpl).
  - eapply i_bufs_lt; eauto.
  - eapply i_frees_lt; eauto.
  - eapply i_uniq; eauto.
  - apply (i_frees_nd s I).
  - eapply i_path; eauto.
  - apply (i_array s I); assumption.
  - eapply i_view; eauto.
  - (* roots *) apply Hlive. split; [apply (i_roots s I); assumption|].
    intros Hk. apply HKl in Hk. simpl in *. tauto.
  - (* closed *) apply Hlive in H. destruct H as [Hl HnK]. apply Hlive.
    split; [eapply i_closed; eauto|].
    assert (Hi : In i (seq 0 (nobj s))). { apply in_seq. apply liveb_spec in Hl. lia. }
    specialize (HK3 i Hi). rewrite !orb_true_iff in HK3. destruct HK3 as [[H1|H1]|H1].
    + rewrite Hl in H1. discriminate.
    + apply memn_In in H1. tauto.
    + rewrite forallb_forall in H1. specialize (H1 r H0). rewrite negb_true_iff, memn_false in H1. exact H1.
  - (* dead_lt *) simpl in H. apply in_app_iff in H. destruct H as [H|H].
    + apply HKl in H. destruct H as [H _]. apply liveb_spec in H. unfold nobj in *. simpl. tauto.
    + apply (i_dead_lt s I). assumption.
  - (* refs_lt *) apply (i_refs_lt s I i r). assumption.
  - (* dead_nd *) apply nodup_app; [assumption|apply (i_dead_nd s I)|].
    intros x Hx Hd. apply HKl in Hx. destruct Hx as [Hx _]. apply liveb_spec in Hx. tauto.
  - (* freed_from *) simpl in H. apply in_app_iff in H. destruct H as [H|H].
    + apply in_flat_map in H. destruct H as [k [Hk Hb]]. exists k. split; [apply in_app_iff; left; assumption|assumption].
    + destruct (i_freed_from s I b H) as [f [Hd Hf]]. exists f. split; [apply in_app_iff; right; assumption|assumption].
  - (* freed_nd *) apply nodup_app.
    + apply nodup_flat_map; [assumption|intros; apply (i_frees_nd s I)|].
      intros x y b _ _ Hx Hy. eapply i_uniq; eauto.
    + apply (i_freed_nd s I).
    + intros b Hb Hf. apply in_flat_map in Hb. destruct Hb as [k [Hk Hbk]].
      destruct (i_freed_from s I b Hf) as [f [Hd Hbf]].
      assert (k = f) by (eapply i_uniq; eauto). subst f.
      apply HKl in Hk. destruct Hk as [Hk _]. apply liveb_spec in Hk. tauto.
Qed.

Lemma forallb_and3 {A} (p q r : A -> bool) l x :
  forallb (fun y => p y && q y && r y) l = true -> In x l -> p x = true /\ q x = true /\ r x = true.
Proof.
  intros H Hx. rewrite forallb_forall in H. specialize (H x Hx). rewrite !andb_true_iff in H. tauto.
Qed.

Lemma inv_step c s e : good c -> inv s -> inv (step c s e).
Proof.
  intros G I. destruct (good_fields c G) as [Gvs [Gsi [Gas [Gof Gw]]]].
  destruct e as [|srcs|op args nb|sid|r|a k|v|i|K]; simpl.
  - (* ENewNumpy *)
    apply inv_push1; simpl; try assumption; try tauto.
    + intros b [<-|[]]. lia.
    + intros b [<-|[]]. lia.
    + repeat constructor; simpl; tauto.
    + intros b f [<-|[]] Hf. apply (i_frees_lt s I) in Hf. lia.
    + discriminate.
    + discriminate.
  - (* EFromArrays *)
    destruct (forallb _ srcs) eqn:Hc; [|assumption].
    rewrite Gsi, Gof.
    apply inv_push1; simpl; try assumption; try tauto.
    + intros r Hr. destruct (forallb_and3 _ _ _ _ _ Hc Hr) as [_ [Hl _]]. assumption.
    + intros b Hb. apply in_flat_map in Hb. destruct Hb as [r [_ Hb]]. apply (i_bufs_lt s I) in Hb. lia.
    + constructor.
    + intros b f Hb Hf. apply in_flat_map in Hb. destruct Hb as [r [Hr Hb]].
      exists r. split; [assumption|]. eapply i_path; eauto.
    + discriminate.
    + discriminate.
  - (* EOp *)
    destruct (forallb _ args) eqn:Hc; [|assumption].
    apply inv_push1; simpl; try assumption; try tauto.
    + intros b Hb. apply in_seq in Hb. lia.
    + intros b Hb. destruct (c_owns_op c op); [apply in_seq in Hb; lia|simpl in Hb; tauto].
    + destruct (c_owns_op c op); [apply seq_NoDup|constructor].
    + intros b f Hb Hf. apply in_seq in Hb. apply (i_frees_lt s I) in Hf. lia.
    + discriminate.
    + discriminate.
  - (* EWrap *)
    destruct (rootb s sid && liveb s sid && is_storage (o_kind (get s sid))) eqn:Hc; [|assumption].
    rewrite !andb_true_iff in Hc. destruct Hc as [[_ Hl] _].
    rewrite Gas.
    apply inv_push1; simpl; try assumption; try tauto.
    + intros r [<-|[]]. assumption.
    + intros b Hb. apply (i_bufs_lt s I) in Hb. lia.
    + constructor.
    + intros b f Hb Hf. exists sid. split; [left; reflexivity|]. eapply i_path; eauto.
    + intros _. exists sid. split; [reflexivity|]. split; [left; reflexivity|]. apply incl_refl.
    + discriminate.
  - (* EAlias *)
    destruct (rootb s r) eqn:Hr; [|assumption].
    apply inv_roots; [assumption|]. intros x [<-|Hx].
    + apply (i_roots s I). apply memn_In. exact Hr.
    + apply (i_roots s I). assumption.
  - (* EGetView *)
    destruct (rootb s a && liveb s a && is_array (o_kind (get s a))) eqn:Hc; [|assumption].
    rewrite !andb_true_iff in Hc. destruct Hc as [[_ Hl] Hk].
    destruct (o_under (get s a)) as [sid|] eqn:Hu; [|assumption].
    destruct (nth_error (o_bufs (get s a)) k) as [b|] eqn:Hb; [|assumption].
    rewrite Gw, Gvs.
    assert (Hka : o_kind (get s a) = KArray) by (destruct (o_kind (get s a)); simpl in Hk; congruence).
    destruct (i_array s I a Hka) as [sid' [Hu' [Hin Hincl]]].
    assert (sid' = sid) by congruence. subst sid'.
    apply nth_error_In in Hb.
    apply inv_push1; simpl; try assumption; try tauto.
    + intros r [<-|[]]. eapply i_closed; eauto.
    + intros b' [<-|[]]. apply (i_bufs_lt s I) in Hb. lia.
    + constructor.
    + intros b' f [<-|[]] Hf. exists sid. split; [left; reflexivity|].
      eapply i_path; eauto.
    + discriminate.
    + discriminate.
  - (* EDerive *)
    destruct (rootb s v && liveb s v && is_ndarray (o_kind (get s v))) eqn:Hc; [|assumption].
    rewrite !andb_true_iff in Hc. destruct Hc as [[_ Hl] Hk].
    set (t := match o_under (get s v) with Some t => t | None => v end).
    assert (Ht : liveb s t = true).
    { unfold t. destruct (o_under (get s v)) as [t'|] eqn:Hu; [|assumption].
      apply (i_closed s I v); [assumption|]. apply (i_view s I); assumption. }
    apply inv_push1; simpl; try assumption; try tauto.
    + intros r [<-|[]]. assumption.
    + intros b Hb. apply (i_bufs_lt s I) in Hb. lia.
    + constructor.
    + intros b f Hb Hf. exists t. split; [left; reflexivity|]. eapply i_path; eauto.
    + discriminate.
    + intros t' _ Ht'. left. congruence.
  - (* EDel *)
    apply inv_roots; [assumption|]. intros r Hr. apply remove_nth_In in Hr. apply (i_roots s I). assumption.
  - (* ECollect *)
    destruct (valid_collect s K) eqn:HV; [|assumption].
    apply inv_collect; assumption.
Qed.

Lemma inv_run_from c h s : good c -> inv s -> inv (fold_left (step c) h s).
Proof.
  intros G. revert s. induction h as [|e h IH]; intros s I; simpl; [assumption|].
  apply IH. apply inv_step; assumption.
Qed.

Theorem no_use_after_free_proof :
  forall (c : cfg) (h : list event), edges_ok c = true -> c_wrapped c = false ->
    safeb (run c h) = true /\ free_once (run c h) = true.
Proof.
  intros c h E W. apply inv_safe. apply inv_run_from; [split; assumption|apply inv_init].
Qed.

End Ownership.

(* ========================================================================================== *)
(* B. layouts                                                                                 *)
Section LayoutP.
Open Scope Z_scope.

Lemma map_flat_map {A B C} (f : B -> C) (g : A -> list B) l :
  map f (flat_map g l) = flat_map (fun x => map f (g x)) l.
Proof. induction l as [|x l IH]; simpl; [reflexivity|]. rewrite map_app, IH. reflexivity. Qed.

Lemma flat_map_single {A B} (f : A -> B) l : flat_map (fun x => [f x]) l = map f l.
Proof. induction l as [|x l IH]; simpl; [reflexivity|]. rewrite IH. reflexivity. Qed.

Lemma flat_map_ext_in {A B} (f g : A -> list B) l :
  (forall x, In x l -> f x = g x) -> flat_map f l = flat_map g l.
Proof.
  induction l as [|x l IH]; simpl; intros H; [reflexivity|].
  rewrite (H x) by (left; reflexivity). rewrite IH; [reflexivity|]. intros; apply H; right; assumption.
Qed.

Lemma map_nth_seq {A} (l : list A) d : map (fun k => nth k l d) (seq 0 (length l)) = l.
Proof.
  induction l as [|x l IH]; simpl; [reflexivity|]. f_equal.
  rewrite <- seq_shift, map_map. exact IH.
Qed.

Lemma nthZ_of_nat l k : nthZ l (Z.of_nat k) = nth k l 0.
Proof. unfold nthZ. rewrite Nat2Z.id. reflexivity. Qed.

Lemma gather_id l : gather l (zseq 0 (length l)) = l.
Proof.
  unfold gather, zseq. rewrite map_map.
  rewrite (map_ext _ (fun k => nth k l 0)) by (intros; apply nthZ_of_nat). apply map_nth_seq.
Qed.

Lemma index_of_zseq n : forall a d, (a <= d < a + n)%nat ->
  index_of (Z.of_nat d) (zseq a n) = Z.of_nat (d - a).
Proof.
  induction n as [|n IH]; intros a d H; [lia|].
  unfold zseq in *. simpl.
  destruct (Z.eqb_spec (Z.of_nat a) (Z.of_nat d)) as [E|E].
  - apply Nat2Z.inj in E. subst. rewrite Nat.sub_diag. reflexivity.
  - rewrite IH by lia. lia.
Qed.

Lemma to_dims_id n lc : length lc = n -> to_dims (zseq 0 n) lc = lc.
Proof.
  intros H. unfold to_dims. unfold zseq at 2. rewrite map_length, seq_length.
  rewrite (map_ext_in _ (fun d => nth d lc 0)).
  - subst n. apply map_nth_seq.
  - intros d Hd. apply in_seq in Hd. rewrite index_of_zseq by lia.
    rewrite Nat.sub_0_r. apply nthZ_of_nat.
Qed.

Lemma assemble_dense sh : assemble (repeat LDense (length sh)) sh [] = Some (map SDense sh).
Proof. induction sh as [|d sh IH]; simpl; [reflexivity|]. rewrite IH. reflexivity. Qed.

Lemma walk_dense sh : forall p,
  walk (map SDense sh) p = map (fun ix => (ix, p * size sh + ravel sh ix)) (all_indices sh).
Proof.
  induction sh as [|d sh IH]; intros p.
  - simpl. f_equal. f_equal. lia.
  - cbn [map walk all_indices]. rewrite map_flat_map. apply flat_map_ext_in. intros i _.
    rewrite IH, !map_map. apply map_ext. intros ix. cbn [fst snd ravel size fold_right].
    f_equal. fold (size sh). ring.
Qed.

Variable V : Type.
Variable v0 : V.

Lemma dense_layout sh (flat : list V) :
  storage_entries v0 (repeat LDense (length sh)) (zseq 0 (length sh)) sh [] flat
  = Some (dense_entries v0 sh flat).
Proof.
  unfold storage_entries, lvl_shape. rewrite gather_id, assemble_dense. f_equal.
  rewrite walk_dense, map_map. unfold dense_entries. apply map_ext_in. intros ix Hix.
  cbn [fst snd]. apply all_indices_In in Hix. apply in_range_length in Hix.
  rewrite to_dims_id by assumption.
  replace (0 * size sh + ravel sh ix) with (ravel sh ix) by lia. reflexivity.
Qed.

Lemma zrange2_0 n : zrange2 0 n = zrange n.
Proof.
  unfold zrange2. rewrite Z.sub_0_r. rewrite (map_ext _ (fun k => k)) by (intros; lia). apply map_id.
Qed.

Lemma csr_layout nrows ncols indptr indices (data : list V) :
  storage_entries v0 [LDense; LCompressed] [0; 1] [nrows; ncols] [indptr; indices] data
  = Some (csr_entries v0 nrows indptr indices data).
Proof.
  unfold storage_entries. change (lvl_shape [0; 1] [nrows; ncols]) with [nrows; ncols].
  cbn [assemble option_map walk]. f_equal. unfold csr_entries.
  rewrite map_flat_map. apply flat_map_ext_in. intros i _.
  cbn [map]. rewrite flat_map_single, !map_map.
  replace (0 * nrows + i) with i by lia. apply map_ext. intros k. reflexivity.
Qed.

Lemma csc_layout nrows ncols indptr indices (data : list V) :
  storage_entries v0 [LDense; LCompressed] [1; 0] [nrows; ncols] [indptr; indices] data
  = Some (csc_entries v0 ncols indptr indices data).
Proof.
  unfold storage_entries. change (lvl_shape [1; 0] [nrows; ncols]) with [ncols; nrows].
  cbn [assemble option_map walk]. f_equal. unfold csc_entries.
  rewrite map_flat_map. apply flat_map_ext_in. intros i _.
  cbn [map]. rewrite flat_map_single, !map_map.
  replace (0 * ncols + i) with i by lia. apply map_ext. intros k. reflexivity.
Qed.

Lemma coo_layout nrows ncols nnz row col (data : list V) :
  storage_entries v0 [LCompressed; LSingleton] [0; 1] [nrows; ncols] [[0; nnz]; row; col] data
  = Some (coo_entries v0 nnz row col data).
Proof.
  unfold storage_entries. change (lvl_shape [0; 1] [nrows; ncols]) with [nrows; ncols].
  cbn [assemble option_map walk]. f_equal. unfold coo_entries.
  change (nthZ [0; nnz] 0) with 0. change (nthZ [0; nnz] (0 + 1)) with nnz.
  rewrite zrange2_0. cbn [map]. rewrite flat_map_single, map_map. apply map_ext. intros k. reflexivity.
Qed.

End LayoutP.

(* the statements tied to the extracted array orders *)
Section Roundtrip.
Open Scope Z_scope.
Variable V : Type.
Variable v0 : V.

Theorem roundtrip_layout_csr_proof : forall nrows ncols indptr indices (data : list V),
  exists arrs, from_scipy_csx indptr indices = Some arrs
    /\ storage_entries v0 [LDense; LCompressed] site_csr_order [nrows; ncols] arrs data
       = Some (csr_entries v0 nrows indptr indices data)
    /\ to_scipy_is_csr site_csr_order = true
    /\ to_scipy_csx arrs = (indptr, indices).
Proof.
  intros. exists [indptr; indices]. split; [reflexivity|]. split; [apply csr_layout|].
  split; reflexivity.
Qed.

Theorem roundtrip_layout_csc_proof : forall nrows ncols indptr indices (data : list V),
  exists arrs, from_scipy_csx indptr indices = Some arrs
    /\ storage_entries v0 [LDense; LCompressed] site_csc_order [nrows; ncols] arrs data
       = Some (csc_entries v0 ncols indptr indices data)
    /\ to_scipy_is_csr site_csc_order = false
    /\ to_scipy_csx arrs = (indptr, indices).
Proof.
  intros. exists [indptr; indices]. split; [reflexivity|]. split; [apply csc_layout|].
  split; reflexivity.
Qed.

Theorem roundtrip_layout_coo_proof : forall nrows ncols nnz row col (data : list V),
  exists arrs, from_scipy_coo nnz row col = Some arrs
    /\ storage_entries v0 [LCompressed; LSingleton] [0; 1] [nrows; ncols] arrs data
       = Some (coo_entries v0 nnz row col data)
    /\ to_scipy_coo arrs = (row, col).
Proof.
  intros. exists [[0; nnz]; row; col]. split; [reflexivity|]. split; [apply coo_layout|reflexivity].
Qed.

Theorem roundtrip_layout_dense_proof : forall sh (flat : list V),
  storage_entries v0 (map l_fmt (dense_levels (length sh))) (zseq 0 (length sh)) sh [] flat
  = Some (dense_entries v0 sh flat).
Proof.
  intros. unfold dense_levels.
  replace (map l_fmt (repeat lv_dense (length sh))) with (repeat LDense (length sh)).
  - apply dense_layout.
  - induction (length sh) as [|n IH]; simpl; [reflexivity|]. rewrite <- IH. reflexivity.
Qed.
End Roundtrip.

(* to_numpy's order inversion, ranks 1..4 *)
Section ToNumpy.
Open Scope Z_scope.

Ltac destr_list l :=
  destruct l as [|? [|? [|? [|? [|? ?]]]]]; try discriminate.

Theorem to_numpy_order_correct_proof :
  forall order, In order (perms_upto 4) ->
  forall sh ix, length sh = length order -> length ix = length order ->
    to_numpy_shape order sh = sh /\ to_numpy_pos order sh ix = dense_pos order sh ix.
Proof.
  intros order Hin. vm_compute in Hin.
  repeat (destruct Hin as [<-|Hin];
    [intros sh ix Hs Hi; destr_list sh; destr_list ix; split; reflexivity|]).
  destruct Hin.
Qed.

(* non-vacuity: a 3-cycle (its own inverse is a different permutation) on a non-uniform shape *)
Example to_numpy_nonvacuous :
  In [1; 2; 0] (perms_upto 4)
  /\ to_numpy_shape [1; 2; 0] [2; 3; 4] = [2; 3; 4] /\ to_numpy_pos [1; 2; 0] [2; 3; 4] [1; 2; 3] = 23
  /\ length (perms_upto 4) = 33%nat.
Proof. vm_compute. tauto. Qed.
End ToNumpy.

(* ========================================================================================== *)
(* A. _determine_format                                                                        *)
Section DetFmt.
Open Scope Z_scope.

Definition out_rank (fmts : list cformat) (out_ndim : option nat) : nat :=
  match out_ndim with Some n => n | None => fold_left Nat.max (map frank fmts) 0%nat end.

Definition max_width (ws : list Z) : Z := fold_left Z.max ws 0.

Lemma gcf_ok levels order pos crd f :
  get_concrete_format levels order pos crd = Ok f ->
  fmt_wfb f = true /\ f_levels f = levels /\ f_pos f = pos /\ f_crd f = crd.
Proof.
  unfold get_concrete_format. destruct (is_permb _ _) eqn:E; [|discriminate].
  intros H. inversion H; subst. unfold fmt_wfb, frank. simpl. auto.
Qed.

Lemma gsdl_ok ns n lv : get_sparse_dense_levels ns (Z.of_nat n) = Ok lv -> length lv = n.
Proof.
  unfold get_sparse_dense_levels. destruct (_ && _ && _) eqn:E; [|discriminate].
  rewrite !andb_true_iff, !Z.leb_le in E. intros H. inversion H; subst.
  rewrite app_length, !repeat_length. lia.
Qed.

Theorem determine_format_wf_proof :
  forall fmts union out_ndim f,
    determine_format fmts union out_ndim = Ok f ->
    fmt_wfb f = true
    /\ frank f = out_rank fmts out_ndim
    /\ (fmts <> [] -> f_pos f = max_width (map f_pos fmts) /\ f_crd f = max_width (map f_crd fmts)).
Proof.
  intros fmts union out_ndim f. unfold determine_format. destruct fmts as [|f0 rest].
  - intros H. apply gcf_ok in H. destruct H as [Hw [Hl _]]. split; [assumption|]. split; [|congruence].
    unfold frank. rewrite Hl, repeat_length. destruct out_ndim; reflexivity.
  - set (n := match out_ndim with Some n => n | None => _ end).
    destruct (get_sparse_dense_levels _ _) as [lv|] eqn:El; [|discriminate]. cbn [bind].
    intros H. apply gcf_ok in H. destruct H as [Hw [Hl [Hp Hc]]].
    split; [assumption|]. split.
    + unfold frank. rewrite Hl. apply gsdl_ok in El. rewrite El. unfold n, out_rank. reflexivity.
    + intros _. split; assumption.
Qed.

(* ---- totality when the output rank is at least every operand's rank (add; reshape to a higher rank) *)
Lemma memz_In x l : memz x l = true <-> In x l.
Proof.
  unfold memz. rewrite existsb_exists. split.
  - intros [y [Hy He]]. apply Z.eqb_eq in He. subst. assumption.
  - intros H. exists x. split; [assumption|apply Z.eqb_refl].
Qed.

Lemma nodupb_NoDup l : nodupb l = true <-> NoDup l.
Proof.
  induction l as [|x l IH]; simpl.
  - split; [constructor|reflexivity].
  - rewrite andb_true_iff, negb_true_iff, IH. split.
    + intros [Hm ?]. constructor; [|assumption]. intros Hi. apply memz_In in Hi. congruence.
    + intros H. inversion H; subst. split; [|assumption].
      destruct (memz x l) eqn:E; [|reflexivity]. apply memz_In in E. tauto.
Qed.

Lemma zseq_In a n x : In x (zseq a n) <-> Z.of_nat a <= x < Z.of_nat (a + n).
Proof.
  unfold zseq. rewrite in_map_iff. split.
  - intros [k [<- Hk]]. apply in_seq in Hk. lia.
  - intros H. exists (Z.to_nat x). split; [lia|]. apply in_seq. lia.
Qed.

Lemma zseq_NoDup a n : NoDup (zseq a n).
Proof.
  unfold zseq. revert a. induction n as [|n IH]; intros a; simpl; constructor.
  - rewrite in_map_iff. intros [k [He Hk]]. apply in_seq in Hk. lia.
  - apply IH.
Qed.

Lemma is_permb_spec o n :
  is_permb o n = true <-> length o = n /\ (forall x, In x o -> 0 <= x < Z.of_nat n) /\ NoDup o.
Proof.
  unfold is_permb. rewrite !andb_true_iff, Nat.eqb_eq, forallb_forall, nodupb_NoDup.
  unfold in_rangeb. split.
  - intros [[H1 H2] H3]. repeat split; try assumption;
      specialize (H2 x H); rewrite andb_true_iff, Z.leb_le, Z.ltb_lt in H2; lia.
  - intros [H1 [H2 H3]]. repeat split; try assumption.
    intros x Hx. specialize (H2 x Hx). rewrite andb_true_iff, Z.leb_le, Z.ltb_lt. lia.
Qed.

Lemma is_permb_extend o k n :
  is_permb o k = true -> (k <= n)%nat -> is_permb (o ++ zseq k (n - k)) n = true.
Proof.
  intros H Hk. apply is_permb_spec in H. destruct H as [Hl [Hr Hn]]. apply is_permb_spec.
  split; [|split].
  - rewrite app_length. unfold zseq. rewrite map_length, seq_length. lia.
  - intros x Hx. apply in_app_iff in Hx. destruct Hx as [Hx|Hx].
    + apply Hr in Hx. lia.
    + apply zseq_In in Hx. lia.
  - apply nodup_app; [assumption|apply zseq_NoDup|].
    intros x Hx Hz. apply Hr in Hx. apply zseq_In in Hz. lia.
Qed.

Lemma is_permb_zseq n : is_permb (zseq 0 n) n = true.
Proof.
  replace (zseq 0 n) with ([] ++ zseq 0 (n - 0)) by (rewrite Nat.sub_0_r; reflexivity).
  apply is_permb_extend; [reflexivity|lia].
Qed.

Lemma fold_zmax_ge l : forall a, a <= fold_left Z.max l a.
Proof.
  induction l as [|x l IH]; intros a; simpl; [lia|]. specialize (IH (Z.max a x)). lia.
Qed.

Lemma fold_nmax_ge l : forall a x, (In x l \/ x = a) -> (x <= fold_left Nat.max l a)%nat.
Proof.
  induction l as [|y l IH]; intros a x H; simpl.
  - destruct H as [[] | ->]. lia.
  - destruct H as [[-> | H] | ->].
    + etransitivity; [|apply (IH (Nat.max a x) (Nat.max a x)); right; reflexivity]. lia.
    + apply IH. left; assumption.
    + etransitivity; [|apply (IH (Nat.max a y) (Nat.max a y)); right; reflexivity]. lia.
Qed.

Definition order_ok (all : list (list Z)) (acc : option (list Z)) : Prop :=
  match acc with None => True | Some o => o = [] \/ In o all end.

Lemma order_step_ok all acc fo : order_ok all acc -> In fo all -> order_ok all (order_step acc fo).
Proof.
  unfold order_step. destruct acc as [o|]; [|auto]. intros H Hf.
  destruct (zl_eqb _ o); [right; exact Hf|]. destruct (negb _); [exact I|exact H].
Qed.

Lemma order_fold_ok all l : forall acc, order_ok all acc -> incl l all ->
  order_ok all (fold_left order_step l acc).
Proof.
  induction l as [|fo l IH]; intros acc H Hi; simpl; [assumption|].
  apply IH; [apply order_step_ok; [assumption|apply Hi; left; reflexivity]|].
  intros x Hx. apply Hi. right; assumption.
Qed.

Lemma count_nonneg_sparse f : 0 <= count_sparse f.
Proof. unfold count_sparse. lia. Qed.
Lemma count_nonneg_dense f : 0 <= count_dense f.
Proof. unfold count_dense. lia. Qed.

Theorem determine_format_total_proof :
  forall fmts union out_ndim,
    fmts <> [] -> Forall (fun f => fmt_wfb f = true) fmts ->
    (forall n, out_ndim = Some n -> Forall (fun f => (frank f <= n)%nat) fmts) ->
    exists f, determine_format fmts union out_ndim = Ok f.
Proof.
  intros fmts union out_ndim Hne Hwf Hn.
  destruct fmts as [|f0 rest]; [congruence|]. unfold determine_format.
  set (n := match out_ndim with Some n => n | None => _ end).
  assert (Hrank : forall g, In g (f0 :: rest) -> (frank g <= n)%nat).
  { intros g Hg. unfold n. destruct out_ndim as [m|].
    - specialize (Hn m eq_refl). rewrite Forall_forall in Hn. auto.
    - apply fold_nmax_ge. left. apply in_map. exact Hg. }
  set (counter := if union then count_dense else count_sparse).
  set (nc := fold_left Z.max (map counter rest) (counter f0)).
  assert (Hnc : 0 <= nc).
  { unfold nc. etransitivity; [|apply fold_zmax_ge]. unfold counter. destruct union;
      [apply count_nonneg_dense|apply count_nonneg_sparse]. }
  set (nc' := if Z.of_nat n <? nc then Z.of_nat n else nc).
  assert (Hnc' : 0 <= nc' <= Z.of_nat n).
  { unfold nc'. destruct (Z.ltb_spec (Z.of_nat n) nc); lia. }
  unfold get_sparse_dense_levels.
  set (ns := if union then Z.of_nat n - nc' else nc').
  assert (Hns : 0 <= ns <= Z.of_nat n) by (unfold ns; destruct union; lia).
  replace ((0 <=? Z.of_nat n) && (0 <=? Z.of_nat n - ns) && (0 <=? ns)) with true
    by (symmetry; rewrite !andb_true_iff, !Z.leb_le; lia).
  cbn [bind]. unfold get_concrete_format.
  set (lv := repeat lv_dense _ ++ repeat lv_compressed _).
  assert (Hlv : length lv = n).
  { unfold lv. rewrite app_length, !repeat_length. lia. }
  rewrite Hlv.
  set (ord := fold_left order_step (map f_order (f0 :: rest)) (Some [])).
  assert (Hord : order_ok (map f_order (f0 :: rest)) ord).
  { apply order_fold_ok; [left; reflexivity|apply incl_refl]. }
  match goal with |- exists f, (if is_permb ?o n then _ else _) = _ => assert (Hp : is_permb o n = true) end.
  { destruct ord as [o|]; [|apply is_permb_zseq].
    assert (Ho : is_permb o (length o) = true /\ (length o <= n)%nat).
    { destruct Hord as [->|Hin]; [split; [reflexivity|simpl; lia]|].
      apply in_map_iff in Hin. destruct Hin as [g [<- Hg]].
      rewrite Forall_forall in Hwf. pose proof (Hwf g Hg) as Hw. unfold fmt_wfb in Hw.
      pose proof Hw as Hw'. apply is_permb_spec in Hw'. destruct Hw' as [Hl _].
      rewrite Hl. split; [assumption|]. apply Hrank. assumption. }
    destruct Ho as [Ho Hle].
    rewrite firstn_all2.
    - apply is_permb_extend; assumption.
    - rewrite app_length. unfold zseq. rewrite map_length, seq_length. lia. }
  rewrite Hp. eexists. reflexivity.
Qed.

(* every operand's width is at most the result's *)
Lemma max_width_ge ws w : In w ws -> w <= max_width ws.
Proof.
  unfold max_width. generalize 0. induction ws as [|x ws IH]; intros a H; [destruct H|].
  simpl. destruct H as [->|H].
  - etransitivity; [|apply fold_zmax_ge]. lia.
  - apply IH. assumption.
Qed.

Example determine_format_nonvacuous :
  let csr := mkFmt (csf_levels 2) [0; 1] 32 32 in
  let csc := mkFmt (csf_levels 2) [1; 0] 64 32 in
  determine_format [csr; csc] true None = Ok (mkFmt (csf_levels 2) [0; 1] 64 32)
  /\ determine_format [csc] false (Some 1%nat) = Raise ValueError.
Proof. split; reflexivity. Qed.

End DetFmt.

(* ========================================================================================== *)
(* the protocol instantiated with the extracted site facts; refutations                        *)
Section OwnershipSites.
Open Scope nat_scope.

Lemma sites_ok_proof : edges_ok (site_cfg false) = true.
Proof. reflexivity. Qed.

Theorem no_use_after_free_sites_proof :
  forall (dt : Z) (h : list event), wrapped_dtype dt = false ->
    safeb (run (site_cfg (wrapped_dtype dt)) h) = true
    /\ free_once (run (site_cfg (wrapped_dtype dt)) h) = true.
Proof.
  intros dt h W. rewrite W. apply no_use_after_free_proof; reflexivity.
Qed.

(* x = asarray(np_input); r = add(x, x); out = to_numpy(r); del r; collect  — with a wrapped dtype *)
Definition uaf_history : list event :=
  [ENewNumpy; EFromArrays [0]; EWrap 1; EDel 1;          (* x = asarray(a): roots [2; 0] *)
   EOp OAdd [2; 2] 1; EWrap 3; EDel 1;                   (* r = add(x, x): roots [4; 2; 0] *)
   EGetView 4 0; EDerive 6; EDel 1;                      (* out = to_numpy(r): roots [7; 4; 2; 0] *)
   EDel 1; ECollect [6; 4; 3]].                          (* del r; the collector takes data, r, its storage *)

Theorem no_use_after_free_refuted_proof :
  exists (dt : Z) (h : list event), safeb (run (site_cfg (wrapped_dtype dt)) h) = false.
Proof. exists 2%Z, uaf_history. reflexivity. Qed.

(* the same history is safe for a plain dtype (views are not wrapped: the object ids differ by one) *)
Example no_use_after_free_nonvacuous :
  let h := [ENewNumpy; EFromArrays [0]; EWrap 1; EDel 1; EOp OAdd [2; 2] 1; EWrap 3; EDel 1;
            EGetView 4 0; EDerive 5; EDel 1; EDel 1; ECollect [4]] in
  let s := run (site_cfg false) h in
  safeb s = true /\ s_freed s = [] /\ s_roots s = [6; 2; 0] /\ s_dead s = [4].
Proof. repeat split; reflexivity. Qed.

Definition all_own (_ : opk) := true.

(* each required edge is necessary: dropping it (or making input-backed storages owning) admits a
   history that ends with a live object over a freed buffer *)
Theorem edges_necessary_proof :
  (exists h, safeb (run (mkCfg false true true false all_own false) h) = false)
  /\ (exists h, safeb (run (mkCfg true false true false all_own false) h) = false)
  /\ (exists h, safeb (run (mkCfg true true false false all_own false) h) = false)
  /\ (exists h, safeb (run (mkCfg true true true true all_own false) h) = false).
Proof.
  split; [|split; [|split]].
  - (* no view -> storage *)
    exists [ENewNumpy; EFromArrays [0]; EWrap 1; EDel 1; EOp OAdd [2; 2] 1; EWrap 3; EDel 1;
            EGetView 4 0; EDel 1; ECollect [4; 3]]. reflexivity.
  - (* no storage -> input *)
    exists [ENewNumpy; EFromArrays [0]; EWrap 1; EDel 1; EDel 1; ECollect [0]]. reflexivity.
  - (* no Array -> storage *)
    exists [ENewNumpy; EFromArrays [0]; EWrap 1; EDel 1; EOp OAdd [2; 2] 1; EWrap 3; EDel 1; ECollect [3]].
    reflexivity.
  - (* storage over caller arrays frees them *)
    exists [ENewNumpy; EFromArrays [0]; EDel 0; ECollect [1]]. reflexivity.
Qed.

End OwnershipSites.
