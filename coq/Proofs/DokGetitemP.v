(* Proofs/DokGetitemP.v — DOK.__getitem__ (Model/DokGetitem.v): the delegation to COO for every key
   that is not made of index sequences only (through agent c05's COO.from_iter / DOK.from_coo
   theorems and the COO indexing theorems), and _fancy_getitem on the keys it handles like NumPy
   (one in-range non-negative integer sequence per axis, one length). *)
From Coq Require Import ZArith List Bool Lia ZifyBool Sorting.Sorted Sorting.Permutation.
From Verif Require Import Py PySlice Shape COO COOP GCXS Convert ConvertL ConvertM ConvertG ConvertP NpIndex CooIndex
     CooIndexMaskP CooIndexNormP CooIndexP CooIndexArrP CooIndexMultiP DokGetitem.
Import ListNotations.
Open Scope Z_scope.

(* ================================================================ the COO theorems, together *)
Definition coo_ix_ok (sh : shape) (ix : index) : Prop :=
  basic ix = true \/ (one_array ix = true /\ d29_clause sh ix = true) \/ (multi_array ix = true /\ d30_clause sh ix = true).

Theorem coo_getitem_correct (V : Type) (kf : nat -> nat) (x : coo V) (ix : index) :
  canonical V x -> shape_okb (c_shape x) = true -> no_zero_step ix = true -> coo_ix_ok (c_shape x) ix ->
  match np_index (c_shape x) ix with
  | Raise e => getitem kf x ix = Raise e /\ e = IndexError
  | Ok (sh', g) =>
    match getitem kf x ix with
    | Ok (GArr y) => c_shape y = sh' /\ c_fill y = c_fill x /\ canonical V y
                     /\ forall j, in_range sh' j -> den y j = den x (g j)
    | Ok (GScalar v) => sh' = [] /\ v = den x (g [])
    | Raise _ => False
    end
  end.
Proof.
  intros Hc Hs Hz [Hb|[[H1 H2]|[H1 H2]]].
  - apply coo_getitem_basic_proof; assumption.
  - apply coo_getitem_one_array_proof; assumption.
  - apply coo_getitem_multi_array_proof; assumption.
Qed.

(* ================================================================ a DOK state and its COO *)
Section DokP.
  Variable V : Type.
  Variable veqb : V -> V -> bool.
  Variable add : V -> V -> V.

  Definition dok_ok (sh : shape) (items : list (idx * V)) : Prop :=
    NoDup (map fst items) /\ Forall (in_range sh) (map fst items) /\ (sh <> [] \/ items = []).

  Lemma dup_vals_nodup' (es : list (idx * V)) ix :
    NoDup (map fst es) -> dup_vals V es ix = match lookup es ix with Some v => [v] | None => [] end.
  Proof.
    induction es as [|[k v] r IH]; intros Hnd; [reflexivity|].
    inversion Hnd as [|? ? Hk Hnd']; subst. unfold dup_vals in *. cbn [filter fst]. simpl lookup.
    destruct (idx_eqb k ix) eqn:E.
    - apply idx_eqb_eq in E. subst k. cbn [map snd]. rewrite IH by assumption. rewrite (lookup_notin V r ix Hk). reflexivity.
    - rewrite IH by assumption. destruct (lookup r ix); reflexivity.
  Qed.

  Lemma combine_fst_snd (items : list (idx * V)) : combine (map fst items) (map snd items) = items.
  Proof. induction items as [|[a b] r IH]; simpl; congruence. Qed.

  (* asformat("coo") of a valid DOK: a canonical COO with the same dense meaning *)
  Lemma dok_to_coo sh items fill :
    dok_ok sh items ->
    exists c, from_iter_pairs veqb add sh items fill = Ok c /\ canonical V c /\ c_shape c = sh /\ c_fill c = fill
              /\ forall ix, den c ix = den (dok_as_coo sh items fill) ix.
  Proof.
    intros [Hnd [Hr Hsh]].
    pose proof (coo_make_den_proof V veqb add sh (map fst items) (map snd items) fill Hr ltac:(rewrite !map_length; reflexivity)) as H.
    cbv zeta in H. destruct H as [Hc [Hs [Hf Hden]]].
    exists (Convert.coo_make veqb add false true false sh (map fst items) (map snd items) fill).
    assert (Hmk : Convert.coo_make_checked veqb add false true false sh (map fst items) (map snd items) fill
                  = Ok (Convert.coo_make veqb add false true false sh (map fst items) (map snd items) fill)).
    { unfold Convert.coo_make_checked. rewrite !map_length, Nat.eqb_refl. cbn [negb orb andb].
      replace (forallb (in_rangeb sh) (map fst items)) with true; [reflexivity|].
      symmetry. apply forallb_forall. intros x Hx. apply in_rangeb_spec. rewrite Forall_forall in Hr. auto. }
    split.
    { unfold from_iter_pairs. destruct sh as [|d t]; [|destruct items; exact Hmk].
      destruct Hsh as [Hsh|Hsh]; [congruence|]. subst items. exact Hmk. }
    split; [exact Hc|]. split; [exact Hs|]. split; [exact Hf|].
    intros ix. destruct (in_rangeb sh ix) eqn:Eir.
    - apply in_rangeb_spec in Eir. rewrite (Hden ix Eir). rewrite combine_fst_snd.
      rewrite dup_vals_nodup' by exact Hnd. unfold den, entries, dok_as_coo. cbn [c_coords c_data c_fill]. rewrite combine_fst_snd.
      destruct (lookup items ix); reflexivity.
    - (* out of range: stored nowhere *)
      assert (Hnr : ~ in_range sh ix) by (intros H; apply in_rangeb_spec in H; congruence).
      rewrite den_unstored.
      + rewrite Hf. symmetry. apply den_unstored. unfold dok_as_coo. cbn [c_coords]. intros Hin.
        rewrite Forall_forall in Hr. apply Hnr. apply Hr. exact Hin.
      + intros Hin. destruct Hc as [Hcr _]. rewrite Forall_forall in Hcr. apply Hnr. rewrite <- Hs. apply Hcr. exact Hin.
  Qed.

  Lemma all_arrays_none_not_nil ix : all_arrays_of ix = None -> ix <> [].
  Proof. intros H E. subst. discriminate. Qed.

  Theorem dok_getitem_den_proof (kf : nat -> nat) sh items fill (ix : index) :
    dok_ok sh items -> shape_okb sh = true -> no_zero_step ix = true -> coo_ix_ok sh ix ->
    all_arrays_of ix = None ->
    match np_index sh ix with
    | Raise e => dok_getitem V veqb add kf sh items fill ix = Raise e /\ e = IndexError
    | Ok (sh', g) =>
      match dok_getitem V veqb add kf sh items fill ix with
      | Ok (DArr sh'' it' f') =>
        sh'' = sh' /\ f' = fill /\ NoDup (map fst it') /\ Forall (in_range sh') (map fst it')
        /\ forall j, in_range sh' j -> den (dok_as_coo sh'' it' f') j = den (dok_as_coo sh items fill) (g j)
      | Ok (DScalar v) => sh' = [] /\ v = den (dok_as_coo sh items fill) (g [])
      | Raise _ => False
      end
    end.
  Proof.
    intros Hok Hsh Hz Hix Hna. destruct (dok_to_coo sh items fill Hok) as [c [Hfi [Hc [Hs [Hf Hden]]]]].
    unfold dok_getitem. rewrite Hna, Hfi. cbn [bind].
    pose proof (coo_getitem_correct V kf c ix Hc ltac:(rewrite Hs; exact Hsh) Hz ltac:(rewrite Hs; exact Hix)) as H.
    rewrite Hs in H. destruct (np_index sh ix) as [[sh' g]|e].
    - destruct (getitem kf c ix) as [[v|y]|e]; cbn [bind].
      + destruct H as [H1 H2]. split; [exact H1|]. rewrite H2. apply Hden.
      + destruct H as [H1 [H2 [H3 H4]]]. rewrite (dok_items_canonical V add y H3).
        split; [exact H1|]. split; [rewrite H2; exact Hf|].
        pose proof H3 as [Hyr [Hys Hyl]].
        split; [apply (entries_NoDup V y H3)|]. split.
        * unfold entries. rewrite map_fst_combine by lia. rewrite <- H1. exact Hyr.
        * intros j Hj. rewrite (dok_as_coo_entries V y H3). rewrite (H4 j Hj). apply Hden.
      + exact H.
    - destruct H as [H1 H2]. rewrite H1. cbn [bind]. auto.
  Qed.
End DokP.

(* ================================================================ _fancy_getitem *)
Section Fancy.
  Variable V : Type.
  Variable veqb : V -> V -> bool.
  Variable add : V -> V -> V.

  (* domain clause D24: one index sequence per axis, non-empty key, one length, every entry in [0, extent) *)
  Fixpoint seqs_in_range (sh : shape) (ls : list (list Z)) : Prop :=
    match sh, ls with
    | [], [] => True
    | d :: sh', l :: ls' => (forall v, In v l -> 0 <= v < d) /\ seqs_in_range sh' ls'
    | _, _ => False
    end.

  Definition fancy_ok (sh : shape) (ls : list (list Z)) (n : nat) : Prop :=
    ls <> [] /\ seqs_in_range sh ls /\ forall l, In l ls -> length l = n.

  Lemma seqs_length sh : forall ls, seqs_in_range sh ls -> length ls = length sh.
  Proof. induction sh as [|d sh IH]; intros [|l ls] H; simpl in *; try tauto. f_equal. apply IH. tauto. Qed.

  Lemma all_arrays_of_map ls : all_arrays_of (map IArr ls) = Some ls.
  Proof. induction ls as [|l r IH]; [reflexivity|]. cbn [map all_arrays_of arr_of]. rewrite IH. reflexivity. Qed.

  Lemma dict_get_In (items : list (idx * V)) k v :
    NoDup (map fst items) -> (dict_get V items k = Some v <-> In (k, v) items).
  Proof.
    induction items as [|[k' w] r IH]; intros Hnd; simpl; [split; [discriminate|tauto]|].
    inversion Hnd as [|? ? Hk Hnd']; subst. destruct (idx_eqb k' k) eqn:E.
    - apply idx_eqb_eq in E. subst k'. split.
      + intros H. inversion H. left. reflexivity.
      + intros [H|H]; [inversion H; reflexivity|]. exfalso. apply Hk. apply in_map_iff. exists (k, v). auto.
    - rewrite (IH Hnd'). split.
      + intros H. right. exact H.
      + intros [H|H]; [|exact H]. inversion H. subst. rewrite idx_eqb_refl in E. discriminate.
  Qed.

  Lemma option_ext (a b : option V) : (forall v, a = Some v <-> b = Some v) -> a = b.
  Proof.
    intros H. destruct a as [x|], b as [y|]; try reflexivity.
    - apply H. reflexivity.
    - pose proof (proj1 (H x) eq_refl). discriminate.
    - pose proof (proj2 (H y) eq_refl). discriminate.
  Qed.

  (* NumPy on a key made of one in-range index sequence per axis *)
  Lemma resolve_arrays sh : forall ls, seqs_in_range sh ls -> resolve sh (map IArr ls) = Ok (map RAdv ls).
  Proof.
    induction sh as [|d sh IH]; intros [|l ls] H; simpl in H; try contradiction; [reflexivity|]. destruct H as [Hl H].
    cbn [map resolve resolve1].
    assert (Hb : forallb (in_bounds d) l = true).
    { apply forallb_forall. intros v Hv. specialize (Hl v Hv). unfold in_bounds. lia. }
    rewrite Hb. cbn [bind]. rewrite (IH ls H). cbn [bind]. f_equal. f_equal. f_equal.
    apply map_wrap_nonneg. apply Forall_forall. intros v Hv. specialize (Hl v Hv). lia.
  Qed.

  Lemma out_shape_later ls : out_shape_aux true (map RAdv ls) = [].
  Proof. induction ls as [|l r IH]; [reflexivity|]. exact IH. Qed.

  Lemma src_later q ls j : src_aux (Some q) (map RAdv ls) j = map (fun l => zat l q) ls.
  Proof. induction ls as [|l r IH]; [reflexivity|]. cbn [map src_aux]. rewrite IH. reflexivity. Qed.

  Lemma countb_arrays ls : countb is_ell (map IArr ls) = 0 /\ countb consumes (map IArr ls) = Z.of_nat (length ls).
  Proof.
    induction ls as [|l r [IH1 IH2]]; [split; reflexivity|]. cbn [map]. rewrite !countb_cons, IH1, IH2. cbn. split; [reflexivity|].
    rewrite Zpos_P_of_succ_nat. lia.
  Qed.

  Lemma fancy_keys (items : list (idx * V)) ls (L : list nat) :
    map fst (flat_map (fun i => match dict_get V items (zip_key ls i) with
                                 | Some v => [([Z.of_nat i], v)] | None => [] end) L)
    = map (fun i => [Z.of_nat i])
          (filter (fun i => match dict_get V items (zip_key ls i) with Some _ => true | None => false end) L).
  Proof.
    induction L as [|i l IH]; [reflexivity|]. cbn [flat_map filter]. rewrite map_app, IH.
    destruct (dict_get V items (zip_key ls i)); reflexivity.
  Qed.

  Theorem dok_fancy_getitem_den_proof (kf : nat -> nat) sh items fill (ls : list (list Z)) (n : nat) :
    dok_ok V sh items -> fancy_ok sh ls n ->
    exists g it',
      np_index sh (map IArr ls) = Ok ([Z.of_nat n], g)
      /\ dok_getitem V veqb add kf sh items fill (map IArr ls) = Ok (DArr [Z.of_nat n] it' fill)
      /\ NoDup (map fst it') /\ Forall (in_range [Z.of_nat n]) (map fst it')
      /\ forall j, in_range [Z.of_nat n] j ->
           den (dok_as_coo [Z.of_nat n] it' fill) j = den (dok_as_coo sh items fill) (g j).
  Proof.
    intros [Hnd [Hr Hsh]] [Hne [Hin Hlen]].
    pose proof (seqs_length sh ls Hin) as Hl.
    destruct ls as [|l0 lr] eqn:Els; [congruence|]. rewrite <- Els in *.
    assert (Hn0 : length l0 = n) by (apply Hlen; rewrite Els; left; reflexivity).
    (* NumPy's side *)
    destruct (countb_arrays ls) as [Hce Hcc].
    assert (Hnp : np_index sh (map IArr ls) = Ok ([Z.of_nat n], src_of (map RAdv ls))).
    { unfold np_index, expand. rewrite Hce, Hcc, Hl, Z.sub_diag. cbn [Z.ltb Z.compare bind repeat Z.to_nat].
      replace (1 <? 0) with false by reflexivity. replace (0 <? 0) with false by reflexivity. cbn [bind].
      rewrite app_nil_r, (resolve_arrays sh ls Hin). cbn [bind].
      rewrite (broadcast_same (map RAdv ls) n).
      2: { intros l Hl'. apply in_map_iff in Hl'. destruct Hl' as [l' [E Hl']]. inversion E; subst. apply Hlen. exact Hl'. }
      cbn [bind]. rewrite Els. cbn [map]. unfold out_shape. cbn [out_shape_aux]. rewrite out_shape_later, Hn0. reflexivity. }
    eexists. eexists. split; [exact Hnp|].
    unfold dok_getitem. rewrite all_arrays_of_map. unfold dok_fancy. rewrite Hl, Nat.eqb_refl. cbn [negb].
    rewrite Els. rewrite <- Els.
    assert (Hall : forallb (fun l => (length l =? length l0)%nat) ls = true).
    { apply forallb_forall. intros l Hl'. rewrite (Hlen l Hl'), Hn0. apply Nat.eqb_refl. }
    rewrite Hall. cbn [negb]. rewrite Hn0. split; [reflexivity|].
    match goal with |- NoDup (map fst ?t) /\ _ => set (it' := t) end.
    assert (Hit_in : forall k v, In (k, v) it' <-> exists i, (i < n)%nat /\ k = [Z.of_nat i] /\ dict_get V items (zip_key ls i) = Some v).
    { intros k v. unfold it'. rewrite in_flat_map. split.
      - intros [i [Hi H]]. apply in_seq0 in Hi. destruct (dict_get V items (zip_key ls i)) as [w|] eqn:E; [|destruct H].
        destruct H as [H|[]]. inversion H; subst. exists i. auto.
      - intros [i [Hi [-> E]]]. exists i. split; [apply in_seq0; exact Hi|]. rewrite E. left. reflexivity. }
    assert (Hkeys : map fst it' = map (fun i => [Z.of_nat i]) (filter (fun i => match dict_get V items (zip_key ls i) with Some _ => true | None => false end) (seq 0 n))).
    { unfold it'. apply fancy_keys. }
    assert (Hnd' : NoDup (map fst it')).
    { rewrite Hkeys. apply FinFun.Injective_map_NoDup; [|apply NoDup_filter, seq_NoDup]. intros a b H. inversion H. lia. }
    split; [exact Hnd'|].
    split.
    { apply Forall_forall. intros k Hk. apply in_map_iff in Hk. destruct Hk as [[k' v] [<- Hk]]. apply Hit_in in Hk.
      destruct Hk as [i [Hi [-> _]]]. simpl. lia. }
    intros j Hj. destruct j as [|q [|? ?]]; simpl in Hj; try tauto. destruct Hj as [Hq _].
    assert (Hsrc : src_of (map RAdv ls) [q] = zip_key ls (Z.to_nat q)).
    { rewrite Els. unfold src_of. cbn [map src_aux hd tl]. rewrite src_later. unfold zip_key. cbn [map]. reflexivity. }
    rewrite Hsrc. unfold den. cbn [c_fill dok_as_coo].
    unfold entries, dok_as_coo. cbn [c_coords c_data]. rewrite !combine_fst_snd.
    assert (Elook : lookup it' [q] = lookup items (zip_key ls (Z.to_nat q))); [|rewrite Elook; reflexivity].
    apply option_ext. intros v.
    rewrite (lookup_In V it' [q] v Hnd'), (lookup_In V items _ v Hnd), Hit_in, <- (dict_get_In items _ v Hnd). split.
    - intros [i [Hi [E H]]]. inversion E. subst q. rewrite Nat2Z.id. exact H.
    - intros H. exists (Z.to_nat q). split; [lia|]. split; [rewrite Z2Nat.id by lia; reflexivity|exact H].
  Qed.
End Fancy.

(* ---- outside the clauses the statements are false of the code *)
(* D22: the empty key takes the _fancy_getitem branch *)
Theorem dok_getitem_empty_key_refuted_proof :
  exists sh (items : list (idx * Z)) fill,
    dok_ok Z sh items /\ shape_okb sh = true /\ (exists sh' g, np_index sh [] = Ok (sh', g))
    /\ dok_getitem Z Z.eqb Z.add (fun _ => 0%nat) sh items fill [] = Raise NotImplementedError.
Proof.
  exists [2], [([1], 5)], 0. split.
  - split; [repeat constructor; simpl; tauto|]. split; [repeat constructor; simpl; lia|left; discriminate].
  - split; [reflexivity|]. split; [eexists; eexists; vm_compute; reflexivity|reflexivity].
Qed.

(* D24: a key made of index sequences is not wrapped or bounds-checked (x[[-1]] reads nothing) *)
Theorem dok_fancy_refuted_proof :
  exists sh (items : list (idx * Z)) fill (ls : list (list Z)),
    dok_ok Z sh items /\ shape_okb sh = true
    /\ match np_index sh (map IArr ls), dok_getitem Z Z.eqb Z.add (fun _ => 0%nat) sh items fill (map IArr ls) with
       | Ok (sh', g), Ok (DArr sh'' it' f') =>
         sh'' = sh' /\ den (dok_as_coo sh'' it' f') [0] <> den (dok_as_coo sh items fill) (g [0])
       | _, _ => False
       end.
Proof.
  exists [3], [([2], 5)], 0, [[-1]]. split.
  - split; [repeat constructor; simpl; tauto|]. split; [repeat constructor; simpl; lia|left; discriminate].
  - split; [reflexivity|]. vm_compute. split; [reflexivity|discriminate].
Qed.

Example dok_getitem_nonvacuous :
  let sh := [2; 3] in let items := [([0; 1], 10); ([1; 2], 30)] in
  dok_ok Z sh items /\ coo_ix_ok sh [IInt 1; ISlice None None (Some (-1))]
  /\ all_arrays_of [IInt 1; ISlice None None (Some (-1))] = None
  /\ dok_getitem Z Z.eqb Z.add (fun _ => 1%nat) sh items 7 [IInt 1; ISlice None None (Some (-1))] = Ok (DArr [3] [([0], 30)] 7)
  /\ fancy_ok sh [[1; 0; 1]; [2; 1; 2]] 3
  /\ dok_getitem Z Z.eqb Z.add (fun _ => 1%nat) sh items 7 (map IArr [[1; 0; 1]; [2; 1; 2]])
     = Ok (DArr [3] [([0], 30); ([1], 10); ([2], 30)] 7).
Proof.
  cbv zeta. split.
  - split; [repeat constructor; simpl; intuition discriminate|]. split; [repeat constructor; simpl; lia|left; discriminate].
  - split; [left; reflexivity|]. split; [reflexivity|]. split; [reflexivity|]. split; [|reflexivity].
    split; [discriminate|]. split.
    + simpl. repeat split; intros; simpl in *; lia.
    + intros l [<-|[<-|[]]]; reflexivity.
Qed.
