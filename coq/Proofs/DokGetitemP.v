(* Proofs/DokGetitemP.v — DOK.__getitem__ (Model/DokGetitem.v): the delegation to COO for every key
   that is not a non-empty tuple of index sequences (through agent c05's COO.from_iter / DOK.from_coo
   theorems and the COO indexing theorems; the empty key and 0-d DOKs included since fixes e6d97fc /
   e0a1c30), and _fancy_key + _fancy_getitem (fix b72190a) on keys made of one integer sequence per axis
   (negative entries wrap, out-of-bounds entries raise IndexError), one length. *)
From Coq Require Import ZArith List Bool Lia ZifyBool Sorting.Sorted Sorting.Permutation.
From Verif Require Import Py PySlice Shape COO COOP GCXS Convert ConvertL ConvertM ConvertG ConvertP NpIndex CooIndex
     CooIndexMaskP CooIndexNormP CooIndexP CooIndexArrP CooIndexMultiP DokGetitem.
Import ListNotations.
Open Scope Z_scope.

(* ================================================================ the COO theorems, together *)
Definition coo_ix_ok (sh : shape) (ix : index) : Prop :=
  basic ix = true \/ (one_array ix = true /\ d29_clause sh ix = true) \/ (multi_array ix = true /\ d30_clause sh ix = true).

Theorem coo_getitem_correct (V : Type) (kf : nat -> nat) (x : coo V) (ix : index) :
  canonical V x -> shape_okb (c_shape x) = true -> no_zero_step ix = true -> coo_ix_ok (c_shape x) ix ->
  match np_index (c_shape x) ix with
  | Raise e => getitem kf x ix = Raise e /\ e = IndexError
  | Ok (sh', g) =>
    match getitem kf x ix with
    | Ok (GArr y) => c_shape y = sh' /\ c_fill y = c_fill x /\ canonical V y
                     /\ forall j, in_range sh' j -> den y j = den x (g j)
    | Ok (GScalar v) => sh' = [] /\ v = den x (g [])
    | Raise _ => False
    end
  end.
Proof.
  intros Hc Hs Hz [Hb|[[H1 H2]|[H1 H2]]].
  - apply coo_getitem_basic_proof; assumption.
  - apply coo_getitem_one_array_proof; assumption.
  - apply coo_getitem_multi_array_proof; assumption.
Qed.

(* ================================================================ a DOK state and its COO *)
Section DokP.
  Variable V : Type.
  Variable veqb : V -> V -> bool.
  Variable add : V -> V -> V.

  Definition dok_ok (sh : shape) (items : list (idx * V)) : Prop :=
    NoDup (map fst items) /\ Forall (in_range sh) (map fst items).

  Lemma dup_vals_nodup' (es : list (idx * V)) ix :
    NoDup (map fst es) -> dup_vals V es ix = match lookup es ix with Some v => [v] | None => [] end.
  Proof.
    induction es as [|[k v] r IH]; intros Hnd; [reflexivity|].
    inversion Hnd as [|? ? Hk Hnd']; subst. unfold dup_vals in *. cbn [filter fst]. simpl lookup.
    destruct (idx_eqb k ix) eqn:E.
    - apply idx_eqb_eq in E. subst k. cbn [map snd]. rewrite IH by assumption. rewrite (lookup_notin V r ix Hk). reflexivity.
    - rewrite IH by assumption. destruct (lookup r ix); reflexivity.
  Qed.

  Lemma combine_fst_snd (items : list (idx * V)) : combine (map fst items) (map snd items) = items.
  Proof. induction items as [|[a b] r IH]; simpl; congruence. Qed.

  (* asformat("coo") of a valid DOK: a canonical COO with the same dense meaning *)
  Lemma dok_to_coo sh items fill :
    dok_ok sh items ->
    exists c, from_iter_pairs veqb add sh items fill = Ok c /\ canonical V c /\ c_shape c = sh /\ c_fill c = fill
              /\ forall ix, den c ix = den (dok_as_coo sh items fill) ix.
  Proof.
    intros [Hnd Hr].
    pose proof (coo_make_den_proof V veqb add sh (map fst items) (map snd items) fill Hr ltac:(rewrite !map_length; reflexivity)) as H.
    cbv zeta in H. destruct H as [Hc [Hs [Hf Hden]]].
    exists (Convert.coo_make veqb add false true false sh (map fst items) (map snd items) fill).
    assert (Hmk : Convert.coo_make_checked veqb add false true false sh (map fst items) (map snd items) fill
                  = Ok (Convert.coo_make veqb add false true false sh (map fst items) (map snd items) fill)).
    { unfold Convert.coo_make_checked. rewrite !map_length, Nat.eqb_refl. cbn [negb orb andb].
      replace (forallb (in_rangeb sh) (map fst items)) with true; [reflexivity|].
      symmetry. apply forallb_forall. intros x Hx. apply in_rangeb_spec. rewrite Forall_forall in Hr. auto. }
    split.
    { unfold from_iter_pairs. exact Hmk. }
    split; [exact Hc|]. split; [exact Hs|]. split; [exact Hf|].
    intros ix. destruct (in_rangeb sh ix) eqn:Eir.
    - apply in_rangeb_spec in Eir. rewrite (Hden ix Eir). rewrite combine_fst_snd.
      rewrite dup_vals_nodup' by exact Hnd. unfold den, entries, dok_as_coo. cbn [c_coords c_data c_fill]. rewrite combine_fst_snd.
      destruct (lookup items ix); reflexivity.
    - (* out of range: stored nowhere *)
      assert (Hnr : ~ in_range sh ix) by (intros H; apply in_rangeb_spec in H; congruence).
      rewrite den_unstored.
      + rewrite Hf. symmetry. apply den_unstored. unfold dok_as_coo. cbn [c_coords]. intros Hin.
        rewrite Forall_forall in Hr. apply Hnr. apply Hr. exact Hin.
      + intros Hin. destruct Hc as [Hcr _]. rewrite Forall_forall in Hcr. apply Hnr. rewrite <- Hs. apply Hcr. exact Hin.
  Qed.

  Theorem dok_getitem_den_proof (kf : nat -> nat) sh items fill (ix : index) :
    dok_ok sh items -> shape_okb sh = true -> no_zero_step ix = true -> coo_ix_ok sh ix ->
    fancy_key ix = false ->
    match np_index sh ix with
    | Raise e => dok_getitem V veqb add kf sh items fill ix = Raise e /\ e = IndexError
    | Ok (sh', g) =>
      match dok_getitem V veqb add kf sh items fill ix with
      | Ok (DArr sh'' it' f') =>
        sh'' = sh' /\ f' = fill /\ NoDup (map fst it') /\ Forall (in_range sh') (map fst it')
        /\ forall j, in_range sh' j -> den (dok_as_coo sh'' it' f') j = den (dok_as_coo sh items fill) (g j)
      | Ok (DScalar v) => sh' = [] /\ v = den (dok_as_coo sh items fill) (g [])
      | Raise _ => False
      end
    end.
  Proof.
    intros Hok Hsh Hz Hix Hna. destruct (dok_to_coo sh items fill Hok) as [c [Hfi [Hc [Hs [Hf Hden]]]]].
    unfold dok_getitem. rewrite Hna, Hfi. cbn [bind].
    pose proof (coo_getitem_correct V kf c ix Hc ltac:(rewrite Hs; exact Hsh) Hz ltac:(rewrite Hs; exact Hix)) as H.
    rewrite Hs in H. destruct (np_index sh ix) as [[sh' g]|e].
    - destruct (getitem kf c ix) as [[v|y]|e]; cbn [bind].
      + destruct H as [H1 H2]. split; [exact H1|]. rewrite H2. apply Hden.
      + destruct H as [H1 [H2 [H3 H4]]]. rewrite (dok_items_canonical V add y H3).
        split; [exact H1|]. split; [rewrite H2; exact Hf|].
        pose proof H3 as [Hyr [Hys Hyl]].
        split; [apply (entries_NoDup V y H3)|]. split.
        * unfold entries. rewrite map_fst_combine by lia. rewrite <- H1. exact Hyr.
        * intros j Hj. rewrite (dok_as_coo_entries V y H3). rewrite (H4 j Hj). apply Hden.
      + exact H.
    - destruct H as [H1 H2]. rewrite H1. cbn [bind]. auto.
  Qed.
End DokP.

(* ================================================================ _fancy_key + _fancy_getitem *)
Section Fancy.
  Variable V : Type.
  Variable veqb : V -> V -> bool.
  Variable add : V -> V -> V.

  (* one index sequence per axis, every entry within [-extent, extent) *)
  Fixpoint seqs_in_bounds (sh : shape) (ls : list (list Z)) : Prop :=
    match sh, ls with
    | [], [] => True
    | d :: sh', l :: ls' => (forall v, In v l -> - d <= v < d) /\ seqs_in_bounds sh' ls'
    | _, _ => False
    end.

  Fixpoint wrap_all (sh : shape) (ls : list (list Z)) : list (list Z) :=
    match sh, ls with
    | d :: sh', l :: ls' => map (wrap d) l :: wrap_all sh' ls'
    | _, _ => []
    end.

  Definition fancy_ok (sh : shape) (ls : list (list Z)) (n : nat) : Prop :=
    ls <> [] /\ seqs_in_bounds sh ls /\ forall l, In l ls -> length l = n.

  Lemma seqs_length sh : forall ls, seqs_in_bounds sh ls -> length ls = length sh.
  Proof. induction sh as [|d sh IH]; intros [|l ls] H; simpl in *; try tauto. f_equal. apply IH. tauto. Qed.

  Lemma fancy_key_map ls : ls <> [] -> fancy_key (map IArr ls) = true.
  Proof.
    intros H. destruct ls as [|l r]; [congruence|]. cbn [map fancy_key]. apply forallb_forall.
    intros e He. change (IArr l :: map IArr r) with (map IArr (l :: r)) in He. apply in_map_iff in He. destruct He as [x [<- _]]. reflexivity.
  Qed.

  Lemma norm_all_arrays sh : forall ls, length ls = length sh -> norm_all (map IArr ls) sh = map NArr (wrap_all sh ls).
  Proof.
    induction sh as [|d sh IH]; intros [|l ls] H; simpl in H; try discriminate; [reflexivity|].
    cbn [map norm_all nentry_spec wrap_all]. rewrite IH by lia. reflexivity.
  Qed.

  Lemma narr_lists_map W : narr_lists (map NArr W) = W.
  Proof. induction W as [|l r IH]; [reflexivity|]. cbn [map narr_lists flat_map app] in *. unfold narr_lists in IH. rewrite IH. reflexivity. Qed.

  Lemma to_r_map W : map to_r (map NArr W) = map RAdv W.
  Proof. rewrite map_map. reflexivity. Qed.

  Lemma wrap_all_spec sh : forall ls, seqs_in_bounds sh ls ->
    length (wrap_all sh ls) = length ls /\ (forall n, (forall l, In l ls -> length l = n) -> forall l, In l (wrap_all sh ls) -> length l = n).
  Proof.
    induction sh as [|d sh IH]; intros [|l ls] H; simpl in H; try contradiction; [split; [reflexivity|intros n _ l0 []]|].
    destruct H as [_ H]. destruct (IH ls H) as [H1 H2]. cbn [wrap_all length]. split; [lia|].
    intros n Hn l0 [<-|Hl0]; [rewrite map_length; apply Hn; left; reflexivity|].
    apply (H2 n); [intros l' Hl'; apply Hn; right; exact Hl'|exact Hl0].
  Qed.

  Lemma dict_get_In (items : list (idx * V)) k v :
    NoDup (map fst items) -> (dict_get V items k = Some v <-> In (k, v) items).
  Proof.
    induction items as [|[k' w] r IH]; intros Hnd; simpl; [split; [discriminate|tauto]|].
    inversion Hnd as [|? ? Hk Hnd']; subst. destruct (idx_eqb k' k) eqn:E.
    - apply idx_eqb_eq in E. subst k'. split.
      + intros H. inversion H. left. reflexivity.
      + intros [H|H]; [inversion H; reflexivity|]. exfalso. apply Hk. apply in_map_iff. exists (k, v). auto.
    - rewrite (IH Hnd'). split.
      + intros H. right. exact H.
      + intros [H|H]; [|exact H]. inversion H. subst. rewrite idx_eqb_refl in E. discriminate.
  Qed.

  Lemma option_ext (a b : option V) : (forall v, a = Some v <-> b = Some v) -> a = b.
  Proof.
    intros H. destruct a as [x|], b as [y|]; try reflexivity.
    - apply H. reflexivity.
    - pose proof (proj1 (H x) eq_refl). discriminate.
    - pose proof (proj2 (H y) eq_refl). discriminate.
  Qed.

  Lemma out_shape_later ls : out_shape_aux true (map RAdv ls) = [].
  Proof. induction ls as [|l r IH]; [reflexivity|]. exact IH. Qed.

  Lemma src_later q ls j : src_aux (Some q) (map RAdv ls) j = map (fun l => zat l q) ls.
  Proof. induction ls as [|l r IH]; [reflexivity|]. cbn [map src_aux]. rewrite IH. reflexivity. Qed.

  Lemma countb_arrays ls : countb is_ell (map IArr ls) = 0 /\ countb consumes (map IArr ls) = Z.of_nat (length ls).
  Proof.
    induction ls as [|l r [IH1 IH2]]; [split; reflexivity|]. cbn [map]. rewrite !countb_cons, IH1, IH2. cbn. split; [reflexivity|].
    rewrite Zpos_P_of_succ_nat. lia.
  Qed.

  Lemma fancy_keys (items : list (idx * V)) ls (L : list nat) :
    map fst (flat_map (fun i => match dict_get V items (zip_key ls i) with
                                 | Some v => [([Z.of_nat i], v)] | None => [] end) L)
    = map (fun i => [Z.of_nat i])
          (filter (fun i => match dict_get V items (zip_key ls i) with Some _ => true | None => false end) L).
  Proof.
    induction L as [|i l IH]; [reflexivity|]. cbn [flat_map filter]. rewrite map_app, IH.
    destruct (dict_get V items (zip_key ls i)); reflexivity.
  Qed.

  Lemma bool_ok_arrays : forall ls sh, bool_ok (map IArr ls) sh = true.
  Proof. induction ls as [|l r IH]; intros sh; [reflexivity|]. destruct sh as [|d sh']; [reflexivity|]. cbn [map bool_ok]. apply IH. Qed.

  Lemma resolve_arrays_ok : forall sh ls, seqs_in_bounds sh ls -> exists rs, resolve sh (map IArr ls) = Ok rs.
  Proof.
    induction sh as [|d sh IH]; intros [|l ls] Hin; simpl in Hin; try contradiction; [eexists; reflexivity|].
    destruct Hin as [Hb Hin]. destruct (IH ls Hin) as [rs Hrs]. cbn [map resolve resolve1].
    assert (Hb' : forallb (in_bounds d) l = true).
    { apply forallb_forall. intros v Hv. specialize (Hb v Hv). unfold in_bounds. lia. }
    rewrite Hb'. cbn [bind]. rewrite Hrs. cbn [bind]. eexists. reflexivity.
  Qed.

  (* _fancy_getitem on (already wrapped) sequences W of one length n *)
  Lemma fancy_core sh (items : list (idx * V)) fill (W : list (list Z)) (n : nat) :
    NoDup (map fst items) -> W <> [] -> (forall l, In l W -> length l = n) ->
    exists it',
      dok_fancy V items fill W = Ok (DArr [Z.of_nat n] it' fill)
      /\ out_shape (map RAdv W) = [Z.of_nat n]
      /\ NoDup (map fst it') /\ Forall (in_range [Z.of_nat n]) (map fst it')
      /\ forall j, in_range [Z.of_nat n] j ->
           den (dok_as_coo [Z.of_nat n] it' fill) j = den (dok_as_coo sh items fill) (src_of (map RAdv W) j).
  Proof.
    intros Hnd Hne Hlen. destruct W as [|l0 lr] eqn:EW; [congruence|]. rewrite <- EW in *.
    assert (Hn0 : length l0 = n) by (apply Hlen; rewrite EW; left; reflexivity).
    unfold dok_fancy. rewrite EW. rewrite <- EW.
    assert (Hall : forallb (fun l => (length l =? length l0)%nat) W = true).
    { apply forallb_forall. intros l Hl'. rewrite (Hlen l Hl'), Hn0. apply Nat.eqb_refl. }
    rewrite Hall. cbn [negb]. rewrite Hn0. eexists. split; [reflexivity|].
    split. { rewrite EW. cbn [map]. unfold out_shape. cbn [out_shape_aux]. rewrite out_shape_later, Hn0. reflexivity. }
    match goal with |- NoDup (map fst ?t) /\ _ => set (it' := t) end.
    assert (Hit_in : forall k v, In (k, v) it' <-> exists i, (i < n)%nat /\ k = [Z.of_nat i] /\ dict_get V items (zip_key W i) = Some v).
    { intros k v. unfold it'. rewrite in_flat_map. split.
      - intros [i [Hi H]]. apply in_seq0 in Hi. destruct (dict_get V items (zip_key W i)) as [w|] eqn:E; [|destruct H].
        destruct H as [H|[]]. inversion H; subst. exists i. auto.
      - intros [i [Hi [-> E]]]. exists i. split; [apply in_seq0; exact Hi|]. rewrite E. left. reflexivity. }
    assert (Hkeys : map fst it' = map (fun i => [Z.of_nat i]) (filter (fun i => match dict_get V items (zip_key W i) with Some _ => true | None => false end) (seq 0 n))).
    { unfold it'. apply fancy_keys. }
    assert (Hnd' : NoDup (map fst it')).
    { rewrite Hkeys. apply FinFun.Injective_map_NoDup; [|apply NoDup_filter, seq_NoDup]. intros a b H. inversion H. lia. }
    split; [exact Hnd'|].
    split.
    { apply Forall_forall. intros k Hk. apply in_map_iff in Hk. destruct Hk as [[k' v] [<- Hk]]. apply Hit_in in Hk.
      destruct Hk as [i [Hi [-> _]]]. simpl. lia. }
    intros j Hj. destruct j as [|q [|? ?]]; simpl in Hj; try tauto. destruct Hj as [Hq _].
    assert (Hsrc : src_of (map RAdv W) [q] = zip_key W (Z.to_nat q)).
    { rewrite EW. unfold src_of. cbn [map src_aux hd tl]. rewrite src_later. unfold zip_key. cbn [map]. reflexivity. }
    rewrite Hsrc. unfold den. cbn [c_fill dok_as_coo].
    unfold entries, dok_as_coo. cbn [c_coords c_data]. rewrite !combine_fst_snd.
    assert (Elook : lookup it' [q] = lookup items (zip_key W (Z.to_nat q))); [|rewrite Elook; reflexivity].
    apply option_ext. intros v.
    rewrite (lookup_In V it' [q] v Hnd'), (lookup_In V items _ v Hnd), Hit_in, <- (dict_get_In items _ v Hnd). split.
    - intros [i [Hi [E H]]]. inversion E. subst q. rewrite Nat2Z.id. exact H.
    - intros H. exists (Z.to_nat q). split; [lia|]. split; [rewrite Z2Nat.id by lia; reflexivity|exact H].
  Qed.

  Theorem dok_fancy_getitem_den_proof (kf : nat -> nat) sh items fill (ls : list (list Z)) (n : nat) :
    dok_ok V sh items -> shape_okb sh = true -> fancy_ok sh ls n ->
    exists g it',
      np_index sh (map IArr ls) = Ok ([Z.of_nat n], g)
      /\ dok_getitem V veqb add kf sh items fill (map IArr ls) = Ok (DArr [Z.of_nat n] it' fill)
      /\ NoDup (map fst it') /\ Forall (in_range [Z.of_nat n]) (map fst it')
      /\ forall j, in_range [Z.of_nat n] j ->
           den (dok_as_coo [Z.of_nat n] it' fill) j = den (dok_as_coo sh items fill) (g j).
  Proof.
    intros [Hnd Hr] Hshb [Hne [Hin Hlen]].
    pose proof (seqs_length sh ls Hin) as Hl.
    set (ix := map IArr ls). set (W := wrap_all sh ls).
    destruct (wrap_all_spec sh ls Hin) as [HWl HWn]. fold W in HWl, HWn.
    assert (HWne : W <> []) by (intros E; rewrite E in HWl; destruct ls; [congruence|discriminate]).
    (* normalisation and NumPy's resolution of the key *)
    assert (Hz : no_zero_step ix = true).
    { apply forallb_forall. intros e He. unfold ix in He. apply in_map_iff in He. destruct He as [x [<- _]]. reflexivity. }
    destruct (countb_arrays ls) as [Hce Hcc].
    assert (Eex : expand (Z.of_nat (length sh)) ix = Ok ix).
    { unfold expand, ix. rewrite Hce, Hcc, Hl, Z.sub_diag. replace (1 <? 0) with false by reflexivity. replace (0 <? 0) with false by reflexivity.
      cbn [Z.to_nat repeat]. rewrite app_nil_r. reflexivity. }
    assert (Hd : d29_clause sh ix = true) by (unfold d29_clause; rewrite Eex; apply bool_ok_arrays).
    destruct (normalize_link sh ix Hshb Hz Hd) as [[ex [E [Hf [Hao [Hn Hres]]]]]|[Hn Hres]].
    2: { exfalso. unfold resolve_all in Hres. rewrite Eex in Hres. cbn [bind] in Hres.
         destruct (resolve_arrays_ok sh ls Hin) as [rs Hrs]. unfold ix in Hres. rewrite Hrs in Hres. discriminate. }
    rewrite Eex in E. inversion E; subst ex. clear E.
    unfold ix in Hn, Hres. rewrite (norm_all_arrays sh ls Hl) in Hn, Hres. fold W ix in Hn, Hres. rewrite to_r_map in Hres.
    destruct (fancy_core sh items fill W n Hnd HWne (HWn n Hlen)) as [it' [Hf' [Hos [H1 [H2 H3]]]]].
    exists (src_of (map RAdv W)), it'. split.
    { rewrite np_index_eq, Hres. cbn [bind]. rewrite (broadcast_same (map RAdv W) n).
      - cbn [bind]. rewrite Hos. reflexivity.
      - intros l Hl'. apply in_map_iff in Hl'. destruct Hl' as [l' [E Hl']]. inversion E; subst. apply (HWn n Hlen). exact Hl'. }
    split.
    { unfold dok_getitem. fold ix. unfold ix at 1. rewrite (fancy_key_map ls Hne). unfold ix. rewrite map_length, Hl, Nat.eqb_refl. cbn [negb].
      fold ix. rewrite Hn. cbn [bind]. rewrite narr_lists_map. exact Hf'. }
    split; [exact H1|]. split; [exact H2|exact H3].
  Qed.
End Fancy.

(* ---- what is still refused *)
(* a non-empty key made of index sequences, but not one per axis, raises NotImplementedError
   ("Index sequences for all N array dimensions needed!") where NumPy (and COO) index the leading axes *)
Theorem dok_partial_array_key_refuted_proof :
  exists sh (items : list (idx * Z)) fill ix,
    dok_ok Z sh items /\ shape_okb sh = true /\ one_array ix = true /\ d29_clause sh ix = true
    /\ (exists g, np_index sh ix = Ok ([1; 3], g))
    /\ dok_getitem Z Z.eqb Z.add (fun _ => 0%nat) sh items fill ix = Raise NotImplementedError.
Proof.
  exists [2; 3], [([1; 2], 5)], 0, [IBArr [false; true]]. split.
  - split; [repeat constructor; simpl; tauto|]. repeat constructor; simpl; lia.
  - split; [reflexivity|]. split; [reflexivity|]. split; [reflexivity|]. split; [eexists; vm_compute; reflexivity|reflexivity].
Qed.

Example dok_getitem_nonvacuous :
  let sh := [2; 3] in let items := [([0; 1], 10); ([1; 2], 30)] in
  dok_ok Z sh items /\ coo_ix_ok sh [IInt 1; ISlice None None (Some (-1))]
  /\ fancy_key [IInt 1; ISlice None None (Some (-1))] = false
  /\ dok_getitem Z Z.eqb Z.add (fun _ => 1%nat) sh items 7 [IInt 1; ISlice None None (Some (-1))] = Ok (DArr [3] [([0], 30)] 7)
  /\ fancy_ok sh [[1; -2; -1]; [2; 1; -1]] 3
  /\ dok_getitem Z Z.eqb Z.add (fun _ => 1%nat) sh items 7 (map IArr [[1; -2; -1]; [2; 1; -1]])
     = Ok (DArr [3] [([0], 30); ([1], 10); ([2], 30)] 7)
  /\ dok_ok Z [] [([], 4)] /\ dok_getitem Z Z.eqb Z.add (fun _ => 1%nat) [] [([], 4)] 3 [] = Ok (DScalar 4)
  /\ dok_getitem Z Z.eqb Z.add (fun _ => 1%nat) sh items 7 [] = Ok (DArr sh items 7).
Proof.
  cbv zeta. split.
  - split; [repeat constructor; simpl; intuition discriminate|]. repeat constructor; simpl; lia.
  - split; [left; reflexivity|]. split; [reflexivity|]. split; [reflexivity|]. split.
    + split; [discriminate|]. split.
      * simpl. repeat split; intros; simpl in *; lia.
      * intros l [<-|[<-|[]]]; reflexivity.
    + split; [reflexivity|]. split; [split; repeat constructor; simpl; tauto|]. split; reflexivity.
Qed.
