(* Proofs/ElemwiseP.v — lemmas about Model/Elemwise.v (element-wise operations, broadcasting). *)
From Coq Require Import ZArith List Bool Lia Arith Sorting.Sorted Sorting.Permutation.
From Verif Require Import Py PyExt Shape COO COOP NpElemwise G_umath S_umath Elemwise.
Import ListNotations.
Open Scope Z_scope.

(* ================================================================== A. the generated per-axis rules *)

Lemma axis_ok_spec isr l1 l2 :
  axis_ok isr l1 l2 = (l1 =? l2) || (l1 =? 1) || ((l2 =? 1) && negb isr).
Proof.
  unfold axis_ok, g_bcast_axis_ok. cbn.
  destruct (l1 =? l2); cbn; [reflexivity|].
  destruct (l1 =? 1); cbn; [reflexivity|].
  destruct (l2 =? 1); cbn; [|reflexivity].
  destruct isr; reflexivity.
Qed.

Lemma axis_result_spec l1 l2 : axis_result l1 l2 = if l1 =? 1 then l2 else l1.
Proof.
  unfold axis_result, g_bcast_axis_result. cbn.
  destruct (l1 =? 1); cbn; reflexivity.
Qed.

Lemma result_fillvalue_spec : result_fillvalue = 1.
Proof. reflexivity. Qed.

Lemma param_fillvalue_spec : param_fillvalue = None.
Proof. reflexivity. Qed.

Lemma param_of_spec (l1 l2 : option Z) :
  param_of l1 l2 = match l1, l2 with
                   | None, _ => None
                   | Some a, Some b => Some (a =? b)
                   | Some _, None => Some false
                   end.
Proof.
  unfold param_of, g_bcast_param. destruct l1 as [a|]; destruct l2 as [b|]; cbn; try reflexivity;
    try (destruct (a =? b); reflexivity).
Qed.

Lemma map_unint_VInt l : map unint (map VInt l) = l.
Proof. induction l; simpl; congruence. Qed.

Definition bc_ok (isr : bool) (s1 s2 : shape) : bool :=
  forallb (fun p => axis_ok isr (fst p) (snd p)) (combine (rev s1) (rev s2)).
Definition bc_res (s1 s2 : shape) : shape :=
  rev (map (fun p => axis_result (fst p) (snd p)) (zip_longest 1 (rev s1) (rev s2))).

Lemma py_len_tuple (l : list Z) : py_len (VTuple (map VInt l)) = Ok (VInt (Z.of_nat (length l))).
Proof. simpl. rewrite map_length. reflexivity. Qed.

(* the generated skeleton: ValueError iff (is_result and shape1 has more axes than shape2) or some aligned pair
   of extents is inadmissible *)
Lemma broadcast_shape2_unfold_gen isr s1 s2 :
  broadcast_shape2 isr s1 s2 =
  if (isr && (Z.of_nat (length s1) >? Z.of_nat (length s2))) || negb (bc_ok isr s1 s2)
  then Raise ValueError else Ok (bc_res s1 s2).
Proof.
  unfold broadcast_shape2, g_get_broadcast_shape, bc_ok, bc_res. rewrite result_fillvalue_spec.
  rewrite !py_len_tuple. destruct isr; cbn.
  - destruct (Z.of_nat (length s1) >? Z.of_nat (length s2)); cbn; [reflexivity|].
    destruct (forallb _ _); cbn; [|reflexivity]. rewrite map_unint_VInt. reflexivity.
  - destruct (forallb _ _); cbn; [|reflexivity]. rewrite map_unint_VInt. reflexivity.
Qed.

Lemma broadcast_shape2_unfold s1 s2 :
  broadcast_shape2 false s1 s2 = if bc_ok false s1 s2 then Ok (bc_res s1 s2) else Raise ValueError.
Proof. rewrite broadcast_shape2_unfold_gen. simpl. destruct (bc_ok false s1 s2); reflexivity. Qed.

(* ================================================================== B. broadcast_shape_spec *)

Lemma nth_zip_longest_map {A B} (f : A * A -> B) (da : A) (db : B) (l1 l2 : list A) k :
  f (da, da) = db ->
  nth k (map f (zip_longest da l1 l2)) db = f (nth k l1 da, nth k l2 da).
Proof.
  intros Hd. revert l2 k. induction l1 as [|x r1 IH]; intros l2 k; simpl.
  - revert k. induction l2 as [|y r2 IH2]; intros k; simpl.
    + destruct k; symmetry; exact Hd.
    + destruct k; [reflexivity|]. rewrite IH2. destruct k; reflexivity.
  - destruct l2 as [|y r2]; simpl.
    + destruct k; [reflexivity|]. rewrite IH. destruct k; reflexivity.
    + destruct k; [reflexivity|]. apply IH.
Qed.

Lemma zip_longest_length {A} (da : A) l1 l2 :
  length (zip_longest da l1 l2) = Nat.max (length l1) (length l2).
Proof.
  revert l2. induction l1 as [|x r1 IH]; intros l2; simpl.
  - rewrite map_length. reflexivity.
  - destruct l2 as [|y r2]; simpl; rewrite IH; simpl; lia.
Qed.

Lemma bc_res_length s1 s2 : length (bc_res s1 s2) = Nat.max (length s1) (length s2).
Proof. unfold bc_res. rewrite rev_length, map_length, zip_longest_length, !rev_length. reflexivity. Qed.

Lemma bc_res_ext s1 s2 k :
  ext_from_end (bc_res s1 s2) k = if ext_from_end s1 k =? 1 then ext_from_end s2 k else ext_from_end s1 k.
Proof.
  unfold ext_from_end, bc_res. rewrite rev_involutive.
  rewrite (nth_zip_longest_map (fun p => axis_result (fst p) (snd p)) 1 1); [|reflexivity].
  simpl. apply axis_result_spec.
Qed.

Lemma forallb_combine_nth {A} (p : A * A -> bool) (d : A) l1 l2 :
  forallb p (combine l1 l2) = true <->
  forall k, (k < length l1)%nat -> (k < length l2)%nat -> p (nth k l1 d, nth k l2 d) = true.
Proof.
  revert l2. induction l1 as [|x r1 IH]; intros l2; simpl.
  - split; [intros _ k Hk; lia|reflexivity].
  - destruct l2 as [|y r2]; simpl.
    + split; [intros _ k _ Hk; lia|reflexivity].
    + rewrite andb_true_iff, IH. split.
      * intros [H0 H] [|k] H1 H2; [exact H0|]. apply H; lia.
      * intros H. split; [apply (H O); lia|]. intros k H1 H2. apply (H (S k)); lia.
Qed.

Lemma bc_ok_false_spec s1 s2 :
  bc_ok false s1 s2 = true <->
  forall k, (k < length s1)%nat -> (k < length s2)%nat ->
            ext_from_end s1 k = ext_from_end s2 k \/ ext_from_end s1 k = 1 \/ ext_from_end s2 k = 1.
Proof.
  unfold bc_ok. rewrite (forallb_combine_nth _ 1), !rev_length.
  split; intros H k H1 H2; specialize (H k H1 H2); simpl in *; rewrite axis_ok_spec in *;
    unfold ext_from_end in *.
  - rewrite !orb_true_iff, andb_true_iff, !Z.eqb_eq in H. tauto.
  - rewrite !orb_true_iff, andb_true_iff, !Z.eqb_eq. simpl. tauto.
Qed.

Lemma ext_beyond s k : (length s <= k)%nat -> ext_from_end s k = 1.
Proof. intros H. unfold ext_from_end. apply nth_overflow. rewrite rev_length. exact H. Qed.

(* pairwise compatibility: what NumPy demands of the operand shapes *)
Definition compat (shapes : list shape) : Prop :=
  forall s1 s2 k, In s1 shapes -> In s2 shapes ->
    ext_from_end s1 k = 1 \/ ext_from_end s2 k = 1 \/ ext_from_end s1 k = ext_from_end s2 k.

Lemma rel_compat shapes r : np_broadcast_rel shapes r -> compat shapes.
Proof.
  intros [_ [H2 _]] s1 s2 k I1 I2.
  destruct (H2 s1 k I1) as [?|E1]; [tauto|]. destruct (H2 s2 k I2) as [?|E2]; [tauto|].
  right; right; congruence.
Qed.

Lemma list_eq_ext_from_end (r r' : shape) :
  length r = length r' -> (forall k, ext_from_end r k = ext_from_end r' k) -> r = r'.
Proof.
  intros Hl He. rewrite <- (rev_involutive r), <- (rev_involutive r'). f_equal.
  apply (nth_ext _ _ 1 1); [rewrite !rev_length; exact Hl|]. intros k _. apply He.
Qed.

Lemma rel_unique shapes r r' : np_broadcast_rel shapes r -> np_broadcast_rel shapes r' -> r = r'.
Proof.
  intros [L1 [A1 B1]] [L2 [A2 B2]]. apply list_eq_ext_from_end; [congruence|].
  intros k. destruct (Nat.lt_ge_cases k (length r)) as [Hk|Hk].
  - destruct (B1 k Hk) as [s [Is [_ Es]]]. assert (Hk' : (k < length r')%nat) by lia.
    destruct (B2 k Hk') as [s' [Is' [_ Es']]].
    destruct (A2 s k Is) as [E|E]; [|congruence].
    destruct (A1 s' k Is') as [E'|E']; [|congruence].
    congruence.
  - rewrite !ext_beyond by lia. reflexivity.
Qed.

Lemma max_ndim_app l s : max_ndim (l ++ [s]) = Nat.max (max_ndim l) (length s).
Proof. unfold max_ndim. induction l as [|a l IH]; simpl; [lia|]. rewrite IH. lia. Qed.

Lemma max_ndim_ge l s : In s l -> (length s <= max_ndim l)%nat.
Proof. induction l as [|a l IH]; simpl; [tauto|]. intros [->|H]; [lia|]. specialize (IH H). lia. Qed.

(* one step of the fold *)
Lemma rel_step l acc s :
  np_broadcast_rel l acc -> bc_ok false s acc = true -> np_broadcast_rel (l ++ [s]) (bc_res s acc).
Proof.
  intros [L [A B]] Hok. rewrite bc_ok_false_spec in Hok. repeat split.
  - rewrite bc_res_length, max_ndim_app. lia.
  - intros s' k Hin. rewrite bc_res_ext. apply in_app_or in Hin. destruct Hin as [Hin|[<-|[]]].
    + destruct (Z.eqb_spec (ext_from_end s k) 1) as [E|E]; [apply A; exact Hin|].
      destruct (A s' k Hin) as [?|E']; [tauto|].
      destruct (Nat.lt_ge_cases k (length s)) as [Hk|Hk]; [|rewrite ext_beyond in E by lia; tauto].
      destruct (Nat.lt_ge_cases k (length acc)) as [Hk'|Hk'].
      * destruct (Hok k Hk Hk') as [?|[?|?]]; [right; congruence|tauto|left; congruence].
      * left. rewrite E'. apply ext_beyond. lia.
    + destruct (Z.eqb_spec (ext_from_end s k) 1); tauto.
  - intros k Hk. rewrite bc_res_length in Hk. rewrite bc_res_ext.
    destruct (Z.eqb_spec (ext_from_end s k) 1) as [E|E].
    + destruct (Nat.lt_ge_cases k (length acc)) as [Hk'|Hk'].
      * destruct (B k Hk') as [s' [Is' [Hl' Es']]]. exists s'. split; [apply in_or_app; tauto|]. tauto.
      * exists s. split; [apply in_or_app; right; left; reflexivity|]. split; [lia|].
        rewrite E. symmetry. apply ext_beyond. lia.
    + exists s. split; [apply in_or_app; right; left; reflexivity|]. split; [|reflexivity].
      destruct (Nat.lt_ge_cases k (length s)); [assumption|]. rewrite ext_beyond in E by lia. tauto.
Qed.

Lemma nary_snoc l s :
  nary_broadcast_shape (l ++ [s]) = (r <- nary_broadcast_shape l ;; broadcast_shape2 false s r).
Proof. unfold nary_broadcast_shape. rewrite fold_left_app. reflexivity. Qed.

Lemma compat_app_l l s : compat (l ++ [s]) -> compat l.
Proof. intros H s1 s2 k I1 I2. apply H; apply in_or_app; tauto. Qed.

(* the fold succeeds exactly on compatible shapes, and then yields the NumPy broadcast *)
Lemma nary_sound l :
  match nary_broadcast_shape l with
  | Ok r => np_broadcast_rel l r
  | Raise e => e = ValueError /\ ~ compat l
  end.
Proof.
  induction l as [|s l IH] using rev_ind.
  - simpl. repeat split; simpl; try tauto. intros k Hk. simpl in Hk. lia.
  - rewrite nary_snoc. destruct (nary_broadcast_shape l) as [acc|e]; simpl.
    + rewrite broadcast_shape2_unfold. destruct (bc_ok false s acc) eqn:Hok.
      * apply rel_step; assumption.
      * split; [reflexivity|]. intros Hc.
        assert (bc_ok false s acc = true); [|congruence].
        apply bc_ok_false_spec. intros k Hk Hk'. destruct IH as [L [A B]].
        destruct (B k Hk') as [s' [Is' [_ Es']]]. rewrite <- Es'.
        destruct (Hc s s' k) as [?|[?|?]]; try tauto; apply in_or_app; simpl; tauto.
    + destruct IH as [-> Hn]. split; [reflexivity|]. intros Hc. apply Hn. eapply compat_app_l; eauto.
Qed.

Theorem broadcast_shape_spec_proof (shapes : list shape) :
  (forall r, nary_broadcast_shape shapes = Ok r <-> np_broadcast_rel shapes r) /\
  (nary_broadcast_shape shapes = Raise ValueError <-> ~ exists r, np_broadcast_rel shapes r) /\
  (forall e, nary_broadcast_shape shapes = Raise e -> e = ValueError).
Proof.
  pose proof (nary_sound shapes) as H. destruct (nary_broadcast_shape shapes) as [r0|e] eqn:E.
  - split; [|split].
    + intros r. split.
      * intros H1. inversion H1; subst. exact H.
      * intros H1. f_equal. eapply rel_unique; eauto.
    + split; [discriminate|]. intros Hn. exfalso. apply Hn. exists r0. exact H.
    + discriminate.
  - destruct H as [-> Hn]. split; [|split].
    + intros r. split; [discriminate|]. intros Hr. exfalso. apply Hn. eapply rel_compat; eauto.
    + split; [|reflexivity]. intros _ [r Hr]. apply Hn. eapply rel_compat; eauto.
    + intros e H1. inversion H1; reflexivity.
Qed.

(* the binary rule, stated directly (is_result = false): NumPy's two-operand broadcast *)
Theorem broadcast_shape2_spec_proof (s1 s2 : shape) :
  (forall r, broadcast_shape2 false s1 s2 = Ok r <-> np_broadcast_rel [s2; s1] r) /\
  (forall e, broadcast_shape2 false s1 s2 = Raise e -> e = ValueError /\ ~ exists r, np_broadcast_rel [s2; s1] r).
Proof.
  assert (E : nary_broadcast_shape [s2; s1] = (r <- broadcast_shape2 false s2 [] ;; broadcast_shape2 false s1 r))
    by reflexivity.
  assert (E0 : broadcast_shape2 false s2 [] = Ok s2).
  { rewrite broadcast_shape2_unfold. unfold bc_ok, bc_res. simpl.
    replace (combine (rev s2) []) with (@nil (Z * Z)) by (destruct (rev s2); reflexivity). simpl. f_equal.
    rewrite <- (rev_involutive s2) at 2. f_equal.
    induction (rev s2) as [|x r IH]; simpl; [reflexivity|]. rewrite IH, axis_result_spec.
    destruct (Z.eqb_spec x 1); congruence. }
  rewrite E0 in E. simpl in E. destruct (broadcast_shape_spec_proof [s2; s1]) as [H1 [H2 H3]].
  rewrite E in H1, H2, H3. split; [exact H1|]. intros e He. pose proof (H3 e He). subst. split; [reflexivity|].
  apply H2. exact He.
Qed.

Example broadcast_shape_nonvacuous :
  nary_broadcast_shape [[3; 1]; [2; 1; 4]; []; [1]] = Ok [2; 3; 4] /\ np_broadcast_rel [[3; 1]; [2; 1; 4]; []; [1]] [2; 3; 4]
  /\ nary_broadcast_shape [[3; 2]; [2; 1; 4]] = Raise ValueError.
Proof.
  split; [reflexivity|]. split; [|reflexivity].
  apply (proj1 (broadcast_shape_spec_proof _)). reflexivity.
Qed.

(* ================================================================== C. match_arrays_spec *)

(* all index pairs (i, j) with a[i] = b[j], in lexicographic order *)
Definition match_spec (a b : list Z) : list (nat * nat) :=
  filter (fun ij => nthZ a (fst ij) =? nthZ b (snd ij)) (list_prod (seq 0 (length a)) (seq 0 (length b))).

Definition nondecr (l : list Z) : Prop := forall i j, (i <= j < length l)%nat -> nthZ l i <= nthZ l j.

Lemma SS_nondecr l : StronglySorted Z.le l -> nondecr l.
Proof.
  induction 1 as [|x l Hs IH Hall]; intros i j Hij; simpl in Hij; [lia|].
  destruct i as [|i]; destruct j as [|j]; unfold nthZ; simpl; try lia.
  - rewrite Forall_forall in Hall. apply Hall. apply nth_In. lia.
  - apply IH. lia.
Qed.

Definition row_matches (b : list Z) (j : Z) (ia : nat) (from n : nat) : list (nat * nat) :=
  map (pair ia) (filter (fun x => nthZ b x =? j) (seq from n)).

Lemma classic_first_match b j lo hi :
  (forall x, (lo <= x < hi)%nat -> nthZ b x <> j) \/
  (exists x1, (lo <= x1 < hi)%nat /\ nthZ b x1 = j /\ forall x, (lo <= x < x1)%nat -> nthZ b x <> j).
Proof.
  induction hi as [|hi IH]; [left; intros; lia|].
  destruct IH as [Hn|[x1 [H1 [H2 H3]]]].
  - destruct (Z.eq_dec (nthZ b hi) j) as [E|E].
    + destruct (le_lt_dec lo hi) as [Hl|Hl].
      * right. exists hi. split; [lia|]. split; [exact E|]. intros x Hx. apply Hn. lia.
      * left. intros x Hx. lia.
    + left. intros x Hx. destruct (Nat.eq_dec x hi) as [->|]; [exact E|]. apply Hn. lia.
  - right. exists x1. split; [lia|]. split; assumption.
Qed.

Lemma inner_spec b j ia : forall fuel ib mt ib' mt' l,
  (length b - ib < fuel)%nat ->
  match_inner fuel b j ia ib mt = (ib', mt', l) ->
  (ib <= ib')%nat /\ (ib' <= Nat.max ib (length b))%nat /\
  (forall x, (ib <= x < ib')%nat -> nthZ b x <= j) /\
  ((ib' < length b)%nat -> j < nthZ b ib') /\
  l = row_matches b j ia ib (ib' - ib) /\
  ((forall x, (ib <= x < ib')%nat -> nthZ b x <> j) -> mt' = mt) /\
  (forall x0, (ib <= x0 < ib')%nat -> nthZ b x0 = j -> (forall x, (ib <= x < x0)%nat -> nthZ b x <> j) ->
              mt' = if nthZ b mt <? j then x0 else mt).
Proof.
  induction fuel as [|fuel IH]; intros ib mt ib' mt' l Hf H; [lia|].
  simpl in H.
  destruct ((ib <? length b)%nat && (nthZ b ib <=? j)) eqn:Hc.
  - apply andb_true_iff in Hc. destruct Hc as [Hlt Hle]. apply Nat.ltb_lt in Hlt. apply Z.leb_le in Hle.
    destruct (Z.eqb_spec j (nthZ b ib)) as [Ej|Ej].
    + destruct (match_inner fuel b j ia (S ib) (if nthZ b mt <? nthZ b ib then ib else mt)) as [[ib1 mt1] l1] eqn:Hr.
      inversion H; subst ib' mt' l. clear H.
      apply IH in Hr; [|lia]. destruct Hr as [H1 [H2 [H3 [H4 [H5 [H6 H7]]]]]].
      repeat split.
      * lia.
      * lia.
      * intros x Hx. destruct (Nat.eq_dec x ib) as [->|]; [lia|]. apply H3. lia.
      * exact H4.
      * unfold row_matches in *. replace (ib1 - ib)%nat with (S (ib1 - S ib)) by lia. simpl.
        rewrite <- Ej, Z.eqb_refl. simpl. f_equal. exact H5.
      * intros Hno. exfalso. apply (Hno ib); [lia|congruence].
      * intros x0 Hx0 Ex0 Hfirst.
        assert (x0 = ib).
        { destruct (Nat.eq_dec x0 ib); [assumption|]. exfalso. apply (Hfirst ib); [lia|congruence]. }
        subst x0. rewrite <- Ej in *.
        (* the later matches never move mt again *)
        set (mt0 := if nthZ b mt <? j then ib else mt) in *.
        assert (Hmt0 : ~ nthZ b mt0 < j).
        { unfold mt0. destruct (Z.ltb_spec (nthZ b mt) j); lia. }
        destruct (classic_first_match b j (S ib) ib1) as [Hnone|[x1 [Hx1 [Ex1 Hf1]]]].
        -- apply H6. exact Hnone.
        -- rewrite (H7 x1 Hx1 Ex1 Hf1). destruct (Z.ltb_spec (nthZ b mt0) j); [lia|reflexivity].
    + apply IH in H; [|lia]. destruct H as [H1 [H2 [H3 [H4 [H5 [H6 H7]]]]]].
      repeat split.
      * lia.
      * lia.
      * intros x Hx. destruct (Nat.eq_dec x ib) as [->|]; [lia|]. apply H3. lia.
      * exact H4.
      * unfold row_matches in *. replace (ib' - ib)%nat with (S (ib' - S ib)) by lia. simpl.
        destruct (Z.eqb_spec (nthZ b ib) j); [congruence|]. exact H5.
      * intros Hno. apply H6. intros x Hx. apply Hno. lia.
      * intros x0 Hx0 Ex0 Hfirst. apply H7; [|assumption|].
        -- destruct (Nat.eq_dec x0 ib); [subst; congruence|lia].
        -- intros x Hx. apply Hfirst. lia.
  - inversion H; subst ib' mt' l. clear H. repeat split; try lia.
    + intros Hlt. apply andb_false_iff in Hc. destruct Hc as [Hc|Hc].
      * apply Nat.ltb_ge in Hc. lia.
      * apply Z.leb_gt in Hc. lia.
    + rewrite Nat.sub_diag. reflexivity.
Qed.

Record match_inv (b : list Z) (j : Z) (ib mt : nat) : Prop := {
  mi1 : (mt < length b)%nat;
  mi2 : (mt <= ib <= length b)%nat;
  mi3 : forall x, (x < ib)%nat -> nthZ b x <= j;
  mi4 : (exists x, (x < ib)%nat /\ nthZ b x = j) -> nthZ b mt = j;
  mi5 : forall x, (x < mt)%nat -> nthZ b x < nthZ b mt }.

Lemma filter_seq_none (f : nat -> bool) s n :
  (forall x, (s <= x < s + n)%nat -> f x = false) -> filter f (seq s n) = [].
Proof.
  revert s. induction n as [|n IH]; intros s H; simpl; [reflexivity|].
  rewrite (H s) by lia. apply IH. intros x Hx. apply H. lia.
Qed.

Lemma seq_split3 a b c : (a <= b <= c)%nat -> seq 0 c = seq 0 a ++ seq a (b - a) ++ seq b (c - b).
Proof.
  intros H. replace c with (a + ((b - a) + (c - b)))%nat at 1 by lia.
  rewrite seq_app, seq_app. simpl. replace (a + (b - a))%nat with b by lia. reflexivity.
Qed.

Lemma nondecr_tl x l : nondecr (x :: l) -> nondecr l.
Proof. intros H i j Hij. apply (H (S i) (S j)). simpl. lia. Qed.

Lemma match_outer_cons j a b ia ib mt :
  match_outer (j :: a) b ia ib mt =
  let '(ib', mt', l) := match_inner (S (length b)) b j ia (if j =? nthZ b mt then mt else ib) mt in
  l ++ match_outer a b (S ia) ib' mt'.
Proof. reflexivity. Qed.

Lemma outer_spec b : nondecr b -> (0 < length b)%nat -> forall a ia ib mt,
  nondecr a -> match a with [] => True | j :: _ => match_inv b j ib mt end ->
  match_outer a b ia ib mt =
  flat_map (fun p => row_matches b (snd p) (fst p) 0 (length b)) (combine (seq ia (length a)) a).
Proof.
  intros Hb Hnb. induction a as [|j a IH]; intros ia ib mt Ha Hinv; [reflexivity|].
  rewrite match_outer_cons. cbn [flat_map combine seq length fst snd].
  destruct Hinv as [I1 I2 I3 I4 I5].
  set (ib0 := if j =? nthZ b mt then mt else ib).
  assert (Hib0 : (mt <= ib0 <= length b)%nat) by (unfold ib0; destruct (j =? nthZ b mt); lia).
  assert (Hlow : forall x, (x < ib0)%nat -> nthZ b x < j).
  { intros x Hx. unfold ib0 in Hx. destruct (Z.eqb_spec j (nthZ b mt)) as [E|E].
    - rewrite E. apply I5. exact Hx.
    - specialize (I3 x Hx). assert (nthZ b x <> j); [|lia]. intros Ex. apply E. symmetry. apply I4. eauto. }
  destruct (match_inner (S (length b)) b j ia ib0 mt) as [[ib' mt'] l] eqn:Hin.
  apply inner_spec in Hin; [|lia]. destruct Hin as [H1 [H2 [H3 [H4 [H5 [H6 H7]]]]]].
  assert (Hib' : (ib' <= length b)%nat) by lia.
  assert (Hhigh : forall x, (ib' <= x < length b)%nat -> j < nthZ b x).
  { intros x Hx. assert (j < nthZ b ib') by (apply H4; lia).
    assert (nthZ b ib' <= nthZ b x) by (apply Hb; lia). lia. }
  f_equal.
  - rewrite H5. unfold row_matches. f_equal.
    rewrite (seq_split3 ib0 ib' (length b)) by lia. rewrite !filter_app.
    rewrite (filter_seq_none _ 0 ib0), (filter_seq_none _ ib' (length b - ib')); [rewrite app_nil_r; reflexivity| |].
    + intros x Hx. apply Z.eqb_neq. assert (j < nthZ b x) by (apply Hhigh; lia). lia.
    + intros x Hx. apply Z.eqb_neq. assert (nthZ b x < j) by (apply Hlow; lia). lia.
  - apply IH; [eapply nondecr_tl; eauto|].
    destruct a as [|j' a']; [exact I|].
    assert (Hjj : j <= j') by (apply (Ha 0%nat 1%nat); simpl; lia).
    (* first match of j in [ib0, ib') if any *)
    destruct (classic_first_match b j ib0 ib') as [Hnone|[x0 [Hx0 [Ex0 Hf0]]]].
    + rewrite (H6 Hnone). constructor; try lia.
      * intros x Hx. destruct (le_lt_dec ib0 x); [specialize (H3 x); lia|specialize (Hlow x); lia].
      * intros [x [Hx Ex]]. exfalso.
        destruct (le_lt_dec ib0 x) as [Hl|Hl].
        -- assert (nthZ b x <= j) by (apply H3; lia). apply (Hnone x); lia.
        -- specialize (Hlow x Hl). lia.
      * exact I5.
    + rewrite (H7 x0 Hx0 Ex0 Hf0).
      assert (Hmt_le : nthZ b mt <= j) by (rewrite <- Ex0; apply Hb; lia).
      destruct (Z.ltb_spec (nthZ b mt) j) as [Hlt|Hge].
      * constructor; try lia.
        -- intros x Hx. destruct (le_lt_dec ib0 x); [specialize (H3 x); lia|specialize (Hlow x); lia].
        -- intros [x [Hx Ex]]. rewrite Ex0.
           destruct (le_lt_dec ib0 x) as [Hl|Hl]; [specialize (H3 x); lia|specialize (Hlow x Hl); lia].
        -- intros x Hx. rewrite Ex0. destruct (le_lt_dec ib0 x) as [Hl|Hl].
           ++ assert (nthZ b x <= j) by (apply H3; lia). assert (nthZ b x <> j) by (apply Hf0; lia). lia.
           ++ apply Hlow. exact Hl.
      * constructor; try lia.
        -- intros x Hx. destruct (le_lt_dec ib0 x); [specialize (H3 x); lia|specialize (Hlow x); lia].
        -- intros [x [Hx Ex]].
           destruct (le_lt_dec ib0 x) as [Hl|Hl]; [specialize (H3 x); lia|specialize (Hlow x Hl); lia].
        -- exact I5.
Qed.

Lemma match_spec_flat a b :
  match_spec a b =
  flat_map (fun p => row_matches b (snd p) (fst p) 0 (length b)) (combine (seq 0 (length a)) a).
Proof.
  unfold match_spec.
  assert (G : forall (l : list Z) s,
             (forall k, (k < length l)%nat -> nthZ a (s + k) = nthZ l k) ->
             filter (fun ij => nthZ a (fst ij) =? nthZ b (snd ij)) (list_prod (seq s (length l)) (seq 0 (length b))) =
             flat_map (fun p => row_matches b (snd p) (fst p) 0 (length b)) (combine (seq s (length l)) l)).
  { induction l as [|x l IH]; intros s Hs; [reflexivity|]. simpl. rewrite filter_app. f_equal.
    - unfold row_matches. specialize (Hs 0%nat). rewrite Nat.add_0_r in Hs. unfold nthZ at 2 in Hs. simpl in Hs.
      rewrite <- Hs by (simpl; lia). clear. induction (seq 0 (length b)) as [|y r IHr]; simpl; [reflexivity|].
      rewrite (Z.eqb_sym (nthZ a s)). destruct (nthZ b y =? nthZ a s); simpl; congruence.
    - apply IH. intros k Hk. specialize (Hs (S k)). replace (S s + k)%nat with (s + S k)%nat by lia.
      rewrite Hs by (simpl; lia). reflexivity. }
  apply (G a 0%nat). intros k _. reflexivity.
Qed.

Theorem match_arrays_spec_proof (a b : list Z) :
  StronglySorted Z.le a -> StronglySorted Z.le b -> match_arrays a b = match_spec a b.
Proof.
  intros Ha Hb. apply SS_nondecr in Ha. apply SS_nondecr in Hb.
  rewrite match_spec_flat. unfold match_arrays.
  destruct a as [|x a]; [reflexivity|]. destruct b as [|y b].
  - assert (G : forall l : list (nat * Z),
               flat_map (fun p => row_matches [] (snd p) (fst p) 0 (length (@nil Z))) l = [])
      by (induction l; simpl; auto).
    rewrite G. reflexivity.
  - apply (outer_spec (y :: b)); [assumption|simpl; lia|assumption|].
    constructor; simpl; try lia. intros [x0 [H _]]. lia.
Qed.

Example match_arrays_nonvacuous :
  StronglySorted Z.le [0; 1; 1; 3; 3; 3; 5] /\ StronglySorted Z.le [1; 1; 3; 4; 5; 5] /\
  match_arrays [0; 1; 1; 3; 3; 3; 5] [1; 1; 3; 4; 5; 5] =
  [(1, 0); (1, 1); (2, 0); (2, 1); (3, 2); (4, 2); (5, 2); (6, 4); (6, 5)]%nat.
Proof.
  repeat split; repeat (constructor; [|repeat constructor; lia]); try constructor.
Qed.

(* ================================================================== D. generic list lemmas *)

Lemma insert_by_perm {A} (leb : A -> A -> bool) x l : Permutation (insert_by leb x l) (x :: l).
Proof.
  induction l as [|y r IH]; simpl; [reflexivity|].
  destruct (leb x y); [reflexivity|]. rewrite IH. apply perm_swap.
Qed.

Lemma isort_perm {A} (leb : A -> A -> bool) l : Permutation (isort leb l) l.
Proof.
  induction l as [|x l IH]; simpl; [reflexivity|]. rewrite insert_by_perm. constructor. exact IH.
Qed.

Lemma insert_by_sorted {A} (leb : A -> A -> bool) x l :
  (forall a b, leb a b = false -> leb b a = true) ->
  (forall a b c, leb a b = true -> leb b c = true -> leb a c = true) ->
  StronglySorted (fun a b => leb a b = true) l -> StronglySorted (fun a b => leb a b = true) (insert_by leb x l).
Proof.
  intros Htot Htr. induction 1 as [|y r Hs IH Hall]; simpl.
  - constructor; constructor.
  - destruct (leb x y) eqn:E.
    + constructor; [constructor; assumption|]. constructor; [exact E|].
      eapply Forall_impl; [|exact Hall]. intros c Hc. eapply Htr; eauto.
    + constructor; [exact IH|]. apply Forall_forall. intros c Hc.
      apply (Permutation_in _ (insert_by_perm leb x r)) in Hc. destruct Hc as [<-|Hc].
      * apply Htot. exact E.
      * rewrite Forall_forall in Hall. auto.
Qed.

Lemma isort_sorted {A} (leb : A -> A -> bool) l :
  (forall a b, leb a b = false -> leb b a = true) ->
  (forall a b c, leb a b = true -> leb b c = true -> leb a c = true) ->
  StronglySorted (fun a b => leb a b = true) (isort leb l).
Proof.
  intros Htot Htr. induction l as [|x l IH]; simpl; [constructor|]. apply insert_by_sorted; assumption.
Qed.

Lemma key_leb_total {B} (a b : Z * B) : key_leb a b = false -> key_leb b a = true.
Proof. unfold key_leb. intros H. apply Z.leb_gt in H. apply Z.leb_le. lia. Qed.

Lemma key_leb_trans {B} (a b c : Z * B) : key_leb a b = true -> key_leb b c = true -> key_leb a c = true.
Proof. unfold key_leb. rewrite !Z.leb_le. lia. Qed.

Lemma NoDup_map_in {A B} (g : A -> B) l :
  (forall x y, In x l -> In y l -> g x = g y -> x = y) -> NoDup l -> NoDup (map g l).
Proof.
  intros Hinj Hnd. induction Hnd as [|a l Ha Hnd IH]; simpl; constructor.
  - intros Hin. apply in_map_iff in Hin. destruct Hin as [y [Hy Iy]].
    assert (y = a) by (apply Hinj; simpl; auto). subst. contradiction.
  - apply IH. intros x y Hx Hy. apply Hinj; simpl; auto.
Qed.

Lemma NoDup_app_intro {A} (l1 l2 : list A) :
  NoDup l1 -> NoDup l2 -> (forall x, In x l1 -> ~ In x l2) -> NoDup (l1 ++ l2).
Proof.
  intros H1 H2 Hd. induction H1 as [|a l Ha H1 IH]; simpl; [assumption|]. constructor.
  - intros Hin. apply in_app_or in Hin. destruct Hin; [contradiction|]. apply (Hd a); simpl; auto.
  - apply IH. intros x Hx. apply Hd. simpl; auto.
Qed.

Lemma NoDup_list_prod {A B} (l1 : list A) (l2 : list B) : NoDup l1 -> NoDup l2 -> NoDup (list_prod l1 l2).
Proof.
  intros H1 H2. induction H1 as [|a l Ha H1 IH]; simpl; [constructor|].
  apply NoDup_app_intro; [|assumption|].
  - apply NoDup_map_in; [|assumption]. intros x y _ _ E. inversion E; reflexivity.
  - intros [x y] Hx Hy. apply in_map_iff in Hx. destruct Hx as [z [E _]]. inversion E; subst.
    apply in_prod_iff in Hy. tauto.
Qed.

Lemma NoDup_map_fst_filter {A B} (p : A * B -> bool) (l : list (A * B)) :
  NoDup (map fst l) -> NoDup (map fst (filter p l)).
Proof.
  induction l as [|x l IH]; simpl; intros H; [constructor|]. inversion H as [|? ? Hx Hl]; subst.
  destruct (p x); simpl; [|auto]. constructor; [|auto].
  intros Hin. apply Hx. apply in_map_iff in Hin. destruct Hin as [y [E Hy]]. apply filter_In in Hy.
  apply in_map_iff. exists y. tauto.
Qed.

Lemma filter_pos_In {A} (keep : nat -> bool) (l : list A) s x :
  In x (filter_pos keep s l) <-> exists n, nth_error l n = Some x /\ keep (s + n)%nat = true.
Proof.
  revert s. induction l as [|y l IH]; intros s; simpl.
  - split; [tauto|]. intros [n [H _]]. destruct n; discriminate.
  - destruct (keep s) eqn:K; simpl; rewrite ?IH; split.
    + intros [<-|[n [H1 H2]]]; [exists 0%nat; rewrite Nat.add_0_r; auto|exists (S n)].
      simpl. rewrite <- plus_n_Sm. auto.
    + intros [[|n] [H1 H2]]; simpl in H1; [inversion H1; auto|right; exists n].
      rewrite <- plus_n_Sm in H2. auto.
    + intros [n [H1 H2]]. exists (S n). simpl. rewrite <- plus_n_Sm. auto.
    + intros [[|n] [H1 H2]]; simpl in H1.
      * rewrite Nat.add_0_r in H2. congruence.
      * exists n. rewrite <- plus_n_Sm in H2. auto.
Qed.

Lemma filter_pos_sub {A} (keep : nat -> bool) (l : list A) s x : In x (filter_pos keep s l) -> In x l.
Proof. intros H. apply filter_pos_In in H. destruct H as [n [H _]]. eapply nth_error_In; eauto. Qed.

Lemma NoDup_map_fst_filter_pos {A B} (keep : nat -> bool) (l : list (A * B)) s :
  NoDup (map fst l) -> NoDup (map fst (filter_pos keep s l)).
Proof.
  revert s. induction l as [|x l IH]; intros s; simpl; intros H; [constructor|]. inversion H as [|? ? Hx Hl]; subst.
  destruct (keep s); simpl; [|auto]. constructor; [|auto].
  intros Hin. apply Hx. apply in_map_iff in Hin. destruct Hin as [y [E Hy]]. apply filter_pos_sub in Hy.
  apply in_map_iff. exists y. tauto.
Qed.

Lemma SS_le_NoDup_lt l : StronglySorted Z.le l -> NoDup l -> StronglySorted Z.lt l.
Proof.
  induction 1 as [|x l Hs IH Hall]; intros Hnd; constructor; inversion Hnd as [|? ? Hx Hl]; subst; auto.
  apply Forall_forall. intros y Hy. rewrite Forall_forall in Hall. specialize (Hall y Hy).
  assert (x <> y) by (intros ->; contradiction). lia.
Qed.

Lemma SS_lt_le l : StronglySorted Z.lt l -> StronglySorted Z.le l.
Proof.
  induction 1 as [|x l Hs IH Hall]; constructor; auto. eapply Forall_impl; [|exact Hall]. intros; lia.
Qed.

(* strict order of linear locations <-> lexicographic order of in-range coordinates *)
Lemma SS_ravel_lex sh (cs : list idx) :
  Forall (in_range sh) cs -> (StronglySorted Z.lt (map (ravel sh) cs) <-> StronglySorted lex_lt cs).
Proof.
  induction cs as [|c cs IH]; intros Hr; simpl.
  - split; constructor.
  - inversion Hr as [|? ? Hc Hcs]; subst. specialize (IH Hcs). split; intros H; inversion H as [|? ? Hs Hall]; subst.
    + constructor; [tauto|]. apply Forall_forall. intros y Hy. rewrite Forall_forall in Hall, Hcs.
      apply (ravel_lex sh); auto. apply Hall. apply in_map. exact Hy.
    + constructor; [tauto|]. apply Forall_forall. intros k Hk. apply in_map_iff in Hk. destruct Hk as [y [<- Hy]].
      rewrite Forall_forall in Hall, Hcs. apply (ravel_lex sh); auto.
Qed.

Lemma combine_fst_snd {A B} (l : list (A * B)) : combine (map fst l) (map snd l) = l.
Proof. induction l as [|[a b] l IH]; simpl; congruence. Qed.

Lemma in_range_no_zero sh ix : in_range sh ix -> existsb (Z.eqb 0) sh = false.
Proof.
  revert ix. induction sh as [|d sh IH]; intros [|i ix]; simpl; try tauto.
  intros [Hi H]. rewrite (IH _ H). destruct (Z.eqb_spec 0 d); [lia|reflexivity].
Qed.

(* ================================================================== E. the same-shape binary case *)

Lemma ravel_nil sh : ravel sh [] = 0.
Proof. destruct sh; reflexivity. Qed.

Lemma nthZ_map_ravel sh (cs : list idx) i : nthZ (map (ravel sh) cs) i = ravel sh (nth i cs []).
Proof. unfold nthZ. rewrite <- (ravel_nil sh) at 1. apply map_nth. Qed.

Lemma match_spec_In a b i j :
  In (i, j) (match_spec a b) <-> (i < length a)%nat /\ (j < length b)%nat /\ nthZ a i = nthZ b j.
Proof.
  unfold match_spec. rewrite filter_In, in_prod_iff, !in_seq. simpl. rewrite Z.eqb_eq. split; intros; intuition lia.
Qed.

Lemma match_spec_NoDup a b : NoDup (match_spec a b).
Proof. unfold match_spec. apply NoDup_filter. apply NoDup_list_prod; apply seq_NoDup. Qed.

Lemma sorted_coords_keys sh (cs : list idx) :
  Forall (in_range sh) cs -> StronglySorted lex_lt cs -> StronglySorted Z.le (map (ravel sh) cs).
Proof. intros Hr Hs. apply SS_lt_le. apply SS_ravel_lex; assumption. Qed.

Lemma match_coords_In sh (c1 c2 : list idx) i j :
  Forall (in_range sh) c1 -> Forall (in_range sh) c2 -> StronglySorted lex_lt c1 -> StronglySorted lex_lt c2 ->
  (In (i, j) (match_arrays (map (ravel sh) c1) (map (ravel sh) c2)) <->
   (i < length c1)%nat /\ (j < length c2)%nat /\ nth i c1 [] = nth j c2 []).
Proof.
  intros R1 R2 S1 S2. rewrite match_arrays_spec_proof by (apply sorted_coords_keys; assumption).
  rewrite match_spec_In, !map_length, !nthZ_map_ravel. split; intros [H1 [H2 H3]]; repeat split; auto.
  - rewrite Forall_forall in R1, R2. apply (ravel_inj sh); [apply R1, nth_In; lia|apply R2, nth_In; lia|exact H3].
  - congruence.
Qed.

Lemma match_coords_NoDup sh (c1 c2 : list idx) :
  Forall (in_range sh) c1 -> Forall (in_range sh) c2 -> StronglySorted lex_lt c1 -> StronglySorted lex_lt c2 ->
  NoDup (match_arrays (map (ravel sh) c1) (map (ravel sh) c2)).
Proof.
  intros R1 R2 S1 S2. rewrite match_arrays_spec_proof by (apply sorted_coords_keys; assumption).
  apply match_spec_NoDup.
Qed.

Lemma SS_filter_map_fst {B} (p : idx * B -> bool) (l : list (idx * B)) :
  StronglySorted lex_lt (map fst l) -> StronglySorted lex_lt (map fst (filter p l)).
Proof.
  induction l as [|x l IH]; simpl; intros H; [constructor|]. inversion H as [|? ? Hs Hall]; subst.
  destruct (p x); simpl; [|auto]. constructor; [auto|]. apply Forall_forall. intros y Hy.
  rewrite Forall_forall in Hall. apply Hall. apply in_map_iff in Hy. destruct Hy as [z [<- Hz]].
  apply filter_In in Hz. apply in_map. tauto.
Qed.

Section Binary.
  Variable V : Type.
  Variable veqb : V -> V -> bool.
  Variable vzero : V.
  Variable f : list V -> V.
  Hypothesis veqb_eq : forall a b, veqb a b = true <-> a = b.

  Lemma sort_coo_perm sh (es : list (idx * V)) : Permutation (sort_coo V sh es) es.
  Proof.
    unfold sort_coo. rewrite isort_perm, map_map. simpl. rewrite map_id. reflexivity.
  Qed.

  Lemma sort_coo_keys_sorted sh (es : list (idx * V)) :
    StronglySorted Z.le (map (fun e => ravel sh (fst e)) (sort_coo V sh es)).
  Proof.
    unfold sort_coo. set (P := isort key_leb _).
    assert (HP : forall p, In p P -> fst p = ravel sh (fst (snd p))).
    { intros p Hp. apply (Permutation_in _ (isort_perm _ _)) in Hp. apply in_map_iff in Hp.
      destruct Hp as [e [<- _]]. reflexivity. }
    rewrite map_map. rewrite (map_ext_in _ fst); [|intros p Hp; symmetry; apply HP; exact Hp].
    assert (Hs : StronglySorted (fun a b : Z * (idx * V) => key_leb a b = true) P)
      by (apply isort_sorted; [apply key_leb_total|apply key_leb_trans]).
    clear HP. induction Hs as [|x l Hs IH Hall]; simpl; constructor; auto.
    apply Forall_forall. intros k Hk. apply in_map_iff in Hk. destruct Hk as [y [<- Hy]].
    rewrite Forall_forall in Hall. specialize (Hall y Hy). unfold key_leb in Hall. apply Z.leb_le. exact Hall.
  Qed.

  Lemma sort_coo_canonical sh (es : list (idx * V)) :
    Forall (fun e => in_range sh (fst e)) es -> NoDup (map fst es) ->
    StronglySorted lex_lt (map fst (sort_coo V sh es)).
  Proof.
    intros Hr Hnd. pose proof (sort_coo_perm sh es) as Hp.
    assert (Hr' : Forall (in_range sh) (map fst (sort_coo V sh es))).
    { apply Forall_forall. intros q Hq. apply in_map_iff in Hq. destruct Hq as [e [<- He]].
      rewrite Forall_forall in Hr. apply Hr. eapply Permutation_in; eauto. }
    apply (SS_ravel_lex sh); [exact Hr'|]. apply SS_le_NoDup_lt.
    - rewrite map_map. apply sort_coo_keys_sorted.
    - apply NoDup_map_in.
      + intros x y Hx Hy. rewrite Forall_forall in Hr'. apply ravel_inj; auto.
      + eapply Permutation_NoDup; [|exact Hnd]. apply Permutation_map. symmetry. exact Hp.
  Qed.

  (* reading a duplicate-free entry list *)
  Lemma den_of_entries sh (es : list (idx * V)) fill q :
    NoDup (map fst es) ->
    den (mkCOO sh (map fst es) (map snd es) fill) q =
    match find (fun e => idx_eqb (fst e) q) es with Some e => snd e | None => fill end.
  Proof.
    intros Hnd. unfold den, entries. simpl. rewrite combine_fst_snd.
    induction es as [|[k v] r IH]; simpl; [reflexivity|]. inversion Hnd as [|? ? Hk Hr]; subst.
    specialize (IH Hr). destruct (idx_eqb k q) eqn:E.
    - apply idx_eqb_eq in E. subst k. rewrite (lookup_notin V r q Hk). reflexivity.
    - destruct (lookup r q); exact IH.
  Qed.

  Lemma find_entry_In (es : list (idx * V)) q v :
    NoDup (map fst es) -> (find (fun e => idx_eqb (fst e) q) es = Some (q, v) <-> In (q, v) es).
  Proof.
    intros Hnd. induction es as [|[k w] r IH]; simpl; [split; [discriminate|tauto]|].
    inversion Hnd as [|? ? Hk Hr]; subst. specialize (IH Hr). destruct (idx_eqb k q) eqn:E.
    - apply idx_eqb_eq in E. subst k. split.
      + intros H. inversion H. auto.
      + intros [H|H]; [inversion H; reflexivity|]. exfalso. apply Hk. apply in_map_iff. exists (q, v). auto.
    - rewrite IH. split; [auto|]. intros [H|H]; [|exact H]. inversion H; subst. rewrite idx_eqb_refl in E. discriminate.
  Qed.

  Lemma find_entry_None (es : list (idx * V)) q :
    find (fun e => idx_eqb (fst e) q) es = None <-> ~ In q (map fst es).
  Proof.
    induction es as [|[k w] r IH]; simpl; [tauto|]. destruct (idx_eqb k q) eqn:E.
    - apply idx_eqb_eq in E. subst. split; [discriminate|]. tauto.
    - rewrite IH. split; [|tauto]. intros H [->|H']; [rewrite idx_eqb_refl in E; discriminate|tauto].
  Qed.

  Lemma find_entry_fst (es : list (idx * V)) q e :
    find (fun e => idx_eqb (fst e) q) es = Some e -> fst e = q /\ In e es.
  Proof.
    intros H. apply find_some in H. destruct H as [H1 H2]. apply idx_eqb_eq in H2. auto.
  Qed.

  (* dense meaning of the array built from a permutation of a duplicate-free entry list *)
  Lemma den_sorted_entries sh (es : list (idx * V)) fill q :
    NoDup (map fst es) ->
    let s := sort_coo V sh es in
    (forall v, In (q, v) es -> den (mkCOO sh (map fst s) (map snd s) fill) q = v) /\
    (~ In q (map fst es) -> den (mkCOO sh (map fst s) (map snd s) fill) q = fill).
  Proof.
    intros Hnd s. pose proof (sort_coo_perm sh es) as Hp.
    assert (Hnd' : NoDup (map fst s)).
    { eapply Permutation_NoDup; [|exact Hnd]. apply Permutation_map. symmetry. exact Hp. }
    rewrite den_of_entries by exact Hnd'. split.
    - intros v Hv. assert (Hv' : In (q, v) s) by (eapply Permutation_in; [symmetry; exact Hp|exact Hv]).
      apply (find_entry_In s q v Hnd') in Hv'. rewrite Hv'. reflexivity.
    - intros Hn. assert (Hn' : ~ In q (map fst s)).
      { intros H. apply Hn. eapply Permutation_in; [|exact H]. apply Permutation_map. exact Hp. }
      apply find_entry_None in Hn'. rewrite Hn'. reflexivity.
  Qed.

  Lemma entries_nth (c : coo V) q v :
    length (c_data c) = length (c_coords c) ->
    (In (q, v) (entries c) <->
     exists i, (i < length (c_coords c))%nat /\ nth i (c_coords c) [] = q /\ nth i (c_data c) vzero = v).
  Proof.
    intros Hl. unfold entries. split.
    - intros H. apply (In_nth _ _ ([], vzero)) in H. destruct H as [i [Hi E]].
      rewrite combine_length in Hi. rewrite combine_nth in E by (symmetry; exact Hl). inversion E.
      exists i. repeat split. lia.
    - intros [i [Hi [<- <-]]]. rewrite <- combine_nth by (symmetry; exact Hl). apply nth_In.
      rewrite combine_length. lia.
  Qed.

  Lemma entries_functional (c : coo V) q v w :
    canonical V c -> In (q, v) (entries c) -> In (q, w) (entries c) -> v = w.
  Proof.
    intros Hc Hv Hw. rewrite <- (den_stored V c q v Hc Hv). apply (den_stored V c q w Hc Hw).
  Qed.

  Lemma entries_coords (c : coo V) q :
    length (c_data c) = length (c_coords c) -> (In q (c_coords c) <-> exists v, In (q, v) (entries c)).
  Proof.
    intros Hl. split.
    - intros H. apply (In_nth _ _ []) in H. destruct H as [i [Hi E]]. exists (nth i (c_data c) vzero).
      apply entries_nth; [exact Hl|]. exists i. auto.
    - intros [v H]. eapply in_combine_l. exact H.
  Qed.

  Definition keepf (fill : V) : list (idx * V) -> list (idx * V) :=
    filter (fun e : idx * V => negb (veqb (snd e) fill)).

  Definition both_raw (a b : coo V) : list (idx * V) :=
    map (fun ij => (nth (fst ij) (c_coords a) [],
                    f [nth (fst ij) (c_data a) vzero; nth (snd ij) (c_data b) vzero]))
        (match_arrays (keys V a) (keys V b)).

  Definition only_raw (g : V -> V) (a : coo V) : list (idx * V) :=
    map (fun e => (fst e, g (snd e))) (entries a).

  Definition drop_matched (sh : shape) (es : list (idx * V)) (kb : list Z) : list (idx * V) :=
    filter_pos (fun n => negb (existsb (Nat.eqb n)
                 (map fst (match_arrays (map (ravel sh) (map fst es)) kb)))) O es.

  Lemma elemwise2_unfold (a b : coo V) :
    elemwise2 V veqb vzero f a b =
    let sh := c_shape a in
    let fill := f [c_fill a; c_fill b] in
    if existsb (Z.eqb 0) sh then mkCOO sh [] [] fill else
    let es := sort_coo V sh (keepf fill (both_raw a b)
                ++ drop_matched sh (keepf fill (only_raw (fun v => f [v; c_fill b]) a)) (keys V b)
                ++ drop_matched sh (keepf fill (only_raw (fun v => f [c_fill a; v]) b)) (keys V a)) in
    mkCOO sh (map fst es) (map snd es) fill.
  Proof. reflexivity. Qed.

  Section SameShape.
    Variables a b : coo V.
    Hypothesis Ha : canonical V a.
    Hypothesis Hb : canonical V b.
    Hypothesis Hsh : c_shape a = c_shape b.
    Let sh := c_shape a.
    Let fill := f [c_fill a; c_fill b].

    Lemma keys_b : keys V b = map (ravel sh) (c_coords b).
    Proof. unfold keys, sh. rewrite Hsh. reflexivity. Qed.

    Lemma range_b : Forall (in_range sh) (c_coords b).
    Proof. unfold sh. rewrite Hsh. apply Hb. Qed.

    Lemma both_raw_In q v :
      In (q, v) (both_raw a b) <->
      exists va vb, In (q, va) (entries a) /\ In (q, vb) (entries b) /\ v = f [va; vb].
    Proof.
      destruct Ha as [Ra [Sa La]]. destruct Hb as [_ [Sb Lb]]. pose proof range_b as Rb.
      unfold both_raw. rewrite in_map_iff. split.
      - intros [[i j] [E Hij]]. simpl in E. inversion E; subst q v. clear E.
        unfold keys in Hij at 1. rewrite keys_b in Hij. fold sh in Hij.
        apply match_coords_In in Hij; auto. destruct Hij as [Hi [Hj Eij]].
        exists (nth i (c_data a) vzero), (nth j (c_data b) vzero). repeat split.
        + apply entries_nth; [exact La|]. exists i. auto.
        + apply entries_nth; [exact Lb|]. exists j. auto.
      - intros [va [vb [Iva [Ivb ->]]]].
        apply entries_nth in Iva; [|exact La]. apply entries_nth in Ivb; [|exact Lb].
        destruct Iva as [i [Hi [Ei Di]]]. destruct Ivb as [j [Hj [Ej Dj]]].
        exists (i, j). simpl. split; [congruence|].
        unfold keys at 1. rewrite keys_b. fold sh. apply match_coords_In; auto. repeat split; auto. congruence.
    Qed.

    Lemma both_raw_NoDup : NoDup (map fst (both_raw a b)).
    Proof.
      destruct Ha as [Ra [Sa La]]. destruct Hb as [_ [Sb Lb]]. pose proof range_b as Rb.
      unfold both_raw. rewrite map_map. simpl. unfold keys at 1. rewrite keys_b. fold sh.
      apply NoDup_map_in; [|apply match_coords_NoDup; auto].
      intros [i j] [i' j'] H1 H2 E. simpl in E.
      apply match_coords_In in H1; auto. apply match_coords_In in H2; auto.
      destruct H1 as [Hi [Hj Eij]]. destruct H2 as [Hi' [Hj' Eij']].
      assert (i = i').
      { apply (proj1 (NoDup_nth (c_coords a) []) (SS_lex_NoDup _ Sa)); auto. }
      subst i'. assert (j = j'); [|congruence].
      apply (proj1 (NoDup_nth (c_coords b) []) (SS_lex_NoDup _ Sb)); auto. congruence.
    Qed.
  
    (* entries of [a] mapped through g and pruned: coordinates still sorted, in range, duplicate-free *)
    Lemma only_raw_In (g : V -> V) (c : coo V) q v :
      In (q, v) (only_raw g c) <-> exists va, In (q, va) (entries c) /\ v = g va.
    Proof.
      unfold only_raw. rewrite in_map_iff. split.
      - intros [[k w] [E H]]. simpl in E. inversion E; subst. eauto.
      - intros [va [H ->]]. exists (q, va). auto.
    Qed.

    Lemma only_raw_fst (g : V -> V) (c : coo V) :
      length (c_data c) = length (c_coords c) -> map fst (only_raw g c) = c_coords c.
    Proof.
      intros Hl. unfold only_raw. rewrite map_map. simpl. unfold entries. apply combine_map_fst. lia.
    Qed.

    (* removing the positions matched by the other operand = removing the coordinates it stores *)
    Lemma drop_matched_In (es : list (idx * V)) (cb : list idx) q v :
      Forall (in_range sh) (map fst es) -> StronglySorted lex_lt (map fst es) ->
      Forall (in_range sh) cb -> StronglySorted lex_lt cb ->
      (In (q, v) (drop_matched sh es (map (ravel sh) cb)) <-> In (q, v) es /\ ~ In q cb).
    Proof.
      intros R1 S1 R2 S2. unfold drop_matched. rewrite filter_pos_In. split.
      - intros [n [Hn Hk]]. simpl in Hk. split; [eapply nth_error_In; eauto|].
        intros Hq. apply negb_true_iff in Hk.
        assert (existsb (Nat.eqb n) (map fst (match_arrays (map (ravel sh) (map fst es)) (map (ravel sh) cb))) = true);
          [|congruence].
        apply existsb_exists. exists n. split; [|apply Nat.eqb_refl].
        apply (In_nth _ _ []) in Hq. destruct Hq as [j [Hj Ej]].
        apply in_map_iff. exists (n, j). split; [reflexivity|].
        apply match_coords_In; auto. rewrite map_length.
        assert (Hn' : (n < length es)%nat) by (apply nth_error_Some; congruence).
        repeat split; auto. etransitivity; [|symmetry; exact Ej].
        change (@nil Z) with (fst (@nil Z, v)). rewrite map_nth.
        apply nth_error_nth with (d := ([], v)) in Hn. rewrite Hn. reflexivity.
      - intros [Hin Hq]. apply In_nth_error in Hin. destruct Hin as [n Hn]. exists n. split; [exact Hn|].
        simpl. apply negb_true_iff. apply not_true_is_false. intros Hex.
        apply existsb_exists in Hex. destruct Hex as [n' [Hin' En]]. apply Nat.eqb_eq in En. subst n'.
        apply in_map_iff in Hin'. destruct Hin' as [[n' j] [E Hm]]. simpl in E. subst n'.
        apply match_coords_In in Hm; auto. destruct Hm as [_ [Hj Eq]].
        apply Hq. change (@nil Z) with (fst (@nil Z, v)) in Eq at 1. rewrite map_nth in Eq.
        apply nth_error_nth with (d := ([], v)) in Hn. rewrite Hn in Eq. simpl in Eq. subst q.
        apply nth_In. exact Hj.
    Qed.
  
    Let ga := fun v => f [v; c_fill b].
    Let gb := fun v => f [c_fill a; v].
    Let La := keepf fill (both_raw a b).
    Let Lb := drop_matched sh (keepf fill (only_raw ga a)) (keys V b).
    Let Lc := drop_matched sh (keepf fill (only_raw gb b)) (keys V a).

    Lemma keepf_In fl (l : list (idx * V)) q v : In (q, v) (keepf fl l) <-> In (q, v) l /\ veqb v fl = false.
    Proof. unfold keepf. rewrite filter_In. simpl. rewrite negb_true_iff. tauto. Qed.

    Lemma La_In q v :
      In (q, v) La <-> exists va vb, In (q, va) (entries a) /\ In (q, vb) (entries b) /\ v = f [va; vb] /\ veqb v fill = false.
    Proof.
      unfold La. rewrite keepf_In, both_raw_In. split.
      - intros [[va [vb [H1 [H2 H3]]]] H4]. exists va, vb. auto.
      - intros [va [vb [H1 [H2 [H3 H4]]]]]. split; [exists va, vb; auto|exact H4].
    Qed.

    Lemma only_keep_sorted (g : V -> V) (c : coo V) fl :
      canonical V c -> Forall (in_range (c_shape c)) (map fst (keepf fl (only_raw g c))) /\
                       StronglySorted lex_lt (map fst (keepf fl (only_raw g c))).
    Proof.
      intros [Rc [Sc Lc']]. split.
      - apply Forall_forall. intros q Hq. apply in_map_iff in Hq. destruct Hq as [[k v] [<- Hk]].
        apply keepf_In in Hk. destruct Hk as [Hk _]. apply only_raw_In in Hk. destruct Hk as [va [Hk _]].
        rewrite Forall_forall in Rc. apply Rc. eapply in_combine_l. exact Hk.
      - apply SS_filter_map_fst. rewrite only_raw_fst by exact Lc'. exact Sc.
    Qed.

    Lemma Lb_In q v :
      In (q, v) Lb <-> exists va, In (q, va) (entries a) /\ v = f [va; c_fill b] /\ veqb v fill = false /\ ~ In q (c_coords b).
    Proof.
      destruct (only_keep_sorted ga a fill Ha) as [R1 S1]. destruct Hb as [_ [Sb _]].
      unfold Lb. rewrite keys_b. rewrite drop_matched_In; auto using range_b.
      rewrite keepf_In, only_raw_In. split.
      - intros [[[va [H1 H2]] H3] H4]. exists va. auto.
      - intros [va [H1 [H2 [H3 H4]]]]. split; [split; [exists va; auto|exact H3]|exact H4].
    Qed.

    Lemma Lc_In q v :
      In (q, v) Lc <-> exists vb, In (q, vb) (entries b) /\ v = f [c_fill a; vb] /\ veqb v fill = false /\ ~ In q (c_coords a).
    Proof.
      destruct (only_keep_sorted gb b fill Hb) as [R1 S1]. destruct Ha as [Ra [Sa _]].
      unfold Lc. change (keys V a) with (map (ravel sh) (c_coords a)).
      rewrite drop_matched_In; auto; [|unfold sh; rewrite Hsh; exact R1].
      rewrite keepf_In, only_raw_In. split.
      - intros [[[vb [H1 H2]] H3] H4]. exists vb. auto.
      - intros [vb [H1 [H2 [H3 H4]]]]. split; [split; [exists vb; auto|exact H3]|exact H4].
    Qed.

    Lemma in_map_fst_iff (l : list (idx * V)) q : In q (map fst l) <-> exists v, In (q, v) l.
    Proof.
      rewrite in_map_iff. split.
      - intros [[k v] [<- H]]. eauto.
      - intros [v H]. exists (q, v). auto.
    Qed.

    Lemma pieces_NoDup : NoDup (map fst (La ++ Lb ++ Lc)).
    Proof.
      pose proof Ha as [Ra [Sa LLa]]. pose proof Hb as [Rb [Sb LLb]].
      rewrite !map_app. apply NoDup_app_intro; [|apply NoDup_app_intro|].
      - unfold La, keepf. apply NoDup_map_fst_filter. apply both_raw_NoDup.
      - unfold Lb, drop_matched. apply NoDup_map_fst_filter_pos. unfold keepf. apply NoDup_map_fst_filter.
        rewrite only_raw_fst by exact LLa. apply SS_lex_NoDup. exact Sa.
      - unfold Lc, drop_matched. apply NoDup_map_fst_filter_pos. unfold keepf. apply NoDup_map_fst_filter.
        rewrite only_raw_fst by exact LLb. apply SS_lex_NoDup. exact Sb.
      - intros q H1 H2. apply in_map_fst_iff in H1. apply in_map_fst_iff in H2.
        destruct H1 as [v H1]. destruct H2 as [w H2]. apply Lb_In in H1. apply Lc_In in H2.
        destruct H1 as [va [H1 _]]. destruct H2 as [_ [_ [_ [_ H2]]]]. apply H2. eapply in_combine_l. exact H1.
      - intros q H1 H2. apply in_map_fst_iff in H1. destruct H1 as [v H1]. apply La_In in H1.
        destruct H1 as [va [vb [I1 [I2 _]]]]. rewrite <- map_app in H2. apply in_map_fst_iff in H2.
        destruct H2 as [w H2]. apply in_app_or in H2. destruct H2 as [H2|H2].
        + apply Lb_In in H2. destruct H2 as [_ [_ [_ [_ H2]]]]. apply H2. eapply in_combine_l. exact I2.
        + apply Lc_In in H2. destruct H2 as [_ [_ [_ [_ H2]]]]. apply H2. eapply in_combine_l. exact I1.
    Qed.

    Lemma pieces_range q v : In (q, v) (La ++ Lb ++ Lc) -> in_range sh q /\ veqb v fill = false.
    Proof.
      pose proof Ha as [Ra _]. rewrite Forall_forall in Ra.
      intros H. apply in_app_or in H. destruct H as [H|H]; [|apply in_app_or in H; destruct H as [H|H]].
      - apply La_In in H. destruct H as [va [vb [I1 [_ [_ Hv]]]]]. split; [|exact Hv]. apply Ra. eapply in_combine_l; eauto.
      - apply Lb_In in H. destruct H as [va [I1 [_ [Hv _]]]]. split; [|exact Hv]. apply Ra. eapply in_combine_l; eauto.
      - apply Lc_In in H. destruct H as [vb [I1 [_ [Hv _]]]]. split; [|exact Hv].
        pose proof range_b as Rb. rewrite Forall_forall in Rb. apply Rb. eapply in_combine_l; eauto.
    Qed.

    Theorem elemwise2_den_proof :
      let r := elemwise2 V veqb vzero f a b in
      c_shape r = c_shape a /\ c_fill r = f [c_fill a; c_fill b] /\ canonical V r /\ prunedb veqb r = true /\
      forall ix, in_range (c_shape a) ix -> den r ix = f [den a ix; den b ix].
    Proof.
      rewrite elemwise2_unfold. fold sh fill. cbv zeta. destruct (existsb (Z.eqb 0) sh) eqn:Ez.
      - simpl. repeat split; try constructor. intros ix Hix. apply in_range_no_zero in Hix. fold sh in Hix. congruence.
      - fold ga gb. fold La Lb Lc. set (L := La ++ Lb ++ Lc). set (es := sort_coo V sh L).
        pose proof (sort_coo_perm sh L) as Hp. fold es in Hp.
        simpl. split; [reflexivity|]. split; [reflexivity|]. split; [|split].
        + unfold canonical. simpl. split; [|split].
          * apply Forall_forall. intros q Hq. apply in_map_fst_iff in Hq. destruct Hq as [v Hq].
            eapply Permutation_in in Hq; [|exact Hp]. apply (pieces_range q v Hq).
          * apply sort_coo_canonical; [|apply pieces_NoDup].
            apply Forall_forall. intros [q v] Hq. simpl. apply (pieces_range q v Hq).
          * rewrite !map_length. reflexivity.
        + unfold prunedb. simpl. apply forallb_forall. intros v Hv. apply in_map_iff in Hv.
          destruct Hv as [[q w] [<- Hq]]. simpl. eapply Permutation_in in Hq; [|exact Hp].
          apply pieces_range in Hq. destruct Hq as [_ Hq]. rewrite Hq. reflexivity.
        + intros ix Hix. destruct (den_sorted_entries sh L fill ix pieces_NoDup) as [Hin Hout]. fold es in Hin, Hout.
          pose proof Ha as [Ra [Sa LLa]]. pose proof Hb as [Rb [Sb LLb]].
          assert (Hfill : forall v, veqb v fill = true -> v = fill) by (intros v; apply veqb_eq).
          destruct (in_dec (list_eq_dec Z.eq_dec) ix (c_coords a)) as [Ia|Ia];
            destruct (in_dec (list_eq_dec Z.eq_dec) ix (c_coords b)) as [Ib|Ib].
          * apply (entries_coords a ix LLa) in Ia. destruct Ia as [va Ia].
            apply (entries_coords b ix LLb) in Ib. destruct Ib as [vb Ib].
            rewrite (den_stored V a ix va Ha Ia), (den_stored V b ix vb Hb Ib).
            destruct (veqb (f [va; vb]) fill) eqn:Ev.
            -- rewrite (Hfill _ Ev). apply Hout. intros Hq. apply in_map_fst_iff in Hq. destruct Hq as [w Hq].
               apply in_app_or in Hq. destruct Hq as [Hq|Hq]; [|apply in_app_or in Hq; destruct Hq as [Hq|Hq]].
               ++ apply La_In in Hq. destruct Hq as [va' [vb' [I1 [I2 [-> Hw]]]]].
                  rewrite (entries_functional a ix va' va Ha I1 Ia), (entries_functional b ix vb' vb Hb I2 Ib) in Hw. congruence.
               ++ apply Lb_In in Hq. destruct Hq as [_ [_ [_ [_ Hq]]]]. apply Hq. eapply in_combine_l; eauto.
               ++ apply Lc_In in Hq. destruct Hq as [_ [_ [_ [_ Hq]]]]. apply Hq. eapply in_combine_l; eauto.
            -- apply Hin. apply in_or_app. left. apply La_In. exists va, vb. auto.
          * apply (entries_coords a ix LLa) in Ia. destruct Ia as [va Ia].
            rewrite (den_stored V a ix va Ha Ia), (den_unstored V b ix Ib).
            destruct (veqb (f [va; c_fill b]) fill) eqn:Ev.
            -- rewrite (Hfill _ Ev). apply Hout. intros Hq. apply in_map_fst_iff in Hq. destruct Hq as [w Hq].
               apply in_app_or in Hq. destruct Hq as [Hq|Hq]; [|apply in_app_or in Hq; destruct Hq as [Hq|Hq]].
               ++ apply La_In in Hq. destruct Hq as [_ [vb' [_ [I2 _]]]]. apply Ib. eapply in_combine_l; eauto.
               ++ apply Lb_In in Hq. destruct Hq as [va' [I1 [-> [Hw _]]]].
                  rewrite (entries_functional a ix va' va Ha I1 Ia) in Hw. congruence.
               ++ apply Lc_In in Hq. destruct Hq as [vb' [I2 _]]. apply Ib. eapply in_combine_l; eauto.
            -- apply Hin. apply in_or_app. right. apply in_or_app. left. apply Lb_In. exists va. auto.
          * apply (entries_coords b ix LLb) in Ib. destruct Ib as [vb Ib].
            rewrite (den_unstored V a ix Ia), (den_stored V b ix vb Hb Ib).
            destruct (veqb (f [c_fill a; vb]) fill) eqn:Ev.
            -- rewrite (Hfill _ Ev). apply Hout. intros Hq. apply in_map_fst_iff in Hq. destruct Hq as [w Hq].
               apply in_app_or in Hq. destruct Hq as [Hq|Hq]; [|apply in_app_or in Hq; destruct Hq as [Hq|Hq]].
               ++ apply La_In in Hq. destruct Hq as [va' [_ [I1 _]]]. apply Ia. eapply in_combine_l; eauto.
               ++ apply Lb_In in Hq. destruct Hq as [va' [I1 _]]. apply Ia. eapply in_combine_l; eauto.
               ++ apply Lc_In in Hq. destruct Hq as [vb' [I2 [-> [Hw _]]]].
                  rewrite (entries_functional b ix vb' vb Hb I2 Ib) in Hw. congruence.
            -- apply Hin. apply in_or_app. right. apply in_or_app. right. apply Lc_In. exists vb. auto.
          * rewrite (den_unstored V a ix Ia), (den_unstored V b ix Ib). apply Hout.
            intros Hq. apply in_map_fst_iff in Hq. destruct Hq as [w Hq].
            apply in_app_or in Hq. destruct Hq as [Hq|Hq]; [|apply in_app_or in Hq; destruct Hq as [Hq|Hq]].
            -- apply La_In in Hq. destruct Hq as [va' [_ [I1 _]]]. apply Ia. eapply in_combine_l; eauto.
            -- apply Lb_In in Hq. destruct Hq as [va' [I1 _]]. apply Ia. eapply in_combine_l; eauto.
            -- apply Lc_In in Hq. destruct Hq as [vb' [I2 _]]. apply Ib. eapply in_combine_l; eauto.
    Qed.
  End SameShape.
End Binary.
