(* Proofs/GcxsGetitemP.v — the GCXS getitem wrapper (Model/GcxsGetitem.v) against the COO getitem
   through GCXS.from_coo: for a GCXS array g = from_coo(c), g[ix] is from_coo(c[ix]) — the same
   data / indices / indptr / compressed axes — so that well-formedness and the dense meaning of the
   result follow from agent c05's conversion theorems and the COO indexing theorems. *)
From Coq Require Import ZArith List Bool Lia ZifyBool Sorting.Sorted Sorting.Permutation.
From Verif Require Import Py PySlice Shape COO COOP GCXS Convert ConvertL ConvertG NpIndex CooIndex
     CooIndexMaskP CooIndexNormP CooIndexP GcxsIndex GcxsIndexP GcxsGetitem.
Import ListNotations.
Open Scope Z_scope.

(* ================================================================ indptr_of: pointers are counts *)

Definition cnt_lt (rows : list Z) (r : Z) : nat := length (filter (fun x => x <? r) rows).

Lemma cnt_lt_succ rows r :
  cnt_lt rows (r + 1) = (cnt_lt rows r + length (filter (Z.eqb r) rows))%nat.
Proof.
  unfold cnt_lt. induction rows as [|x rows IH]; [reflexivity|]. cbn [filter].
  destruct (Z.ltb_spec x (r + 1)), (Z.ltb_spec x r), (Z.eqb_spec r x); cbn [length]; try lia.
Qed.

Lemma cnt_lt_0 rows : Forall (fun x => 0 <= x) rows -> cnt_lt rows 0 = 0%nat.
Proof.
  unfold cnt_lt. induction 1 as [|x rows Hx Hr IH]; [reflexivity|]. cbn [filter].
  destruct (Z.ltb_spec x 0); [lia|exact IH].
Qed.

Lemma cumsum_step l : forall a k, (k < length l)%nat ->
  nth (S k) (a :: cumsum_from a l) 0 = nth k (a :: cumsum_from a l) 0 + nth k l 0.
Proof.
  induction l as [|x l IH]; intros a k Hk; [simpl in Hk; lia|].
  destruct k as [|k]; [reflexivity|]. simpl in Hk. cbn [cumsum_from nth].
  change (nth (S k) ((a + x) :: cumsum_from (a + x) l) 0 = nth k ((a + x) :: cumsum_from (a + x) l) 0 + nth k l 0).
  apply IH. lia.
Qed.

Lemma nth_zrange m k : (k < Z.to_nat m)%nat -> nth k (zrange m) 0 = Z.of_nat k.
Proof.
  intros H. unfold zrange. rewrite (nth_indep _ 0 (Z.of_nat 0)) by (rewrite map_length, seq_length; exact H).
  rewrite map_nth, seq_nth by exact H. reflexivity.
Qed.

Lemma indptr_of_nth rows m (r : nat) :
  Forall (fun x => 0 <= x) rows -> (r <= Z.to_nat m)%nat ->
  nth r (indptr_of rows m) 0 = Z.of_nat (cnt_lt rows (Z.of_nat r)).
Proof.
  intros Hr. unfold indptr_of, bincount. induction r as [|r IH]; intros Hm.
  - simpl nth. rewrite cnt_lt_0 by assumption. reflexivity.
  - rewrite cumsum_step by (rewrite map_length, zrange_length; lia). rewrite IH by lia.
    rewrite (nth_indep _ 0 (count_z rows 0)) by (rewrite map_length, zrange_length; lia).
    rewrite map_nth, nth_zrange by lia.
    rewrite Nat2Z.inj_succ. unfold Z.succ. rewrite cnt_lt_succ. unfold count_z. lia.
Qed.

(* sorted rows: the count below r is the partition point *)
Lemma cnt_lt_none rows r : (forall q, (q < length rows)%nat -> r <= nth q rows 0) -> cnt_lt rows r = 0%nat.
Proof.
  unfold cnt_lt. induction rows as [|x rows IH]; intros H; [reflexivity|]. cbn [filter].
  pose proof (H 0%nat ltac:(simpl; lia)) as H0. simpl in H0. destruct (Z.ltb_spec x r); [lia|].
  apply IH. intros q Hq. apply (H (S q)). simpl. lia.
Qed.

Lemma cnt_lt_partition rows r : mono rows ->
  forall q, (q < length rows)%nat -> ((q < cnt_lt rows r)%nat <-> nth q rows 0 < r).
Proof.
  induction rows as [|x rows IH]; intros Hm q Hq; [simpl in Hq; lia|].
  apply mono_tail in Hm. destruct Hm as [Hm Hx].
  assert (E : cnt_lt (x :: rows) r = ((if (x <? r)%Z then 1 else 0) + cnt_lt rows r)%nat).
  { unfold cnt_lt. cbn [filter]. destruct (x <? r); reflexivity. }
  rewrite E. destruct (Z.ltb_spec x r) as [Hxr|Hxr].
  - destruct q as [|q]; [simpl; lia|]. simpl in Hq. cbn [nth]. rewrite <- (IH Hm q) by lia. lia.
  - rewrite (cnt_lt_none rows r) by (intros k Hk; specialize (Hx k Hk); lia).
    destruct q as [|q]; [simpl; lia|]. simpl in Hq. cbn [nth]. specialize (Hx q ltac:(lia)). lia.
Qed.

Lemma cnt_lt_le rows r : (cnt_lt rows r <= length rows)%nat.
Proof. unfold cnt_lt. induction rows as [|x l IH]; simpl; [lia|]. destruct (x <? r); simpl; lia. Qed.

Lemma cnt_lt_mono rows r r' : r <= r' -> (cnt_lt rows r <= cnt_lt rows r')%nat.
Proof.
  intros H. unfold cnt_lt. induction rows as [|x l IH]; simpl; [lia|].
  destruct (Z.ltb_spec x r), (Z.ltb_spec x r'); simpl; lia.
Qed.

Lemma nth_map_error {A B} (f : A -> B) l q d p : nth_error l q = Some p -> nth q (map f l) d = f p.
Proof. intros H. apply nth_error_nth. apply map_nth_error. exact H. Qed.

Lemma nth_error_lt {A} (l : list A) q : (q < length l)%nat -> exists p, nth_error l q = Some p.
Proof. intros H. destruct (nth_error l q) eqn:E; [eauto|]. apply nth_error_None in E. lia. Qed.

Lemma SS_nth_error {A} (R : A -> A -> Prop) l : StronglySorted R l ->
  forall p q a b, (p < q)%nat -> nth_error l p = Some a -> nth_error l q = Some b -> R a b.
Proof.
  induction 1 as [|x l Hs IH Hall]; intros p q a b Hpq Ha Hb; [destruct p; discriminate|].
  destruct q as [|q]; [lia|]. destruct p as [|p]; simpl in Ha, Hb.
  - inversion Ha; subst. rewrite Forall_forall in Hall. apply Hall. eapply nth_error_In; eauto.
  - eapply IH; [|eauto|eauto]. lia.
Qed.

Lemma rc_unique cs R C r c : 0 <= C < cs -> 0 <= c < cs -> R * cs + C = r * cs + c -> R = r /\ C = c.
Proof.
  intros HC Hc E. destruct (Z.lt_trichotomy R r) as [H|[H|H]].
  - exfalso. assert (cs <= (r - R) * cs) by nia. nia.
  - subst. lia.
  - exfalso. assert (cs <= (R - r) * cs) by nia. nia.
Qed.

(* ================================================================ a CSR matrix built from a sorted key list *)
Section CSR.
  Variable V : Type.
  Variable s : list (Z * V).
  Variables rs cs : Z.
  Variables rowf colf : Z * V -> Z.
  Hypothesis Hs : StronglySorted (fun a b : Z * V => fst a < fst b) s.
  Hypothesis Hrc : forall p, In p s -> 0 <= rowf p < rs /\ 0 <= colf p < cs /\ rowf p * cs + colf p = fst p.

  Let keys := map fst s.
  Let rowsL := map rowf s.
  Let colsL := map colf s.
  Let n := length s.

  Lemma csr_entry q : (q < n)%nat ->
    0 <= nth q rowsL 0 < rs /\ 0 <= nth q colsL 0 < cs /\ nth q rowsL 0 * cs + nth q colsL 0 = nth q keys 0.
  Proof.
    intros Hq. destruct (nth_error_lt s q Hq) as [p Hp]. unfold rowsL, colsL, keys.
    rewrite (nth_map_error rowf s q 0 p Hp), (nth_map_error colf s q 0 p Hp), (nth_map_error fst s q 0 p Hp).
    apply Hrc. eapply nth_error_In; eauto.
  Qed.

  Lemma keys_lt p q : (p < q)%nat -> (q < n)%nat -> nth p keys 0 < nth q keys 0.
  Proof.
    intros Hpq Hq. destruct (nth_error_lt s q Hq) as [b Hb]. destruct (nth_error_lt s p ltac:(unfold n in *; lia)) as [a Ha].
    unfold keys. rewrite (nth_map_error fst s p 0 a Ha), (nth_map_error fst s q 0 b Hb).
    apply (SS_nth_error _ s Hs p q a b Hpq Ha Hb).
  Qed.

  Lemma rows_mono : mono rowsL.
  Proof.
    intros p q Hpq Hq. unfold rowsL in Hq. rewrite map_length in Hq. fold n in Hq.
    destruct (Nat.eq_dec p q) as [->|Hne]; [lia|].
    pose proof (keys_lt p q ltac:(lia) Hq). destruct (csr_entry p ltac:(lia)) as [? [? ?]]. destruct (csr_entry q Hq) as [? [? ?]]. nia.
  Qed.

  Lemma rows_nonneg : Forall (fun x => 0 <= x) rowsL.
  Proof. unfold rowsL. rewrite Forall_map. apply Forall_forall. intros p Hp. apply Hrc in Hp. lia. Qed.

  Definition rstart (r : Z) : nat := cnt_lt rowsL r.

  Lemma ip_nth (r : nat) : (r <= Z.to_nat rs)%nat -> nth r (indptr_of rowsL rs) 0 = Z.of_nat (rstart (Z.of_nat r)).
  Proof. intros H. apply indptr_of_nth; [apply rows_nonneg|exact H]. Qed.

  Lemma in_row r q : (q < n)%nat -> ((rstart r <= q < rstart (r + 1))%nat <-> nth q rowsL 0 = r).
  Proof.
    intros Hq. assert (Hl : (q < length rowsL)%nat) by (unfold rowsL; rewrite map_length; exact Hq).
    pose proof (cnt_lt_partition rowsL r rows_mono q Hl) as H1.
    pose proof (cnt_lt_partition rowsL (r + 1) rows_mono q Hl) as H2. unfold rstart. lia.
  Qed.

  Lemma rstart_bounds r : (rstart r <= rstart (r + 1) <= n)%nat.
  Proof.
    unfold rstart. split; [apply cnt_lt_mono; lia|]. etransitivity; [apply cnt_lt_le|]. unfold rowsL. rewrite map_length. apply Nat.le_refl.
  Qed.

  Lemma seg_cols_nth r k : (k < rstart (r + 1) - rstart r)%nat -> nth k (seg colsL (rstart r) (rstart (r + 1))) 0 = nth (rstart r + k) colsL 0.
  Proof. intros H. apply seg_nth. exact H. Qed.

  Lemma seg_cols_length r : length (seg colsL (rstart r) (rstart (r + 1))) = (rstart (r + 1) - rstart r)%nat.
  Proof. apply seg_length. unfold colsL. rewrite map_length. apply rstart_bounds. Qed.

  (* within a row the column numbers increase *)
  Lemma seg_cols_sincr r : sincr (seg colsL (rstart r) (rstart (r + 1))).
  Proof.
    intros p q Hpq Hq. rewrite seg_cols_length in Hq. rewrite !seg_cols_nth by lia.
    pose proof (rstart_bounds r) as Hb.
    assert (Hqn : (rstart r + q < n)%nat) by lia. assert (Hpn : (rstart r + p < n)%nat) by lia.
    pose proof (proj1 (in_row r _ Hqn) ltac:(lia)) as Rq. pose proof (proj1 (in_row r _ Hpn) ltac:(lia)) as Rp.
    pose proof (keys_lt (rstart r + p) (rstart r + q) ltac:(lia) Hqn).
    destruct (csr_entry _ Hqn) as [_ [_ Eq]]. destruct (csr_entry _ Hpn) as [_ [_ Ep]]. nia.
  Qed.

  Lemma find_keys_some k q : (q < n)%nat -> nth q keys 0 = k -> find_pos keys k 0 = Some q.
  Proof.
    intros Hq Hk. apply find_pos_first; [unfold keys; rewrite map_length; exact Hq|exact Hk|].
    intros j Hj. pose proof (keys_lt j q Hj Hq). lia.
  Qed.

  (* the search in row r for column c finds the position of key r*cs + c *)
  Lemma row_find r c : 0 <= c < cs ->
    match find_pos (seg colsL (rstart r) (rstart (r + 1))) c 0 with
    | Some p => find_pos keys (r * cs + c) 0 = Some (p + rstart r)%nat
    | None => find_pos keys (r * cs + c) 0 = None
    end.
  Proof.
    intros Hc. pose proof (rstart_bounds r) as Hb.
    destruct (find_pos (seg colsL (rstart r) (rstart (r + 1))) c 0) as [p|] eqn:E.
    - apply find_pos_some in E. destruct E as [_ [Hp [Hv _]]]. rewrite Nat.sub_0_r in *. rewrite seg_cols_length in Hp.
      rewrite seg_cols_nth in Hv by exact Hp.
      assert (Hqn : (rstart r + p < n)%nat) by lia.
      pose proof (proj1 (in_row r _ Hqn) ltac:(lia)) as Rq. destruct (csr_entry _ Hqn) as [_ [_ Eq]].
      replace (p + rstart r)%nat with (rstart r + p)%nat by lia. apply find_keys_some; [exact Hqn|]. rewrite <- Eq, Rq, Hv. reflexivity.
    - apply find_pos_absent. unfold keys. rewrite map_length. fold n. fold keys. intros q Hq Hk.
      destruct (csr_entry q Hq) as [Hr' [Hc' Eq]].
      assert (nth q rowsL 0 = r /\ nth q colsL 0 = c) as [Rq Cq] by (apply (rc_unique cs); lia).
      apply (in_row r q Hq) in Rq.
      apply (find_pos_none _ c 0 E (q - rstart r)%nat); [rewrite seg_cols_length; lia|].
      rewrite seg_cols_nth by lia. replace (rstart r + (q - rstart r))%nat with q by lia. exact Cq.
  Qed.

  Lemma row_spec_keys r CL :
    Forall (fun c => 0 <= c < cs) CL ->
    row_spec (seg colsL (rstart r) (rstart (r + 1))) CL (rstart r)
    = flat_map (fun cc => match find_pos keys (r * cs + nth cc CL 0) 0 with
                          | Some q => [(q, cc)]
                          | None => []
                          end) (seq 0 (length CL)).
  Proof.
    intros HCL. unfold row_spec. apply flat_map_ext_in. intros cc Hcc. apply in_seq0 in Hcc.
    assert (Hc : 0 <= nth cc CL 0 < cs) by (rewrite Forall_forall in HCL; apply HCL, nth_In; exact Hcc).
    pose proof (row_find r _ Hc) as H.
    destruct (find_pos (seg colsL (rstart r) (rstart (r + 1))) (nth cc CL 0) 0); rewrite H; reflexivity.
  Qed.
End CSR.

(* ================================================================ the kernels' output over the selected rows *)

Lemma spec_rows_map (ai : list Z) (A B : Z -> nat) (CL : list Z) : forall (RW : list Z) last,
  spec_rows ai (map (fun r => (A r, B r)) RW) CL last
  = (flat_map (fun r => row_spec (seg ai (A r) (B r)) CL (A r)) RW,
     cumsum_from last (map (fun r => Z.of_nat (length (row_spec (seg ai (A r) (B r)) CL (A r)))) RW)).
Proof.
  induction RW as [|r RW IH]; intros last; [reflexivity|].
  cbn [map spec_rows flat_map cumsum_from]. rewrite IH. reflexivity.
Qed.

(* row_numbers of cumulative counts: runs of the row index *)
Fixpoint runs (r : Z) (lens : list Z) : list Z :=
  match lens with
  | [] => []
  | len :: L => repeat r (Z.to_nat len) ++ runs (r + 1) L
  end.

Lemma row_numbers_go_cumsum lens : forall r a,
  row_numbers_go r (a :: cumsum_from a lens) = runs r lens.
Proof.
  induction lens as [|len L IH]; intros r a; [reflexivity|].
  cbn [cumsum_from runs].
  change (row_numbers_go r (a :: (a + len) :: cumsum_from (a + len) L))
    with (repeat r (Z.to_nat (a + len - a)) ++ row_numbers_go (r + 1) ((a + len) :: cumsum_from (a + len) L)).
  rewrite IH. replace (a + len - a) with len by lia. reflexivity.
Qed.

Lemma cnt_lt_app l1 l2 r : cnt_lt (l1 ++ l2) r = (cnt_lt l1 r + cnt_lt l2 r)%nat.
Proof. unfold cnt_lt. rewrite filter_app, app_length. reflexivity. Qed.

Lemma cnt_lt_repeat x m r : cnt_lt (repeat x m) r = if x <? r then m else 0%nat.
Proof.
  unfold cnt_lt. induction m as [|m IH]; [destruct (x <? r); reflexivity|]. cbn [repeat filter].
  destruct (x <? r); cbn [length]; rewrite IH; reflexivity.
Qed.

Lemma zsum_app l1 l2 : zsum (l1 ++ l2) = zsum l1 + zsum l2.
Proof. induction l1; simpl; lia. Qed.

Lemma runs_in_range lens : forall r x, In x (runs r lens) -> r <= x < r + Z.of_nat (length lens).
Proof.
  induction lens as [|l L IH]; intros r x Hin; [destruct Hin|]. cbn [runs] in Hin. apply in_app_iff in Hin.
  cbn [length]. destruct Hin as [Hin|Hin]; [apply repeat_spec in Hin; lia|apply IH in Hin; lia].
Qed.

Lemma cnt_lt_runs lens : forall r (k : nat),
  Forall (fun x => 0 <= x) lens -> (k <= length lens)%nat ->
  Z.of_nat (cnt_lt (runs r lens) (r + Z.of_nat k)) = zsum (firstn k lens).
Proof.
  induction lens as [|len L IH]; intros r k Hnn Hk.
  - simpl in Hk. assert (k = 0%nat) by lia. subst. reflexivity.
  - inversion Hnn as [|? ? Hlen HL]; subst. cbn [runs]. rewrite cnt_lt_app, cnt_lt_repeat.
    destruct k as [|k].
    + rewrite Z.add_0_r. destruct (Z.ltb_spec r r); [lia|]. cbn [firstn zsum].
      (* nothing of the later runs is below r *)
      rewrite (cnt_lt_none (runs (r + 1) L) r); [reflexivity|].
      intros q Hq. assert (Hin : In (nth q (runs (r + 1) L) 0) (runs (r + 1) L)) by (apply nth_In; exact Hq).
      apply runs_in_range in Hin. lia.
    + simpl in Hk. destruct (Z.ltb_spec r (r + Z.of_nat (S k))); [|lia]. cbn [firstn zsum].
      replace (r + Z.of_nat (S k)) with (r + 1 + Z.of_nat k) by lia.
      rewrite Nat2Z.inj_add, (IH (r + 1) k HL ltac:(lia)). lia.
Qed.

Lemma nth_cumsum l : forall a k, (k <= length l)%nat -> nth k (a :: cumsum_from a l) 0 = a + zsum (firstn k l).
Proof.
  induction l as [|x l IH]; intros a k Hk.
  - simpl in Hk. assert (k = 0%nat) by lia. subst. simpl. lia.
  - destruct k as [|k]; [simpl; lia|]. simpl in Hk.
    change (nth (S k) (a :: cumsum_from a (x :: l)) 0) with (nth k ((a + x) :: cumsum_from (a + x) l) 0).
    rewrite (IH (a + x) k) by lia. cbn [firstn zsum]. lia.
Qed.

Lemma list_eq_nth (l1 l2 : list Z) :
  length l1 = length l2 -> (forall k, (k < length l1)%nat -> nth k l1 0 = nth k l2 0) -> l1 = l2.
Proof.
  revert l2. induction l1 as [|a l1 IH]; intros [|b l2] Hl H; try discriminate; [reflexivity|].
  f_equal; [apply (H 0%nat); simpl; lia|]. apply IH; [simpl in Hl; lia|]. intros k Hk. apply (H (S k)). simpl. lia.
Qed.

(* the kernels' running totals are indptr_of the row index of every selected element *)
Lemma cumsum_indptr_of lens :
  Forall (fun x => 0 <= x) lens ->
  0 :: cumsum_from 0 lens = indptr_of (runs 0 lens) (Z.of_nat (length lens)).
Proof.
  intros Hnn. apply list_eq_nth.
  - unfold indptr_of, bincount. cbn [length]. rewrite !cumsum_length, map_length, zrange_length. lia.
  - intros k Hk. cbn [length] in Hk. rewrite cumsum_length in Hk.
    rewrite nth_cumsum by lia. rewrite indptr_of_nth.
    + rewrite <- (cnt_lt_runs lens 0 k Hnn ltac:(lia)). reflexivity.
    + apply Forall_forall. intros x Hx. apply runs_in_range in Hx. lia.
    + lia.
Qed.
