(* Proofs/GcxsGetitemP.v — the GCXS getitem wrapper (Model/GcxsGetitem.v) against the COO getitem
   through GCXS.from_coo: for a GCXS array g = from_coo(c), g[ix] is from_coo(c[ix]) — the same
   data / indices / indptr / compressed axes — so that well-formedness and the dense meaning of the
   result follow from agent c05's conversion theorems and the COO indexing theorems. *)
From Coq Require Import ZArith List Bool Lia ZifyBool Sorting.Sorted Sorting.Permutation.
From Verif Require Import Py PySlice Shape COO COOP GCXS Convert ConvertL ConvertG NpIndex CooIndex
     CooIndexMaskP CooIndexNormP CooIndexP GcxsIndex GcxsIndexP GcxsGetitem.
Import ListNotations.
Open Scope Z_scope.

(* ================================================================ indptr_of: pointers are counts *)

Definition cnt_lt (rows : list Z) (r : Z) : nat := length (filter (fun x => x <? r) rows).

Lemma cnt_lt_succ rows r :
  cnt_lt rows (r + 1) = (cnt_lt rows r + length (filter (Z.eqb r) rows))%nat.
Proof.
  unfold cnt_lt. induction rows as [|x rows IH]; [reflexivity|]. cbn [filter].
  destruct (Z.ltb_spec x (r + 1)), (Z.ltb_spec x r), (Z.eqb_spec r x); cbn [length]; try lia.
Qed.

Lemma cnt_lt_0 rows : Forall (fun x => 0 <= x) rows -> cnt_lt rows 0 = 0%nat.
Proof.
  unfold cnt_lt. induction 1 as [|x rows Hx Hr IH]; [reflexivity|]. cbn [filter].
  destruct (Z.ltb_spec x 0); [lia|exact IH].
Qed.

Lemma cumsum_step l : forall a k, (k < length l)%nat ->
  nth (S k) (a :: cumsum_from a l) 0 = nth k (a :: cumsum_from a l) 0 + nth k l 0.
Proof.
  induction l as [|x l IH]; intros a k Hk; [simpl in Hk; lia|].
  destruct k as [|k]; [reflexivity|]. simpl in Hk. cbn [cumsum_from nth].
  change (nth (S k) ((a + x) :: cumsum_from (a + x) l) 0 = nth k ((a + x) :: cumsum_from (a + x) l) 0 + nth k l 0).
  apply IH. lia.
Qed.

Lemma nth_zrange m k : (k < Z.to_nat m)%nat -> nth k (zrange m) 0 = Z.of_nat k.
Proof.
  intros H. unfold zrange. rewrite (nth_indep _ 0 (Z.of_nat 0)) by (rewrite map_length, seq_length; exact H).
  rewrite map_nth, seq_nth by exact H. reflexivity.
Qed.

Lemma indptr_of_nth rows m (r : nat) :
  Forall (fun x => 0 <= x) rows -> (r <= Z.to_nat m)%nat ->
  nth r (indptr_of rows m) 0 = Z.of_nat (cnt_lt rows (Z.of_nat r)).
Proof.
  intros Hr. unfold indptr_of, bincount. induction r as [|r IH]; intros Hm.
  - simpl nth. rewrite cnt_lt_0 by assumption. reflexivity.
  - rewrite cumsum_step by (rewrite map_length, zrange_length; lia). rewrite IH by lia.
    rewrite (nth_indep _ 0 (count_z rows 0)) by (rewrite map_length, zrange_length; lia).
    rewrite map_nth, nth_zrange by lia.
    rewrite Nat2Z.inj_succ. unfold Z.succ. rewrite cnt_lt_succ. unfold count_z. lia.
Qed.

(* sorted rows: the count below r is the partition point *)
Lemma cnt_lt_none rows r : (forall q, (q < length rows)%nat -> r <= nth q rows 0) -> cnt_lt rows r = 0%nat.
Proof.
  unfold cnt_lt. induction rows as [|x rows IH]; intros H; [reflexivity|]. cbn [filter].
  pose proof (H 0%nat ltac:(simpl; lia)) as H0. simpl in H0. destruct (Z.ltb_spec x r); [lia|].
  apply IH. intros q Hq. apply (H (S q)). simpl. lia.
Qed.

Lemma cnt_lt_partition rows r : mono rows ->
  forall q, (q < length rows)%nat -> ((q < cnt_lt rows r)%nat <-> nth q rows 0 < r).
Proof.
  induction rows as [|x rows IH]; intros Hm q Hq; [simpl in Hq; lia|].
  apply mono_tail in Hm. destruct Hm as [Hm Hx].
  assert (E : cnt_lt (x :: rows) r = ((if (x <? r)%Z then 1 else 0) + cnt_lt rows r)%nat).
  { unfold cnt_lt. cbn [filter]. destruct (x <? r); reflexivity. }
  rewrite E. destruct (Z.ltb_spec x r) as [Hxr|Hxr].
  - destruct q as [|q]; [simpl; lia|]. simpl in Hq. cbn [nth]. rewrite <- (IH Hm q) by lia. lia.
  - rewrite (cnt_lt_none rows r) by (intros k Hk; specialize (Hx k Hk); lia).
    destruct q as [|q]; [simpl; lia|]. simpl in Hq. cbn [nth]. specialize (Hx q ltac:(lia)). lia.
Qed.

Lemma cnt_lt_le rows r : (cnt_lt rows r <= length rows)%nat.
Proof. unfold cnt_lt. induction rows as [|x l IH]; simpl; [lia|]. destruct (x <? r); simpl; lia. Qed.

Lemma cnt_lt_mono rows r r' : r <= r' -> (cnt_lt rows r <= cnt_lt rows r')%nat.
Proof.
  intros H. unfold cnt_lt. induction rows as [|x l IH]; simpl; [lia|].
  destruct (Z.ltb_spec x r), (Z.ltb_spec x r'); simpl; lia.
Qed.

Lemma nth_map_error {A B} (f : A -> B) l q d p : nth_error l q = Some p -> nth q (map f l) d = f p.
Proof. intros H. apply nth_error_nth. apply map_nth_error. exact H. Qed.

Lemma nth_error_lt {A} (l : list A) q : (q < length l)%nat -> exists p, nth_error l q = Some p.
Proof. intros H. destruct (nth_error l q) eqn:E; [eauto|]. apply nth_error_None in E. lia. Qed.

Lemma SS_nth_error {A} (R : A -> A -> Prop) l : StronglySorted R l ->
  forall p q a b, (p < q)%nat -> nth_error l p = Some a -> nth_error l q = Some b -> R a b.
Proof.
  induction 1 as [|x l Hs IH Hall]; intros p q a b Hpq Ha Hb; [destruct p; discriminate|].
  destruct q as [|q]; [lia|]. destruct p as [|p]; simpl in Ha, Hb.
  - inversion Ha; subst. rewrite Forall_forall in Hall. apply Hall. eapply nth_error_In; eauto.
  - eapply IH; [|eauto|eauto]. lia.
Qed.

Lemma rc_unique cs R C r c : 0 <= C < cs -> 0 <= c < cs -> R * cs + C = r * cs + c -> R = r /\ C = c.
Proof.
  intros HC Hc E. destruct (Z.lt_trichotomy R r) as [H|[H|H]].
  - exfalso. assert (cs <= (r - R) * cs) by nia. nia.
  - subst. lia.
  - exfalso. assert (cs <= (R - r) * cs) by nia. nia.
Qed.

(* ================================================================ a CSR matrix built from a sorted key list *)
Section CSR.
  Variable V : Type.
  Variable s : list (Z * V).
  Variables rs cs : Z.
  Variables rowf colf : Z * V -> Z.
  Hypothesis Hs : StronglySorted (fun a b : Z * V => fst a < fst b) s.
  Hypothesis Hrc : forall p, In p s -> 0 <= rowf p < rs /\ 0 <= colf p < cs /\ rowf p * cs + colf p = fst p.

  Let keys := map fst s.
  Let rowsL := map rowf s.
  Let colsL := map colf s.
  Let n := length s.

  Lemma csr_entry q : (q < n)%nat ->
    0 <= nth q rowsL 0 < rs /\ 0 <= nth q colsL 0 < cs /\ nth q rowsL 0 * cs + nth q colsL 0 = nth q keys 0.
  Proof.
    intros Hq. destruct (nth_error_lt s q Hq) as [p Hp]. unfold rowsL, colsL, keys.
    rewrite (nth_map_error rowf s q 0 p Hp), (nth_map_error colf s q 0 p Hp), (nth_map_error fst s q 0 p Hp).
    apply Hrc. eapply nth_error_In; eauto.
  Qed.

  Lemma keys_lt p q : (p < q)%nat -> (q < n)%nat -> nth p keys 0 < nth q keys 0.
  Proof.
    intros Hpq Hq. destruct (nth_error_lt s q Hq) as [b Hb]. destruct (nth_error_lt s p ltac:(unfold n in *; lia)) as [a Ha].
    unfold keys. rewrite (nth_map_error fst s p 0 a Ha), (nth_map_error fst s q 0 b Hb).
    apply (SS_nth_error _ s Hs p q a b Hpq Ha Hb).
  Qed.

  Lemma rows_mono : mono rowsL.
  Proof.
    intros p q Hpq Hq. unfold rowsL in Hq. rewrite map_length in Hq. fold n in Hq.
    destruct (Nat.eq_dec p q) as [->|Hne]; [lia|].
    pose proof (keys_lt p q ltac:(lia) Hq). destruct (csr_entry p ltac:(lia)) as [? [? ?]]. destruct (csr_entry q Hq) as [? [? ?]]. nia.
  Qed.

  Lemma rows_nonneg : Forall (fun x => 0 <= x) rowsL.
  Proof. unfold rowsL. rewrite Forall_map. apply Forall_forall. intros p Hp. apply Hrc in Hp. lia. Qed.

  Definition rstart (r : Z) : nat := cnt_lt rowsL r.

  Lemma ip_nth (r : nat) : (r <= Z.to_nat rs)%nat -> nth r (indptr_of rowsL rs) 0 = Z.of_nat (rstart (Z.of_nat r)).
  Proof. intros H. apply indptr_of_nth; [apply rows_nonneg|exact H]. Qed.

  Lemma in_row r q : (q < n)%nat -> ((rstart r <= q < rstart (r + 1))%nat <-> nth q rowsL 0 = r).
  Proof.
    intros Hq. assert (Hl : (q < length rowsL)%nat) by (unfold rowsL; rewrite map_length; exact Hq).
    pose proof (cnt_lt_partition rowsL r rows_mono q Hl) as H1.
    pose proof (cnt_lt_partition rowsL (r + 1) rows_mono q Hl) as H2. unfold rstart. lia.
  Qed.

  Lemma rstart_bounds r : (rstart r <= rstart (r + 1) <= n)%nat.
  Proof.
    unfold rstart. split; [apply cnt_lt_mono; lia|]. etransitivity; [apply cnt_lt_le|]. unfold rowsL. rewrite map_length. apply Nat.le_refl.
  Qed.

  Lemma seg_cols_nth r k : (k < rstart (r + 1) - rstart r)%nat -> nth k (seg colsL (rstart r) (rstart (r + 1))) 0 = nth (rstart r + k) colsL 0.
  Proof. intros H. apply seg_nth. exact H. Qed.

  Lemma seg_cols_length r : length (seg colsL (rstart r) (rstart (r + 1))) = (rstart (r + 1) - rstart r)%nat.
  Proof. apply seg_length. unfold colsL. rewrite map_length. apply rstart_bounds. Qed.

  (* within a row the column numbers increase *)
  Lemma seg_cols_sincr r : sincr (seg colsL (rstart r) (rstart (r + 1))).
  Proof.
    intros p q Hpq Hq. rewrite seg_cols_length in Hq. rewrite !seg_cols_nth by lia.
    pose proof (rstart_bounds r) as Hb.
    assert (Hqn : (rstart r + q < n)%nat) by lia. assert (Hpn : (rstart r + p < n)%nat) by lia.
    pose proof (proj1 (in_row r _ Hqn) ltac:(lia)) as Rq. pose proof (proj1 (in_row r _ Hpn) ltac:(lia)) as Rp.
    pose proof (keys_lt (rstart r + p) (rstart r + q) ltac:(lia) Hqn).
    destruct (csr_entry _ Hqn) as [_ [_ Eq]]. destruct (csr_entry _ Hpn) as [_ [_ Ep]]. nia.
  Qed.

  Lemma find_keys_some k q : (q < n)%nat -> nth q keys 0 = k -> find_pos keys k 0 = Some q.
  Proof.
    intros Hq Hk. apply find_pos_first; [unfold keys; rewrite map_length; exact Hq|exact Hk|].
    intros j Hj. pose proof (keys_lt j q Hj Hq). lia.
  Qed.

  (* the search in row r for column c finds the position of key r*cs + c *)
  Lemma row_find r c : 0 <= c < cs ->
    match find_pos (seg colsL (rstart r) (rstart (r + 1))) c 0 with
    | Some p => find_pos keys (r * cs + c) 0 = Some (p + rstart r)%nat
    | None => find_pos keys (r * cs + c) 0 = None
    end.
  Proof.
    intros Hc. pose proof (rstart_bounds r) as Hb.
    destruct (find_pos (seg colsL (rstart r) (rstart (r + 1))) c 0) as [p|] eqn:E.
    - apply find_pos_some in E. destruct E as [_ [Hp [Hv _]]]. rewrite Nat.sub_0_r in *. rewrite seg_cols_length in Hp.
      rewrite seg_cols_nth in Hv by exact Hp.
      assert (Hqn : (rstart r + p < n)%nat) by lia.
      pose proof (proj1 (in_row r _ Hqn) ltac:(lia)) as Rq. destruct (csr_entry _ Hqn) as [_ [_ Eq]].
      replace (p + rstart r)%nat with (rstart r + p)%nat by lia. apply find_keys_some; [exact Hqn|]. rewrite <- Eq, Rq, Hv. reflexivity.
    - apply find_pos_absent. unfold keys. rewrite map_length. fold n. fold keys. intros q Hq Hk.
      destruct (csr_entry q Hq) as [Hr' [Hc' Eq]].
      assert (nth q rowsL 0 = r /\ nth q colsL 0 = c) as [Rq Cq] by (apply (rc_unique cs); lia).
      apply (in_row r q Hq) in Rq.
      apply (find_pos_none _ c 0 E (q - rstart r)%nat); [rewrite seg_cols_length; lia|].
      rewrite seg_cols_nth by lia. replace (rstart r + (q - rstart r))%nat with q by lia. exact Cq.
  Qed.

  Lemma row_spec_keys r CL :
    Forall (fun c => 0 <= c < cs) CL ->
    row_spec (seg colsL (rstart r) (rstart (r + 1))) CL (rstart r)
    = flat_map (fun cc => match find_pos keys (r * cs + nth cc CL 0) 0 with
                          | Some q => [(q, cc)]
                          | None => []
                          end) (seq 0 (length CL)).
  Proof.
    intros HCL. unfold row_spec. apply flat_map_ext_in. intros cc Hcc. apply in_seq0 in Hcc.
    assert (Hc : 0 <= nth cc CL 0 < cs) by (rewrite Forall_forall in HCL; apply HCL, nth_In; exact Hcc).
    pose proof (row_find r _ Hc) as H.
    destruct (find_pos (seg colsL (rstart r) (rstart (r + 1))) (nth cc CL 0) 0); rewrite H; reflexivity.
  Qed.
End CSR.

(* ================================================================ the kernels' output over the selected rows *)

Lemma spec_rows_map (ai : list Z) (A B : Z -> nat) (CL : list Z) : forall (RW : list Z) last,
  spec_rows ai (map (fun r => (A r, B r)) RW) CL last
  = (flat_map (fun r => row_spec (seg ai (A r) (B r)) CL (A r)) RW,
     cumsum_from last (map (fun r => Z.of_nat (length (row_spec (seg ai (A r) (B r)) CL (A r)))) RW)).
Proof.
  induction RW as [|r RW IH]; intros last; [reflexivity|].
  cbn [map spec_rows flat_map cumsum_from]. rewrite IH. reflexivity.
Qed.

(* row_numbers of cumulative counts: runs of the row index *)
Fixpoint runs (r : Z) (lens : list Z) : list Z :=
  match lens with
  | [] => []
  | len :: L => repeat r (Z.to_nat len) ++ runs (r + 1) L
  end.

Lemma row_numbers_go_cumsum lens : forall r a,
  row_numbers_go r (a :: cumsum_from a lens) = runs r lens.
Proof.
  induction lens as [|len L IH]; intros r a; [reflexivity|].
  cbn [cumsum_from runs].
  change (row_numbers_go r (a :: (a + len) :: cumsum_from (a + len) L))
    with (repeat r (Z.to_nat (a + len - a)) ++ row_numbers_go (r + 1) ((a + len) :: cumsum_from (a + len) L)).
  rewrite IH. replace (a + len - a) with len by lia. reflexivity.
Qed.

Lemma cnt_lt_app l1 l2 r : cnt_lt (l1 ++ l2) r = (cnt_lt l1 r + cnt_lt l2 r)%nat.
Proof. unfold cnt_lt. rewrite filter_app, app_length. reflexivity. Qed.

Lemma cnt_lt_repeat x m r : cnt_lt (repeat x m) r = if x <? r then m else 0%nat.
Proof.
  unfold cnt_lt. induction m as [|m IH]; [destruct (x <? r); reflexivity|]. cbn [repeat filter].
  destruct (x <? r); cbn [length]; rewrite IH; reflexivity.
Qed.

Lemma zsum_app l1 l2 : zsum (l1 ++ l2) = zsum l1 + zsum l2.
Proof. induction l1; simpl; lia. Qed.

Lemma runs_in_range lens : forall r x, In x (runs r lens) -> r <= x < r + Z.of_nat (length lens).
Proof.
  induction lens as [|l L IH]; intros r x Hin; [destruct Hin|]. cbn [runs] in Hin. apply in_app_iff in Hin.
  cbn [length]. destruct Hin as [Hin|Hin]; [apply repeat_spec in Hin; lia|apply IH in Hin; lia].
Qed.

Lemma cnt_lt_runs lens : forall r (k : nat),
  Forall (fun x => 0 <= x) lens -> (k <= length lens)%nat ->
  Z.of_nat (cnt_lt (runs r lens) (r + Z.of_nat k)) = zsum (firstn k lens).
Proof.
  induction lens as [|len L IH]; intros r k Hnn Hk.
  - simpl in Hk. assert (k = 0%nat) by lia. subst. reflexivity.
  - inversion Hnn as [|? ? Hlen HL]; subst. cbn [runs]. rewrite cnt_lt_app, cnt_lt_repeat.
    destruct k as [|k].
    + rewrite Z.add_0_r. destruct (Z.ltb_spec r r); [lia|]. cbn [firstn zsum].
      (* nothing of the later runs is below r *)
      rewrite (cnt_lt_none (runs (r + 1) L) r); [reflexivity|].
      intros q Hq. assert (Hin : In (nth q (runs (r + 1) L) 0) (runs (r + 1) L)) by (apply nth_In; exact Hq).
      apply runs_in_range in Hin. lia.
    + simpl in Hk. destruct (Z.ltb_spec r (r + Z.of_nat (S k))); [|lia]. cbn [firstn zsum].
      replace (r + Z.of_nat (S k)) with (r + 1 + Z.of_nat k) by lia.
      rewrite Nat2Z.inj_add, (IH (r + 1) k HL ltac:(lia)). lia.
Qed.

Lemma nth_cumsum l : forall a k, (k <= length l)%nat -> nth k (a :: cumsum_from a l) 0 = a + zsum (firstn k l).
Proof.
  induction l as [|x l IH]; intros a k Hk.
  - simpl in Hk. assert (k = 0%nat) by lia. subst. simpl. lia.
  - destruct k as [|k]; [simpl; lia|]. simpl in Hk.
    change (nth (S k) (a :: cumsum_from a (x :: l)) 0) with (nth k ((a + x) :: cumsum_from (a + x) l) 0).
    rewrite (IH (a + x) k) by lia. cbn [firstn zsum]. lia.
Qed.

Lemma list_eq_nth (l1 l2 : list Z) :
  length l1 = length l2 -> (forall k, (k < length l1)%nat -> nth k l1 0 = nth k l2 0) -> l1 = l2.
Proof.
  revert l2. induction l1 as [|a l1 IH]; intros [|b l2] Hl H; try discriminate; [reflexivity|].
  f_equal; [apply (H 0%nat); simpl; lia|]. apply IH; [simpl in Hl; lia|]. intros k Hk. apply (H (S k)). simpl. lia.
Qed.

(* the kernels' running totals are indptr_of the row index of every selected element *)
Lemma cumsum_indptr_of lens :
  Forall (fun x => 0 <= x) lens ->
  0 :: cumsum_from 0 lens = indptr_of (runs 0 lens) (Z.of_nat (length lens)).
Proof.
  intros Hnn. apply list_eq_nth.
  - unfold indptr_of, bincount. cbn [length]. rewrite !cumsum_length, map_length, zrange_length. lia.
  - intros k Hk. cbn [length] in Hk. rewrite cumsum_length in Hk.
    rewrite nth_cumsum by lia. rewrite indptr_of_nth.
    + rewrite <- (cnt_lt_runs lens 0 k Hnn ltac:(lia)). reflexivity.
    + apply Forall_forall. intros x Hx. apply runs_in_range in Hx. lia.
    + lia.
Qed.

(* ================================================================ convert_to_flat: row-major enumeration *)
Fixpoint prod_lists (ls : list (list Z)) : list (list Z) :=
  match ls with
  | [] => [[]]
  | l :: r => flat_map (fun a => map (cons a) (prod_lists r)) l
  end.

Definition lens_of (ls : list (list Z)) : list Z := map (fun l => Z.of_nat (length l)) ls.

Fixpoint zats (ls : list (list Z)) (ps : list Z) : list Z :=
  match ls, ps with
  | l :: r, p :: ps' => zat l p :: zats r ps'
  | _, _ => []
  end.

Lemma flat_map_map' {A B C} (g : A -> B) (f : B -> list C) l : flat_map f (map g l) = flat_map (fun a => f (g a)) l.
Proof. induction l as [|a l IH]; simpl; [reflexivity|]. rewrite IH. reflexivity. Qed.

Lemma map_flat_map {A B C} (h : B -> C) (f : A -> list B) l : map h (flat_map f l) = flat_map (fun a => map h (f a)) l.
Proof. induction l as [|a l IH]; simpl; [reflexivity|]. rewrite map_app, IH. reflexivity. Qed.

Lemma convert_to_flat_ravel : forall (Vs : list (list Z)) (sh : shape),
  length Vs = length sh -> convert_to_flat Vs sh = map (ravel sh) (prod_lists Vs).
Proof.
  unfold convert_to_flat. induction Vs as [|l Vs IH]; intros [|d sh] Hlen; try discriminate; [reflexivity|].
  simpl in Hlen. cbn [shape_bins scale_all flat_sums prod_lists]. rewrite (IH sh) by lia.
  rewrite flat_map_map', map_flat_map.
  apply flat_map_ext. intros a. rewrite !map_map. apply map_ext. intros t. cbn [ravel]. lia.
Qed.

Lemma prod_lists_length Vs : Z.of_nat (length (prod_lists Vs)) = size (lens_of Vs).
Proof.
  induction Vs as [|l Vs IH]; [reflexivity|].
  change (lens_of (l :: Vs)) with (Z.of_nat (length l) :: lens_of Vs). cbn [prod_lists size fold_right].
  fold (size (lens_of Vs)). rewrite <- IH. clear IH. induction l as [|a l IHl]; [reflexivity|].
  cbn [flat_map length]. rewrite app_length, map_length, Nat2Z.inj_add, IHl. lia.
Qed.

Lemma nth_flat_map_block {A B} (f : A -> list B) (m : nat) (d : B) :
  forall (l : list A) (p q : nat) (da : A),
    (forall a, In a l -> length (f a) = m) -> (p < length l)%nat -> (q < m)%nat ->
    nth (p * m + q) (flat_map f l) d = nth q (f (nth p l da)) d.
Proof.
  induction l as [|a l IH]; intros p q da Hm Hp Hq; [simpl in Hp; lia|].
  cbn [flat_map]. destruct p as [|p].
  - cbn [nth]. rewrite Nat.mul_0_l, Nat.add_0_l. rewrite app_nth1 by (rewrite (Hm a (or_introl eq_refl)); exact Hq). reflexivity.
  - cbn [nth]. rewrite app_nth2 by (rewrite (Hm a (or_introl eq_refl)); lia).
    rewrite (Hm a (or_introl eq_refl)). replace (S p * m + q - m)%nat with (p * m + q)%nat by lia.
    apply IH; [intros; apply Hm; right; assumption|simpl in Hp; lia|exact Hq].
Qed.

Lemma nth_prod Vs : forall ps,
  in_range (lens_of Vs) ps ->
  nth (Z.to_nat (ravel (lens_of Vs) ps)) (prod_lists Vs) [] = zats Vs ps.
Proof.
  induction Vs as [|l Vs IH]; intros ps Hr.
  - destruct ps; [reflexivity|simpl in Hr; contradiction].
  - destruct ps as [|p ps]; [simpl in Hr; contradiction|]. cbn [lens_of map in_range] in Hr. fold (lens_of Vs) in Hr.
    destruct Hr as [Hp Hr]. cbn [lens_of map ravel prod_lists zats]. fold (lens_of Vs).
    pose proof (ravel_bounds _ _ Hr) as Hb. pose proof (prod_lists_length Vs) as Hlen.
    set (m := length (prod_lists Vs)) in *.
    replace (Z.to_nat (p * size (lens_of Vs) + ravel (lens_of Vs) ps))
      with (Z.to_nat p * m + Z.to_nat (ravel (lens_of Vs) ps))%nat by nia.
    rewrite (nth_flat_map_block (fun a => map (cons a) (prod_lists Vs)) m [] l (Z.to_nat p) _ 0).
    + rewrite (nth_indep _ [] (zat l p :: [])) by (rewrite map_length; fold m; lia).
      change (zat l p :: []) with ((fun t => zat l p :: t) []) at 1.
      unfold zat at 1. rewrite map_nth. f_equal. apply IH. exact Hr.
    + intros a _. apply map_length.
    + lia.
    + lia.
Qed.

Lemma in_prod Vs : forall t, In t (prod_lists Vs) -> length t = length Vs /\ Forall2 (fun v l => In v l) t Vs.
Proof.
  induction Vs as [|l Vs IH]; intros t Ht.
  - destruct Ht as [<-|[]]. split; [reflexivity|constructor].
  - cbn [prod_lists] in Ht. apply in_flat_map in Ht. destruct Ht as [a [Ha Ht]]. apply in_map_iff in Ht.
    destruct Ht as [t' [<- Ht']]. destruct (IH t' Ht') as [H1 H2]. split; [simpl; lia|constructor; assumption].
Qed.

(* ================================================================ the selected elements as a sorted key list *)
Section Lout.
  Variable V : Type.
  Variable keys : list Z.            (* the (strictly increasing) keys of the source array *)
  Variable data : list V.
  Variable fill : V.
  Variable cs : Z.
  Variable CL : list Z.
  Let ncols := length CL.

  (* what the kernel emits for source row r: (position in the source, requested column) *)
  Definition rowsel (r : Z) : list (nat * nat) :=
    flat_map (fun cc => match find_pos keys (r * cs + nth cc CL 0) 0 with
                        | Some q => [(q, cc)]
                        | None => []
                        end) (seq 0 ncols).

  (* result key (row index * ncols + column index) and value of every selected element *)
  Fixpoint lout (i : Z) (RW : list Z) : list (Z * V) :=
    match RW with
    | [] => []
    | r :: R => map (fun p : nat * nat => (i * Z.of_nat ncols + Z.of_nat (snd p), nth (fst p) data fill)) (rowsel r)
                ++ lout (i + 1) R
    end.

  Lemma rowsel_cc r p : In p (rowsel r) -> (snd p < ncols)%nat /\ find_pos keys (r * cs + nth (snd p) CL 0) 0 = Some (fst p).
  Proof.
    unfold rowsel. intros H. apply in_flat_map in H. destruct H as [cc [Hcc H]]. apply in_seq0 in Hcc.
    destruct (find_pos keys (r * cs + nth cc CL 0) 0) as [q|] eqn:E; [|destruct H]. destruct H as [<-|[]]. simpl. auto.
  Qed.

  Lemma rowsel_intro r cc q : (cc < ncols)%nat -> find_pos keys (r * cs + nth cc CL 0) 0 = Some q -> In (q, cc) (rowsel r).
  Proof.
    intros Hcc E. unfold rowsel. apply in_flat_map. exists cc. split; [apply in_seq0; exact Hcc|]. rewrite E. left. reflexivity.
  Qed.

  Lemma lout_snd : forall RW i,
    map snd (lout i RW) = map (fun p : nat * nat => nth (fst p) data fill) (flat_map rowsel RW).
  Proof.
    induction RW as [|r R IH]; intros i; [reflexivity|]. cbn [lout flat_map]. rewrite !map_app, map_map, IH. reflexivity.
  Qed.

  Lemma lout_mod : forall RW i,
    map (fun e : Z * V => fst e mod Z.of_nat ncols) (lout i RW) = map (fun p : nat * nat => Z.of_nat (snd p)) (flat_map rowsel RW).
  Proof.
    induction RW as [|r R IH]; intros i; [reflexivity|]. cbn [lout flat_map]. rewrite !map_app, map_map, IH. f_equal.
    apply map_ext_in. intros p Hp. apply rowsel_cc in Hp. destruct Hp as [Hp _]. cbn [fst snd].
    rewrite Z.add_comm, Z.mod_add by lia. apply Z.mod_small. lia.
  Qed.

  Lemma lout_div : forall RW i,
    map (fun e : Z * V => fst e / Z.of_nat ncols) (lout i RW) = runs i (map (fun r => Z.of_nat (length (rowsel r))) RW).
  Proof.
    induction RW as [|r R IH]; intros i; [reflexivity|]. cbn [lout map runs]. rewrite map_app, map_map, IH. f_equal.
    rewrite Nat2Z.id. rewrite <- (map_length (fun p : nat * nat => i) (rowsel r)) at 1.
    assert (H : forall (l : list (nat * nat)), (forall p, In p l -> (snd p < ncols)%nat) ->
              map (fun p : nat * nat => (i * Z.of_nat ncols + Z.of_nat (snd p)) / Z.of_nat ncols) l = repeat i (length l)).
    { induction l as [|p l IHl]; intros Hl; [reflexivity|]. cbn [map length repeat]. rewrite IHl by (intros; apply Hl; right; assumption).
      f_equal. specialize (Hl p (or_introl eq_refl)). rewrite Z.add_comm, Z.div_add by lia. rewrite Z.div_small by lia. lia. }
    rewrite map_length. apply H. intros p Hp. apply (rowsel_cc r p Hp).
  Qed.

  Lemma lout_In : forall RW i k v,
    In (k, v) (lout i RW) <->
    exists (m cc q : nat), (m < length RW)%nat /\ (cc < ncols)%nat
      /\ find_pos keys (nth m RW 0 * cs + nth cc CL 0) 0 = Some q
      /\ k = (i + Z.of_nat m) * Z.of_nat ncols + Z.of_nat cc /\ v = nth q data fill.
  Proof.
    induction RW as [|r R IH]; intros i k v.
    - simpl. split; [tauto|]. intros [m [cc [q [Hm _]]]]. lia.
    - cbn [lout]. rewrite in_app_iff, in_map_iff, IH. split.
      + intros [[p [Hp Hin]]|[m [cc [q [Hm [Hcc [E [Hk Hv]]]]]]]].
        * inversion Hp; subst. destruct (rowsel_cc r p Hin) as [H1 H2]. exists 0%nat, (snd p), (fst p).
          cbn [nth length]. repeat split; try lia; auto.
        * exists (S m), cc, q. cbn [nth length]. repeat split; try lia; auto.
      + intros [m [cc [q [Hm [Hcc [E [Hk Hv]]]]]]]. destruct m as [|m].
        * left. exists (q, cc). cbn [nth] in E. split; [cbn [fst snd]; subst; f_equal; lia|apply rowsel_intro; assumption].
        * right. exists m, cc, q. cbn [nth length] in *. repeat split; try lia; auto.
  Qed.

  Lemma rowsel_sorted r i : forall n lo,
    StronglySorted (fun a b : Z * V => fst a < fst b)
      (map (fun p : nat * nat => (i * Z.of_nat ncols + Z.of_nat (snd p), nth (fst p) data fill))
           (flat_map (fun cc => match find_pos keys (r * cs + nth cc CL 0) 0 with
                                | Some q => [(q, cc)] | None => [] end) (seq lo n))).
  Proof.
    induction n as [|m IHm]; intros lo; [constructor|].
    cbn [seq flat_map]. rewrite map_app. apply SS_app; [|apply IHm|].
    - destruct (find_pos keys (r * cs + nth lo CL 0) 0); repeat constructor.
    - intros a b Ha Hb. apply in_map_iff in Ha, Hb. destruct Ha as [pa [<- Ha]], Hb as [pb [<- Hb]]. cbn [fst snd].
      assert (snd pa = lo) by (destruct (find_pos keys (r * cs + nth lo CL 0) 0); [destruct Ha as [<-|[]]; reflexivity|destruct Ha]).
      apply in_flat_map in Hb. destruct Hb as [cc [Hcc Hb]]. apply in_seq in Hcc.
      assert (snd pb = cc) by (destruct (find_pos keys (r * cs + nth cc CL 0) 0); [destruct Hb as [<-|[]]; reflexivity|destruct Hb]).
      lia.
  Qed.

  Lemma lout_sorted : forall RW i, StronglySorted (fun a b : Z * V => fst a < fst b) (lout i RW).
  Proof.
    induction RW as [|r R IH]; intros i; [constructor|]. cbn [lout]. apply SS_app; [apply rowsel_sorted|apply IH|].
    intros a b Ha Hb. apply in_map_iff in Ha. destruct Ha as [pa [<- Ha]]. destruct b as [kb vb].
    apply lout_In in Hb. destruct Hb as [m [cc [q [_ [Hcc [_ [-> _]]]]]]]. cbn [fst snd].
    apply rowsel_cc in Ha. destruct Ha as [Ha _]. nia.
  Qed.
End Lout.

(* ================================================================ the kernels on an array that came from a COO *)
Section OnFromCoo.
  Variable V : Type.
  Variable c : coo V.
  Variable ca : list Z.
  Hypothesis Hc : canonical V c.
  Hypothesis Hok : shape_ok (c_shape c).
  Hypothesis Hca : caxes_okb (Z.of_nat (length (c_shape c))) ca = true.

  Let sh := c_shape c.
  Let rs := row_size sh ca.
  Let cs := col_size sh ca.
  Let s := gsorted V c ca.
  Let keys := map fst s.
  Let data := map snd s.
  Let ind := map (colf V c ca) s.
  Let ip := indptr_of (map (rowf V c ca) s) rs.

  Lemma fc_sorted : StronglySorted (fun a b : Z * V => fst a < fst b) s.
  Proof. apply gs_pairs_lt; assumption. Qed.

  Lemma fc_rc p : In p s -> 0 <= rowf V c ca p < rs /\ 0 <= colf V c ca p < cs /\ rowf V c ca p * cs + colf V c ca p = fst p.
  Proof. intros Hp. destruct (rowf_colf V c ca Hc Hok Hca p Hp) as [_ [_ [H1 [H2 H3]]]]. auto. Qed.

  Lemma fc_ip_start r : 0 <= r <= rs -> Z.to_nat (nth (Z.to_nat r) ip 0) = rstart V s (rowf V c ca) r.
  Proof.
    intros Hr. unfold ip. rewrite (ip_nth V s rs cs (rowf V c ca) (colf V c ca) fc_rc (Z.to_nat r)) by lia.
    rewrite Nat2Z.id, Z2Nat.id by lia. reflexivity.
  Qed.

  Lemma kernel_eval (RW CL : list Z) (pos_slice : bool) :
    Forall (fun r => 0 <= r < rs) RW -> Forall (fun x => 0 <= x < cs) CL -> (pos_slice = true -> sincr CL) ->
    let starts := map (fun r => Z.to_nat (nth (Z.to_nat r) ip 0)) RW in
    let ends := map (fun r => Z.to_nat (nth (S (Z.to_nat r)) ip 0)) RW in
    let rws := combine starts ends in
    sel_res (if pos_slice then slicing_selection (code_path ind rws CL) ind rws CL else array_selection ind rws CL)
    = Ok (flat_map (rowsel keys cs CL) RW,
          0 :: cumsum_from 0 (map (fun r => Z.of_nat (length (rowsel keys cs CL r))) RW)).
  Proof.
    intros HRW HCL Hpos starts ends rws.
    set (A := fun r => rstart V s (rowf V c ca) r). set (B := fun r => rstart V s (rowf V c ca) (r + 1)).
    assert (Hrws : rws = map (fun r => (A r, B r)) RW).
    { unfold rws, starts, ends. rewrite combine_map_map. apply map_ext_in. intros r Hr. rewrite Forall_forall in HRW. specialize (HRW r Hr).
      f_equal; [apply fc_ip_start; lia|].
      replace (S (Z.to_nat r)) with (Z.to_nat (r + 1)) by lia. apply fc_ip_start. lia. }
    assert (Hsorted : rows_sorted ind rws).
    { rewrite Hrws. unfold rows_sorted. rewrite Forall_map. apply Forall_forall. intros r _. cbn [fst snd].
      apply (seg_cols_sincr V s rs cs (rowf V c ca) (colf V c ca) fc_sorted fc_rc). }
    assert (Hspec : selection_spec ind rws CL
                    = (flat_map (rowsel keys cs CL) RW, 0 :: cumsum_from 0 (map (fun r => Z.of_nat (length (rowsel keys cs CL r))) RW))).
    { unfold selection_spec. rewrite Hrws, spec_rows_map. cbn [fst snd].
      assert (Hrow : forall r, row_spec (seg ind (A r) (B r)) CL (A r) = rowsel keys cs CL r).
      { intros r. unfold A, B, ind. rewrite (row_spec_keys V s rs cs (rowf V c ca) (colf V c ca) fc_sorted fc_rc r CL HCL). reflexivity. }
      f_equal; [apply flat_map_ext; exact Hrow|]. f_equal. f_equal. apply map_ext. intros r. rewrite Hrow. reflexivity. }
    destruct pos_slice.
    - rewrite (slicing_selection_spec _ ind rws CL Hsorted (Hpos eq_refl) (code_path_safe ind rws CL)). cbn [sel_res]. rewrite Hspec. reflexivity.
    - rewrite (array_selection_spec ind rws CL Hsorted). cbn [sel_res]. rewrite Hspec. reflexivity.
  Qed.

  (* a key of the source with its value: position in the sorted list *)
  Lemma fc_key_pos k v : In (k, v) s <-> exists q, find_pos keys k 0 = Some q /\ nth q data (c_fill c) = v /\ (q < length s)%nat.
  Proof.
    split.
    - intros Hin. apply (In_nth _ _ (k, v)) in Hin. destruct Hin as [q [Hq Hn]]. exists q.
      assert (Hk : nth q keys 0 = k).
      { unfold keys. rewrite (nth_indep _ 0 (fst (k, v))) by (rewrite map_length; exact Hq). rewrite map_nth, Hn. reflexivity. }
      split; [apply (find_keys_some V s fc_sorted k q Hq Hk)|].
      split; [|exact Hq]. unfold data. rewrite (nth_indep _ (c_fill c) (snd (k, v))) by (rewrite map_length; exact Hq).
      rewrite map_nth, Hn. reflexivity.
    - intros [q [Hf [Hv Hq]]]. apply find_pos_some in Hf. destruct Hf as [_ [_ [Hk _]]]. rewrite Nat.sub_0_r in Hk.
      destruct (nth_error_lt s q Hq) as [p Hp]. unfold keys in Hk. rewrite (nth_map_error fst s q 0 p Hp) in Hk.
      unfold data in Hv. rewrite (nth_map_error snd s q (c_fill c) p Hp) in Hv.
      apply nth_error_In in Hp. destruct p as [k' v']. simpl in *. subst. exact Hp.
  Qed.

  (* stored entries of the COO and the sorted key list *)
  Lemma fc_entries t v : in_range sh t -> (In (t, v) (entries c) <-> In (ckey sh ca t, v) s).
  Proof.
    intros Ht. pose proof (gs_perm V c ca) as Hp. fold sh s in Hp. pose proof Hc as [Hr [Hs Hl]]. rewrite Forall_forall in Hr. split.
    - intros Hin. eapply Permutation_in; [exact Hp|]. unfold entries in Hin. rewrite combine_map_l. apply in_map_iff.
      exists (t, v). split; [reflexivity|exact Hin].
    - intros Hin. apply (Permutation_in _ (Permutation_sym Hp)) in Hin. rewrite combine_map_l in Hin. apply in_map_iff in Hin.
      destruct Hin as [[t' v'] [E Hin]]. simpl in E. inversion E; subst v'.
      assert (t' = t); [|subst; exact Hin].
      apply (ckey_inj sh ca Hca); [apply Hr; eapply in_combine_l; exact Hin|exact Ht|assumption].
  Qed.
End OnFromCoo.

(* ================================================================ the result is from_coo of the COO result *)
Lemma SS_fst_unique {V} (l1 l2 : list (Z * V)) :
  StronglySorted (fun a b : Z * V => fst a < fst b) l1 -> StronglySorted (fun a b : Z * V => fst a < fst b) l2 ->
  (forall x, In x l1 <-> In x l2) -> l1 = l2.
Proof.
  intros H1. revert l2. induction H1 as [|a l1 Hs1 IH Hall1]; intros l2 H2 Hm.
  - destruct l2 as [|b l2]; [reflexivity|]. exfalso. apply (Hm b). left; reflexivity.
  - destruct H2 as [|b l2 Hs2 Hall2]; [exfalso; apply (Hm a); left; reflexivity|].
    rewrite Forall_forall in Hall1, Hall2.
    assert (a = b).
    { destruct (proj1 (Hm a) (or_introl eq_refl)) as [->|Ha]; [reflexivity|].
      destruct (proj2 (Hm b) (or_introl eq_refl)) as [->|Hb]; [reflexivity|].
      specialize (Hall1 _ Hb). specialize (Hall2 _ Ha). lia. }
    subst b. f_equal. apply IH; [assumption|].
    intros x. split; intros Hx.
    + destruct (proj1 (Hm x) (or_intror Hx)) as [->|?]; [|assumption]. specialize (Hall1 _ Hx). lia.
    + destruct (proj2 (Hm x) (or_intror Hx)) as [->|?]; [|assumption]. specialize (Hall2 _ Hx). lia.
Qed.

Section Master.
  Variable V : Type.
  Variable c : coo V.
  Variable ca : list Z.
  Hypothesis Hc : canonical V c.
  Hypothesis Hok : shape_ok (c_shape c).
  Hypothesis Hca : caxes_okb (Z.of_nat (length (c_shape c))) ca = true.

  Let sh := c_shape c.
  Let cs := col_size sh ca.
  Let s := gsorted V c ca.
  Let keys := map fst s.
  Let data := map snd s.

  Variables RW CL : list Z.
  Variable sh' : shape.
  Variable gsrc : idx -> idx.
  Variable y : coo V.
  Hypothesis Hy_can : canonical V y.
  Hypothesis Hy_sh : c_shape y = sh'.
  Hypothesis Hy_ent : forall j v, in_range sh' j -> (In (j, v) (entries y) <-> In (gsrc j, v) (entries c)).

  Variable key' : idx -> Z.
  Hypothesis BR2 : forall j, in_range sh' j ->
    exists m cc : nat, (m < length RW)%nat /\ (cc < length CL)%nat
      /\ key' j = Z.of_nat m * Z.of_nat (length CL) + Z.of_nat cc
      /\ ckey sh ca (gsrc j) = nth m RW 0 * cs + nth cc CL 0.
  Hypothesis BR3 : forall m cc : nat, (m < length RW)%nat -> (cc < length CL)%nat ->
    exists j, in_range sh' j /\ in_range sh (gsrc j)
      /\ key' j = Z.of_nat m * Z.of_nat (length CL) + Z.of_nat cc
      /\ ckey sh ca (gsrc j) = nth m RW 0 * cs + nth cc CL 0.

  Definition Lout : list (Z * V) := lout V keys data (c_fill c) cs CL 0 RW.

  Lemma master_members k v : In (k, v) Lout <-> exists j, In (j, v) (entries y) /\ key' j = k.
  Proof.
    unfold Lout. rewrite lout_In. split.
    - intros [m [cc [q [Hm [Hcc [Hf [Hk Hv]]]]]]]. destruct (BR3 m cc Hm Hcc) as [j [Hj [Hjs [Hkj Hck]]]].
      exists j. split; [|rewrite Hkj, Hk; lia].
      apply (Hy_ent j v Hj). apply (fc_entries V c ca Hc Hca _ v Hjs). fold sh s. rewrite Hck.
      apply (fc_key_pos V c ca Hc Hca). exists q. fold s keys data cs. split; [exact Hf|]. split; [symmetry; exact Hv|].
      apply find_pos_some in Hf. destruct Hf as [_ [Hq _]]. unfold keys in Hq. rewrite map_length in Hq. lia.
    - intros [j [Hin Hk]]. pose proof Hy_can as [Hyr _]. rewrite Forall_forall in Hyr.
      assert (Hj : in_range sh' j) by (rewrite <- Hy_sh; apply Hyr; unfold entries in Hin; eapply in_combine_l; exact Hin).
      apply (Hy_ent j v Hj) in Hin. pose proof Hc as [Hcr _]. rewrite Forall_forall in Hcr.
      assert (Hjs : in_range sh (gsrc j)) by (apply Hcr; unfold entries in Hin; eapply in_combine_l; exact Hin).
      apply (fc_entries V c ca Hc Hca _ v Hjs) in Hin. apply (fc_key_pos V c ca Hc Hca) in Hin.
      destruct Hin as [q [Hf [Hv _]]]. destruct (BR2 j Hj) as [m [cc [Hm [Hcc [Hkj Hck]]]]].
      exists m, cc, q. fold sh in Hf. rewrite Hck in Hf. repeat split; auto. rewrite <- Hk, Hkj. lia.
  Qed.

  (* result of at least two axes: the sorted key list of from_coo(y) is what the kernels produced *)
  Lemma master_gsorted ca' :
    caxes_okb (Z.of_nat (length sh')) ca' = true -> (forall j, key' j = ckey sh' ca' j) ->
    gsorted V y ca' = Lout.
  Proof.
    intros Hca' Hkey. apply SS_fst_unique.
    - apply gs_pairs_lt; [exact Hy_can|rewrite Hy_sh; exact Hca'].
    - apply lout_sorted.
    - intros [k v]. rewrite master_members. pose proof (gs_perm V y ca') as Hp. rewrite Hy_sh in Hp.
      pose proof Hy_can as [_ [_ Hyl]]. split.
      + intros Hin. apply (Permutation_in _ (Permutation_sym Hp)) in Hin. rewrite combine_map_l in Hin. apply in_map_iff in Hin.
        destruct Hin as [[j v'] [E Hin]]. simpl in E. inversion E; subst. exists j. split; [exact Hin|apply Hkey].
      + intros [j [Hin Hk]]. eapply Permutation_in; [exact Hp|]. rewrite combine_map_l. apply in_map_iff.
        exists (j, v). split; [simpl; rewrite <- Hk, Hkey; reflexivity|exact Hin].
  Qed.
End Master.

(* ================================================================ assembling from_coo of the COO result *)
Lemma lex_lt_asym a b : lex_lt a b -> lex_lt b a -> False.
Proof. intros H1 H2. apply (lex_lt_irrefl a). eapply lex_lt_trans; eauto. Qed.

Lemma SS_idx_keyed_unique {V} (l1 l2 : list (idx * V)) :
  StronglySorted (fun a b : idx * V => lex_lt (fst a) (fst b)) l1 ->
  StronglySorted (fun a b : idx * V => lex_lt (fst a) (fst b)) l2 ->
  (forall x, In x l1 <-> In x l2) -> l1 = l2.
Proof.
  intros H1. revert l2. induction H1 as [|a l1 Hs1 IH Hall1]; intros l2 H2 Hm.
  - destruct l2 as [|b l2]; [reflexivity|]. exfalso. apply (Hm b). left; reflexivity.
  - destruct H2 as [|b l2 Hs2 Hall2]; [exfalso; apply (Hm a); left; reflexivity|].
    rewrite Forall_forall in Hall1, Hall2.
    assert (a = b).
    { destruct (proj1 (Hm a) (or_introl eq_refl)) as [->|Ha]; [reflexivity|].
      destruct (proj2 (Hm b) (or_introl eq_refl)) as [->|Hb]; [reflexivity|].
      exfalso. apply (lex_lt_asym (fst a) (fst b)); auto. }
    subst b. f_equal. apply IH; [assumption|].
    intros x. split; intros Hx.
    + destruct (proj1 (Hm x) (or_intror Hx)) as [->|?]; [|assumption]. exfalso. apply (lex_lt_irrefl (fst x)). auto.
    + destruct (proj2 (Hm x) (or_intror Hx)) as [->|?]; [|assumption]. exfalso. apply (lex_lt_irrefl (fst x)). auto.
Qed.

Lemma flat1 l d : convert_to_flat [l] [d] = l.
Proof.
  unfold convert_to_flat. cbn [shape_bins scale_all flat_sums size fold_right].
  rewrite flat_map_map'.
  assert (H : forall l0 : list Z, flat_map (fun a : Z => map (Z.add (1 * a)) [0]) l0 = l0).
  { induction l0 as [|a l0 IH]; [reflexivity|]. cbn [flat_map]. rewrite IH. cbn [map app]. f_equal. lia. }
  apply H.
Qed.

Section Assemble.
  Variable V : Type.
  Variable veqb : V -> V -> bool.
  Variable add : V -> V -> V.
  Variable y : coo V.
  Hypothesis Hy : canonical V y.
  Hypothesis Hyok : shape_ok (c_shape y).

  (* ---- a result of two or more axes *)
  Lemma assemble_nd (keys : list Z) (data : list V) fill cs CL RW ca' :
    (2 <= length (c_shape y))%nat -> caxes_okb (Z.of_nat (length (c_shape y))) ca' = true ->
    gsorted V y ca' = lout V keys data fill cs CL 0 RW ->
    row_size (c_shape y) ca' = Z.of_nat (length RW) -> col_size (c_shape y) ca' = Z.of_nat (length CL) ->
    c_fill y = fill ->
    mkGCXS (c_shape y) ca'
      (map (fun p : nat * nat => nth (fst p) data fill) (flat_map (rowsel keys cs CL) RW))
      (map (fun p : nat * nat => Z.of_nat (snd p)) (flat_map (rowsel keys cs CL) RW))
      (0 :: cumsum_from 0 (map (fun r => Z.of_nat (length (rowsel keys cs CL r))) RW)) fill
    = gcxs_from_coo y ca'.
  Proof.
    intros Hnd Hca' Hgs Hrs Hcs Hf. rewrite (from_coo_nf V y ca' Hyok Hca' Hnd). rewrite Hgs, Hrs, Hf. f_equal.
    - symmetry. apply lout_snd.
    - rewrite <- (lout_mod V keys data fill cs CL RW 0). apply map_ext. intros p. unfold colf. rewrite Hcs. reflexivity.
    - assert (Hrow : map (rowf V y ca') (lout V keys data fill cs CL 0 RW)
                     = map (fun e : Z * V => fst e / Z.of_nat (length CL)) (lout V keys data fill cs CL 0 RW)).
      { apply map_ext_in. intros p Hp. rewrite <- Hgs in Hp.
        destruct (rowf_colf V y ca' Hy Hyok Hca' p Hp) as [_ [E _]]. rewrite E, Hcs. reflexivity. }
      rewrite Hrow, lout_div.
      rewrite <- (map_length (fun r => Z.of_nat (length (rowsel keys cs CL r))) RW).
      apply cumsum_indptr_of. rewrite Forall_map. apply Forall_forall. intros; lia.
  Qed.

  (* ---- a result of one axis: from_coo keeps the COO's arrays *)
  Lemma assemble_1d (L : list (Z * V)) n fill :
    c_shape y = [n] -> c_fill y = fill ->
    StronglySorted (fun a b : Z * V => fst a < fst b) L ->
    (forall k v, In (k, v) L <-> In ([k], v) (entries y)) ->
    forall ca', gcxs_from_coo y ca' = mkGCXS [n] [] (map snd L) (map fst L) [] fill.
  Proof.
    intros Hsh Hf HL Hmem ca'.
    assert (He : entries y = map (fun e : Z * V => ([fst e], snd e)) L).
    { pose proof Hy as [Hr [Hs Hl]]. apply SS_idx_keyed_unique.
      - apply SS_map_inv. unfold entries. rewrite map_fst_combine by lia. exact Hs.
      - clear -HL. induction HL as [|a l Hs IH Hall]; simpl; constructor; [assumption|].
        apply Forall_forall. intros x Hx. apply in_map_iff in Hx. destruct Hx as [e [<- He]].
        rewrite Forall_forall in Hall. simpl. left. auto.
      - intros [j v]. split.
        + intros Hin. assert (Hj : in_range [n] j).
          { rewrite <- Hsh. rewrite Forall_forall in Hr. apply Hr. unfold entries in Hin. eapply in_combine_l; exact Hin. }
          destruct j as [|k [|? ?]]; simpl in Hj; try tauto. apply in_map_iff. exists (k, v). split; [reflexivity|].
          apply Hmem. exact Hin.
        + intros Hin. apply in_map_iff in Hin. destruct Hin as [[k v'] [E Hin]]. simpl in E. inversion E; subst.
          apply Hmem. exact Hin. }
    unfold gcxs_from_coo. rewrite Hsh, Hf. pose proof Hy as [_ [_ Hl]].
    assert (Hco : c_coords y = map (fun e : Z * V => [fst e]) L).
    { rewrite <- (map_fst_combine (c_coords y) (c_data y)) by lia. fold (entries y). rewrite He, map_map. reflexivity. }
    assert (Hda : c_data y = map snd L).
    { rewrite <- (map_snd_combine (c_coords y) (c_data y)) by lia. fold (entries y). rewrite He, map_map. reflexivity. }
    rewrite Hco, Hda, map_map. reflexivity.
  Qed.
End Assemble.

(* ================================================================ get_single_element *)
Lemma ss_find row v : mono row ->
  (let s := searchsorted_left row v in
   if (length row <=? s)%nat then None else if nth s row 0 =? v then Some s else None) = find_pos row v 0.
Proof.
  intros Hm. cbv zeta. destruct (searchsorted_left_spec row v Hm) as [Hn [Hlt Hge]]. set (s := searchsorted_left row v) in *.
  destruct (Nat.leb_spec (length row) s) as [Hs|Hs].
  - symmetry. apply find_pos_absent. intros j Hj. specialize (Hlt j ltac:(lia)). lia.
  - destruct (Z.eqb_spec (nth s row 0) v) as [E|E].
    + symmetry. apply find_pos_first; [exact Hs|exact E|]. intros j Hj. specialize (Hlt j Hj). lia.
    + symmetry. apply find_pos_absent. intros j Hj Hv.
      destruct (Nat.lt_ge_cases j s) as [H|H]; [specialize (Hlt j H); lia|].
      specialize (Hge s ltac:(lia)). pose proof (Hm s j H Hj). lia.
Qed.

Section SingleElement.
  Variable V : Type.
  Variable c : coo V.
  Variable ca : list Z.
  Hypothesis Hc : canonical V c.
  Hypothesis Hok : shape_ok (c_shape c).
  Hypothesis Hca : caxes_okb (Z.of_nat (length (c_shape c))) ca = true.

  Let sh := c_shape c.
  Let rs := row_size sh ca.
  Let cs := col_size sh ca.
  Let s := gsorted V c ca.

  Lemma single_element_den t :
    in_range sh t ->
    single_element (map snd s) (map (colf V c ca) s) (indptr_of (map (rowf V c ca) s) rs) (c_fill c)
                   (ckey sh ca t / cs) (ckey sh ca t mod cs)
    = den c t.
  Proof.
    intros Ht. pose proof (ckey_bounds sh ca Hca t Ht) as Hb. fold rs cs in Hb.
    pose proof (row_size_nonneg sh ca Hok) as Hrs. fold rs in Hrs.
    assert (Hcs : 0 < cs) by nia.
    pose proof (Z.div_mod (ckey sh ca t) cs ltac:(lia)) as Hdm. pose proof (Z.mod_pos_bound (ckey sh ca t) cs Hcs) as Hmb.
    set (r := ckey sh ca t / cs) in *. set (col := ckey sh ca t mod cs) in *.
    assert (Hr : 0 <= r < rs).
    { unfold r. split; [apply Z.div_pos; [apply Hb|exact Hcs]|apply Z.div_lt_upper_bound; [exact Hcs|rewrite Z.mul_comm; apply Hb]]. }
    unfold single_element.
    assert (Hr1 : 0 <= r <= row_size (c_shape c) ca) by (fold sh rs; lia).
    assert (Hr2 : 0 <= r + 1 <= row_size (c_shape c) ca) by (fold sh rs; lia).
    unfold s, rs, sh. pose proof (fc_ip_start V c ca Hc Hok Hca r Hr1) as E1. rewrite E1.
    replace (Z.to_nat r + 1)%nat with (Z.to_nat (r + 1)) by lia. pose proof (fc_ip_start V c ca Hc Hok Hca (r + 1) Hr2) as E2. rewrite E2.
    fold s. set (a := rstart V s (rowf V c ca) r). set (b := rstart V s (rowf V c ca) (r + 1)).
    pose proof (seg_cols_sincr V s rs cs (rowf V c ca) (colf V c ca) (fc_sorted V c ca Hc Hca) (fc_rc V c ca Hc Hok Hca) r) as Hsi.
    fold a b in Hsi. pose proof (ss_find _ col (sincr_mono _ Hsi)) as Hss. cbv zeta in Hss.
    pose proof (row_find V s rs cs (rowf V c ca) (colf V c ca) (fc_sorted V c ca Hc Hca) (fc_rc V c ca Hc Hok Hca) r col Hmb) as Hrf.
    fold a b in Hrf.
    destruct (find_pos (seg (map (colf V c ca) s) a b) col 0) as [p|] eqn:Efp.
    - (* stored *)
      assert (Hitem : searchsorted_left (seg (map (colf V c ca) s) a b) col = p /\ (p < length (seg (map (colf V c ca) s) a b))%nat
                      /\ nth p (seg (map (colf V c ca) s) a b) 0 = col).
      { destruct (Nat.leb_spec (length (seg (map (colf V c ca) s) a b)) (searchsorted_left (seg (map (colf V c ca) s) a b) col)); [discriminate|].
        destruct (Z.eqb_spec (nth (searchsorted_left (seg (map (colf V c ca) s) a b) col) (seg (map (colf V c ca) s) a b) 0) col); [|discriminate].
        inversion Hss as [E]. rewrite E in *. auto. }
      destruct Hitem as [Ei [Hp Hv]]. rewrite Ei.
      destruct (Nat.leb_spec (length (seg (map (colf V c ca) s) a b)) p); [lia|]. rewrite Hv, Z.eqb_refl.
      symmetry. apply den_stored; [exact Hc|]. apply (fc_entries V c ca Hc Hca t _ Ht).
      apply (fc_key_pos V c ca Hc Hca). exists (p + a)%nat. fold s. replace (ckey (c_shape c) ca t) with (r * cs + col) by (fold sh; lia).
      split; [exact Hrf|]. split; [reflexivity|].
      apply find_pos_some in Hrf. destruct Hrf as [_ [Hq _]]. rewrite map_length in Hq. lia.
    - assert (Hnone : (let s0 := searchsorted_left (seg (map (colf V c ca) s) a b) col in
                       if (length (seg (map (colf V c ca) s) a b) <=? s0)%nat then true
                       else negb (nth s0 (seg (map (colf V c ca) s) a b) 0 =? col)) = true).
      { cbv zeta. destruct (Nat.leb_spec (length (seg (map (colf V c ca) s) a b)) (searchsorted_left (seg (map (colf V c ca) s) a b) col)); [reflexivity|].
        destruct (Z.eqb_spec (nth (searchsorted_left (seg (map (colf V c ca) s) a b) col) (seg (map (colf V c ca) s) a b) 0) col); [discriminate|reflexivity]. }
      cbv zeta in Hnone.
      assert (Hfill : den c t = c_fill c).
      { apply den_unstored. intros Hin. apply (In_nth _ _ []) in Hin. destruct Hin as [q [Hq Hpt]].
        assert (Hent : In (t, nth q (c_data c) (c_fill c)) (entries c)).
        { pose proof Hc as [_ [_ Hl]]. unfold entries. apply (in_combine_nth _ _ _ _ [] (c_fill c)); [symmetry; exact Hl|]. exists q. auto. }
        apply (fc_entries V c ca Hc Hca t _ Ht) in Hent. apply (fc_key_pos V c ca Hc Hca) in Hent. destruct Hent as [q' [Hf _]].
        fold s in Hf. replace (ckey (c_shape c) ca t) with (r * cs + col) in Hf by (fold sh; lia). congruence. }
      rewrite Hfill.
      destruct (Nat.leb_spec (length (seg (map (colf V c ca) s) a b)) (searchsorted_left (seg (map (colf V c ca) s) a b) col)); [reflexivity|].
      destruct (Z.eqb_spec (nth (searchsorted_left (seg (map (colf V c ca) s) a b) col) (seg (map (colf V c ca) s) a b) 0) col); [discriminate|reflexivity].
  Qed.
End SingleElement.
