(* Proofs/SortSearchNdP.v — the public wrappers `sort` and `argmax`/`argmin` of Model/SortSearch.v
   through their plumbing (normalize_axis, moveaxis/transpose, reshape to 2-d, kernel, reshape
   and transpose back, squeeze) for ANY number of dimensions.  Every plumbing step is a
   coordinate remapping handed to the COO constructor; the generic remapping theorems of
   agent-c08's Proofs/ShapeOpsL.v (remap_canonical, remap_den_image) are imported read-only and
   instantiated with the explicit index maps of each step. *)
From Coq Require Import ZArith List Bool Lia Sorting.Sorted Sorting.Permutation.
From Verif Require Import Py Shape COO COOP ShapeOps ShapeOpsL NpSort SortSearch SortSearchP.
Import ListNotations.
Open Scope Z_scope.

(* ================================================================== A. the plumbing of Model/SortSearch.v
   is coo_make o map_coords *)

Lemma insert_entry_bridge (e : idx * Z) l : SortSearch.insert_entry e l = ShapeOps.insert_entry e l.
Proof. induction l as [|y r IH]; [reflexivity|]. cbn. rewrite IH. reflexivity. Qed.

Lemma sort_entries_bridge (l : list (idx * Z)) : SortSearch.sort_entries l = ShapeOps.sort_entries l.
Proof.
  induction l as [|e l IH]; [reflexivity|].
  unfold SortSearch.sort_entries, ShapeOps.sort_entries in *. cbn [fold_right].
  rewrite IH. apply insert_entry_bridge.
Qed.

Lemma combine_map_coords (f : idx -> idx) (x : coo Z) :
  combine (map f (c_coords x)) (c_data x) = map_coords f x.
Proof.
  unfold map_coords, entries. generalize (c_data x). induction (c_coords x) as [|c cs IH]; intros [|d ds]; try reflexivity.
  cbn. rewrite IH. reflexivity.
Qed.

Lemma make_sorted_eq (x : coo Z) sh' (f : idx -> idx) :
  length (c_data x) = length (c_coords x) ->
  mkCOO sh' (map f (c_coords x)) (c_data x) (c_fill x) = coo_make sh' (map_coords f x) (c_fill x) true.
Proof.
  intros Hl. unfold coo_make. rewrite <- combine_map_coords.
  rewrite combine_map_fst, combine_map_snd by (rewrite map_length; lia). reflexivity.
Qed.

Lemma ss_transpose_make (x : coo Z) axes :
  idx_eqb axes (iota (length (c_shape x))) = false ->
  ss_transpose x axes
  = coo_make (map (znth (c_shape x)) axes) (map_coords (fun ix => map (znth ix) axes) x) (c_fill x) false.
Proof.
  intros H. unfold ss_transpose. rewrite H. unfold coo_make.
  rewrite combine_map_coords, sort_entries_bridge. reflexivity.
Qed.

(* ================================================================== B. list facts about the index maps *)

Lemma znth_iota_map (c t : idx) : map (znth (c ++ t)) (iota (length c)) = c.
Proof.
  unfold iota. rewrite map_map.
  assert (G : forall (p c : idx), map (fun k => znth (p ++ c ++ t) (Z.of_nat k)) (seq (length p) (length c)) = c).
  { intros p c0. revert p. induction c0 as [|a c0 IH]; intros p; [reflexivity|].
    cbn [length seq map]. f_equal.
    - unfold znth. rewrite Nat2Z.id, app_nth2 by lia. rewrite Nat.sub_diag. reflexivity.
    - specialize (IH (p ++ [a])). rewrite app_length in IH. cbn [length] in IH.
      rewrite <- app_assoc in IH. cbn [app] in IH. replace (length p + 1)%nat with (S (length p)) in IH by lia.
      exact IH. }
  apply (G [] c).
Qed.

Lemma znth_iota_id (c : idx) : map (znth c) (iota (length c)) = c.
Proof. rewrite <- (app_nil_r c) at 1. apply znth_iota_map. Qed.

Lemma iota_length n : length (iota n) = n.
Proof. unfold iota. rewrite map_length, seq_length. reflexivity. Qed.

Lemma remove_nth_map {A B} (f : A -> B) l k : remove_nth (map f l) k = map f (remove_nth l k).
Proof. unfold remove_nth. rewrite map_app, firstn_map, skipn_map. reflexivity. Qed.

Lemma filter_all_true {A} (p : A -> bool) l : (forall x, In x l -> p x = true) -> filter p l = l.
Proof.
  induction l as [|a l IH]; intros H; [reflexivity|]. cbn. rewrite (H a (or_introl eq_refl)).
  f_equal. apply IH. intros x Hx. apply H. right. assumption.
Qed.

(* filter (n <> s) (iota n) is iota with position s removed *)
Lemma filter_ne_seq (s start n : nat) :
  filter (fun k => negb (Nat.eqb k (start + s))) (seq start n) = remove_nth (seq start n) s.
Proof.
  revert s start. induction n as [|n IH]; intros s start.
  - unfold remove_nth. cbn [seq]. rewrite firstn_nil. reflexivity.
  - cbn [seq filter]. destruct s as [|s].
    + rewrite Nat.add_0_r, Nat.eqb_refl. cbn [negb]. unfold remove_nth. cbn [firstn skipn app].
      apply filter_all_true. intros k Hk. apply in_seq in Hk.
      apply negb_true_iff, Nat.eqb_neq. lia.
    + destruct (Nat.eqb_spec start (start + S s)); [lia|]. cbn [negb].
      unfold remove_nth. cbn [firstn skipn app]. f_equal.
      specialize (IH s (S start)). replace (S start + s)%nat with (start + S s)%nat in IH by lia.
      exact IH.
Qed.

Lemma filter_ne_iota (s n : nat) :
  filter (fun k => negb (k =? Z.of_nat s)) (iota n) = remove_nth (iota n) s.
Proof.
  unfold iota. rewrite remove_nth_map, <- (filter_ne_seq s 0 n).
  induction (seq 0 n) as [|k l IH]; [reflexivity|]. cbn [map filter Nat.add].
  destruct (Z.eqb_spec (Z.of_nat k) (Z.of_nat s)); destruct (Nat.eqb_spec k s); try lia; cbn [negb map]; rewrite IH; reflexivity.
Qed.

(* x[None, ...]-free forms of the two coordinate permutations of `sort` *)
Definition mvl (a : nat) (ix : idx) : idx := remove_nth ix a ++ [nth a ix 0].
Definition ins (a : nat) (j : Z) (c : idx) : idx := firstn a c ++ j :: skipn a c.

Lemma remove_nth_app_cons {A} (l1 : list A) x l2 : remove_nth (l1 ++ x :: l2) (length l1) = l1 ++ l2.
Proof.
  unfold remove_nth. induction l1 as [|y l1 IH]; cbn [length app firstn skipn]; [reflexivity|].
  cbn [app]. f_equal. exact IH.
Qed.

Lemma ins_app (l1 l2 : idx) j : ins (length l1) j (l1 ++ l2) = l1 ++ j :: l2.
Proof.
  unfold ins. induction l1 as [|y l1 IH]; cbn [length app firstn skipn]; [reflexivity|].
  f_equal. exact IH.
Qed.

Lemma nth_app_cons {A} (l1 : list A) x l2 d : nth (length l1) (l1 ++ x :: l2) d = x.
Proof. rewrite app_nth2 by lia. rewrite Nat.sub_diag. reflexivity. Qed.

Lemma ins_mvl a ix : (a < length ix)%nat -> ins a (nth a ix 0) (remove_nth ix a) = ix.
Proof.
  intros Ha. destruct (nth_split ix 0 Ha) as [l1 [l2 [E Hl]]].
  remember (nth a ix 0) as x eqn:Hx. clear Hx. subst ix a.
  rewrite remove_nth_app_cons, ins_app. reflexivity.
Qed.

Lemma remove_nth_length {A} (l : list A) a : (a < length l)%nat -> length (remove_nth l a) = (length l - 1)%nat.
Proof.
  intros Ha. unfold remove_nth. rewrite app_length, firstn_length_le, skipn_length by lia. lia.
Qed.

Lemma remove_nth_ins a j c : (a <= length c)%nat -> remove_nth (ins a j c) a = c /\ nth a (ins a j c) 0 = j.
Proof.
  intros Ha. assert (Hl : length (firstn a c) = a) by (apply firstn_length_le; assumption).
  remember (firstn a c) as l1 eqn:H1. remember (skipn a c) as l2 eqn:H2.
  assert (Ec : c = l1 ++ l2) by (subst l1 l2; symmetry; apply firstn_skipn).
  clear H1 H2. subst c a. rewrite ins_app, remove_nth_app_cons, nth_app_cons. split; reflexivity.
Qed.

(* the forward permutation of sort: order = [n for n in range(ndim) if n != a] + [a] *)
Lemma perm_last_map (a : nat) (ix : idx) :
  (a < length ix)%nat ->
  map (znth ix) (filter (fun k => negb (k =? Z.of_nat a)) (iota (length ix)) ++ [Z.of_nat a]) = mvl a ix.
Proof.
  intros Ha. rewrite map_app, filter_ne_iota, <- remove_nth_map, znth_iota_id. cbn [map].
  unfold mvl, znth. rewrite Nat2Z.id. reflexivity.
Qed.

(* the backward permutation: order = list(range(ndim-1)); order.insert(a, ndim-1) *)
Lemma perm_back_map (a : nat) (c : idx) (j : Z) :
  map (znth (c ++ [j])) (firstn a (iota (length c)) ++ Z.of_nat (length c) :: skipn a (iota (length c)))
  = ins a j c.
Proof.
  rewrite map_app. cbn [map]. rewrite <- firstn_map, <- skipn_map, znth_iota_map.
  unfold ins. f_equal. f_equal. unfold znth. rewrite Nat2Z.id, app_nth2 by lia. rewrite Nat.sub_diag. reflexivity.
Qed.

(* ---- in_range of pieces *)

Lemma in_range_app s1 s2 c1 c2 : in_range s1 c1 -> in_range s2 c2 -> in_range (s1 ++ s2) (c1 ++ c2).
Proof.
  revert c1. induction s1 as [|d s1 IH]; intros [|i c1]; cbn; try tauto. intros [Hi H1] H2. split; auto.
Qed.

Lemma in_range_split sh ix k :
  in_range sh ix -> in_range (firstn k sh) (firstn k ix) /\ in_range (skipn k sh) (skipn k ix).
Proof.
  revert ix k. induction sh as [|d sh IH]; intros [|i ix] k H; cbn in H; try tauto.
  - rewrite !firstn_nil, !skipn_nil. split; exact I.
  - destruct k as [|k]; cbn; [tauto|]. destruct H as [Hi H]. destruct (IH ix k H). tauto.
Qed.

Lemma in_range_nth_bound sh ix a : in_range sh ix -> (a < length sh)%nat -> 0 <= nth a ix 0 < nth a sh 0.
Proof. intros H Ha. apply (proj1 (in_range_nth sh ix) H). assumption. Qed.

Lemma in_range_remove sh ix a : in_range sh ix -> in_range (remove_nth sh a) (remove_nth ix a).
Proof.
  intros H. unfold remove_nth. destruct (in_range_split sh ix a H) as [H1 _].
  destruct (in_range_split sh ix (S a) H) as [_ H2]. apply in_range_app; assumption.
Qed.

Lemma in_range_mvl sh ix a : in_range sh ix -> (a < length sh)%nat -> in_range (mvl a sh) (mvl a ix).
Proof.
  intros H Ha. unfold mvl. apply in_range_app; [apply in_range_remove; assumption|].
  cbn. split; [apply in_range_nth_bound; assumption|exact I].
Qed.

Lemma in_range_ins sh c a d j : in_range sh c -> 0 <= j < d -> in_range (ins a d sh) (ins a j c).
Proof.
  intros H Hj. unfold ins. destruct (in_range_split sh c a H) as [H1 H2].
  apply in_range_app; [assumption|]. cbn. split; assumption.
Qed.

(* ================================================================== C. one plumbing step at a time *)

Lemma prunedb_Z_eq (x : coo Z) : prunedb Z.eqb x = true -> forall v, In v (c_data x) -> v <> c_fill x.
Proof.
  unfold prunedb. rewrite forallb_forall. intros H v Hv E. specialize (H v Hv). subst v.
  rewrite Z.eqb_refl in H. discriminate.
Qed.

(* COO.transpose by a permutation given through its coordinate map and a left inverse *)
Lemma transpose_step (x : coo Z) (axes : list Z) (g : idx -> idx) :
  canonical Z x ->
  (forall c, in_range (c_shape x) c -> in_range (map (znth (c_shape x)) axes) (map (znth c) axes)) ->
  (forall c, in_range (c_shape x) c -> g (map (znth c) axes) = c) ->
  let r := ss_transpose x axes in
  canonical Z r /\ c_shape r = map (znth (c_shape x)) axes /\ c_fill r = c_fill x
  /\ (prunedb Z.eqb x = true -> prunedb Z.eqb r = true)
  /\ forall c, in_range (c_shape x) c -> den r (map (znth c) axes) = den x c.
Proof.
  intros Hc Hrange Hinv r.
  destruct (idx_eqb axes (iota (length (c_shape x)))) eqn:E.
  - apply idx_eqb_eq in E. unfold r, ss_transpose. rewrite E, idx_eqb_refl.
    split; [assumption|]. split; [rewrite znth_iota_id; reflexivity|]. split; [reflexivity|].
    split; [auto|].
    intros c Hr. rewrite <- (in_range_length _ _ Hr), znth_iota_id. reflexivity.
  - unfold r. rewrite (ss_transpose_make x axes E).
    assert (Hinj : forall a b, in_range (c_shape x) a -> in_range (c_shape x) b ->
                   map (znth a) axes = map (znth b) axes -> a = b).
    { intros a b Ha Hb He. rewrite <- (Hinv a Ha), <- (Hinv b Hb), He. reflexivity. }
    split; [apply remap_canonical; try assumption; discriminate|].
    split; [reflexivity|]. split; [reflexivity|].
    split; [apply (remap_pruned Z Z.eqb)|].
    intros c Hr. apply (remap_den_image Z x _ (fun ix => map (znth ix) axes) false Hc Hinj c Hr).
Qed.

Lemma shape_ok_no_m1 sh : shape_ok sh -> existsb (Z.eqb (-1)) sh = false.
Proof.
  induction 1 as [|d sh Hd _ IH]; [reflexivity|]. cbn [existsb]. rewrite IH.
  destruct (Z.eqb_spec (-1) d); [lia|reflexivity].
Qed.

(* COO.reshape to an explicit shape of the same size *)
Lemma reshape_step (x : coo Z) (sh' : shape) :
  canonical Z x -> shape_ok (c_shape x) -> shape_ok sh' -> size (c_shape x) = size sh' ->
  exists r, ss_reshape x sh' = Ok r /\ canonical Z r /\ c_shape r = sh' /\ c_fill r = c_fill x
    /\ (prunedb Z.eqb x = true -> prunedb Z.eqb r = true)
    /\ forall c, in_range (c_shape x) c -> den r (unravel sh' (ravel (c_shape x) c)) = den x c.
Proof.
  intros Hc Hok Hok' Hsz. unfold ss_reshape.
  destruct (idx_eqb (c_shape x) sh') eqn:E.
  - apply idx_eqb_eq in E. exists x. subst sh'.
    split; [reflexivity|]. split; [assumption|]. split; [reflexivity|]. split; [reflexivity|]. split; [auto|].
    intros c Hr. rewrite unravel_ravel by assumption. reflexivity.
  - rewrite (shape_ok_no_m1 sh' Hok'). cbn [bind]. rewrite Hsz, Z.eqb_refl. cbn [negb].
    pose proof Hc as [_ [_ Hl]].
    rewrite (make_sorted_eq x sh' (fun ix => unravel sh' (ravel (c_shape x) ix)) Hl).
    set (f := fun ix => unravel sh' (ravel (c_shape x) ix)).
    assert (Hrange : forall c, in_range (c_shape x) c -> in_range sh' (f c)).
    { intros c Hr. apply unravel_in_range; [assumption|]. rewrite <- Hsz. apply ravel_bounds. assumption. }
    assert (Hrav : forall c, in_range (c_shape x) c -> ravel sh' (f c) = ravel (c_shape x) c).
    { intros c Hr. apply ravel_unravel; [assumption|]. rewrite <- Hsz. apply ravel_bounds. assumption. }
    assert (Hinj : forall a b, in_range (c_shape x) a -> in_range (c_shape x) b -> f a = f b -> a = b).
    { intros a b Ha Hb He. apply (ravel_inj (c_shape x)); try assumption.
      rewrite <- (Hrav a Ha), <- (Hrav b Hb), He. reflexivity. }
    eexists. split; [reflexivity|].
    split.
    { apply remap_canonical; try assumption.
      intros _ a b Ha Hb Hlt. apply (ravel_lex sh'); [apply Hrange; assumption|apply Hrange; assumption|].
      rewrite (Hrav a Ha), (Hrav b Hb). apply (ravel_lex (c_shape x)); assumption. }
    split; [reflexivity|]. split; [reflexivity|].
    split; [apply (remap_pruned Z Z.eqb)|].
    intros c Hr. apply (remap_den_image Z x sh' f true Hc Hinj c Hr).
Qed.

(* the kernel on a canonical 2-d array: canonical result, every row sorted *)
Lemma kernel_step (x2 : coo Z) (P L : Z) (desc : bool) :
  canonical Z x2 -> c_shape x2 = [P; L] -> 0 <= L ->
  let '(g, ri, d) := sort_coo (map (fun ix => znth ix 0) (c_coords x2)) (map (fun ix => znth ix 1) (c_coords x2))
                              (c_data x2) (c_fill x2) L desc in
  let x3 := mkCOO (c_shape x2) (zip2 g ri) d (c_fill x2) in
  canonical Z x3
  /\ forall r, 0 <= r < P -> row2 x3 L r = np_sort_dir desc (row2 x2 L r).
Proof.
  intros Hc Hsh HL. destruct x2 as [sh cs data fill]. cbn [c_shape c_coords c_data c_fill] in *. subst sh.
  pose proof Hc as [Hr _]. cbn [c_shape c_coords] in Hr.
  set (gc := map (fun ix => znth ix 0) cs). set (sc := map (fun ix => znth ix 1) cs).
  assert (Hz : zip2 gc sc = cs) by (apply (zip2_cols P L); assumption).
  assert (Hlen : length sc = length gc) by (unfold sc, gc; rewrite !map_length; reflexivity).
  destruct (sort_coo gc sc data fill L desc) as [[g ri] d] eqn:E.
  assert (Hg : g = gc).
  { unfold sort_coo in E. destruct (sort_scan desc fill L gc data (-1) []). inversion E. reflexivity. }
  subst g. rewrite <- Hz in Hc.
  destruct (sort_coo_row_proof gc sc data fill P L desc ri d Hlen HL Hc E) as [Hcy Hrows].
  split; [exact Hcy|]. intros r Hr0. rewrite <- Hz. apply is_sort_of_unique. apply Hrows. assumption.
Qed.

(* ================================================================== D. sort, any number of dimensions >= 2 *)

Lemma norm_axis_nat (nd a : nat) : (a < nd)%nat -> NpSort.norm_axis (Z.of_nat nd) (Z.of_nat a) = Some a.
Proof.
  intros H. unfold NpSort.norm_axis.
  destruct (Z.leb_spec (- Z.of_nat nd) (Z.of_nat a)); [|lia].
  destruct (Z.ltb_spec (Z.of_nat a) (Z.of_nat nd)); [|lia]. cbn [andb].
  destruct (Z.ltb_spec (Z.of_nat a) 0); [lia|]. rewrite Nat2Z.id. reflexivity.
Qed.

Lemma norm_axis_m1 (nd : nat) : (0 < nd)%nat -> NpSort.norm_axis (Z.of_nat nd) (-1) = Some (nd - 1)%nat.
Proof.
  intros H. unfold NpSort.norm_axis.
  destruct (Z.leb_spec (- Z.of_nat nd) (-1)); [|lia].
  destruct (Z.ltb_spec (-1) (Z.of_nat nd)); [|lia]. cbn [andb].
  change (-1 <? 0) with true. cbv iota. f_equal. lia.
Qed.

Lemma norm_axis_Some (nd : nat) axis a : NpSort.norm_axis (Z.of_nat nd) axis = Some a -> (a < nd)%nat.
Proof.
  unfold NpSort.norm_axis.
  destruct (Z.leb_spec (- Z.of_nat nd) axis); [|discriminate].
  destruct (Z.ltb_spec axis (Z.of_nat nd)); [|discriminate]. cbn [andb].
  intros E. inversion E. destruct (Z.ltb_spec axis 0); lia.
Qed.

Lemma py_insert_end (l : list Z) v : py_insert l (zlen l) v = l ++ [v].
Proof.
  unfold py_insert, zlen. destruct (Z.ltb_spec (Z.of_nat (length l)) 0); [lia|].
  rewrite Z.min_id, Nat2Z.id, firstn_all, skipn_all. reflexivity.
Qed.

Lemma py_insert_mid (l : list Z) (a : nat) v :
  (a <= length l)%nat -> py_insert l (Z.of_nat a) v = firstn a l ++ v :: skipn a l.
Proof.
  intros H. unfold py_insert, zlen. destruct (Z.ltb_spec (Z.of_nat a) 0); [lia|].
  rewrite Z.min_l by lia. rewrite Nat2Z.id. reflexivity.
Qed.

Lemma iota_S n : iota (S n) = iota n ++ [Z.of_nat n].
Proof. unfold iota. rewrite seq_S, map_app. reflexivity. Qed.

Lemma remove_nth_iota_last n : remove_nth (iota (S n)) n = iota n.
Proof.
  rewrite iota_S. rewrite <- (iota_length n) at 3. rewrite remove_nth_app_cons, app_nil_r. reflexivity.
Qed.

Lemma ss_moveaxis_to_last (x : coo Z) (a : nat) :
  (a < length (c_shape x))%nat ->
  ss_moveaxis x (Z.of_nat a) (-1)
  = Ok (ss_transpose x (filter (fun k => negb (k =? Z.of_nat a)) (iota (length (c_shape x))) ++ [Z.of_nat a])).
Proof.
  intros Ha. unfold ss_moveaxis, ndimZ, zlen.
  rewrite (norm_axis_nat _ a Ha), (norm_axis_m1 (length (c_shape x))) by lia.
  f_equal. f_equal.
  set (order := filter _ _).
  assert (Hl : length order = (length (c_shape x) - 1)%nat).
  { unfold order. rewrite filter_ne_iota, remove_nth_length; rewrite iota_length; lia. }
  replace (Z.of_nat (length (c_shape x) - 1)) with (zlen order) by (unfold zlen; lia).
  apply py_insert_end.
Qed.

Lemma ss_moveaxis_from_last (x : coo Z) (a : nat) :
  (a < length (c_shape x))%nat ->
  let m := (length (c_shape x) - 1)%nat in
  ss_moveaxis x (-1) (Z.of_nat a)
  = Ok (ss_transpose x (firstn a (iota m) ++ Z.of_nat m :: skipn a (iota m))).
Proof.
  intros Ha m. unfold ss_moveaxis, ndimZ, zlen.
  rewrite (norm_axis_nat _ a Ha), (norm_axis_m1 (length (c_shape x))) by lia. fold m.
  f_equal. f_equal.
  replace (length (c_shape x)) with (S m) by (unfold m; lia).
  rewrite filter_ne_iota, remove_nth_iota_last.
  apply py_insert_mid. rewrite iota_length. unfold m. lia.
Qed.

Lemma size_app_last s L : size (s ++ [L]) = size s * L.
Proof. induction s as [|d s IH]; cbn [app size fold_right] in *; [lia|]. unfold size in IH. rewrite IH. lia. Qed.

Lemma ravel_snoc s L c j : length c = length s -> ravel (s ++ [L]) (c ++ [j]) = ravel s c * L + j.
Proof.
  revert c. induction s as [|d s IH]; intros [|i c] H; cbn in H; try discriminate.
  - cbn. lia.
  - cbn [app ravel]. rewrite IH by lia. rewrite size_app_last. lia.
Qed.

Lemma two_level P L q j : 0 <= j < L -> unravel [P; L] (q * L + j) = [q; j].
Proof.
  intros Hj. cbn [unravel size fold_right]. replace (L * 1) with L by lia.
  assert (H1 : (q * L + j) / L = q) by (rewrite Z.div_add_l by lia; rewrite Z.div_small by lia; lia).
  assert (H2 : (q * L + j) mod L = j) by (rewrite Z.add_comm, Z.mod_add by lia; apply Z.mod_small; lia).
  rewrite H1, H2, Z.div_1_r. reflexivity.
Qed.

Lemma shape_ok_app s1 s2 : shape_ok s1 -> shape_ok s2 -> shape_ok (s1 ++ s2).
Proof. unfold shape_ok. intros. apply Forall_app. split; assumption. Qed.

Lemma shape_ok_remove sh a : shape_ok sh -> shape_ok (remove_nth sh a).
Proof.
  unfold shape_ok, remove_nth. intros H. apply Forall_app. split.
  - apply Forall_forall. intros d Hd. rewrite Forall_forall in H. apply H.
    rewrite <- (firstn_skipn a sh). apply in_or_app. left. assumption.
  - apply Forall_forall. intros d Hd. rewrite Forall_forall in H. apply H.
    rewrite <- (firstn_skipn (S a) sh). apply in_or_app. right. assumption.
Qed.

Lemma shape_ok_nth sh a : shape_ok sh -> 0 <= nth a sh 0.
Proof.
  intros H. destruct (Nat.lt_ge_cases a (length sh)) as [Hlt|Hge].
  - unfold shape_ok in H. rewrite Forall_forall in H. apply H. apply nth_In. assumption.
  - rewrite nth_overflow by assumption. lia.
Qed.

Lemma size_app (s1 s2 : list Z) : size (s1 ++ s2) = size s1 * size s2.
Proof.
  induction s1 as [|y s1 IH]; [cbn [app]; change (size []) with 1; lia|].
  cbn [app]. change (size (y :: s1 ++ s2)) with (y * size (s1 ++ s2)).
  change (size (y :: s1)) with (y * size s1). rewrite IH. ring.
Qed.

Lemma size_mvl sh a : (a < length sh)%nat -> size (mvl a sh) = size sh.
Proof.
  intros Ha. unfold mvl. rewrite size_app_last.
  destruct (nth_split sh 0 Ha) as [l1 [l2 [E Hl]]].
  remember (nth a sh 0) as d eqn:Hd. clear Hd. subst sh a. rewrite remove_nth_app_cons.
  rewrite !size_app. replace (size (d :: l2)) with (d * size l2) by reflexivity. ring.
Qed.

Lemma set_at_ins (ix : idx) a k : (a < length ix)%nat -> set_at ix a k = ins a k (remove_nth ix a).
Proof.
  intros Ha. destruct (nth_split ix 0 Ha) as [l1 [l2 [E Hl]]].
  remember (nth a ix 0) as d eqn:Hd. clear Hd. subst ix a.
  rewrite remove_nth_app_cons, ins_app. unfold set_at.
  rewrite firstn_app, firstn_all, Nat.sub_diag. cbn [firstn]. rewrite app_nil_r.
  replace (S (length l1)) with (length l1 + 1)%nat by lia.
  rewrite skipn_app, skipn_all2 by lia.
  replace (length l1 + 1 - length l1)%nat with 1%nat by lia. reflexivity.
Qed.

Lemma in_range_snoc_inv s L c :
  in_range (s ++ [L]) c -> exists c' j, c = c' ++ [j] /\ in_range s c' /\ 0 <= j < L.
Proof.
  revert c. induction s as [|d s IH]; intros [|i c] H; cbn in H; try tauto.
  - destruct c; [|tauto]. exists [], i. cbn. tauto.
  - destruct H as [Hi H]. destruct (IH c H) as [c' [j [-> [Hc Hj]]]].
    exists (i :: c'), j. cbn. tauto.
Qed.

Lemma nth_row2 (c : coo Z) L r j : 0 <= j < L -> nth (Z.to_nat j) (row2 c L r) 0 = den c [r; j].
Proof. intros Hj. unfold row2. apply (zn_map_zrange (fun j => den c [r; j]) L j Hj). Qed.

Definition line_f (f : idx -> Z) (sh : shape) (a : nat) (ix : idx) : list Z :=
  map (fun k => f (set_at ix a k)) (zrange (nth a sh 0)).

Lemma sort_nd_ge2_proof (x : coo Z) (axis : Z) (desc : bool) (a : nat) :
  canonical Z x -> shape_ok (c_shape x) -> (2 <= length (c_shape x))%nat ->
  NpSort.norm_axis (ndimZ x) axis = Some a ->
  exists y, ss_sort x axis desc = Ok y /\ c_shape y = c_shape x /\ c_fill y = c_fill x /\ canonical Z y
    /\ forall ix, in_range (c_shape x) ix ->
         den y ix = nth (Z.to_nat (nth a ix 0)) (np_sort_dir desc (line_f (den x) (c_shape x) a ix)) 0.
Proof.
  intros Hc Hok Hnd Hn.
  remember (c_shape x) as sh eqn:Esh. set (n := length sh) in *.
  assert (Ha : (a < n)%nat).
  { apply (norm_axis_Some n axis). unfold ndimZ, zlen in Hn. rewrite <- Esh in Hn. exact Hn. }
  set (L := nth a sh 0). set (rs := remove_nth sh a). set (P := size rs).
  assert (HL : 0 <= L) by (apply shape_ok_nth; assumption).
  assert (Hrs : shape_ok rs) by (apply shape_ok_remove; assumption).
  assert (HP : 0 <= P) by (apply size_nonneg; assumption).
  assert (Hrsl : length rs = (n - 1)%nat) by (apply remove_nth_length; assumption).
  set (sh1 := mvl a sh).
  assert (Esh1 : sh1 = rs ++ [L]) by reflexivity.
  assert (Hok1 : shape_ok sh1).
  { rewrite Esh1. apply shape_ok_app; [assumption|]. constructor; [assumption|constructor]. }
  assert (Hok2 : shape_ok [P; L]) by (constructor; [assumption|constructor; [assumption|constructor]]).
  assert (Hsz : size sh1 = size [P; L]).
  { rewrite Esh1, size_app_last. cbn [size fold_right]. fold (size rs). fold P. lia. }
  assert (Hins_sh : ins a L rs = sh) by (apply ins_mvl; assumption).
  (* ---- unfold the wrapper *)
  unfold ss_sort. rewrite Hn.
  assert (E1 : (ndimZ x =? 1) = false).
  { apply Z.eqb_neq. unfold ndimZ, zlen. rewrite <- Esh. fold n. lia. }
  rewrite E1. cbv iota. cbv beta zeta.
  rewrite ss_moveaxis_to_last by (rewrite <- Esh; exact Ha). cbn [bind].
  rewrite <- Esh. fold n.
  set (ax1 := filter (fun k => negb (k =? Z.of_nat a)) (iota n) ++ [Z.of_nat a]).
  assert (Hmap1 : forall c, length c = n -> map (znth c) ax1 = mvl a c).
  { intros c Hl. unfold ax1. rewrite <- Hl. apply perm_last_map. lia. }
  destruct (transpose_step x ax1 (fun jx => ins a (last jx 0) (removelast jx)) Hc) as [Hc1 [Hsh1 [Hf1 [_ Hd1]]]].
  { intros c Hr. rewrite <- Esh in *. rewrite (Hmap1 c (in_range_length _ _ Hr)), (Hmap1 sh eq_refl).
    apply in_range_mvl; assumption. }
  { intros c Hr. rewrite <- Esh in Hr. rewrite (Hmap1 c (in_range_length _ _ Hr)). unfold mvl.
    rewrite last_last, removelast_last. apply ins_mvl. rewrite (in_range_length _ _ Hr). exact Ha. }
  set (x1 := ss_transpose x ax1) in *.
  rewrite <- Esh in Hsh1, Hd1. rewrite (Hmap1 sh eq_refl) in Hsh1. fold sh1 in Hsh1.
  replace (last (c_shape x1) 0) with L by (rewrite Hsh1, Esh1, last_last; reflexivity).
  replace (removelast (c_shape x1)) with rs by (rewrite Hsh1, Esh1, removelast_last; reflexivity).
  rewrite Hsh1. fold P.
  destruct (reshape_step x1 [P; L]) as [x2 [Ex2 [Hc2 [Hsh2 [Hf2 [_ Hd2]]]]]]; try assumption;
    try (rewrite Hsh1; assumption).
  rewrite Ex2. cbn [bind].
  pose proof (kernel_step x2 P L desc Hc2 Hsh2 HL) as Hk.
  destruct (sort_coo (map (fun ix => znth ix 0) (c_coords x2)) (map (fun ix => znth ix 1) (c_coords x2))
                     (c_data x2) (c_fill x2) L desc) as [[g ri] d].
  destruct Hk as [Hc3 Hrow].
  set (x3 := mkCOO (c_shape x2) (zip2 g ri) d (c_fill x2)) in *.
  destruct (reshape_step x3 sh1) as [x4 [Ex4 [Hc4 [Hsh4 [Hf4 [_ Hd4]]]]]]; try assumption.
  { change (c_shape x3) with (c_shape x2). rewrite Hsh2. assumption. }
  { change (c_shape x3) with (c_shape x2). rewrite Hsh2. symmetry. assumption. }
  rewrite Ex4. cbn [bind].
  assert (Hl4 : length (c_shape x4) = n).
  { rewrite Hsh4, Esh1, app_length, Hrsl. cbn [length]. lia. }
  rewrite ss_moveaxis_from_last by (rewrite Hl4; exact Ha). cbv zeta. rewrite Hl4.
  set (m := (n - 1)%nat).
  set (ax2 := firstn a (iota m) ++ Z.of_nat m :: skipn a (iota m)).
  assert (Hmap2 : forall c' j, length c' = m -> map (znth (c' ++ [j])) ax2 = ins a j c').
  { intros c' j Hl. unfold ax2. rewrite <- Hl. apply perm_back_map. }
  destruct (transpose_step x4 ax2 (mvl a) Hc4) as [Hc5 [Hsh5 [Hf5 [_ Hd5]]]].
  { intros c Hr. rewrite Hsh4 in *. rewrite Esh1 in Hr. destruct (in_range_snoc_inv _ _ _ Hr) as [c' [j [-> [Hc' Hj]]]].
    rewrite Esh1. rewrite (Hmap2 c' j), (Hmap2 rs L) by (try rewrite (in_range_length _ _ Hc'); assumption).
    apply in_range_ins; assumption. }
  { intros c Hr. rewrite Hsh4, Esh1 in Hr. destruct (in_range_snoc_inv _ _ _ Hr) as [c' [j [-> [Hc' Hj]]]].
    assert (Hl' : length c' = m) by (rewrite (in_range_length _ _ Hc'); assumption).
    rewrite (Hmap2 c' j Hl'). unfold mvl.
    destruct (remove_nth_ins a j c') as [R1 R2]; [lia|]. rewrite R1, R2. reflexivity. }
  set (x5 := ss_transpose x4 ax2) in *. cbn [bind].
  assert (Hsh5' : c_shape x5 = sh).
  { rewrite Hsh5, Hsh4, Esh1, (Hmap2 rs L Hrsl). exact Hins_sh. }
  assert (E5 : (ndimZ x5 =? ndimZ x) = true).
  { apply Z.eqb_eq. unfold ndimZ, zlen. rewrite Hsh5', <- Esh. reflexivity. }
  rewrite E5.
  exists x5. split; [reflexivity|]. split; [exact Hsh5'|].
  split; [rewrite Hf5, Hf4; change (c_fill x3) with (c_fill x2); rewrite Hf2, Hf1; reflexivity|].
  split; [exact Hc5|].
  (* ---- the dense meaning *)
  intros ix Hr.
  assert (Hlix : length ix = n) by (apply in_range_length in Hr; exact Hr).
  set (j0 := nth a ix 0). set (ri0 := remove_nth ix a). set (r0 := ravel rs ri0).
  assert (Hri0 : in_range rs ri0) by (apply in_range_remove; assumption).
  assert (Hj0 : 0 <= j0 < L) by (apply in_range_nth_bound; assumption).
  assert (Hr0 : 0 <= r0 < P) by (apply ravel_bounds; assumption).
  assert (Hli0 : length ri0 = length rs) by (apply in_range_length; assumption).
  (* the image of one position of the line through ix *)
  assert (Himg : forall k, 0 <= k < L -> den x2 [r0; k] = den x (set_at ix a k)).
  { intros k Hk. rewrite set_at_ins by (rewrite Hlix; exact Ha). fold ri0.
    assert (Hrk : in_range sh (ins a k ri0)) by (rewrite <- Hins_sh; apply in_range_ins; assumption).
    rewrite <- (Hd1 _ Hrk). rewrite (Hmap1 _ (in_range_length _ _ Hrk)). unfold mvl.
    destruct (remove_nth_ins a k ri0) as [R1 R2]; [rewrite Hli0, Hrsl; lia|]. rewrite R1, R2.
    assert (Hr1 : in_range (c_shape x1) (ri0 ++ [k])).
    { rewrite Hsh1, Esh1. apply in_range_app; [assumption|]. cbn. split; [assumption|exact I]. }
    rewrite <- (Hd2 _ Hr1). rewrite Hsh1, Esh1, ravel_snoc by assumption. fold r0.
    rewrite two_level by assumption. reflexivity. }
  (* ix is the image of [r0; j0] under the way back *)
  assert (Hc1r : in_range sh1 (ri0 ++ [j0])).
  { rewrite Esh1. apply in_range_app; [assumption|]. cbn. split; [assumption|exact I]. }
  assert (Hback : den x5 ix = den x3 [r0; j0]).
  { assert (Eix : ix = map (znth (ri0 ++ [j0])) ax2).
    { rewrite (Hmap2 ri0 j0) by (rewrite Hli0; exact Hrsl). symmetry. apply ins_mvl. rewrite Hlix. exact Ha. }
    rewrite Eix at 1. rewrite Hd5 by (rewrite Hsh4; exact Hc1r).
    assert (Hr3 : in_range (c_shape x3) [r0; j0]).
    { change (c_shape x3) with (c_shape x2). rewrite Hsh2. cbn. tauto. }
    rewrite <- (Hd4 _ Hr3). change (c_shape x3) with (c_shape x2). rewrite Hsh2. f_equal.
    assert (Erav : ravel [P; L] [r0; j0] = ravel sh1 (ri0 ++ [j0])).
    { rewrite Esh1, ravel_snoc by assumption. cbn [ravel size fold_right]. fold r0. lia. }
    rewrite Erav. symmetry. apply unravel_ravel. exact Hc1r. }
  rewrite Hback, <- (nth_row2 x3 L r0 j0 Hj0), (Hrow r0 Hr0). fold j0. f_equal. f_equal.
  unfold row2, line_f. fold L. apply map_ext_in. intros k Hk. apply zrange_In in Hk. apply Himg. assumption.
Qed.

(* sparse.sort, any number of dimensions >= 1, any valid axis (negative numbers included), both
   directions: the result is canonical, has the shape and fill value of the input, and each of its
   elements is the element of the same position of the sorted dense line through it *)
Lemma sort_nd_proof (x : coo Z) (axis : Z) (desc : bool) (a : nat) :
  canonical Z x -> shape_ok (c_shape x) -> (1 <= length (c_shape x))%nat ->
  NpSort.norm_axis (ndimZ x) axis = Some a ->
  exists y, ss_sort x axis desc = Ok y /\ c_shape y = c_shape x /\ c_fill y = c_fill x /\ canonical Z y
    /\ forall ix, in_range (c_shape x) ix ->
         den y ix = nth (Z.to_nat (nth a ix 0)) (np_sort_dir desc (line_f (den x) (c_shape x) a ix)) 0.
Proof.
  intros Hc Hok Hnd Hn.
  destruct (Nat.le_gt_cases 2 (length (c_shape x))) as [H2|H1].
  - apply sort_nd_ge2_proof; assumption.
  - destruct x as [sh cs data fill]. cbn [c_shape c_fill] in *.
    destruct sh as [|n [|d2 t]]; cbn [length] in *; try lia.
    assert (Hax : axis = 0 \/ axis = -1).
    { unfold NpSort.norm_axis, ndimZ, zlen in Hn. cbn [c_shape length] in Hn.
      destruct (Z.leb_spec (- Z.of_nat 1) axis); [|discriminate].
      destruct (Z.ltb_spec axis (Z.of_nat 1)); [|discriminate]. lia. }
    assert (Ha : a = 0%nat).
    { pose proof (norm_axis_Some 1 axis a) as H. unfold ndimZ, zlen in Hn. cbn [c_shape length] in Hn.
      specialize (H Hn). lia. }
    subst a.
    assert (Hn0 : 0 <= n) by (inversion Hok; assumption).
    destruct (sort_1d_proof n axis cs data fill desc Hax Hn0 Hc) as [y [Ey [Hsh [Hfl [Hcy Hflat]]]]].
    exists y. split; [exact Ey|]. split; [exact Hsh|]. split; [exact Hfl|]. split; [exact Hcy|].
    intros ix Hr. destruct ix as [|j [|j2 t]]; cbn in Hr; try tauto.
    cbn [nth]. replace (line_f (den (mkCOO [n] cs data fill)) [n] 0 [j]) with (flat1 (mkCOO [n] cs data fill) n)
      by reflexivity.
    rewrite <- Hflat. unfold flat1. symmetry. apply (zn_map_zrange (fun j => den y [j]) n j). lia.
Qed.

(* ================================================================== E. argmax / argmin, any number of dimensions >= 2 *)

Definition mvf (a : nat) (c : idx) : idx := nth a c 0 :: remove_nth c a.

Lemma znth_iota (n a : nat) : (a < n)%nat -> znth (iota n) (Z.of_nat a) = Z.of_nat a.
Proof.
  intros H. unfold znth, iota. rewrite Nat2Z.id.
  rewrite (nth_indep _ 0 (Z.of_nat 0)) by (rewrite map_length, seq_length; assumption).
  rewrite map_nth, seq_nth by assumption. reflexivity.
Qed.

Lemma perm_front_map (a : nat) (c : idx) :
  map (znth c) (Z.of_nat a :: remove_nth (iota (length c)) a) = mvf a c.
Proof.
  cbn [map]. rewrite <- remove_nth_map, znth_iota_id. unfold mvf, znth. rewrite Nat2Z.id. reflexivity.
Qed.

Lemma in_range_mvf sh c a : in_range sh c -> (a < length sh)%nat -> in_range (mvf a sh) (mvf a c).
Proof.
  intros H Ha. unfold mvf. cbn. split; [apply in_range_nth_bound; assumption|apply in_range_remove; assumption].
Qed.

Lemma py_pop_nat (l : list Z) (a : nat) :
  (a < length l)%nat -> py_pop l (Z.of_nat a) = Ok (nth a l 0, remove_nth l a).
Proof.
  intros H. unfold py_pop, zlen. destruct (Z.ltb_spec (Z.of_nat a) 0); [lia|].
  destruct (Z.ltb_spec (Z.of_nat a) 0); [lia|]. cbn [orb].
  destruct (Z.leb_spec (Z.of_nat (length l)) (Z.of_nat a)); [lia|].
  unfold znth. rewrite Nat2Z.id. reflexivity.
Qed.

Lemma tl_iota (m : nat) : remove_nth (iota (S m)) 0 = map (fun k => k + 1) (iota m).
Proof.
  unfold remove_nth, iota. cbn [seq map firstn skipn app]. rewrite <- seq_shift, !map_map.
  apply map_ext. intros k. lia.
Qed.

Lemma znth_cons_succ z0 (o : idx) k : 0 <= k -> znth (z0 :: o) (k + 1) = znth o k.
Proof. intros Hk. unfold znth. replace (Z.to_nat (k + 1)) with (S (Z.to_nat k)) by lia. reflexivity. Qed.

Lemma perm_insert0_map (a : nat) (z0 : Z) (o : idx) :
  let t := remove_nth (iota (S (length o))) 0 in
  map (znth (z0 :: o)) (firstn a t ++ 0 :: skipn a t) = ins a z0 o.
Proof.
  intros t. assert (Ht : map (znth (z0 :: o)) t = o).
  { unfold t. rewrite tl_iota, map_map. rewrite <- (znth_iota_id o) at 2.
    apply map_ext_in. intros k Hk. apply znth_cons_succ.
    unfold iota in Hk. apply in_map_iff in Hk. destruct Hk as [q [<- _]]. lia. }
  rewrite map_app. cbn [map]. rewrite <- firstn_map, <- skipn_map, Ht. reflexivity.
Qed.

(* removing one component that is equal in both tuples keeps the lexicographic order *)
Lemma lex_lt_remove (a : nat) (u v : idx) :
  length u = length v -> nth a u 0 = nth a v 0 -> lex_lt u v -> lex_lt (remove_nth u a) (remove_nth v a).
Proof.
  revert u v. induction a as [|a IH]; intros [|x u] [|y v] Hl He Hlt; cbn in *; try tauto; try discriminate.
  - unfold remove_nth. cbn [firstn skipn app]. destruct Hlt as [Hlt|[_ Hlt]]; [lia|assumption].
  - unfold remove_nth in *. cbn [firstn skipn app lex_lt]. destruct Hlt as [Hlt|[-> Hlt]]; [left; assumption|].
    right. split; [reflexivity|]. apply IH; [lia|assumption|assumption].
Qed.

(* COO.squeeze(axis) on an axis of extent 1 *)
Lemma squeeze_step (x : coo Z) (a : nat) :
  canonical Z x -> (a < length (c_shape x))%nat -> nth a (c_shape x) 0 = 1 ->
  exists z, ss_squeeze_axis x (Z.of_nat a) = Ok z /\ canonical Z z /\ c_shape z = remove_nth (c_shape x) a
    /\ c_fill z = c_fill x
    /\ forall c, in_range (c_shape x) c -> den z (remove_nth c a) = den x c.
Proof.
  intros Hc Ha H1. unfold ss_squeeze_axis. unfold znth at 1. rewrite Nat2Z.id, H1. change (1 =? 1) with true.
  cbn [negb]. pose proof Hc as [_ [_ Hl]].
  rewrite (make_sorted_eq x _ (fun ix => remove_nth ix a) Hl).
  assert (H0 : forall c, in_range (c_shape x) c -> nth a c 0 = 0).
  { intros c Hr. pose proof (in_range_nth_bound _ _ a Hr Ha). lia. }
  assert (Hinj : forall u v, in_range (c_shape x) u -> in_range (c_shape x) v ->
                 remove_nth u a = remove_nth v a -> u = v).
  { intros u v Hu Hv He.
    rewrite <- (ins_mvl a u), <- (ins_mvl a v) by (rewrite (in_range_length _ _ Hu) || rewrite (in_range_length _ _ Hv); exact Ha).
    rewrite (H0 u Hu), (H0 v Hv), He. reflexivity. }
  eexists. split; [reflexivity|]. split.
  { apply remap_canonical; try assumption.
    - intros c Hr. apply in_range_remove. assumption.
    - intros _ u v Hu Hv Hlt. apply lex_lt_remove; [|rewrite (H0 u Hu), (H0 v Hv); reflexivity|assumption].
      rewrite (in_range_length _ _ Hu), (in_range_length _ _ Hv). reflexivity. }
  split; [reflexivity|]. split; [reflexivity|].
  intros c Hr. apply (remap_den_image Z x _ (fun ix => remove_nth ix a) true Hc Hinj c Hr).
Qed.

(* ---- the pruned 1-d array COO(result_indices, result_data, shape=(Q,), fill_value=0, prune=True) *)

Lemma pruned_result_form (Q : Z) (ri rd : list Z) :
  let es := filter (fun e => negb (snd e =? 0)) (combine (map (fun i => [i]) ri) rd) in
  ss_prune (mkCOO [Q] (map (fun i => [i]) ri) rd 0)
  = mkCOO [Q] (map (fun e => [znth (fst e) 0]) es) (map snd es) 0.
Proof.
  intros es. unfold ss_prune. cbn [c_shape c_coords c_data c_fill]. fold es. f_equal.
  apply map_ext_in. intros [k v] Hin. unfold es in Hin. apply filter_In in Hin. destruct Hin as [Hin _].
  apply in_combine_l in Hin. apply in_map_iff in Hin. destruct Hin as [i [<- _]]. reflexivity.
Qed.

Lemma pruned_result_canonical (Q : Z) (ri rd : list Z) :
  StronglySorted Z.lt ri -> Forall (fun i => 0 <= i < Q) ri -> length rd = length ri ->
  canonical Z (ss_prune (mkCOO [Q] (map (fun i => [i]) ri) rd 0)).
Proof.
  intros Hs Hb Hl. unfold ss_prune, canonical. cbn [c_shape c_coords c_data c_fill].
  set (es := filter _ _).
  assert (Hsub : forall k, In k (map fst es) -> exists i, k = [i] /\ In i ri).
  { intros k Hk. apply in_map_iff in Hk. destruct Hk as [[k' v] [<- Hin]]. unfold es in Hin.
    apply filter_In in Hin. destruct Hin as [Hin _]. apply in_combine_l in Hin.
    apply in_map_iff in Hin. destruct Hin as [i [<- Hi]]. exists i. auto. }
  split; [|split].
  - apply Forall_forall. intros k Hk. destruct (Hsub k Hk) as [i [-> Hi]].
    rewrite Forall_forall in Hb. specialize (Hb i Hi). cbn. tauto.
  - unfold es. clear Hsub es. revert rd Hl. induction Hs as [|i ri Hs IH Hall]; intros [|v rd] Hl; try discriminate.
    + cbn. constructor.
    + cbn [map combine filter snd]. inversion Hb as [|? ? _ Hb']; subst. cbn in Hl.
      assert (Hrest : Forall (lex_lt [i]) (map fst (filter (fun e => negb (snd e =? 0)) (combine (map (fun i => [i]) ri) rd)))).
      { apply Forall_forall. intros k Hk. apply in_map_iff in Hk. destruct Hk as [[k' w] [<- Hin]].
        apply filter_In in Hin. destruct Hin as [Hin _]. apply in_combine_l in Hin.
        apply in_map_iff in Hin. destruct Hin as [j [<- Hj]]. rewrite Forall_forall in Hall.
        specialize (Hall j Hj). cbn. left. assumption. }
      destruct (negb (v =? 0)); [cbn [map fst]; constructor; [apply IH; [assumption|lia]|assumption]|apply IH; [assumption|lia]].
  - rewrite !map_length. reflexivity.
Qed.

Lemma pruned_result_den (Q : Z) (ri rd : list Z) k :
  NoDup ri -> length rd = length ri ->
  den (ss_prune (mkCOO [Q] (map (fun i => [i]) ri) rd 0)) [k] = alist_get k (combine ri rd) 0.
Proof.
  intros Hnd Hl. rewrite pruned_result_form. cbv zeta.
  apply (den_pruned_result (fun k => [k]) [Q] ri rd k); try assumption.
  intros a b H. inversion H. reflexivity.
Qed.

(* the kernel on a canonical pruned 2-d array (reduce axis first, non-empty) *)
Lemma arg_kernel_step (xr : coo Z) (N Q : Z) (maxm : bool) :
  canonical Z xr -> c_shape xr = [N; Q] -> 0 < N ->
  let r := minmax_args (map (fun ix => znth ix 0) (c_coords xr)) (map (fun ix => znth ix 1) (c_coords xr))
                       (c_data xr) N (c_fill xr) maxm in
  StronglySorted Z.lt (fst r) /\ Forall (fun i => 0 <= i < Q) (fst r) /\ length (snd r) = length (fst r)
  /\ forall k, arg_result r k = np_argbest maxm (col2 xr N k).
Proof.
  intros Hc Hsh HN. destruct xr as [sh cs data fill]. cbn [c_shape c_coords c_data c_fill] in *. subst sh.
  pose proof Hc as [Hr _]. cbn [c_shape c_coords] in Hr.
  set (rc := map (fun ix => znth ix 0) cs). set (ic := map (fun ix => znth ix 1) cs).
  assert (Hz : zip2 rc ic = cs) by (apply (zip2_cols N Q); assumption).
  assert (Hlen : length ic = length rc) by (unfold rc, ic; rewrite !map_length; reflexivity).
  cbv zeta. split; [unfold minmax_args; cbn [fst]; apply np_unique_strict|].
  split.
  { unfold minmax_args. cbn [fst]. apply Forall_forall. intros i Hi. apply (proj1 (np_unique_In _ _)) in Hi.
    unfold ic in Hi. apply in_map_iff in Hi. destruct Hi as [ix [<- Hix]]. rewrite Forall_forall in Hr.
    specialize (Hr _ Hix). destruct ix as [|u [|v [|w t]]]; cbn in Hr; try tauto; try (unfold znth; cbn; lia). }
  split; [unfold minmax_args; cbn [fst snd]; apply map_length|].
  intros k. rewrite <- Hz in Hc.
  pose proof (argminmax_first_proof rc ic data N Q fill maxm Hlen HN Hc k) as Hfb.
  apply first_best_np in Hfb. rewrite Hz in Hfb. exact Hfb.
Qed.

Lemma arg_core_ge2_proof (maxm : bool) (x : coo Z) (a : nat) :
  canonical Z x -> shape_ok (c_shape x) ->
  (a < length (c_shape x))%nat -> 0 < nth a (c_shape x) 0 ->
  let rs := remove_nth (c_shape x) a in
  exists r2, arg_core maxm x (Z.of_nat a) = Ok r2
    /\ c_shape r2 = ins a 1 rs /\ canonical Z r2
    /\ forall o, in_range rs o ->
         den r2 (ins a 0 o) = np_argbest maxm (map (fun i => den x (ins a i o)) (zrange (nth a (c_shape x) 0))).
Proof.
  intros Hc Hok Ha HN rs.
  remember (c_shape x) as sh eqn:Esh. set (n := length sh) in *.
  set (N := nth a sh 0) in *. set (Q := size rs).
  assert (Hrs : shape_ok rs) by (apply shape_ok_remove; assumption).
  assert (HQ : 0 <= Q) by (apply size_nonneg; assumption).
  assert (Hrsl : length rs = (n - 1)%nat) by (apply remove_nth_length; assumption).
  assert (Hins_sh : ins a N rs = sh) by (apply ins_mvl; assumption).
  unfold arg_core. rewrite <- Esh. fold n.
  rewrite (py_pop_nat (iota n) a) by (rewrite iota_length; exact Ha). cbn [bind].
  rewrite (py_pop_nat sh a Ha). cbn [bind]. fold N. fold rs. fold Q.
  replace (nth a (iota n) 0) with (Z.of_nat a)
    by (symmetry; pose proof (znth_iota n a Ha) as Hz; unfold znth in Hz; rewrite Nat2Z.id in Hz; exact Hz).
  set (ax1 := Z.of_nat a :: remove_nth (iota n) a).
  assert (Hmap1 : forall c, length c = n -> map (znth c) ax1 = mvf a c).
  { intros c Hl. unfold ax1. rewrite <- Hl. apply perm_front_map. }
  destruct (transpose_step x ax1 (fun jx => ins a (hd 0 jx) (tl jx)) Hc) as [Hc1 [Hsh1 [Hf1 [Hp1 Hd1]]]].
  { intros c Hr. rewrite <- Esh in *. rewrite (Hmap1 c (in_range_length _ _ Hr)), (Hmap1 sh eq_refl).
    apply in_range_mvf; assumption. }
  { intros c Hr. rewrite <- Esh in Hr. rewrite (Hmap1 c (in_range_length _ _ Hr)). unfold mvf. cbn [hd tl].
    apply ins_mvl. rewrite (in_range_length _ _ Hr). exact Ha. }
  set (x1 := ss_transpose x ax1) in *.
  rewrite <- Esh in Hsh1, Hd1. rewrite (Hmap1 sh eq_refl) in Hsh1. unfold mvf in Hsh1. fold N rs in Hsh1.
  assert (Hok1 : shape_ok (N :: rs)) by (constructor; [lia|assumption]).
  assert (Hok2 : shape_ok [N; Q]) by (constructor; [lia|constructor; [assumption|constructor]]).
  destruct (reshape_step x1 [N; Q]) as [x2 [Ex2 [Hc2 [Hsh2 [Hf2 [Hp2 Hd2]]]]]]; try assumption;
    try (rewrite Hsh1; assumption).
  { rewrite Hsh1. cbn [size fold_right]. fold (size rs). fold Q. lia. }
  rewrite Ex2. cbn [bind].
  pose proof (arg_kernel_step x2 N Q maxm Hc2 Hsh2 HN) as Hk. cbv zeta in Hk.
  destruct (minmax_args (map (fun ix => znth ix 0) (c_coords x2)) (map (fun ix => znth ix 1) (c_coords x2))
                        (c_data x2) N (c_fill x2) maxm) as [ri rd] eqn:Ek.
  cbn [fst snd] in Hk. destruct Hk as [Hss [Hbd [Hlen Hres]]].
  set (r := ss_prune (mkCOO [Q] (map (fun i => [i]) ri) rd 0)).
  assert (Hcr : canonical Z r) by (apply pruned_result_canonical; assumption).
  assert (Hshr : c_shape r = [Q]) by reflexivity.
  assert (Hdr : forall k, den r [k] = arg_result (ri, rd) k).
  { intros k. apply pruned_result_den; [apply SS_lex_NoDup_Z; assumption|assumption]. }
  destruct (reshape_step r (1 :: rs)) as [r1 [Er1 [Hcr1 [Hshr1 [Hfr1 [_ Hdr1]]]]]]; try assumption.
  { rewrite Hshr. constructor; [assumption|constructor]. }
  { constructor; [lia|assumption]. }
  { rewrite Hshr. cbn [size fold_right]. fold (size rs). fold Q. lia. }
  rewrite Er1. cbn [bind]. rewrite Hshr1. cbn [length]. rewrite Hrsl.
  replace (S (n - 1)) with (S (length rs)) by lia.
  assert (Epop : py_pop (iota (S (length rs))) 0 = Ok (0, remove_nth (iota (S (length rs))) 0)).
  { apply (py_pop_nat (iota (S (length rs))) 0). rewrite iota_length. lia. }
  rewrite Epop. cbn [bind].
  set (t := remove_nth (iota (S (length rs))) 0).
  assert (Htl : length t = length rs).
  { unfold t. rewrite tl_iota, map_length, iota_length. reflexivity. }
  rewrite (py_insert_mid t a 0) by (rewrite Htl, Hrsl; lia).
  set (ax2 := firstn a t ++ 0 :: skipn a t).
  assert (Hmap2 : forall z0 o, length o = length rs -> map (znth (z0 :: o)) ax2 = ins a z0 o).
  { intros z0 o Hl. unfold ax2, t. rewrite <- Hl. apply perm_insert0_map. }
  destruct (transpose_step r1 ax2 (mvf a) Hcr1) as [Hcr2 [Hshr2 [Hfr2 [_ Hdr2]]]].
  { intros c Hr. rewrite Hshr1 in *. destruct c as [|z0 o]; cbn in Hr; [tauto|]. destruct Hr as [Hz0 Ho].
    rewrite (Hmap2 z0 o (in_range_length _ _ Ho)), (Hmap2 1 rs eq_refl). apply in_range_ins; assumption. }
  { intros c Hr. rewrite Hshr1 in Hr. destruct c as [|z0 o]; cbn in Hr; [tauto|]. destruct Hr as [Hz0 Ho].
    rewrite (Hmap2 z0 o (in_range_length _ _ Ho)). unfold mvf.
    destruct (remove_nth_ins a z0 o) as [R1 R2]; [rewrite (in_range_length _ _ Ho), Hrsl; lia|].
    rewrite R1, R2. reflexivity. }
  set (r2 := ss_transpose r1 ax2) in *.
  rewrite Hshr1, (Hmap2 1 rs eq_refl) in Hshr2.
  (* what the result holds for an index o of the remaining axes *)
  assert (Hval : forall o, in_range rs o ->
            den r2 (ins a 0 o) = np_argbest maxm (map (fun i => den x (ins a i o)) (zrange N))).
  { intros o Ho. assert (Hlo : length o = length rs) by (apply in_range_length; assumption).
    set (k := ravel rs o).
    assert (Hk : 0 <= k < Q) by (apply ravel_bounds; assumption).
    rewrite <- (Hmap2 0 o Hlo).
    rewrite Hdr2 by (rewrite Hshr1; cbn; split; [lia|assumption]).
    assert (E : 0 :: o = unravel (1 :: rs) (ravel (c_shape r) [k])).
    { rewrite Hshr. cbn [ravel unravel size fold_right]. fold (size rs). fold Q.
      replace (k * 1 + 0) with k by lia. rewrite Z.div_small, Z.mod_small by lia.
      unfold k. rewrite unravel_ravel by assumption. reflexivity. }
    rewrite E, Hdr1 by (rewrite Hshr; cbn; split; [assumption|exact I]).
    rewrite Hdr, Hres. f_equal. unfold col2. apply map_ext_in. intros i Hi. apply zrange_In in Hi.
    assert (Hri : in_range sh (ins a i o)) by (rewrite <- Hins_sh; apply in_range_ins; assumption).
    rewrite <- (Hd1 _ Hri). rewrite (Hmap1 _ (in_range_length _ _ Hri)). unfold mvf.
    destruct (remove_nth_ins a i o) as [R1 R2]; [rewrite Hlo, Hrsl; lia|]. rewrite R1, R2.
    assert (Hr1 : in_range (c_shape x1) (i :: o)) by (rewrite Hsh1; cbn; split; assumption).
    rewrite <- (Hd2 _ Hr1). rewrite Hsh1. cbn [ravel]. fold (size rs). fold Q. fold k.
    rewrite two_level by assumption. reflexivity. }
  exists r2. split; [reflexivity|]. split; [exact Hshr2|]. split; [exact Hcr2|]. exact Hval.
Qed.

Lemma argminmax_nd_ge2_proof (maxm kd : bool) (x : coo Z) (axis : Z) (a : nat) :
  canonical Z x -> shape_ok (c_shape x) -> (2 <= length (c_shape x))%nat ->
  NpSort.norm_axis (ndimZ x) axis = Some a -> 0 < nth a (c_shape x) 0 ->
  let rs := remove_nth (c_shape x) a in
  exists z, ss_argminmax maxm x (Some axis) kd = Ok z
    /\ c_shape z = (if kd then ins a 1 rs else rs) /\ canonical Z z
    /\ forall o, in_range rs o ->
         den z (if kd then ins a 0 o else o)
         = np_argbest maxm (map (fun i => den x (ins a i o)) (zrange (nth a (c_shape x) 0))).
Proof.
  intros Hc Hok Hnd Hn HN rs.
  assert (Ha : (a < length (c_shape x))%nat) by (apply (norm_axis_Some _ axis); exact Hn).
  destruct (arg_core_ge2_proof maxm x a Hc Hok Ha HN) as [r2 [Ecore [Hshr2 [Hcr2 Hval]]]]. fold rs in Hshr2, Hval.
  assert (Hrsl : length rs = (length (c_shape x) - 1)%nat) by (apply remove_nth_length; assumption).
  unfold ss_argminmax.
  assert (E0 : (ndimZ x <=? axis) = false).
  { unfold NpSort.norm_axis in Hn. destruct (- ndimZ x <=? axis); [|discriminate].
    destruct (Z.ltb_spec axis (ndimZ x)); [|discriminate]. apply Z.leb_gt. assumption. }
  rewrite E0.
  assert (E1 : (ndimZ x =? 0) = false) by (apply Z.eqb_neq; unfold ndimZ, zlen; lia).
  rewrite E1. cbv iota. rewrite Hn. cbn [bind].
  unfold znth at 1. rewrite Nat2Z.id.
  destruct (Z.eqb_spec (nth a (c_shape x) 0) 0) as [E|_]; [lia|]. cbn [bind].
  assert (E2 : (ndimZ x =? 1) = false) by (apply Z.eqb_neq; unfold ndimZ, zlen; lia).
  rewrite E2, andb_false_r. cbv iota. rewrite Ecore. cbn [andb bind]. destruct kd.
  - exists r2. split; [reflexivity|]. split; [exact Hshr2|]. split; [exact Hcr2|]. exact Hval.
  - destruct (squeeze_step r2 a Hcr2) as [z [Ez [Hcz [Hshz [_ Hdz]]]]].
    { rewrite Hshr2. unfold ins. rewrite app_length, firstn_length_le by lia. cbn [length]. lia. }
    { rewrite Hshr2. destruct (remove_nth_ins a 1 rs) as [_ R2]; [lia|]. exact R2. }
    rewrite Ez. exists z. split; [reflexivity|].
    split; [rewrite Hshz, Hshr2; destruct (remove_nth_ins a 1 rs) as [R1 _]; [lia|exact R1]|].
    split; [exact Hcz|].
    intros o Ho. rewrite <- (Hval o Ho).
    assert (Hr2 : in_range (c_shape r2) (ins a 0 o)) by (rewrite Hshr2; apply in_range_ins; [assumption|lia]).
    rewrite <- (Hdz _ Hr2). destruct (remove_nth_ins a 0 o) as [R1 _]; [rewrite (in_range_length _ _ Ho), Hrsl; lia|].
    rewrite R1. reflexivity.
Qed.

(* ---- x[:, None], reshape(-1), squeeze() of an all-ones shape *)

Lemma lex_lt_app_tail a b t : lex_lt a b -> lex_lt (a ++ t) (b ++ t).
Proof.
  revert b. induction a as [|x a IH]; intros [|y b] H; cbn in *; try tauto.
  destruct H as [H|[-> H]]; [left; assumption|right; split; [reflexivity|apply IH; assumption]].
Qed.

Lemma newaxis_back_step (x : coo Z) :
  canonical Z x ->
  canonical Z (newaxis_back x) /\ c_shape (newaxis_back x) = c_shape x ++ [1]
  /\ c_fill (newaxis_back x) = c_fill x
  /\ (prunedb Z.eqb x = true -> prunedb Z.eqb (newaxis_back x) = true)
  /\ forall c, in_range (c_shape x) c -> den (newaxis_back x) (c ++ [0]) = den x c.
Proof.
  intros Hc. pose proof Hc as [_ [_ Hl]]. unfold newaxis_back.
  rewrite (make_sorted_eq x _ (fun ix => ix ++ [0]) Hl).
  assert (Hinj : forall a b, in_range (c_shape x) a -> in_range (c_shape x) b -> a ++ [0] = b ++ [0] -> a = b).
  { intros a b _ _ H. apply app_inv_tail in H. assumption. }
  split.
  { apply remap_canonical; try assumption.
    - intros c Hr. apply in_range_app; [assumption|]. cbn. split; [lia|exact I].
    - intros _ a b _ _ H. apply lex_lt_app_tail. assumption. }
  split; [reflexivity|]. split; [reflexivity|]. split; [apply (remap_pruned Z Z.eqb)|].
  intros c Hr. apply (remap_den_image Z x _ (fun ix => ix ++ [0]) true Hc Hinj c Hr).
Qed.

Lemma shape_ok_eqb_m1 sh : shape_ok sh -> idx_eqb sh [-1] = false.
Proof.
  intros H. destruct sh as [|d [|d2 t]]; try reflexivity.
  - cbn [idx_eqb]. inversion H; subst. destruct (Z.eqb_spec d (-1)); [lia|reflexivity].
  - cbn [idx_eqb]. apply andb_false_r.
Qed.

(* x.reshape(-1) *)
Lemma flatten_step (x : coo Z) :
  canonical Z x -> shape_ok (c_shape x) ->
  let S := size (c_shape x) in
  exists r, ss_reshape x [-1] = Ok r /\ canonical Z r /\ c_shape r = [S] /\ c_fill r = c_fill x
    /\ (prunedb Z.eqb x = true -> prunedb Z.eqb r = true)
    /\ forall i, 0 <= i < S -> den r [i] = den x (unravel (c_shape x) i).
Proof.
  intros Hc Hok S. unfold ss_reshape. rewrite (shape_ok_eqb_m1 _ Hok).
  change (existsb (Z.eqb (-1)) [-1]) with true. cbv iota.
  change (filter (fun d => negb (d =? -1)) [-1]) with (@nil Z). change (size []) with 1.
  change (1 =? 0) with false. rewrite Z.mod_1_r. change (0 =? 0) with true. cbn [negb orb bind map].
  change (-1 =? -1) with true. cbv iota. rewrite Z.div_1_r. fold S.
  assert (ES : size [S] = S) by (cbn [size fold_right]; lia).
  rewrite ES, Z.eqb_refl. cbn [negb].
  pose proof Hc as [_ [_ Hl]].
  rewrite (make_sorted_eq x [S] (fun ix => unravel [S] (ravel (c_shape x) ix)) Hl).
  set (f := fun ix => unravel [S] (ravel (c_shape x) ix)).
  assert (Hf : forall c, in_range (c_shape x) c -> f c = [ravel (c_shape x) c]).
  { intros c Hr. unfold f. cbn [unravel size fold_right]. rewrite Z.div_1_r. reflexivity. }
  assert (Hinj : forall a b, in_range (c_shape x) a -> in_range (c_shape x) b -> f a = f b -> a = b).
  { intros a b Ha Hb He. rewrite (Hf a Ha), (Hf b Hb) in He. inversion He.
    apply (ravel_inj (c_shape x)); assumption. }
  eexists. split; [reflexivity|]. split.
  { apply remap_canonical; try assumption.
    - intros c Hr. rewrite (Hf c Hr). cbn. pose proof (ravel_bounds _ _ Hr). fold S in H. tauto.
    - intros _ a b Ha Hb Hlt. rewrite (Hf a Ha), (Hf b Hb). cbn. left. apply (ravel_lex (c_shape x)); assumption. }
  split; [reflexivity|]. split; [reflexivity|]. split; [apply (remap_pruned Z Z.eqb)|].
  intros i Hi.
  assert (Hr : in_range (c_shape x) (unravel (c_shape x) i)) by (apply unravel_in_range; assumption).
  rewrite <- (remap_den_image Z x [S] f true Hc Hinj _ Hr). f_equal.
  rewrite (Hf _ Hr), ravel_unravel by assumption. reflexivity.
Qed.

Definition ones (n : nat) : shape := map (fun _ => 1) (seq 0 n).
Definition zeros (n : nat) : idx := repeat 0 n.

Lemma ones_S n : ones (S n) = 1 :: ones n.
Proof. unfold ones. cbn [seq map]. f_equal. rewrite <- seq_shift, map_map. reflexivity. Qed.

Lemma size_ones n : size (ones n) = 1.
Proof. induction n as [|n IH]; [reflexivity|]. rewrite ones_S. change (size (1 :: ones n)) with (1 * size (ones n)). lia. Qed.

Lemma shape_ok_ones n : shape_ok (ones n).
Proof. induction n as [|n IH]; [constructor|]. rewrite ones_S. constructor; [lia|assumption]. Qed.

Lemma unravel_ones_0 n : unravel (ones n) 0 = zeros n.
Proof.
  induction n as [|n IH]; [reflexivity|]. rewrite ones_S. cbn [unravel zeros repeat].
  rewrite size_ones. change (0 / 1) with 0. change (0 mod 1) with 0. f_equal. exact IH.
Qed.

Lemma in_range_ones n c : in_range (ones n) c -> c = zeros n.
Proof.
  revert c. induction n as [|n IH]; intros c H.
  - destruct c; [reflexivity|contradiction].
  - rewrite ones_S in H. destruct c as [|i c]; [contradiction|]. cbn in H. destruct H as [Hi H].
    cbn [zeros repeat]. f_equal; [lia|apply IH; assumption].
Qed.

Lemma keep_non1_ones {A} n (l : list A) : keep_non1 (ones n) l = [].
Proof.
  revert l. induction n as [|n IH]; intros l; [reflexivity|]. rewrite ones_S.
  destruct l as [|a l]; [reflexivity|]. cbn [keep_non1]. change (1 =? 1) with true. apply IH.
Qed.

(* COO.squeeze() of an array whose extents are all 1 *)
Lemma squeeze_ones_step (x : coo Z) (n : nat) :
  canonical Z x -> c_shape x = ones n ->
  canonical Z (ss_squeeze x) /\ c_shape (ss_squeeze x) = [] /\ den (ss_squeeze x) [] = den x (zeros n).
Proof.
  intros Hc Hsh. pose proof Hc as [_ [_ Hl]]. unfold ss_squeeze.
  rewrite (make_sorted_eq x _ (keep_non1 (c_shape x)) Hl). rewrite Hsh, keep_non1_ones.
  assert (Hz : forall c, in_range (c_shape x) c -> c = zeros n).
  { intros c Hr. rewrite Hsh in Hr. apply in_range_ones. assumption. }
  assert (Hinj : forall a b, in_range (c_shape x) a -> in_range (c_shape x) b ->
                 keep_non1 (ones n) a = keep_non1 (ones n) b -> a = b).
  { intros a b Ha Hb _. rewrite (Hz a Ha), (Hz b Hb). reflexivity. }
  split.
  { apply remap_canonical; try assumption.
    - intros c _. rewrite keep_non1_ones. exact I.
    - intros _ a b Ha Hb Hlt. exfalso. rewrite (Hz a Ha), (Hz b Hb) in Hlt. apply (lex_lt_irrefl _ Hlt). }
  split; [reflexivity|].
  assert (Hr : in_range (c_shape x) (zeros n)).
  { rewrite Hsh. clear. induction n as [|n IH]; [exact I|]. rewrite ones_S. cbn. split; [lia|exact IH]. }
  rewrite <- (remap_den_image Z x [] (keep_non1 (ones n)) true Hc Hinj _ Hr). rewrite keep_non1_ones. reflexivity.
Qed.

(* ---- argmax / argmin of a 1-d array (axis 0 or -1) *)
Lemma argminmax_1d_proof (maxm kd : bool) (n axis : Z) (cs : list idx) (data : list Z) (fill : Z) :
  (axis = 0 \/ axis = -1) -> 0 < n ->
  canonical Z (mkCOO [n] cs data fill) ->
  exists z, ss_argminmax maxm (mkCOO [n] cs data fill) (Some axis) kd = Ok z
    /\ c_shape z = (if kd then [1] else []) /\ canonical Z z
    /\ den z (if kd then [0] else []) = np_argbest maxm (flat1 (mkCOO [n] cs data fill) n).
Proof.
  intros Hax Hn Hc. set (x := mkCOO [n] cs data fill) in *.
  destruct (newaxis_back_step x Hc) as [Hc' [Hsh' [Hf' [_ Hd']]]].
  set (x' := newaxis_back x) in *. change (c_shape x ++ [1]) with [n; 1] in Hsh'.
  destruct (arg_core_ge2_proof maxm x' 0 Hc') as [r2 [Ecore [Hshr2 [Hcr2 Hval]]]];
    try (rewrite Hsh'; cbn; lia).
  { rewrite Hsh'. constructor; [lia|constructor; [lia|constructor]]. }
  change (Z.of_nat 0) with 0 in Ecore.
  rewrite Hsh' in Hshr2, Hval. change (remove_nth [n; 1] 0) with [1] in Hshr2, Hval.
  change (ins 0 1 [1]) with [1; 1] in Hshr2. change (nth 0 [n; 1] 0) with n in Hval.
  specialize (Hval [0] ltac:(cbn; lia)). change (ins 0 0 [0]) with [0; 0] in Hval.
  assert (Hflat : map (fun i => den x' (ins 0 i [0])) (zrange n) = flat1 x n).
  { unfold flat1. apply map_ext_in. intros i Hi. apply zrange_In in Hi.
    change (ins 0 i [0]) with ([i] ++ [0]). apply Hd'. cbn. tauto. }
  rewrite Hflat in Hval.
  destruct (reshape_step r2 [1]) as [r3 [Er3 [Hcr3 [Hshr3 [_ [_ Hdr3]]]]]]; try assumption.
  { rewrite Hshr2. constructor; [lia|constructor; [lia|constructor]]. }
  { constructor; [lia|constructor]. }
  { rewrite Hshr2. reflexivity. }
  specialize (Hdr3 [0; 0] ltac:(rewrite Hshr2; cbn; lia)). rewrite Hshr2 in Hdr3.
  change (unravel [1] (ravel [1; 1] [0; 0])) with [0] in Hdr3.
  (* the wrapper *)
  unfold ss_argminmax.
  assert (E0 : (ndimZ x <=? axis) = false) by (destruct Hax as [-> | ->]; reflexivity).
  rewrite E0. change (ndimZ x =? 0) with false. cbv iota.
  assert (Hna : norm_axis (ndimZ x) axis = Some 0%nat) by (destruct Hax as [-> | ->]; reflexivity).
  rewrite Hna. cbn [bind]. change (znth (c_shape x) (Z.of_nat 0)) with n.
  destruct (Z.eqb_spec n 0) as [E|_]; [lia|]. cbn [bind].
  change (Z.of_nat 0) with 0. change (ndimZ x =? 1) with true. change (0 =? 0) with true. cbn [andb].
  fold x'. rewrite Ecore. cbn [bind]. rewrite Er3. cbn [bind]. destruct kd.
  - exists r3. split; [reflexivity|]. split; [exact Hshr3|]. split; [exact Hcr3|]. rewrite Hdr3. exact Hval.
  - destruct (squeeze_step r3 0 Hcr3) as [z [Ez [Hcz [Hshz [_ Hdz]]]]]; try (rewrite Hshr3; cbn; lia).
    change (Z.of_nat 0) with 0 in Ez. rewrite Ez. exists z. split; [reflexivity|].
    split; [rewrite Hshz, Hshr3; reflexivity|]. split; [exact Hcz|].
    specialize (Hdz [0] ltac:(rewrite Hshr3; cbn; lia)). change (remove_nth [0] 0) with (@nil Z) in Hdz.
    rewrite Hdz, Hdr3. exact Hval.
Qed.

(* ---- argmax / argmin with axis=None: the index of the extremum of the flattened array *)
Lemma argminmax_none_proof (maxm kd : bool) (x : coo Z) :
  canonical Z x -> shape_ok (c_shape x) -> (1 <= length (c_shape x))%nat ->
  0 < size (c_shape x) ->
  let nd := length (c_shape x) in
  exists z, ss_argminmax maxm x None kd = Ok z
    /\ c_shape z = (if kd then ones nd else []) /\ canonical Z z
    /\ den z (if kd then zeros nd else [])
       = np_argbest maxm (map (fun i => den x (unravel (c_shape x) i)) (zrange (size (c_shape x)))).
Proof.
  intros Hc Hok Hnd HS nd. set (S := size (c_shape x)) in *.
  destruct (flatten_step x Hc Hok) as [xf [Exf [Hcf [Hshf [Hff [Hpf Hdf]]]]]]. fold S in Hshf, Hdf.
  destruct (newaxis_back_step xf Hcf) as [Hc' [Hsh' [Hf' [_ Hd']]]].
  set (x' := newaxis_back xf) in *. rewrite Hshf in Hsh', Hd'. change ([S] ++ [1]) with [S; 1] in Hsh'.
  destruct (arg_core_ge2_proof maxm x' 0 Hc') as [r2 [Ecore [Hshr2 [Hcr2 Hval]]]];
    try (rewrite Hsh'; cbn; lia).
  { rewrite Hsh'. constructor; [lia|constructor; [lia|constructor]]. }
  change (Z.of_nat 0) with 0 in Ecore.
  rewrite Hsh' in Hshr2, Hval. change (remove_nth [S; 1] 0) with [1] in Hshr2, Hval.
  change (ins 0 1 [1]) with [1; 1] in Hshr2. change (nth 0 [S; 1] 0) with S in Hval.
  specialize (Hval [0] ltac:(cbn; lia)). change (ins 0 0 [0]) with [0; 0] in Hval.
  assert (Hflat : map (fun i => den x' (ins 0 i [0])) (zrange S)
                  = map (fun i => den x (unravel (c_shape x) i)) (zrange S)).
  { apply map_ext_in. intros i Hi. apply zrange_In in Hi.
    change (ins 0 i [0]) with ([i] ++ [0]). rewrite Hd' by (cbn; tauto). apply Hdf. assumption. }
  rewrite Hflat in Hval.
  destruct (reshape_step r2 (ones nd)) as [r3 [Er3 [Hcr3 [Hshr3 [_ [_ Hdr3]]]]]]; try assumption.
  { rewrite Hshr2. constructor; [lia|constructor; [lia|constructor]]. }
  { apply shape_ok_ones. }
  { rewrite Hshr2, size_ones. reflexivity. }
  specialize (Hdr3 [0; 0] ltac:(rewrite Hshr2; cbn; lia)). rewrite Hshr2 in Hdr3.
  change (ravel [1; 1] [0; 0]) with 0 in Hdr3. rewrite unravel_ones_0 in Hdr3.
  (* the wrapper *)
  unfold ss_argminmax.
  assert (E1 : (ndimZ x =? 0) = false) by (apply Z.eqb_neq; unfold ndimZ, zlen; lia).
  rewrite E1. cbn [bind]. fold S.
  destruct (Z.eqb_spec S 0) as [E|_]; [lia|]. rewrite Exf. cbn [bind andb].
  fold x'. assert (E2 : (ndimZ x' =? 1) = false) by (unfold ndimZ, zlen; rewrite Hsh'; reflexivity).
  rewrite E2, andb_false_r. cbv iota. rewrite Ecore. cbn [bind].
  unfold ndimZ, zlen. rewrite Nat2Z.id. fold nd. fold (ones nd). rewrite Er3. cbn [bind]. destruct kd.
  - exists r3. split; [reflexivity|]. split; [exact Hshr3|]. split; [exact Hcr3|]. rewrite Hdr3. exact Hval.
  - destruct (squeeze_ones_step r3 nd Hcr3 Hshr3) as [Hcz [Hshz Hdz]].
    eexists. split; [reflexivity|]. split; [exact Hshz|]. split; [exact Hcz|]. rewrite Hdz, Hdr3. exact Hval.
Qed.

(* ---- an empty reduced axis (or an empty array with axis=None) is rejected, as NumPy does *)
Lemma argminmax_empty_rejected_proof (maxm kd : bool) (x : coo Z) :
  (1 <= length (c_shape x))%nat ->
  (size (c_shape x) = 0 -> ss_argminmax maxm x None kd = Raise ValueError)
  /\ (forall axis a, NpSort.norm_axis (ndimZ x) axis = Some a -> nth a (c_shape x) 0 = 0 ->
        ss_argminmax maxm x (Some axis) kd = Raise ValueError).
Proof.
  intros Hnd.
  assert (E1 : (ndimZ x =? 0) = false) by (apply Z.eqb_neq; unfold ndimZ, zlen; lia).
  split.
  - intros HS. unfold ss_argminmax. rewrite E1. cbn [bind]. rewrite HS. reflexivity.
  - intros axis a Hn H0. unfold ss_argminmax.
    assert (E0 : (ndimZ x <=? axis) = false).
    { unfold NpSort.norm_axis in Hn. destruct (- ndimZ x <=? axis); [|discriminate].
      destruct (Z.ltb_spec axis (ndimZ x)); [|discriminate]. apply Z.leb_gt. assumption. }
    rewrite E0, E1. cbv iota. rewrite Hn. cbn [bind]. unfold znth at 1. rewrite Nat2Z.id, H0. reflexivity.
Qed.

(* ================================================================== F. the source text the model transcribes
   (Gen/S_sortsearch.v is regenerated from /repo on every run; Model/SortSearchSrc.v is the pinned copy) *)
From Verif Require Import S_sortsearch SortSearchSrc.

Lemma kernel_sources_pinned_proof :
  src_sort_coo = pinned_sort_coo /\ src_compute_minmax_args = pinned_compute_minmax_args
  /\ src_unique_counts = pinned_unique_counts /\ src_unique_values = pinned_unique_values.
Proof. repeat split; reflexivity. Qed.

Lemma wrapper_sources_pinned_proof :
  src_sort = pinned_sort /\ src_arg_minmax_common = pinned_arg_minmax_common
  /\ src_argwhere = pinned_argwhere /\ src_where = pinned_where /\ src_COO_nonzero = pinned_COO_nonzero.
Proof. repeat split; reflexivity. Qed.

(* ================================================================== G. the axis normalisation used by the model is
   the GENERATED fragment of _utils.normalize_axis (Gen/G_shapeops.v, called through ShapeOps.norm_axis) *)

Lemma norm_axis_generated_proof (nd a : Z) :
  0 <= nd ->
  match NpSort.norm_axis nd a with
  | Some k => ShapeOps.norm_axis nd a = Ok (Z.of_nat k)
  | None => ShapeOps.norm_axis nd a = Raise ValueError
  end.
Proof.
  intros Hnd. unfold NpSort.norm_axis, ShapeOps.norm_axis, G_shapeops.g_normalize_axis_int.
  cbn [py_int as_int bind py_lt ordcmp cond truthy].
  destruct (Z.ltb_spec a 0) as [Hneg|Hpos]; cbn [bind py_add arith as_int py_ge py_lt ordcmp cond truthy].
  - rewrite Z.geb_leb. destruct (Z.leb_spec nd (a + nd)) as [H1|H1]; cbn [bind cond truthy py_lt ordcmp as_int].
    + exfalso. lia.
    + destruct (Z.ltb_spec (a + nd) 0) as [H2|H2]; cbn [cond truthy].
      * destruct (Z.leb_spec (- nd) a); [lia|]. reflexivity.
      * destruct (Z.leb_spec (- nd) a); [|lia]. destruct (Z.ltb_spec a nd); [|lia]. cbn [andb].
        rewrite Z2Nat.id by lia. reflexivity.
  - rewrite Z.geb_leb. destruct (Z.leb_spec nd a) as [H1|H1]; cbn [bind cond truthy py_lt ordcmp as_int].
    + destruct (Z.leb_spec (- nd) a); [|lia]. destruct (Z.ltb_spec a nd); [lia|]. reflexivity.
    + destruct (Z.ltb_spec a 0) as [H2|H2]; [lia|]. cbn [cond truthy].
      destruct (Z.leb_spec (- nd) a); [|lia]. destruct (Z.ltb_spec a nd); [|lia]. cbn [andb].
      rewrite Z2Nat.id by lia. reflexivity.
Qed.
