(* Proofs/NpzP.v — lemmas for property C14 (copying and persistence) about Model/Npz.v instantiated with
   the tables of Gen/S_npz.v.  The statements used at property level are restated in Props/C14.v. *)
From Coq Require Import ZArith List Bool String Lia.
From Verif Require Import Py Shape COO S_npz Npz Crc32 Crc32P.
Import ListNotations.
Open Scope Z_scope.

Lemma len_nil_inv {A} (l : list A) : len l = 0 -> l = [].
Proof. destruct l; [reflexivity | unfold len; cbn [List.length]; lia]. Qed.

Lemma len_nonneg {A} (l : list A) : 0 <= len l.
Proof. unfold len; lia. Qed.

Lemma nonempty_len {A} (l : list A) : nonempty l = true -> 0 < len l.
Proof. destruct l; [discriminate | intros _; unfold len; cbn [List.length]; lia]. Qed.

Section Proofs.
  Variable V : Type.
  Notation arr := (arr V).
  Notation members := (members V).

  (* ------------------------------------------------------------------ what save_npz writes *)
  Lemma save_coo (c : coo V) :
    save_members V (ACoo c) =
    Ok [(s_data, FData (c_data c)); (s_shape, FInts (c_shape c)); (s_fill, FScalar (c_fill c));
        (s_coords, FMat (len (c_shape c)) (c_coords c))].
  Proof. reflexivity. Qed.

  (* every GCXS-family class (isinstance(matrix, GCXS)) writes indices, indptr and compressed_axes; a None
     compressed_axes is written as the empty array *)
  Definition axes_member (a : option (list Z)) : list Z := match a with Some ca => ca | None => [] end.

  Lemma save_gcxs (k : klass) (g : gcxs V) : k <> KCOO ->
    save_members V (AGcxs k g) =
    Ok [(s_data, FData (g_data g)); (s_shape, FInts (g_shape g)); (s_fill, FScalar (g_fill g));
        (s_indices, FInts (g_indices g)); (s_indptr, FInts (g_indptr g)); (s_axes, FInts (axes_member (g_axes g)))].
  Proof.
    intros Hk. destruct g as [sh ax d ind ptr f]. destruct k; [congruence | | |]; destruct ax; reflexivity.
  Qed.

  (* ------------------------------------------------------------------ what load_npz makes of complete member sets *)
  Lemma load_coo_members d sh f r cols :
    load_members V [(s_data, FData d); (s_shape, FInts sh); (s_fill, FScalar f); (s_coords, FMat r cols)] =
    (c <- coo_ctor V true false sh r cols d f ;; Ok (ACoo c)).
  Proof. reflexivity. Qed.

  Lemma load_gcxs_members d sh f ind ptr a ca :
    load_members V [(s_data, FData d); (s_shape, FInts sh); (s_fill, FScalar f);
                    (s_indices, FInts ind); (s_indptr, FInts ptr); (s_axes, FInts (a :: ca))] =
    (g <- gcxs_ctor V sh (Some (a :: ca)) d ind ptr f ;; Ok (AGcxs KGCXS g)).
  Proof. reflexivity. Qed.

  (* the empty compressed_axes member is mapped back to None *)
  Lemma load_gcxs_members_noaxes d sh f ind ptr :
    load_members V [(s_data, FData d); (s_shape, FInts sh); (s_fill, FScalar f);
                    (s_indices, FInts ind); (s_indptr, FInts ptr); (s_axes, FInts [])] =
    (g <- gcxs_ctor V sh None d ind ptr f ;; Ok (AGcxs KGCXS g)).
  Proof. reflexivity. Qed.

  Lemma load_base_members d sh f :
    load_members V [(s_data, FData d); (s_shape, FInts sh); (s_fill, FScalar f)] = Raise RuntimeError.
  Proof. reflexivity. Qed.

  (* ------------------------------------------------------------------ constructors on well-formed input *)
  Lemma coo_ctor_rows_cols (sh : shape) (cols : list idx) :
    (if nonempty sh && (len sh * len cols =? 0) then (len sh, @nil idx) else (len sh, cols)) = (len sh, cols).
  Proof.
    destruct (nonempty sh) eqn:Hn; cbn [andb]; [| reflexivity].
    destruct (Z.eqb_spec (len sh * len cols) 0) as [E | _]; [| reflexivity].
    apply nonempty_len in Hn.
    assert (len cols = 0) by (pose proof (len_nonneg cols); nia).
    now rewrite (len_nil_inv cols).
  Qed.

  Lemma coo_ctor_loadpath (c : coo V) :
    coo_wf V c = true ->
    coo_ctor V true false (c_shape c) (len (c_shape c)) (c_coords c) (c_data c) (c_fill c) = Ok c.
  Proof.
    destruct c as [sh cols data fill]; unfold coo_wf; cbn [c_shape c_coords c_data c_fill].
    intros H. apply andb_prop in H as [H _]. apply andb_prop in H as [Hsh Hlen].
    unfold coo_ctor. rewrite coo_ctor_rows_cols, Hsh, Hlen, Z.eqb_refl. cbn [negb andb].
    now rewrite !andb_false_r.
  Qed.

  Lemma gcxs_ctor_loadpath sh ca d ind ptr f :
    2 <=? len sh = true -> axes_ok (len sh) ca = true -> len ptr =? compressed_rows sh ca + 1 = true ->
    gcxs_ctor V sh (Some ca) d ind ptr f = Ok (mkGCXS sh (Some ca) d ind ptr f).
  Proof.
    intros Hnd H Hptr. unfold axes_ok in H.
    apply andb_prop in H as [H H4]. apply andb_prop in H as [H H3]. apply andb_prop in H as [H1 H2].
    unfold gcxs_ctor, check_compressed_axes.
    apply negb_true_iff in H1. rewrite H1, H2, H3, H4. cbn [negb bind].
    destruct (Z.eqb_spec (len sh) 1) as [E | _]; [apply Z.leb_le in Hnd; lia |].
    now rewrite Hptr.
  Qed.

  Lemma gcxs_ctor_noaxes sh d ind ptr f :
    gcxs_ctor V sh None d ind ptr f = Ok (mkGCXS sh None d ind ptr f).
  Proof. unfold gcxs_ctor. cbn [bind]. now destruct (len sh =? 1). Qed.

  (* an index pointer of the wrong length is rejected by the constructor *)
  Lemma gcxs_ctor_bad_indptr sh ca d ind ptr f :
    2 <=? len sh = true -> len ptr =? compressed_rows sh ca + 1 = false ->
    exists e, gcxs_ctor V sh (Some ca) d ind ptr f = Raise e.
  Proof.
    intros Hnd Hptr. unfold gcxs_ctor.
    destruct (check_compressed_axes (len sh) ca) as [[] | e]; cbn [bind]; [| eauto].
    destruct (Z.eqb_spec (len sh) 1) as [E | _]; [apply Z.leb_le in Hnd; lia |].
    rewrite Hptr. cbn. eauto.
  Qed.

  (* ------------------------------------------------------------------ npz round trip *)
  Lemma gcxs_wf_class k (g : gcxs V) : gcxs_wf V k g = true -> k <> KCOO.
  Proof. intros H ->. unfold gcxs_wf in H. rewrite andb_false_r in H. discriminate. Qed.

  Lemma npz_roundtrip_proof (x : arr) :
    wf V x = true -> (ms <- save_members V x ;; load_members V ms) = Ok (as_saved V x).
  Proof.
    destruct x as [c | k g]; intros Hwf.
    - rewrite save_coo. cbn [bind]. rewrite load_coo_members.
      rewrite coo_ctor_loadpath by exact Hwf. reflexivity.
    - cbn [wf] in Hwf. pose proof (gcxs_wf_class _ _ Hwf) as Hk.
      rewrite (save_gcxs k g Hk). cbn [bind].
      destruct g as [sh ax d ind ptr f]. cbn [g_shape g_axes g_data g_indices g_indptr g_fill] in *.
      destruct ax as [ca |]; cbn [axes_member].
      + unfold gcxs_wf in Hwf. cbn [g_axes g_shape g_indptr] in Hwf. apply andb_prop in Hwf as [Hwf _].
        apply andb_prop in Hwf as [Hwf Hptr]. apply andb_prop in Hwf as [Hnd Hax].
        destruct ca as [| a ca].
        * exfalso. unfold axes_ok in Hax. cbn in Hax. rewrite !andb_false_r in Hax. discriminate.
        * rewrite load_gcxs_members, (gcxs_ctor_loadpath _ _ _ _ _ _ Hnd Hax Hptr). reflexivity.
      + rewrite load_gcxs_members_noaxes, gcxs_ctor_noaxes. reflexivity.
  Qed.

  (* an archive of an n-d GCXS-family array in which the index pointer has another length than the number of compressed
     rows + 1 is rejected (by the constructor's check) *)
  Lemma npz_bad_indptr_rejected_proof (k : klass) (g : gcxs V) (ca ptr' : list Z) :
    gcxs_wf V k g = true -> g_axes g = Some ca ->
    len ptr' =? compressed_rows (g_shape g) ca + 1 = false ->
    exists e,
      load_members V [(s_data, FData (g_data g)); (s_shape, FInts (g_shape g)); (s_fill, FScalar (g_fill g));
                      (s_indices, FInts (g_indices g)); (s_indptr, FInts ptr'); (s_axes, FInts ca)] = Raise e.
  Proof.
    intros Hwf Eax Hptr. unfold gcxs_wf in Hwf. rewrite Eax in Hwf. apply andb_prop in Hwf as [Hwf _].
    apply andb_prop in Hwf as [Hwf _]. apply andb_prop in Hwf as [Hnd Hax].
    destruct ca as [| a ca].
    - exfalso. unfold axes_ok in Hax. cbn in Hax. rewrite !andb_false_r in Hax. discriminate.
    - rewrite load_gcxs_members.
      destruct (gcxs_ctor_bad_indptr (g_shape g) (a :: ca) (g_data g) (g_indices g) ptr' (g_fill g) Hnd Hptr) as [e E].
      rewrite E. cbn. eauto.
  Qed.

  (* exact classes come back as themselves *)
  Lemma npz_roundtrip_exact_proof (x : arr) :
    wf V x = true -> (class_of x = KCOO \/ class_of x = KGCXS) ->
    (ms <- save_members V x ;; load_members V ms) = Ok x.
  Proof.
    intros Hwf Hc. rewrite (npz_roundtrip_proof x Hwf). destruct x as [c | k g]; [reflexivity |].
    cbn in Hc. destruct Hc as [-> | ->]; [| reflexivity].
    exfalso. cbn [wf] in Hwf. now apply (gcxs_wf_class _ _ Hwf).
  Qed.

  (* ------------------------------------------------------------------ a file lacking a member is rejected *)
  Definition restrict (keep : string -> bool) (m : members) : members := filter (fun nf => keep (fst nf)) m.

  Ltac split_keep keep :=
    repeat match goal with
           | |- context [keep ?s] => let E := fresh "K" in destruct (keep s) eqn:E
           end.

  Ltac absurd_all_kept H :=
    exfalso; destruct H as [n [Hin Hk]]; cbn in Hin;
    repeat (destruct Hin as [<- | Hin]; [congruence |]); exact Hin.

  Lemma npz_missing_member_rejected_proof (x : arr) (ms : members) (keep : string -> bool) :
    class_ok V x = true ->
    save_members V x = Ok ms ->
    (exists n, In n (map fst ms) /\ keep n = false) ->
    exists e, load_members V (restrict keep ms) = Raise e.
  Proof.
    destruct x as [c | k g]; intros Hcls.
    - clear Hcls. rewrite save_coo. intros E H. injection E as <-.
      unfold restrict. cbn [filter fst].
      split_keep keep; first [ eexists; reflexivity | absurd_all_kept H ].
    - assert (Hk' : k <> KCOO) by (intros ->; discriminate Hcls). clear Hcls.
      rewrite (save_gcxs k g Hk'). intros E H. injection E as <-.
      unfold restrict. cbn [filter fst].
      split_keep keep; first [ eexists; reflexivity | absurd_all_kept H ].
  Qed.

  (* ------------------------------------------------------------------ pickle *)
  Lemma pickle_roundtrip_proof (x : arr) : class_ok V x = true -> pickle_roundtrip_of V x = Ok x.
  Proof.
    destruct x as [[sh cols d f] | k [sh ax d ind ptr f]]; intros Hk.
    - reflexivity.
    - destruct k, ax; try discriminate Hk; reflexivity.
  Qed.

  (* ------------------------------------------------------------------ Numba boxing *)
  (* the shape member of the native record is a tuple of intp: the extents pass through unchanged *)
  Lemma nb_roundtrip_unfold dt (c : coo V) :
    nb_roundtrip V dt c =
    (c' <- coo_ctor V false true (c_shape c) (len (c_shape c)) (c_coords c) (c_data c) (c_fill c) ;; Ok (ACoo c')).
  Proof. reflexivity. Qed.

  Lemma coo_ctor_boxpath (c : coo V) :
    forallb (fun d => 0 <=? d) (c_shape c) = true -> canonicalb c = true ->
    coo_ctor V false true (c_shape c) (len (c_shape c)) (c_coords c) (c_data c) (c_fill c) = Ok c.
  Proof.
    destruct c as [sh cols data fill]; unfold canonicalb; cbn [c_shape c_coords c_data c_fill].
    intros Hsh H. apply andb_prop in H as [H Hlen]. apply andb_prop in H as [Hrange Hsorted].
    apply Nat.eqb_eq in Hlen.
    unfold coo_ctor. rewrite coo_ctor_rows_cols, Hsh. cbn [negb].
    assert (E : len data =? len cols = true) by (unfold len; rewrite Hlen; apply Z.eqb_refl).
    rewrite E, Z.eqb_refl. cbn [negb andb]. rewrite !andb_false_r.
    cbn [andb c_coords]. now rewrite Hrange, Hsorted.
  Qed.

  Lemma numba_boxing_roundtrip_proof dt (c : coo V) :
    forallb (fun d => 0 <=? d) (c_shape c) = true -> canonicalb c = true ->
    nb_roundtrip V dt c = Ok (ACoo c).
  Proof.
    intros Hsh Hc. rewrite nb_roundtrip_unfold, (coo_ctor_boxpath c Hsh Hc). reflexivity.
  Qed.

  Lemma nb_construct_typed_always dt sh : nb_construct_typed dt sh = true.
  Proof. reflexivity. Qed.

  Lemma numba_construct_proof (zero : V) dt (c : coo V) :
    forallb (fun d => 0 <=? d) (c_shape c) = true -> canonicalb c = true -> c_fill c = zero ->
    nb_construct V zero dt c = Ok (ACoo c).
  Proof.
    intros Hsh Hc Hf. unfold nb_construct. rewrite nb_construct_typed_always.
    change (nb_box V [(s_coords, FMat (len (c_shape c)) (c_coords c)); (s_data, FData (c_data c));
                      (s_shape, FInts (c_shape c)); (s_fill, FScalar zero)])
      with (c' <- coo_ctor V false true (c_shape c) (len (c_shape c)) (c_coords c) (c_data c) zero ;; Ok (ACoo c')).
    rewrite <- Hf, (coo_ctor_boxpath c Hsh Hc). reflexivity.
  Qed.
End Proofs.

(* ---------------------------------------------------------------------- witnesses (V := Z) *)
(* 1-d GCXS [0,5,6,0,0,0]: compressed_axes is None, the member is an object array, np.load refuses it *)
Definition w_gcxs_1d : arr Z := AGcxs KGCXS (mkGCXS [6] None [5; 6] [1; 2] [] 0).
(* CSR [[0,5,0],[0,0,6]]: only data / shape / fill_value are written *)
Definition w_csr : arr Z := AGcxs KCSR (mkGCXS [2; 3] (Some [0]) [5; 6] [1; 2] [0; 1; 2] 0).
Definition w_csc : arr Z := AGcxs KCSC (mkGCXS [2; 3] (Some [1]) [5; 6] [0; 1] [0; 0; 1; 2] 0).
(* in-domain examples *)
Definition w_coo : arr Z := ACoo (mkCOO [2; 3] [[0; 1]; [1; 2]] [5; 6] 3).
Definition w_coo_0d : arr Z := ACoo (mkCOO [] [[]] [7] 0).
Definition w_gcxs_3d : arr Z := AGcxs KGCXS (mkGCXS [2; 3; 4] (Some [0; 2]) [5; 6] [1; 2] [0; 1; 1; 1; 1; 2; 2; 2; 2] 0).

Lemma npz_roundtrip_nonvacuous :
  Forall (fun x => wf Z x = true) [w_coo; w_coo_0d; w_gcxs_1d; w_gcxs_3d; w_csr; w_csc]
  /\ (ms <- save_members Z w_csr ;; load_members Z ms)
     = Ok (AGcxs KGCXS (mkGCXS [2; 3] (Some [0]) [5; 6] [1; 2] [0; 1; 2] 0)).
Proof. split; [repeat constructor | reflexivity]. Qed.

(* Numba: the arrays of the former counter-examples (int8 coordinates with an extent of 300; a 0-d array) *)
Definition w_nb : coo Z := mkCOO [300] [[0]; [1]] [5; 6] 0.
Definition w_nb_0d : coo Z := mkCOO [] [[]] [7] 0.
Lemma numba_nonvacuous :
  Forall (fun c => forallb (fun d => 0 <=? d) (c_shape c) = true /\ canonicalb c = true /\ c_fill c = 0) [w_nb; w_nb_0d]
  /\ nb_roundtrip Z (8, true) w_nb = Ok (ACoo w_nb) /\ nb_construct Z 0 (8, true) w_nb_0d = Ok (ACoo w_nb_0d).
Proof. split; [repeat constructor | split; reflexivity]. Qed.

(* ---------------------------------------------------------------------- copy over the heap of buffers *)
Section CopyProofs.
  Variable V : Type.
  Notation heap := (heap V).
  Notation slot := (slot V).
  Notation hobj := (hobj V).

  (* h1 extends h: every buffer of h is unchanged in h1 *)
  Definition ext (h h1 : heap) : Prop :=
    h_next h <= h_next h1 /\ forall id, id < h_next h -> hget V id (h_bufs h1) = hget V id (h_bufs h).

  Lemma ext_refl h : ext h h.
  Proof. split; [lia | auto]. Qed.

  Lemma ext_trans h h1 h2 : ext h h1 -> ext h1 h2 -> ext h h2.
  Proof.
    intros [L1 E1] [L2 E2]. split; [lia |]. intros id Hid. rewrite E2 by lia. now apply E1.
  Qed.

  Lemma alloc_ext h f : ext h (fst (alloc V h f)).
  Proof.
    unfold alloc, ext; cbn. split; [lia |]. intros id Hid.
    destruct (Z.eqb_spec (h_next h) id); [lia | reflexivity].
  Qed.

  Lemma hwrite_ext h h1 id f : ext h h1 -> h_next h <= id -> ext h (hwrite V h1 id f).
  Proof.
    intros [L E] Hid. unfold hwrite, ext; cbn. split; [assumption |].
    intros id' Hid'. destruct (Z.eqb_spec id id'); [lia | now apply E].
  Qed.

  Lemma deref_ext h h1 s : ext h h1 -> slot_ok V h s -> deref V h1 s = deref V h s.
  Proof. intros [_ E] Hs. destruct s as [id | f]; [cbn in *; apply E; tauto | reflexivity]. Qed.

  Lemma slot_ok_ext h h1 s : ext h h1 -> slot_ok V h s -> slot_ok V h1 s.
  Proof.
    intros [L E] Hs. destruct s as [id | f]; [| exact I]. cbn in *. destruct Hs as [Hid [f Hf]].
    split; [lia |]. exists f. now rewrite E.
  Qed.

  Definition slot_fresh (h h1 : heap) (s : slot) : Prop :=
    match s with Ref id => h_next h <= id < h_next h1 | Imm _ => True end.

  Lemma deepcopy_slot_spec h s h1 s1 :
    deepcopy_slot V h s = (h1, s1) -> slot_ok V h s ->
    ext h h1 /\ deref V h1 s1 = deref V h s /\ slot_fresh h h1 s1 /\ slot_ok V h1 s1.
  Proof.
    destruct s as [id | f]; cbn [deepcopy_slot slot_ok].
    - intros E [Hid [f Hf]]. rewrite Hf in E. cbn in E. injection E as <- <-.
      split; [| split; [| split]].
      + exact (alloc_ext h f).
      + cbn. now rewrite Z.eqb_refl, Hf.
      + cbn; lia.
      + cbn. split; [lia |]. rewrite Z.eqb_refl. now exists f.
    - intros E _. injection E as <- <-. split; [apply ext_refl | cbn; auto].
  Qed.

  Lemma slot_fresh_weaken h h' h1 h1' s :
    h_next h' <= h_next h -> h_next h1 <= h_next h1' -> slot_fresh h h1 s -> slot_fresh h' h1' s.
  Proof. destruct s; cbn; [lia | auto]. Qed.

  Lemma deepcopy_slots_spec ss : forall h h1 ss1,
    deepcopy_slots V h ss = (h1, ss1) -> Forall (slot_ok V h) ss ->
    ext h h1 /\ map (deref V h1) ss1 = map (deref V h) ss /\ Forall (slot_fresh h h1) ss1
    /\ List.length ss1 = List.length ss.
  Proof.
    induction ss as [| s r IH]; intros h h1 ss1; cbn [deepcopy_slots].
    - intros E _. injection E as <- <-. split; [apply ext_refl | cbn; auto].
    - destruct (deepcopy_slot V h s) as [h' s'] eqn:Es.
      destruct (deepcopy_slots V h' r) as [h'' r'] eqn:Er.
      intros E Hok. injection E as <- <-. inversion Hok as [| ? ? Hs Hr]; subst.
      destruct (deepcopy_slot_spec _ _ _ _ Es Hs) as [X1 [D1 [F1 O1]]].
      assert (Hr' : Forall (slot_ok V h') r) by (eapply Forall_impl; [| exact Hr]; intros a; now apply slot_ok_ext).
      destruct (IH _ _ _ Er Hr') as [X2 [D2 [F2 L2]]].
      split; [eapply ext_trans; eassumption |]. split; [| split].
      + cbn [map]. f_equal.
        * rewrite (deref_ext _ _ _ X2 O1). exact D1.
        * rewrite D2. apply map_ext_in. intros a Ha. apply deref_ext; [assumption |].
          rewrite Forall_forall in Hr. now apply Hr.
      + constructor.
        * eapply slot_fresh_weaken; [| | exact F1]; [lia | apply X2].
        * eapply Forall_impl; [| exact F2]. intros a. apply slot_fresh_weaken; [apply X1 | lia].
      + cbn [List.length]. now rewrite L2.
  Qed.

  (* ------------------------------------------------------------------ dictionaries of objects *)
  Lemma obj_dict_ext h h1 (o : hobj) : ext h h1 -> heap_wf V h o -> obj_dict V h1 o = obj_dict V h o.
  Proof.
    intros X. unfold heap_wf. induction o as [| [a s] r IH]; cbn [map snd obj_dict]; [reflexivity |].
    intros H. inversion H as [| ? ? Hs Hr]; subst. now rewrite (deref_ext _ _ _ X Hs), (IH Hr).
  Qed.

  Lemma obj_dict_combine (names : list string) : forall h h1 (ss ss1 : list slot),
    map (deref V h1) ss1 = map (deref V h) ss ->
    obj_dict V h1 (combine names ss1) = obj_dict V h (combine names ss).
  Proof.
    induction names as [| n r IH]; intros h h1 ss ss1 E; [reflexivity |].
    destruct ss as [| s ss], ss1 as [| s1 ss1]; try discriminate E; [reflexivity |].
    cbn [map] in E. injection E as E1 E2. cbn [combine obj_dict]. now rewrite E1, (IH _ _ _ _ E2).
  Qed.

  Lemma combine_fst_snd (o : hobj) : combine (map fst o) (map snd o) = o.
  Proof. induction o as [| [a s] r IH]; cbn; [reflexivity | now rewrite IH]. Qed.

  Lemma refs_combine (names : list string) : forall (ss : list slot) id,
    In id (refs V (combine names ss)) -> In (Ref id) ss.
  Proof.
    induction names as [| n r IH]; intros ss id; [intros [] |].
    destruct ss as [| s ss]; [intros [] |]. cbn [combine]. unfold refs. cbn [flat_map snd].
    rewrite in_app_iff. intros [H | H].
    - destruct s as [i | f]; cbn in H; [| tauto]. destruct H as [<- | []]. now left.
    - right. now apply IH.
  Qed.

  Lemma refs_slot_ok h (o : hobj) id : heap_wf V h o -> In id (refs V o) -> id < h_next h.
  Proof.
    unfold heap_wf, refs. induction o as [| [a s] r IH]; cbn [map snd flat_map]; [intros _ [] |].
    intros H. inversion H as [| ? ? Hs Hr]; subst. rewrite in_app_iff. intros [Hi | Hi].
    - destruct s as [i | f]; cbn in Hi; [| tauto]. destruct Hi as [<- | []]. apply Hs.
    - now apply IH.
  Qed.

  Lemma slots_of_ok h (o : hobj) : heap_wf V h o -> forall names ss,
    slots_of V o names = Some ss -> Forall (slot_ok V h) ss.
  Proof.
    intros Hwf. assert (A : forall n s, assoc n o = Some s -> slot_ok V h s).
    { unfold heap_wf in Hwf. induction o as [| [a s0] r IH]; cbn [assoc]; [discriminate |].
      cbn [map snd] in Hwf. inversion Hwf as [| ? ? Hs Hr]; subst.
      intros n s. destruct (String.eqb n a); [intros E; injection E as <-; assumption | now apply IH]. }
    induction names as [| n r IH]; intros ss; cbn [slots_of].
    - intros E; injection E as <-. constructor.
    - destruct (assoc n o) as [s |] eqn:En; [| discriminate].
      destruct (slots_of V o r) as [ss' |]; [| discriminate].
      intros E; injection E as <-. constructor; [eapply A; eassumption | now apply IH].
  Qed.

  Lemma obj_dict_get h (o : hobj) d : obj_dict V h o = Some d ->
    forall a, mget V a d = match assoc a o with Some s => deref V h s | None => None end.
  Proof.
    revert d. induction o as [| [b s] r IH]; cbn [obj_dict]; intros d.
    - intros E; injection E as <-. reflexivity.
    - destruct (deref V h s) as [f |] eqn:Ef; [| discriminate].
      destruct (obj_dict V h r) as [d' |]; [| discriminate].
      intros E; injection E as <-. intros a. unfold mget. cbn [assoc].
      destruct (String.eqb a b); [now rewrite Ef | now apply IH].
  Qed.

  (* arr_of_dict reads only these names *)
  Lemma arr_of_dict_ext k (d d' : members V) :
    (forall a, In a [s_coords; s_data; s_shape; s_fill; s_indices; s_indptr; s_axes_attr] -> mget V a d = mget V a d') ->
    arr_of_dict V k d = arr_of_dict V k d'.
  Proof.
    intros H. unfold arr_of_dict.
    rewrite (H s_coords), (H s_data), (H s_shape), (H s_fill), (H s_indices), (H s_indptr), (H s_axes_attr);
      cbn; tauto.
  Qed.

  (* ------------------------------------------------------------------ the COO state round trip *)
  (* the copy of a COO is rebuilt from the __getstate__ tuple by __setstate__: the two lists must agree *)
  Lemma coo_state_lists : coo_getstate = [s_coords; s_data; s_shape; s_fill] /\ coo_setstate = coo_getstate.
  Proof. split; reflexivity. Qed.

  Lemma copy_coo_shape deep h (o : hobj) h1 o1 :
    copy_obj V deep KCOO h o = Some (h1, o1) ->
    exists s1 s2 s3 s4 t1 t2 t3 t4,
      assoc s_coords o = Some s1 /\ assoc s_data o = Some s2 /\ assoc s_shape o = Some s3 /\ assoc s_fill o = Some s4
      /\ (if deep then deepcopy_slots V h [s1; s2; s3; s4] else (h, [s1; s2; s3; s4])) = (h1, [t1; t2; t3; t4])
      /\ o1 = [(s_coords, t1); (s_data, t2); (s_shape, t3); (s_fill, t4); (s_cache, Imm FObject)].
  Proof.
    unfold copy_obj. change coo_getstate with [s_coords; s_data; s_shape; s_fill].
    cbn [slots_of].
    destruct (assoc s_coords o) as [s1 |]; [| discriminate].
    destruct (assoc s_data o) as [s2 |]; [| discriminate].
    destruct (assoc s_shape o) as [s3 |]; [| discriminate].
    destruct (assoc s_fill o) as [s4 |]; [| discriminate].
    destruct (if deep then deepcopy_slots V h [s1; s2; s3; s4] else (h, [s1; s2; s3; s4])) as [h' ss1] eqn:E.
    change coo_setstate with [s_coords; s_data; s_shape; s_fill].
    destruct ss1 as [| t1 [| t2 [| t3 [| t4 [| t5 r]]]]]; cbn [List.length Nat.eqb]; try discriminate.
    intros X; injection X as <- <-.
    exists s1, s2, s3, s4, t1, t2, t3, t4. repeat split; first [reflexivity | exact E].
  Qed.

  Lemma copy_value_gcxs deep k h (o : hobj) h1 o1 x :
    k <> KCOO ->
    heap_wf V h o -> obj_arr V k h o = Ok x -> copy_obj V deep k h o = Some (h1, o1) ->
    obj_arr V k h1 o1 = Ok x.
  Proof.
    intros Hk Hwf Hx Hc. unfold obj_arr in *.
    assert (Hc' : (let '(h', ss1) := if deep then deepcopy_slots V h (map snd o) else (h, map snd o) in
                   Some (h', combine (map fst o) ss1)) = Some (h1, o1)) by (destruct k; [congruence | | |]; exact Hc).
    clear Hc. destruct (if deep then deepcopy_slots V h (map snd o) else (h, map snd o)) as [h' ss1] eqn:E.
    injection Hc' as <- <-.
    assert (D : map (deref V h') ss1 = map (deref V h) (map snd o)).
    { destruct deep; [apply (deepcopy_slots_spec _ _ _ _ E Hwf) | injection E as <- <-; reflexivity]. }
    now rewrite (obj_dict_combine _ _ _ _ _ D), combine_fst_snd.
  Qed.

  Lemma copy_value deep k h (o : hobj) h1 o1 x :
    heap_wf V h o -> obj_arr V k h o = Ok x -> copy_obj V deep k h o = Some (h1, o1) ->
    obj_arr V k h1 o1 = Ok x.
  Proof.
    intros Hwf Hx Hc.
    destruct k; [| eapply copy_value_gcxs; eauto; discriminate ..].
    unfold obj_arr in *.
    destruct (obj_dict V h o) as [d |] eqn:Ed; [| discriminate].
    - (* COO *)
      destruct (copy_coo_shape _ _ _ _ _ Hc) as (s1 & s2 & s3 & s4 & t1 & t2 & t3 & t4 & A1 & A2 & A3 & A4 & E & ->).
      assert (Hss : Forall (slot_ok V h) [s1; s2; s3; s4]).
      { apply (slots_of_ok h o Hwf [s_coords; s_data; s_shape; s_fill]). cbn [slots_of]. now rewrite A1, A2, A3, A4. }
      assert (D : map (deref V h1) [t1; t2; t3; t4] = map (deref V h) [s1; s2; s3; s4]).
      { destruct deep; [apply (deepcopy_slots_spec _ _ _ _ E Hss) | now injection E as <- <- <- <- <-]. }
      cbn [map] in D. injection D as D1 D2 D3 D4.
      pose proof (obj_dict_get _ _ _ Ed) as G.
      assert (G1 := G s_coords). assert (G2 := G s_data). assert (G3 := G s_shape). assert (G4 := G s_fill).
      rewrite A1 in G1. rewrite A2 in G2. rewrite A3 in G3. rewrite A4 in G4.
      cbn [obj_dict]. rewrite D1, D2, D3, D4, <- G1, <- G2, <- G3, <- G4.
      unfold arr_of_dict in Hx.
      destruct (mget V s_coords d) as [[| | | r cols |] |]; try discriminate Hx.
      destruct (mget V s_data d) as [[dt | | | |] |]; try discriminate Hx.
      destruct (mget V s_shape d) as [[| | sh | |] |]; try discriminate Hx.
      destruct (mget V s_fill d) as [[| f | | |] |]; try discriminate Hx.
      cbn [deref]. exact Hx.
  Qed.

  Lemma assoc_of_get h (o : hobj) d a f :
    obj_dict V h o = Some d -> mget V a d = Some f -> exists s, assoc a o = Some s.
  Proof.
    intros Ed Hm. rewrite (obj_dict_get _ _ _ Ed) in Hm. destruct (assoc a o) as [s |]; [now exists s | discriminate].
  Qed.

  Lemma copy_exists deep k h (o : hobj) x :
    heap_wf V h o -> obj_arr V k h o = Ok x -> exists h1 o1, copy_obj V deep k h o = Some (h1, o1).
  Proof.
    intros Hwf Hx. unfold obj_arr in Hx.
    destruct (obj_dict V h o) as [d |] eqn:Ed; [| discriminate].
    destruct k; try (unfold copy_obj;
      destruct (if deep then deepcopy_slots V h (map snd o) else (h, map snd o)) as [h' ss1]; now eauto).
    unfold arr_of_dict in Hx.
    destruct (mget V s_coords d) as [f1 |] eqn:M1; [| discriminate].
    destruct (mget V s_data d) as [f2 |] eqn:M2; [| destruct f1; discriminate].
    destruct (mget V s_shape d) as [f3 |] eqn:M3; [| destruct f1, f2; discriminate].
    destruct (mget V s_fill d) as [f4 |] eqn:M4; [| destruct f1, f2, f3; discriminate].
    destruct (assoc_of_get _ _ _ _ _ Ed M1) as [s1 A1]. destruct (assoc_of_get _ _ _ _ _ Ed M2) as [s2 A2].
    destruct (assoc_of_get _ _ _ _ _ Ed M3) as [s3 A3]. destruct (assoc_of_get _ _ _ _ _ Ed M4) as [s4 A4].
    assert (Hss : Forall (slot_ok V h) [s1; s2; s3; s4]).
    { apply (slots_of_ok h o Hwf [s_coords; s_data; s_shape; s_fill]). cbn [slots_of]. now rewrite A1, A2, A3, A4. }
    unfold copy_obj. change coo_getstate with [s_coords; s_data; s_shape; s_fill].
    cbn [slots_of]. rewrite A1, A2, A3, A4.
    destruct deep.
    - destruct (deepcopy_slots V h [s1; s2; s3; s4]) as [h' ss1] eqn:E.
      destruct (deepcopy_slots_spec _ _ _ _ E Hss) as (_ & _ & _ & L).
      change coo_setstate with [s_coords; s_data; s_shape; s_fill]. rewrite L. cbn. eauto.
    - cbn. eauto.
  Qed.

  Lemma refs_explicit_coo (t1 t2 t3 t4 : slot) id :
    In id (refs V [(s_coords, t1); (s_data, t2); (s_shape, t3); (s_fill, t4); (s_cache, Imm FObject)]) ->
    In (Ref id) [t1; t2; t3; t4].
  Proof.
    unfold refs. cbn [flat_map snd]. rewrite !in_app_iff. cbn [In].
    destruct t1, t2, t3, t4; cbn [In]; intuition (subst; auto).
  Qed.

  Lemma copy_deep_fresh k h (o : hobj) h1 o1 :
    heap_wf V h o -> copy_obj V true k h o = Some (h1, o1) ->
    ext h h1 /\ forall id, In id (refs V o1) -> h_next h <= id.
  Proof.
    intros Hwf Hc.
    assert (G : forall ss ss1, Forall (slot_ok V h) ss -> deepcopy_slots V h ss = (h1, ss1) ->
                ext h h1 /\ forall id, In (Ref id) ss1 -> h_next h <= id).
    { intros ss ss1 Hss E. destruct (deepcopy_slots_spec _ _ _ _ E Hss) as (X & _ & F & _).
      split; [exact X |]. intros id Hin. rewrite Forall_forall in F. apply (F _ Hin). }
    destruct k.
    - destruct (copy_coo_shape _ _ _ _ _ Hc) as (s1 & s2 & s3 & s4 & t1 & t2 & t3 & t4 & A1 & A2 & A3 & A4 & E & ->).
      assert (Hss : Forall (slot_ok V h) [s1; s2; s3; s4]).
      { apply (slots_of_ok h o Hwf [s_coords; s_data; s_shape; s_fill]). cbn [slots_of]. now rewrite A1, A2, A3, A4. }
      destruct (G _ _ Hss E) as [X F]. split; [exact X |]. intros id Hin. apply F. now apply refs_explicit_coo.
    - unfold copy_obj in Hc. destruct (deepcopy_slots V h (map snd o)) as [h' ss1] eqn:E. injection Hc as <- <-.
      destruct (G _ _ Hwf E) as [X F]. split; [exact X |]. intros id Hin. apply F. eapply refs_combine; eassumption.
    - unfold copy_obj in Hc. destruct (deepcopy_slots V h (map snd o)) as [h' ss1] eqn:E. injection Hc as <- <-.
      destruct (G _ _ Hwf E) as [X F]. split; [exact X |]. intros id Hin. apply F. eapply refs_combine; eassumption.
    - unfold copy_obj in Hc. destruct (deepcopy_slots V h (map snd o)) as [h' ss1] eqn:E. injection Hc as <- <-.
      destruct (G _ _ Hwf E) as [X F]. split; [exact X |]. intros id Hin. apply F. eapply refs_combine; eassumption.
  Qed.

  (* deep copy: equal value, no shared buffer, original untouched, writes into the copy invisible *)
  Lemma copy_deep_disjoint_proof k h (o : hobj) x :
    heap_wf V h o -> obj_arr V k h o = Ok x ->
    exists h1 o1, copy_obj V true k h o = Some (h1, o1)
      /\ obj_arr V k h1 o1 = Ok x
      /\ (forall id, In id (refs V o1) -> ~ In id (refs V o))
      /\ obj_arr V k h1 o = Ok x
      /\ (forall id f, In id (refs V o1) -> obj_arr V k (hwrite V h1 id f) o = Ok x).
  Proof.
    intros Hwf Hx. destruct (copy_exists true k h o x Hwf Hx) as (h1 & o1 & Hc).
    exists h1, o1. destruct (copy_deep_fresh _ _ _ _ _ Hwf Hc) as [X F].
    split; [exact Hc |]. split; [eapply copy_value; eassumption |]. split; [| split].
    - intros id H1 H2. apply F in H1. pose proof (refs_slot_ok _ _ _ Hwf H2). lia.
    - unfold obj_arr. now rewrite (obj_dict_ext _ _ _ X Hwf).
    - intros id f H1. unfold obj_arr. rewrite (obj_dict_ext h (hwrite V h1 id f) o); [exact Hx | | exact Hwf].
      apply hwrite_ext; [exact X | now apply F].
  Qed.

  Lemma assoc_refs (o : hobj) a id : assoc a o = Some (Ref id) -> In id (refs V o).
  Proof.
    unfold refs. induction o as [| [b s] r IH]; cbn [assoc flat_map snd]; [discriminate |].
    rewrite in_app_iff. destruct (String.eqb a b).
    - intros E; injection E as ->. left. now left.
    - intros E. right. now apply IH.
  Qed.

  (* shallow copy: no new buffer, the state attributes are the very same slots *)
  Lemma copy_shallow_shares_proof k h (o : hobj) x :
    heap_wf V h o -> obj_arr V k h o = Ok x ->
    exists o1, copy_obj V false k h o = Some (h, o1)
      /\ obj_arr V k h o1 = Ok x
      /\ (forall a, In a (state_attrs V k o) -> assoc a o1 = assoc a o)
      /\ (forall id, In id (refs V o1) -> In id (refs V o)).
  Proof.
    intros Hwf Hx. destruct (copy_exists false k h o x Hwf Hx) as (h1 & o1 & Hc).
    pose proof (copy_value _ _ _ _ _ _ _ Hwf Hx Hc) as Hv.
    destruct k.
    - destruct (copy_coo_shape _ _ _ _ _ Hc) as (s1 & s2 & s3 & s4 & t1 & t2 & t3 & t4 & A1 & A2 & A3 & A4 & E & ->).
      injection E as <- <- <- <- <-. eexists. split; [exact Hc |]. split; [exact Hv |]. split.
      + intros a Ha. change (state_attrs V KCOO o) with [s_coords; s_data; s_shape; s_fill] in Ha.
        cbn [In] in Ha. destruct Ha as [<- | [<- | [<- | [<- | []]]]]; cbn; congruence.
      + intros id Hin. apply refs_explicit_coo in Hin. cbn [In] in Hin.
        destruct Hin as [-> | [-> | [-> | [-> | []]]]]; eapply assoc_refs; eassumption.
    - unfold copy_obj in Hc. injection Hc as <- <-. rewrite combine_fst_snd in *. exists o. repeat split; auto.
      unfold copy_obj. now rewrite combine_fst_snd.
    - unfold copy_obj in Hc. injection Hc as <- <-. rewrite combine_fst_snd in *. exists o. repeat split; auto.
      unfold copy_obj. now rewrite combine_fst_snd.
    - unfold copy_obj in Hc. injection Hc as <- <-. rewrite combine_fst_snd in *. exists o. repeat split; auto.
      unfold copy_obj. now rewrite combine_fst_snd.
  Qed.

  (* the buffers of a COO (coords, data) are part of its copied state *)
  Lemma coo_buffers_in_state : forall a, In a [s_coords; s_data] -> In a coo_getstate.
  Proof. intros a [<- | [<- | []]]; cbn; auto. Qed.
End CopyProofs.

(* non-vacuity: a COO allocated on an empty heap, then copied *)
Definition w_heap_obj : heap Z * hobj Z :=
  alloc_obj Z (mkHeap 0 []) [(s_coords, FMat 2 [[0; 1]; [1; 2]]); (s_data, FData [5; 6]); (s_shape, FInts [2; 3]);
                            (s_fill, FScalar 3); (s_cache, FObject)].
Lemma copy_nonvacuous :
  heap_wf Z (fst w_heap_obj) (snd w_heap_obj) /\ obj_arr Z KCOO (fst w_heap_obj) (snd w_heap_obj) = Ok w_coo
  /\ refs Z (snd w_heap_obj) = [0; 1].
Proof.
  split; [| split; reflexivity].
  unfold heap_wf. cbn. repeat constructor; cbn; try lia; eexists; reflexivity.
Qed.

(* ---------------------------------------------------------------------- container layer, under the oracle assumption *)
Section ContainerProofs.
  Variable V : Type.
  Variable bytes : Type.
  Variable np_savez : bool -> members V -> bytes.     (* np.savez_compressed / np.savez *)
  Variable np_load : bytes -> file V.                 (* zipfile + np.load *)
  (* ORACLE (trusted; exercised by the fault campaign of tools/props/c14.py).  The meaning of [file] is part of it:
     np.load raises on [Unreadable]; ZipFile.testzip() reads every member to its end and reports every member whose
     CRC / local header does not verify ([Archive false _]); the members of an archive that passes testzip read back
     as stored.  The hypothesis below adds: what numpy wrote is such an archive, holding exactly the saved members. *)
  Hypothesis np_load_savez : forall c ms, np_load (np_savez c ms) = Archive true ms.

  Lemma npz_file_roundtrip_proof (compressed : bool) (x : arr V) :
    wf V x = true ->
    (b <- save_npz V bytes np_savez compressed x ;; load_npz V bytes np_load b) = Ok (as_saved V x).
  Proof.
    intros H0. pose proof (npz_roundtrip_proof V x H0) as R.
    unfold save_npz, load_npz. destruct (save_members V x) as [ms | e]; cbn [bind] in *; [| discriminate R].
    rewrite np_load_savez. exact R.
  Qed.

  (* a byte string that np.load cannot open, or one in which testzip finds a bad member, is rejected whatever the
     lazy member reads would have returned (this is what closes the read-ahead hole) *)
  Lemma npz_damaged_rejected_proof (b : bytes) :
    (np_load b = Unreadable \/ exists view, np_load b = Archive false view) ->
    exists e, load_npz V bytes np_load b = Raise e.
  Proof.
    unfold load_npz. intros [E | [view E]]; rewrite E; cbn; eexists; reflexivity.
  Qed.

  (* whatever load_npz returns was obtained from the members of an archive that passed testzip *)
  Lemma npz_loaded_is_verified_proof (b : bytes) (y : arr V) :
    load_npz V bytes np_load b = Ok y -> exists view, np_load b = Archive true view /\ load_members V view = Ok y.
  Proof.
    unfold load_npz. destruct (np_load b) as [| ok view]; cbn; [discriminate |].
    destruct ok; [eauto | discriminate].
  Qed.
End ContainerProofs.



(* ---------------------------------------------------------------------- the CRC part of the container oracle, proved.
   With [ok] of [Archive ok view] instantiated by what testzip computes (it recomputes the CRC-32 of every member's
   payload, Model/Crc32.v), a single altered payload byte in any member of an archive written with correct CRCs makes
   load_npz raise, whatever the member reads would have returned. *)
Lemma npz_payload_corruption_rejected_proof (V : Type) (a : zarchive) (k i : nat) (b : Z) (m : zmember)
      (view : members V) :
  written_ok a -> nth_error a k = Some m -> (i < List.length (zm_payload m))%nat ->
  byte_ok b -> b <> nth i (zm_payload m) 0 ->
  exists e, load_file V (Archive (testzip_passes (corrupt a k i b)) view) = Raise e.
Proof.
  intros Hw Hk Hi Hb Hne. rewrite (testzip_detects_corruption_proof a k i b m Hw Hk Hi Hb Hne).
  cbn. eexists. reflexivity.
Qed.

Lemma npz_intact_archive_loads_proof (V : Type) (a : zarchive) (view : members V) :
  written_ok a -> load_file V (Archive (testzip_passes a) view) = load_members V view.
Proof. intros Hw. now rewrite (testzip_passes_written a Hw). Qed.
