(* Proofs/CtorP.v — property C06, part 1: the COO constructor establishes the canonical form
   exactly when its caller's promises hold; the schemas by which call sites justify their
   promises; the csr @ csr kernel breaks the GCXS promise (D8). *)
From Coq Require Import String ZArith List Bool Lia Sorting.Sorted Sorting.Permutation.
From Verif Require Import Shape COO COOP GCXS Ctor.
Import ListNotations.
Open Scope Z_scope.

(* ------------------------------------------------------------------ small list facts *)

Lemma nondec_SS l : nondec l = true <-> StronglySorted Z.le l.
Proof.
  induction l as [|a r IH]; simpl.
  - split; [constructor|reflexivity].
  - destruct r as [|b r'].
    + split; [intros _; constructor; constructor|reflexivity].
    + rewrite andb_true_iff, Z.leb_le, IH. split.
      * intros [Hab Hs]. constructor; [assumption|].
        inversion Hs as [|? ? Hs' Hall]; subst. constructor; [assumption|].
        eapply Forall_impl; [|exact Hall]. intros c Hc. lia.
      * intros Hs. inversion Hs as [|? ? Hs' Hall]; subst. split; [|assumption].
        inversion Hall; assumption.
Qed.

Lemma SS_map {A B} (f : A -> B) (R : B -> B -> Prop) l :
  StronglySorted R (map f l) <-> StronglySorted (fun a b => R (f a) (f b)) l.
Proof.
  induction l as [|a r IH]; simpl.
  - split; constructor.
  - split; intros H; inversion H as [|? ? Hs Hall]; subst; constructor; try (apply IH; assumption).
    + rewrite Forall_map in Hall. exact Hall.
    + rewrite Forall_map. exact Hall.
Qed.

Lemma combine_fst_snd {A B} (l : list (A * B)) : combine (map fst l) (map snd l) = l.
Proof. induction l as [|[a b] r IH]; simpl; congruence. Qed.

Lemma SS_impl {A} (R S : A -> A -> Prop) l :
  (forall a b, In a l -> In b l -> R a b -> S a b) -> StronglySorted R l -> StronglySorted S l.
Proof.
  intros H Hs. induction Hs as [|a r Hs IH Hall]; constructor.
  - apply IH. intros x y Hx Hy. apply H; right; assumption.
  - rewrite Forall_forall in *. intros x Hx. apply H; [left; reflexivity|right; assumption|auto].
Qed.

Section CtorP.
  Variable V : Type.
  Variable veqb : V -> V -> bool.
  Variable add : V -> V -> V.
  Hypothesis veqb_eq : forall a b, veqb a b = true <-> a = b.
  Variable sh : shape.

  Notation ent := (idx * V)%type.
  Notation key := (key V sh).
  Notation insert_st := (insert_st V sh).
  Notation isort := (isort V sh).
  Notation sort_indices := (sort_indices V sh).
  Notation sum_run := (sum_run V add sh).
  Notation sum_duplicates := (sum_duplicates V add sh).
  Notation prune := (prune V veqb).
  Notation ctor_entries := (ctor_entries V veqb add sh).

  Definition le_key (a b : ent) : Prop := key a <= key b.
  Definition lt_key (a b : ent) : Prop := key a < key b.

  (* values stored under linear location z, in list order *)
  Definition vk (es : list ent) (z : Z) : list V := map snd (filter (fun e => key e =? z) es).

  Definition collapse (vs : list V) : list V :=
    match vs with [] => [] | v :: r => [fold_left add r v] end.

  Lemma vk_cons e es z : vk (e :: es) z = if key e =? z then snd e :: vk es z else vk es z.
  Proof. unfold vk. simpl. destruct (key e =? z); reflexivity. Qed.

  Lemma vk_nil_of_Forall es z : Forall (fun e => key e <> z) es -> vk es z = [].
  Proof.
    induction 1 as [|e r He Hr IH]; [reflexivity|]. rewrite vk_cons, IH.
    destruct (Z.eqb_spec (key e) z); [contradiction|reflexivity].
  Qed.

  Lemma vk_nonnil es b z : In b es -> key b = z -> vk es z <> [].
  Proof.
    induction es as [|e r IH]; simpl; [tauto|]. intros [->|Hin] Hk; rewrite vk_cons.
    - rewrite Hk, Z.eqb_refl. discriminate.
    - destruct (key e =? z); [discriminate|auto].
  Qed.

  (* ---------------------------------------------------------------- _sort_indices *)

  Lemma insert_In x l e : In e (insert_st x l) <-> e = x \/ In e l.
  Proof.
    induction l as [|y r IH]; simpl; [intuition|].
    destruct (key x <=? key y); simpl; [intuition|]. rewrite IH. intuition.
  Qed.

  Lemma isort_In l e : In e (isort l) <-> In e l.
  Proof.
    induction l as [|x r IH]; simpl; [tauto|]. rewrite insert_In, IH. intuition.
  Qed.

  Lemma insert_sorted x l : StronglySorted le_key l -> StronglySorted le_key (insert_st x l).
  Proof.
    induction 1 as [|y r Hs IH Hall]; simpl; [constructor; constructor|].
    destruct (Z.leb_spec (key x) (key y)).
    - constructor; [constructor; assumption|]. constructor; [assumption|].
      eapply Forall_impl; [|exact Hall]. unfold le_key. intros c Hc. lia.
    - constructor; [assumption|]. apply Forall_forall. intros c Hc. apply insert_In in Hc.
      destruct Hc as [->|Hc]; [unfold le_key; lia|]. rewrite Forall_forall in Hall. auto.
  Qed.

  Lemma isort_sorted l : StronglySorted le_key (isort l).
  Proof. induction l; simpl; [constructor|apply insert_sorted; assumption]. Qed.

  (* stability: entries with equal location keep their relative order *)
  Lemma insert_vk x l z : vk (insert_st x l) z = vk (x :: l) z.
  Proof.
    induction l as [|y r IH]; simpl; [reflexivity|].
    destruct (Z.leb_spec (key x) (key y)); [reflexivity|].
    rewrite vk_cons, IH, !vk_cons.
    destruct (Z.eqb_spec (key y) z), (Z.eqb_spec (key x) z); try reflexivity. lia.
  Qed.

  Lemma isort_vk l z : vk (isort l) z = vk l z.
  Proof.
    induction l as [|x r IH]; simpl; [reflexivity|]. rewrite insert_vk, !vk_cons, IH. reflexivity.
  Qed.

  Lemma sort_indices_spec es :
    StronglySorted le_key (sort_indices es) /\ (forall e, In e (sort_indices es) <-> In e es)
    /\ forall z, vk (sort_indices es) z = vk es z.
  Proof.
    unfold Ctor.sort_indices. destruct (nondec (map key es)) eqn:E.
    - apply nondec_SS in E. apply (proj1 (SS_map key Z.le es)) in E. split; [exact E|]. split; [tauto|reflexivity].
    - repeat split; [apply isort_sorted|apply isort_In|apply isort_In|apply isort_vk].
  Qed.

  (* ---------------------------------------------------------------- _sum_duplicates *)

  Lemma sum_run_shape k acc r :
    StronglySorted Z.le (ravel sh k :: map key r) ->
    exists acc' t, sum_run k acc r = (k, acc') :: t
      /\ Forall (fun e => ravel sh k < key e) t /\ StronglySorted lt_key t
      /\ forall e, In e t -> In (fst e) (map fst r).
  Proof.
    revert k acc. induction r as [|[k' v] r IH]; intros k acc Hs; simpl.
    - exists acc, []. split; [reflexivity|]. split; [constructor|]. split; [constructor|]. intros e [].
    - inversion Hs as [|? ? Hs' Hall]; subst. simpl in Hs', Hall.
      destruct (Z.eqb_spec (ravel sh k') (ravel sh k)) as [E|E].
      + destruct (IH k (add acc v)) as [acc' [t [H1 [H2 [H3 H4]]]]].
        { constructor; [inversion Hs'; assumption|]. inversion Hall; assumption. }
        exists acc', t. repeat split; auto.
      + destruct (IH k' v Hs') as [acc' [t [H1 [H2 [H3 H4]]]]].
        assert (Hlt : ravel sh k < ravel sh k').
        { inversion Hall as [|? ? Hle _]; subst. unfold Ctor.key in Hle. simpl in Hle. lia. }
        exists acc, ((k', acc') :: t). rewrite H1. repeat split.
        * constructor; [unfold Ctor.key; simpl; lia|].
          eapply Forall_impl; [|exact H2]. unfold Ctor.key. simpl. intros; lia.
        * constructor; [assumption|]. eapply Forall_impl; [|exact H2]. unfold lt_key, Ctor.key. simpl. intros; lia.
        * intros e [<-|He]; simpl; [left; reflexivity|right; auto].
  Qed.

  Lemma key_pair (k : idx) (v : V) : key (k, v) = ravel sh k.
  Proof. reflexivity. Qed.

  Lemma sum_run_vk k acc r z :
    StronglySorted Z.le (ravel sh k :: map key r) ->
    vk (sum_run k acc r) z =
      if ravel sh k =? z then [fold_left add (vk r z) acc] else collapse (vk r z).
  Proof.
    revert k acc. induction r as [|[k' v] r IH]; intros k acc Hs; simpl.
    - rewrite vk_cons, key_pair. simpl. destruct (ravel sh k =? z); reflexivity.
    - inversion Hs as [|? ? Hs' Hall]; subst. simpl in Hs', Hall.
      rewrite (vk_cons (k', v)), key_pair. simpl snd.
      destruct (Z.eqb_spec (ravel sh k') (ravel sh k)) as [E|E].
      + rewrite IH.
        2:{ constructor; [inversion Hs'; assumption|]. inversion Hall; assumption. }
        rewrite E. destruct (ravel sh k =? z); reflexivity.
      + assert (Hlt : ravel sh k < ravel sh k').
        { inversion Hall as [|? ? Hle _]; subst. rewrite key_pair in Hle. lia. }
        rewrite vk_cons, key_pair. simpl snd. rewrite (IH k' v Hs').
        destruct (Z.eqb_spec (ravel sh k) z) as [Ez|Ez].
        * (* nothing at z in (k', v) :: r *)
          destruct (Z.eqb_spec (ravel sh k') z); [lia|].
          assert (Hn : vk r z = []).
          { apply vk_nil_of_Forall. inversion Hs' as [|? ? _ Hall']; subst.
            rewrite Forall_map in Hall'. rewrite key_pair in Hall'.
            eapply Forall_impl; [|exact Hall']. simpl. intros e He. lia. }
          rewrite Hn. reflexivity.
        * destruct (ravel sh k' =? z); reflexivity.
  Qed.

  Lemma lt_key_single es z : StronglySorted lt_key es -> vk es z = [] \/ exists v, vk es z = [v].
  Proof.
    induction 1 as [|e r Hs IH Hall]; [left; reflexivity|]. rewrite vk_cons.
    destruct (Z.eqb_spec (key e) z) as [E|E]; [|assumption].
    right. exists (snd e). f_equal. apply vk_nil_of_Forall.
    eapply Forall_impl; [|exact Hall]. unfold lt_key. intros; lia.
  Qed.

  Lemma collapse_single es z : StronglySorted lt_key es -> collapse (vk es z) = vk es z.
  Proof. intros H. destruct (lt_key_single es z H) as [->|[v ->]]; reflexivity. Qed.

  Lemma distinct_adjacent_strict es :
    all_distinct_adjacent (map key es) = true -> StronglySorted le_key es -> StronglySorted lt_key es.
  Proof.
    induction es as [|a r IH]; intros Hd Hs; [constructor|].
    inversion Hs as [|? ? Hs' Hall]; subst. destruct r as [|b r'].
    - constructor; constructor.
    - simpl in Hd. apply andb_true_iff in Hd. destruct Hd as [Hab Hd].
      constructor; [apply IH; assumption|].
      inversion Hall as [|? ? Hle Hall']; subst. unfold le_key in Hle.
      assert (key a < key b) by (destruct (Z.eqb_spec (key a) (key b)); [discriminate|lia]).
      constructor; [assumption|].
      inversion Hs' as [|? ? _ Hb]; subst. rewrite Forall_forall in *. intros c Hc.
      specialize (Hb c Hc). unfold lt_key, le_key in *. lia.
  Qed.

  Lemma sum_duplicates_spec es :
    StronglySorted le_key es ->
    StronglySorted lt_key (sum_duplicates es)
    /\ (forall e, In e (sum_duplicates es) -> In (fst e) (map fst es))
    /\ forall z, vk (sum_duplicates es) z = collapse (vk es z).
  Proof.
    intros Hs. unfold Ctor.sum_duplicates. destruct (all_distinct_adjacent (map key es)) eqn:E.
    - pose proof (distinct_adjacent_strict es E Hs) as Hlt. repeat split; auto.
      + intros e He. apply in_map; assumption.
      + intros z. symmetry. apply collapse_single; assumption.
    - destruct es as [|[k v] r]; [repeat split; [constructor|simpl; tauto]|].
      assert (Hs' : StronglySorted Z.le (ravel sh k :: map key r)).
      { exact (proj2 (SS_map key Z.le ((k, v) :: r)) Hs). }
      destruct (sum_run_shape k v r Hs') as [acc' [t [H1 [H2 [H3 H4]]]]].
      repeat split.
      + rewrite H1. constructor; [assumption|]. exact H2.
      + rewrite H1. intros e [<-|He]; simpl; [left; reflexivity|right; auto].
      + intros z. rewrite sum_run_vk by assumption. rewrite vk_cons, key_pair. simpl snd.
        destruct (ravel sh k =? z); reflexivity.
  Qed.

  (* ---------------------------------------------------------------- _prune *)

  Lemma prune_spec fill es :
    StronglySorted lt_key es ->
    StronglySorted lt_key (prune fill es) /\ (forall e, In e (prune fill es) -> In e es)
    /\ (forall z, vk (prune fill es) z = filter (fun v => negb (veqb v fill)) (vk es z))
    /\ Forall (fun e => snd e <> fill) (prune fill es).
  Proof.
    intros Hs. unfold Ctor.prune. repeat split.
    - apply SS_filter; assumption.
    - intros e He. apply filter_In in He. tauto.
    - intros z. unfold vk. induction es as [|e r IH]; [reflexivity|].
      inversion Hs; subst. simpl.
      destruct (veqb (snd e) fill) eqn:E1; destruct (key e =? z) eqn:E2; simpl; rewrite ?E1, ?E2; simpl;
        rewrite ?E1; f_equal; auto.
    - apply Forall_forall. intros e He. apply filter_In in He. destruct He as [_ He].
      intros Heq. apply veqb_eq in Heq. rewrite Heq in He. discriminate.
  Qed.

  (* ---------------------------------------------------------------- promises -> preconditions *)

  Definition in_range_ents (es : list ent) : Prop := Forall (fun e => in_range sh (fst e)) es.

  Lemma lex_le_key (a b : ent) :
    in_range sh (fst a) -> in_range sh (fst b) -> lex_le (fst a) (fst b) -> le_key a b.
  Proof.
    intros Ha Hb [H|H]; unfold le_key, Ctor.key.
    - apply (ravel_lex sh) in H; auto. lia.
    - rewrite H. lia.
  Qed.

  Lemma promise_sorted es :
    in_range_ents es -> StronglySorted lex_le (map fst es) -> StronglySorted le_key es.
  Proof.
    intros Hr Hs. apply (proj1 (SS_map fst lex_le es)) in Hs. eapply SS_impl; [|exact Hs].
    unfold in_range_ents in Hr. rewrite Forall_forall in Hr.
    intros a b Ha Hb. apply lex_le_key; auto.
  Qed.

  Lemma key_inj (a b : ent) : in_range sh (fst a) -> in_range sh (fst b) -> key a = key b -> fst a = fst b.
  Proof. intros. eapply ravel_inj; eauto. Qed.

  Lemma promise_nodup es z :
    in_range_ents es -> NoDup (map fst es) -> vk es z = [] \/ exists v, vk es z = [v].
  Proof.
    induction es as [|e r IH]; intros Hr Hnd; [left; reflexivity|].
    inversion Hr as [|? ? He Hr']; subst. inversion Hnd as [|? ? Hn Hnd']; subst.
    rewrite vk_cons. destruct (Z.eqb_spec (key e) z) as [E|E]; [|auto].
    right. exists (snd e). f_equal. apply vk_nil_of_Forall.
    apply Forall_forall. intros b Hb Hk. apply Hn. rewrite Forall_forall in Hr'.
    rewrite (key_inj e b); [apply in_map; assumption|assumption|apply Hr'; assumption|lia].
  Qed.

  Lemma single_strict es :
    StronglySorted le_key es -> (forall z, vk es z = [] \/ exists v, vk es z = [v]) ->
    StronglySorted lt_key es.
  Proof.
    induction 1 as [|a r Hs IH Hall]; intros Hm; [constructor|]. constructor.
    - apply IH. intros z. specialize (Hm z). rewrite vk_cons in Hm.
      destruct (key a =? z); [|assumption].
      destruct Hm as [Hm|[v Hm]]; [discriminate|]. inversion Hm. left; reflexivity.
    - rewrite Forall_forall in *. intros b Hb. specialize (Hall b Hb). unfold le_key, lt_key in *.
      destruct (Z.eq_dec (key a) (key b)) as [E|E]; [|lia]. exfalso.
      specialize (Hm (key a)). rewrite vk_cons, Z.eqb_refl in Hm.
      destruct Hm as [Hm|[v Hm]]; [discriminate|]. injection Hm as _ Hn.
      apply (vk_nonnil r b (key a)); auto.
  Qed.

  (* ---------------------------------------------------------------- the constructor on entries *)

  Definition hd_or (fill : V) (vs : list V) : V := match vs with [] => fill | v :: _ => v end.

  Lemma ctor_entries_spec fl fill es :
    in_range_ents es ->
    (f_sorted fl = true -> StronglySorted lex_le (map fst es)) ->
    (f_has_duplicates fl = false -> NoDup (map fst es)) ->
    let r := ctor_entries fl fill es in
    StronglySorted lt_key r /\ in_range_ents r
    /\ (forall z, hd_or fill (vk r z) = sum_vals add fill (vk es z))
    /\ (f_prune fl = true -> Forall (fun e => snd e <> fill) r).
  Proof.
    intros Hr Hsort Hdup. unfold Ctor.ctor_entries.
    set (e1 := if f_sorted fl then es else sort_indices es).
    assert (H1 : StronglySorted le_key e1 /\ (forall e, In e e1 <-> In e es) /\ forall z, vk e1 z = vk es z).
    { subst e1. destruct (f_sorted fl).
      - repeat split; auto. apply promise_sorted; auto.
      - apply sort_indices_spec. }
    destruct H1 as [S1 [M1 K1]].
    assert (R1 : in_range_ents e1).
    { unfold in_range_ents in *. rewrite Forall_forall in *. intros e He. apply Hr, M1, He. }
    set (e2 := if f_has_duplicates fl then sum_duplicates e1 else e1).
    assert (H2 : StronglySorted lt_key e2 /\ (forall e, In e e2 -> In (fst e) (map fst e1))
                 /\ forall z, vk e2 z = collapse (vk es z)).
    { subst e2. destruct (f_has_duplicates fl) eqn:Ehd.
      - destruct (sum_duplicates_spec e1 S1) as [A [B C]]. repeat split; auto.
        intros z. rewrite C, K1. reflexivity.
      - assert (Hm : forall z, vk e1 z = [] \/ exists v, vk e1 z = [v]).
        { intros z. rewrite K1. apply promise_nodup; auto. }
        repeat split.
        + apply single_strict; assumption.
        + intros e He. apply in_map; assumption.
        + intros z. rewrite <- K1. destruct (Hm z) as [->|[v ->]]; reflexivity. }
    destruct H2 as [S2 [M2 K2]].
    assert (R2 : in_range_ents e2).
    { unfold in_range_ents in *. rewrite Forall_forall in *. intros e He.
      specialize (M2 e He). apply in_map_iff in M2. destruct M2 as [e' [<- He']]. auto. }
    destruct (f_prune fl) eqn:Ep.
    - destruct (prune_spec fill e2 S2) as [A [B [C D]]]. repeat split; auto.
      + unfold in_range_ents in *. rewrite Forall_forall in *. intros e He. auto.
      + intros z. rewrite C, K2. destruct (vk es z) as [|v vs]; simpl; [reflexivity|].
        destruct (veqb (fold_left add vs v) fill) eqn:E; simpl; [|reflexivity].
        apply veqb_eq in E. congruence.
    - repeat split; auto; [|discriminate].
      intros z. rewrite K2. destruct (vk es z); reflexivity.
  Qed.

  (* ---------------------------------------------------------------- ... and on arrays *)

  Lemma lt_key_lex es : in_range_ents es -> StronglySorted lt_key es -> StronglySorted lex_lt (map fst es).
  Proof.
    intros Hr Hs. apply (proj2 (SS_map fst lex_lt es)). eapply SS_impl; [|exact Hs].
    unfold in_range_ents in Hr. rewrite Forall_forall in Hr.
    intros a b Ha Hb H. apply (ravel_lex sh); auto.
  Qed.

  Lemma lookup_hd (es : list ent) ix : NoDup (map fst es) -> lookup es ix = hd_error (vals_at es ix).
  Proof.
    induction es as [|[k v] r IH]; intros Hnd; [reflexivity|].
    inversion Hnd as [|? ? Hn Hnd']; subst. simpl. unfold vals_at in *. simpl.
    rewrite (IH Hnd'). destruct (idx_eqb k ix) eqn:E; simpl.
    - apply idx_eqb_eq in E. subst k.
      assert (Hnone : filter (fun e : ent => idx_eqb (fst e) ix) r = []).
      { clear -Hn. induction r as [|[k' v'] r IH]; [reflexivity|]. simpl in *.
        destruct (idx_eqb k' ix) eqn:E; [apply idx_eqb_eq in E; tauto|]. apply IH. tauto. }
      rewrite Hnone. reflexivity.
    - destruct (hd_error _); reflexivity.
  Qed.

  Lemma vals_at_vk es ix :
    in_range_ents es -> in_range sh ix -> vals_at es ix = vk es (ravel sh ix).
  Proof.
    intros Hr Hi. unfold vals_at, vk. f_equal. apply filter_ext_in. intros e He.
    unfold in_range_ents in Hr. rewrite Forall_forall in Hr. specialize (Hr e He). unfold Ctor.key.
    destruct (idx_eqb (fst e) ix) eqn:E.
    - apply idx_eqb_eq in E. rewrite E. symmetry. apply Z.eqb_refl.
    - symmetry. apply Z.eqb_neq. intros Hk. apply (ravel_inj sh) in Hk; auto.
      apply idx_eqb_eq in Hk. congruence.
  Qed.

  Lemma in_range_ents_combine coords (data : list V) :
    Forall (in_range sh) coords -> in_range_ents (combine coords data).
  Proof.
    intros H. apply Forall_forall. intros [k v] Hin. simpl. apply in_combine_l in Hin.
    rewrite Forall_forall in H. auto.
  Qed.

  Notation coo_ctor := (coo_ctor V veqb add).

  Theorem ctor_canonical_proof fl coords data fill :
    length data = length coords ->
    Forall (in_range sh) coords ->
    (f_sorted fl = true -> StronglySorted lex_le coords) ->
    (f_has_duplicates fl = false -> NoDup coords) ->
    canonical V (coo_ctor fl coords data sh fill).
  Proof.
    intros Hl Hr Hs Hd.
    pose proof (combine_map_fst coords data (eq_sym Hl)) as Hf.
    destruct (ctor_entries_spec fl fill (combine coords data)) as [A [B _]];
      [apply in_range_ents_combine; assumption|rewrite Hf; assumption|rewrite Hf; assumption|].
    unfold canonical, Ctor.coo_ctor. simpl. repeat split.
    - rewrite Forall_map. exact B.
    - apply lt_key_lex; assumption.
    - rewrite !map_length. reflexivity.
  Qed.

  Theorem ctor_den_proof fl coords data fill ix :
    length data = length coords ->
    Forall (in_range sh) coords ->
    (f_sorted fl = true -> StronglySorted lex_le coords) ->
    (f_has_duplicates fl = false -> NoDup coords) ->
    in_range sh ix ->
    den (coo_ctor fl coords data sh fill) ix = sum_vals add fill (vals_at (combine coords data) ix).
  Proof.
    intros Hl Hr Hs Hd Hi.
    pose proof (combine_map_fst coords data (eq_sym Hl)) as Hf.
    pose proof (in_range_ents_combine coords data Hr) as Hre.
    destruct (ctor_entries_spec fl fill (combine coords data)) as [A [B [C _]]];
      [assumption|rewrite Hf; assumption|rewrite Hf; assumption|].
    unfold den, Ctor.coo_ctor, entries. simpl. rewrite combine_fst_snd.
    rewrite lookup_hd by (apply SS_lex_NoDup, lt_key_lex; assumption).
    rewrite (vals_at_vk _ ix B Hi), (vals_at_vk _ ix Hre Hi), <- C.
    destruct (vk _ _); reflexivity.
  Qed.

  Theorem ctor_pruned_proof fl coords data fill :
    length data = length coords ->
    Forall (in_range sh) coords ->
    (f_sorted fl = true -> StronglySorted lex_le coords) ->
    (f_has_duplicates fl = false -> NoDup coords) ->
    f_prune fl = true ->
    prunedb veqb (coo_ctor fl coords data sh fill) = true.
  Proof.
    intros Hl Hr Hs Hd Hp.
    pose proof (combine_map_fst coords data (eq_sym Hl)) as Hf.
    destruct (ctor_entries_spec fl fill (combine coords data)) as [_ [_ [_ D]]];
      [apply in_range_ents_combine; assumption|rewrite Hf; assumption|rewrite Hf; assumption|].
    specialize (D Hp). unfold prunedb, Ctor.coo_ctor. simpl. apply forallb_forall.
    intros v Hv. apply in_map_iff in Hv. destruct Hv as [e [<- He]].
    rewrite Forall_forall in D. specialize (D e He).
    destruct (veqb (snd e) fill) eqn:E; [apply veqb_eq in E; contradiction|reflexivity].
  Qed.

  (* ---------------------------------------------------------------- schemas *)

  (* a canonical array's coordinate list: what the promising producers start from *)
  Definition canon_coords (s : shape) (l : list idx) : Prop :=
    Forall (in_range s) l /\ StronglySorted lex_lt l.

  Lemma SS_lt_le l : StronglySorted lex_lt l -> StronglySorted lex_le l.
  Proof. apply SS_impl. intros a b _ _ H. left; exact H. Qed.

  (* the promise pair (sorted=True, has_duplicates=False) is exactly canon_coords *)
  Lemma canon_promises l : canon_coords sh l -> StronglySorted lex_le l /\ NoDup l.
  Proof. intros [_ H]. split; [apply SS_lt_le; assumption|apply SS_lex_NoDup; assumption]. Qed.

  Theorem schema_EmptyCoords : canon_coords sh [].
  Proof. split; constructor. Qed.

  Theorem schema_FilterOfCanonical (p : idx -> bool) l : canon_coords sh l -> canon_coords sh (filter p l).
  Proof.
    intros [Hr Hs]. split; [|apply SS_filter; assumption].
    apply Forall_forall. intros x Hx. apply filter_In in Hx. rewrite Forall_forall in Hr. apply Hr. tauto.
  Qed.

  (* selection by a mask over the entries (coordinate and value), as triu/tril/getitem do *)
  Theorem schema_FilterOfCanonical_entries (p : ent -> bool) (c : coo V) :
    canonical V c -> canon_coords (c_shape c) (map fst (filter p (entries c))).
  Proof.
    intros [Hr [Hs Hl]]. split.
    - apply Forall_forall. intros x Hx. apply filter_fst_incl in Hx. unfold entries in Hx.
      rewrite combine_map_fst in Hx by lia. rewrite Forall_forall in Hr. auto.
    - unfold entries. apply SS_map_fst_filter. assumption.
  Qed.

  Theorem schema_InjectiveMonotoneMap (s' : shape) (f : idx -> idx) l :
    (forall a, in_range sh a -> in_range s' (f a)) ->
    (forall a b, in_range sh a -> in_range sh b -> lex_lt a b -> lex_lt (f a) (f b)) ->
    canon_coords sh l -> canon_coords s' (map f l).
  Proof.
    intros Hf Hm [Hr Hs]. rewrite Forall_forall in Hr. split.
    - apply Forall_forall. intros x Hx. apply in_map_iff in Hx. destruct Hx as [a [<- Ha]]. auto.
    - apply (proj2 (SS_map f lex_lt l)). eapply SS_impl; [|exact Hs]. intros a b Ha Hb. apply Hm; auto.
  Qed.

  (* instance: reshape.  new coordinate = unravel new_shape (ravel old_shape c) *)
  Theorem reshape_monotone (s' : shape) :
    shape_ok s' -> size s' = size sh ->
    (forall a, in_range sh a -> in_range s' (unravel s' (ravel sh a)))
    /\ (forall a b, in_range sh a -> in_range sh b -> lex_lt a b ->
          lex_lt (unravel s' (ravel sh a)) (unravel s' (ravel sh b))).
  Proof.
    intros Hok Hsz. split.
    - intros a Ha. apply unravel_in_range; [assumption|]. rewrite Hsz. apply ravel_bounds; assumption.
    - intros a b Ha Hb Hlt.
      pose proof (ravel_bounds _ _ Ha) as Ba. pose proof (ravel_bounds _ _ Hb) as Bb.
      apply (ravel_lex s'); try (apply unravel_in_range; [assumption|lia]).
      rewrite !ravel_unravel by (try assumption; lia). apply (ravel_lex sh); assumption.
  Qed.

  (* instance: any map that keeps the linear location (squeeze, expand_dims: axes of extent 1) *)
  Theorem ravel_preserving_monotone (s' : shape) (f : idx -> idx) :
    (forall a, in_range sh a -> in_range s' (f a) /\ ravel s' (f a) = ravel sh a) ->
    (forall a b, in_range sh a -> in_range sh b -> lex_lt a b -> lex_lt (f a) (f b)).
  Proof.
    intros Hf a b Ha Hb Hlt. destruct (Hf a Ha) as [Ra Ea], (Hf b Hb) as [Rb Eb].
    apply (ravel_lex s'); auto. rewrite Ea, Eb. apply (ravel_lex sh); auto.
  Qed.

  (* consecutive coordinates increase: eye's diagonal, sort's positions inside groups *)
  Theorem schema_AdjacentLexIncreasing l :
    Forall (in_range sh) l -> sorted_strict l = true -> canon_coords sh l.
  Proof. intros Hr Hs. split; [assumption|apply sorted_strict_SS; assumption]. Qed.

  (* has_duplicates=False only (the constructor sorts): injective image of distinct coordinates *)
  Theorem schema_InjectiveMap (f : idx -> idx) l :
    (forall a b, In a l -> In b l -> f a = f b -> a = b) -> NoDup l -> NoDup (map f l).
  Proof.
    intros Hinj Hnd. induction Hnd as [|a r Hn Hnd IH]; simpl; constructor.
    - intros Hin. apply in_map_iff in Hin. destruct Hin as [b [Hb Hin]].
      assert (b = a) by (apply Hinj; [right; assumption|left; reflexivity|assumption]). subst. contradiction.
    - apply IH. intros x y Hx Hy. apply Hinj; right; assumption.
  Qed.

  (* has_duplicates=False only: concatenation of pairwise disjoint duplicate-free blocks *)
  Theorem schema_MergeOfDisjointSorted (blocks : list (list idx)) :
    Forall (@NoDup idx) blocks ->
    ForallOrdPairs (fun b1 b2 => forall x, In x b1 -> ~ In x b2) blocks ->
    NoDup (concat blocks).
  Proof.
    intros Hnd Hdis. induction Hdis as [|b r Hb Hr IH]; simpl; [constructor|].
    inversion Hnd as [|? ? Hnb Hnr]; subst.
    assert (Hx : forall x, In x b -> ~ In x (concat r)).
    { intros x Hx Hin. apply in_concat in Hin. destruct Hin as [b2 [Hb2 Hin]].
      rewrite Forall_forall in Hb. exact (Hb b2 Hb2 x Hx Hin). }
    clear Hb. specialize (IH Hnr). clear Hnd. revert Hx. induction Hnb as [|a b' Ha Hnb' IHb]; intros Hx; simpl; [assumption|].
    constructor.
    - intros Hin. apply in_app_or in Hin. destruct Hin as [Hin|Hin]; [contradiction|].
      apply (Hx a); [left; reflexivity|assumption].
    - apply IHb. intros x Hin. apply Hx. right; assumption.
  Qed.
End CtorP.

(* ------------------------------------------------------------------ group heads (reductions) *)

(* first element of every run of equal values *)
Fixpoint group_heads (l : list Z) : list Z :=
  match l with
  | [] => []
  | a :: r => match r with [] => [a] | b :: _ => if a =? b then group_heads r else a :: group_heads r end
  end.

Lemma group_heads_In l x : In x (group_heads l) -> In x l.
Proof.
  induction l as [|a r IH]; simpl; [tauto|]. destruct r as [|b r']; [simpl; tauto|].
  destruct (a =? b); [intros H; right; apply IH; exact H|].
  intros [->|H]; [left; reflexivity|right; apply IH; exact H].
Qed.

(* the reduced coordinate of `_reduce_return`: group heads of the sorted row coordinate are
   strictly increasing.  NB the heads here are the LAST of each run of equal values, which is
   the same value as the first. *)
Theorem schema_GroupHeads l :
  StronglySorted Z.le l -> StronglySorted Z.lt (group_heads l).
Proof.
  induction 1 as [|a r Hs IH Hall]; [constructor|].
  destruct r as [|b r']; [simpl; constructor; constructor|].
  change (group_heads (a :: b :: r')) with (if a =? b then group_heads (b :: r') else a :: group_heads (b :: r')).
  destruct (Z.eqb_spec a b) as [E|E]; [assumption|].
  constructor; [assumption|]. apply Forall_forall. intros x Hx. apply group_heads_In in Hx.
  rewrite Forall_forall in Hall. pose proof (Hall b (or_introl eq_refl)) as Hab.
  inversion Hs as [|? ? _ Hb]; subst. rewrite Forall_forall in Hb.
  destruct Hx as [<-|Hx]; [lia|]. specialize (Hb x Hx). lia.
Qed.

Lemma one_d_canon (n : Z) (l : list Z) :
  Forall (fun i => 0 <= i < n) l -> StronglySorted Z.lt l ->
  canon_coords [n] (map (fun i => [i]) l).
Proof.
  intros Hr Hs. split.
  - rewrite Forall_map. eapply Forall_impl; [|exact Hr]. simpl. tauto.
  - apply (proj2 (SS_map (fun i => [i]) lex_lt l)). eapply SS_impl; [|exact Hs]. intros a b _ _ H. simpl. left; exact H.
Qed.

(* ------------------------------------------------------------------ offset concatenation *)

Lemma offset_concat_bounds tail off blocks c :
  Forall (fun b => 0 <= fst b /\ canon_coords (fst b :: tail) (snd b)) blocks ->
  In c (offset_concat off blocks) ->
  exists i t, c = i :: t /\ off <= i < off + total_extent blocks /\ in_range tail t.
Proof.
  revert off. induction blocks as [|[d cs] r IH]; intros off Hb Hin; simpl in *; [tauto|].
  inversion Hb as [|? ? [Hd [Hr _]] Hb']; subst. simpl in *.
  assert (Ht : 0 <= total_extent r).
  { clear -Hb'. induction Hb' as [|b r [H _] _ IH]; simpl; lia. }
  apply in_app_or in Hin. destruct Hin as [Hin|Hin].
  - apply in_map_iff in Hin. destruct Hin as [a [<- Ha]]. rewrite Forall_forall in Hr.
    specialize (Hr a Ha). destruct a as [|i t]; simpl in Hr; [tauto|].
    exists (i + off), t. simpl. repeat split; try tauto; lia.
  - destruct (IH (off + d) Hb' Hin) as [i [t [-> [Hi Ht']]]]. exists i, t. repeat split; auto; lia.
Qed.

Theorem schema_FromSortedOffsetConcat tail blocks :
  Forall (fun b => 0 <= fst b /\ canon_coords (fst b :: tail) (snd b)) blocks ->
  canon_coords (total_extent blocks :: tail) (offset_concat 0 blocks).
Proof.
  intros Hb.
  assert (G : forall off, 0 <= off -> Forall (fun b => 0 <= fst b /\ canon_coords (fst b :: tail) (snd b)) blocks ->
              StronglySorted lex_lt (offset_concat off blocks)).
  { clear Hb. induction blocks as [|[d cs] r IH]; intros off Hoff Hb; simpl; [constructor|].
    inversion Hb as [|? ? [Hd [Hr Hs]] Hb']; subst. simpl in *.
    apply SS_app.
    - apply (proj2 (SS_map (offset0 off) lex_lt cs)). eapply SS_impl; [|exact Hs]. intros a b Ha Hbb Hlt.
      destruct a as [|x a], b as [|y b]; simpl in *; try tauto. destruct Hlt as [?|[-> ?]]; [left; lia|right; auto].
    - apply IH; [lia|assumption].
    - intros a b Ha Hbb. apply in_map_iff in Ha. destruct Ha as [a0 [<- Ha0]].
      rewrite Forall_forall in Hr. specialize (Hr a0 Ha0).
      destruct (offset_concat_bounds tail (off + d) r b Hb' Hbb) as [i [t [-> [Hi _]]]].
      destruct a0 as [|x a0]; simpl in Hr; [tauto|]. simpl. left. lia. }
  split; [|apply G; [lia|assumption]].
  apply Forall_forall. intros c Hc. destruct (offset_concat_bounds tail 0 blocks c Hb Hc) as [i [t [-> [Hi Ht]]]].
  simpl. split; [lia|assumption].
Qed.

(* ------------------------------------------------------------------ GCXS: shared arrays of a 2-d array *)

(* GCXS._2d_transpose / CSR.transpose / CSC.transpose: the same three arrays, shape reversed,
   compressed axis flipped *)
Definition gcxs_2d_transpose {V} (g : gcxs V) : gcxs V :=
  match g_shape g, g_caxes g with
  | [r; c], [a] => mkGCXS [c; r] [if a =? 0 then 1 else 0] (g_data g) (g_indices g) (g_indptr g) (g_fill g)
  | _, _ => g
  end.

Theorem schema_SharesArraysOfWf {V} (g : gcxs V) :
  gcxs_wfb g = true -> gcxs_wfb (gcxs_2d_transpose g) = true.
Proof.
  unfold gcxs_2d_transpose. destruct g as [sh ca da ind ptr fl]. simpl.
  destruct sh as [|r [|c [|? ?]]]; auto. destruct ca as [|a [|? ?]]; auto.
  destruct (Z.eq_dec a 0) as [->|N0]; [|destruct (Z.eq_dec a 1) as [->|N1]].
  - unfold gcxs_wfb, row_size, col_size, reordered_shape, axis_order, zrange, znth, mem_z. cbn.
    rewrite !andb_true_iff. intuition.
  - unfold gcxs_wfb, row_size, col_size, reordered_shape, axis_order, zrange, znth, mem_z. cbn.
    rewrite !andb_true_iff. intuition.
  - unfold gcxs_wfb. cbn. intros H. exfalso.
    repeat (apply andb_true_iff in H; destruct H as [H ?]).
    repeat match goal with H : (_ && _) = true |- _ => apply andb_true_iff in H; destruct H end. lia.
Qed.

(* ------------------------------------------------------------------ from_scipy_sparse *)

(* scipy.sparse.csr_matrix([[0,1,0,0,0],[1,0,0,0,1]]) @ csr_matrix(5x5): what SciPy returns — valid for
   SciPy, not well formed as a GCXS: why from_scipy_sparse must canonicalise (it does since fix c3f2e26) *)
Definition scipy_product : gcxs Z :=
  mkGCXS [2; 5] [0] [2; 3; 1; 3; -1; 1; -2; -1; 3] [4; 3; 1; 0; 2; 1; 0; 4; 3] [0; 4; 9] 0.

Example scipy_rows_need_sorting :
  scipy_valid scipy_product = true /\ gcxs_wfb (gcxs_from_scipy scipy_product) = false.
Proof. split; vm_compute; reflexivity. Qed.

(* storing the arrays of a SciPy matrix with sorted, duplicate-free rows gives a well-formed GCXS *)
Theorem from_scipy_partial_proof (m : gcxs Z) :
  scipy_valid m = true ->
  forallb strictly_increasing (rows_of (g_indices m) (g_indptr m)) = true ->
  gcxs_wfb (gcxs_from_scipy m) = true.
Proof.
  unfold scipy_valid, gcxs_from_scipy. destruct m as [sh ca da ind ptr fl]. simpl.
  destruct sh as [|r [|c [|? ?]]]; try discriminate. destruct ca as [|a [|? ?]]; try discriminate.
  intros H Hrows. repeat (apply andb_true_iff in H; destruct H as [H ?]).
  assert (Ha : a = 0 \/ a = 1) by (apply orb_true_iff in H; destruct H as [H|H]; apply Z.eqb_eq in H; auto).
  unfold gcxs_wfb. cbn [g_shape g_caxes g_data g_indices g_indptr].
  destruct Ha as [-> | ->]; cbn [forallb length Z.of_nat]; simpl negb;
    repeat (apply andb_true_iff; split); auto; try reflexivity.
Qed.

(* ------------------------------------------------------------------ promises are load-bearing *)

Definition zflags (s d p : bool) : flags := mkFlags s d p.
Definition zctor := coo_ctor Z Z.eqb Z.add.

Ltac in_range_list := repeat constructor; simpl; lia.

(* sorted=True on unsorted, duplicate-free, in-range coordinates: not canonical *)
Theorem ctor_promise_needed_proof :
  exists coords data sh fill,
    length data = length coords /\ Forall (in_range sh) coords /\ NoDup coords /\
    canonicalb (zctor (zflags true false false) coords data sh fill) = false.
Proof.
  exists [[1]; [0]], [5; 7], [2], 0.
  split; [reflexivity|]. split; [in_range_list|]. split; [|reflexivity].
  constructor; [simpl; intros [H|[]]; discriminate|]. constructor; [simpl; tauto|constructor].
Qed.

(* has_duplicates=False on sorted coordinates with a repeat: not canonical *)
Theorem ctor_dup_promise_needed_proof :
  exists coords data sh fill,
    length data = length coords /\ Forall (in_range sh) coords /\ StronglySorted lex_le coords /\
    canonicalb (zctor (zflags false false false) coords data sh fill) = false.
Proof.
  exists [[1]; [1]], [5; 7], [2], 0.
  split; [reflexivity|]. split; [in_range_list|]. split; [|reflexivity].
  constructor; [constructor; constructor|]. constructor; [right; reflexivity|constructor].
Qed.

(* sorted=True (false promise) with has_duplicates=True: only ADJACENT repeats are merged *)
Theorem ctor_sorted_promise_hides_duplicates :
  exists coords data sh fill,
    length data = length coords /\ Forall (in_range sh) coords /\
    canonicalb (zctor (zflags true true false) coords data sh fill) = false.
Proof.
  exists [[1]; [0]; [1]], [5; 7; 9], [2], 0.
  split; [reflexivity|]. split; [in_range_list|reflexivity].
Qed.

(* non-vacuity: an unsorted input with repeats, default flags plus prune *)
Example ctor_example :
  zctor (zflags false true true) [[1; 0]; [0; 1]; [1; 0]; [0; 0]] [5; 7; -5; 3] [2; 2] 0
  = mkCOO [2; 2] [[0; 0]; [0; 1]] [3; 7] 0.
Proof. reflexivity. Qed.

(* ------------------------------------------------------------------ csr @ csr: rows sorted by the kernel *)

Lemma strictly_increasing_SS l : strictly_increasing l = true <-> StronglySorted Z.lt l.
Proof.
  induction l as [|a r IH]; simpl.
  - split; [constructor|reflexivity].
  - destruct r as [|b r'].
    + split; [intros _; constructor; constructor|reflexivity].
    + rewrite andb_true_iff, Z.ltb_lt, IH. split.
      * intros [Hab Hs]. constructor; [assumption|].
        inversion Hs as [|? ? Hs' Hall]; subst. constructor; [assumption|].
        eapply Forall_impl; [|exact Hall]. intros c Hc. lia.
      * intros Hs. inversion Hs as [|? ? Hs' Hall]; subst. split; [|assumption].
        inversion Hall; assumption.
Qed.

Lemma insert_col_perm x l : Permutation (insert_col x l) (x :: l).
Proof.
  induction l as [|y r IH]; simpl; [reflexivity|].
  destruct (fst x <=? fst y); [reflexivity|].
  rewrite IH. apply perm_swap.
Qed.

Lemma sort_row_perm l : Permutation (sort_row l) l.
Proof.
  induction l as [|x r IH]; simpl; [reflexivity|].
  rewrite insert_col_perm. constructor. exact IH.
Qed.

Lemma insert_col_sorted x l :
  StronglySorted (fun a b : Z * Z => fst a <= fst b) l ->
  StronglySorted (fun a b : Z * Z => fst a <= fst b) (insert_col x l).
Proof.
  induction 1 as [|y r Hs IH Hall]; simpl; [constructor; constructor|].
  destruct (Z.leb_spec (fst x) (fst y)).
  - constructor; [constructor; assumption|]. constructor; [assumption|].
    eapply Forall_impl; [|exact Hall]. simpl. intros c Hc. lia.
  - constructor; [assumption|]. apply Forall_forall. intros c Hc.
    apply (Permutation_in _ (insert_col_perm x r)) in Hc.
    destruct Hc as [<-|Hc]; [lia|]. rewrite Forall_forall in Hall. auto.
Qed.

Lemma sort_row_sorted l : StronglySorted (fun a b : Z * Z => fst a <= fst b) (sort_row l).
Proof. induction l; simpl; [constructor|apply insert_col_sorted; assumption]. Qed.

(* sorting a row whose columns are distinct gives strictly increasing columns *)
Theorem schema_RowsSortedByKernel (l : list (Z * Z)) :
  NoDup (map fst l) -> strictly_increasing (map fst (sort_row l)) = true.
Proof.
  intros Hnd. apply strictly_increasing_SS.
  assert (Hnd' : NoDup (map fst (sort_row l))).
  { eapply Permutation_NoDup; [|exact Hnd]. apply Permutation_map. symmetry. apply sort_row_perm. }
  pose proof (sort_row_sorted l) as Hs. revert Hnd'. induction Hs as [|a r Hs IH Hall]; intros Hnd'; simpl; constructor.
  - apply IH. inversion Hnd'; assumption.
  - inversion Hnd' as [|? ? Hn _]; subst. rewrite Forall_map. rewrite Forall_forall in *.
    intros b Hb. specialize (Hall b Hb). simpl in Hall.
    destruct (Z.eq_dec (fst a) (fst b)) as [E|E]; [|lia].
    exfalso. apply Hn. rewrite E. apply in_map. assumption.
Qed.

(* the former D8 witness: a = [[0 1 0 0 0]; [1 0 0 0 1]], b = 5x5 *)
Definition d8_a : gcxs Z := mkGCXS [2; 5] [0] [1; 1; 1] [1; 0; 4] [0; 1; 3] 0.
Definition d8_b : gcxs Z :=
  mkGCXS [5; 5] [0]
    [1; 1; 3; 1; 3; 2; 2; 3; 1; -1; 2; 3; -2; 1; -1; 2; -2]
    [3; 4; 0; 1; 3; 4; 0; 3; 4; 0; 1; 2; 0; 1; 2; 3; 4]
    [0; 2; 6; 9; 12; 17] 0.

Example dot_csr_csr_example :
  dot_csr_csr d8_a d8_b
  = mkGCXS [2; 5] [0] [3; 1; 3; 2; -2; 1; -1; 3; -1] [0; 1; 3; 4; 0; 1; 2; 3; 4] [0; 4; 9] 0
  /\ gcxs_wfb (dot_csr_csr d8_a d8_b) = true.
Proof. split; vm_compute; reflexivity. Qed.

(* ------------------------------------------------------------------ csr @ csr: the linked list emits every
   touched column once *)

Lemma nth_upd_nat {A} (l : list A) n v m d :
  (n < length l)%nat ->
  nth m (firstn n l ++ v :: skipn (S n) l) d = if Nat.eqb m n then v else nth m l d.
Proof.
  revert n m. induction l as [|a r IH]; intros n m Hn; simpl in Hn; [lia|].
  destruct n as [|n'].
  - simpl. destruct m; reflexivity.
  - simpl firstn. simpl skipn. destruct m as [|m']; [reflexivity|]. simpl. apply IH. lia.
Qed.

Lemma upd_length {A} (l : list A) i v : length (upd l i v) = length l.
Proof.
  unfold upd. destruct ((i <? 0) || (Z.of_nat (length l) <=? i)) eqn:E; [reflexivity|].
  apply orb_false_iff in E. destruct E as [E1 E2]. apply Z.ltb_ge in E1. apply Z.leb_gt in E2.
  rewrite app_length. cbn [length]. rewrite firstn_length_le, skipn_length by lia. lia.
Qed.

Lemma znth_upd_same {A} (l : list A) i v d :
  0 <= i < Z.of_nat (length l) -> znth (upd l i v) i d = v.
Proof.
  intros Hi. unfold upd, znth.
  destruct ((i <? 0) || (Z.of_nat (length l) <=? i)) eqn:E.
  - apply orb_true_iff in E. destruct E as [E|E]; [apply Z.ltb_lt in E|apply Z.leb_le in E]; lia.
  - rewrite nth_upd_nat by lia. rewrite Nat.eqb_refl. reflexivity.
Qed.

Lemma znth_upd_other {A} (l : list A) i j v d :
  0 <= i -> 0 <= j -> i <> j -> znth (upd l i v) j d = znth l j d.
Proof.
  intros Hi Hj Hne. unfold upd, znth.
  destruct ((i <? 0) || (Z.of_nat (length l) <=? i)) eqn:E; [reflexivity|].
  apply orb_false_iff in E. destruct E as [E1 E2]. apply Z.leb_gt in E2.
  rewrite nth_upd_nat by lia.
  destruct (Nat.eqb_spec (Z.to_nat j) (Z.to_nat i)); [lia|reflexivity].
Qed.

Section LinkedList.
  Variable N : Z.                       (* n_col *)

  (* the list reachable from head through next_ *)
  Fixpoint chain (nxt : list Z) (h : Z) (L : list Z) : Prop :=
    match L with
    | [] => h = -2
    | k :: L' => h = k /\ chain nxt (znth nxt k 0) L'
    end.

  Definition ll_inv (st : ll_state) (L : list Z) : Prop :=
    let '(nxt, _, head, len) := st in
    Z.of_nat (length nxt) = N /\ NoDup L /\ Forall (fun k => 0 <= k < N) L
    /\ chain nxt head L /\ len = Z.of_nat (length L).

  Lemma chain_head_ne nxt h L : Forall (fun k => 0 <= k < N) L -> chain nxt h L -> h <> -1.
  Proof.
    intros Hr Hc. destruct L as [|k L']; simpl in Hc; [lia|].
    destruct Hc as [-> _]. inversion Hr; subst. lia.
  Qed.

  Lemma chain_member_ne nxt h L k :
    Forall (fun k => 0 <= k < N) L -> chain nxt h L -> In k L -> znth nxt k 0 <> -1.
  Proof.
    revert h. induction L as [|j L' IH]; intros h Hr Hc Hin; [destruct Hin|].
    inversion Hr as [|? ? Hj Hr']; subst. destruct Hc as [-> Hc]. destruct Hin as [->|Hin].
    - eapply chain_head_ne; eauto.
    - eapply IH; eauto.
  Qed.

  Lemma chain_upd nxt h L k v :
    0 <= k -> Forall (fun k => 0 <= k < N) L -> ~ In k L -> chain nxt h L -> chain (upd nxt k v) h L.
  Proof.
    intros Hk. revert h. induction L as [|j L' IH]; intros h Hr Hn Hc; simpl in *; [assumption|].
    inversion Hr as [|? ? Hj Hr']; subst. destruct Hc as [-> Hc]. split; [reflexivity|].
    rewrite znth_upd_other by (try lia; intros ->; apply Hn; left; reflexivity).
    apply IH; auto.
  Qed.

  Lemma touch_inv st L k x :
    0 <= k < N -> ll_inv st L -> exists L', ll_inv (touch st k x) L'.
  Proof.
    intros Hk. destruct st as [[[nxt sums] head] len]. intros [Hl [Hnd [Hr [Hc Hlen]]]].
    unfold touch. destruct (Z.eqb_spec (znth nxt k 0) (-1)) as [E|E].
    - exists (k :: L). unfold ll_inv. rewrite upd_length.
      assert (Hnin : ~ In k L) by (intros Hin; exact (chain_member_ne nxt head L k Hr Hc Hin E)).
      repeat split; auto.
      + constructor; assumption.
      + simpl. rewrite znth_upd_same by lia. apply chain_upd; auto. lia.
      + simpl length. lia.
    - exists L. unfold ll_inv. repeat split; auto.
  Qed.

  Lemma touches_inv {X} (f : X -> Z) (g : X -> Z) (l : list X) st L :
    Forall (fun e => 0 <= f e < N) l -> ll_inv st L ->
    exists L', ll_inv (fold_left (fun st e => touch st (f e) (g e)) l st) L'.
  Proof.
    revert st L. induction l as [|e r IH]; intros st L Hr Hi; simpl; [exists L; assumption|].
    inversion Hr as [|? ? He Hr']; subst.
    destruct (touch_inv st L (f e) (g e) He Hi) as [L1 H1]. eapply IH; eauto.
  Qed.

  Lemma drain_spec L : forall nxt sums head acc,
    NoDup L -> Forall (fun k => 0 <= k < N) L -> chain nxt head L ->
    map fst (drain (length L) nxt sums head acc) = map fst acc ++ L.
  Proof.
    induction L as [|k L' IH]; intros nxt sums head acc Hnd Hr Hc; simpl.
    - rewrite app_nil_r. reflexivity.
    - destruct Hc as [-> Hc]. inversion Hnd as [|? ? Hn Hnd']; subst. inversion Hr as [|? ? Hk Hr']; subst.
      assert (Hne : znth nxt k 0 <> -1) by (eapply chain_head_ne; eauto).
      destruct (Z.eqb_spec (znth nxt k 0) (-1)); [contradiction|]. simpl.
      rewrite IH; auto.
      + rewrite map_app, <- app_assoc. reflexivity.
      + apply chain_upd; auto. lia.
  Qed.

  Lemma drain_all_spec L : forall nxt sums head acc,
    NoDup L -> Forall (fun k => 0 <= k < N) L -> chain nxt head L ->
    map fst (drain_all (length L) nxt sums head acc) = map fst acc ++ L.
  Proof.
    induction L as [|k L' IH]; intros nxt sums head acc Hnd Hr Hc; simpl.
    - rewrite app_nil_r. reflexivity.
    - destruct Hc as [-> Hc]. inversion Hnd as [|? ? Hn Hnd']; subst. inversion Hr as [|? ? Hk Hr']; subst.
      rewrite IH; auto.
      + rewrite map_app, <- app_assoc. reflexivity.
      + apply chain_upd; auto. lia.
  Qed.
End LinkedList.

Lemma In_firstn {A} n (l : list A) x : In x (firstn n l) -> In x l.
Proof.
  revert l. induction n as [|n IH]; intros l H; simpl in H; [destruct H|].
  destruct l as [|a r]; [destruct H|]. destruct H as [->|H]; [left; reflexivity|right; auto].
Qed.

Lemma In_skipn {A} n (l : list A) x : In x (skipn n l) -> In x l.
Proof.
  revert l. induction n as [|n IH]; intros l H; simpl in H; [assumption|].
  destruct l as [|a r]; [destruct H|]. right. auto.
Qed.

Lemma In_slice_list {A} (l : list A) lo hi x : In x (slice_list l lo hi) -> In x l.
Proof. unfold slice_list. intros H. apply In_firstn in H. apply In_skipn in H. exact H. Qed.

Lemma csr_csr_row_raw_NoDup (a b : gcxs Z) (n_col i : Z) :
  0 <= n_col -> Forall (fun k => 0 <= k < n_col) (g_indices b) ->
  NoDup (map fst (csr_csr_row_raw n_col a b i)).
Proof.
  intros Hn Hb. unfold csr_csr_row_raw.
  set (a_row := combine _ _).
  set (init := (repeat (-1) (Z.to_nat n_col), repeat 0 (Z.to_nat n_col), -2, 0) : ll_state).
  assert (Hinit : ll_inv n_col init []).
  { unfold ll_inv, init. rewrite repeat_length. repeat split; try constructor; lia. }
  assert (G : forall l st L, ll_inv n_col st L ->
     exists L', ll_inv n_col
       (fold_left (fun st (jav : Z * Z) =>
          let '(j, av) := jav in
          let b_row := combine (row_slice (g_indices b) (g_indptr b) j) (row_slice (g_data b) (g_indptr b) j) in
          fold_left (fun st (kbv : Z * Z) => touch st (fst kbv) (av * snd kbv)) b_row st) l st) L').
  { induction l as [|[j av] r IH]; intros st L Hi; simpl; [exists L; assumption|].
    destruct (touches_inv n_col (fun kbv : Z * Z => fst kbv) (fun kbv => av * snd kbv)
                (combine (row_slice (g_indices b) (g_indptr b) j) (row_slice (g_data b) (g_indptr b) j)) st L) as [L1 H1]; auto.
    - apply Forall_forall. intros [k bv] Hin. apply in_combine_l in Hin. unfold row_slice in Hin.
      apply In_slice_list in Hin. rewrite Forall_forall in Hb. simpl. auto.
    - eapply IH. exact H1. }
  destruct (G a_row init [] Hinit) as [L HL].
  destruct (fold_left _ a_row init) as [[[nxt sums] head] len].
  destruct HL as [Hl [Hnd [Hr [Hc Hlen]]]]. subst len. rewrite Nat2Z.id.
  rewrite (drain_spec n_col L nxt sums head [] Hnd Hr Hc). simpl. assumption.
Qed.

(* the rows csr @ csr stores have strictly increasing column indices *)
Theorem csr_csr_row_sorted (a b : gcxs Z) (n_col i : Z) :
  0 <= n_col -> Forall (fun k => 0 <= k < n_col) (g_indices b) ->
  strictly_increasing (map fst (csr_csr_row n_col a b i)) = true.
Proof.
  intros Hn Hb. unfold csr_csr_row. apply schema_RowsSortedByKernel.
  apply csr_csr_row_raw_NoDup; assumption.
Qed.

(* ------------------------------------------------------------------ csc @ ndarray (sparse result) *)

Lemma csc_nd_col_raw_NoDup (a : gcxs Z) (n_rows : Z) (bcol : list Z) :
  0 <= n_rows -> Forall (fun k => 0 <= k < n_rows) (g_indices a) ->
  NoDup (map fst (csc_nd_col_raw n_rows a bcol)).
Proof.
  intros Hn Ha. unfold csc_nd_col_raw.
  set (l := combine _ bcol).
  set (init := (repeat (-1) (Z.to_nat n_rows), repeat 0 (Z.to_nat n_rows), -2, 0) : ll_state).
  assert (Hinit : ll_inv n_rows init []).
  { unfold ll_inv, init. rewrite repeat_length. repeat split; try constructor; lia. }
  assert (G : forall l st L, ll_inv n_rows st L ->
     exists L', ll_inv n_rows
       (fold_left (fun st (ju : Z * Z) =>
          let '(j, u) := ju in
          if u =? 0 then st
          else fold_left (fun st (kv : Z * Z) => touch st (fst kv) (u * snd kv))
                 (combine (row_slice (g_indices a) (g_indptr a) j) (row_slice (g_data a) (g_indptr a) j)) st) l st) L').
  { clear l. induction l as [|[j u] r IH]; intros st L Hi; simpl; [exists L; assumption|].
    destruct (u =? 0); [eapply IH; exact Hi|].
    destruct (touches_inv n_rows (fun kv : Z * Z => fst kv) (fun kv => u * snd kv)
                (combine (row_slice (g_indices a) (g_indptr a) j) (row_slice (g_data a) (g_indptr a) j)) st L) as [L1 H1]; auto.
    - apply Forall_forall. intros [k v] Hin. apply in_combine_l in Hin. unfold row_slice in Hin.
      apply In_slice_list in Hin. rewrite Forall_forall in Ha. simpl. auto.
    - eapply IH. exact H1. }
  destruct (G l init [] Hinit) as [L HL].
  destruct (fold_left _ l init) as [[[nxt sums] head] len].
  destruct HL as [Hl [Hnd [Hr [Hc Hlen]]]]. subst len. rewrite Nat2Z.id.
  rewrite (drain_all_spec n_rows L nxt sums head [] Hnd Hr Hc). simpl. assumption.
Qed.

(* the columns csc @ ndarray stores have strictly increasing row indices *)
Theorem csc_nd_col_sorted (a : gcxs Z) (n_rows : Z) (bcol : list Z) :
  0 <= n_rows -> Forall (fun k => 0 <= k < n_rows) (g_indices a) ->
  strictly_increasing (map fst (csc_nd_col n_rows a bcol)) = true.
Proof.
  intros Hn Ha. unfold csc_nd_col. apply schema_RowsSortedByKernel.
  apply csc_nd_col_raw_NoDup; assumption.
Qed.

(* ------------------------------------------------------------------ pruning by token equality *)

(* a mask `~equivalent(data, fill)` leaves no stored value equal (as a token) to the fill *)
Theorem prune_by_equivalent_pruned_proof {V} (veqb : V -> V -> bool) (fill : V) (data : list V) :
  forallb (fun v => negb (veqb v fill)) (prune_by (fun v => negb (veqb v fill)) data) = true.
Proof.
  apply forallb_forall. intros v Hv. apply filter_In in Hv. tauto.
Qed.

(* a mask `data != fill` does not: with a NaN fill nothing is dropped *)
Theorem prune_by_ieee_neq_not_pruned_proof :
  exists (nan fill : Z) (data : list Z),
    forallb (fun v => negb (v =? fill)) (prune_by (fun v => ieee_neq nan v fill) data) = false.
Proof. exists 99, 99, [10; 99; 25]. reflexivity. Qed.

(* ------------------------------------------------------------------ the sort key must be signed and wide *)

(* in an unsigned type the "already sorted" test of _sort_indices is vacuous ... *)
Theorem nondec_wrapped_always_proof (w : Z) (l : list Z) : 0 <= w -> nondec_wrapped w l = true.
Proof.
  intros Hw. induction l as [|a r IH]; [reflexivity|]. simpl. destruct r as [|b r']; [reflexivity|].
  rewrite IH, andb_true_r. apply Z.leb_le. apply Z.mod_pos_bound. apply Z.pow_pos_nonneg; lia.
Qed.

(* ... so it would accept an unsorted key list, which the test on the signed key rejects *)
Theorem unsigned_key_test_accepts_unsorted_proof :
  exists l : list Z, nondec_wrapped 8 l = true /\ nondec l = false.
Proof. exists [3; 1; 2]. split; reflexivity. Qed.
