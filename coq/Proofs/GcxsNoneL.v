(* Proofs/GcxsNoneL.v — unit axes: inserting an axis of extent 1 (a None of the index) into a GCXS layout changes
   neither the linear position of an element nor the row / column sizes; iterated along reinsert_none. *)
From Coq Require Import ZArith List Bool Lia Sorting.Sorted Sorting.Permutation.
From Verif Require Import Py PySlice Shape COO COOP GCXS Convert ConvertL ConvertG NpIndex CooIndex
     CooIndexNormP CooIndexP GcxsIndex GcxsGetitem GcxsGetitemP GcxsNdL.
Import ListNotations.
Open Scope Z_scope.

Lemma filter_all_true {A} (p : A -> bool) l : (forall a, In a l -> p a = true) -> filter p l = l.
Proof.
  induction l as [|a r IH]; intros H; [reflexivity|]. cbn [filter]. rewrite (H a (or_introl eq_refl)), IH; [reflexivity|].
  intros b Hb. apply H. right. exact Hb.
Qed.

Lemma skipn_app_exact' {A} (l1 l2 : list A) : skipn (length l1) (l1 ++ l2) = l2.
Proof. rewrite skipn_app, Nat.sub_diag, skipn_all. reflexivity. Qed.

Definition sft (i : Z) (a : Z) : Z := if i <=? a then a + 1 else a.

Lemma sft_ne i a : sft i a <> i.
Proof. unfold sft. destruct (Z.leb_spec i a); lia. Qed.

Lemma sft_inj i a b : sft i a = sft i b -> a = b.
Proof. unfold sft. destruct (Z.leb_spec i a), (Z.leb_spec i b); lia. Qed.

Lemma sft_nonneg i a : 0 <= a -> 0 <= sft i a.
Proof. unfold sft. destruct (Z.leb_spec i a); lia. Qed.

Lemma znth_app_unit {A} (pre s : list A) (u d : A) a :
  0 <= a -> znth (pre ++ u :: s) (sft (Z.of_nat (length pre)) a) d = znth (pre ++ s) a d.
Proof.
  intros Ha. unfold znth, sft. destruct (Z.leb_spec (Z.of_nat (length pre)) a) as [H|H].
  - rewrite !app_nth2 by lia. replace (Z.to_nat (a + 1) - length pre)%nat with (S (Z.to_nat a - length pre)) by lia. reflexivity.
  - rewrite !app_nth1 by lia. reflexivity.
Qed.

Lemma znth_app_unit_at {A} (pre s : list A) (u d : A) : znth (pre ++ u :: s) (Z.of_nat (length pre)) d = u.
Proof. unfold znth. rewrite Nat2Z.id, app_nth2, Nat.sub_diag by lia. reflexivity. Qed.

Lemma zrange_skip (i n : nat) : (i <= n)%nat ->
  filter (fun a => negb (a =? Z.of_nat i)) (zrange (Z.of_nat (S n))) = map (sft (Z.of_nat i)) (zrange (Z.of_nat n)).
Proof.
  intros Hi. apply SS_Z_unique.
  - apply SS_filter, zrange_SS.
  - assert (H : forall l, StronglySorted Z.lt l -> StronglySorted Z.lt (map (sft (Z.of_nat i)) l)).
    { induction 1 as [|a l Hs IH Hall]; [constructor|]. cbn [map]. constructor; [exact IH|].
      rewrite Forall_map. eapply Forall_impl; [|exact Hall]. intros b Hb. simpl in Hb. unfold sft.
      destruct (Z.leb_spec (Z.of_nat i) a), (Z.leb_spec (Z.of_nat i) b); lia. }
    apply H, zrange_SS.
  - intros x. rewrite filter_In, zrange_In, in_map_iff. split.
    + intros [Hx Hne]. destruct (Z.eqb_spec x (Z.of_nat i)); [discriminate|].
      destruct (Z.ltb_spec x (Z.of_nat i)).
      * exists x. split; [unfold sft; destruct (Z.leb_spec (Z.of_nat i) x); lia|apply zrange_In; lia].
      * exists (x - 1). split; [unfold sft; destruct (Z.leb_spec (Z.of_nat i) (x - 1)); lia|apply zrange_In; lia].
    + intros [a [<- Ha]]. apply zrange_In in Ha. split.
      * unfold sft. destruct (Z.leb_spec (Z.of_nat i) a); lia.
      * pose proof (sft_ne (Z.of_nat i) a). destruct (Z.eqb_spec (sft (Z.of_nat i) a) (Z.of_nat i)); [contradiction|reflexivity].
Qed.

Lemma mem_sft i a ca : mem_z (sft i a) (map (sft i) ca) = mem_z a ca.
Proof.
  destruct (mem_z a ca) eqn:E.
  - apply mem_z_In. apply in_map. apply mem_z_In. exact E.
  - destruct (mem_z (sft i a) (map (sft i) ca)) eqn:E'; [|reflexivity].
    apply mem_z_In in E'. apply in_map_iff in E'. destruct E' as [b [Eb Hb]]. apply sft_inj in Eb. subst b.
    apply mem_z_In in Hb. congruence.
Qed.

Lemma col_size_rest sh ca :
  col_size sh ca = size (map (fun a => znth sh a 0) (filter (fun a => negb (mem_z a ca)) (zrange (Z.of_nat (length sh))))).
Proof.
  unfold col_size, reordered_shape, axis_order. rewrite map_app.
  rewrite <- (map_length (fun a => znth sh a 0) ca) at 1. rewrite skipn_app_exact'. reflexivity.
Qed.

(* ================================================================ one inserted unit axis *)
Section OneUnit.
  Variables spre s : shape.
  Variable ca : list Z.
  Let i := Z.of_nat (length spre).
  Let sh := spre ++ s.
  Let sh1 := spre ++ 1 :: s.
  Let ca1 := map (sft i) ca.
  Hypothesis Hca : caxes_okb (Z.of_nat (length sh)) ca = true.

  Lemma len_sh1 : length sh1 = S (length sh).
  Proof. unfold sh1, sh. rewrite !app_length. simpl. lia. Qed.

  Lemma rest1_eq : filter (fun a => negb (a =? i)) (filter (fun a => negb (mem_z a ca1)) (zrange (Z.of_nat (length sh1))))
                   = map (sft i) (filter (fun a => negb (mem_z a ca)) (zrange (Z.of_nat (length sh)))).
  Proof.
    rewrite filter_filter_comm, len_sh1. unfold i. rewrite (zrange_skip (length spre) (length sh)) by (unfold sh; rewrite app_length; lia).
    rewrite filter_map_comm. f_equal. apply filter_ext. intros a. unfold ca1. fold i. rewrite mem_sft. reflexivity.
  Qed.

  Lemma ca1_no_i : filter (fun a => negb (a =? i)) ca1 = ca1.
  Proof.
    apply filter_all_true. intros a Ha. unfold ca1 in Ha. apply in_map_iff in Ha. destruct Ha as [b [<- _]].
    pose proof (sft_ne i b). destruct (Z.eqb_spec (sft i b) i); [contradiction|reflexivity].
  Qed.

  Lemma ord1_filter : filter (fun a => negb (a =? i)) (axis_order (Z.of_nat (length sh1)) ca1)
                      = map (sft i) (axis_order (Z.of_nat (length sh)) ca).
  Proof. unfold axis_order. rewrite filter_app, ca1_no_i, rest1_eq, map_app. reflexivity. Qed.

  Lemma ca_nonneg a : In a (axis_order (Z.of_nat (length sh)) ca) -> 0 <= a.
  Proof.
    intros Ha. pose proof (axis_order_perm (length sh) ca Hca) as Hp.
    apply (perm_of_range _ _ a Hp Ha).
  Qed.

  Lemma unit_ckey jpre x jt : length jpre = length spre -> 0 <= x < 1 ->
    ckey sh1 ca1 (jpre ++ x :: jt) = ckey sh ca (jpre ++ jt).
  Proof.
    intros Hl Hx. unfold ckey, reordered_shape, gather.
    set (S1 := fun a => znth sh1 a 0). set (J1 := fun a => znth (jpre ++ x :: jt) a 0).
    change (ravel (map S1 (axis_order (Z.of_nat (length sh1)) ca1)) (map J1 (axis_order (Z.of_nat (length sh1)) ca1)))
      with (rav S1 J1 (axis_order (Z.of_nat (length sh1)) ca1)).
    destruct (rav_filter S1 J1 (fun a => negb (a =? i)) (axis_order (Z.of_nat (length sh1)) ca1)) as [E _].
    { intros a _ Ha. destruct (Z.eqb_spec a i) as [Ea|]; [|discriminate]. rewrite Ea. unfold S1, J1, sh1, i. split.
      - apply znth_app_unit_at.
      - rewrite <- Hl. rewrite znth_app_unit_at. lia. }
    rewrite E, ord1_filter. unfold rav. rewrite !map_map. f_equal; apply map_ext_in; intros a Ha; apply ca_nonneg in Ha.
    - unfold S1, sh1, sh, i. apply znth_app_unit. exact Ha.
    - unfold J1, i. rewrite <- Hl. apply znth_app_unit. exact Ha.
  Qed.

  Lemma unit_row_size : row_size sh1 ca1 = row_size sh ca.
  Proof.
    unfold row_size, ca1. rewrite map_map. f_equal. apply map_ext_in. intros a Ha.
    unfold sh1, sh, i. apply znth_app_unit. apply caxes_okb_spec in Hca. apply Hca. exact Ha.
  Qed.

  Lemma unit_col_size : col_size sh1 ca1 = col_size sh ca.
  Proof.
    rewrite !col_size_rest.
    destruct (rav_filter (fun a => znth sh1 a 0) (fun _ => 0) (fun a => negb (a =? i))
                (filter (fun a => negb (mem_z a ca1)) (zrange (Z.of_nat (length sh1))))) as [_ E].
    { intros a _ Ha. destruct (Z.eqb_spec a i) as [Ea|]; [|discriminate]. rewrite Ea. split; [|reflexivity]. unfold sh1, i. apply znth_app_unit_at. }
    rewrite E, rest1_eq, map_map. f_equal. apply map_ext_in. intros a Ha. apply filter_In in Ha. destruct Ha as [Ha _]. apply zrange_In in Ha.
    unfold sh1, sh, i. apply znth_app_unit. lia.
  Qed.

  Lemma unit_caxes_ok : caxes_okb (Z.of_nat (length sh1)) ca1 = true.
  Proof.
    pose proof (caxes_okb_spec _ _ Hca) as [Hne [Hlt [Hnd Hr]]].
    unfold caxes_okb. rewrite !andb_true_iff. repeat split.
    - unfold ca1. destruct ca; [contradiction|reflexivity].
    - apply Z.ltb_lt. unfold ca1. rewrite map_length, len_sh1. lia.
    - apply NoDupb_NoDup. unfold ca1. apply NoDup_map_in; [|exact Hnd]. intros a b _ _. apply sft_inj.
    - apply forallb_forall. intros a Ha. unfold ca1 in Ha. apply in_map_iff in Ha. destruct Ha as [b [<- Hb]].
      specialize (Hr b Hb). rewrite len_sh1. unfold sft. destruct (Z.leb_spec i b); lia.
  Qed.
End OneUnit.

(* ================================================================ all the Nones of a key *)
Definition is_keep (e : nentry) : bool := match e with NSlice _ _ _ | NArr _ => true | _ => false end.
Definition kcnt (key : list nentry) : nat := length (filter is_keep key).

(* no integer stands before a None (otherwise the code inserts the new axis at the wrong place: D28) *)
Fixpoint none_ok (key : list nentry) : bool :=
  match key with
  | [] => true
  | NInt _ :: r => forallb not_nnone r
  | _ :: r => none_ok r
  end.

(* shape with the unit axes woven in / result index without, and with, the coordinates of the unit axes *)
Fixpoint weave (key : list nentry) (s : shape) : shape :=
  match key with
  | [] => s
  | NNone :: r => 1 :: weave r s
  | NInt _ :: r => weave r s
  | _ :: r => hd 0 s :: weave r (tl s)
  end.

Fixpoint sqk (key : list nentry) (j : idx) : idx :=
  match key with
  | [] => j
  | NNone :: r => sqk r (tl j)
  | NInt _ :: r => sqk r j
  | _ :: r => hd 0 j :: sqk r (tl j)
  end.

Fixpoint unsqk (key : list nentry) (j0 : idx) : idx :=
  match key with
  | [] => j0
  | NNone :: r => 0 :: unsqk r j0
  | NInt _ :: r => unsqk r j0
  | _ :: r => hd 0 j0 :: unsqk r (tl j0)
  end.

Lemma reinsert_none_id' : forall key i sh ca, forallb not_nnone key = true -> reinsert_none key i sh ca = (sh, ca).
Proof.
  induction key as [|e r IH]; intros i sh ca H; [reflexivity|].
  simpl in H. apply andb_true_iff in H. destruct H as [He H]. destruct e; try discriminate; cbn [reinsert_none]; apply IH; exact H.
Qed.

Lemma weave_id : forall key s, forallb not_nnone key = true -> (kcnt key <= length s)%nat -> weave key s = s.
Proof.
  induction key as [|e r IH]; intros s H Hk; [reflexivity|].
  simpl in H. apply andb_true_iff in H. destruct H as [He H]. unfold kcnt in *.
  destruct e; try discriminate; cbn [weave filter is_keep length] in *; try (apply IH; assumption);
    (destruct s as [|d s']; [simpl in Hk; lia|]; cbn [hd tl]; f_equal; apply IH; [exact H|simpl in Hk; lia]).
Qed.

Lemma sqk_id : forall key j, forallb not_nnone key = true -> (kcnt key <= length j)%nat -> sqk key j = j.
Proof.
  induction key as [|e r IH]; intros j H Hk; [reflexivity|].
  simpl in H. apply andb_true_iff in H. destruct H as [He H]. unfold kcnt in *.
  destruct e; try discriminate; cbn [sqk filter is_keep length] in *; try (apply IH; assumption);
    (destruct j as [|d j']; [simpl in Hk; lia|]; cbn [hd tl]; f_equal; apply IH; [exact H|simpl in Hk; lia]).
Qed.

Lemma insert_nth_app {A} (pre s : list A) x : insert_nth (length pre) x (pre ++ s) = pre ++ x :: s.
Proof. induction pre as [|a r IH]; [destruct s; reflexivity|]. cbn [length app insert_nth]. rewrite IH. reflexivity. Qed.

Lemma weave_length : forall key s, (kcnt key <= length s)%nat -> (length s <= length (weave key s))%nat.
Proof.
  induction key as [|e r IH]; intros s Hk; [simpl; lia|]. unfold kcnt in *.
  destruct e; cbn [weave filter is_keep length] in *.
  - apply IH. exact Hk.
  - destruct s as [|d s']; [simpl in Hk; lia|]. cbn [hd tl length]. specialize (IH s'). simpl in Hk. lia.
  - specialize (IH s Hk). lia.
  - destruct s as [|d s']; [simpl in Hk; lia|]. cbn [hd tl length]. specialize (IH s'). simpl in Hk. lia.
Qed.

Lemma sqk_in_range : forall key s j, in_range (weave key s) j -> in_range s (sqk key j).
Proof.
  induction key as [|e r IH]; intros s j Hj; [exact Hj|].
  destruct e; cbn [weave sqk] in *.
  - apply IH. exact Hj.
  - destruct j as [|x j']; [destruct Hj|]. destruct Hj as [Hx Hj]. destruct s as [|d s']; [simpl in Hx; lia|]. cbn [hd tl] in *. split; [exact Hx|apply IH; exact Hj].
  - destruct j as [|x j']; [destruct Hj|]. destruct Hj as [_ Hj]. cbn [tl]. apply IH. exact Hj.
  - destruct j as [|x j']; [destruct Hj|]. destruct Hj as [Hx Hj]. destruct s as [|d s']; [simpl in Hx; lia|]. cbn [hd tl] in *. split; [exact Hx|apply IH; exact Hj].
Qed.

Lemma unsqk_spec : forall key s j0, (kcnt key <= length s)%nat -> in_range s j0 ->
  in_range (weave key s) (unsqk key j0) /\ sqk key (unsqk key j0) = j0.
Proof.
  induction key as [|e r IH]; intros s j0 Hk Hj; [split; [exact Hj|reflexivity]|]. unfold kcnt in *.
  destruct e; cbn [weave sqk unsqk filter is_keep length] in *.
  - apply IH; assumption.
  - destruct s as [|d s']; [simpl in Hk; lia|]. destruct j0 as [|x j']; [destruct Hj|]. destruct Hj as [Hx Hj].
    cbn [hd tl]. destruct (IH s' j' ltac:(simpl in Hk; lia) Hj) as [H1 H2]. split; [split; assumption|rewrite H2; reflexivity].
  - destruct (IH s j0 Hk Hj) as [H1 H2]. split; [split; [lia|exact H1]|exact H2].
  - destruct s as [|d s']; [simpl in Hk; lia|]. destruct j0 as [|x j']; [destruct Hj|]. destruct Hj as [Hx Hj].
    cbn [hd tl]. destruct (IH s' j' ltac:(simpl in Hk; lia) Hj) as [H1 H2]. split; [split; assumption|rewrite H2; reflexivity].
Qed.

Lemma reinsert_spec : forall key spre s ca,
  none_ok key = true -> (kcnt key <= length s)%nat -> caxes_okb (Z.of_nat (length (spre ++ s))) ca = true ->
  let r := reinsert_none key (length spre) (spre ++ s) ca in
  fst r = spre ++ weave key s
  /\ caxes_okb (Z.of_nat (length (fst r))) (snd r) = true
  /\ row_size (fst r) (snd r) = row_size (spre ++ s) ca /\ col_size (fst r) (snd r) = col_size (spre ++ s) ca
  /\ forall jpre jr, length jpre = length spre -> in_range (weave key s) jr ->
       ckey (fst r) (snd r) (jpre ++ jr) = ckey (spre ++ s) ca (jpre ++ sqk key jr).
Proof.
  induction key as [|e r IH]; intros spre s ca Hno Hk Hca.
  - cbn [reinsert_none fst snd weave sqk]. repeat split; auto.
  - assert (Hkeep : forall e', is_keep e' = true -> e = e' -> none_ok r = true -> (kcnt (e' :: r) <= length s)%nat ->
              let r0 := reinsert_none r (S (length spre)) (spre ++ s) ca in
              fst r0 = spre ++ hd 0 s :: weave r (tl s)
              /\ caxes_okb (Z.of_nat (length (fst r0))) (snd r0) = true
              /\ row_size (fst r0) (snd r0) = row_size (spre ++ s) ca /\ col_size (fst r0) (snd r0) = col_size (spre ++ s) ca
              /\ forall jpre jr, length jpre = length spre -> in_range (hd 0 s :: weave r (tl s)) jr ->
                   ckey (fst r0) (snd r0) (jpre ++ jr) = ckey (spre ++ s) ca (jpre ++ hd 0 jr :: sqk r (tl jr))).
    { intros e' Hke _ Hno' Hk'. unfold kcnt in Hk'. cbn [filter] in Hk'. rewrite Hke in Hk'. cbn [length] in Hk'.
      destruct s as [|d s']; [simpl in Hk'; lia|]. cbn [hd tl].
      assert (Es : spre ++ d :: s' = (spre ++ [d]) ++ s') by (rewrite <- app_assoc; reflexivity).
      assert (El : S (length spre) = length (spre ++ [d])) by (rewrite app_length; simpl; lia).
      rewrite Es, El. rewrite Es in Hca.
      destruct (IH (spre ++ [d]) s' ca Hno' ltac:(unfold kcnt; simpl in Hk'; lia) Hca) as [H1 [H2 [H3 [H4 H5]]]].
      split; [rewrite H1, <- app_assoc; reflexivity|]. split; [exact H2|]. split; [exact H3|]. split; [exact H4|].
      intros jpre jr Hl Hj. destruct jr as [|x jr']; [destruct Hj|]. destruct Hj as [Hx Hj]. cbn [hd tl].
      replace (jpre ++ x :: jr') with ((jpre ++ [x]) ++ jr') by (rewrite <- app_assoc; reflexivity).
      rewrite (H5 (jpre ++ [x]) jr') by (rewrite ?app_length; simpl; try lia; exact Hj).
      rewrite <- !app_assoc. reflexivity. }
    destruct e as [i0|s0 e0 st0| |l0].
    + (* an integer: no None follows *)
      cbn [none_ok] in Hno. cbn [reinsert_none].
      assert (Hk' : (kcnt r <= length s)%nat) by (unfold kcnt in *; cbn [filter is_keep] in Hk; exact Hk).
      rewrite (reinsert_none_id' r _ _ _ Hno). cbn [fst snd weave sqk]. rewrite (weave_id r s Hno Hk').
      repeat split; auto. intros jpre jr Hl Hj. rewrite (sqk_id r jr Hno); [reflexivity|].
      rewrite (in_range_length _ _ Hj). exact Hk'.
    + cbn [reinsert_none weave sqk]. apply (Hkeep (NSlice s0 e0 st0) eq_refl eq_refl Hno Hk).
    + (* None *)
      cbn [none_ok] in Hno. cbn [reinsert_none weave sqk].
      rewrite insert_nth_app.
      assert (Es : spre ++ 1 :: s = (spre ++ [1]) ++ s) by (rewrite <- app_assoc; reflexivity).
      assert (El : S (length spre) = length (spre ++ [1])) by (rewrite app_length; simpl; lia).
      change (map (fun a : Z => if Z.of_nat (length spre) <=? a then a + 1 else a) ca) with (map (sft (Z.of_nat (length spre))) ca).
      pose proof (unit_caxes_ok spre s ca Hca) as Hca1.
      rewrite Es, El. rewrite Es in Hca1.
      destruct (IH (spre ++ [1]) s _ Hno ltac:(unfold kcnt in *; cbn [filter is_keep] in Hk; exact Hk) Hca1) as [H1 [H2 [H3 [H4 H5]]]].
      split; [rewrite H1, <- app_assoc; reflexivity|]. split; [exact H2|].
      split; [rewrite H3, <- Es; apply unit_row_size; exact Hca|]. split; [rewrite H4, <- Es; apply unit_col_size; exact Hca|].
      intros jpre jr Hl Hj. destruct jr as [|x jr']; [destruct Hj|]. destruct Hj as [Hx Hj]. cbn [tl].
      replace (jpre ++ x :: jr') with ((jpre ++ [x]) ++ jr') by (rewrite <- app_assoc; reflexivity).
      rewrite (H5 (jpre ++ [x]) jr') by (rewrite ?app_length; simpl; try lia; exact Hj).
      rewrite <- Es, <- !app_assoc. cbn [app]. apply unit_ckey; [exact Hca|exact Hl|exact Hx].
    + cbn [reinsert_none weave sqk]. apply (Hkeep (NArr l0) eq_refl eq_refl Hno Hk).
Qed.

(* ================================================================ NumPy's side: shape and source index with / without None *)
Lemma n_arr_cons_not e r : is_narr e = false -> n_arr (e :: r) = n_arr r.
Proof. intros H. unfold n_arr. cbn [filter]. rewrite H. reflexivity. Qed.

Lemma out_shape_weave : forall key seen, (seen = true -> n_arr key = 0%nat) -> (n_arr key <= 1)%nat ->
  out_shape_aux seen (map to_r key) = weave key (out_shape_aux seen (map to_r (filter not_nnone key))).
Proof.
  induction key as [|e r IH]; intros seen Hs H1; [reflexivity|].
  destruct e as [i|s e st| |l].
  - cbn [map to_r filter not_nnone is_nnone negb out_shape_aux weave]. apply IH; rewrite n_arr_cons_not in * by reflexivity; assumption.
  - cbn [map to_r filter not_nnone is_nnone negb out_shape_aux weave hd tl]. f_equal. apply IH; rewrite n_arr_cons_not in * by reflexivity; assumption.
  - cbn [map to_r filter not_nnone is_nnone negb out_shape_aux weave]. f_equal. apply IH; rewrite n_arr_cons_not in * by reflexivity; assumption.
  - assert (Hr : n_arr r = 0%nat) by (unfold n_arr in *; cbn [filter is_narr length] in H1; lia).
    destruct seen; [specialize (Hs eq_refl); unfold n_arr in Hs; cbn [filter is_narr length] in Hs; lia|].
    cbn [map to_r filter not_nnone is_nnone negb out_shape_aux weave hd tl]. f_equal. apply IH; [intros _; exact Hr|lia].
Qed.

Lemma src_sqk : forall key ao j, (ao <> None -> n_arr key = 0%nat) -> (n_arr key <= 1)%nat ->
  src_aux ao (map to_r key) j = src_aux ao (map to_r (filter not_nnone key)) (sqk key j).
Proof.
  induction key as [|e r IH]; intros ao j Hs H1; [destruct j; reflexivity|].
  destruct e as [i|s e st| |l].
  - cbn [map to_r filter not_nnone is_nnone negb src_aux sqk]. f_equal. apply IH; rewrite n_arr_cons_not in * by reflexivity; assumption.
  - cbn [map to_r filter not_nnone is_nnone negb src_aux sqk hd tl]. f_equal. apply IH; rewrite n_arr_cons_not in * by reflexivity; assumption.
  - cbn [map to_r filter not_nnone is_nnone negb src_aux sqk]. apply IH; rewrite n_arr_cons_not in * by reflexivity; assumption.
  - assert (Hr : n_arr r = 0%nat) by (unfold n_arr in *; cbn [filter is_narr length] in H1; lia).
    destruct ao as [q|]; [specialize (Hs ltac:(discriminate)); unfold n_arr in Hs; cbn [filter is_narr length] in Hs; lia|].
    cbn [map to_r filter not_nnone is_nnone negb src_aux sqk hd tl]. f_equal. apply IH; [intros _; exact Hr|lia].
Qed.

Lemma kcnt_filter key : kcnt key = length (filter (fun e => negb (is_nint e)) (filter not_nnone key)).
Proof.
  unfold kcnt. induction key as [|e r IH]; [reflexivity|]. destruct e; cbn [filter is_keep not_nnone is_nnone negb is_nint length]; rewrite ?IH; reflexivity.
Qed.
