(* Proofs/SlicingP.v — the generated slice normalisation denotes CPython's slice. *)
From Coq Require Import ZArith List Bool Lia ZifyBool.
From Verif Require Import Py PyExt G_slicing PySlice Slicing.
Import ListNotations.
Open Scope Z_scope.

Lemma range_list_empty s e st :
  (0 < st -> e <= s) -> (st < 0 -> s <= e) -> st <> 0 -> range_list s e st = [].
Proof.
  intros Hp Hn Hz. unfold range_list, range_len.
  destruct (Z.ltb_spec 0 st) as [H0|H0].
  - destruct (Z.ltb_spec s e); [lia|reflexivity].
  - destruct (Z.ltb_spec e s); [lia|reflexivity].
Qed.

Definition range_equiv (s e s' e' st : Z) : Prop :=
  (s = s' /\ e = e') \/
  ((0 < st -> e <= s /\ e' <= s') /\ (st < 0 -> s <= e /\ s' <= e')).

Lemma range_list_equiv s e s' e' st :
  st <> 0 -> range_equiv s e s' e' st -> range_list s e st = range_list s' e' st.
Proof.
  intros Hz [[-> ->]|[Hp Hn]]; [reflexivity|].
  rewrite !range_list_empty; auto; intros; try (apply Hp; assumption); try (apply Hn; assumption).
Qed.

(* split the first boolean Z-comparison that guards an [if], discarding dead branches *)
Ltac split_one :=
  match goal with
  | |- context [if ?a >? ?b then _ else _] => rewrite (Z.gtb_ltb a b)
  | |- context [if ?a >=? ?b then _ else _] => rewrite (Z.geb_leb a b)
  | |- context [if negb _ then _ else _] => rewrite if_negb
  | |- context [if ?a <? ?b then _ else _] => destruct (Z.ltb_spec a b); try lia
  | |- context [if ?a <=? ?b then _ else _] => destruct (Z.leb_spec a b); try lia
  | |- context [if ?a =? ?b then _ else _] => destruct (Z.eqb_spec a b); try lia
  end.

Theorem slice_norm_correct_proof :
  forall (a b c : option Z) (dim : Z),
    0 <= dim -> c <> Some 0 ->
    selects (normalize_slice (VSlice (oz a) (oz b) (oz c)) dim) = slice_selects a b c dim.
Proof.
  intros a b c dim Hd Hc.
  unfold slice_selects, slice_indices, adjust.
  unfold normalize_slice, g_replace_none, g_posify_index, g_clip_slice.
  destruct c as [st|]; [assert (st <> 0) by congruence|];
  destruct a as [s|]; destruct b as [e|];
  repeat (cbn; split_one); cbn;
  try reflexivity;
  repeat match goal with
  | Hx : context [if ?a <? ?b then _ else _] |- _ => destruct (Z.ltb_spec a b); try lia
  end;
  (apply f_equal; apply range_list_equiv; [lia|unfold range_equiv; lia]).
Qed.

(* non-vacuity: the hypotheses of the partial theorem are met by a non-trivial slice *)
Example slice_norm_nonvacuous :
  0 <= 10 /\ Some (-2) <> Some 0 /\
  selects (normalize_slice (VSlice (VInt (-2)) (VInt (-8)) (VInt (-2))) 10) = Some [8; 6; 4] /\
  (* the former defect D1 (fixed by f6512bb): x[5:-1:-1] on length 10 selects nothing *)
  selects (normalize_slice (VSlice (VInt 5) (VInt (-1)) (VInt (-1))) 10) = Some [].
Proof. repeat split; try lia; try congruence. Qed.
