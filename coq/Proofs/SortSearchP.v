(* Proofs/SortSearchP.v — lemmas about Model/SortSearch.v against Spec/NpSort.v.
   Order: NumPy list primitives; dense meaning of a canonical COO as a merge (`expand`);
   nonzero; unique_values / unique_counts; _sort_coo; _compute_minmax_args. *)
From Coq Require Import ZArith List Bool Lia Sorting.Sorted Sorting.Permutation.
From Verif Require Import Py Shape COO COOP NpSort SortSearch.
Import ListNotations.
Open Scope Z_scope.

(* ================================================================== np.sort *)

Lemma insert_perm x l : Permutation (x :: l) (insert x l).
Proof.
  induction l as [|y r IH]; cbn; [reflexivity|].
  destruct (x <=? y); [reflexivity|].
  etransitivity; [apply perm_swap|]. apply perm_skip, IH.
Qed.

Lemma np_sort_perm l : Permutation l (np_sort l).
Proof.
  induction l as [|x l IH]; cbn; [constructor|].
  etransitivity; [apply perm_skip, IH|]. apply insert_perm.
Qed.

Lemma insert_In x y l : In y (insert x l) <-> y = x \/ In y l.
Proof.
  split; intros H.
  - apply (Permutation_in _ (Permutation_sym (insert_perm x l))) in H. destruct H; auto.
  - apply (Permutation_in _ (insert_perm x l)). destruct H; [left|right]; auto.
Qed.

Lemma insert_sorted x l : StronglySorted Z.le l -> StronglySorted Z.le (insert x l).
Proof.
  induction 1 as [|y r Hs IH Hall]; cbn.
  - constructor; constructor.
  - destruct (Z.leb_spec x y).
    + constructor; [constructor; assumption|]. constructor; [assumption|].
      eapply Forall_impl; [|exact Hall]. intros; cbn in *; lia.
    + constructor; [assumption|]. apply Forall_forall. intros z Hz.
      apply insert_In in Hz. destruct Hz as [->|Hz]; [lia|].
      rewrite Forall_forall in Hall. auto.
Qed.

Lemma np_sort_sorted l : StronglySorted Z.le (np_sort l).
Proof. induction l; cbn; [constructor|apply insert_sorted; assumption]. Qed.

Lemma sorted_perm_unique l1 l2 :
  StronglySorted Z.le l1 -> StronglySorted Z.le l2 -> Permutation l1 l2 -> l1 = l2.
Proof.
  intros H1. revert l2. induction H1 as [|a r1 Hs1 IH Ha]; intros l2 H2 Hp.
  - apply Permutation_nil in Hp. auto.
  - destruct H2 as [|b r2 Hs2 Hb].
    + apply Permutation_sym, Permutation_nil in Hp. discriminate.
    + rewrite Forall_forall in Ha, Hb.
      assert (a = b).
      { assert (In a (b :: r2)) as Hab by (eapply Permutation_in; [exact Hp|left; reflexivity]).
        assert (In b (a :: r1)) as Hba by (eapply Permutation_in; [apply Permutation_sym; exact Hp|left; reflexivity]).
        destruct Hab as [->|Hab]; [reflexivity|]. destruct Hba as [->|Hba]; [reflexivity|].
        apply Hb in Hab. apply Ha in Hba. lia. }
      subst b. f_equal. apply IH; [assumption|]. eapply Permutation_cons_inv; exact Hp.
Qed.

Lemma np_sort_of_sorted l : StronglySorted Z.le l -> np_sort l = l.
Proof.
  intros H. apply sorted_perm_unique; [apply np_sort_sorted|assumption|].
  apply Permutation_sym, np_sort_perm.
Qed.

Lemma np_sort_perm_eq l l' : Permutation l l' -> np_sort l = np_sort l'.
Proof.
  intros H. apply sorted_perm_unique; try apply np_sort_sorted.
  etransitivity; [apply Permutation_sym, np_sort_perm|]. etransitivity; [exact H|apply np_sort_perm].
Qed.

Lemma SS_rev {A} (R : A -> A -> Prop) l :
  StronglySorted R l -> StronglySorted (fun a b => R b a) (rev l).
Proof.
  induction 1 as [|a l Hs IH Hall]; cbn; [constructor|].
  apply SS_app; [assumption|constructor; constructor|].
  intros x y Hx [<-|[]]. apply in_rev in Hx. rewrite Forall_forall in Hall. auto.
Qed.

Lemma np_sort_dir_sorted desc l : StronglySorted (ord_le desc) (np_sort_dir desc l).
Proof.
  unfold np_sort_dir, ord_le. destruct desc.
  - apply (SS_rev Z.le), np_sort_sorted.
  - apply np_sort_sorted.
Qed.

Lemma np_sort_dir_perm desc l : Permutation l (np_sort_dir desc l).
Proof.
  unfold np_sort_dir. destruct desc; [|apply np_sort_perm].
  etransitivity; [apply np_sort_perm|apply Permutation_rev].
Qed.

(* the executable np_sort_dir satisfies the declarative reading *)
Lemma np_sort_dir_is_sort desc l : is_sort_of desc l (np_sort_dir desc l).
Proof.
  split; [apply StronglySorted_Sorted, np_sort_dir_sorted|apply np_sort_dir_perm].
Qed.

(* ================================================================== np.unique *)

Lemma dedup_In v l : In v (dedup l) <-> In v l.
Proof.
  induction l as [|x r IH]; [reflexivity|].
  destruct r as [|y r'].
  - cbn. tauto.
  - change (dedup (x :: y :: r')) with (if x =? y then dedup (y :: r') else x :: dedup (y :: r')).
    destruct (Z.eqb_spec x y) as [->|Hne].
    + rewrite IH. cbn. tauto.
    + cbn [In]. rewrite IH. cbn [In]. tauto.
Qed.

Lemma dedup_strict l : StronglySorted Z.le l -> StronglySorted Z.lt (dedup l).
Proof.
  induction 1 as [|x r Hs IH Hall]; [constructor|].
  destruct r as [|y r'].
  - cbn. constructor; constructor.
  - change (dedup (x :: y :: r')) with (if x =? y then dedup (y :: r') else x :: dedup (y :: r')).
    destruct (Z.eqb_spec x y) as [->|Hne]; [assumption|].
    constructor; [assumption|]. apply Forall_forall. intros z Hz. apply (proj1 (dedup_In _ _)) in Hz.
    rewrite Forall_forall in Hall. pose proof (Hall z Hz) as Hle.
    assert (x <= y) by (apply Hall; left; reflexivity).
    inversion Hs as [|? ? Hs' Hall']; subst. rewrite Forall_forall in Hall'.
    destruct Hz as [<-|Hz]; [lia|]. specialize (Hall' z Hz). lia.
Qed.

(* np.unique: ascending, no repeats, same set of values *)
Lemma np_unique_strict l : StronglySorted Z.lt (np_unique l).
Proof. apply dedup_strict, np_sort_sorted. Qed.

Lemma np_unique_In v l : In v (np_unique l) <-> In v l.
Proof.
  unfold np_unique. rewrite dedup_In. split; intros H.
  - eapply Permutation_in; [apply Permutation_sym, np_sort_perm|exact H].
  - eapply Permutation_in; [apply np_sort_perm|exact H].
Qed.

Lemma np_unique_meaning_proof (l : list Z) :
  StronglySorted Z.lt (np_unique l) /\ (forall v, In v (np_unique l) <-> In v l).
Proof. split; [apply np_unique_strict|intros v; apply np_unique_In]. Qed.

Lemma np_unique_perm_eq l l' : Permutation l l' -> np_unique l = np_unique l'.
Proof. intros H. unfold np_unique. rewrite (np_sort_perm_eq _ _ H). reflexivity. Qed.

(* a strictly increasing list of integers is determined by its members *)
Lemma SSlt_same_members (l1 l2 : list Z) :
  StronglySorted Z.lt l1 -> StronglySorted Z.lt l2 -> (forall x, In x l1 <-> In x l2) -> l1 = l2.
Proof.
  intros H1. revert l2. induction H1 as [|a l1 Hs1 IH Hall1]; intros l2 H2 Hm.
  - destruct l2 as [|b l2]; [reflexivity|]. exfalso. apply (Hm b). left; reflexivity.
  - destruct H2 as [|b l2 Hs2 Hall2]; [exfalso; apply (Hm a); left; reflexivity|].
    rewrite Forall_forall in Hall1, Hall2.
    assert (a = b).
    { destruct (proj1 (Hm a) (or_introl eq_refl)) as [->|Ha]; [reflexivity|].
      destruct (proj2 (Hm b) (or_introl eq_refl)) as [->|Hb]; [reflexivity|].
      apply Hall1 in Hb. apply Hall2 in Ha. lia. }
    subst b. f_equal. apply IH; [assumption|].
    intros x. split; intros Hx.
    + destruct (proj1 (Hm x) (or_intror Hx)) as [->|?]; [|assumption]. apply Hall1 in Hx. lia.
    + destruct (proj2 (Hm x) (or_intror Hx)) as [->|?]; [|assumption]. apply Hall2 in Hx. lia.
Qed.

Lemma SSlt_SSle l : StronglySorted Z.lt l -> StronglySorted Z.le l.
Proof.
  induction 1 as [|a l Hs IH Hall]; constructor; [assumption|].
  eapply Forall_impl; [|exact Hall]. intros; cbn in *; lia.
Qed.

Lemma countz_perm v l l' : Permutation l l' -> countz v l = countz v l'.
Proof.
  intros H. unfold countz. f_equal. apply Permutation_length.
  induction H; cbn.
  - constructor.
  - destruct (v =? x); [apply perm_skip|]; assumption.
  - destruct (v =? x), (v =? y); try apply perm_swap; reflexivity.
  - etransitivity; eassumption.
Qed.

Lemma np_unique_counts_perm_eq l l' : Permutation l l' -> np_unique_counts l = np_unique_counts l'.
Proof.
  intros H. unfold np_unique_counts. rewrite (np_unique_perm_eq _ _ H). f_equal.
  apply map_ext. intros v. apply countz_perm. assumption.
Qed.

Lemma countz_app v l1 l2 : countz v (l1 ++ l2) = countz v l1 + countz v l2.
Proof. unfold countz. rewrite filter_app, app_length. lia. Qed.

Lemma countz_repeat_same v n : countz v (repeat v n) = Z.of_nat n.
Proof.
  unfold countz. induction n; cbn; [reflexivity|]. rewrite Z.eqb_refl. cbn [length]. lia.
Qed.

Lemma countz_repeat_other v w n : v <> w -> countz v (repeat w n) = 0.
Proof.
  intros Hne. unfold countz. induction n; cbn; [reflexivity|].
  destruct (Z.eqb_spec v w); [contradiction|assumption].
Qed.

Lemma countz_notin v l : ~ In v l -> countz v l = 0.
Proof.
  intros H. unfold countz. induction l as [|x l IH]; cbn; [reflexivity|].
  destruct (Z.eqb_spec v x) as [->|_]; [exfalso; apply H; left; reflexivity|].
  apply IH. intros Hin. apply H. right. assumption.
Qed.

(* ================================================================== dense meaning as a merge *)

Section Expand.
  Variables (K V : Type) (keqb : K -> K -> bool) (klt : K -> K -> Prop) (fill : V).
  Hypothesis keqb_eq : forall a b, keqb a b = true <-> a = b.
  Hypothesis klt_irrefl : forall a, ~ klt a a.
  Hypothesis klt_trans : forall a b c, klt a b -> klt b c -> klt a c.

  (* walk the positions ks (strictly increasing) and the stored entries ps (strictly increasing
     keys, all among ks) together: a stored value where the keys meet, the fill elsewhere *)
  Fixpoint expand (ks : list K) (ps : list (K * V)) : list V :=
    match ks with
    | [] => []
    | k :: ks' =>
      match ps with
      | (s, v) :: ps' => if keqb s k then v :: expand ks' ps' else fill :: expand ks' ps
      | [] => fill :: expand ks' []
      end
    end.

  Lemma keqb_refl a : keqb a a = true.
  Proof. apply keqb_eq. reflexivity. Qed.

  Lemma key_not_head k ks s (ps' : list (K * V)) :
    StronglySorted klt (k :: ks) -> StronglySorted klt (s :: map fst ps') ->
    incl (s :: map fst ps') (k :: ks) -> s <> k ->
    ~ In k (s :: map fst ps') /\ incl (s :: map fst ps') ks.
  Proof.
    intros Hk Hp Hincl Hne.
    inversion Hk as [|? ? Hk' Hka]; subst. inversion Hp as [|? ? Hp' Hpa]; subst.
    rewrite Forall_forall in Hka, Hpa.
    assert (Hs : In s ks).
    { destruct (Hincl s (or_introl eq_refl)) as [<-|?]; [contradiction|assumption]. }
    assert (Hlt : forall t, In t (s :: map fst ps') -> klt k t).
    { intros t [<-|Ht]; [apply Hka; assumption|]. eapply klt_trans; [apply Hka; exact Hs|apply Hpa; exact Ht]. }
    split.
    - intros Hin. apply (klt_irrefl k). apply Hlt. assumption.
    - intros t Ht. destruct (Hincl t Ht) as [<-|?]; [|assumption].
      exfalso. apply (klt_irrefl k). apply Hlt. assumption.
  Qed.

  Lemma map_expand (f : K -> V) ks ps :
    StronglySorted klt ks -> StronglySorted klt (map fst ps) -> incl (map fst ps) ks ->
    (forall s v, In (s, v) ps -> f s = v) ->
    (forall k, In k ks -> ~ In k (map fst ps) -> f k = fill) ->
    map f ks = expand ks ps.
  Proof.
    revert ps. induction ks as [|k ks IH]; intros ps Hk Hp Hincl Hst Hun; [reflexivity|].
    pose proof Hk as Hk0. inversion Hk as [|? ? Hk' Hka]; subst.
    cbn [map expand]. destruct ps as [|[s v] ps'].
    - f_equal; [apply Hun; [left; reflexivity|intros []]|].
      apply IH.
      + assumption.
      + constructor.
      + intros ? [].
      + intros ? ? [].
      + intros k' Hk1 _. apply Hun; [right; assumption|intros []].
    - cbn [map fst] in *. destruct (keqb s k) eqn:E.
      + apply keqb_eq in E. subst s. f_equal; [apply Hst; left; reflexivity|].
        inversion Hp as [|? ? Hp' Hpa]; subst. rewrite Forall_forall in Hka, Hpa.
        assert (Hnk : forall t, In t (map fst ps') -> t <> k).
        { intros t Ht ->. apply (klt_irrefl k). apply Hpa. assumption. }
        apply IH.
        * assumption.
        * assumption.
        * intros t Ht. destruct (Hincl t (or_intror Ht)) as [<-|?]; [exfalso; eapply Hnk; eauto|assumption].
        * intros s' v' Hin. apply Hst. right. assumption.
        * intros k' Hk1 Hnot. apply Hun; [right; assumption|].
          intros [<-|Hin]; [|contradiction]. apply (klt_irrefl k). apply Hka. assumption.
      + assert (Hne : s <> k) by (intros ->; rewrite keqb_refl in E; discriminate).
        destruct (key_not_head k ks s ps' Hk0 Hp Hincl Hne) as [Hnot Hincl'].
        f_equal; [apply Hun; [left; reflexivity|exact Hnot]|].
        apply (IH ((s, v) :: ps')); try assumption.
        intros k' Hk1 Hn. apply Hun; [right; assumption|exact Hn].
  Qed.

  Lemma expand_perm ks ps :
    StronglySorted klt ks -> StronglySorted klt (map fst ps) -> incl (map fst ps) ks ->
    (length ps <= length ks)%nat /\
    Permutation (expand ks ps) (map snd ps ++ repeat fill (length ks - length ps)).
  Proof.
    revert ps. induction ks as [|k ks IH]; intros ps Hk Hp Hincl.
    - destruct ps as [|[s v] ps']; [cbn; split; [lia|constructor]|].
      exfalso. apply (Hincl s). left; reflexivity.
    - pose proof Hk as Hk0. inversion Hk as [|? ? Hk' Hka]; subst.
      cbn [expand]. destruct ps as [|[s v] ps'].
      + destruct (IH [] Hk') as [_ IHp]; [constructor|intros ? []|].
        cbn in *. split; [lia|]. rewrite Nat.sub_0_r in IHp. apply perm_skip. exact IHp.
      + cbn [map fst] in *. destruct (keqb s k) eqn:E.
        * apply keqb_eq in E. subst s.
          inversion Hp as [|? ? Hp' Hpa]; subst. rewrite Forall_forall in Hpa.
          destruct (IH ps' Hk' Hp') as [IHl IHp].
          { intros t Ht. destruct (Hincl t (or_intror Ht)) as [<-|?]; [|assumption].
            exfalso. apply (klt_irrefl k). apply Hpa. assumption. }
          cbn [length map snd app]. split; [lia|]. apply perm_skip. exact IHp.
        * assert (Hne : s <> k) by (intros ->; rewrite keqb_refl in E; discriminate).
          destruct (key_not_head k ks s ps' Hk0 Hp Hincl Hne) as [Hnot Hincl'].
          destruct (IH ((s, v) :: ps') Hk' Hp Hincl') as [IHl IHp].
          split; [cbn [length] in *; lia|].
          etransitivity; [apply perm_skip; exact IHp|].
          replace (length (k :: ks) - length ((s, v) :: ps'))%nat
            with (S (length ks - length ((s, v) :: ps')))%nat by (cbn [length] in *; lia).
          cbn [repeat]. apply Permutation_middle.
  Qed.
End Expand.

Arguments expand {K V} keqb fill ks ps.

(* ------------------------------------------------------------------ the flat dense data of a canonical COO *)

Lemma combine_map_snd {A B} (l1 : list A) (l2 : list B) :
  length l1 = length l2 -> map snd (combine l1 l2) = l2.
Proof. revert l2; induction l1; intros [|b l2]; cbn; try discriminate; auto. intros H. f_equal. apply IHl1. lia. Qed.

Lemma canonical_incl (c : coo Z) : canonical Z c -> incl (c_coords c) (all_indices (c_shape c)).
Proof.
  intros [Hr _] ix Hin. apply all_indices_In. rewrite Forall_forall in Hr. auto.
Qed.

Lemma flat_expand (c : coo Z) :
  canonical Z c ->
  d_flat (todense c) = expand idx_eqb (c_fill c) (all_indices (c_shape c)) (entries c).
Proof.
  intros Hc. pose proof Hc as [Hr [Hs Hl]]. cbn. unfold tabulate.
  assert (Hk : map fst (entries c) = c_coords c) by (unfold entries; apply combine_map_fst; lia).
  apply (map_expand idx Z idx_eqb lex_lt (c_fill c) idx_eqb_eq lex_lt_irrefl lex_lt_trans).
  - apply all_indices_SS.
  - rewrite Hk. assumption.
  - rewrite Hk. apply canonical_incl. assumption.
  - intros s v Hin. apply den_stored; assumption.
  - intros k _ Hn. apply den_unstored. rewrite <- Hk. assumption.
Qed.

Lemma flat_perm (c : coo Z) :
  canonical Z c ->
  (length (c_coords c) <= length (all_indices (c_shape c)))%nat /\
  Permutation (d_flat (todense c))
              (c_data c ++ repeat (c_fill c) (length (all_indices (c_shape c)) - length (c_coords c))).
Proof.
  intros Hc. pose proof Hc as [Hr [Hs Hl]]. rewrite (flat_expand c Hc).
  assert (Hk : map fst (entries c) = c_coords c) by (unfold entries; apply combine_map_fst; lia).
  assert (Hd : map snd (entries c) = c_data c) by (unfold entries; apply combine_map_snd; lia).
  assert (Hn : length (entries c) = length (c_coords c)) by (rewrite <- Hk, map_length; reflexivity).
  destruct (expand_perm idx Z idx_eqb lex_lt (c_fill c) idx_eqb_eq lex_lt_irrefl lex_lt_trans
              (all_indices (c_shape c)) (entries c)) as [Hlen Hp].
  - apply all_indices_SS.
  - rewrite Hk. assumption.
  - rewrite Hk. apply canonical_incl. assumption.
  - rewrite Hn, Hd in *. split; assumption.
Qed.

Lemma length_flat_map_const {A B} (f : A -> list B) (n : nat) l :
  (forall a, length (f a) = n) -> length (flat_map f l) = (length l * n)%nat.
Proof. intros H. induction l; cbn; [reflexivity|]. rewrite app_length, H, IHl. lia. Qed.

Lemma all_indices_length sh : shape_ok sh -> Z.of_nat (length (all_indices sh)) = size sh.
Proof.
  induction 1 as [|d sh Hd Hok IH]; [reflexivity|].
  cbn [all_indices size fold_right].
  rewrite (length_flat_map_const _ (length (all_indices sh))) by (intros; apply map_length).
  unfold zrange. rewrite map_length, seq_length, Nat2Z.inj_mul, IH. fold (size sh). lia.
Qed.

(* ================================================================== nonzero / argwhere / where *)

Lemma filter_combine_map {A B} (f : A -> B) (g : B -> bool) (l : list A) :
  map fst (filter (fun p => g (snd p)) (combine l (map f l))) = filter (fun x => g (f x)) l.
Proof.
  induction l as [|a l IH]; [reflexivity|]. cbn. destruct (g (f a)); cbn; rewrite IH; reflexivity.
Qed.

(* the coordinates kept by `coords[:, data != 0]` ARE NumPy's argwhere of the dense array, whether or not
   the array stores explicit zeros *)
Lemma nonzero_rowmajor_proof (c : coo Z) :
  canonical Z c -> c_fill c = 0 ->
  nz_coords c = np_argwhere (todense c).
Proof.
  intros Hc Hf. unfold np_argwhere, nz_coords. cbn [todense d_shape d_flat]. unfold tabulate.
  rewrite (filter_combine_map (den c) (fun v => negb (v =? 0))).
  pose proof Hc as [Hr [Hs Hl]].
  apply SS_same_members.
  - apply SS_map_fst_filter. assumption.
  - apply SS_filter, all_indices_SS.
  - intros ix. rewrite filter_In, all_indices_In, negb_true_iff, Z.eqb_neq. split.
    + intros Hin. apply in_map_iff in Hin. destruct Hin as [[k v] [Ek Hin]]. cbn in Ek. subst k.
      apply filter_In in Hin. destruct Hin as [Hin Hv]. cbn [snd] in Hv.
      rewrite negb_true_iff, Z.eqb_neq in Hv.
      split; [rewrite Forall_forall in Hr; apply Hr; eapply in_combine_l; exact Hin|].
      rewrite (den_stored Z c ix v Hc Hin). assumption.
    + intros [Hir Hne].
      destruct (in_dec (list_eq_dec Z.eq_dec) ix (c_coords c)) as [Hin|Hnin].
      * assert (exists v, In (ix, v) (entries c)) as [v Hv].
        { unfold entries. clear - Hin Hl. revert Hl Hin. generalize (c_data c).
          induction (c_coords c) as [|k ks IH]; intros [|v vs] Hl Hin; cbn in *; try tauto; try discriminate.
          destruct Hin as [->|Hin]; [exists v; auto|]. destruct (IH vs) as [w Hw]; auto. exists w; auto. }
        rewrite (den_stored Z c ix v Hc Hv) in Hne. apply in_map_iff. exists (ix, v). split; [reflexivity|].
        apply filter_In. split; [exact Hv|]. cbn [snd]. rewrite negb_true_iff, Z.eqb_neq. assumption.
      * exfalso. apply Hne. rewrite (den_unstored Z c ix Hnin). assumption.
Qed.

Lemma ss_nonzero_spec (c : coo Z) :
  canonical Z c -> c_fill c = 0 -> c_shape c <> [] ->
  ss_nonzero c = Ok (np_nonzero (todense c)) /\ ss_where1 c = Ok (np_nonzero (todense c))
  /\ ss_argwhere c = Ok (np_argwhere (todense c)).
Proof.
  intros Hc Hf Hnd. unfold ss_nonzero, ss_where1, ss_argwhere, np_nonzero, ndimZ, zlen.
  rewrite Hf. change (0 =? 0) with true. cbn [negb].
  rewrite <- (nonzero_rowmajor_proof c Hc Hf). cbn [todense d_shape].
  destruct (c_shape c) as [|d sh]; [contradiction|].
  replace (Z.of_nat (length (d :: sh)) =? 0) with false
    by (symmetry; apply Z.eqb_neq; cbn [length]; lia).
  repeat split; reflexivity.
Qed.

Example nonzero_example :
  let c := mkCOO [2; 3] [[0; 1]; [1; 0]; [1; 2]] [5; 0; 7] 0 in
  canonicalb c = true /\ prunedb Z.eqb c = false /\ ss_nonzero c = Ok [[0; 1]; [1; 2]].
Proof. vm_compute. auto. Qed.

(* ================================================================== unique_values / unique_counts *)

Lemma insert_strict x l : StronglySorted Z.lt l -> ~ In x l -> StronglySorted Z.lt (insert x l).
Proof.
  induction 1 as [|y r Hs IH Hall]; intros Hn; cbn.
  - constructor; constructor.
  - assert (x <> y) by (intros ->; apply Hn; left; reflexivity).
    assert (~ In x r) by (intros Hin; apply Hn; right; assumption).
    rewrite Forall_forall in Hall.
    destruct (Z.leb_spec x y).
    + constructor; [constructor; [assumption|apply Forall_forall; assumption]|].
      constructor; [lia|]. apply Forall_forall. intros z Hz. apply Hall in Hz. lia.
    + constructor; [apply IH; assumption|]. apply Forall_forall. intros z Hz.
      apply insert_In in Hz. destruct Hz as [->|Hz]; [lia|apply Hall; assumption].
Qed.

Lemma pruned_notin (c : coo Z) : prunedb Z.eqb c = true -> ~ In (c_fill c) (c_data c).
Proof.
  unfold prunedb. rewrite forallb_forall. intros H Hin. specialize (H _ Hin).
  rewrite Z.eqb_refl in H. discriminate.
Qed.

(* the unique values of (data followed by at least one fill) = unique (fill :: unique data) *)
Lemma unique_with_fill f data k :
  np_unique (data ++ repeat f (S k)) = np_unique (f :: np_unique data).
Proof.
  apply SSlt_same_members; try apply np_unique_strict.
  intros v. rewrite !np_unique_In, in_app_iff. cbn [In]. rewrite np_unique_In. split.
  - intros [H|H]; [right; assumption|left; apply repeat_spec in H; symmetry; assumption].
  - intros [<-|H]; [right; left; reflexivity|left; assumption].
Qed.

(* when the fill does not occur among the stored values this is sort (fill :: unique data) *)
Lemma unique_cons_notin f data :
  ~ In f data -> np_unique (f :: np_unique data) = np_sort (f :: np_unique data).
Proof.
  intros Hn. cbn [np_sort fold_right]. fold (np_sort (np_unique data)).
  rewrite (np_sort_of_sorted (np_unique data)) by (apply SSlt_SSle, np_unique_strict).
  apply SSlt_same_members.
  - apply np_unique_strict.
  - apply insert_strict; [apply np_unique_strict|]. rewrite np_unique_In. assumption.
  - intros v. rewrite np_unique_In, insert_In. cbn [In]. split; intros [H|H]; auto.
Qed.

Lemma nnz_vs_size (c : coo Z) :
  canonical Z c -> shape_ok (c_shape c) ->
  exists k : nat,
    (length (all_indices (c_shape c)) - length (c_coords c))%nat = k
    /\ Permutation (d_flat (todense c)) (c_data c ++ repeat (c_fill c) k)
    /\ (zlen (c_coords c) <? size (c_shape c)) = negb (Nat.eqb k 0)
    /\ size (c_shape c) - zlen (c_coords c) = Z.of_nat k.
Proof.
  intros Hc Hok. destruct (flat_perm c Hc) as [Hle Hp].
  exists (length (all_indices (c_shape c)) - length (c_coords c))%nat.
  rewrite <- (all_indices_length _ Hok). unfold zlen.
  repeat split; try assumption; [|lia].
  destruct (Nat.eqb_spec (length (all_indices (c_shape c)) - length (c_coords c)) 0); cbn [negb].
  - apply Z.ltb_ge. lia.
  - apply Z.ltb_lt. lia.
Qed.

Lemma unique_values_spec_proof (c : coo Z) :
  canonical Z c -> shape_ok (c_shape c) ->
  ss_unique_values c = np_unique_values (todense c).
Proof.
  intros Hc Hok. destruct (nnz_vs_size c Hc Hok) as [k [_ [Hperm [Htest _]]]].
  unfold ss_unique_values, np_unique_values. rewrite Htest, (np_unique_perm_eq _ _ Hperm).
  destruct k as [|k]; cbn [Nat.eqb negb repeat].
  - rewrite app_nil_r. reflexivity.
  - symmetry. apply (unique_with_fill (c_fill c) (c_data c) k).
Qed.

(* ---- np.argsort *)

Lemma insert_kv_fst x l : map fst (insert_kv x l) = insert (fst x) (map fst l).
Proof.
  induction l as [|y r IH]; [reflexivity|]. cbn. destruct (fst x <=? fst y); [reflexivity|].
  cbn. rewrite IH. reflexivity.
Qed.

Lemma insert_kv_perm x l : Permutation (x :: l) (insert_kv x l).
Proof.
  induction l as [|y r IH]; cbn; [reflexivity|].
  destruct (fst x <=? fst y); [reflexivity|].
  etransitivity; [apply perm_swap|]. apply perm_skip, IH.
Qed.

Lemma sort_kv_fst ps : map fst (fold_right insert_kv [] ps) = np_sort (map fst ps).
Proof. induction ps as [|p ps IH]; [reflexivity|]. cbn. rewrite insert_kv_fst, IH. reflexivity. Qed.

Lemma sort_kv_perm ps : Permutation ps (fold_right insert_kv [] ps).
Proof.
  induction ps as [|p ps IH]; cbn; [constructor|].
  etransitivity; [apply perm_skip, IH|apply insert_kv_perm].
Qed.

Lemma combine_seq_In (l : list Z) s v i :
  In (v, i) (combine l (map Z.of_nat (seq s (length l)))) ->
  exists j, i = Z.of_nat (s + j) /\ (j < length l)%nat /\ nth j l 0 = v.
Proof.
  revert s. induction l as [|a l IH]; intros s H; [destruct H|].
  cbn in H. destruct H as [H|H].
  - inversion H; subst. exists 0%nat. repeat split; [f_equal; lia|cbn; lia].
  - destruct (IH (S s) H) as [j [-> [Hj Hv]]]. exists (S j). repeat split; [f_equal; lia|cbn; lia|assumption].
Qed.

Lemma zrange_length (n : nat) : length (zrange (Z.of_nat n)) = n.
Proof. unfold zrange. rewrite map_length, seq_length. lia. Qed.

Lemma argsort_In l i :
  In i (np_argsort l) -> 0 <= i < Z.of_nat (length l).
Proof.
  unfold np_argsort. intros H. apply in_map_iff in H. destruct H as [[v j] [<- Hin]].
  apply (Permutation_in _ (Permutation_sym (sort_kv_perm _))) in Hin.
  unfold zrange in Hin. rewrite Nat2Z.id in Hin.
  destruct (combine_seq_In l 0 v j Hin) as [k [-> [Hk _]]]. cbn. lia.
Qed.

Lemma gather_argsort l : gather (np_argsort l) l = np_sort l.
Proof.
  unfold gather, np_argsort. rewrite map_map.
  transitivity (map fst (fold_right insert_kv [] (combine l (zrange (Z.of_nat (length l)))))).
  - apply map_ext_in. intros [v j] Hin.
    apply (Permutation_in _ (Permutation_sym (sort_kv_perm _))) in Hin.
    unfold zrange in Hin. rewrite Nat2Z.id in Hin.
    destruct (combine_seq_In l 0 v j Hin) as [k [-> [Hk Hv]]]. cbn [fst snd].
    rewrite Nat2Z.id. exact Hv.
  - rewrite sort_kv_fst, combine_map_fst; [reflexivity|]. rewrite zrange_length. reflexivity.
Qed.

Lemma existsb_eqb_In f l : existsb (Z.eqb f) l = true <-> In f l.
Proof.
  rewrite existsb_exists. split.
  - intros [x [Hx E]]. apply Z.eqb_eq in E. subst. assumption.
  - intros H. exists f. split; [assumption|apply Z.eqb_refl].
Qed.

Lemma map_combine_map {A B C} (g : A -> B) (h : A * B -> C) (l : list A) :
  map h (combine l (map g l)) = map (fun a => h (a, g a)) l.
Proof. induction l as [|a l IH]; [reflexivity|]. cbn. rewrite IH. reflexivity. Qed.

Lemma unique_counts_spec_proof (c : coo Z) :
  canonical Z c -> shape_ok (c_shape c) ->
  ss_unique_counts c = np_unique_counts_arr (todense c).
Proof.
  intros Hc Hok. destruct (nnz_vs_size c Hc Hok) as [k [_ [Hperm [Htest Hcnt]]]].
  unfold ss_unique_counts, np_unique_counts_arr.
  rewrite (np_unique_counts_perm_eq _ _ Hperm).
  unfold np_unique_counts at 1. rewrite Htest, Hcnt.
  destruct k as [|k]; cbn [Nat.eqb negb andb].
  - cbn [repeat]. rewrite app_nil_r. reflexivity.
  - set (f := c_fill c) in *. set (data := c_data c) in *. set (U := np_unique data).
    set (L := data ++ repeat f (S k)).
    destruct (existsb (Z.eqb f) U) eqn:Eex.
    + (* the fill value is among the stored values: its count grows by the number of unstored positions *)
      apply existsb_eqb_In in Eex. apply (proj1 (np_unique_In f data)) in Eex.
      unfold np_unique_counts.
      assert (HU : np_unique L = U).
      { apply SSlt_same_members; try apply np_unique_strict. intros v. unfold L, U.
        rewrite !np_unique_In, in_app_iff. split; [|auto].
        intros [H|H]; [assumption|]. apply repeat_spec in H. subst v. assumption. }
      rewrite HU. f_equal. rewrite (map_combine_map (fun v => countz v data)). apply map_ext. intros v.
      cbn [fst snd]. unfold L. rewrite countz_app. destruct (Z.eqb_spec v f) as [->|Hne].
      * rewrite countz_repeat_same. reflexivity.
      * rewrite countz_repeat_other by assumption. lia.
    + assert (Hn : ~ In f data).
      { intros Hin. apply (np_unique_In f data) in Hin. apply existsb_eqb_In in Hin. fold U in Hin. congruence. }
      set (V1 := f :: U). set (C1 := Z.of_nat (S k) :: map (fun v => countz v data) U).
      unfold np_unique_counts.
      assert (HV : gather (np_argsort V1) V1 = np_unique L).
      { rewrite gather_argsort. unfold L. rewrite unique_with_fill. symmetry. apply unique_cons_notin. assumption. }
      rewrite <- HV. f_equal.
      unfold gather. rewrite map_map. apply map_ext_in. intros i Hi.
      apply argsort_In in Hi. unfold V1 in Hi. cbn [length] in Hi.
      destruct (Z.to_nat i) as [|j] eqn:Ej; cbn [nth V1 C1].
      * unfold L. rewrite countz_app, countz_repeat_same, (countz_notin f data Hn). lia.
      * assert (Hj : (j < length U)%nat) by lia.
        rewrite (nth_indep _ 0 (countz 0 data)) by (rewrite map_length; assumption).
        rewrite (map_nth (fun v => countz v data)).
        unfold L. rewrite countz_app, countz_repeat_other; [lia|].
        intros Heq. apply Hn. rewrite <- Heq. apply (np_unique_In _ data). apply nth_In. assumption.
Qed.

Example unique_example :
  let c := mkCOO [6] [[1]; [2]; [3]; [5]] [-3; 0; 1; 1] 0 in
  canonicalb c = true /\ prunedb Z.eqb c = false
  /\ ss_unique_values c = [-3; 0; 1] /\ ss_unique_counts c = ([-3; 0; 1], [1; 3; 2]).
Proof. vm_compute. auto. Qed.

(* ================================================================== _sort_coo *)

(* the entries of l that sit where the group coordinate is r *)
Definition sel (r : Z) (gc l : list Z) : list Z :=
  map snd (filter (fun p => fst p =? r) (combine gc l)).

Lemma sel_cons r g gc a l :
  sel r (g :: gc) (a :: l) = if g =? r then a :: sel r gc l else sel r gc l.
Proof. unfold sel. cbn. destruct (g =? r); reflexivity. Qed.

Lemma sel_nil_l r l : sel r [] l = [].
Proof. reflexivity. Qed.

Lemma sel_nil_r r gc : sel r gc [] = [].
Proof. unfold sel. destruct gc; reflexivity. Qed.

Lemma sel_app r gc1 gc2 l1 l2 :
  length gc1 = length l1 -> sel r (gc1 ++ gc2) (l1 ++ l2) = sel r gc1 l1 ++ sel r gc2 l2.
Proof.
  revert l1. induction gc1 as [|g gc1 IH]; intros [|a l1] H; cbn in H; try discriminate; [reflexivity|].
  cbn [app]. rewrite !sel_cons. rewrite IH by lia. destruct (g =? r); reflexivity.
Qed.

Lemma sel_repeat_same r n l : length l = n -> sel r (repeat r n) l = l.
Proof.
  revert l. induction n as [|n IH]; intros [|a l] H; cbn in H; try discriminate; [reflexivity|].
  cbn [repeat]. rewrite sel_cons, Z.eqb_refl. rewrite IH by lia. reflexivity.
Qed.

Lemma sel_repeat_other r g n l : g <> r -> sel r (repeat g n) l = [].
Proof.
  intros Hne. revert l. induction n as [|n IH]; intros [|a l]; try reflexivity.
  cbn [repeat]. rewrite sel_cons. destruct (Z.eqb_spec g r); [contradiction|apply IH].
Qed.

Lemma sel_none r gc l : Forall (fun g => g <> r) gc -> sel r gc l = [].
Proof.
  intros H. revert l. induction H as [|g gc Hg _ IH]; intros [|a l]; try reflexivity.
  rewrite sel_cons. destruct (Z.eqb_spec g r); [contradiction|apply IH].
Qed.

Lemma sel_length r gc l1 l2 :
  length l1 = length gc -> length l2 = length gc -> length (sel r gc l1) = length (sel r gc l2).
Proof.
  revert l1 l2. induction gc as [|g gc IH]; intros [|a l1] [|b l2] H1 H2; cbn [length] in H1, H2; try discriminate; [reflexivity|].
  rewrite !sel_cons. destruct (g =? r); cbn [length]; rewrite (IH l1 l2) by lia; reflexivity.
Qed.

(* ---- one group *)

Lemma arange_from_length a n : length (arange_from a n) = n.
Proof. revert a. induction n; intros a; cbn; [reflexivity|]. rewrite IHn. reflexivity. Qed.

Lemma arange_from_shift a c n : map (fun k => k + c) (arange_from a n) = arange_from (a + c) n.
Proof.
  revert a. induction n as [|n IH]; intros a; cbn; [reflexivity|]. rewrite IH. do 2 f_equal. lia.
Qed.

Lemma arange_from_bounds a n : Forall (fun i => a <= i < a + Z.of_nat n) (arange_from a n).
Proof.
  revert a. induction n as [|n IH]; intros a; cbn [arange_from]; constructor; [lia|].
  eapply Forall_impl; [|apply IH]. intros i Hi. cbn beta in *. lia.
Qed.

Lemma arange_from_SS a n : StronglySorted Z.lt (arange_from a n).
Proof.
  revert a. induction n as [|n IH]; intros a; cbn [arange_from]; constructor; [apply IH|].
  eapply Forall_impl; [|apply arange_from_bounds]. intros i Hi. cbn beta in *. lia.
Qed.

Lemma zrange_arange (n : nat) : zrange (Z.of_nat n) = arange_from 0 n.
Proof.
  unfold zrange. rewrite Nat2Z.id.
  change 0 with (Z.of_nat 0) at 1. generalize 0%nat as s.
  induction n as [|n IH]; intros s; cbn; [reflexivity|]. f_equal.
  rewrite IH. f_equal. lia.
Qed.

Lemma place_length desc fill fc l pos : length (place desc fill fc l pos) = length l.
Proof.
  revert pos. induction l as [|d r IH]; intros pos; cbn [place]; [reflexivity|].
  destruct (fill_before desc fill d).
  - rewrite map_length, arange_from_length. reflexivity.
  - cbn [length]. rewrite IH. reflexivity.
Qed.

Lemma place_bounds desc fill fc l pos :
  0 <= fc ->
  StronglySorted Z.lt (place desc fill fc l pos)
  /\ Forall (fun i => pos <= i < pos + Z.of_nat (length l) + fc) (place desc fill fc l pos).
Proof.
  intros Hfc. revert pos. induction l as [|d r IH]; intros pos; cbn [place]; [split; constructor|].
  destruct (fill_before desc fill d).
  - rewrite arange_from_shift. split; [apply arange_from_SS|].
    eapply Forall_impl; [|apply arange_from_bounds]. intros i Hi. cbn beta in *. lia.
  - destruct (IH (pos + 1)) as [Hs Hb]. split.
    + constructor; [assumption|]. eapply Forall_impl; [|exact Hb]. intros i Hi. cbn beta in *. lia.
    + constructor; [cbn [length]; lia|]. eapply Forall_impl; [|exact Hb].
      intros i Hi. cbn beta in *. cbn [length]. lia.
Qed.

Lemma sort_group_length desc fill len cur :
  length (fst (sort_group desc fill len cur)) = length cur
  /\ length (snd (sort_group desc fill len cur)) = length cur.
Proof.
  unfold sort_group. cbv zeta. cbn [fst snd]. rewrite place_length.
  assert (H : length (if 1 <? zlen cur then (if desc then rev (np_sort cur) else np_sort cur) else cur) = length cur).
  { destruct (1 <? zlen cur); [|reflexivity].
    destruct desc; [rewrite rev_length|]; symmetry; apply Permutation_length, np_sort_perm. }
  rewrite H. split; reflexivity.
Qed.

Lemma sort_group_nil desc fill len : sort_group desc fill len [] = ([], []).
Proof. reflexivity. Qed.

(* the data of a closed group, sorted in the requested direction *)
Lemma sort_group_data desc fill len cur :
  snd (sort_group desc fill len cur) = np_sort_dir desc cur.
Proof.
  unfold sort_group, np_sort_dir. cbv zeta. cbn [snd]. destruct (Z.ltb_spec 1 (zlen cur)) as [H|H]; [reflexivity|].
  unfold zlen in H. destruct cur as [|a [|b r]]; cbn [length] in H; try lia.
  - destruct desc; reflexivity.
  - destruct desc; reflexivity.
Qed.

(* ---- the scan *)

Lemma repeat_snoc {A} (x : A) n : repeat x (n + 1) = repeat x n ++ [x].
Proof. induction n; cbn; [reflexivity|]. rewrite IHn. reflexivity. Qed.

Lemma scan_sel desc fill len gs :
  forall ds prev cur ri d',
    length gs = length ds ->
    StronglySorted Z.le (prev :: gs) ->
    (0 <= prev \/ (prev = -1 /\ cur = [])) ->
    Forall (fun g => 0 <= g) gs ->
    sort_scan desc fill len gs ds prev cur = (ri, d') ->
    length ri = (length cur + length gs)%nat /\ length d' = (length cur + length gs)%nat /\
    forall r, 0 <= r ->
      let G := repeat prev (length cur) ++ gs in
      sel r G ri = fst (sort_group desc fill len (sel r G (cur ++ ds)))
      /\ sel r G d' = snd (sort_group desc fill len (sel r G (cur ++ ds))).
Proof.
  induction gs as [|g gs IH]; intros ds prev cur ri d' Hlen Hs Hprev Hnn Hscan.
  - destruct ds; [|discriminate]. cbn [sort_scan] in Hscan.
    assert (Hsg : (ri, d') = sort_group desc fill len cur).
    { destruct Hprev as [Hp|[-> ->]].
      - assert (E : (-1 =? prev) = false) by (apply Z.eqb_neq; lia). rewrite E in Hscan. congruence.
      - change (-1 =? -1) with true in Hscan. unfold unwritten in Hscan. cbn [map] in Hscan. rewrite sort_group_nil. congruence. }
    destruct (sort_group_length desc fill len cur) as [L1 L2]. rewrite <- Hsg in L1, L2. cbn [fst snd] in L1, L2.
    rewrite !app_nil_r, Nat.add_0_r. repeat split; try assumption.
    + destruct (Z.eq_dec prev r) as [->|Hne].
      * rewrite !sel_repeat_same by (auto). rewrite <- Hsg. reflexivity.
      * rewrite !sel_repeat_other by assumption. reflexivity.
    + destruct (Z.eq_dec prev r) as [->|Hne].
      * rewrite !sel_repeat_same by (auto). rewrite <- Hsg. reflexivity.
      * rewrite !sel_repeat_other by assumption. reflexivity.
  - destruct ds as [|d ds]; [discriminate|]. cbn [sort_scan] in Hscan.
    inversion Hs as [|? ? Hs' Hall]; subst. inversion Hnn as [|? ? Hg Hnn']; subst.
    inversion Hall as [|? ? Hpg Hall']; subst.
    revert Hscan. destruct (Z.eqb_spec g prev) as [->|Hne]; intros Hscan.
    + (* the group continues *)
      specialize (IH ds prev (cur ++ [d]) ri d').
      rewrite app_length in IH. cbn [length] in IH.
      destruct IH as [L1 [L2 IHr]]; try assumption; [cbn in Hlen; lia|left; assumption|].
      cbn [length]. split; [lia|]. split; [lia|].
      intros r Hr. cbn zeta. specialize (IHr r Hr). cbn zeta in IHr.
      rewrite repeat_snoc, <- !app_assoc in IHr. cbn [app] in IHr. exact IHr.
    + (* a group closes, the next one opens *)
      assert (Hlt : prev < g) by lia.
      destruct (sort_scan desc fill len gs ds g [d]) as [i2 d2] eqn:E2.
      assert (H1 : (if negb (prev =? -1) then sort_group desc fill len cur else unwritten cur)
                   = sort_group desc fill len cur).
      { destruct Hprev as [Hp|[-> ->]].
        - destruct (Z.eqb_spec prev (-1)); [lia|reflexivity].
        - reflexivity. }
      rewrite H1 in Hscan. destruct (sort_group desc fill len cur) as [i1 d1] eqn:E1.
      inversion Hscan; subst ri d'. clear Hscan.
      destruct (sort_group_length desc fill len cur) as [L1 L2]. rewrite E1 in L1, L2. cbn [fst snd] in L1, L2.
      destruct (IH ds g [d] i2 d2) as [M1 [M2 IHr]]; try assumption; [cbn in Hlen; lia|left; assumption|].
      cbn [length] in M1, M2. rewrite !app_length. cbn [length]. split; [lia|]. split; [lia|].
      intros r Hr. cbn zeta. specialize (IHr r Hr). cbn zeta in IHr. cbn [length repeat app] in IHr.
      assert (Hrep : length (repeat prev (length cur)) = length cur) by apply repeat_length.
      rewrite !(sel_app r (repeat prev (length cur)) (g :: gs)) by (rewrite Hrep; auto).
      destruct (Z.eq_dec prev r) as [->|Hpr].
      * rewrite !sel_repeat_same by auto.
        assert (Hno : Forall (fun g' => g' <> r) (g :: gs)).
        { constructor; [lia|]. inversion Hs' as [|? ? _ Hgall]; subst.
          eapply Forall_impl; [|exact Hgall]. intros; cbn beta in *. lia. }
        rewrite !(sel_none r (g :: gs)) by assumption. rewrite !app_nil_r, E1. split; reflexivity.
      * rewrite !sel_repeat_other by assumption. cbn [app]. exact IHr.
Qed.

(* ---- 2-d coordinates: lexicographic order = groups in order, each group in order *)

Lemma zip2_cons g gc s sc : zip2 (g :: gc) (s :: sc) = [g; s] :: zip2 gc sc.
Proof. reflexivity. Qed.

Lemma zip2_In_sel r j gc sc : In [r; j] (zip2 gc sc) -> In j (sel r gc sc).
Proof.
  revert sc. induction gc as [|g gc IH]; intros [|s sc] H; try destruct H.
  - inversion H; subst. rewrite sel_cons, Z.eqb_refl. left; reflexivity.
  - rewrite sel_cons. destruct (g =? r); [right|]; apply IH; assumption.
Qed.

Lemma sel_In_zip2 r j gc sc : In j (sel r gc sc) -> In [r; j] (zip2 gc sc).
Proof.
  revert sc. induction gc as [|g gc IH]; intros [|s sc] H; try (rewrite ?sel_nil_r in H; destruct H; fail).
  rewrite sel_cons in H. rewrite zip2_cons. destruct (Z.eqb_spec g r) as [->|Hne].
  - destruct H as [->|H]; [left; reflexivity|right; apply IH; assumption].
  - right. apply IH. assumption.
Qed.

Lemma sel_combine_In r s v gc sc data :
  In (s, v) (combine (sel r gc sc) (sel r gc data)) -> In ([r; s], v) (combine (zip2 gc sc) data).
Proof.
  revert sc data. induction gc as [|g gc IH]; intros [|a sc] [|b data] H;
    try (rewrite ?sel_nil_r, ?sel_nil_l in H; try destruct H; fail).
  - rewrite sel_nil_r in H. destruct (sel r (g :: gc) (a :: sc)); destruct H.
  - rewrite !sel_cons in H. rewrite zip2_cons. cbn [combine]. destruct (Z.eqb_spec g r) as [->|Hne].
    + destruct H as [H|H]; [inversion H; subst; left; reflexivity|right; apply IH; assumption].
    + right. apply IH. assumption.
Qed.

Lemma zip2_sorted_iff gc sc :
  length sc = length gc ->
  (StronglySorted lex_lt (zip2 gc sc)
   <-> StronglySorted Z.le gc /\ forall r, StronglySorted Z.lt (sel r gc sc)).
Proof.
  revert sc. induction gc as [|g gc IH]; intros [|s sc] Hlen; try discriminate.
  - cbn. split; [intros _; split; [constructor|intros; constructor]|intros _; constructor].
  - rewrite zip2_cons. cbn [length] in Hlen. specialize (IH sc ltac:(lia)). split.
    + intros H. inversion H as [|? ? Hs Hall]; subst. rewrite Forall_forall in Hall.
      destruct (proj1 IH Hs) as [Hg Hsel]. split.
      * constructor; [assumption|]. apply Forall_forall. intros g' Hg'.
        destruct (In_nth gc g' 0 Hg') as [n [Hn <-]].
        assert (Hin : In [nth n gc 0; nth n sc 0] (zip2 gc sc)).
        { unfold zip2. apply in_map_iff. exists (nth n gc 0, nth n sc 0). split; [reflexivity|].
          rewrite <- combine_nth by lia. apply nth_In. rewrite combine_length. lia. }
        specialize (Hall _ Hin). cbn in Hall. lia.
      * intros r. rewrite sel_cons. destruct (Z.eqb_spec g r) as [->|Hne]; [|apply Hsel].
        constructor; [apply Hsel|]. apply Forall_forall. intros j Hj.
        apply sel_In_zip2 in Hj. specialize (Hall _ Hj). cbn in Hall. lia.
    + intros [Hg Hsel]. inversion Hg as [|? ? Hg' Hgall]; subst. rewrite Forall_forall in Hgall.
      constructor.
      * apply IH. split; [assumption|]. intros r. specialize (Hsel r). rewrite sel_cons in Hsel.
        destruct (g =? r); [inversion Hsel; assumption|assumption].
      * apply Forall_forall. intros ix Hix. unfold zip2 in Hix. apply in_map_iff in Hix.
        destruct Hix as [[g' s'] [<- Hin]]. cbn [fst snd].
        pose proof (in_combine_l _ _ _ _ Hin) as Hg1. specialize (Hgall _ Hg1).
        cbn [lex_lt]. destruct (Z.eq_dec g g') as [<-|Hne]; [|left; lia].
        right. split; [reflexivity|]. left.
        specialize (Hsel g). rewrite sel_cons, Z.eqb_refl in Hsel.
        inversion Hsel as [|? ? _ Hlt]; subst. rewrite Forall_forall in Hlt. apply Hlt.
        apply zip2_In_sel. unfold zip2. apply in_map_iff. exists (g, s'). split; [reflexivity|assumption].
Qed.

(* ---- the dense row r of a 2-d COO as a merge of [0, L) with the entries of group r *)

Definition row2 (c : coo Z) (L r : Z) : list Z := map (fun j => den c [r; j]) (zrange L).

Lemma zrange_SS n : StronglySorted Z.lt (zrange n).
Proof. apply SS_seq_Z. Qed.

Lemma Zlt_irrefl' (a : Z) : ~ a < a. Proof. lia. Qed.
Lemma Zlt_trans' (a b c : Z) : a < b -> b < c -> a < c. Proof. lia. Qed.

Lemma zip2_in_range R L gc sc :
  Forall (in_range [R; L]) (zip2 gc sc) -> length sc = length gc ->
  Forall (fun g => 0 <= g < R) gc /\ Forall (fun s => 0 <= s < L) sc.
Proof.
  revert sc. induction gc as [|g gc IH]; intros [|s sc] H Hlen; try discriminate; [split; constructor|].
  rewrite zip2_cons in H. inversion H as [|? ? Hh Ht]; subst. cbn in Hh. cbn [length] in Hlen.
  destruct (IH sc Ht ltac:(lia)). split; constructor; tauto.
Qed.

Lemma sel_Forall (P : Z -> Prop) r gc l : Forall P l -> Forall P (sel r gc l).
Proof.
  intros H. revert gc. induction H as [|a l Ha _ IH]; intros [|g gc]; try (rewrite ?sel_nil_r; constructor).
  rewrite sel_cons. destruct (g =? r); [constructor; [assumption|]|]; apply IH.
Qed.

Lemma row2_expand R L gc sc data fill r :
  length sc = length gc ->
  canonical Z (mkCOO [R; L] (zip2 gc sc) data fill) ->
  row2 (mkCOO [R; L] (zip2 gc sc) data fill) L r
  = expand Z.eqb fill (zrange L) (combine (sel r gc sc) (sel r gc data)).
Proof.
  intros Hlen Hc. pose proof Hc as [Hr [Hs Hl]]. cbn [c_shape c_coords c_data] in Hr, Hs, Hl.
  assert (Hzl : length (zip2 gc sc) = length gc).
  { unfold zip2. rewrite map_length, combine_length. lia. }
  assert (Hk : map fst (combine (sel r gc sc) (sel r gc data)) = sel r gc sc).
  { apply combine_map_fst. apply sel_length; lia. }
  unfold row2.
  apply (map_expand Z Z Z.eqb Z.lt fill Z.eqb_eq Zlt_irrefl' Zlt_trans').
  - apply zrange_SS.
  - rewrite Hk. apply (zip2_sorted_iff gc sc Hlen). assumption.
  - rewrite Hk. intros j Hj. apply zrange_In.
    destruct (zip2_in_range R L gc sc Hr Hlen) as [_ Hsc].
    pose proof (sel_Forall _ r gc sc Hsc) as Hf. rewrite Forall_forall in Hf. apply Hf. assumption.
  - intros s v Hin. apply den_stored; [assumption|]. unfold entries. cbn [c_coords c_data].
    apply sel_combine_In. assumption.
  - intros j _ Hn. apply den_unstored. cbn [c_coords]. intros Hin. apply Hn.
    rewrite Hk. apply zip2_In_sel. assumption.
Qed.

(* ---- where the sorted group lands in the row *)

Fixpoint tw (p : Z -> bool) (l : list Z) : list Z :=
  match l with [] => [] | x :: r => if p x then x :: tw p r else [] end.
Fixpoint dw (p : Z -> bool) (l : list Z) : list Z :=
  match l with [] => [] | x :: r => if p x then dw p r else l end.

Lemma tw_dw p l : tw p l ++ dw p l = l.
Proof. induction l as [|x r IH]; [reflexivity|]. cbn. destruct (p x); [cbn; rewrite IH|]; reflexivity. Qed.

Lemma tw_all p l : Forall (fun x => p x = true) (tw p l).
Proof. induction l as [|x r IH]; cbn; [constructor|]. destruct (p x) eqn:E; constructor; assumption. Qed.

Lemma dw_head p l : match dw p l with [] => True | h :: _ => p h = false end.
Proof. induction l as [|x r IH]; cbn; [exact I|]. destruct (p x) eqn:E; assumption. Qed.

Lemma expand_nil_ps (fill : Z) (ks : list Z) : expand Z.eqb fill ks [] = repeat fill (length ks).
Proof. induction ks as [|k ks IH]; cbn; [reflexivity|]. rewrite IH. reflexivity. Qed.

Lemma expand_aligned (fill : Z) a (sd : list Z) :
  expand Z.eqb fill (arange_from a (length sd)) (combine (arange_from a (length sd)) sd) = sd.
Proof.
  revert a. induction sd as [|d r IH]; intros a; [reflexivity|].
  cbn [length arange_from combine expand]. rewrite Z.eqb_refl, IH. reflexivity.
Qed.

Lemma expand_shifted (fill : Z) fcn : forall a (sd : list Z),
  expand Z.eqb fill (arange_from a (fcn + length sd))
         (combine (arange_from (a + Z.of_nat fcn) (length sd)) sd)
  = repeat fill fcn ++ sd.
Proof.
  induction fcn as [|fcn IH]; intros a sd.
  - cbn [Nat.add repeat app]. replace (a + Z.of_nat 0) with a by lia. apply expand_aligned.
  - destruct sd as [|d r].
    + cbn [length combine arange_from]. rewrite expand_nil_ps, arange_from_length, Nat.add_0_r, app_nil_r.
      reflexivity.
    + cbn [Nat.add arange_from expand repeat app].
      cbn [length arange_from combine].
      destruct (Z.eqb_spec (a + Z.of_nat (S fcn)) a) as [E|_]; [lia|].
      f_equal. specialize (IH (a + 1) (d :: r)). cbn [length arange_from combine] in IH.
      replace (a + 1 + Z.of_nat fcn) with (a + Z.of_nat (S fcn)) in IH by lia. exact IH.
Qed.

Definition stays (desc : bool) (fill d : Z) : bool := negb (fill_before desc fill d).

Lemma place_expand desc fill fcn : forall sd a,
  expand Z.eqb fill (arange_from a (length sd + fcn))
         (combine (place desc fill (Z.of_nat fcn) sd a) sd)
  = tw (stays desc fill) sd ++ repeat fill fcn ++ dw (stays desc fill) sd.
Proof.
  induction sd as [|d r IH]; intros a.
  - cbn [length Nat.add place combine tw dw app]. rewrite expand_nil_ps, arange_from_length, app_nil_r. reflexivity.
  - cbn [place tw dw]. unfold stays at 1 3. destruct (fill_before desc fill d) eqn:E; cbn [negb].
    + rewrite arange_from_shift. cbn [app]. rewrite Nat.add_comm. apply expand_shifted.
    + cbn [length Nat.add arange_from combine expand]. rewrite Z.eqb_refl. cbn [app]. f_equal. apply IH.
Qed.

Lemma SS_app_inv {A} (R : A -> A -> Prop) l1 l2 :
  StronglySorted R (l1 ++ l2) ->
  StronglySorted R l1 /\ StronglySorted R l2 /\ (forall a b, In a l1 -> In b l2 -> R a b).
Proof.
  induction l1 as [|x l1 IH]; cbn; intros H.
  - repeat split; [constructor|assumption|intros ? ? []].
  - inversion H as [|? ? Hs Hall]; subst. destruct (IH Hs) as [H1 [H2 H3]].
    rewrite Forall_forall in Hall. repeat split.
    + constructor; [assumption|]. apply Forall_forall. intros y Hy. apply Hall, in_or_app. left. assumption.
    + assumption.
    + intros a b [<-|Ha] Hb; [apply Hall, in_or_app; right; assumption|apply H3; assumption].
Qed.

Lemma stays_le desc fill d : stays desc fill d = true -> ord_le desc d fill.
Proof.
  unfold stays, fill_before, ord_le. destruct desc; cbn [negb andb orb]; rewrite negb_true_iff.
  - intros H. apply Z.gtb_ltb in H || idtac. rewrite Z.gtb_ltb in H. apply Z.ltb_ge in H. lia.
  - rewrite orb_false_r. intros H. apply Z.ltb_ge in H. lia.
Qed.

Lemma not_stays_le desc fill d : stays desc fill d = false -> ord_le desc fill d.
Proof.
  unfold stays, fill_before, ord_le. destruct desc; cbn [negb andb orb]; rewrite negb_false_iff.
  - rewrite Z.gtb_ltb. intros H. apply Z.ltb_lt in H. lia.
  - rewrite orb_false_r. intros H. apply Z.ltb_lt in H. lia.
Qed.

Lemma ord_le_refl desc a : ord_le desc a a.
Proof. unfold ord_le. destruct desc; lia. Qed.
Lemma ord_le_trans desc a b c : ord_le desc a b -> ord_le desc b c -> ord_le desc a c.
Proof. unfold ord_le. destruct desc; lia. Qed.

Lemma SS_repeat desc fill n : StronglySorted (ord_le desc) (repeat fill n).
Proof.
  induction n; cbn; constructor; [assumption|]. apply Forall_forall. intros x Hx.
  apply repeat_spec in Hx. subst. apply ord_le_refl.
Qed.

Lemma landing_sorted desc fill fcn sd :
  StronglySorted (ord_le desc) sd ->
  StronglySorted (ord_le desc) (tw (stays desc fill) sd ++ repeat fill fcn ++ dw (stays desc fill) sd).
Proof.
  intros Hs. pose proof (tw_dw (stays desc fill) sd) as Hsplit. rewrite <- Hsplit in Hs.
  destruct (SS_app_inv _ _ _ Hs) as [H1 [H2 H3]].
  pose proof (tw_all (stays desc fill) sd) as Htw. rewrite Forall_forall in Htw.
  pose proof (dw_head (stays desc fill) sd) as Hdw.
  assert (Hfd : forall b, In b (dw (stays desc fill) sd) -> ord_le desc fill b).
  { destruct (dw (stays desc fill) sd) as [|h t]; [intros ? []|].
    apply not_stays_le in Hdw. inversion H2 as [|? ? _ Hall]; subst. rewrite Forall_forall in Hall.
    intros b [<-|Hb]; [assumption|]. eapply ord_le_trans; [exact Hdw|apply Hall; assumption]. }
  apply SS_app; [assumption| |].
  - apply SS_app; [apply SS_repeat|assumption|].
    intros a b Ha Hb. apply repeat_spec in Ha. subst. apply Hfd. assumption.
  - intros a b Ha Hb. apply in_app_or in Hb. destruct Hb as [Hb|Hb].
    + apply repeat_spec in Hb. subst. apply stays_le. apply Htw. assumption.
    + apply H3; assumption.
Qed.

Lemma landing_perm desc fill fcn sd :
  Permutation (sd ++ repeat fill fcn) (tw (stays desc fill) sd ++ repeat fill fcn ++ dw (stays desc fill) sd).
Proof.
  rewrite <- (tw_dw (stays desc fill) sd) at 1. rewrite <- app_assoc.
  apply Permutation_app_head, Permutation_app_comm.
Qed.

(* ---- the theorem *)

Lemma SSlt_range_length (l : list Z) a n :
  StronglySorted Z.lt l -> Forall (fun i => a <= i < a + Z.of_nat n) l -> (length l <= n)%nat.
Proof.
  revert a n. induction l as [|x l IH]; intros a n Hs Hb; [cbn; lia|].
  inversion Hs as [|? ? Hs' Hall]; subst. inversion Hb as [|? ? Hx Hb']; subst.
  rewrite Forall_forall in Hall, Hb'.
  destruct n as [|n]; [lia|]. cbn [length]. apply le_n_S. apply (IH (x + 1)); [assumption|].
  apply Forall_forall. intros i Hi. specialize (Hall _ Hi). specialize (Hb' _ Hi). cbn beta in *. lia.
Qed.

Lemma sort_coo_row_proof gc sc data fill R L desc ri d' :
  length sc = length gc -> 0 <= L ->
  canonical Z (mkCOO [R; L] (zip2 gc sc) data fill) ->
  sort_coo gc sc data fill L desc = (gc, ri, d') ->
  canonical Z (mkCOO [R; L] (zip2 gc ri) d' fill)
  /\ forall r, 0 <= r < R ->
       is_sort_of desc (row2 (mkCOO [R; L] (zip2 gc sc) data fill) L r)
                       (row2 (mkCOO [R; L] (zip2 gc ri) d' fill) L r).
Proof.
  intros Hlen HL Hc Hsort. pose proof Hc as [Hr [Hs Hl]]. cbn [c_shape c_coords c_data] in Hr, Hs, Hl.
  assert (Hzl : length (zip2 gc sc) = length gc).
  { unfold zip2. rewrite map_length, combine_length. lia. }
  destruct (zip2_in_range R L gc sc Hr Hlen) as [Hgr Hsr].
  destruct (proj1 (zip2_sorted_iff gc sc Hlen) Hs) as [Hgs Hsel].
  unfold sort_coo in Hsort. destruct (sort_scan desc fill L gc data (-1) []) as [ri0 d0] eqn:E.
  inversion Hsort; subst ri0 d0. clear Hsort.
  destruct (scan_sel desc fill L gc data (-1) [] ri d') as [Lri [Ld Hgrp]].
  { lia. }
  { constructor; [assumption|]. eapply Forall_impl; [|exact Hgr]. intros; cbn beta in *. lia. }
  { right. split; reflexivity. }
  { eapply Forall_impl; [|exact Hgr]. intros; cbn beta in *. lia. }
  { exact E. }
  cbn [length Nat.add repeat app] in Lri, Ld, Hgrp.
  (* facts about one group *)
  assert (Hgroup : forall r, 0 <= r ->
            let S := sel r gc sc in let D := sel r gc data in
            exists fcn, Z.to_nat L = (length D + fcn)%nat
              /\ sel r gc ri = place desc fill (Z.of_nat fcn) (np_sort_dir desc D) 0
              /\ sel r gc d' = np_sort_dir desc D
              /\ Permutation (expand Z.eqb fill (zrange L) (combine S D)) (D ++ repeat fill fcn)).
  { intros r Hr0 S D. destruct (Hgrp r Hr0) as [G1 G2]. fold D in G1, G2.
    destruct (expand_perm Z Z Z.eqb Z.lt fill Z.eqb_eq Zlt_irrefl' Zlt_trans' (zrange L) (combine S D)) as [Hle Hperm].
    - apply zrange_SS.
    - rewrite combine_map_fst by (apply sel_length; lia). apply Hsel.
    - rewrite combine_map_fst by (apply sel_length; lia). intros j Hj. apply zrange_In.
      pose proof (sel_Forall _ r gc sc Hsr) as Hf. rewrite Forall_forall in Hf. apply Hf. assumption.
    - assert (HSD : length S = length D) by (apply sel_length; lia).
      rewrite combine_length, HSD, Nat.min_id in Hle, Hperm.
      rewrite combine_map_snd in Hperm by assumption.
      assert (Hzr : length (zrange L) = Z.to_nat L) by (unfold zrange; rewrite map_length, seq_length; reflexivity).
      rewrite Hzr in Hle, Hperm.
      exists (Z.to_nat L - length D)%nat. repeat split; [lia| | |assumption].
      + rewrite G1. unfold sort_group. cbv zeta. cbn [fst].
        change (if 1 <? zlen D then if desc then rev (np_sort D) else np_sort D else D)
          with (snd (sort_group desc fill L D)).
        rewrite sort_group_data. f_equal. unfold zlen. lia.
      + rewrite G2. apply sort_group_data. }
  assert (Hcy : canonical Z (mkCOO [R; L] (zip2 gc ri) d' fill)).
  { (* the result is canonical *)
    assert (Hri_len : length ri = length gc) by lia.
    repeat split; cbn [c_shape c_coords c_data].
    + (* in range *)
      apply Forall_forall. intros ix Hix. unfold zip2 in Hix. apply in_map_iff in Hix.
      destruct Hix as [[g i] [<- Hin]]. cbn [fst snd].
      pose proof (in_combine_l _ _ _ _ Hin) as Hg.
      rewrite Forall_forall in Hgr. specialize (Hgr _ Hg). cbn. split; [assumption|]. split; [|exact I].
      assert (Hi : In i (sel g gc ri)).
      { apply zip2_In_sel. unfold zip2. apply in_map_iff. exists (g, i). split; [reflexivity|assumption]. }
      destruct (Hgroup g ltac:(lia)) as [fcn [HLn [Hpl [_ _]]]]. rewrite Hpl in Hi.
      destruct (place_bounds desc fill (Z.of_nat fcn) (np_sort_dir desc (sel g gc data)) 0 ltac:(lia)) as [_ Hb].
      rewrite Forall_forall in Hb. specialize (Hb _ Hi). cbn beta in Hb.
      assert (length (np_sort_dir desc (sel g gc data)) = length (sel g gc data))
        by (symmetry; apply Permutation_length, np_sort_dir_perm).
      lia.
    + (* strictly increasing *)
      apply (zip2_sorted_iff gc ri Hri_len). split; [assumption|]. intros r.
      destruct (Z.le_gt_cases 0 r) as [Hr0|Hr0].
      * destruct (Hgroup r Hr0) as [fcn [_ [Hpl _]]]. rewrite Hpl. apply place_bounds. lia.
      * rewrite sel_none; [constructor|]. eapply Forall_impl; [|exact Hgr]. intros; cbn beta in *. lia.
    + unfold zip2. rewrite map_length, combine_length. lia. }
  split; [exact Hcy|].
  intros r Hr0.
    destruct (Hgroup r ltac:(lia)) as [fcn [HLn [Hpl [Hdt Hperm]]]].
    rewrite (row2_expand R L gc sc data fill r Hlen Hc).
    (* the output row, by the same merge *)
    assert (Hrow_y : row2 (mkCOO [R; L] (zip2 gc ri) d' fill) L r
                     = expand Z.eqb fill (zrange L) (combine (sel r gc ri) (sel r gc d'))).
    { apply row2_expand; [lia|exact Hcy]. }
    rewrite Hrow_y, Hpl, Hdt.
    set (D := sel r gc data) in *. set (sd := np_sort_dir desc D) in *.
    assert (Hsdl : length sd = length D) by (symmetry; apply Permutation_length, np_sort_dir_perm).
    replace L with (Z.of_nat (length sd + fcn)) by lia.
    rewrite zrange_arange, place_expand.
    split.
    + apply StronglySorted_Sorted, landing_sorted, np_sort_dir_sorted.
    + etransitivity; [|apply landing_perm].
      replace L with (Z.of_nat (length sd + fcn)) in Hperm by lia. rewrite zrange_arange in Hperm.
      etransitivity; [exact Hperm|]. apply Permutation_app_tail, np_sort_dir_perm.
Qed.

Example sort_coo_example :
  let gc := [0; 0; 0; 2; 2] in let sc := [0; 2; 3; 1; 3] in let data := [5; -3; 2; 2; -1] in
  canonicalb (mkCOO [3; 4] (zip2 gc sc) data 2) = true
  /\ sort_coo gc sc data 2 4 false = (gc, [0; 1; 3; 0; 1], [-3; 2; 5; -1; 2])
  /\ sort_coo gc sc data 2 4 true = (gc, [0; 1; 3; 0; 3], [5; 2; -3; 2; -1]).
Proof. vm_compute. auto. Qed.

(* ================================================================== _compute_minmax_args *)

Lemma better_spec maxm a b : better maxm a b = true <-> strictly_better maxm a b.
Proof.
  unfold better, strictly_better. destruct maxm.
  - rewrite Z.gtb_ltb, Z.ltb_lt. reflexivity.
  - rewrite Z.ltb_lt. reflexivity.
Qed.

Lemma sb_irrefl maxm a : ~ strictly_better maxm a a.
Proof. unfold strictly_better. destruct maxm; lia. Qed.

(* np.argmax / np.argmin: the scan returns the first position of the extremum *)
Lemma arg_scan_spec maxm (g : Z -> Z) : forall l i bi bv,
  0 <= bi < i -> g bi = bv ->
  (forall t, (t < length l)%nat -> g (i + Z.of_nat t) = nth t l 0) ->
  (forall j, 0 <= j < i -> ~ strictly_better maxm (g j) bv) ->
  (forall j, 0 <= j < bi -> strictly_better maxm bv (g j)) ->
  let a := arg_scan maxm l i bi bv in
  0 <= a < i + Z.of_nat (length l)
  /\ (forall j, 0 <= j < i + Z.of_nat (length l) -> ~ strictly_better maxm (g j) (g a))
  /\ (forall j, 0 <= j < a -> strictly_better maxm (g a) (g j)).
Proof.
  induction l as [|v r IH]; intros i bi bv Hbi Hg Hl H1 H2; cbn [arg_scan length].
  - cbn zeta. rewrite Hg. repeat split; try lia; [|assumption].
    intros j Hj. apply H1. lia.
  - assert (Hgi : g i = v).
    { specialize (Hl 0%nat ltac:(cbn; lia)). cbn in Hl. replace (i + 0) with i in Hl by lia. assumption. }
    assert (Hl' : forall t, (t < length r)%nat -> g (i + 1 + Z.of_nat t) = nth t r 0).
    { intros t Ht. specialize (Hl (S t) ltac:(cbn; lia)). cbn [nth] in Hl.
      replace (i + 1 + Z.of_nat t) with (i + Z.of_nat (S t)) by lia. assumption. }
    destruct (better maxm v bv) eqn:E.
    + apply better_spec in E.
      destruct (IH (i + 1) i v) as [A1 [A2 A3]]; try assumption; try lia.
      * intros j Hj. destruct (Z.eq_dec j i) as [->|Hne]; [rewrite Hgi; apply sb_irrefl|].
        specialize (H1 j ltac:(lia)). unfold strictly_better in *. destruct maxm; lia.
      * intros j Hj. specialize (H1 j ltac:(lia)). unfold strictly_better in *. destruct maxm; lia.
      * cbn zeta. repeat split; try lia.
        -- intros j Hj. apply A2. lia.
        -- assumption.
    + assert (E' : ~ strictly_better maxm v bv) by (rewrite <- better_spec, E; discriminate).
      destruct (IH (i + 1) bi bv) as [A1 [A2 A3]]; try assumption; try lia.
      * intros j Hj. destruct (Z.eq_dec j i) as [->|Hne]; [rewrite Hgi; assumption|]. apply H1. lia.
      * cbn zeta. repeat split; try lia.
        -- intros j Hj. apply A2. lia.
        -- assumption.
Qed.

Definition zn (l : list Z) (j : Z) : Z := nth (Z.to_nat j) l 0.

Lemma np_argbest_spec maxm l :
  l <> [] ->
  let a := np_argbest maxm l in
  0 <= a < Z.of_nat (length l)
  /\ (forall j, 0 <= j < Z.of_nat (length l) -> ~ strictly_better maxm (zn l j) (zn l a))
  /\ (forall j, 0 <= j < a -> strictly_better maxm (zn l a) (zn l j)).
Proof.
  destruct l as [|v r]; [congruence|]. intros _. cbn [np_argbest].
  destruct (arg_scan_spec maxm (zn (v :: r)) r 1 0 v) as [A1 [A2 A3]]; try lia.
  - reflexivity.
  - intros t Ht. unfold zn. replace (Z.to_nat (1 + Z.of_nat t)) with (S t) by lia. reflexivity.
  - intros j Hj. replace j with 0 by lia. unfold zn. cbn. apply sb_irrefl.
  - cbn zeta. cbn [length]. repeat split; try lia.
    + intros j Hj. apply A2. lia.
    + assumption.
Qed.

(* the first unstored position *)
Lemma first_gap_spec : forall l cur,
  StronglySorted Z.lt l -> Forall (fun c => cur < c) l ->
  let j0 := first_gap l cur (cur + 1) in
  cur < j0 <= cur + 1 + Z.of_nat (length l)
  /\ ~ In j0 l
  /\ (forall j, cur < j < j0 -> In j l).
Proof.
  induction l as [|c r IH]; intros cur Hs Hb; cbn [first_gap length].
  - cbn zeta. repeat split; try lia. intros [].
  - inversion Hs as [|? ? Hs' Hall]; subst. inversion Hb as [|? ? Hc Hb']; subst.
    rewrite Forall_forall in Hall.
    destruct (Z.ltb_spec 1 (c - cur)) as [Hgap|Hno]; cbn zeta.
    + repeat split; try lia.
      intros [Heq|Hin]; [lia|]. apply Hall in Hin. lia.
    + assert (c = cur + 1) by lia. subst c.
      destruct (IH (cur + 1) Hs') as [A1 [A2 A3]].
      { apply Forall_forall. intros x Hx. apply Hall. assumption. }
      cbn zeta in A1, A2, A3. repeat split; try lia.
      * intros [Heq|Hin]; [lia|contradiction].
      * intros j Hj. destruct (Z.eq_dec j (cur + 1)) as [->|Hne]; [left; reflexivity|].
        right. apply A3. lia.
Qed.

Lemma SSlt_full : forall (l : list Z) a n,
  StronglySorted Z.lt l -> Forall (fun i => a <= i < a + Z.of_nat n) l -> length l = n ->
  forall j, a <= j < a + Z.of_nat n -> In j l.
Proof.
  induction l as [|x l IH]; intros a n Hs Hb Hlen j Hj; [cbn in Hlen; subst; lia|].
  inversion Hs as [|? ? Hs' Hall]; subst. inversion Hb as [|? ? Hx Hb']; subst.
  rewrite Forall_forall in Hall, Hb'. cbn [length] in *.
  assert (Hx_eq : x = a).
  { destruct (Z.eq_dec x a); [assumption|exfalso].
    assert (Hle : (length l <= Z.to_nat (a + Z.of_nat (S (length l)) - (x + 1)))%nat).
    { apply (SSlt_range_length l (x + 1)); [assumption|].
      apply Forall_forall. intros i Hi. specialize (Hall _ Hi). specialize (Hb' _ Hi). cbn beta in *. lia. }
    lia. }
  subst x. destruct (Z.eq_dec j a) as [->|Hne]; [left; reflexivity|]. right.
  apply (IH (a + 1) (length l)); try assumption; try reflexivity; [|lia].
  apply Forall_forall. intros i Hi. specialize (Hall _ Hi). specialize (Hb' _ Hi). cbn beta in *. lia.
Qed.

Lemma SSlt_nth_mono (l : list Z) b a :
  StronglySorted Z.lt l -> (b < a < length l)%nat -> nth b l 0 < nth a l 0.
Proof.
  intros Hs. revert b a. induction Hs as [|x l Hs IH Hall]; intros b a Hba; [cbn in Hba; lia|].
  rewrite Forall_forall in Hall. cbn [length] in Hba.
  destruct a as [|a]; [lia|]. destruct b as [|b]; cbn [nth].
  - apply Hall, nth_In. lia.
  - apply IH. lia.
Qed.

Lemma In_combine_nth (l1 l2 : list Z) i v :
  In (i, v) (combine l1 l2) -> exists b, (b < length l1)%nat /\ (b < length l2)%nat /\ nth b l1 0 = i /\ nth b l2 0 = v.
Proof.
  revert l2. induction l1 as [|x l1 IH]; intros [|y l2] H; try destruct H.
  - inversion H; subst. exists 0%nat. cbn. repeat split; lia.
  - destruct (IH l2 H) as [b [H1 [H2 [H3 H4]]]]. exists (S b). cbn. repeat split; try lia; assumption.
Qed.

Lemma nth_In_combine (l1 l2 : list Z) b :
  length l1 = length l2 -> (b < length l1)%nat -> In (nth b l1 0, nth b l2 0) (combine l1 l2).
Proof.
  intros H1 H2. rewrite <- combine_nth by assumption. apply nth_In. rewrite combine_length. lia.
Qed.

(* one trace (all positions of the reduced axis for one index of the other axes): f is its dense
   meaning, mrc/md the stored positions (increasing) and values *)
Lemma SS_map_fst_filter_gen {A B} (R : A -> A -> Prop) (ks : list A) (vs : list B) p :
  StronglySorted R ks -> StronglySorted R (map fst (filter p (combine ks vs))).
Proof.
  intros Hs. revert vs. induction Hs as [|k ks Hs IH Hall]; intros [|v vs]; cbn; try constructor.
  destruct (p (k, v)); cbn; [|apply IH].
  constructor; [apply IH|]. apply Forall_forall. intros x Hx. apply in_map_iff in Hx.
  destruct Hx as [[a b] [<- Hin]]. apply filter_In in Hin. destruct Hin as [Hin _]. apply in_combine_l in Hin.
  rewrite Forall_forall in Hall. apply Hall. assumption.
Qed.

Lemma filter_length_le {A} (p : A -> bool) l : (length (filter p l) <= length l)%nat.
Proof. induction l as [|a l IH]; cbn; [lia|]. destruct (p a); cbn; lia. Qed.

Lemma col_first_best maxm fill N (mrc md : list Z) (f : Z -> Z) :
  StronglySorted Z.lt mrc -> Forall (fun i => 0 <= i < N) mrc -> length md = length mrc -> 0 < N ->
  (forall i v, In (i, v) (combine mrc md) -> f i = v) ->
  (forall i, ~ In i mrc -> f i = fill) ->
  first_best_on maxm f N
    (if existsb (fun d => better maxm d fill) md || (zlen md =? N)
     then znth mrc (np_argbest maxm md)
     else first_gap (np_sort (map fst (filter (fun p => negb (snd p =? fill)) (combine mrc md)))) (-1) 0).
Proof.
  intros Hs Hr Hlen HN Hst Hun.
  assert (Hle : (length mrc <= Z.to_nat N)%nat).
  { apply (SSlt_range_length mrc 0); [assumption|]. eapply Forall_impl; [|exact Hr]. intros; cbn beta in *. lia. }
  assert (Hval : forall j, In j mrc -> exists b, (b < length mrc)%nat /\ nth b mrc 0 = j /\ f j = nth b md 0).
  { intros j Hj. destruct (In_nth mrc j 0 Hj) as [b [Hb Hn]]. exists b. repeat split; try assumption.
    apply Hst. rewrite <- Hn. apply nth_In_combine; [lia|assumption]. }
  destruct (existsb (fun d => better maxm d fill) md || (zlen md =? N)) eqn:T.
  - (* a stored value wins *)
    assert (Hne : md <> []).
    { intros ->. cbn in T. unfold zlen in T. cbn in T. destruct (Z.eqb_spec 0 N); [lia|discriminate]. }
    destruct (np_argbest_spec maxm md Hne) as [A1 [A2 A3]]. cbn zeta in A1, A2, A3.
    set (a := np_argbest maxm md) in *. set (b0 := Z.to_nat a).
    assert (Hb0 : (b0 < length mrc)%nat) by lia.
    assert (Hi : znth mrc a = nth b0 mrc 0) by reflexivity.
    assert (Hfi : f (nth b0 mrc 0) = zn md a).
    { apply Hst. unfold zn. fold b0. apply nth_In_combine; [lia|assumption]. }
    assert (Hfill : forall j, 0 <= j < N -> ~ In j mrc -> strictly_better maxm (zn md a) fill).
    { intros j Hj Hnj. apply orb_true_iff in T. destruct T as [T|T].
      - apply existsb_exists in T. destruct T as [d [Hd Hbt]]. apply better_spec in Hbt.
        destruct (In_nth md d 0 Hd) as [b [Hb Hn]].
        specialize (A2 (Z.of_nat b) ltac:(lia)). unfold zn at 1 in A2. rewrite Nat2Z.id, Hn in A2.
        unfold strictly_better in *. destruct maxm; lia.
      - exfalso. apply Hnj. apply (SSlt_full mrc 0 (length mrc)); try assumption; try reflexivity.
        + eapply Forall_impl; [|exact Hr]. intros i Hi'. cbn beta in *.
          apply Z.eqb_eq in T. unfold zlen in T. lia.
        + apply Z.eqb_eq in T. unfold zlen in T. lia. }
    rewrite Hi. repeat split.
    + rewrite Forall_forall in Hr. apply Hr, nth_In. assumption.
    + rewrite Forall_forall in Hr. apply Hr, nth_In. assumption.
    + intros j Hj. rewrite Hfi. destruct (in_dec Z.eq_dec j mrc) as [Hin|Hnin].
      * destruct (Hval j Hin) as [b [Hb [_ Hfj]]]. rewrite Hfj.
        specialize (A2 (Z.of_nat b) ltac:(lia)). unfold zn at 1 in A2. rewrite Nat2Z.id in A2. exact A2.
      * rewrite (Hun j Hnin). specialize (Hfill j Hj Hnin). unfold strictly_better in *. destruct maxm; lia.
    + intros j Hj. rewrite Hfi. destruct (in_dec Z.eq_dec j mrc) as [Hin|Hnin].
      * destruct (Hval j Hin) as [b [Hb [Hnb Hfj]]]. rewrite Hfj.
        assert (Hbb : (b < b0)%nat).
        { destruct (Nat.lt_trichotomy b b0) as [?|[->|Hgt]]; [assumption|lia|].
          pose proof (SSlt_nth_mono mrc b0 b Hs ltac:(lia)). lia. }
        specialize (A3 (Z.of_nat b) ltac:(lia)). unfold zn at 2 in A3. rewrite Nat2Z.id in A3. exact A3.
      * rewrite (Hun j Hnin). apply (Hfill j); [|assumption].
        rewrite Forall_forall in Hr. specialize (Hr _ (nth_In mrc 0 Hb0)). lia.
  - (* the fill value wins: first position that is unstored or stores the fill value itself *)
    apply orb_false_iff in T. destruct T as [T1 T2].
    set (ps' := filter (fun p => negb (snd p =? fill)) (combine mrc md)). set (mrc' := map fst ps').
    assert (Hlt : forall d, In d md -> d <> fill -> strictly_better maxm fill d).
    { intros d Hd Hne.
      assert (Hnb : better maxm d fill = false).
      { destruct (better maxm d fill) eqn:E; [|reflexivity].
        assert (existsb (fun d => better maxm d fill) md = true) by (apply existsb_exists; exists d; auto).
        congruence. }
      assert (~ strictly_better maxm d fill) by (rewrite <- better_spec, Hnb; discriminate).
      unfold strictly_better in *. destruct maxm; lia. }
    assert (Hs' : StronglySorted Z.lt mrc') by (apply SS_map_fst_filter_gen; assumption).
    assert (Hsub : forall i, In i mrc' -> exists v, In (i, v) (combine mrc md) /\ v <> fill).
    { intros i Hi. apply in_map_iff in Hi. destruct Hi as [[i' v] [Ei Hin]]. cbn in Ei. subst i'.
      apply filter_In in Hin. destruct Hin as [Hin Hv]. cbn [snd] in Hv. rewrite negb_true_iff, Z.eqb_neq in Hv.
      exists v. auto. }
    assert (Hr' : Forall (fun i => 0 <= i < N) mrc').
    { apply Forall_forall. intros i Hi. destruct (Hsub i Hi) as [v [Hin _]]. apply in_combine_l in Hin.
      rewrite Forall_forall in Hr. auto. }
    assert (Hun' : forall i, ~ In i mrc' -> f i = fill).
    { intros i Hni. destruct (in_dec Z.eq_dec i mrc) as [Hin|Hnin]; [|apply Hun; assumption].
      destruct (Hval i Hin) as [b [Hb [Hnb Hfi]]].
      destruct (Z.eq_dec (nth b md 0) fill) as [E|E]; [congruence|].
      exfalso. apply Hni. apply in_map_iff. exists (i, nth b md 0). split; [reflexivity|].
      apply filter_In. split; [rewrite <- Hnb; apply nth_In_combine; [lia|assumption]|].
      cbn [snd]. rewrite negb_true_iff, Z.eqb_neq. assumption. }
    assert (Hlen' : (length mrc' <= length mrc)%nat).
    { unfold mrc', ps'. rewrite map_length. etransitivity; [apply filter_length_le|].
      rewrite combine_length. lia. }
    rewrite (np_sort_of_sorted mrc') by (apply SSlt_SSle; assumption).
    destruct (first_gap_spec mrc' (-1) Hs') as [G1 [G2 G3]].
    { eapply Forall_impl; [|exact Hr']. intros; cbn beta in *. lia. }
    cbn zeta in G1, G2, G3. change (-1 + 1) with 0 in G1, G2, G3.
    set (j0 := first_gap mrc' (-1) 0) in *.
    assert (Hj0 : j0 < N).
    { apply Z.eqb_neq in T2. unfold zlen in T2. lia. }
    repeat split; try lia.
    + intros j Hj. rewrite (Hun' j0 G2). destruct (in_dec Z.eq_dec j mrc') as [Hin|Hnin].
      * destruct (Hsub j Hin) as [v [Hv Hne]]. rewrite (Hst j v Hv).
        assert (Hd : In v md) by (eapply in_combine_r; exact Hv).
        specialize (Hlt _ Hd Hne). unfold strictly_better in *. destruct maxm; lia.
      * rewrite (Hun' j Hnin). apply sb_irrefl.
    + intros j Hj. rewrite (Hun' j0 G2).
      destruct (Hsub j (G3 j ltac:(lia))) as [v [Hv Hne]]. rewrite (Hst j v Hv).
      apply Hlt; [eapply in_combine_r; exact Hv|assumption].
Qed.

(* ---- the stored entries of one trace of a 2-d COO whose coords are (reduce, index) *)

Lemma selc_In k i rc ic : In i (sel k ic rc) <-> In [i; k] (zip2 rc ic).
Proof.
  revert ic. induction rc as [|r rc IH]; intros [|c ic]; try (rewrite ?sel_nil_r, ?sel_nil_l; cbn; tauto).
  rewrite sel_cons, zip2_cons. cbn [In]. destruct (Z.eqb_spec c k) as [->|Hne]; cbn [In]; rewrite IH.
  - split; intros [H|H]; auto; left; [subst; reflexivity|inversion H; reflexivity].
  - split; [auto|]. intros [H|H]; [inversion H; subst; contradiction|assumption].
Qed.

Lemma selc_combine_In k i v rc ic data :
  In (i, v) (combine (sel k ic rc) (sel k ic data)) -> In ([i; k], v) (combine (zip2 rc ic) data).
Proof.
  revert rc data. induction ic as [|c ic IH]; intros [|r rc] [|b data] H;
    try (rewrite ?sel_nil_r, ?sel_nil_l in H; try destruct H; fail).
  - rewrite sel_nil_r in H. destruct (sel k (c :: ic) (r :: rc)); destruct H.
  - rewrite !sel_cons in H. rewrite zip2_cons. cbn [combine]. destruct (Z.eqb_spec c k) as [->|Hne].
    + destruct H as [H|H]; [inversion H; subst; left; reflexivity|right; apply IH; assumption].
    + right. apply IH. assumption.
Qed.

Lemma col_sorted k rc ic :
  length ic = length rc -> StronglySorted lex_lt (zip2 rc ic) -> StronglySorted Z.lt (sel k ic rc).
Proof.
  revert ic. induction rc as [|r rc IH]; intros [|c ic] Hlen Hs; try discriminate; [constructor|].
  rewrite zip2_cons in Hs. inversion Hs as [|? ? Hs' Hall]; subst. rewrite Forall_forall in Hall.
  cbn [length] in Hlen. rewrite sel_cons. destruct (Z.eqb_spec c k) as [->|Hne]; [|apply IH; [lia|assumption]].
  constructor; [apply IH; [lia|assumption]|]. apply Forall_forall. intros i Hi.
  apply selc_In in Hi. specialize (Hall _ Hi). cbn in Hall. lia.
Qed.

Lemma sel3 k ic rc data :
  length rc = length ic -> length data = length ic ->
  let m := filter (fun t => fst t =? k) (combine ic (combine rc data)) in
  map (fun t => fst (snd t)) m = sel k ic rc /\ map (fun t => snd (snd t)) m = sel k ic data.
Proof.
  revert rc data. induction ic as [|c ic IH]; intros [|r rc] [|d data] H1 H2; try discriminate; [split; reflexivity|].
  cbn [length] in H1, H2. destruct (IH rc data ltac:(lia) ltac:(lia)) as [E1 E2]. cbn zeta in *.
  cbn [combine filter fst]. rewrite !sel_cons. destruct (c =? k); cbn [map fst snd]; rewrite E1, E2; split; reflexivity.
Qed.

Fixpoint alist_get (k : Z) (l : list (Z * Z)) (d : Z) : Z :=
  match l with
  | [] => d
  | (a, v) :: r => if a =? k then v else alist_get k r d
  end.

Lemma alist_get_map (F : Z -> Z) k l d :
  alist_get k (combine l (map F l)) d = if in_dec Z.eq_dec k l then F k else d.
Proof.
  induction l as [|a l IH]; [reflexivity|]. cbn [map combine alist_get].
  destruct (Z.eqb_spec a k) as [->|Hne].
  - destruct (in_dec Z.eq_dec k (k :: l)) as [_|Hn]; [reflexivity|exfalso; apply Hn; left; reflexivity].
  - rewrite IH. destruct (in_dec Z.eq_dec k l) as [Hi|Hn]; destruct (in_dec Z.eq_dec k (a :: l)) as [Hi'|Hn']; try reflexivity.
    + exfalso. apply Hn'. right. assumption.
    + destruct Hi' as [->|?]; [contradiction|contradiction].
Qed.

(* the value the result array of argmax/argmin holds for index k: COO(result_indices, result_data,
   fill_value=0) read at k *)
Definition arg_result (r : list Z * list Z) (k : Z) : Z := alist_get k (combine (fst r) (snd r)) 0.

Lemma argminmax_first_proof rc ic data N M fill maxm :
  length ic = length rc -> 0 < N ->
  canonical Z (mkCOO [N; M] (zip2 rc ic) data fill) ->
  forall k,
    first_best_on maxm (fun i => den (mkCOO [N; M] (zip2 rc ic) data fill) [i; k]) N
                  (arg_result (minmax_args rc ic data N fill maxm) k).
Proof.
  intros Hlen HN Hc k. pose proof Hc as [Hr [Hs Hl]]. cbn [c_shape c_coords c_data] in Hr, Hs, Hl.
  assert (Hzl : length (zip2 rc ic) = length rc).
  { unfold zip2. rewrite map_length, combine_length. lia. }
  destruct (zip2_in_range N M rc ic Hr Hlen) as [Hrr _].
  destruct (sel3 k ic rc data ltac:(lia) ltac:(lia)) as [E1 E2]. cbn zeta in E1, E2.
  unfold arg_result, minmax_args. cbn [fst snd].
  rewrite alist_get_map. cbv beta. rewrite E1, E2.
  assert (Hcol :
    first_best_on maxm (fun i => den (mkCOO [N; M] (zip2 rc ic) data fill) [i; k]) N
      (if existsb (fun d => better maxm d fill) (sel k ic data) || (zlen (sel k ic data) =? N)
       then znth (sel k ic rc) (np_argbest maxm (sel k ic data))
       else first_gap (np_sort (map fst (filter (fun p => negb (snd p =? fill))
                                                (combine (sel k ic rc) (sel k ic data))))) (-1) 0)).
  { apply col_first_best; try assumption.
    - apply col_sorted; assumption.
    - apply sel_Forall. assumption.
    - apply sel_length; lia.
    - intros i v Hin. apply den_stored; [assumption|]. unfold entries. cbn [c_coords c_data].
      apply selc_combine_In. assumption.
    - intros i Hn. apply den_unstored. cbn [c_coords]. intros Hin. apply Hn. apply selc_In. assumption. }
  destruct (in_dec Z.eq_dec k (np_unique ic)) as [Hin|Hnin]; [exact Hcol|].
  (* no stored entry in this trace: the answer is the result's fill value 0 *)
  assert (Hnone : Forall (fun g => g <> k) ic).
  { apply Forall_forall. intros g Hg ->. apply Hnin. apply np_unique_In. assumption. }
  rewrite !(sel_none k ic) in Hcol by assumption. cbn [existsb orb] in Hcol.
  unfold zlen in Hcol. cbn [length] in Hcol.
  destruct (Z.eqb_spec (Z.of_nat 0) N) as [E|_]; [cbn in E; lia|]. exact Hcol.
Qed.

Example argminmax_example :
  let rc := [0; 0; 1; 2; 2] in let ic := [0; 1; 1; 0; 2] in let data := [-1; 4; 4; -2; -3] in
  canonicalb (mkCOO [3; 3] (zip2 rc ic) data 0) = true
  /\ prunedb Z.eqb (mkCOO [3; 3] (zip2 rc ic) data 0) = true
  /\ minmax_args rc ic data 3 0 true = ([0; 1; 2], [1; 0; 0])
  /\ minmax_args rc ic data 3 0 false = ([0; 1; 2], [2; 2; 2]).
Proof. vm_compute. auto. Qed.

(* ================================================================== the declarative readings determine the NumPy answer *)

Lemma ord_le_SS desc l : Sorted (ord_le desc) l -> StronglySorted (ord_le desc) l.
Proof.
  apply Sorted_StronglySorted. intros a b c. apply ord_le_trans.
Qed.

Lemma is_sort_of_unique desc l l' : is_sort_of desc l l' -> l' = np_sort_dir desc l.
Proof.
  intros [Hs Hp]. apply ord_le_SS in Hs. unfold np_sort_dir. destruct desc.
  - (* descending: the reverse is ascending *)
    rewrite <- (rev_involutive l'). f_equal. apply sorted_perm_unique.
    + apply (SS_rev (ord_le true)) in Hs. eapply StronglySorted_ind with (P := fun l => StronglySorted Z.le l);
        [constructor| |exact Hs].
      intros a l0 _ IH Hall. constructor; [exact IH|exact Hall].
    + apply np_sort_sorted.
    + etransitivity; [apply Permutation_sym, Permutation_rev|].
      etransitivity; [apply Permutation_sym; exact Hp|apply np_sort_perm].
  - apply sorted_perm_unique; [exact Hs|apply np_sort_sorted|].
    etransitivity; [apply Permutation_sym; exact Hp|apply np_sort_perm].
Qed.

Lemma first_best_unique maxm f n i j : first_best_on maxm f n i -> first_best_on maxm f n j -> i = j.
Proof.
  intros [Hi [Hi1 Hi2]] [Hj [Hj1 Hj2]].
  destruct (Z.lt_trichotomy i j) as [Hlt|[->|Hgt]]; [|reflexivity|].
  - exfalso. apply (Hi1 j Hj). apply Hj2. lia.
  - exfalso. apply (Hj1 i Hi). apply Hi2. lia.
Qed.

Lemma zn_map_zrange (f : Z -> Z) n j : 0 <= j < n -> zn (map f (zrange n)) j = f j.
Proof.
  intros Hj. unfold zn, zrange. rewrite map_map.
  rewrite (nth_indep _ 0 (f (Z.of_nat 0))) by (rewrite map_length, seq_length; lia).
  rewrite (map_nth (fun x => f (Z.of_nat x))). rewrite seq_nth by lia. f_equal. lia.
Qed.

(* a first-best index of a line is what np.argmax / np.argmin return on that line *)
Lemma first_best_np maxm f n i :
  first_best_on maxm f n i -> i = np_argbest maxm (map f (zrange n)).
Proof.
  intros H. pose proof H as [Hi _].
  assert (Hlen : Z.of_nat (length (map f (zrange n))) = n).
  { unfold zrange. rewrite !map_length, seq_length. lia. }
  assert (Hne : map f (zrange n) <> []).
  { intros E. rewrite E in Hlen. cbn in Hlen. lia. }
  destruct (np_argbest_spec maxm _ Hne) as [A1 [A2 A3]]. cbn zeta in A1, A2, A3. rewrite Hlen in A1, A2.
  apply (first_best_unique maxm f n); [assumption|].
  set (a := np_argbest maxm (map f (zrange n))) in *.
  repeat split; try lia.
  - intros j Hj. specialize (A2 j Hj). rewrite !zn_map_zrange in A2 by lia. exact A2.
  - intros j Hj. specialize (A3 j Hj). rewrite !zn_map_zrange in A3 by lia. exact A3.
Qed.

(* ================================================================== concrete counter-examples (by computation)
   of the statements that are FALSE of the code as it stands; each is the reason for one named
   domain clause of Corr/C10Judge.v *)



(* ================================================================== the sort wrapper
   On a 2-d array along its last axis and on a 1-d array the plumbing of `sort` (normalize_axis,
   moveaxis, the two reshapes, squeeze(0)) is the identity, so sparse.sort IS the kernel there. *)

Lemma zip2_cols (R L : Z) (cs : list idx) :
  Forall (in_range [R; L]) cs ->
  zip2 (map (fun ix => znth ix 0) cs) (map (fun ix => znth ix 1) cs) = cs.
Proof.
  induction 1 as [|ix cs Hix _ IH]; [reflexivity|].
  cbn [map]. rewrite zip2_cons, IH. f_equal.
  destruct ix as [|a [|b [|c t]]]; cbn in Hix; try tauto; try reflexivity.
Qed.

Definition last_axis_2d (axis : Z) : Prop := axis = 1 \/ axis = -1.

Lemma ss_sort_2d_last (R L axis : Z) (cs : list idx) (data : list Z) (fill : Z) (desc : bool) :
  last_axis_2d axis ->
  let gc := map (fun ix => znth ix 0) cs in
  let sc := map (fun ix => znth ix 1) cs in
  ss_sort (mkCOO [R; L] cs data fill) axis desc
  = Ok (let '(g, ri, d) := sort_coo gc sc data fill L desc in mkCOO [R; L] (zip2 g ri) d fill).
Proof.
  intros Hax gc sc. unfold ss_sort.
  assert (Hn : norm_axis (ndimZ (mkCOO [R; L] cs data fill)) axis = Some 1%nat)
    by (destruct Hax as [-> | ->]; reflexivity).
  rewrite Hn.
  change (ndimZ (mkCOO [R; L] cs data fill) =? 1) with false. cbv iota.
  change (ss_moveaxis (mkCOO [R; L] cs data fill) (Z.of_nat 1) (-1)) with (Ok (mkCOO [R; L] cs data fill)).
  cbn [bind c_shape last removelast].
  replace (size [R]) with R by (cbn [size fold_right]; lia).
  unfold ss_reshape at 1. cbn [c_shape]. rewrite idx_eqb_refl. cbn [bind c_coords c_data c_fill c_shape].
  fold gc sc. destruct (sort_coo gc sc data fill L desc) as [[g ri] d].
  unfold ss_reshape at 1. cbn [c_shape]. rewrite idx_eqb_refl. cbn [bind].
  change (ss_moveaxis (mkCOO [R; L] (zip2 g ri) d fill) (-1) (Z.of_nat 1))
    with (Ok (mkCOO [R; L] (zip2 g ri) d fill)).
  cbn [bind]. reflexivity.
Qed.

(* sparse.sort along the last axis of a canonical 2-d array: the result is canonical, has the
   same shape and fill value, and every row is np.sort (reversed when descending) of the dense row *)
Lemma sort_2d_last_axis_proof (R L axis : Z) (cs : list idx) (data : list Z) (fill : Z) (desc : bool) :
  last_axis_2d axis -> 0 <= L ->
  canonical Z (mkCOO [R; L] cs data fill) ->
  exists y, ss_sort (mkCOO [R; L] cs data fill) axis desc = Ok y
    /\ c_shape y = [R; L] /\ c_fill y = fill /\ canonical Z y
    /\ forall r, 0 <= r < R -> row2 y L r = np_sort_dir desc (row2 (mkCOO [R; L] cs data fill) L r).
Proof.
  intros Hax HL Hc. pose proof Hc as [Hr [Hs Hl]]. cbn [c_shape c_coords c_data] in Hr, Hs, Hl.
  rewrite (ss_sort_2d_last R L axis cs data fill desc Hax). cbv zeta.
  set (gc := map (fun ix => znth ix 0) cs). set (sc := map (fun ix => znth ix 1) cs).
  assert (Hz : zip2 gc sc = cs) by (apply (zip2_cols R L); assumption).
  assert (Hlen : length sc = length gc) by (unfold sc, gc; rewrite !map_length; reflexivity).
  destruct (sort_coo gc sc data fill L desc) as [[g ri] d] eqn:E.
  assert (Hg : g = gc).
  { unfold sort_coo in E. destruct (sort_scan desc fill L gc data (-1) []). inversion E. reflexivity. }
  subst g. rewrite <- Hz in Hc.
  destruct (sort_coo_row_proof gc sc data fill R L desc ri d Hlen HL Hc E) as [Hcy Hrows].
  eexists. split; [reflexivity|]. repeat split; try assumption; try apply Hcy.
  intros r Hr0. rewrite <- Hz. apply is_sort_of_unique. apply Hrows. assumption.
Qed.

(* ---- 1-d input: x[None, :], the kernel, squeeze(0) *)

Lemma lookup_cons0 (es : list (idx * Z)) ix :
  lookup (map (fun kv => (0 :: fst kv, snd kv)) es) (0 :: ix) = lookup es ix.
Proof.
  induction es as [|[k v] r IH]; [reflexivity|]. cbn [map lookup fst snd]. rewrite IH.
  destruct (lookup r ix); [reflexivity|]. cbn [idx_eqb]. change (0 =? 0) with true. reflexivity.
Qed.

Lemma combine_map_cons0 (cs : list idx) (data : list Z) :
  combine (map (cons 0) cs) data = map (fun kv => (0 :: fst kv, snd kv)) (combine cs data).
Proof.
  revert data. induction cs as [|c cs IH]; intros [|d data]; try reflexivity. cbn. rewrite IH. reflexivity.
Qed.

Lemma den_newaxis_front (x : coo Z) ix : den (newaxis_front x) (0 :: ix) = den x ix.
Proof.
  unfold den, entries, newaxis_front. cbn [c_coords c_data c_fill].
  rewrite combine_map_cons0, lookup_cons0. reflexivity.
Qed.

Lemma SS_map_cons_inv i l : StronglySorted lex_lt (map (cons i) l) -> StronglySorted lex_lt l.
Proof.
  induction l as [|a l IH]; cbn; intros H; [constructor|].
  inversion H as [|? ? Hs Hall]; subst. constructor; [apply IH; assumption|].
  rewrite Forall_forall in *. intros b Hb. specialize (Hall (i :: b) (in_map _ _ _ Hb)).
  cbn in Hall. destruct Hall as [?|[_ ?]]; [lia|assumption].
Qed.

Lemma canonical_newaxis_front (x : coo Z) :
  canonical Z x <-> canonical Z (newaxis_front x).
Proof.
  unfold canonical, newaxis_front. cbn [c_shape c_coords c_data]. rewrite map_length.
  split; intros [Hr [Hs Hl]]; repeat split; try assumption.
  - apply Forall_forall. intros ix Hix. apply in_map_iff in Hix. destruct Hix as [t [<- Ht]].
    rewrite Forall_forall in Hr. cbn. split; [lia|apply Hr; assumption].
  - apply SS_map_cons. assumption.
  - apply Forall_forall. intros ix Hix. rewrite Forall_forall in Hr.
    specialize (Hr (0 :: ix) (in_map _ _ _ Hix)). cbn in Hr. tauto.
  - apply (SS_map_cons_inv 0). assumption.
Qed.

Definition flat1 (c : coo Z) (n : Z) : list Z := map (fun j => den c [j]) (zrange n).

Lemma row2_newaxis_front (x : coo Z) n : row2 (newaxis_front x) n 0 = flat1 x n.
Proof. unfold row2, flat1. apply map_ext. intros j. apply den_newaxis_front. Qed.

Lemma zip2_zero_cols (n : Z) (cs : list idx) :
  Forall (in_range [1; n]) cs ->
  cs = map (cons 0) (map (fun ix => remove_nth ix 0) cs).
Proof.
  induction 1 as [|ix cs Hix _ IH]; [reflexivity|]. cbn [map]. rewrite <- IH. f_equal.
  destruct ix as [|a [|b [|c t]]]; cbn in Hix; try tauto.
  unfold remove_nth. cbn. f_equal. lia.
Qed.

Lemma ss_sort_1d (n axis : Z) (cs : list idx) (data : list Z) (fill : Z) (desc : bool) :
  (axis = 0 \/ axis = -1) ->
  let cs2 := map (cons 0) cs in
  let gc := map (fun ix => znth ix 0) cs2 in
  let sc := map (fun ix => znth ix 1) cs2 in
  ss_sort (mkCOO [n] cs data fill) axis desc
  = Ok (let '(g, ri, d) := sort_coo gc sc data fill n desc in
        mkCOO [n] (map (fun ix => remove_nth ix 0) (zip2 g ri)) d fill).
Proof.
  intros Hax cs2 gc sc. unfold ss_sort.
  assert (Hna : norm_axis (ndimZ (mkCOO [n] cs data fill)) axis = Some 0%nat)
    by (destruct Hax as [-> | ->]; reflexivity).
  rewrite Hna. change (ndimZ (mkCOO [n] cs data fill) =? 1) with true. cbv iota.
  change (newaxis_front (mkCOO [n] cs data fill)) with (mkCOO [1; n] cs2 data fill).
  change (ss_moveaxis (mkCOO [1; n] cs2 data fill) (-1) (-1)) with (Ok (mkCOO [1; n] cs2 data fill)).
  cbn [bind c_shape last removelast].
  replace (size [1]) with 1 by reflexivity.
  unfold ss_reshape at 1. cbn [c_shape]. rewrite idx_eqb_refl. cbn [bind c_coords c_data c_fill c_shape].
  fold gc sc. destruct (sort_coo gc sc data fill n desc) as [[g ri] d].
  unfold ss_reshape at 1. cbn [c_shape]. rewrite idx_eqb_refl. cbn [bind].
  change (ss_moveaxis (mkCOO [1; n] (zip2 g ri) d fill) (-1) (-1)) with (Ok (mkCOO [1; n] (zip2 g ri) d fill)).
  cbn [bind]. change (ndimZ (mkCOO [1; n] (zip2 g ri) d fill) =? ndimZ (mkCOO [n] cs data fill)) with false.
  cbv iota. unfold ss_squeeze_axis. cbn [c_shape c_coords c_data c_fill].
  change (znth [1; n] 0 =? 1) with true. cbn [negb]. reflexivity.
Qed.

(* sparse.sort of a canonical 1-d array: canonical 1-d result whose dense data is np.sort
   (reversed when descending) of the dense input *)
Lemma sort_1d_proof (n axis : Z) (cs : list idx) (data : list Z) (fill : Z) (desc : bool) :
  (axis = 0 \/ axis = -1) -> 0 <= n ->
  canonical Z (mkCOO [n] cs data fill) ->
  exists y, ss_sort (mkCOO [n] cs data fill) axis desc = Ok y
    /\ c_shape y = [n] /\ c_fill y = fill /\ canonical Z y
    /\ flat1 y n = np_sort_dir desc (flat1 (mkCOO [n] cs data fill) n).
Proof.
  intros Hax Hn Hc. set (x := mkCOO [n] cs data fill) in *.
  pose proof (proj1 (canonical_newaxis_front x) Hc) as Hc2.
  change (newaxis_front x) with (mkCOO [1; n] (map (cons 0) cs) data fill) in Hc2.
  unfold x. rewrite (ss_sort_1d n axis cs data fill desc Hax). cbv zeta.
  set (cs2 := map (cons 0) cs) in *.
  set (gc := map (fun ix => znth ix 0) cs2). set (sc := map (fun ix => znth ix 1) cs2).
  pose proof Hc2 as [Hr2 _]. cbn [c_shape c_coords] in Hr2.
  assert (Hz : zip2 gc sc = cs2) by (apply (zip2_cols 1 n); assumption).
  assert (Hlen : length sc = length gc) by (unfold sc, gc; rewrite !map_length; reflexivity).
  destruct (sort_coo gc sc data fill n desc) as [[g ri] d] eqn:E.
  assert (Hg : g = gc).
  { unfold sort_coo in E. destruct (sort_scan desc fill n gc data (-1) []). inversion E. reflexivity. }
  subst g. rewrite <- Hz in Hc2.
  destruct (sort_coo_row_proof gc sc data fill 1 n desc ri d Hlen Hn Hc2 E) as [Hcy Hrows].
  set (y := mkCOO [n] (map (fun ix => remove_nth ix 0) (zip2 gc ri)) d fill).
  pose proof Hcy as [Hry _]. cbn [c_shape c_coords] in Hry.
  assert (Hy : mkCOO [1; n] (zip2 gc ri) d fill = newaxis_front y).
  { unfold newaxis_front, y. cbn [c_shape c_coords c_data c_fill]. f_equal.
    apply (zip2_zero_cols n). assumption. }
  exists y. split; [reflexivity|]. repeat split.
  - apply canonical_newaxis_front. rewrite <- Hy. assumption.
  - apply canonical_newaxis_front. rewrite <- Hy. assumption.
  - apply canonical_newaxis_front. rewrite <- Hy. assumption.
  - rewrite <- (row2_newaxis_front y), <- Hy.
    rewrite (is_sort_of_unique desc _ _ (Hrows 0 ltac:(lia))). f_equal.
    rewrite Hz. apply (row2_newaxis_front x).
Qed.

(* ================================================================== sort of a 2-d array along its FIRST axis:
   moveaxis is the transposition (which re-sorts the entries), then the kernel, then the
   transposition back *)

Definition is2 (k : idx) : Prop := exists a b, k = [a; b].
Definition swap2 (ix : idx) : idx := map (znth ix) [1; 0].

Lemma swap2_pair a b : swap2 [a; b] = [b; a].
Proof. reflexivity. Qed.

Definition ele (e1 e2 : idx * Z) : Prop := ~ lex_lt (fst e2) (fst e1).

Lemma lex2_total a1 a2 b1 b2 : ~ lex_lt [b1; b2] [a1; a2] -> [a1; a2] <> [b1; b2] -> lex_lt [a1; a2] [b1; b2].
Proof.
  cbn. intros H Hne. destruct (Z.lt_trichotomy a1 b1) as [?|[->|?]]; [left; assumption| |exfalso; apply H; left; assumption].
  right. split; [reflexivity|]. left.
  destruct (Z.lt_trichotomy a2 b2) as [?|[->|?]]; [assumption|contradiction|].
  exfalso. apply H. right. split; [reflexivity|]. left. assumption.
Qed.

Lemma ele_trans2 e1 e2 e3 : is2 (fst e1) -> is2 (fst e2) -> is2 (fst e3) -> ele e1 e2 -> ele e2 e3 -> ele e1 e3.
Proof.
  unfold ele. intros [a1 [a2 ->]] [b1 [b2 ->]] [c1 [c2 ->]]. cbn. intros H1 H2 H3. lia.
Qed.

Lemma insert_entry_perm e l : Permutation (e :: l) (insert_entry e l).
Proof.
  induction l as [|y r IH]; cbn; [reflexivity|].
  destruct (lex_ltb (fst y) (fst e)); [|reflexivity].
  etransitivity; [apply perm_swap|]. apply perm_skip, IH.
Qed.

Lemma sort_entries_perm es : Permutation es (sort_entries es).
Proof.
  induction es as [|e es IH]; cbn; [constructor|].
  etransitivity; [apply perm_skip, IH|apply insert_entry_perm].
Qed.

Lemma insert_entry_sorted e l :
  is2 (fst e) -> Forall (fun y => is2 (fst y)) l ->
  StronglySorted ele l -> StronglySorted ele (insert_entry e l).
Proof.
  intros He Hl Hs. induction Hs as [|y r Hs IH Hall]; cbn.
  - constructor; constructor.
  - inversion Hl as [|? ? Hy Hr]; subst. rewrite Forall_forall in Hall.
    destruct (lex_ltb (fst y) (fst e)) eqn:E.
    + apply lex_ltb_spec in E. constructor; [apply IH; assumption|].
      apply Forall_forall. intros z Hz.
      apply (Permutation_in _ (Permutation_sym (insert_entry_perm e r))) in Hz.
      destruct Hz as [<-|Hz]; [|apply Hall; assumption].
      unfold ele. intros Hlt. apply (lex_lt_irrefl (fst e)). eapply lex_lt_trans; eassumption.
    + assert (Hey : ele e y).
      { unfold ele. intros Hlt. apply lex_ltb_spec in Hlt. congruence. }
      constructor; [constructor; [assumption|apply Forall_forall; assumption]|].
      constructor; [assumption|]. apply Forall_forall. intros z Hz.
      rewrite Forall_forall in Hr. apply (ele_trans2 e y z); auto.
Qed.

Lemma sort_entries_sorted es :
  Forall (fun y => is2 (fst y)) es -> StronglySorted ele (sort_entries es).
Proof.
  induction 1 as [|e es He Hes IH]; cbn; [constructor|].
  apply insert_entry_sorted; [assumption| |assumption].
  apply Forall_forall. intros y Hy.
  apply (Permutation_in _ (Permutation_sym (sort_entries_perm es))) in Hy.
  rewrite Forall_forall in Hes. auto.
Qed.

Lemma ele_strict (l : list (idx * Z)) :
  Forall (fun y => is2 (fst y)) l -> NoDup (map fst l) -> StronglySorted ele l ->
  StronglySorted lex_lt (map fst l).
Proof.
  intros Hl Hnd Hs. induction Hs as [|y r Hs IH Hall]; cbn; [constructor|].
  inversion Hl as [|? ? Hy Hr]; subst. cbn in Hnd. inversion Hnd as [|? ? Hni Hnd']; subst.
  constructor; [apply IH; assumption|]. apply Forall_forall. intros k Hk.
  apply in_map_iff in Hk. destruct Hk as [z [<- Hz]].
  rewrite Forall_forall in Hall, Hr. specialize (Hall z Hz). specialize (Hr z Hz).
  destruct Hy as [a1 [a2 Ea]], Hr as [b1 [b2 Eb]]. unfold ele in Hall. rewrite Ea, Eb in *.
  apply lex2_total; [assumption|]. intros Heq. apply Hni. rewrite Heq, <- Eb. apply in_map. assumption.
Qed.

Lemma combine_fst_snd {A B} (l : list (A * B)) : combine (map fst l) (map snd l) = l.
Proof. induction l as [|[a b] l IH]; cbn; congruence. Qed.

Lemma in_range2_is2 R L ix : in_range [R; L] ix -> is2 ix.
Proof. destruct ix as [|a [|b [|c t]]]; cbn; try tauto. intros _. exists a, b. reflexivity. Qed.

Lemma swap2_NoDup (l : list idx) : Forall is2 l -> NoDup l -> NoDup (map swap2 l).
Proof.
  intros Hf Hnd. induction Hnd as [|ix c Hni Hnd IH]; cbn; constructor.
  - inversion Hf as [|? ? [a [b ->]] Hf']; subst. intros Hin. apply in_map_iff in Hin.
    destruct Hin as [k [Hk Hkin]]. rewrite Forall_forall in Hf'. destruct (Hf' k Hkin) as [a' [b' ->]].
    rewrite !swap2_pair in Hk. inversion Hk; subst. contradiction.
  - apply IH. inversion Hf; assumption.
Qed.

(* the transposition of a canonical 2-d array *)
Section Transpose2.
  Variables (R L : Z) (cs : list idx) (data : list Z) (fill : Z).
  Let x := mkCOO [R; L] cs data fill.
  Hypothesis Hc : canonical Z x.

  Let es' := sort_entries (combine (map swap2 cs) data).
  Let tx := mkCOO [L; R] (map fst es') (map snd es') fill.

  Lemma transpose2_eq : ss_transpose x [1; 0] = tx.
  Proof. reflexivity. Qed.

  Lemma cs_is2 : Forall is2 cs.
  Proof.
    destruct Hc as [Hr _]. cbn [c_shape c_coords x] in Hr. eapply Forall_impl; [|exact Hr].
    intros ix. apply in_range2_is2.
  Qed.

  Lemma es'_In k v : In (k, v) es' <-> In (swap2 k, v) (combine cs data) /\ is2 k.
  Proof.
    unfold es'. split.
    - intros H. apply (Permutation_in _ (Permutation_sym (sort_entries_perm _))) in H.
      assert (G : forall (c : list idx) (d : list Z), Forall is2 c -> In (k, v) (combine (map swap2 c) d) ->
                  In (swap2 k, v) (combine c d) /\ is2 k).
      { induction c as [|ix c IH]; intros [|dv d] Hf Hin; try destruct Hin.
        - inversion Hf as [|? ? [a [b ->]] _]; subst. inversion H0; subst. split; [left; reflexivity|].
          exists b, a. reflexivity.
        - inversion Hf; subst. destruct (IH d H4 H0). split; [right|]; assumption. }
      apply G; [apply cs_is2|assumption].
    - intros [H [a [b ->]]]. apply (Permutation_in _ (sort_entries_perm _)).
      assert (G : forall (c : list idx) (d : list Z), In ([b; a], v) (combine c d) ->
                  In ([a; b], v) (combine (map swap2 c) d)).
      { induction c as [|ix c IH]; intros [|dv d] Hin; try destruct Hin.
        - inversion H0; subst. left. reflexivity.
        - right. apply IH. assumption. }
      apply G. exact H.
  Qed.

  Lemma keys_is2 : Forall (fun y : idx * Z => is2 (fst y)) es'.
  Proof.
    apply Forall_forall. intros [k v] Hin. apply es'_In in Hin. cbn. tauto.
  Qed.

  Lemma swapped_NoDup : NoDup (map swap2 cs).
  Proof.
    destruct Hc as [_ [Hs _]]. cbn [c_coords x] in Hs. apply SS_lex_NoDup in Hs.
    apply swap2_NoDup; [apply cs_is2|assumption].
  Qed.

  Lemma transpose2_canonical : canonical Z tx.
  Proof.
    pose proof Hc as [Hr [Hs Hl]]. cbn [c_shape c_coords c_data x] in Hr, Hs, Hl.
    unfold tx. repeat split; cbn [c_shape c_coords c_data].
    - apply Forall_forall. intros k Hk. apply in_map_iff in Hk. destruct Hk as [[k' v] [<- Hin]].
      apply es'_In in Hin. destruct Hin as [Hin [a [b ->]]]. cbn [fst]. rewrite swap2_pair in Hin.
      apply in_combine_l in Hin. rewrite Forall_forall in Hr. specialize (Hr _ Hin). cbn in *. tauto.
    - apply ele_strict; [apply keys_is2| |apply sort_entries_sorted].
      + eapply Permutation_NoDup; [apply Permutation_map, sort_entries_perm|].
        rewrite combine_map_fst by (rewrite map_length; lia). apply swapped_NoDup.
      + apply Forall_forall. intros [k v] Hin. cbn.
        apply in_combine_l in Hin. apply in_map_iff in Hin. destruct Hin as [ix [<- Hix]].
        pose proof cs_is2 as Hf. rewrite Forall_forall in Hf. destruct (Hf ix Hix) as [a [b ->]].
        exists b, a. reflexivity.
    - rewrite !map_length. reflexivity.
  Qed.

  Lemma transpose2_den i j : den tx [j; i] = den x [i; j].
  Proof.
    destruct (in_dec (list_eq_dec Z.eq_dec) [i; j] cs) as [Hin|Hnin].
    - assert (exists v, In ([i; j], v) (combine cs data)) as [v Hv].
      { pose proof Hc as [_ [_ Hl]]. cbn [c_coords c_data x] in Hl. clear - Hin Hl.
        revert data Hl. induction cs as [|c l IH]; intros [|d dd] Hl; cbn in *; try tauto; try discriminate.
        destruct Hin as [->|Hin]; [exists d; left; reflexivity|].
        destruct (IH Hin dd ltac:(lia)) as [v Hv]. exists v. right. assumption. }
      rewrite (den_stored Z x [i; j] v Hc) by exact Hv.
      apply (den_stored Z tx [j; i] v transpose2_canonical).
      unfold entries, tx. cbn [c_coords c_data]. rewrite combine_fst_snd. apply es'_In.
      split; [exact Hv|exists j, i; reflexivity].
    - rewrite (den_unstored Z x [i; j]) by exact Hnin.
      apply (den_unstored Z tx [j; i]). unfold tx. cbn [c_coords]. intros Hk.
      apply in_map_iff in Hk. destruct Hk as [[k v] [Ek Hkin]]. cbn in Ek. subst k.
      apply es'_In in Hkin. destruct Hkin as [Hkin _]. apply in_combine_l in Hkin. contradiction.
  Qed.
End Transpose2.

Definition col2 (c : coo Z) (R k : Z) : list Z := map (fun i => den c [i; k]) (zrange R).

Lemma sort_2d_first_axis_proof (R L axis : Z) (cs : list idx) (data : list Z) (fill : Z) (desc : bool) :
  (axis = 0 \/ axis = -2) -> 0 <= R ->
  canonical Z (mkCOO [R; L] cs data fill) ->
  exists y, ss_sort (mkCOO [R; L] cs data fill) axis desc = Ok y
    /\ c_shape y = [R; L] /\ c_fill y = fill /\ canonical Z y
    /\ forall k, 0 <= k < L -> col2 y R k = np_sort_dir desc (col2 (mkCOO [R; L] cs data fill) R k).
Proof.
  intros Hax HR Hc. set (x := mkCOO [R; L] cs data fill) in *.
  pose proof (transpose2_canonical R L cs data fill Hc) as Hct.
  pose proof (transpose2_den R L cs data fill Hc) as Hdt.
  set (tx := mkCOO [L; R] _ _ fill) in Hct, Hdt.
  unfold ss_sort.
  assert (Hn : norm_axis (ndimZ x) axis = Some 0%nat) by (destruct Hax as [-> | ->]; reflexivity).
  rewrite Hn. change (ndimZ x =? 1) with false. cbv iota.
  change (ss_moveaxis x (Z.of_nat 0) (-1)) with (Ok tx). cbn [bind].
  (* the middle part is sort along the last axis of tx *)
  destruct (sort_2d_last_axis_proof L R (-1) (c_coords tx) (c_data tx) fill desc (or_intror eq_refl) HR Hct)
    as [y2 [Hy2 [Hsh [Hfl [Hcy Hrow]]]]].
  rewrite (ss_sort_2d_last L R (-1) (c_coords tx) (c_data tx) fill desc (or_intror eq_refl)) in Hy2.
  cbv zeta in Hy2.
  change (c_shape tx) with [L; R]. cbn [last removelast].
  replace (size [L]) with L by (cbn [size fold_right]; lia).
  unfold ss_reshape at 1. change (c_shape tx) with [L; R]. rewrite idx_eqb_refl. cbn [bind].
  change (c_fill tx) with fill. change (c_shape tx) with [L; R].
  destruct (sort_coo (map (fun ix => znth ix 0) (c_coords tx)) (map (fun ix => znth ix 1) (c_coords tx))
                     (c_data tx) fill R desc) as [[g ri] d].
  inversion Hy2 as [Ey2]. clear Hy2.
  unfold ss_reshape at 1. cbn [c_shape]. rewrite idx_eqb_refl. cbn [bind].
  rewrite Ey2. destruct y2 as [sh2 c2 d2 f2]. cbn [c_shape c_fill] in Hsh, Hfl. subst sh2 f2.
  change (ss_moveaxis (mkCOO [L; R] c2 d2 fill) (-1) (Z.of_nat 0))
    with (Ok (ss_transpose (mkCOO [L; R] c2 d2 fill) [1; 0])).
  cbn [bind].
  pose proof (transpose2_canonical L R c2 d2 fill Hcy) as Hcty.
  pose proof (transpose2_den L R c2 d2 fill Hcy) as Hdty.
  rewrite (transpose2_eq L R c2 d2 fill).
  set (y := mkCOO [R; L] _ _ fill) in Hcty, Hdty |- *.
  change (ndimZ y =? ndimZ x) with true. cbv iota.
  exists y. split; [reflexivity|]. repeat split; try apply Hcty.
  intros k Hk. unfold col2.
  transitivity (row2 (mkCOO [L; R] c2 d2 fill) R k).
  - unfold row2. apply map_ext. intros i. apply Hdty.
  - rewrite (Hrow k Hk). f_equal. unfold row2. apply map_ext. intros i. apply Hdt.
Qed.

(* ================================================================== argmax / argmin of a 2-d array along its FIRST
   axis: no transposition of the input; the kernel's answer is pruned, reshaped to (1, M) and,
   without keepdims, squeezed to (M,) *)

Lemma alist_get_In k v (l : list (Z * Z)) d :
  NoDup (map fst l) -> In (k, v) l -> alist_get k l d = v.
Proof.
  induction l as [|[a w] r IH]; intros Hnd Hin; [destruct Hin|].
  cbn in Hnd. inversion Hnd as [|? ? Hni Hnd']; subst. cbn [alist_get].
  destruct Hin as [Hin|Hin].
  - inversion Hin; subst. rewrite Z.eqb_refl. reflexivity.
  - destruct (Z.eqb_spec a k) as [->|_]; [|apply IH; assumption].
    exfalso. apply Hni. apply in_map_iff. exists (k, v). split; [reflexivity|assumption].
Qed.

Lemma alist_get_notin k (l : list (Z * Z)) d : ~ In k (map fst l) -> alist_get k l d = d.
Proof.
  induction l as [|[a w] r IH]; intros Hn; [reflexivity|]. cbn [alist_get].
  destruct (Z.eqb_spec a k) as [->|_]; [exfalso; apply Hn; left; reflexivity|].
  apply IH. intros Hin. apply Hn. right. assumption.
Qed.

Lemma NoDup_emb (emb : Z -> idx) (l : list (idx * Z)) :
  (forall a b, emb a = emb b -> a = b) ->
  (forall e, In e l -> exists i, fst e = [i]) ->
  NoDup (map fst l) -> NoDup (map (fun e => emb (znth (fst e) 0)) l).
Proof.
  intros Hinj. induction l as [|e l IH]; intros Hkeys Hnd; cbn; [constructor|].
  cbn in Hnd. inversion Hnd as [|? ? Hni Hnd']; subst. constructor.
  - intros Hin. apply in_map_iff in Hin. destruct Hin as [e' [Ee He']].
    destruct (Hkeys e (or_introl eq_refl)) as [i Ei]. destruct (Hkeys e' (or_intror He')) as [i' Ei'].
    apply Hinj in Ee. destruct e as [ke ve], e' as [ke' ve']. cbn [fst] in *. subst ke ke'.
    unfold znth in Ee. cbn in Ee. subst i'.
    apply Hni. apply in_map_iff. exists ([i], ve'). split; [reflexivity|assumption].
  - apply IH; [|assumption]. intros e' He'. apply Hkeys. right. assumption.
Qed.

(* the pruned 1-d result array, with its keys embedded by an injective map emb, read at emb k *)
Lemma den_pruned_result (emb : Z -> idx) (sh : shape) (ri rd : list Z) k :
  (forall a b, emb a = emb b -> a = b) ->
  NoDup ri -> length rd = length ri ->
  let es := filter (fun e => negb (snd e =? 0)) (combine (map (fun i => [i]) ri) rd) in
  den (mkCOO sh (map (fun e => emb (znth (fst e) 0)) es) (map snd es) 0) (emb k)
  = alist_get k (combine ri rd) 0.
Proof.
  intros Hinj Hnd Hlen es.
  set (z := mkCOO sh (map (fun e => emb (znth (fst e) 0)) es) (map snd es) 0).
  assert (Hes : forall i v, In ([i], v) es <-> In (i, v) (combine ri rd) /\ v <> 0).
  { intros i v. unfold es. rewrite filter_In. cbn [snd]. rewrite negb_true_iff, Z.eqb_neq.
    assert (G : In ([i], v) (combine (map (fun i => [i]) ri) rd) <-> In (i, v) (combine ri rd)).
    { clear. revert rd. induction ri as [|a r IH]; intros [|b rd]; cbn; try tauto.
      rewrite IH. split; intros [H|H]; auto; left; inversion H; reflexivity. }
    rewrite G. reflexivity. }
  assert (Hkeys : forall e, In e es -> exists i, fst e = [i]).
  { intros [kk v] Hin. unfold es in Hin. apply filter_In in Hin. destruct Hin as [Hin _].
    apply in_combine_l in Hin. apply in_map_iff in Hin. destruct Hin as [i [<- _]]. exists i. reflexivity. }
  assert (Hent : entries z = map (fun e => (emb (znth (fst e) 0), snd e)) es).
  { unfold entries, z. cbn [c_coords c_data]. clear. induction es as [|e l IH]; cbn; congruence. }
  assert (Hndk : NoDup (map fst (entries z))).
  { rewrite Hent, map_map. cbn [fst].
    assert (Hnd2 : NoDup (map fst es)).
    { unfold es. clear - Hnd Hlen. revert rd Hlen. induction Hnd as [|a r Hni Hnd IH]; intros [|b rd] Hlen; try discriminate; [constructor|].
      cbn [map combine filter snd]. cbn in Hlen.
      assert (Hrest : ~ In [a] (map fst (filter (fun e => negb (snd e =? 0)) (combine (map (fun i => [i]) r) rd)))).
      { intros Hin. apply in_map_iff in Hin. destruct Hin as [[kk v] [Ek Hin]]. cbn in Ek. subst kk.
        apply filter_In in Hin. destruct Hin as [Hin _]. apply in_combine_l in Hin.
        apply in_map_iff in Hin. destruct Hin as [i [Ei Hi]]. inversion Ei; subst. contradiction. }
      destruct (negb (b =? 0)); [cbn; constructor; [assumption|]|]; apply IH; lia. }
    apply NoDup_emb; assumption. }
  unfold den. change (c_fill z) with 0.
  destruct (in_dec Z.eq_dec k ri) as [Hk|Hk].
  - assert (exists v, In (k, v) (combine ri rd)) as [v Hv].
    { clear - Hk Hlen. revert rd Hlen. induction ri as [|a r IH]; intros [|b rd] Hlen; cbn in *; try tauto; try discriminate.
      destruct Hk as [->|Hk]; [exists b; left; reflexivity|]. destruct (IH Hk rd ltac:(lia)) as [v Hv]. exists v. right. assumption. }
    rewrite (alist_get_In k v) by (try rewrite combine_map_fst by lia; assumption).
    destruct (Z.eq_dec v 0) as [->|Hv0].
    + rewrite lookup_notin; [reflexivity|]. rewrite Hent, map_map. cbn [fst]. intros Hin.
      apply in_map_iff in Hin. destruct Hin as [[kk w] [Ek Hin]]. cbn [fst] in Ek.
      destruct (Hkeys _ Hin) as [i Ei]. cbn [fst] in Ei. subst kk. apply Hinj in Ek.
      unfold znth in Ek. cbn in Ek. subst i. apply Hes in Hin. destruct Hin as [Hin Hw].
      assert (w = 0); [|contradiction].
      assert (Hndc : NoDup (map fst (combine ri rd))) by (rewrite combine_map_fst by lia; assumption).
      pose proof (alist_get_In k w (combine ri rd) 0 Hndc Hin) as A1.
      pose proof (alist_get_In k 0 (combine ri rd) 0 Hndc Hv) as A2. congruence.
    + assert (Hl : lookup (entries z) (emb k) = Some v).
      { apply (lookup_In Z _ (emb k) v Hndk). rewrite Hent. apply in_map_iff.
        exists ([k], v). split; [reflexivity|]. apply Hes. split; assumption. }
      rewrite Hl. reflexivity.
  - rewrite alist_get_notin by (rewrite combine_map_fst by lia; assumption).
    rewrite lookup_notin; [reflexivity|]. rewrite Hent, map_map. cbn [fst]. intros Hin.
    apply in_map_iff in Hin. destruct Hin as [[kk w] [Ek Hin]]. cbn [fst] in Ek.
    destruct (Hkeys _ Hin) as [i Ei]. cbn [fst] in Ei. subst kk. apply Hinj in Ek.
    unfold znth in Ek. cbn in Ek. subst i. apply Hes in Hin. destruct Hin as [Hin _].
    apply Hk. apply in_combine_l in Hin. assumption.
Qed.

Lemma SS_lex_NoDup_Z (l : list Z) : StronglySorted Z.lt l -> NoDup l.
Proof.
  induction 1 as [|a l Hs IH Hall]; constructor; [|assumption].
  intros Hin. rewrite Forall_forall in Hall. specialize (Hall _ Hin). lia.
Qed.

Lemma unravel_1M (M i : Z) : 0 <= i < M -> unravel [1; M] (ravel [size [M]] [i]) = [0; i].
Proof.
  intros Hi. cbn [unravel ravel size fold_right].
  replace (i * 1 + 0) with i by lia. replace (M * 1) with M by lia.
  rewrite Z.div_small, Z.mod_small, Z.div_1_r by lia. reflexivity.
Qed.

Definition arg_emb (kd : bool) (k : Z) : idx := if kd then [0; k] else [k].

Lemma arg_emb_inj kd a b : arg_emb kd a = arg_emb kd b -> a = b.
Proof. unfold arg_emb. destruct kd; intros H; inversion H; reflexivity. Qed.

Lemma ss_argminmax_2d_axis0 (maxm kd : bool) (N M axis : Z) (cs : list idx) (data : list Z) (fill : Z) :
  (axis = 0 \/ axis = -2) -> 0 < N -> 0 <= M ->
  Forall (in_range [N; M]) cs ->
  let rc := map (fun ix => znth ix 0) cs in
  let ic := map (fun ix => znth ix 1) cs in
  let r := minmax_args rc ic data N fill maxm in
  let es := filter (fun e => negb (snd e =? 0)) (combine (map (fun i => [i]) (fst r)) (snd r)) in
  ss_argminmax maxm (mkCOO [N; M] cs data fill) (Some axis) kd
  = Ok (mkCOO (if kd then [1; M] else [M]) (map (fun e => arg_emb kd (znth (fst e) 0)) es) (map snd es) 0).
Proof.
  intros Hax HN HM Hr rc ic r es. set (x := mkCOO [N; M] cs data fill).
  unfold ss_argminmax.
  assert (H1 : (ndimZ x <=? axis) = false) by (destruct Hax as [-> | ->]; reflexivity).
  rewrite H1. change (ndimZ x =? 0) with false. cbv iota.
  assert (Hn : norm_axis (ndimZ x) axis = Some 0%nat) by (destruct Hax as [-> | ->]; reflexivity).
  rewrite Hn. cbn [bind]. change (znth (c_shape x) (Z.of_nat 0)) with N.
  destruct (Z.eqb_spec N 0) as [E|_]; [lia|]. cbn [bind].
  change (Z.of_nat 0) with 0. change (ndimZ x =? 1) with false. cbn [andb].
  change ((0 =? 0) && false) with false. cbv iota.
  unfold arg_core.
  change (py_pop (iota (length (c_shape x))) 0) with (Ok (0, [1])).
  change (py_pop (c_shape x) 0) with (Ok (N, [M])). cbn [bind].
  change (ss_transpose x [0; 1]) with x.
  replace (size [M]) with M by (cbn [size fold_right]; lia).
  unfold ss_reshape at 1. change (c_shape x) with [N; M]. rewrite idx_eqb_refl. cbn [bind].
  change (c_coords x) with cs. change (c_data x) with data. change (c_fill x) with fill.
  fold rc ic. fold r. destruct r as [ri rd] eqn:Er. cbn [fst snd] in es.
  unfold ss_prune. cbn [c_shape c_coords c_data c_fill]. fold es.
  (* the reshape (M,) -> (1, M) *)
  unfold ss_reshape at 1. cbn [c_shape c_coords c_data c_fill].
  assert (E1 : idx_eqb [M] [1; M] = false) by (cbn [idx_eqb]; apply andb_false_r).
  rewrite E1.
  assert (E2 : existsb (Z.eqb (-1)) [1; M] = false).
  { cbn [existsb]. change (-1 =? 1) with false. destruct (Z.eqb_spec (-1) M); [lia|reflexivity]. }
  rewrite E2. cbn [bind].
  assert (E3 : (size [M] =? size [1; M]) = true) by (apply Z.eqb_eq; cbn [size fold_right]; lia).
  rewrite E3. cbn [negb]. cbn [bind c_shape length].
  change (filter (fun e : idx * Z => negb (snd e =? 0)) (combine (map (fun i : Z => [i]) ri) rd)) with es.
  change (py_pop (iota 2) 0) with (Ok (0, [1])). cbn [bind].
  change (py_insert [1] 0 0) with [0; 1].
  set (r1 := mkCOO [1; M] _ _ 0). change (ss_transpose r1 [0; 1]) with r1. cbn [bind].
  (* the coordinates after the reshape *)
  assert (Hri : forall i, In i ri -> 0 <= i < M).
  { intros i Hi. assert (Hri' : ri = np_unique ic) by (unfold minmax_args in Er; inversion Er; reflexivity).
    rewrite Hri' in Hi. apply (proj1 (np_unique_In _ _)) in Hi. unfold ic in Hi. apply in_map_iff in Hi.
    destruct Hi as [ix [<- Hix]]. rewrite Forall_forall in Hr. specialize (Hr _ Hix).
    destruct ix as [|a [|b [|c t]]]; cbn in Hr; try tauto; try (unfold znth; cbn; lia). }
  assert (Hcoords : map (fun ix => unravel [1; M] (ravel [M] ix)) (map fst es)
                    = map (fun e => [0; znth (fst e) 0]) es).
  { rewrite map_map. apply map_ext_in. intros [kk v] Hin. cbn [fst].
    unfold es in Hin. apply filter_In in Hin. destruct Hin as [Hin _]. apply in_combine_l in Hin.
    apply in_map_iff in Hin. destruct Hin as [i [<- Hi]].
    change (ravel [M] [i]) with (ravel [size [M]] [i]).
    rewrite unravel_1M by (apply Hri; assumption). reflexivity. }
  unfold r1. destruct kd.
  - f_equal. f_equal. apply Hcoords.
  - unfold ss_squeeze_axis. cbn [c_shape c_coords c_data c_fill].
    change (znth [1; M] 0 =? 1) with true. cbn [negb]. f_equal. f_equal.
    transitivity (map (fun ix => remove_nth ix (Z.to_nat 0)) (map (fun e : idx * Z => [0; znth (fst e) 0]) es)).
    + f_equal. apply Hcoords.
    + rewrite map_map. reflexivity.
Qed.

(* argmax / argmin of a canonical pruned 2-d array along its first axis (non-empty): the result
   holds, for every index k of the other axis, np.argmax / np.argmin of the dense column k *)
Lemma argminmax_2d_first_axis_proof (maxm kd : bool) (N M axis : Z) (cs : list idx) (data : list Z) (fill : Z) :
  (axis = 0 \/ axis = -2) -> 0 < N -> 0 <= M ->
  canonical Z (mkCOO [N; M] cs data fill) ->
  exists z, ss_argminmax maxm (mkCOO [N; M] cs data fill) (Some axis) kd = Ok z
    /\ c_shape z = (if kd then [1; M] else [M])
    /\ forall k, den z (arg_emb kd k) = np_argbest maxm (col2 (mkCOO [N; M] cs data fill) N k).
Proof.
  intros Hax HN HM Hc. pose proof Hc as [Hr [Hs Hl]]. cbn [c_shape c_coords c_data] in Hr, Hs, Hl.
  rewrite (ss_argminmax_2d_axis0 maxm kd N M axis cs data fill Hax HN HM Hr). cbv zeta.
  set (rc := map (fun ix => znth ix 0) cs). set (ic := map (fun ix => znth ix 1) cs).
  assert (Hz : zip2 rc ic = cs) by (apply (zip2_cols N M); assumption).
  assert (Hlen : length ic = length rc) by (unfold rc, ic; rewrite !map_length; reflexivity).
  eexists. split; [reflexivity|]. split; [reflexivity|]. intros k.
  pose proof (den_pruned_result (arg_emb kd) (if kd then [1; M] else [M])
                (fst (minmax_args rc ic data N fill maxm)) (snd (minmax_args rc ic data N fill maxm)) k
                (arg_emb_inj kd)) as Hden.
  cbv zeta in Hden. rewrite Hden.
  - rewrite <- Hz in Hc.
    pose proof (argminmax_first_proof rc ic data N M fill maxm Hlen HN Hc k) as Hfb.
    apply first_best_np in Hfb. unfold arg_result in Hfb. rewrite Hz in Hfb. exact Hfb.
  - unfold minmax_args. cbn [fst]. apply SS_lex_NoDup_Z. apply np_unique_strict.
  - unfold minmax_args. cbn [fst snd]. apply map_length.
Qed.
