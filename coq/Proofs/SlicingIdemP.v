(* Proofs/SlicingIdemP.v — is normalize_index idempotent on its own output (after fix f6512bb)?
   NO in general: a backwards slice that runs down to index 0 is normalised to stop = -1, and a second
   normalisation wraps that -1 (x[::-1] -> slice(4, -1, -1) -> slice(4, 4, -1): nothing selected).
   YES for every slice whose normalised stop is non-negative (every forward slice, every backwards slice
   that stops above index 0), for integers, None and (wrapped) index arrays.  DOK.__getitem__ no longer
   normalises before delegating to COO, so nothing in the code relies on the property. *)
From Coq Require Import ZArith List Bool Lia ZifyBool.
From Verif Require Import Py PyExt G_slicing PySlice Slicing SlicingP Shape NpIndex CooIndex.
Import ListNotations.
Open Scope Z_scope.

Ltac split_hyp H :=
  match type of H with
  | context [if ?a >? ?b then _ else _] => rewrite (Z.gtb_ltb a b) in H
  | context [if ?a >=? ?b then _ else _] => rewrite (Z.geb_leb a b) in H
  | context [if negb _ then _ else _] => rewrite if_negb in H
  | context [if ?a <? ?b then _ else _] => destruct (Z.ltb_spec a b); try lia
  | context [if ?a <=? ?b then _ else _] => destruct (Z.leb_spec a b); try lia
  | context [if ?a =? ?b then _ else _] => destruct (Z.eqb_spec a b); try lia
  end.

Theorem slice_norm_idempotent_proof :
  forall (a b c : option Z) (dim s e st : Z),
    0 <= dim -> c <> Some 0 ->
    normalize_slice (VSlice (oz a) (oz b) (oz c)) dim = Ok (VSlice (VInt s) (VInt e) (VInt st)) ->
    0 <= e ->
    normalize_slice (VSlice (VInt s) (VInt e) (VInt st)) dim = Ok (VSlice (VInt s) (VInt e) (VInt st)).
Proof.
  intros a b c dim s e st Hd Hc H He.
  unfold normalize_slice, g_replace_none, g_posify_index, g_clip_slice in H.
  destruct c as [st0|]; [assert (st0 <> 0) by congruence|];
  destruct a as [s0|]; destruct b as [e0|];
  repeat (cbn in H; split_hyp H); cbn in H; inversion H; subst; clear H;
  unfold normalize_slice, g_replace_none, g_posify_index, g_clip_slice;
  repeat (cbn; split_one); cbn; try reflexivity; repeat f_equal; try lia.
Qed.

(* the normalised output read back as an index *)
Definition index_of_nentry (e : nentry) : ientry :=
  match e with
  | NInt i => IInt i
  | NSlice s e' st => ISlice (Some s) (Some e') (Some st)
  | NNone => INone
  | NArr l => IArr l
  end.

Theorem normalize_index_not_idempotent_proof :
  exists (sh : shape) (ix : index) (nix nix2 : list nentry),
    normalize_index ix sh = Ok nix
    /\ normalize_index (map index_of_nentry nix) sh = Ok nix2
    /\ nix2 <> nix
    /\ flat_map (fun e => match e with NSlice s e' st => range_list s e' st | _ => [] end) nix = [4; 3; 2; 1; 0]
    /\ flat_map (fun e => match e with NSlice s e' st => range_list s e' st | _ => [] end) nix2 = [].
Proof.
  exists [5], [ISlice None None (Some (-1))], [NSlice 4 (-1) (-1)], [NSlice 4 4 (-1)].
  split; [reflexivity|]. split; [reflexivity|]. split; [discriminate|]. split; reflexivity.
Qed.
