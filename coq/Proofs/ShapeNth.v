(* Proofs/ShapeNth.v — positions inside all_indices: the row-major enumeration of a shape lists the index
   tuple ix at position ravel sh ix (and unravel sh n at position n), has size sh entries, no repeats.
   Shared lemmas (used by C19's asarray_den; C10 needs the same). *)
From Coq Require Import ZArith List Bool Lia.
From Verif Require Import Shape.
Import ListNotations.
Open Scope Z_scope.

Lemma flat_map_const_length {A B} (f : A -> list B) (n : nat) (l : list A) :
  (forall x, length (f x) = n) -> length (flat_map f l) = (length l * n)%nat.
Proof.
  intros Hf. induction l as [|a l IH]; simpl; [reflexivity|].
  rewrite app_length, Hf, IH. reflexivity.
Qed.

Lemma flat_map_const_nth {A B} (f : A -> list B) (n : nat) (l : list A) (da : A) (db : B) :
  (forall x, length (f x) = n) ->
  forall k r, (k < length l)%nat -> (r < n)%nat ->
  nth (k * n + r) (flat_map f l) db = nth r (f (nth k l da)) db.
Proof.
  intros Hf. induction l as [|a l IH]; intros k r Hk Hr; simpl in Hk; [lia|].
  simpl flat_map. destruct k as [|k].
  - simpl. apply app_nth1. rewrite Hf. assumption.
  - replace (S k * n + r)%nat with (length (f a) + (k * n + r))%nat by (rewrite Hf; lia).
    rewrite app_nth2_plus. simpl nth. apply IH; lia.
Qed.

Lemma zrange_length' d : length (zrange d) = Z.to_nat d.
Proof. unfold zrange. rewrite map_length, seq_length. reflexivity. Qed.

Lemma zrange_nth d k dz : (k < Z.to_nat d)%nat -> nth k (zrange d) dz = Z.of_nat k.
Proof.
  intros Hk. unfold zrange.
  rewrite (nth_indep _ dz (Z.of_nat 0)) by (rewrite map_length, seq_length; assumption).
  rewrite map_nth, seq_nth by assumption. reflexivity.
Qed.

Lemma all_indices_length sh : shape_ok sh -> length (all_indices sh) = Z.to_nat (size sh).
Proof.
  induction 1 as [|d sh Hd Hok IH]; [reflexivity|].
  simpl all_indices. rewrite (flat_map_const_length _ (length (all_indices sh))).
  - rewrite zrange_length', IH. simpl size. pose proof (size_nonneg _ Hok). rewrite Z2Nat.inj_mul by lia. reflexivity.
  - intros x. apply map_length.
Qed.

(* the index tuple ix sits at position ravel sh ix *)
Lemma all_indices_nth sh : forall ix dflt,
  shape_ok sh -> in_range sh ix -> nth (Z.to_nat (ravel sh ix)) (all_indices sh) dflt = ix.
Proof.
  induction sh as [|d sh IH]; intros ix dflt Hok Hin.
  - destruct ix; simpl in Hin; [reflexivity|contradiction].
  - destruct ix as [|i ix]; simpl in Hin; [contradiction|]. destruct Hin as [Hi Hin].
    inversion Hok as [|? ? Hd Hok']; subst.
    pose proof (ravel_bounds _ _ Hin) as Hb. pose proof (size_nonneg _ Hok') as Hs.
    simpl ravel. simpl all_indices.
    replace (Z.to_nat (i * size sh + ravel sh ix))
      with (Z.to_nat i * length (all_indices sh) + Z.to_nat (ravel sh ix))%nat.
    2:{ rewrite all_indices_length by assumption. rewrite Z2Nat.inj_add, Z2Nat.inj_mul by nia. reflexivity. }
    rewrite (flat_map_const_nth _ (length (all_indices sh)) _ 0).
    + rewrite zrange_nth by lia. rewrite Z2Nat.id by lia.
      rewrite (nth_indep _ dflt (i :: dflt)).
      * rewrite (map_nth (cons i)). f_equal. apply IH; assumption.
      * rewrite map_length, all_indices_length by assumption. lia.
    + intros x. apply map_length.
    + rewrite zrange_length'. lia.
    + rewrite all_indices_length by assumption. lia.
Qed.

(* position n holds unravel sh n *)
Lemma all_indices_nth_unravel sh n dflt :
  shape_ok sh -> 0 <= n < size sh -> nth (Z.to_nat n) (all_indices sh) dflt = unravel sh n.
Proof.
  intros Hok Hn. rewrite <- (ravel_unravel sh n Hok Hn) at 1.
  apply all_indices_nth; [assumption|]. apply unravel_in_range; assumption.
Qed.

Lemma all_indices_NoDup sh : shape_ok sh -> NoDup (all_indices sh).
Proof.
  intros Hok. apply (NoDup_nth _ ([] : idx)). intros a b Ha Hb Heq.
  rewrite all_indices_length in Ha, Hb by assumption.
  pose proof (size_nonneg _ Hok).
  rewrite <- (Nat2Z.id a), <- (Nat2Z.id b) in Heq.
  rewrite !all_indices_nth_unravel in Heq by (try assumption; lia).
  apply (f_equal (ravel sh)) in Heq. rewrite !ravel_unravel in Heq by (try assumption; lia). lia.
Qed.
