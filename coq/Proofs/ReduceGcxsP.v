(* Proofs/ReduceGcxsP.v — reduce_den for GCXS arrays (C03):
   the decision structure of GCXS._reduce_calc around the grouped reduction proved in ReduceP.v. *)
From Coq Require Import ZArith List Bool Lia ZifyBool Permutation Sorting.Sorted.
From Verif Require Import Py PyExt PyReduce Shape COO COOP GCXS G_reduce S_reduce NpReduce Reduce
  ReduceLemmas ReduceShapeP ReduceKernelP ReduceP.
Import ListNotations.
Open Scope Z_scope.

(* ------------------------------------------------------------------ sorting helpers *)
Lemma sorted_le_nodup_lt l : Sorted Z.le l -> NoDup l -> StronglySorted Z.lt l.
Proof.
  intros Hs Hnd. apply Sorted_StronglySorted in Hs; [|intros a b c; lia].
  induction Hs as [|a l Hs IH Hall]; [constructor|]. inversion Hnd; subst.
  constructor; [apply IH; assumption|]. rewrite Forall_forall in *. intros y Hy.
  specialize (Hall _ Hy). assert (a <> y) by (intros ->; contradiction). lia.
Qed.

Lemma SS_unmap {A} (f : A -> Z) (R : A -> A -> Prop) l :
  StronglySorted Z.lt (map f l) -> (forall a b, In a l -> In b l -> f a < f b -> R a b) ->
  StronglySorted R l.
Proof.
  induction l as [|a l IH]; simpl; intros Hs Hf; [constructor|].
  inversion Hs as [|? ? Hs' Hall]; subst. constructor.
  - apply IH; [assumption|]. intros; apply Hf; auto.
  - rewrite Forall_forall in *. intros y Hy. apply Hf; auto. apply Hall. apply in_map. assumption.
Qed.

Lemma zinsert_perm a l : Permutation (zinsert a l) (a :: l).
Proof.
  induction l as [|b r IH]; simpl; [apply Permutation_refl|].
  destruct (a <=? b); [apply Permutation_refl|].
  eapply Permutation_trans; [apply perm_skip; exact IH|apply perm_swap].
Qed.

Lemma zsort_perm l : Permutation (zsort l) l.
Proof.
  induction l as [|a r IH]; simpl; [constructor|].
  eapply Permutation_trans; [apply zinsert_perm|]. constructor. exact IH.
Qed.

Lemma zinsert_sorted a l : Sorted Z.le l -> Sorted Z.le (zinsert a l).
Proof.
  induction l as [|b r IH]; simpl; intros Hs; [repeat constructor|].
  destruct (Z.leb_spec a b).
  - constructor; [assumption|]. constructor. assumption.
  - inversion Hs as [|? ? Hs' Hhd]; subst. constructor; [apply IH; assumption|].
    destruct r as [|c r']; simpl; [constructor; lia|].
    inversion Hhd; subst. destruct (a <=? c); constructor; lia.
Qed.

Lemma zsort_sorted l : Sorted Z.le (zsort l).
Proof. induction l as [|a r IH]; simpl; [constructor|]. apply zinsert_sorted. exact IH. Qed.

Lemma SS_lt_same_members (l1 l2 : list Z) :
  StronglySorted Z.lt l1 -> StronglySorted Z.lt l2 -> (forall x, In x l1 <-> In x l2) -> l1 = l2.
Proof.
  intros H1. revert l2. induction H1 as [|a l1 Hs1 IH Hall1]; intros l2 H2 Hm.
  - destruct l2 as [|b l2]; [reflexivity|]. exfalso. apply (Hm b). left; reflexivity.
  - destruct H2 as [|b l2 Hs2 Hall2]; [exfalso; apply (Hm a); left; reflexivity|].
    rewrite Forall_forall in Hall1, Hall2.
    assert (a = b).
    { destruct (proj1 (Hm a) (or_introl eq_refl)) as [->|Ha]; [reflexivity|].
      destruct (proj2 (Hm b) (or_introl eq_refl)) as [->|Hb]; [reflexivity|].
      specialize (Hall1 _ Hb). specialize (Hall2 _ Ha). lia. }
    subst b. f_equal. apply IH; [assumption|].
    intros x. split; intros Hx.
    + destruct (proj1 (Hm x) (or_intror Hx)) as [->|?]; [|assumption].
      specialize (Hall1 _ Hx). lia.
    + destruct (proj2 (Hm x) (or_intror Hx)) as [->|?]; [|assumption].
      specialize (Hall2 _ Hx). lia.
Qed.

Lemma zrange_SS n : StronglySorted Z.lt (zrange n).
Proof. unfold zrange. apply SS_seq_Z. Qed.

(* the sorted tuple is (0..n-1) exactly when the tuple is a permutation of all axes *)
Lemma zsort_full_iff n l : zsort l = zrange n <-> Permutation l (zrange n).
Proof.
  split.
  - intros E. rewrite <- E. apply Permutation_sym, zsort_perm.
  - intros Hp. apply SS_lt_same_members.
    + apply sorted_le_nodup_lt; [apply zsort_sorted|].
      apply (Permutation_NoDup (l := zrange n)); [|apply NoDup_zrange].
      apply Permutation_sym. eapply Permutation_trans; [apply zsort_perm|exact Hp].
    + apply zrange_SS.
    + intros x. split; intros H.
      * eapply Permutation_in; [|exact H]. eapply Permutation_trans; [apply zsort_perm|exact Hp].
      * eapply Permutation_in; [|exact H]. apply Permutation_sym. eapply Permutation_trans; [apply zsort_perm|exact Hp].
Qed.

Lemma perm_zrange_is_perm n l : Permutation l (zrange n) -> is_perm n l.
Proof.
  intros Hp. split.
  - apply (Permutation_NoDup (l := zrange n)); [apply Permutation_sym; assumption|apply NoDup_zrange].
  - intros a. rewrite <- zrange_In. split; intros H.
    + eapply Permutation_in; [exact Hp|exact H].
    + eapply Permutation_in; [apply Permutation_sym; exact Hp|exact H].
Qed.

Lemma kept_nil_perm n l : NoDup l -> axes_ok n l -> kept_axes n l = [] -> Permutation l (zrange n).
Proof.
  intros Hnd Hok Hk. apply NoDup_Permutation; [assumption|apply NoDup_zrange|].
  unfold axes_ok in Hok. rewrite Forall_forall in Hok.
  intros a. rewrite zrange_In. split; [apply Hok|].
  intros Ha. destruct (in_dec Z.eq_dec a l) as [|Hn]; [assumption|].
  exfalso. assert (In a (kept_axes n l)) by (apply kept_axes_In; tauto). rewrite Hk in H. inversion H.
Qed.

Lemma is_perm_kept_nil n l : is_perm n l -> kept_axes n l = [].
Proof.
  intros [_ Hm]. destruct (kept_axes n l) as [|a r] eqn:E; [reflexivity|].
  exfalso. assert (Ha : In a (kept_axes n l)) by (rewrite E; left; reflexivity).
  apply kept_axes_In in Ha. destruct Ha as [H1 H2]. apply H2. apply Hm. assumption.
Qed.

(* ------------------------------------------------------------------ GCXS.tocoo *)
Section Gcxs.
  Variable V : Type.

  Definition gcxs_ok (g : gcxs V) : Prop :=
    Forall (in_range (g_shape g)) (gcxs_coords g) /\ NoDup (gcxs_coords g)
    /\ length (g_data g) = length (gcxs_coords g).

  Lemma gcxs_to_coo_spec (g : gcxs V) :
    gcxs_ok g ->
    let a := gcxs_to_coo V g in
    COOP.canonical V a /\ c_shape a = g_shape g /\ c_fill a = g_fill g /\ forall ix, den a ix = gden g ix.
  Proof.
    intros [Hr [Hnd Hl]]. unfold gcxs_to_coo.
    set (es := combine (gcxs_coords g) (g_data g)).
    destruct (coo_sorted_spec V (g_shape g) es (g_fill g)) as [H1 [H2 [H3 [H4 H5]]]].
    set (a := coo_sorted V (g_shape g) es (g_fill g)) in *. cbn zeta.
    assert (Hfst : map fst es = gcxs_coords g) by (unfold es; apply combine_map_fst; lia).
    assert (Hco : Permutation (c_coords a) (gcxs_coords g)).
    { rewrite <- Hfst. rewrite <- (combine_map_fst (c_coords a) (c_data a)) by lia.
      apply Permutation_map. exact H4. }
    rewrite Forall_forall in Hr.
    assert (Hra : forall ix, In ix (c_coords a) -> in_range (g_shape g) ix).
    { intros ix Hin. apply Hr. eapply Permutation_in; eauto. }
    assert (Hnda : NoDup (c_coords a)).
    { apply (Permutation_NoDup (l := gcxs_coords g)); [apply Permutation_sym; assumption|assumption]. }
    split; [|split; [assumption|split; [assumption|]]].
    - split; [|split].
      + rewrite H1. apply Forall_forall. assumption.
      + eapply SS_unmap.
        * apply sorted_le_nodup_lt; [exact H5|].
          apply NoDup_map_inj; [|assumption]. intros u w Hu Hw E. apply (ravel_inj (g_shape g)); auto.
        * intros u w Hu Hw Hlt. apply (ravel_lex (g_shape g)); auto.
      + assumption.
    - intros ix. unfold gden, den, gcxs_as_coo.
      change (entries (mkCOO (g_shape g) (gcxs_coords g) (g_data g) (g_fill g))) with es.
      cbn [c_fill]. rewrite H2.
      assert (Hnde : NoDup (map fst es)) by (rewrite Hfst; assumption).
      assert (Hndea : NoDup (map fst (entries a))).
      { unfold entries. rewrite combine_map_fst by lia. assumption. }
      destruct (lookup es ix) as [v|] eqn:El.
      + apply (lookup_In V es ix v Hnde) in El.
        assert (Hin : In (ix, v) (entries a)) by (eapply Permutation_in; [apply Permutation_sym; exact H4|exact El]).
        apply (lookup_In V (entries a) ix v Hndea) in Hin. rewrite Hin. reflexivity.
      + destruct (lookup (entries a) ix) as [w|] eqn:Ea; [|reflexivity].
        apply (lookup_In V (entries a) ix w Hndea) in Ea.
        assert (Hin : In (ix, w) es) by (eapply Permutation_in; [exact H4|exact Ea]).
        apply (lookup_In V es ix w Hnde) in Hin. congruence.
  Qed.
End Gcxs.

(* ------------------------------------------------------------------ facts about kept axes *)
Lemma kept_kept n l : axes_ok n l -> kept_axes n (kept_axes n (kept_axes n l)) = kept_axes n l.
Proof.
  intros Hok. unfold kept_axes at 1 4. apply filter_ext_in. intros a Ha. apply zrange_In in Ha. f_equal.
  destruct (mem_z a (kept_axes n (kept_axes n l))) eqn:E1; destruct (mem_z a l) eqn:E2; try reflexivity.
  - apply (proj1 (mem_z_In _ _)) in E1. apply kept_axes_In in E1. destruct E1 as [_ E1]. exfalso. apply E1.
    apply kept_axes_In. split; [assumption|]. intros H. apply (proj2 (mem_z_In _ _)) in H. congruence.
  - apply (proj1 (mem_z_In _ _)) in E2. exfalso.
    assert (H : In a (kept_axes n (kept_axes n l))).
    { apply kept_axes_In. split; [assumption|]. intros H. apply kept_axes_In in H. tauto. }
    apply (proj2 (mem_z_In _ _)) in H. congruence.
Qed.

Lemma kept_kept_perm n l : NoDup l -> axes_ok n l -> Permutation l (kept_axes n (kept_axes n l)).
Proof.
  intros Hnd Hok. apply NoDup_Permutation; [assumption| |].
  - unfold kept_axes at 1. apply NoDup_filter. apply NoDup_zrange.
  - unfold axes_ok in Hok. rewrite Forall_forall in Hok. intros a. rewrite kept_axes_In, kept_axes_In. split.
    + intros H. split; [auto|]. tauto.
    + intros [Ha Hn]. destruct (in_dec Z.eq_dec a l); [assumption|]. exfalso. apply Hn. tauto.
Qed.

Lemma sel_perm_size sh l l' : Permutation l l' -> size (sel 0 l sh) = size (sel 0 l' sh).
Proof. intros H. apply size_perm. unfold sel. apply Permutation_map. assumption. Qed.

Lemma map_const_combine {A B C} (l1 : list A) (l2 : list B) (c : C) :
  length l1 = length l2 -> map (fun _ => c) (combine l1 l2) = map (fun _ => c) l2.
Proof.
  revert l2. induction l1 as [|a l1 IH]; intros [|b l2] H; simpl in *; try discriminate; [reflexivity|].
  f_equal. apply IH. lia.
Qed.

Lemma keep_shape_all_ones sh l : is_perm (zlen sh) l -> keep_shape sh l = map (fun _ => 1) sh.
Proof.
  intros [_ Hm]. unfold keep_shape.
  assert (H : forall q, In q (combine (zrange (zlen sh)) sh) -> mem_z (fst q) l = true).
  { intros [i d] Hin. apply in_combine_l in Hin. apply zrange_In in Hin. apply mem_z_In. apply Hm. assumption. }
  rewrite (map_ext_in _ (fun q => 1)) by (intros q Hq; rewrite (H q Hq); reflexivity).
  apply map_const_combine. unfold zrange, zlen. rewrite map_length, seq_length, Nat2Z.id. reflexivity.
Qed.

Lemma size_ones {A} (l : list A) : size (map (fun _ => 1) l) = 1.
Proof. induction l; cbn; [reflexivity|]. fold (size (map (fun _ : A => 1) l)). lia. Qed.

Lemma ravel_ones {A} (l : list A) ix : in_range (map (fun _ => 1) l) ix -> ravel (map (fun _ => 1) l) ix = 0.
Proof.
  revert ix. induction l as [|a l IH]; intros [|i ix]; cbn; try tauto.
  intros [Hi Hr]. rewrite (IH _ Hr). rewrite size_ones. lia.
Qed.

Lemma weaken_raise {T} (m : res T) (P : T -> Prop) (Q Q' : Prop) :
  (Q -> Q') ->
  match m with Ok r => P r | Raise e => e = ValueError /\ Q end ->
  match m with Ok r => P r | Raise e => e = ValueError /\ Q' end.
Proof. intros H. destruct m; tauto. Qed.

(* ------------------------------------------------------------------ reduce_den for GCXS *)
Section GMain.
  Variable V : Type.
  Variable veqb : V -> V -> bool.
  Hypothesis veqb_eq : forall a b, veqb a b = true <-> a = b.
  Variable op : V -> V -> V.
  Hypothesis op_assoc : forall a b c, op a (op b c) = op (op a b) c.
  Hypothesis op_comm : forall a b, op a b = op b a.
  Variable cast : V -> V.
  Hypothesis cast_op : forall a b, cast (op (cast a) (cast b)) = op (cast a) (cast b).
  Variable sup : option (V -> Z -> V).
  Variable ident : option V.
  Hypothesis sup_one : forall s f, sup = Some s -> s f 1 = cast f.
  Hypothesis sup_succ : forall s f k, sup = Some s -> 1 <= k -> s f (k + 1) = op (s f k) (cast f).

  Notation np_fold := (np_fold V op cast ident).
  Notation np_reduce := (np_reduce V op cast ident).

  Lemma np_fold_perm l l' : Permutation l l' -> np_fold l = np_fold l'.
  Proof.
    intros Hp. rewrite !(np_fold_ofold V op op_assoc cast ident).
    rewrite (ofold_perm V op op_assoc op_comm _ _ (Permutation_map cast Hp)). reflexivity.
  Qed.

  Lemma np_reduce_ext sh (f f' : idx -> V) ax kd : (forall ix, f ix = f' ix) ->
    match np_reduce ax kd sh f, np_reduce ax kd sh f' with
    | Ok (osh, g), Ok (osh', g') => osh = osh' /\ forall oix, g oix = g' oix
    | Raise e, Raise e' => e = e'
    | _, _ => False
    end.
  Proof.
    intros H. unfold NpReduce.np_reduce. destruct (np_norm_axes (Z.of_nat (length sh)) ax); cbn [bind]; [|reflexivity].
    destruct (_ && _); [reflexivity|]. split; [reflexivity|]. intros oix. cbn zeta. f_equal. apply map_ext. intros; apply H.
  Qed.

  (* the re-compression path: rows over the kept axes, the reduced axes in increasing order *)
  Lemma recompress_spec (x : coo V) l (kd : bool) :
    COOP.canonical V x -> shape_ok (c_shape x) ->
    NoDup l -> axes_ok (zlen (c_shape x)) l -> kept_axes (zlen (c_shape x)) l <> [] ->
    admissible V veqb op cast sup (c_fill x) = true ->
    forall ax, np_norm_axes (zlen (c_shape x)) ax = Ok l ->
    let sh := c_shape x in let n := zlen sh in let f := c_fill x in
    let caxes := kept_axes n l in let red := kept_axes n caxes in
    match (k <- coo_reduce_calc V op cast (Some red) x ;;
           data <- map2_res (fun d c => Ok (fix_cell V op cast sup f (k_ncols V k) d c)) (k_data V k) (k_counts V k) ;;
           rfill <- result_fill V sup ident f (k_ncols V k) ;;
           out <- coo_reduce_return V veqb sh k data rfill ;;
           out <- (if kd then coo_reshape V (keep_shape sh l) out else Ok out) ;;
           Ok (RArr out)) with
    | Ok r => exists osh g, np_reduce ax kd sh (den x) = Ok (osh, g) /\
        rres_shape r = osh /\ (forall oix, in_range osh oix -> g oix = Ok (rres_den r oix)) /\ rres_wf V veqb r
    | Raise e => e = ValueError /\ np_reduce ax kd sh (den x) = Raise ValueError
    end.
  Proof.
    intros Hcan Hok Hnd Hax Hne Hadm ax Hnp. cbn zeta.
    set (sh := c_shape x) in *. set (n := zlen sh) in *. set (f := c_fill x) in *.
    set (caxes := kept_axes n l) in *. set (red := kept_axes n caxes).
    assert (Hn : n = Z.of_nat (length sh)) by reflexivity.
    assert (Hrnd : NoDup red) by (unfold red, kept_axes; apply NoDup_filter, NoDup_zrange).
    assert (Hrok : axes_ok n red) by apply kept_axes_ok.
    assert (Hkk : kept_axes n red = caxes) by (apply kept_kept; assumption).
    assert (Hsz : size (sel 0 red sh) = size (sel 0 l sh)).
    { symmetry. apply sel_perm_size. apply kept_kept_perm; assumption. }
    destruct (core_den V veqb veqb_eq op op_assoc op_comm cast cast_op sup ident sup_one sup_succ
                x Hcan Hok red Hrnd Hrok Hadm (Some red) (calc_axes_some _ _ Hrok)) as [k [data [Hk [Hka [Hkn [Hm2 Hcore]]]]]].
    fold sh n f in Hk, Hm2, Hcore, Hkn. rewrite Hkk in Hcore. rewrite Hsz in Hkn, Hcore.
    rewrite Hk. cbn [bind]. rewrite Hm2. cbn [bind]. rewrite Hkn.
    set (K := sel 0 caxes sh) in *. set (ncols := size (sel 0 l sh)) in *.
    assert (Hspec : np_reduce ax kd sh (den x) =
              if (ncols =? 0) && match ident with None => true | Some _ => false end then Raise ValueError
              else Ok (if kd then keep_shape sh l else K,
                       fun oix => let kix := if kd then sel 0 caxes oix else oix in
                                  np_fold (map (den x) (np_cells sh caxes kix)))).
    { unfold NpReduce.np_reduce. rewrite <- Hn, Hnp. reflexivity. }
    destruct (result_fill V sup ident f ncols) as [rf|e] eqn:Erf.
    2:{ cbn [bind]. unfold result_fill in Erf. destruct (ncols =? 0) eqn:E0; [|discriminate].
        assert (Hi : (exists e0, ident = Some e0) \/ ident = None) by (destruct ident; eauto).
        destruct Hi as [[e0 Hi]|Hi]; rewrite Hi in Erf; [discriminate|]. inversion Erf.
        split; [reflexivity|]. rewrite Hspec, Hi. reflexivity. }
    cbn [bind].
    assert (Hcond : (ncols =? 0) && match ident with None => true | Some _ => false end = false).
    { unfold result_fill in Erf. destruct (ncols =? 0); [|reflexivity].
      assert (Hi : (exists e0, ident = Some e0) \/ ident = None) by (destruct ident; eauto).
      destruct Hi as [[e0 Hi]|Hi]; rewrite Hi in Erf |- *; [reflexivity|discriminate]. }
    rewrite Hcond in Hspec.
    destruct (Hcore rf eq_refl) as [out [Hout [Hsh [Hfill [Hc [Hp Hden]]]]]].
    rewrite Hout. cbn [bind].
    assert (HKne : K <> []).
    { unfold K. destruct caxes; [congruence|discriminate]. }
    destruct kd.
    - destruct (keepdims_spec sh l []) as [Hsz' _]. cbn zeta in Hsz'. fold n caxes K in Hsz'.
      destruct (reshape_spec V veqb out (keep_shape sh l) Hc) as [out' [Ho' [Hsh' [Hf' [Hc' [Hd' Hp']]]]]].
      + rewrite Hsh. apply sel_shape_ok. assumption.
      + apply keep_shape_ok. assumption.
      + rewrite Hsh. symmetry. exact Hsz'.
      + rewrite Ho'. cbn [bind].
        exists (keep_shape sh l), (fun oix => np_fold (map (den x) (np_cells sh caxes (sel 0 caxes oix)))).
        split; [exact Hspec|]. split; [exact Hsh'|]. split.
        * intros oix Hoix. cbn [rres_den]. rewrite Hd' by assumption.
          destruct (keepdims_spec sh l oix) as [_ Hkr]. cbn zeta in Hkr. fold n caxes K in Hkr.
          destruct (Hkr Hoix) as [Hk1 Hk2]. rewrite Hsh, Hk2. rewrite unravel_ravel by assumption.
          apply Hden. assumption.
        * cbn. split; [assumption|]. split; [apply Hp'; assumption|]. rewrite Hsh'.
          intros E. apply (f_equal (@length Z)) in E. rewrite keep_shape_length in E. cbn in E.
          apply Hne. unfold caxes, kept_axes, n, zlen. rewrite E. reflexivity.
    - exists K, (fun oix => np_fold (map (den x) (np_cells sh caxes oix))).
      split; [exact Hspec|]. split; [exact Hsh|]. split.
      + intros oix Hoix. apply Hden. assumption.
      + cbn. split; [assumption|]. split; [assumption|]. rewrite Hsh. assumption.
  Qed.

  (* the flattened array has the same cells *)
  Lemma flatten_cells (sh : shape) : shape_ok sh ->
    Permutation (map (fun ix' => unravel sh (ravel [size sh] ix')) (all_indices [size sh])) (all_indices sh).
  Proof.
    intros Hok. set (N := size sh). pose proof (size_nonneg _ Hok) as HN. fold N in HN.
    assert (HokN : shape_ok [N]) by (repeat constructor; assumption).
    assert (Hrav : forall ix', in_range [N] ix' -> 0 <= ravel [N] ix' < N).
    { intros ix' H. pose proof (ravel_bounds _ _ H) as Hb. cbn [size fold_right] in Hb. lia. }
    apply NoDup_Permutation.
    - apply NoDup_map_inj; [|apply all_indices_NoDup].
      intros a b Ha Hb E. apply all_indices_In in Ha, Hb.
      apply (ravel_inj [N]); auto.
      rewrite <- (ravel_unravel sh (ravel [N] a)) by auto.
      rewrite <- (ravel_unravel sh (ravel [N] b)) by auto. rewrite E. reflexivity.
    - apply all_indices_NoDup.
    - intros y. rewrite in_map_iff, all_indices_In. split.
      + intros [ix' [<- Hin]]. apply all_indices_In in Hin. apply unravel_in_range; auto.
      + intros Hy. exists [ravel sh y]. pose proof (ravel_bounds _ _ Hy) as Hb. fold N in Hb. split.
        * cbn [ravel size fold_right]. replace (ravel sh y * 1 + 0) with (ravel sh y) by lia.
          apply unravel_ravel. assumption.
        * apply all_indices_In. cbn. split; [lia|exact I].
  Qed.

  Lemma np_cells_all sh : np_cells sh [] [] = all_indices sh.
  Proof.
    unfold np_cells. cbn [sel map idx_eqb]. induction (all_indices sh) as [|a l IH]; [reflexivity|].
    cbn. rewrite IH. reflexivity.
  Qed.

  (* the flatten().tocoo() path: reduce the 1-d array over its only axis *)
  Lemma full_spec (x : coo V) l (kd : bool) :
    COOP.canonical V x -> shape_ok (c_shape x) -> c_shape x <> [] ->
    is_perm (zlen (c_shape x)) l ->
    admissible V veqb op cast sup (c_fill x) = true ->
    forall ax, np_norm_axes (zlen (c_shape x)) ax = Ok l ->
    let sh := c_shape x in
    match (x1 <- coo_reshape V [size sh] x ;;
           r <- reduce_coo V veqb op cast sup ident AxNone kd x1 ;;
           if kd then
             match r with
             | RArr c => c' <- coo_reshape V (map (fun _ => 1) sh) c ;; Ok (RArr c')
             | RScalar v => Raise OtherError
             end
           else Ok r) with
    | Ok r => exists osh g, np_reduce ax kd sh (den x) = Ok (osh, g) /\
        rres_shape r = osh /\ (forall oix, in_range osh oix -> g oix = Ok (rres_den r oix)) /\ rres_wf V veqb r
    | Raise e => e = ValueError /\ np_reduce ax kd sh (den x) = Raise ValueError
    end.
  Proof.
    intros Hcan Hok Hne Hperm Hadm ax Hnp. cbn zeta.
    set (sh := c_shape x) in *. set (n := zlen sh) in *. set (N := size sh).
    assert (Hn : n = Z.of_nat (length sh)) by reflexivity.
    pose proof (size_nonneg _ Hok) as HN. fold N in HN.
    assert (HokN : shape_ok [N]) by (repeat constructor; assumption).
    destruct (reshape_spec V veqb x [N] Hcan Hok HokN) as [x1 [Hx1 [Hsh1 [Hf1 [Hc1 [Hd1 _]]]]]].
    { cbn [size fold_right]. fold sh N. lia. }
    fold sh in Hx1, Hd1. rewrite Hx1. cbn [bind].
    (* the Spec of the original reduction *)
    assert (Hkept : kept_axes n l = []) by (apply is_perm_kept_nil; assumption).
    assert (Hszl : size (sel 0 l sh) = N).
    { rewrite (sel_perm_size sh l (zrange n)).
      - unfold n. rewrite sel_id. reflexivity.
      - apply NoDup_Permutation; [apply Hperm|apply NoDup_zrange|]. intros a. rewrite zrange_In. apply Hperm. }
    set (A := np_fold (map (den x) (all_indices sh))).
    assert (Hspec : np_reduce ax kd sh (den x) =
              if (N =? 0) && match ident with None => true | Some _ => false end then Raise ValueError
              else Ok (if kd then map (fun _ => 1) sh else [],
                       fun oix => np_fold (map (den x) (np_cells sh [] (if kd then [] else oix))))).
    { unfold NpReduce.np_reduce. rewrite <- Hn, Hnp. cbn [bind].
      change (np_kept n l) with (kept_axes n l). rewrite Hkept, Hszl.
      change (np_keep_shape sh l) with (keep_shape sh l). rewrite (keep_shape_all_ones sh l Hperm).
      destruct (_ && _); [reflexivity|]. destruct kd; reflexivity. }
    (* the Spec of the 1-d reduction *)
    assert (Hspec1 : np_reduce AxNone kd [N] (den x1) =
              if (N * 1 =? 0) && match ident with None => true | Some _ => false end then Raise ValueError
              else Ok (if kd then [1] else [],
                       fun oix => np_fold (map (den x1) (np_cells [N] [] (if kd then [] else oix))))).
    { unfold NpReduce.np_reduce. cbn [bind]. destruct kd; reflexivity. }
    replace (N * 1) with N in Hspec1 by lia.
    assert (HA : np_fold (map (den x1) (all_indices [N])) = A).
    { unfold A. rewrite (map_ext_in (den x1) (fun ix' => den x (unravel sh (ravel [N] ix')))).
      - rewrite <- (map_map (fun ix' => unravel sh (ravel [N] ix')) (den x)).
        apply np_fold_perm. apply Permutation_map. apply flatten_cells. assumption.
      - intros ix' Hin. apply all_indices_In in Hin. apply Hd1. assumption. }
    pose proof (reduce_den_proof V veqb veqb_eq op op_assoc op_comm cast cast_op sup ident sup_one sup_succ
                  x1 AxNone kd Hc1) as Hred.
    rewrite Hsh1 in Hred. specialize (Hred HokN). rewrite Hf1 in Hred.
    destruct (reduce_coo V veqb op cast sup ident AxNone kd x1) as [r|e].
    2:{ cbn [bind]. destruct Hred as [-> [Hr|Hr]]; [|congruence]. split; [reflexivity|].
        rewrite Hspec1 in Hr. rewrite Hspec. destruct (_ && _); [reflexivity|discriminate]. }
    cbn [bind]. destruct Hred as [osh1 [g1 [Hs1 [Hrs [Hrd Hwf]]]]].
    rewrite Hspec1 in Hs1. rewrite Hspec.
    destruct ((N =? 0) && match ident with None => true | Some _ => false end); [discriminate|].
    inversion Hs1 as [[Ho Hg]]. clear Hs1.
    destruct kd.
    - (* keepdims: the (1,) result reshaped to (1, ..., 1) *)
      destruct r as [c|v]; [|cbn in Hrs; congruence]. cbn in Hrs, Hwf. destruct Hwf as [Hcc [Hpc _]].
      destruct (reshape_spec V veqb c (map (fun _ => 1) sh) Hcc) as [c' [Hc' [Hsh' [Hf' [Hcan' [Hd' Hp']]]]]].
      + rewrite Hrs, <- Ho. repeat constructor. lia.
      + apply Forall_forall. intros y Hy. apply in_map_iff in Hy. destruct Hy as [? [<- _]]. lia.
      + rewrite Hrs, <- Ho, size_ones. reflexivity.
      + rewrite Hc'. cbn [bind]. eexists. eexists. split; [reflexivity|]. split; [exact Hsh'|]. split.
        * intros oix Hoix. cbn [rres_den]. rewrite (Hd' _ Hoix). rewrite Hrs, <- Ho.
          rewrite (ravel_ones sh oix Hoix). change (unravel [1] 0) with [0].
          specialize (Hrd [0]). rewrite <- Ho in Hrd. cbn [rres_den] in Hrd. rewrite <- Hrd by (cbn; lia).
          rewrite <- Hg. rewrite !np_cells_all. symmetry. exact HA.
        * cbn. split; [assumption|]. split; [apply Hp'; assumption|]. rewrite Hsh'.
          destruct sh; [congruence|discriminate].
    - eexists. eexists. split; [reflexivity|]. split; [rewrite Hrs, <- Ho; reflexivity|]. split; [|assumption].
      intros oix Hoix. destruct oix; [|inversion Hoix].
      specialize (Hrd []). rewrite <- Ho in Hrd. rewrite <- Hrd by exact I.
      rewrite <- Hg. rewrite !np_cells_all. symmetry. exact HA.
  Qed.

  (* reduce_den for GCXS, every axis argument *)
  Theorem gcxs_reduce_den_proof (g : gcxs V) ax (kd : bool) :
    gcxs_ok V g -> shape_ok (g_shape g) -> g_shape g <> [] ->
    match gcxs_reduce V veqb op cast sup ident ax kd g with
    | Ok r =>
      exists osh gg, np_reduce ax kd (g_shape g) (gden g) = Ok (osh, gg) /\
        rres_shape r = osh /\ (forall oix, in_range osh oix -> gg oix = Ok (rres_den r oix)) /\
        rres_wf V veqb r
    | Raise e =>
      e = ValueError /\
      (np_reduce ax kd (g_shape g) (gden g) = Raise ValueError
       \/ admissible V veqb op cast sup (g_fill g) = false)
    end.
  Proof.
    intros Hg Hok Hne.
    destruct (gcxs_to_coo_spec V g Hg) as [Hcan [Hsh [Hfill Hden]]].
    set (x := gcxs_to_coo V g) in *.
    (* it suffices to prove the statement for the dense meaning of x *)
    assert (Hgoal : match gcxs_reduce V veqb op cast sup ident ax kd g with
            | Ok r => exists osh gg, np_reduce ax kd (g_shape g) (den x) = Ok (osh, gg) /\
                rres_shape r = osh /\ (forall oix, in_range osh oix -> gg oix = Ok (rres_den r oix)) /\
                rres_wf V veqb r
            | Raise e => e = ValueError /\
                (np_reduce ax kd (g_shape g) (den x) = Raise ValueError
                 \/ admissible V veqb op cast sup (g_fill g) = false)
            end).
    2:{ pose proof (np_reduce_ext (g_shape g) (den x) (gden g) ax kd Hden) as Hext.
        destruct (gcxs_reduce V veqb op cast sup ident ax kd g) as [r|e].
        - destruct Hgoal as [osh [gg [Hs [H1 [H2 H3]]]]]. rewrite Hs in Hext.
          destruct (np_reduce ax kd (g_shape g) (gden g)) as [[osh' gg']|]; [|contradiction].
          destruct Hext as [-> Hgg]. exists osh', gg'. split; [reflexivity|]. split; [assumption|].
          split; [|assumption]. intros oix Hoix. rewrite <- Hgg. apply H2. assumption.
        - destruct Hgoal as [-> [Hs|Hs]]; split; auto. left. rewrite Hs in Hext.
          destruct (np_reduce ax kd (g_shape g) (gden g)) as [[? ?]|]; [contradiction|congruence]. }
    unfold gcxs_reduce, gcxs_reduce_with, head_generic.
    set (sh := g_shape g) in *. set (n := zlen sh) in *. set (f := g_fill g) in *.
    assert (Hn : n = Z.of_nat (length sh)) by reflexivity.
    rewrite <- Hsh in Hok.
    destruct (norm_axes n ax) as [nax|e] eqn:En.
    2:{ cbn [bind]. destruct (norm_axes_raise _ _ _ En) as [-> Hnp]. split; [reflexivity|]. left.
        unfold NpReduce.np_reduce. rewrite <- Hn, Hnp. reflexivity. }
    cbn [bind].
    destruct (admissible V veqb op cast sup f) eqn:Hadm; cbn [negb bind].
    2:{ split; [reflexivity|right; reflexivity]. }
    rewrite <- Hfill in Hadm.
    pose proof (norm_axes_spec _ _ _ En) as Hs.
    destruct nax as [l|].
    - (* a tuple *)
      destruct Hs as [Hax [Hnp Hnp']].
      destruct (nodupb l) eqn:Hd2; cbn [negb].
      2:{ split; [reflexivity|]. left. unfold NpReduce.np_reduce. rewrite <- Hn.
          rewrite Hnp' by (intros H; apply nodupb_NoDup in H; congruence). reflexivity. }
      apply nodupb_NoDup in Hd2. specialize (Hnp Hd2).
      destruct l as [|a0 l0].
      { (* the empty tuple: through COO *)
        assert (Eax : ax = AxTuple []).
        { destruct ax as [|a|l]; cbn in En.
          - discriminate.
          - destruct (norm_axis1 n a); cbn in En; discriminate.
          - destruct l as [|a l]; [reflexivity|]. cbn in En.
            destruct (norm_axis1 n a); cbn in En; [|discriminate].
            destruct (map_res (norm_axis1 n) l); cbn in En; discriminate. }
        subst ax.
        pose proof (reduce_den_proof V veqb veqb_eq op op_assoc op_comm cast cast_op sup ident sup_one sup_succ
                      x (AxTuple []) kd Hcan Hok) as Hred.
        rewrite Hsh in Hred. fold sh in Hred.
        match goal with
        | |- match ?E with Ok _ => _ | Raise _ => _ end =>
          change E with (reduce_coo V veqb op cast sup ident (AxTuple []) kd x)
        end.
        destruct (reduce_coo V veqb op cast sup ident (AxTuple []) kd x) as [r|e]; [exact Hred|].
        destruct Hred as [-> [H|H]]; split; auto. exfalso. congruence. }
      set (l := a0 :: l0) in *.
      destruct (zlist_eqb (zsort l) (zrange n)) eqn:Efull.
      + apply zlist_eqb_eq in Efull. apply zsort_full_iff in Efull. apply perm_zrange_is_perm in Efull.
        rewrite <- Hsh in *.
        eapply weaken_raise; [intros H; left; exact H|].
        apply (full_spec x l kd Hcan Hok); try assumption.
      + assert (Hk : kept_axes n l <> []).
        { intros Hk. apply (kept_nil_perm n l Hd2 Hax) in Hk. apply zsort_full_iff in Hk.
          apply zlist_eqb_eq in Hk. congruence. }
        destruct (kept_axes n l) as [|c0 cs] eqn:Ek; [congruence|].
        rewrite <- Ek. rewrite <- Hsh in *.
        eapply weaken_raise; [intros H; left; exact H|].
        apply (recompress_spec x l kd Hcan Hok Hd2); try assumption.
        change (kept_axes n l <> []). rewrite Ek. discriminate.
    - (* axis=None *)
      subst ax.
      assert (Hperm : is_perm n (zrange n)).
      { split; [apply NoDup_zrange|]. intros a. apply zrange_In. }
      rewrite <- Hsh in *.
      eapply weaken_raise; [intros H; left; exact H|].
      apply (full_spec x (zrange (zlen (c_shape x))) kd Hcan Hok); try assumption. reflexivity.
  Qed.
End GMain.

Lemma idx_nodupb_NoDup l : idx_nodupb l = true -> NoDup l.
Proof.
  induction l as [|a r IH]; simpl; intros H; [constructor|].
  apply andb_true_iff in H. destruct H as [H1 H2]. constructor; [|auto].
  intros Hin. apply negb_true_iff in H1. assert (existsb (idx_eqb a) r = true); [|congruence].
  apply existsb_exists. exists a. split; [assumption|apply idx_eqb_refl].
Qed.

Lemma gcxs_okb_spec {V} (g : gcxs V) : gcxs_okb g = true -> gcxs_ok V g.
Proof.
  unfold gcxs_okb, gcxs_ok. rewrite !andb_true_iff. intros [[H1 H2] H3]. split; [|split].
  - apply Forall_forall. intros ix Hin. rewrite forallb_forall in H1. apply in_rangeb_spec. auto.
  - apply idx_nodupb_NoDup. assumption.
  - apply Nat.eqb_eq. assumption.
Qed.

(* ------------------------------------------------------------------ Z instance *)
Theorem gcxs_reduce_z_eq m : valid_code m -> forall ax kd g,
  gcxs_reduce_z m ax kd g =
  gcxs_reduce Z Z.eqb (op_z m) (ufunc_cast m) (sup_z m) (ufunc_ident m) ax kd g.
Proof.
  intros Hm ax kd g. unfold gcxs_reduce_z, gcxs_reduce, gcxs_reduce_with.
  rewrite (head_z_eq m Hm).
  destruct (head_generic Z Z.eqb (op_z m) (ufunc_cast m) (sup_z m) (zlen (g_shape g)) (g_fill g) ax) as [nax|e];
    cbn [bind]; [|reflexivity].
  destruct nax as [l|].
  - destruct (nodupb l); cbn [negb]; [|reflexivity].
    destruct l as [|a0 l0].
    + change (reduce_coo_with Z Z.eqb (op_z m) (ufunc_cast m) (head_z m) (fix_z m) (rfill_z m) (AxTuple []) kd (gcxs_to_coo Z g))
        with (reduce_coo_z m (AxTuple []) kd (gcxs_to_coo Z g)).
      rewrite (reduce_coo_z_eq m Hm). reflexivity.
    + destruct (zlist_eqb (zsort (a0 :: l0)) (zrange (zlen (g_shape g)))).
      * destruct (coo_reshape Z [size (g_shape g)] (gcxs_to_coo Z g)) as [x1|e]; cbn [bind]; [|reflexivity].
        change (reduce_coo_with Z Z.eqb (op_z m) (ufunc_cast m) (head_z m) (fix_z m) (rfill_z m) AxNone kd x1)
          with (reduce_coo_z m AxNone kd x1).
        rewrite (reduce_coo_z_eq m Hm). reflexivity.
      * destruct (kept_axes (zlen (g_shape g)) (a0 :: l0)) as [|c0 cs]; [reflexivity|].
        destruct (coo_reduce_calc Z (op_z m) (ufunc_cast m) _ (gcxs_to_coo Z g)) as [k|e]; cbn [bind]; [|reflexivity].
        apply (tail_z_eq m Hm).
  - cbn [negb bind].
    destruct (coo_reshape Z [size (g_shape g)] (gcxs_to_coo Z g)) as [x1|e]; cbn [bind]; [|reflexivity].
    change (reduce_coo_with Z Z.eqb (op_z m) (ufunc_cast m) (head_z m) (fix_z m) (rfill_z m) AxNone kd x1)
      with (reduce_coo_z m AxNone kd x1).
    rewrite (reduce_coo_z_eq m Hm). reflexivity.
Qed.

Theorem gcxs_reduce_den_z_proof m : valid_code m -> forall (g : gcxs Z) ax (kd : bool),
  gcxs_ok Z g -> shape_ok (g_shape g) -> g_shape g <> [] ->
  match gcxs_reduce_z m ax kd g with
  | Ok r =>
    exists osh gg,
      np_reduce Z (op_z m) (ufunc_cast m) (ufunc_ident m) ax kd (g_shape g) (gden g) = Ok (osh, gg) /\
      rres_shape r = osh /\ (forall oix, in_range osh oix -> gg oix = Ok (rres_den r oix)) /\
      rres_wf Z Z.eqb r
  | Raise e =>
    e = ValueError /\
    (np_reduce Z (op_z m) (ufunc_cast m) (ufunc_ident m) ax kd (g_shape g) (gden g) = Raise ValueError
     \/ adm_z m (g_fill g) = false)
  end.
Proof.
  intros Hm g ax kd Hg Hok Hne. rewrite (gcxs_reduce_z_eq m Hm).
  apply (gcxs_reduce_den_proof Z Z.eqb Z.eqb_eq (op_z m) (op_z_assoc m Hm) (op_z_comm m Hm) (ufunc_cast m)
           (cast_z_op m Hm) (sup_z m) (ufunc_ident m)); try assumption.
  - intros s f. apply sup_z_one.
  - intros s f k. apply sup_z_succ.
Qed.

(* non-vacuity: a GCXS array (CSR of [[1,0],[0,2]], fill 0) reduced over the axes (1, 0) *)
Definition ex_g2 : gcxs Z := mkGCXS [2; 3] [0] [1; 2; 5] [0; 1; 2] [0; 1; 3] 0.
Example ex_gcxs_proof :
  gcxs_ok Z ex_g2 /\ shape_ok (g_shape ex_g2) /\
  gcxs_reduce_z 0 (AxTuple [1; 0]) true ex_g2 = Ok (RArr (mkCOO [1; 1] [[0; 0]] [8] 0)) /\
  gcxs_reduce_z 3 (AxInt (-1)) false ex_g2 = Ok (RArr (mkCOO [2] [[0]; [1]] [1; 5] 0)).
Proof.
  split; [|split; [|split]].
  - assert (E : gcxs_coords ex_g2 = [[0; 0]; [1; 1]; [1; 2]]) by (vm_compute; reflexivity).
    unfold gcxs_ok. rewrite E. split; [|split].
    + repeat constructor; cbn; lia.
    + repeat constructor; cbn; intuition discriminate.
    + reflexivity.
  - repeat constructor; cbn; lia.
  - vm_compute. reflexivity.
  - vm_compute. reflexivity.
Qed.
