(* Proofs/FillCitesP.v — C07 closes "right at every position (fill included) or ValueError" for the operations it
   does not model itself BY CITATION of the den-level theorems of the properties that own them (C01 element-wise,
   C02 indexing, C03 reductions, C05 conversions, C08 shape operations, C09 joins / extraction).

   (1) `registry`: name -> the cited statement (taken from the cited lemma itself, `type of`) with its proof.  A cited
       lemma that disappears breaks this file; Props/C07.v:fill_right_or_raises_cited ties the names used by
       Model/FillRules.v:fill_discharge to this registry.
   (2) explicit fill corollaries (statement-sensitive) for one representative of each family, in the shape
       "the result's fill and every position are NumPy's, or the call raised ValueError".
   Only Proofs files of the other developments are imported (never their Props files). *)
From Coq Require Import ZArith List Bool String.
From Verif Require Import Py Shape COO COOP.
From Verif Require ShapeOps NpShapeOps ShapeOpsP ShapeOpsGP Join NpJoin JoinP ExtractP JoinG TakeG
  Elemwise ElemwiseP ElemwiseApiP Reduce NpReduce ReduceP ReduceExtP ReduceGcxsP
  NpIndex CooIndex CooIndexNormP CooIndexP DokGetitemP GcxsGetitemNdP Convert ConvertP.
Import ListNotations.
Open Scope string_scope.

(* ------------------------------------------------------------------ (1) the registry *)
Definition thm := {P : Prop | P}.
Notation "'cite' p" := (exist (fun P : Prop => P) _ p : thm) (at level 10, only parsing).

Definition registry : list (string * thm) := [
  ("C01.elemwise2_den", cite ElemwiseP.elemwise2_den_proof);
  ("C01.elemwise_api_den", cite ElemwiseApiP.elemwise_api_den_proof);
  ("C02.coo_getitem_basic", cite CooIndexP.coo_getitem_basic_proof);
  ("C02.dok_getitem_den", cite DokGetitemP.dok_getitem_den_proof);
  ("C02.gcxs_getitem_den", cite GcxsGetitemNdP.gcxs_getitem_den_proof);
  ("C03.reduce_den", cite ReduceP.reduce_den_proof);
  ("C03.gcxs_reduce_den", cite ReduceGcxsP.gcxs_reduce_den_proof);
  ("C03.mean_den", cite ReduceExtP.mean_den_proof);
  ("C03.var_den", cite ReduceExtP.var_den_proof);
  ("C03.nanreduce_den", cite ReduceExtP.nanreduce_den_proof);
  ("C05.conversion_chain_den", cite ConvertP.conversion_chain_den_proof);
  ("C05.change_axes_den", cite ConvertP.change_axes_den_proof);
  ("C05.from_dense_roundtrip", cite ConvertP.from_dense_roundtrip_proof);
  ("C08.transpose_den", cite ShapeOpsP.transpose_den_proof);
  ("C08.T_den", cite ShapeOpsP.T_den_proof);
  ("C08.mT_den", cite ShapeOpsP.mT_den_proof);
  ("C08.swapaxes_den", cite ShapeOpsP.swapaxes_den_proof);
  ("C08.moveaxis_den", cite ShapeOpsP.moveaxis_den_proof);
  ("C08.reshape_den", cite ShapeOpsP.reshape_den_proof);
  ("C08.flatten_den", cite ShapeOpsP.flatten_den_proof);
  ("C08.flip_den", cite ShapeOpsP.flip_den_proof);
  ("C08.roll_axes_den", cite ShapeOpsP.roll_axes_den_proof);
  ("C08.expand_dims_den", cite ShapeOpsP.expand_dims_den_proof);
  ("C08.squeeze_den", cite ShapeOpsP.squeeze_den_proof);
  ("C08.pad_den", cite ShapeOpsP.pad_den_proof);
  ("C08.broadcast_to_den", cite ShapeOpsP.broadcast_to_den_proof);
  ("C08.gcxs_transpose_den", cite ShapeOpsGP.gcxs_transpose_den_proof);
  ("C08.gcxs_reshape_den", cite ShapeOpsGP.gcxs_reshape_den_proof);
  ("C09.coo_concat_den", cite JoinP.coo_concat_den_proof);
  ("C09.coo_stack_den", cite JoinP.coo_stack_den_proof);
  ("C09.coo_join_mixed_fill_rejected", cite JoinP.coo_join_mixed_fill_rejected_proof);
  ("C09.gcxs_concat_correct", cite JoinG.gcxs_concat_correct);
  ("C09.diagonal_den", cite ExtractP.diagonal_den_partial_proof);
  ("C09.diagonalize_den", cite ExtractP.diagonalize_den_proof);
  ("C09.triu_tril_den", cite ExtractP.triu_tril_den_proof);
  ("C09.take_list_getitem", cite TakeG.take_list_getitem_proof)
].

(* the names, as a plain list (what the table check computes with) *)
Definition registry_names : list string := [
  "C01.elemwise2_den"; "C01.elemwise_api_den"; "C02.coo_getitem_basic"; "C02.dok_getitem_den"; "C02.gcxs_getitem_den";
  "C03.reduce_den"; "C03.gcxs_reduce_den"; "C03.mean_den"; "C03.var_den"; "C03.nanreduce_den";
  "C05.conversion_chain_den"; "C05.change_axes_den"; "C05.from_dense_roundtrip";
  "C08.transpose_den"; "C08.T_den"; "C08.mT_den"; "C08.swapaxes_den"; "C08.moveaxis_den"; "C08.reshape_den";
  "C08.flatten_den"; "C08.flip_den"; "C08.roll_axes_den"; "C08.expand_dims_den"; "C08.squeeze_den"; "C08.pad_den";
  "C08.broadcast_to_den"; "C08.gcxs_transpose_den"; "C08.gcxs_reshape_den";
  "C09.coo_concat_den"; "C09.coo_stack_den"; "C09.coo_join_mixed_fill_rejected"; "C09.gcxs_concat_correct";
  "C09.diagonal_den"; "C09.diagonalize_den"; "C09.triu_tril_den"; "C09.take_list_getitem"
].

Lemma registry_names_ok : map fst registry = registry_names.
Proof. reflexivity. Qed.

(* every registered statement holds (it carries its own proof) *)
Theorem registry_sound_proof : forall n (t : thm), In (n, t) registry -> proj1_sig t.
Proof. intros n t _. exact (proj2_sig t). Qed.

(* ------------------------------------------------------------------ (2) explicit fill corollaries *)
(* break a (possibly growing) conjunction into hypotheses; the corollaries then pick the conjuncts they need *)
Ltac conjs H := repeat match type of H with _ /\ _ => let a := fresh "C" in destruct H as [a H] end.

Section Corollaries.
  Variable V : Type.
  Variable veqb : V -> V -> bool.
  Hypothesis veqb_eq : forall a b, veqb a b = true <-> a = b.

  (* element-wise (C01): the fill is f(fills) and every position is f of the operands' positions *)
  Theorem fill_right_elemwise_proof (vzero : V) (f : list V -> V) (a b : coo V) :
    canonical V a -> canonical V b -> c_shape a = c_shape b ->
    let r := Elemwise.elemwise2 V veqb vzero f a b in
    c_fill r = f [c_fill a; c_fill b]
    /\ forall ix, in_range (c_shape a) ix -> den r ix = f [den a ix; den b ix].
  Proof.
    intros Ha Hb Hs. destruct (ElemwiseP.elemwise2_den_proof V veqb vzero f veqb_eq a b Ha Hb Hs) as [_ [Hf [_ [_ Hd]]]].
    split; assumption.
  Qed.

  (* reductions (C03): the result is NumPy's at every position, or the call raised ValueError *)
  Theorem fill_right_or_raises_reduce_proof
      (op : V -> V -> V) (cast : V -> V) (sup : option (V -> Z -> V)) (ident : option V) :
    (forall a b c, op a (op b c) = op (op a b) c) -> (forall a b, op a b = op b a) ->
    (forall a b, cast (op (cast a) (cast b)) = op (cast a) (cast b)) ->
    (forall s f, sup = Some s -> s f 1%Z = cast f) ->
    (forall s f k, sup = Some s -> (1 <= k)%Z -> s f (k + 1)%Z = op (s f k) (cast f)) ->
    forall (x : coo V) ax kd, canonical V x -> shape_ok (c_shape x) ->
      match Reduce.reduce_coo V veqb op cast sup ident ax kd x with
      | Ok r => exists osh g, NpReduce.np_reduce V op cast ident ax kd (c_shape x) (den x) = Ok (osh, g)
                  /\ forall oix, in_range osh oix -> g oix = Ok (Reduce.rres_den r oix)
      | Raise e => e = ValueError
      end.
  Proof.
    intros H1 H2 H3 H4 H5 x ax kd Hc Hs.
    pose proof (ReduceP.reduce_den_proof V veqb veqb_eq op H1 H2 cast H3 sup ident H4 H5 x ax kd Hc Hs) as H.
    destruct (Reduce.reduce_coo V veqb op cast sup ident ax kd x) as [r|e].
    - destruct H as [osh [g [E [_ [Hg _]]]]]. exists osh, g. split; assumption.
    - destruct H as [E _]. exact E.
  Qed.

  (* joins (C09): differently filled operands raise ValueError; equally filled ones give NumPy's concatenation *)
  Theorem fill_right_or_raises_concatenate_proof (vzero : V) (vadd : V -> V -> V) (a : coo V) (r : list (coo V)) :
    ((exists x, In x r /\ c_fill x <> c_fill a) ->
       forall axis, Join.coo_concatenate_src V veqb vzero vadd axis (a :: r) = Raise ValueError)
    /\ (forall axis k, NpJoin.np_norm_axis axis (Join.ndim_of V a) = Some k -> Forall (JoinP.cwf V) (a :: r) ->
          Forall (fun x => JoinP.same_off k (c_shape a) (c_shape x)) r -> Forall (fun x => c_fill x = c_fill a) r ->
          exists c, Join.coo_concatenate_src V veqb vzero vadd (Some axis) (a :: r) = Ok c
                    /\ JoinP.join_result V c a (NpJoin.np_concatenate k (NpJoin.darr_of_coo a) (map NpJoin.darr_of_coo r))).
  Proof.
    split.
    - intros H. exact (proj1 (JoinP.coo_join_mixed_fill_rejected_proof V veqb veqb_eq vzero vadd a r H)).
    - intros axis k. apply (JoinP.coo_concat_den_proof V veqb veqb_eq vzero vadd).
  Qed.

  (* conversions (C05): any chain of format conversions keeps the fill and every position *)
  Theorem fill_right_conversion_proof (add : V -> V -> V) (c0 : coo V) (hops : list Convert.fmt) :
    canonical V c0 -> shape_ok (c_shape c0) -> forallb (Convert.hop_okb (c_shape c0)) hops = true ->
    exists r, Convert.run_chain veqb add (Convert.RCoo c0) hops = Ok r
      /\ Convert.fill_r r = c_fill c0 /\ forall ix, in_range (c_shape c0) ix -> Convert.den_r r ix = den c0 ix.
  Proof.
    intros H1 H2 H3.
    destruct (ConvertP.conversion_chain_den_proof V veqb add veqb_eq c0 hops H1 H2 H3) as [r [E [_ [_ [Hf Hd]]]]].
    exists r. repeat split; assumption.
  Qed.
End Corollaries.

(* indexing (C02): basic indices keep the fill; every position of the result is the operand's *)
Theorem fill_right_getitem_proof (V : Type) (kf : nat -> nat) (x : coo V) (ix : NpIndex.index) sh' g (y : coo V) :
  canonical V x -> CooIndexNormP.shape_okb (c_shape x) = true -> CooIndexNormP.no_zero_step ix = true ->
  CooIndexP.basic ix = true ->
  NpIndex.np_index (c_shape x) ix = Ok (sh', g) -> CooIndex.getitem kf x ix = Ok (CooIndex.GArr y) ->
  c_fill y = c_fill x /\ forall j, in_range sh' j -> den y j = den x (g j).
Proof.
  intros H1 H2 H3 H4 E1 E2. pose proof (CooIndexP.coo_getitem_basic_proof V kf x ix H1 H2 H3 H4) as H.
  rewrite E1, E2 in H. conjs H. split; assumption.
Qed.

(* shape operations (C08): the fill is unchanged and every position is NumPy's *)
Theorem fill_right_transpose_proof (V : Type) (x : coo V) axes r :
  canonical V x -> ShapeOps.coo_transpose x axes = Ok r ->
  c_fill r = c_fill x
  /\ forall ix, in_range (c_shape r) ix ->
       den r ix = NpShapeOps.np_transpose (ShapeOpsP.tr_perm (ShapeOps.ndim x) axes) (den x) ix.
Proof.
  intros Hc E. pose proof (ShapeOpsP.transpose_den_proof V x Hc axes r E) as H. cbv zeta in H. conjs H. split; assumption.
Qed.

Theorem fill_right_reshape_proof (V : Type) (x : coo V) new r :
  canonical V x -> shape_ok (c_shape x) -> ShapeOps.coo_reshape x new = Ok r ->
  c_fill r = c_fill x
  /\ forall ix, in_range (c_shape r) ix -> den r ix = NpShapeOps.np_reshape (c_shape x) (c_shape r) (den x) ix.
Proof.
  intros Hc Hs E. pose proof (ShapeOpsP.reshape_den_proof V x Hc Hs new r E) as H. conjs H. split; assumption.
Qed.

Theorem fill_right_flip_proof (V : Type) (veqb : V -> V -> bool) (x : coo V) axis r :
  canonical V x -> ShapeOps.coo_flip x axis = Ok r -> c_fill r = c_fill x /\ c_shape r = c_shape x.
Proof.
  intros Hc E. pose proof (ShapeOpsP.flip_den_proof V veqb x Hc axis r E) as H. cbv zeta in H. conjs H. split; assumption.
Qed.

(* ------------------------------------------------------------------ (3) the table obligations *)
From Verif Require PyFill S_fill FillRules.

(* every PUBLIC row of the generated table has a discharge entry that checks: ByGuard rows have a guard policy and pass
   site_ok, ByCite rows name a theorem of the registry, NotApplicable rows have policy NoArrayResult *)
Theorem fill_right_or_raises_cited_proof :
  forallb (FillRules.discharge_ok registry_names S_fill.sites) S_fill.sites = true.
Proof. vm_compute. reflexivity. Qed.

(* no entry of the discharge table names a vanished or private operation *)
Theorem fill_discharge_no_stale_proof :
  forallb (fun kd => match FillRules.find_site S_fill.sites (fst kd) with
                     | Some s => PyFill.s_public s
                     | None => false
                     end) FillRules.fill_discharge = true.
Proof. vm_compute. reflexivity. Qed.

(* the counts reported in the evidence: (by guard, by citation, campaign only, not applicable) *)
Definition discharge_counts : nat * nat * nat * nat :=
  (FillRules.count_discharge (fun d => match d with FillRules.ByGuard => true | _ => false end),
   FillRules.count_discharge (fun d => match d with FillRules.ByCite _ => true | _ => false end),
   FillRules.count_discharge (fun d => match d with FillRules.CampaignOnly => true | _ => false end),
   FillRules.count_discharge (fun d => match d with FillRules.NotApplicable => true | _ => false end)).
Example discharge_counts_value : discharge_counts = (22, 95, 36, 42)%nat.
Proof. vm_compute. reflexivity. Qed.
